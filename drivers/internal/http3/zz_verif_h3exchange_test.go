// /verif driver for the HTTP/3 end-to-end exchange (family h3exchange: C34).  Injected with
// `go test -overlay`; nothing here decides the property: every case comes from TLC
// (specs/h3exchange/H3Exchange.tla) as an exchange description -- per direction the chunks the
// sending application writes, the declared Content-Length, trailers -- together with the set of
// reader outcomes the specification allows.  The driver runs the exchange between the real
// HTTP/3 client (transport.dial + clientConn.RoundTrip) and the real HTTP/3 server
// (server.serve + handler) over two real QUIC endpoints on the package's in-memory network,
// optionally behind a datagram fault script (drop / duplicate / reorder, ending after a number
// of datagrams), inside a synctest bubble, and reports where what the handler and the client
// application saw is not the identity image of what the other side sent, or is an outcome
// outside the allowed set.

package http3

import (
	"bytes"
	"context"
	"encoding/json"
	"errors"
	"fmt"
	"io"
	"math/rand"
	"net"
	"net/http"
	"os"
	"reflect"
	"strconv"
	"strings"
	"sync"
	"sync/atomic"
	"testing"
	"testing/synctest"
	"time"

	"golang.org/x/net/quic"
)

func TestVerifH3Exchange(t *testing.T) {
	env := vfLoad(t)
	if env == nil {
		return
	}
	items := env.Items()
	batch := env.Int("batch", 25)
	go vfH3XWatchdog(env) // outside the bubbles: real clock
	for start := 0; start < len(items) && !env.Hung; start += batch {
		end := min(start+batch, len(items))
		synctest.Test(t, func(t *testing.T) {
			for _, it := range items[start:end] {
				if env.Hung {
					break
				}
				var c vfH3XCase
				if err := json.Unmarshal(it.V, &c); err != nil {
					t.Fatalf("item %d: %v", it.B, err)
				}
				vfH3XRun(t, env, it.B, c)
			}
		})
	}
	env.Finish(nil)
}

// Code that spins never lets the bubble's clock advance.  The watchdog runs on the real clock,
// outside the bubbles: when no exchange has finished for a long time it reports the current one
// as a hang, writes the result file and ends the process.
var (
	vfH3XProgress atomic.Int64
	vfH3XCurrent  atomic.Int64
)

func vfH3XWatchdog(env *vfEnv) {
	last, stuck := int64(-1), 0
	for {
		time.Sleep(time.Second)
		if p := vfH3XProgress.Load(); p != last {
			last, stuck = p, 0
			continue
		}
		if stuck++; stuck < 60 {
			continue
		}
		env.Hung = true
		env.Mismatch(int(vfH3XCurrent.Load()), 0, "hang", "the exchange finishes", "no progress for 60 s of real time")
		env.Finish(nil)
		os.Exit(1)
	}
}

// ---------------------------------------------------------------------------- cases

type vfH3XOut struct {
	R    string `json:"r"` // complete | err
	N    int    `json:"n"`
	Tl   bool   `json:"tl"`
	Werr bool   `json:"werr"`
}

type vfH3XDir struct {
	Chunks []int      `json:"chunks"`
	Cl     int        `json:"cl"` // -1: none
	Tl     bool       `json:"tl"`
	Allow  []vfH3XOut `json:"allow"`
}

type vfH3XCase struct {
	Req  vfH3XDir `json:"req"`
	Resp vfH3XDir `json:"resp"`
	Net  string   `json:"net"`
}

func (d vfH3XDir) total() int {
	n := 0
	for _, c := range d.Chunks {
		n += c
	}
	return n
}

func (d vfH3XDir) allows(o vfH3XOut) bool {
	for _, a := range d.Allow {
		if a.R == "err" && o.R == "err" {
			return true
		}
		if a == o {
			return true
		}
	}
	return false
}

// vfH3XPattern is the body content: octet i depends on i and on the direction only.
func vfH3XPattern(n int, salt byte) []byte {
	b := make([]byte, n)
	for i := range b {
		b[i] = byte(i*7+i/251) ^ salt
	}
	return b
}

// ---------------------------------------------------------------------------- network faults

// vfH3XNet applies a datagram fault script to everything one endpoint sends.  Scripts end: after
// `limit` datagrams the network is perfect.  drop3, dup, reorder and mix never lose two datagrams
// in a row, so a loss is repaired by the first probe.  drop2 loses every second datagram and can
// swallow probe after probe; QUIC then backs off exponentially and a script bounded by datagram
// count alone would stay hostile for hours of bubble time, which no transport has to survive:
// drop2 also ends at `until` (bubble clock, a few seconds after the endpoint was made).
type vfH3XNet struct {
	*testPacketConn
	mu    sync.Mutex
	mode  string
	n     int
	limit int
	until time.Time
	held  []byte
	hdst  net.Addr
}

func (c *vfH3XNet) WriteTo(p []byte, dst net.Addr) (int, error) {
	c.mu.Lock()
	defer c.mu.Unlock()
	c.n++
	send := func(q []byte, to net.Addr) { c.testPacketConn.WriteTo(q, to) }
	flush := func() {
		if c.held != nil {
			send(c.held, c.hdst)
			c.held = nil
		}
	}
	if c.n > c.limit || c.mode == "perfect" || (c.mode == "drop2" && !time.Now().Before(c.until)) {
		send(p, dst)
		flush()
		return len(p), nil
	}
	switch c.mode {
	case "drop3":
		if c.n%3 == 0 {
			return len(p), nil
		}
		send(p, dst)
	case "drop2":
		if c.n%2 == 0 {
			return len(p), nil
		}
		send(p, dst)
	case "dup":
		send(p, dst)
		if c.n%2 == 0 {
			send(p, dst)
		}
	case "reorder":
		if c.held == nil && c.n%2 == 0 {
			c.held, c.hdst = bytes.Clone(p), dst
		} else {
			send(p, dst)
			flush()
		}
	case "mix":
		switch c.n % 5 {
		case 0:
			return len(p), nil
		case 2:
			send(p, dst)
			send(p, dst)
		case 3:
			if c.held == nil {
				c.held, c.hdst = bytes.Clone(p), dst
				return len(p), nil
			}
			fallthrough
		default:
			send(p, dst)
			flush()
		}
	default:
		send(p, dst)
	}
	return len(p), nil
}

// ---------------------------------------------------------------------------- one exchange

type vfH3XChunkReader struct {
	chunks [][]byte
	atEOF  func()
}

func (r *vfH3XChunkReader) Read(p []byte) (int, error) {
	for len(r.chunks) > 0 && len(r.chunks[0]) == 0 {
		r.chunks = r.chunks[1:]
	}
	if len(r.chunks) == 0 {
		if r.atEOF != nil {
			r.atEOF()
			r.atEOF = nil
		}
		return 0, io.EOF
	}
	n := copy(p, r.chunks[0])
	r.chunks[0] = r.chunks[0][n:]
	return n, nil
}

func (r *vfH3XChunkReader) Close() error { return nil }

const vfH3XTrailer = "X-Verif-Trailer"

var vfH3XHeaderPool = []struct {
	name   string
	values []string
}{
	{"X-Verif-A", []string{"1"}},
	{"X-Verif-B", []string{"two words", "second value"}},
	{"X-Verif-Empty", []string{""}},
	{"X-Verif-Long", []string{string(bytes.Repeat([]byte("z"), 300))}},
	{"X-Verif-Sym", []string{"a=b; c=\"d\", e"}},
}

func vfH3XPickHeaders(rnd *rand.Rand) http.Header {
	h := http.Header{}
	for _, e := range vfH3XHeaderPool {
		if rnd.Intn(2) == 0 {
			h[e.name] = append([]string{}, e.values...)
		}
	}
	return h
}

func vfH3XOnlyVerif(h http.Header) http.Header {
	out := http.Header{}
	for k, v := range h {
		if len(k) > 8 && k[:8] == "X-Verif-" && k != vfH3XTrailer {
			out[k] = v
		}
	}
	return out
}

type vfH3XSeen struct {
	// at the handler
	called    bool
	method    string
	uri       string
	reqHdr    http.Header
	reqBody   []byte
	reqErr    error
	reqTrl    []string
	writeErr  bool
	handlerOK bool
	// at the client application
	rtErr    error
	status   int
	respHdr  http.Header
	respBody []byte
	respErr  error
	respTrl  []string
	connErr  string // why the client's QUIC connection ended, if it did before the client closed it
}

func vfH3XRun(t *testing.T, env *vfEnv, b int, c vfH3XCase) {
	vfH3XCurrent.Store(int64(b))
	defer vfH3XProgress.Add(1)
	rnd := env.Rand(int64(b))
	reqData := vfH3XPattern(c.Req.total(), 0x00)
	respData := vfH3XPattern(c.Resp.total(), 0xa5)
	reqHdr := vfH3XPickHeaders(rnd)
	respHdr := vfH3XPickHeaders(rnd)
	status := []int{200, 200, 404, 500}[rnd.Intn(4)]
	uri := fmt.Sprintf("/x/%d?q=%d", b, rnd.Intn(100))
	prefixTrailer := rnd.Intn(2) == 0 // announce response trailers with http.TrailerPrefix instead of Trailer
	flush := make([]bool, len(c.Resp.Chunks))
	for i := range flush {
		flush[i] = rnd.Intn(3) == 0
	}
	seen := &vfH3XSeen{}

	handler := http.HandlerFunc(func(w http.ResponseWriter, r *http.Request) {
		seen.called = true
		seen.method, seen.uri, seen.reqHdr = r.Method, r.RequestURI, vfH3XOnlyVerif(r.Header)
		seen.reqBody, seen.reqErr = io.ReadAll(r.Body)
		seen.reqTrl = r.Trailer[vfH3XTrailer]
		if seen.reqErr != nil {
			w.WriteHeader(http.StatusBadRequest)
			return
		}
		h := w.Header()
		for k, v := range respHdr {
			h[k] = v
		}
		if c.Resp.Cl >= 0 {
			h.Set("Content-Length", strconv.Itoa(c.Resp.Cl))
		}
		if c.Resp.Tl && !prefixTrailer {
			h.Set("Trailer", vfH3XTrailer)
		}
		w.WriteHeader(status)
		off := 0
		for i, n := range c.Resp.Chunks {
			if _, err := w.Write(respData[off : off+n]); err != nil {
				seen.writeErr = true
			}
			off += n
			if flush[i] {
				w.(http.Flusher).Flush()
			}
		}
		if c.Resp.Tl {
			if prefixTrailer {
				h.Set(http.TrailerPrefix+vfH3XTrailer, "resp-trailer")
			} else {
				h.Set(vfH3XTrailer, "resp-trailer")
			}
		}
		seen.handlerOK = true
	})

	// two real endpoints on the package's in-memory network, each behind the fault script
	config := &quic.Config{TLSConfig: testTLSConfig}
	tn := &testNet{}
	limit := 40 + rnd.Intn(200)
	until := time.Now().Add(time.Duration(500+rnd.Intn(3000)) * time.Millisecond)
	newEndpoint := func() *quic.Endpoint {
		e, err := quic.NewEndpoint(&vfH3XNet{testPacketConn: tn.newPacketConn(), mode: c.Net, limit: limit, until: until}, config)
		if err != nil {
			t.Fatal(err)
		}
		t.Cleanup(func() { e.Close(canceledCtx) })
		return e
	}
	es := newEndpoint()
	srv := &server{config: config, handler: handler}
	go srv.serve(es)
	ec := newEndpoint()
	tr := &transport{endpoint: ec, config: config, tr1: new(http.Transport), activeConns: make(map[*clientConn]struct{})}

	ctx, cancel := context.WithCancel(t.Context())
	defer cancel()
	done := make(chan struct{})
	var pan string
	go func() {
		defer close(done)
		pan = vfCatch(func() {
			cc, err := tr.dial(ctx, es.LocalAddr().String(), nil)
			if err != nil {
				seen.rtErr = fmt.Errorf("dial: %w", err)
				return
			}
			defer cc.Close()
			defer func() {
				if err := cc.qconn.Wait(canceledCtx); err != nil && !errors.Is(err, context.Canceled) {
					seen.connErr = err.Error()
				}
			}()
			var chunks [][]byte
			off := 0
			for _, n := range c.Req.Chunks {
				chunks = append(chunks, reqData[off:off+n])
				off += n
			}
			method := "POST"
			var body io.ReadCloser = &vfH3XChunkReader{chunks: chunks}
			if c.Req.Cl == 0 {
				body = http.NoBody
			}
			if len(c.Req.Chunks) == 0 && c.Req.Cl < 0 && !c.Req.Tl && rnd.Intn(2) == 0 {
				method, body = "GET", nil
			}
			req, _ := http.NewRequestWithContext(ctx, method, "https://verif.test"+uri, body)
			req.ContentLength = int64(c.Req.Cl)
			if body == nil {
				req.ContentLength = 0
			}
			for k, v := range reqHdr {
				req.Header[k] = v
			}
			if c.Req.Tl {
				req.Trailer = http.Header{vfH3XTrailer: nil}
				set := func() { req.Trailer[vfH3XTrailer] = []string{"req-trailer"} }
				if cr, ok := body.(*vfH3XChunkReader); ok {
					cr.atEOF = set
				} else {
					set()
				}
			}
			resp, err := cc.RoundTrip(req)
			if err != nil {
				seen.rtErr = err
				return
			}
			seen.status, seen.respHdr = resp.StatusCode, vfH3XOnlyVerif(resp.Header)
			seen.respBody, seen.respErr = io.ReadAll(resp.Body)
			seen.respTrl = resp.Trailer[vfH3XTrailer]
			resp.Body.Close()
		})
	}()
	select {
	case <-done:
	case <-time.After(30 * time.Minute): // bubble time: every retransmission and idle timer has fired long before
		env.Hung = true
		env.Mismatch(b, 0, "hang", "the exchange finishes", "still running after 30 minutes of bubble time")
		cancel()
		<-done
		return
	}
	synctest.Wait()
	env.Replayed(2)
	if pan != "" {
		env.Mismatch(b, 0, "panic", "no panic", pan)
		return
	}
	act := func() map[string]any {
		es := func(e error) string {
			if e == nil {
				return ""
			}
			return e.Error()
		}
		return map[string]any{"called": seen.called, "reqLen": len(seen.reqBody), "reqErr": es(seen.reqErr),
			"reqTrl": seen.reqTrl, "rtErr": es(seen.rtErr), "status": seen.status, "respLen": len(seen.respBody),
			"respErr": es(seen.respErr), "respTrl": seen.respTrl, "writeErr": seen.writeErr, "net": c.Net,
			"connErr": seen.connErr}
	}
	// the connection itself died (QUIC gave up): a class of its own, whatever the description was
	lost := func(dir string) string {
		if seen.connErr != "" {
			why := "other"
			if strings.Contains(seen.connErr, "idle timeout") {
				why = "idle-timeout"
			}
			return dir + ":lost-connection:" + why
		}
		return ""
	}

	// ---- request direction: what the handler observed
	reqOut := vfH3XOut{R: "err"}
	if seen.called && seen.reqErr == nil {
		reqOut = vfH3XOut{R: "complete", N: len(seen.reqBody), Tl: len(seen.reqTrl) > 0, Werr: seen.rtErr != nil}
	}
	if !bytes.HasPrefix(reqData, seen.reqBody) {
		env.Mismatch(b, 0, "req:body-not-a-prefix", "prefix of the octets sent", act())
		return
	}
	if !c.Req.allows(reqOut) {
		what := fmt.Sprintf("req:outcome:%s", vfH3XClass(c.Req, reqOut, "declared"))
		if l := lost("req"); l != "" && reqOut.R == "err" {
			what = l
		}
		env.Mismatch(b, 0, what, c.Req.Allow, act())
		return
	}
	if seen.called {
		wantMethod := "POST"
		if len(c.Req.Chunks) == 0 && c.Req.Cl < 0 && !c.Req.Tl && seen.method == "GET" {
			wantMethod = "GET" // the driver's own choice above
		}
		if seen.method != wantMethod || seen.uri != uri || !reflect.DeepEqual(seen.reqHdr, reqHdr) {
			env.Mismatch(b, 0, "req:head", map[string]any{"uri": uri, "hdr": reqHdr},
				map[string]any{"method": seen.method, "uri": seen.uri, "hdr": seen.reqHdr})
			return
		}
	}
	if reqOut.R == "complete" && reqOut.Tl && !(len(seen.reqTrl) == 1 && seen.reqTrl[0] == "req-trailer") {
		env.Mismatch(b, 0, "req:trailer-value", "req-trailer", act())
		return
	}
	if reqOut.R != "complete" || reqOut.Werr {
		return // the response to a failed request is not judged
	}

	// ---- response direction: what the client application observed
	respOut := vfH3XOut{R: "err"}
	if seen.rtErr == nil && seen.respErr == nil {
		respOut = vfH3XOut{R: "complete", N: len(seen.respBody), Tl: len(seen.respTrl) > 0, Werr: seen.writeErr}
	}
	if !bytes.HasPrefix(respData, seen.respBody) {
		env.Mismatch(b, 1, "resp:body-not-a-prefix", "prefix of the octets sent", act())
		return
	}
	if !c.Resp.allows(respOut) {
		what := fmt.Sprintf("resp:outcome:%s", vfH3XClass(c.Resp, respOut, map[bool]string{true: "prefix", false: "declared"}[prefixTrailer]))
		if l := lost("resp"); l != "" && respOut.R == "err" {
			what = l
		}
		env.Mismatch(b, 1, what, c.Resp.Allow, act())
		return
	}
	if seen.rtErr == nil {
		if seen.status != status || !reflect.DeepEqual(seen.respHdr, respHdr) {
			env.Mismatch(b, 1, "resp:head", map[string]any{"status": status, "hdr": respHdr},
				map[string]any{"status": seen.status, "hdr": seen.respHdr})
			return
		}
	}
	if respOut.R == "complete" && respOut.Tl && !(len(seen.respTrl) == 1 && seen.respTrl[0] == "resp-trailer") {
		env.Mismatch(b, 1, "resp:trailer-value", "resp-trailer", act())
	}
}

// vfH3XClass names the class of a disallowed outcome (it feeds the finding signature).
func vfH3XClass(d vfH3XDir, o vfH3XOut, tlmode string) string {
	rel := "cl=none"
	switch {
	case d.Cl == 0 && d.total() == 0:
		rel = "cl=eq0"
	case d.Cl >= 0 && d.Cl == d.total():
		rel = "cl=eq"
	case d.Cl >= 0 && d.Cl < d.total():
		rel = "cl<body"
	case d.Cl >= 0:
		rel = "cl>body"
	}
	got := o.R
	if o.R == "complete" {
		switch {
		case o.N == d.total():
			got += ":all"
		case o.N == d.Cl:
			got += ":cl"
		default:
			got += ":other"
		}
		got += fmt.Sprintf(":tl=%v:werr=%v", o.Tl, o.Werr)
	}
	tl := "none"
	if d.Tl {
		tl = tlmode
	}
	return fmt.Sprintf("%s;tl=%s;%s", rel, tl, got)
}
