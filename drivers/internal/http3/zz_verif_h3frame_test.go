// /verif driver for HTTP/3 stream framing (family h3frame: C35).  Injected with
// `go test -overlay`; nothing here decides the property: every case comes from TLC
// (specs/h3frame/H3Frame.tla) as an abstract frame sequence with the observation the reader
// machine of the specification predicts before and after FIN; the driver turns it into octets,
// writes them on one end of a real QUIC stream (in-memory network of the package's own tests,
// inside a synctest bubble, stepped to quiescence) and lets the real stream readers consume the
// other end:
//
//	req   serverConn: genericConn.handleRequestStream -> parseHeader -> handler reading Request.Body
//	resp  clientConn.RoundTrip -> reading Response.Body -> Body.Close
//	ctl   genericConn.handleUnidirectionalStream -> handleControlStream (server and client side)
//	uni   the same entry point with an unknown stream type
//
// The acceptor entry points are called from the driver's own goroutine (exactly as
// genericConn.acceptStreams calls them) so that a panic is an observation, not a dead process.
// Payload octets are marked: octet j of the k-th frame is 16*k+j in DATA frames and 0x80|(16*k+j)
// in unknown frames, so the body octets observed say which frame they came from.

package http3

import (
	"context"
	"encoding/json"
	"errors"
	"fmt"
	"io"
	"math/rand"
	"net/http"
	"os"
	"strings"
	"sync/atomic"
	"testing"
	"testing/synctest"
	"time"

	"golang.org/x/net/quic"
)

func TestVerifH3Frame(t *testing.T) {
	env := vfLoad(t)
	if env == nil {
		return
	}
	items := env.Items()
	batch := env.Int("batch", 150)
	go vfH3FWatchdog(env) // outside the bubbles: real clock
	for start := 0; start < len(items) && !env.Hung; start += batch {
		end := min(start+batch, len(items))
		synctest.Test(t, func(t *testing.T) {
			h := &vfH3FHarness{t: t, env: env}
			for _, it := range items[start:end] {
				var c vfH3FCase
				if err := json.Unmarshal(it.V, &c); err != nil {
					t.Fatalf("item %d: %v", it.B, err)
				}
				h.runItem(it.B, c)
			}
			h.closeConn()
		})
	}
	env.Finish(nil)
}

// A reader that spins (instead of blocking) never lets synctest.Wait return.  The watchdog runs on
// the real clock, outside the bubbles: when no case has finished for a long time it reports the
// current case as a hang, writes the result file and ends the process.
var (
	vfH3FProgress atomic.Int64
	vfH3FCurrent  atomic.Value // vfH3FNow
)

type vfH3FNow struct {
	b    int
	kind string
	tag  string
}

func vfH3FWatchdog(env *vfEnv) {
	last, stuck := int64(-1), 0
	for {
		time.Sleep(time.Second)
		if p := vfH3FProgress.Load(); p != last {
			last, stuck = p, 0
			continue
		}
		if stuck++; stuck < 45 {
			continue
		}
		now, _ := vfH3FCurrent.Load().(vfH3FNow)
		env.Hung = true
		env.Mismatch(now.b, 0, "hang", "the reader blocks or returns", "no progress for 45 s of real time in "+now.tag)
		env.Finish(nil)
		os.Exit(1)
	}
}

// ---------------------------------------------------------------------------- cases

type vfH3FFrame struct {
	Ty   string `json:"ty"`
	Decl int    `json:"decl"`
	Pres int    `json:"pres"`
	Sh   string `json:"sh"`
}

type vfH3FPred struct {
	Body  []int  `json:"body"`
	St    string `json:"st"`
	Codes []int  `json:"codes"`
	Alt   bool   `json:"alt"`
}

type vfH3FCase struct {
	Kind   string       `json:"kind"`
	Frames []vfH3FFrame `json:"frames"`
	Tail   string       `json:"tail"`
	Data   []int        `json:"data"`
	Pre    vfH3FPred    `json:"pre"`
	Post   vfH3FPred    `json:"post"`
}

// vfH3FObs is what the real reader showed at a quiescent point.
type vfH3FObs struct {
	End   string `json:"end"` // blocked | eof | err | panic
	Code  int    `json:"code"`
	Body  []int  `json:"body"`
	Text  string `json:"text,omitempty"`
	Abort bool   `json:"abort,omitempty"`
}

// ---------------------------------------------------------------------------- octets

func vfH3FVarint(b []byte, v uint64, size int) []byte {
	if size == 0 {
		size = sizeVarint(v)
	}
	switch size {
	case 1:
		return append(b, byte(v))
	case 2:
		return append(b, 0x40|byte(v>>8), byte(v))
	case 4:
		return append(b, 0x80|byte(v>>24), byte(v>>16), byte(v>>8), byte(v))
	default:
		return append(b, 0xc0|byte(v>>56), byte(v>>48), byte(v>>40), byte(v>>32), byte(v>>24), byte(v>>16), byte(v>>8), byte(v))
	}
}

// padded picks a legal varint size for v: usually minimal, sometimes longer than needed.
func vfH3FPadded(rnd *rand.Rand, v uint64) int {
	m := sizeVarint(v)
	if rnd.Intn(4) != 0 {
		return m
	}
	sizes := []int{1, 2, 4, 8}
	var ok []int
	for _, s := range sizes {
		if s >= m {
			ok = append(ok, s)
		}
	}
	return ok[rnd.Intn(len(ok))]
}

var vfH3FUnknownTypes = []uint64{0x21, 0x40, 0x21 + 0x1f*100, 0x21 + 0x1f*(1<<20), 0x21 + 0x1f*(1<<40)}
var vfH3FKnownTypes = []uint64{uint64(frameTypeCancelPush), uint64(frameTypeGoaway), uint64(frameTypeMaxPushID), uint64(frameTypePushPromise)}

func vfH3FSection(kind string, initial bool) []byte {
	var enc qpackEncoder
	enc.init()
	return enc.encode(func(f func(itype indexType, name, value string)) {
		switch {
		case !initial:
			f(mayIndex, "x-verif-trailer", "t")
		case kind == "req":
			f(mayIndex, ":method", "POST")
			f(mayIndex, ":scheme", "https")
			f(mayIndex, ":authority", "verif.test")
			f(mayIndex, ":path", "/")
			f(mayIndex, "trailer", "x-verif-trailer")
		default:
			f(mayIndex, ":status", "200")
			f(mayIndex, "trailer", "x-verif-trailer")
		}
	})
}

const vfH3FOverVariants = 5
const vfH3FTruncVariants = 6

// vfH3FBytes renders the abstract frames as octets.  variant selects how "over" and "trunc"
// shapes are realised.
func vfH3FBytes(rnd *rand.Rand, c vfH3FCase, variant int) []byte {
	var b []byte
	seenH := false
	for i, f := range c.Frames {
		k := i + 1
		last := i == len(c.Frames)-1
		switch f.Ty {
		case "D", "U":
			ty := uint64(frameTypeData)
			mark := 0
			if f.Ty == "U" {
				ty = vfH3FUnknownTypes[rnd.Intn(len(vfH3FUnknownTypes))]
				mark = 0x80
			}
			b = vfH3FVarint(b, ty, vfH3FPadded(rnd, ty))
			b = vfH3FVarint(b, uint64(f.Decl), vfH3FPadded(rnd, uint64(f.Decl)))
			for j := 0; j < f.Pres; j++ {
				b = append(b, byte(mark|(16*k+j)))
			}
		case "K":
			ty := vfH3FKnownTypes[rnd.Intn(len(vfH3FKnownTypes))]
			b = vfH3FVarint(b, ty, 0)
			b = vfH3FVarint(b, 1, 0)
			b = append(b, 0x00)
		case "S":
			b = vfH3FVarint(b, uint64(frameTypeSettings), vfH3FPadded(rnd, uint64(frameTypeSettings)))
			switch f.Sh {
			case "fit":
				switch rnd.Intn(3) {
				case 0:
					b = vfH3FVarint(b, 0, 0)
				case 1:
					b = append(vfH3FVarint(b, 2, 0), 0x21, 0x05)
				default:
					b = append(vfH3FVarint(b, 6, 0), 0x40, 0x21, 0x05, 0x06, 0x40, 0x00)
				}
			case "over":
				if variant%2 == 0 {
					b = append(vfH3FVarint(b, 1, 0), 0x21) // identifier fits, the value lies outside
				} else {
					b = append(vfH3FVarint(b, 3, 0), 0x21, 0x05, 0x40) // a varint straddles the end
				}
				if last {
					b = append(b, 0x21, 0x00, 0x00)
				}
			case "trunc":
				if variant%2 == 0 {
					b = append(vfH3FVarint(b, 4, 0), 0x21, 0x05) // ends between two varints
				} else {
					b = append(vfH3FVarint(b, 5, 0), 0x21, 0x05, 0x40) // ends inside a varint
				}
			}
		case "H":
			initial := !seenH
			sec := vfH3FSection(c.Kind, initial)
			seenH = true
			b = vfH3FVarint(b, uint64(frameTypeHeaders), vfH3FPadded(rnd, uint64(frameTypeHeaders)))
			switch f.Sh {
			case "fit":
				b = vfH3FVarint(b, uint64(len(sec)), vfH3FPadded(rnd, uint64(len(sec))))
				b = append(b, sec...)
			case "over":
				var p []byte
				switch variant % vfH3FOverVariants {
				case 0: // no room for the section prefix at all
					p = nil
				case 1: // half a prefix
					p = []byte{0x00}
				case 2: // a name reference whose index continues beyond the frame
					p = append(append(p, sec...), 0x5f)
				case 3: // a literal name whose length continues beyond the frame
					p = append(append(p, sec...), 0x27)
				default: // a string longer than the rest of the frame
					p = append(append(p, sec...), 0x21, 0x61, 0x05)
				}
				b = vfH3FVarint(b, uint64(len(p)), 0)
				b = append(b, p...)
				if last {
					b = append(b, 0x00, 0x00, 0x00, 0x00, 0x00, 0x00)
				}
			case "trunc":
				// truncation by exactly one octet at every structural boundary of the payload,
				// and the bare frame header
				tv := variant % vfH3FTruncVariants
				if initial && (tv == 3 || tv == 4) {
					// a leading HEADERS frame without its mandatory pseudo-header fields is also a
					// malformed message: which of the two errors wins is not C35's business
					tv = 2
				}
				switch tv {
				case 0: // the last octet of the section (inside a string literal) is missing
					b = vfH3FVarint(b, uint64(len(sec)), 0)
					b = append(b, sec[:len(sec)-1]...)
				case 1: // nothing behind the length varint
					b = vfH3FVarint(b, uint64(len(sec)), 0)
				case 2: // every field line complete, the frame claims one octet more
					b = vfH3FVarint(b, uint64(len(sec)+1), 0)
					b = append(b, sec...)
				case 3: // the section prefix complete, the frame claims one octet more
					b = vfH3FVarint(b, 3, 0)
					b = append(b, 0x00, 0x00)
				case 4: // one whole field line behind the prefix, the frame claims one octet more
					b = vfH3FVarint(b, 4, 0)
					b = append(b, 0x00, 0x00, 0xc0|25) // static 25
				default: // a length varint of a string is the last octet delivered; the string is missing
					b = vfH3FVarint(b, uint64(len(sec)+3), 0)
					b = append(append(b, sec...), 0x21, 0x61) // literal name "a", value length octet missing
				}
			}
		}
	}
	if c.Tail == "type" {
		if variant%2 == 0 {
			b = append(b, 0x00)
		} else {
			b = append(b, 0x21)
		}
	}
	return b
}

func vfH3FVariants(c vfH3FCase) int {
	n := 1
	for _, f := range c.Frames {
		if f.Sh == "over" && f.Ty == "H" {
			n = max(n, vfH3FOverVariants)
		} else if f.Sh == "trunc" && f.Ty == "H" {
			n = max(n, vfH3FTruncVariants)
		} else if f.Sh != "fit" {
			n = max(n, 2)
		}
	}
	if c.Tail == "type" {
		n = max(n, 2)
	}
	return n
}

// ---------------------------------------------------------------------------- harness

type vfH3FHarness struct {
	t      *testing.T
	env    *vfEnv
	c1, c2 *quic.Conn // c1 dialed (client side), c2 accepted (server side)
}

// vfH3FReported throttles mismatch reports: the common helper keeps the first 200 only, so at
// most two per (stream kind, class of disagreement, shape of the input) are passed on and one
// frequent finding cannot crowd out a different one.
var vfH3FReported = map[string]int{}

func (h *vfH3FHarness) mismatch(b, step int, what string, c vfH3FCase, expected, actual any) {
	shape := ""
	firstH, unknownFirst, over := -1, false, ""
	for i, f := range c.Frames {
		shape += f.Ty
		if f.Sh != "fit" {
			shape += "." + f.Sh
		} else if f.Pres < f.Decl {
			shape += ".short"
		}
		shape += " "
		if f.Ty == "H" && firstH < 0 {
			firstH = i
		}
		if f.Ty == "U" && firstH < 0 {
			unknownFirst = true
		}
		if f.Sh == "over" && over == "" {
			over = fmt.Sprintf("%s-over-initial=%v", f.Ty, i == firstH)
		}
	}
	key := c.Kind + ";" + what + ";" + shape + c.Tail
	switch {
	case strings.HasSuffix(what, ":panic"):
		key = c.Kind + ";panic;" + over
	case unknownFirst && strings.HasSuffix(what, "act=err:270"):
		key = c.Kind + ";unknown-before-headers;270"
	}
	if vfH3FReported[key]++; vfH3FReported[key] > 2 {
		return
	}
	h.env.Mismatch(b, step, what, expected, actual)
}

func (h *vfH3FHarness) conn() {
	if h.c1 != nil {
		return
	}
	config := &quic.Config{TLSConfig: testTLSConfig}
	e1, e2 := newQUICEndpointPair(h.t)
	c1, err := e1.Dial(h.t.Context(), "udp", e2.LocalAddr().String(), config)
	if err != nil {
		h.t.Fatal(err)
	}
	c2, err := e2.Accept(h.t.Context())
	if err != nil {
		h.t.Fatal(err)
	}
	h.c1, h.c2 = c1, c2
}

func (h *vfH3FHarness) closeConn() {
	if h.c1 == nil {
		return
	}
	h.c1.Abort(nil)
	h.c2.Abort(nil)
	synctest.Wait()
	h.c1, h.c2 = nil, nil
}

func vfH3FAlive(c *quic.Conn) bool {
	return errors.Is(c.Wait(canceledCtx), context.Canceled)
}

func vfH3FCode(err error) int {
	var he http3Error
	if errors.As(err, &he) {
		return int(he)
	}
	var ae *quic.ApplicationError
	if errors.As(err, &ae) {
		return int(ae.Code)
	}
	return -1
}

// vfH3FWrap forwards to the real streamHandler and notes what its methods returned.
type vfH3FWrap struct {
	inner   streamHandler
	ret     error
	retSet  bool
	aborted error
}

func (w *vfH3FWrap) note(err error) error { w.ret, w.retSet = err, true; return err }
func (w *vfH3FWrap) handleControlStream(st *stream) error {
	return w.note(w.inner.handleControlStream(st))
}
func (w *vfH3FWrap) handlePushStream(st *stream) error { return w.note(w.inner.handlePushStream(st)) }
func (w *vfH3FWrap) handleEncoderStream(st *stream) error {
	return w.note(w.inner.handleEncoderStream(st))
}
func (w *vfH3FWrap) handleDecoderStream(st *stream) error {
	return w.note(w.inner.handleDecoderStream(st))
}
func (w *vfH3FWrap) handleRequestStream(st *stream) error {
	return w.note(w.inner.handleRequestStream(st))
}
func (w *vfH3FWrap) abort(err error) {
	if w.aborted == nil {
		w.aborted = err
		if err == nil {
			w.aborted = errors.New("abort(nil)")
		}
	}
	w.inner.abort(err)
}

// vfH3FReader consumes a body the way an application does and keeps what it saw.
type vfH3FReader struct {
	bs      int
	started bool
	body    []int
	ended   bool
	err     error
}

func (r *vfH3FReader) drain(body io.Reader) {
	r.started = true
	buf := make([]byte, r.bs)
	zero := 0
	for {
		n, err := body.Read(buf)
		for _, x := range buf[:n] {
			r.body = append(r.body, int(x))
		}
		if err != nil {
			r.err, r.ended = err, true
			return
		}
		if n == 0 {
			if zero++; zero > 64 {
				r.err, r.ended = errors.New("verif: Read keeps returning 0, nil"), true
				return
			}
		} else {
			zero = 0
		}
	}
}

type vfH3FRun struct {
	rd      *vfH3FReader
	wrap    *vfH3FWrap
	done    bool   // the entry point returned
	pan     string // panic text
	rtErr   error  // resp: RoundTrip error
	rtDone  bool
	watched *quic.Conn // the connection of the endpoint under test
}

func (r *vfH3FRun) observe(kind string) vfH3FObs {
	o := vfH3FObs{Body: append([]int{}, r.rd.body...), Code: -1}
	set := func(end string, err error) {
		o.End = end
		if err != nil {
			o.Code, o.Text = vfH3FCode(err), err.Error()
		}
	}
	switch {
	case r.pan != "":
		o.End, o.Text = "panic", r.pan
	case r.rd.started && r.rd.ended && r.rd.err == io.EOF:
		set("eof", nil)
	case r.rd.started && r.rd.ended:
		set("err", r.rd.err)
	case r.rd.started:
		set("blocked", nil)
	case kind == "resp" && r.rtDone && r.rtErr != nil:
		set("err", r.rtErr)
	case r.wrap != nil && r.wrap.aborted != nil:
		set("err", r.wrap.aborted)
		o.Abort = true
	case r.done && r.wrap != nil && r.wrap.retSet && r.wrap.ret != nil:
		set("err", r.wrap.ret)
	case r.done:
		set("eof", nil)
	default:
		set("blocked", nil)
	}
	if o.End == "blocked" && !vfH3FAlive(r.watched) {
		set("err", r.watched.Wait(canceledCtx))
		o.Abort = true
	}
	return o
}

func (h *vfH3FHarness) runItem(b int, c vfH3FCase) {
	nv := vfH3FVariants(c)
	sides := []string{"server"}
	if c.Kind == "ctl" || c.Kind == "uni" {
		sides = []string{"server", "client"}
	}
	if c.Kind == "resp" {
		sides = []string{"client"}
	}
	for v := 0; v < nv; v++ {
		for _, side := range sides {
			if h.env.Hung {
				return
			}
			h.runCase(b, c, v, side)
		}
	}
}

func (h *vfH3FHarness) runCase(b int, c vfH3FCase, variant int, side string) {
	rnd := h.env.Rand(int64(b)*16 + int64(variant))
	octets := vfH3FBytes(rnd, c, variant)
	bs := []int{1, 2, 3, 64}[rnd.Intn(4)]
	h.conn()
	ctx := h.t.Context()
	run := &vfH3FRun{rd: &vfH3FReader{bs: bs}}
	var peer *quic.Stream // the driver's end of the stream
	tag := fmt.Sprintf("%s/%s/v%d/bs%d", c.Kind, side, variant, bs)
	vfH3FCurrent.Store(vfH3FNow{b: b, kind: c.Kind, tag: tag})
	defer vfH3FProgress.Add(1)

	fatal := func(what string, err error) {
		h.t.Fatalf("item %d %s: %s: %v", b, tag, what, err)
	}
	serve := func(f func()) {
		go func() {
			run.pan = vfCatch(f)
			run.done = true
		}()
	}
	switch c.Kind {
	case "req":
		run.watched = h.c2
		sc := &serverConn{qconn: h.c2, handler: http.HandlerFunc(func(w http.ResponseWriter, r *http.Request) {
			run.rd.drain(r.Body)
		})}
		sc.enc.init()
		run.wrap = &vfH3FWrap{inner: sc}
		qs, err := h.c1.NewStream(ctx)
		if err != nil {
			fatal("NewStream", err)
		}
		qs.Write(octets)
		qs.Flush()
		peer = qs
		rs, err := h.c2.AcceptStream(ctx)
		if err != nil {
			fatal("AcceptStream", err)
		}
		serve(func() { sc.genericConn.handleRequestStream(newStream(rs), run.wrap) })
	case "resp":
		run.watched = h.c1
		tr := &transport{tr1: new(http.Transport), activeConns: make(map[*clientConn]struct{})}
		cc := &clientConn{tr: tr, qconn: h.c1}
		cc.enc.init()
		rctx, cancel := context.WithCancel(ctx)
		defer cancel()
		req, _ := http.NewRequestWithContext(rctx, "GET", "https://verif.test/", nil)
		serve(func() {
			resp, err := cc.RoundTrip(req)
			run.rtErr, run.rtDone = err, true
			if err != nil {
				return
			}
			run.rd.drain(resp.Body)
			resp.Body.Close()
		})
		rs, err := h.c2.AcceptStream(ctx)
		if err != nil {
			fatal("AcceptStream", err)
		}
		rs.Write(octets)
		rs.Flush()
		peer = rs
	case "ctl", "uni":
		from, to := h.c1, h.c2
		var inner streamHandler
		var gc *genericConn
		if side == "server" {
			sc := &serverConn{qconn: h.c2}
			sc.enc.init()
			inner, gc = sc, &sc.genericConn
		} else {
			from, to = h.c2, h.c1
			tr := &transport{tr1: new(http.Transport), activeConns: make(map[*clientConn]struct{})}
			cc := &clientConn{tr: tr, qconn: h.c1}
			cc.enc.init()
			inner, gc = cc, &cc.genericConn
		}
		run.watched = to
		run.wrap = &vfH3FWrap{inner: inner}
		qs, err := from.NewSendOnlyStream(ctx)
		if err != nil {
			fatal("NewSendOnlyStream", err)
		}
		stype := uint64(streamTypeControl)
		if c.Kind == "uni" {
			stype = []uint64{0x21, 0x21 + 0x1f*7, 0x40}[rnd.Intn(3)]
		}
		qs.Write(vfH3FVarint(nil, stype, vfH3FPadded(rnd, stype)))
		qs.Write(octets)
		qs.Flush()
		peer = qs
		rs, err := to.AcceptStream(ctx)
		if err != nil {
			fatal("AcceptStream", err)
		}
		serve(func() { gc.handleUnidirectionalStream(newStream(rs), run.wrap) })
	default:
		h.t.Fatalf("item %d: kind %q", b, c.Kind)
	}

	synctest.Wait()
	pre := run.observe(c.Kind)
	peer.CloseWrite()
	synctest.Wait()
	post := run.observe(c.Kind)

	h.compare(b, tag, "pre", c, c.Pre, pre, octets)
	h.compare(b, tag, "post", c, c.Post, post, octets)
	h.env.Replayed(2)

	// leave nothing behind: a reader that is still blocked, a broken or aborted connection
	clean := run.done && run.pan == "" && vfH3FAlive(h.c1) && vfH3FAlive(h.c2) && (run.wrap == nil || run.wrap.aborted == nil)
	if clean {
		peer.Reset(0)
		peer.CloseRead()
		synctest.Wait()
	} else {
		h.closeConn()
		if !run.done {
			synctest.Wait()
			if !run.done {
				h.env.Hung = true
				h.env.Mismatch(b, 2, "hang:"+c.Kind, "reader returns once the connection is gone", tag)
			}
		}
	}
}

func vfH3FInts(b []byte) []int {
	out := make([]int, len(b))
	for i, x := range b {
		out[i] = int(x)
	}
	return out
}

func vfH3FIsPrefix(a, b []int) bool {
	if len(a) > len(b) {
		return false
	}
	for i := range a {
		if a[i] != b[i] {
			return false
		}
	}
	return true
}

func vfH3FSame(a, b []int) bool { return len(a) == len(b) && vfH3FIsPrefix(a, b) }

// compare reports where an observation leaves what the specification's prediction allows.
// The `what` strings name the class of disagreement only (they feed the finding signature).
func (h *vfH3FHarness) compare(b int, tag, phase string, c vfH3FCase, p vfH3FPred, o vfH3FObs, octets []byte) {
	step := 0
	if phase == "post" {
		step = 1
	}
	act := map[string]any{"obs": o, "run": tag, "octets": vfH3FInts(octets)}
	if o.End == "panic" {
		h.mismatch(b, step, phase+":panic", c, p, act)
		return
	}
	// only octets inside DATA frames, in order
	if !vfH3FIsPrefix(o.Body, c.Data) {
		h.mismatch(b, step, phase+":leak", c, c.Data, act)
		return
	}
	endOf := func() string {
		if o.End == "err" {
			return fmt.Sprintf("err:%d", o.Code)
		}
		return o.End
	}
	switch p.St {
	case "any":
	case "blocked":
		if !(o.End == "blocked" || (p.Alt && o.End == "eof")) {
			h.mismatch(b, step, phase+":end:exp=blocked;act="+endOf(), c, p, act)
		} else if !vfH3FIsPrefix(o.Body, p.Body) {
			h.mismatch(b, step, phase+":body", c, p, act)
		}
	case "eof":
		if o.End != "eof" {
			h.mismatch(b, step, phase+":end:exp=eof;act="+endOf(), c, p, act)
		} else if !vfH3FSame(o.Body, p.Body) {
			h.mismatch(b, step, phase+":body", c, p, act)
		}
	case "err":
		okCode := len(p.Codes) == 0
		for _, x := range p.Codes {
			okCode = okCode || x == o.Code
		}
		if o.End != "err" {
			h.mismatch(b, step, phase+":end:exp=err;act="+endOf(), c, p, act)
		} else if !okCode {
			h.mismatch(b, step, phase+":code:act="+endOf(), c, p, act)
		} else if !vfH3FIsPrefix(o.Body, p.Body) {
			h.mismatch(b, step, phase+":body", c, p, act)
		}
	default:
		h.t.Fatalf("item %d: predicted outcome %q", b, p.St)
	}
}
