// /verif driver for the HTTP/3 QPACK encoder and decoder (family qpack: C33).  Injected with
// `go test -overlay`; nothing here decides the property: the driver either executes cases
// predicted by TLC (specs/qpack/Gen.tla) on the real code and reports differences, or records
// what the real code did for TLC to judge (specs/qpack/Trace.tla).  The generators below
// (field pools, byte mutators) only produce inputs; whether an input is well formed and what it
// decodes to is decided by the specification.
//
// The real decoder reads from an http3 *stream whose read limit is the HEADERS frame: every
// section is therefore written as a HEADERS frame on one end of a real QUIC stream (in-memory
// network of the package's own tests) and decoded on the other end exactly the way the
// package's call sites do it (readFrameHeader, qpackDecoder.decode, endFrame).

package http3

import (
	"context"
	"encoding/json"
	"math/rand"
	"strings"
	"testing"
	"time"

	"golang.org/x/net/quic"
)

func TestVerifQpack(t *testing.T) {
	env := vfLoad(t)
	if env == nil {
		return
	}
	h := vfH3QNewHarness(t)
	switch env.Mode {
	case "replay":
		vfH3QReplay(env, h)
	case "record":
		vfH3QRecord(env, h)
	default:
		t.Fatalf("unknown mode %q", env.Mode)
	}
	env.Finish(nil)
}

// ---------------------------------------------------------------------------- observation

type vfH3QField struct {
	N  []int `json:"n"`
	V  []int `json:"v"`
	Nv bool  `json:"nv"`
}

func vfH3QInts(s string) []int {
	out := make([]int, len(s))
	for i := 0; i < len(s); i++ {
		out[i] = int(s[i])
	}
	return out
}

func vfH3QBytesToInts(b []byte) []int {
	out := make([]int, len(b))
	for i, x := range b {
		out[i] = int(x)
	}
	return out
}

func vfH3QIntsToBytes(a []int) []byte {
	out := make([]byte, len(a))
	for i, x := range a {
		out[i] = byte(x)
	}
	return out
}

func vfH3QSameField(a, b vfH3QField) bool {
	if a.Nv != b.Nv || len(a.N) != len(b.N) || len(a.V) != len(b.V) {
		return false
	}
	for i := range a.N {
		if a.N[i] != b.N[i] {
			return false
		}
	}
	for i := range a.V {
		if a.V[i] != b.V[i] {
			return false
		}
	}
	return true
}

// vfH3QIsPrefix reports whether a is a prefix of b.
func vfH3QIsPrefix(a, b []vfH3QField) bool {
	if len(a) > len(b) {
		return false
	}
	for i := range a {
		if !vfH3QSameField(a[i], b[i]) {
			return false
		}
	}
	return true
}

// ---------------------------------------------------------------------------- harness

// vfH3QHarness is one QUIC connection pair; every decode uses a fresh unidirectional stream.
type vfH3QHarness struct {
	t      *testing.T
	c1, c2 *quic.Conn
	enc    qpackEncoder
}

func vfH3QNewHarness(t *testing.T) *vfH3QHarness {
	config := &quic.Config{TLSConfig: testTLSConfig}
	e1, e2 := newQUICEndpointPair(t)
	ctx, cancel := context.WithTimeout(context.Background(), 30*time.Second)
	defer cancel()
	c1, err := e1.Dial(ctx, "udp", e2.LocalAddr().String(), config)
	if err != nil {
		t.Fatal(err)
	}
	c2, err := e2.Accept(ctx)
	if err != nil {
		t.Fatal(err)
	}
	h := &vfH3QHarness{t: t, c1: c1, c2: c2}
	h.enc.init()
	t.Cleanup(func() {
		c1.Abort(nil)
		c2.Abort(nil)
	})
	return h
}

type vfH3QObs struct {
	Ok    bool
	Lines []vfH3QField
	Panic string // "" | panic text | "hang"
	Err   string
}

// decode presents section as the payload of a HEADERS frame to the real decoder.
func (h *vfH3QHarness) decode(section []byte) vfH3QObs {
	ctx, cancel := context.WithTimeout(context.Background(), 30*time.Second)
	defer cancel()
	qs1, err := h.c1.NewSendOnlyStream(ctx)
	if err != nil {
		h.t.Fatalf("NewSendOnlyStream: %v", err)
	}
	st1 := newStream(qs1)
	st1.writeVarint(int64(frameTypeHeaders))
	st1.writeVarint(int64(len(section)))
	st1.Write(section)
	qs1.CloseWrite()
	qs2, err := h.c2.AcceptStream(ctx)
	if err != nil {
		h.t.Fatalf("AcceptStream: %v", err)
	}
	st2 := newStream(qs2)
	ft, err := st2.readFrameHeader()
	if err != nil || ft != frameTypeHeaders {
		h.t.Fatalf("readFrameHeader: %v %v", ft, err)
	}
	obs := vfH3QObs{Lines: []vfH3QField{}}
	var derr error
	obs.Panic = vfCatchTimeout(20*time.Second, func() {
		var dec qpackDecoder
		derr = dec.decode(st2, func(itype indexType, name, value string) error {
			obs.Lines = append(obs.Lines, vfH3QField{N: vfH3QInts(name), V: vfH3QInts(value), Nv: itype == neverIndex})
			return nil
		})
		if derr == nil {
			// every call site ends the HEADERS frame after a successful decode
			derr = st2.endFrame()
		}
	})
	obs.Ok = obs.Panic == "" && derr == nil
	if derr != nil {
		obs.Err = derr.Error()
	}
	if obs.Panic != "hang" {
		qs2.CloseRead()
	}
	return obs
}

// encode runs the real encoder on a field list.
func (h *vfH3QHarness) encode(fs []vfH3QField) (b []byte, p string) {
	p = vfCatchTimeout(20*time.Second, func() {
		b = h.enc.encode(func(f func(itype indexType, name, value string)) {
			for _, x := range fs {
				it := indexType(mayIndex)
				if x.Nv {
					it = neverIndex
				}
				f(it, string(vfH3QIntsToBytes(x.N)), string(vfH3QIntsToBytes(x.V)))
			}
		})
	})
	return b, p
}

// ---------------------------------------------------------------------------- replay (spec -> code)

type vfH3QCase struct {
	Fs   *[]vfH3QField `json:"fs"` // mode fs: field list for the real encoder
	In   *[]int        `json:"in"` // mode b: octets for the real decoder
	K    string        `json:"k"`
	Em   []vfH3QField  `json:"em"`
	Soft bool          `json:"soft"`
}

func vfH3QReplay(env *vfEnv, h *vfH3QHarness) {
	for _, it := range env.Items() {
		if env.Hung {
			break
		}
		var c vfH3QCase
		if err := json.Unmarshal(it.V, &c); err != nil {
			env.tb.Fatalf("item %d: %v", it.B, err)
		}
		switch {
		case c.Fs != nil:
			// the real encoder's octets through the real decoder: exactly the predicted outcome
			b, p := h.encode(*c.Fs)
			if p != "" {
				env.Mismatch(it.B, 0, "encode: "+p, "no panic", p)
				env.Hung = env.Hung || p == "hang"
				env.Replayed(1)
				continue
			}
			o := h.decode(b)
			vfH3QCompare(env, it.B, "rt", c, o, true)
		case c.In != nil:
			o := h.decode(vfH3QIntsToBytes(*c.In))
			vfH3QCompare(env, it.B, "dec", c, o, true)
		default:
			env.tb.Fatalf("item %d: neither fs nor in", it.B)
		}
	}
}

// vfH3QCompare reports where the observation leaves what the specification's outcome allows:
// k = ok: success with exactly em (strict: rejection is a mismatch unless soft);
// k = bad: failure, emitted lines a prefix of em;  k = either: nothing but "no panic".
func vfH3QCompare(env *vfEnv, b int, what string, c vfH3QCase, o vfH3QObs, strict bool) {
	env.Replayed(1 + len(c.Em))
	if o.Panic != "" {
		env.Mismatch(b, 0, what+"-panic", "no panic", o.Panic)
		if o.Panic == "hang" {
			env.Hung = true
		}
		return
	}
	switch c.K {
	case "ok":
		if o.Ok {
			if len(o.Lines) != len(c.Em) || !vfH3QIsPrefix(o.Lines, c.Em) {
				env.Mismatch(b, 1, what+"-lines", c.Em, o.Lines)
			}
		} else {
			if strict && !c.Soft {
				env.Mismatch(b, 0, what+"-outcome", "ok", "error: "+o.Err)
			}
			if !vfH3QIsPrefix(o.Lines, c.Em) {
				env.Mismatch(b, 1, what+"-lines", c.Em, o.Lines)
			}
		}
	case "bad":
		if o.Ok {
			env.Mismatch(b, 0, what+"-outcome", "error", "ok")
		}
		if !vfH3QIsPrefix(o.Lines, c.Em) {
			env.Mismatch(b, 1, what+"-lines", c.Em, o.Lines)
		}
	case "either":
	default:
		env.tb.Fatalf("item %d: outcome class %q", b, c.K)
	}
}

// ---------------------------------------------------------------------------- record (code -> spec)

const vfH3QTokenChars = "abcdefghijklmnopqrstuvwxyz0123456789-_.!#$%&'*+^`|~"

func vfH3QRandName(rnd *rand.Rand) string {
	n := 1 + rnd.Intn(12)
	if rnd.Intn(6) == 0 {
		n = 6 + rnd.Intn(4) // around the full 3-bit prefix
	}
	var sb strings.Builder
	for i := 0; i < n; i++ {
		sb.WriteByte(vfH3QTokenChars[rnd.Intn(len(vfH3QTokenChars))])
	}
	return sb.String()
}

// vfH3QSmall (driver_args.small, quick tier) makes long strings rare: the specification's
// Huffman decoder in TLC costs about a millisecond per symbol.
var vfH3QSmall bool

func vfH3QRandValue(rnd *rand.Rand) string {
	var n int
	k := rnd.Intn(10)
	if vfH3QSmall && k <= 2 && rnd.Intn(8) != 0 {
		k = 3 + k
	}
	switch k {
	case 0:
		n = 0
	case 1:
		n = 124 + rnd.Intn(8) // around the full 7-bit prefix
	case 2:
		n = 150 + rnd.Intn(120)
	case 3:
		n = 0
	default:
		n = 1 + rnd.Intn(24)
	}
	b := make([]byte, n)
	switch rnd.Intn(4) {
	case 0: // Huffman makes these shorter
		for i := range b {
			b[i] = "aeiost012 /-"[rnd.Intn(12)]
		}
	case 1: // and these longer
		for i := range b {
			b[i] = "{}~^<>\\|"[rnd.Intn(8)]
		}
	case 2: // arbitrary octets
		for i := range b {
			b[i] = byte(rnd.Intn(256))
		}
	default:
		for i := range b {
			b[i] = byte(32 + rnd.Intn(95))
		}
	}
	return string(b)
}

func vfH3QUpperSome(rnd *rand.Rand, s string) string {
	b := []byte(s)
	for i := range b {
		if 'a' <= b[i] && b[i] <= 'z' && rnd.Intn(3) == 0 {
			b[i] -= 32
		}
	}
	return string(b)
}

// vfH3QRandList draws a field list: static table hits and misses, upper case, non-ASCII names,
// never-index flags; pseudo-headers first in most lists.  The real static table is used only to
// pick inputs (which are logged); what an entry decodes to is the specification's business.
func vfH3QRandList(rnd *rand.Rand) []vfH3QField {
	n := 1 + rnd.Intn(7)
	var pseudo, regular []vfH3QField
	for i := 0; i < n; i++ {
		var name, value string
		switch rnd.Intn(9) {
		case 0, 1: // exact static entry
			e := staticTableEntries[rnd.Intn(len(staticTableEntries))]
			name, value = e.name, e.value
		case 2, 3: // static name, other value
			e := staticTableEntries[rnd.Intn(len(staticTableEntries))]
			name, value = e.name, vfH3QRandValue(rnd)
		case 4: // static entry spelled with capitals
			e := staticTableEntries[rnd.Intn(len(staticTableEntries))]
			name, value = vfH3QUpperSome(rnd, e.name), e.value
		case 5:
			name, value = vfH3QUpperSome(rnd, vfH3QRandName(rnd)), vfH3QRandValue(rnd)
		case 6: // name with an octet outside ASCII
			nm := []byte(vfH3QRandName(rnd))
			nm[rnd.Intn(len(nm))] = byte(128 + rnd.Intn(128))
			name, value = string(nm), vfH3QRandValue(rnd)
		default:
			name, value = vfH3QRandName(rnd), vfH3QRandValue(rnd)
		}
		if rnd.Intn(60) == 0 {
			name = ""
		}
		f := vfH3QField{N: vfH3QInts(name), V: vfH3QInts(value), Nv: rnd.Intn(3) == 0}
		if strings.HasPrefix(name, ":") {
			pseudo = append(pseudo, f)
		} else {
			regular = append(regular, f)
		}
	}
	fs := append(pseudo, regular...)
	if rnd.Intn(8) == 0 { // sometimes out of order: a pseudo-header may follow a regular field
		rnd.Shuffle(len(fs), func(i, j int) { fs[i], fs[j] = fs[j], fs[i] })
	}
	return fs
}

// vfH3QLongInt returns the continuation octets of a long prefixed integer.
func vfH3QLongInt(rnd *rand.Rand) []byte {
	switch rnd.Intn(5) {
	case 0: // huge value, 10 continuation octets (2^63 range)
		return []byte{0xff, 0xff, 0xff, 0xff, 0xff, 0xff, 0xff, 0xff, 0xff, byte(rnd.Intn(2))}
	case 1: // overflows 64 bits
		return []byte{0xff, 0xff, 0xff, 0xff, 0xff, 0xff, 0xff, 0xff, 0xff, 0x7f}
	case 2: // 2^31 and 2^32 range
		return []byte{0xff, 0xff, 0xff, 0xff, byte(0x07 + rnd.Intn(0x18))}
	case 3: // zero padded small value
		k := 1 + rnd.Intn(11)
		b := make([]byte, 0, k+1)
		b = append(b, byte(0x80|rnd.Intn(4)))
		for i := 1; i < k; i++ {
			b = append(b, 0x80)
		}
		return append(b, 0x00)
	default: // never ends
		k := 1 + rnd.Intn(12)
		b := make([]byte, k)
		for i := range b {
			b[i] = byte(0x80 | rnd.Intn(128))
		}
		return b
	}
}

var vfH3QBoundary = []byte{0x00, 0x01, 0x07, 0x08, 0x0f, 0x10, 0x1f, 0x20, 0x27, 0x28, 0x2f, 0x30, 0x3f, 0x40,
	0x4f, 0x50, 0x5f, 0x60, 0x70, 0x7f, 0x80, 0xbf, 0xc0, 0xfe, 0xff, 0x22, 0x23, 0x24, 0x3a}

// vfH3QMutate damages a section (inputs only; the specification decides what the result means).
func vfH3QMutate(rnd *rand.Rand, src []byte, other []byte) []byte {
	b := append([]byte{}, src...)
	if len(b) == 0 {
		return []byte{vfH3QBoundary[rnd.Intn(len(vfH3QBoundary))]}
	}
	pos := func() int { // positions behind the two-octet prefix are more interesting
		if len(b) <= 2 || rnd.Intn(6) == 0 {
			return rnd.Intn(len(b) + 1)
		}
		return 2 + rnd.Intn(len(b)-1)
	}
	at := func() int {
		p := pos()
		if p >= len(b) {
			p = len(b) - 1
		}
		return p
	}
	ins := func(p int, x []byte) {
		b = append(b[:p], append(append([]byte{}, x...), b[p:]...)...)
	}
	switch rnd.Intn(12) {
	case 0: // flip one bit
		p := at()
		b[p] ^= 1 << uint(rnd.Intn(8))
	case 1: // boundary octet
		b[at()] = vfH3QBoundary[rnd.Intn(len(vfH3QBoundary))]
	case 2: // truncate
		b = b[:rnd.Intn(len(b)+1)]
	case 3: // delete one octet
		p := at()
		b = append(b[:p], b[p+1:]...)
	case 4: // insert an octet
		ins(pos(), []byte{vfH3QBoundary[rnd.Intn(len(vfH3QBoundary))]})
	case 5: // a prefix-full octet followed by a long integer
		first := []byte{0xff, 0x7f, 0x5f, 0x27, 0x2f, 0x37, 0x3f, 0xbf, 0x1f, 0x0f}[rnd.Intn(10)]
		p := pos()
		if rnd.Intn(2) == 0 && len(b) >= 2 {
			p = 2 // in front of the first line: the octet is sure to be read as the start of a line
		}
		ins(p, append([]byte{first}, vfH3QLongInt(rnd)...))
	case 6: // turn an octet into prefix-full and continue it
		p := at()
		b[p] |= []byte{0x07, 0x0f, 0x3f, 0x7f}[rnd.Intn(4)]
		ins(p+1, vfH3QLongInt(rnd))
	case 7: // append the lines of another section
		if len(other) > 2 {
			b = append(b, other[2:]...)
		}
	case 8: // append a whole other section (its prefix becomes two post-base lines)
		b = append(b, other...)
	case 9: // section prefix
		if len(b) >= 2 {
			switch rnd.Intn(4) {
			case 0:
				b[0] = byte(1 + rnd.Intn(255))
			case 1:
				b[1] = byte(rnd.Intn(256))
			case 2:
				b[1] = 0x7f
				ins(2, vfH3QLongInt(rnd))
			default:
				b[0] = 0xff
				ins(1, vfH3QLongInt(rnd))
			}
		}
	case 10: // set a Huffman flag somewhere / clear it
		p := at()
		b[p] ^= []byte{0x80, 0x08}[rnd.Intn(2)]
	default: // two damages
		b = vfH3QMutate(rnd, b, other)
		b = vfH3QMutate(rnd, b, other)
	}
	return b
}

func vfH3QRecord(env *vfEnv, h *vfH3QHarness) {
	traces := env.Int("traces", 40)
	mutants := env.Int("mutants", 8)
	vfH3QSmall = env.Bool("small", false)
	emitDec := func(t int, b []byte, rt bool) bool {
		o := h.decode(b)
		env.Emit(t, map[string]any{"e": "dec", "b": vfH3QBytesToInts(b), "ok": o.Ok, "em": o.Lines,
			"p": o.Panic, "rt": rt, "err": o.Err})
		if o.Panic == "hang" {
			env.Hung = true
		}
		return o.Panic != "hang"
	}
	for t := 1; t <= traces && !env.Hung; t++ {
		if !env.Only(t) {
			continue
		}
		rnd := env.Rand(int64(t))
		env.Emit(t, map[string]any{"e": "hdr", "nstatic": len(staticTableEntries)})
		fs := vfH3QRandList(rnd)
		b, p := h.encode(fs)
		if b == nil {
			b = []byte{}
		}
		env.Emit(t, map[string]any{"e": "enc", "fs": fs, "b": vfH3QBytesToInts(b), "p": p})
		if p != "" {
			env.Hung = env.Hung || p == "hang"
			continue
		}
		if !emitDec(t, b, true) {
			break
		}
		other, p2 := h.encode(vfH3QRandList(rnd))
		if p2 != "" {
			other = nil
		}
		for m := 0; m < mutants; m++ {
			mb := vfH3QMutate(rnd, b, other)
			if len(mb) > 1500 {
				mb = mb[:1500]
			}
			if !emitDec(t, mb, false) {
				break
			}
		}
	}
}
