// /verif driver for the HTTP/3 connection-level stream rules (family h3conn: X09, X10).  Injected
// with `go test -overlay`; nothing here decides a property.  Every script comes from TLC
// (specs/h3conn/Gen.tla): a list of abstract events of a hostile peer (open a unidirectional stream,
// send part of / the whole type varint, frames and cut-off frames on the control stream, FIN,
// RESET_STREAM, a bidirectional stream, request streams) and of the local application (RoundTrip,
// server shutdown).  The driver turns each event into octets / calls against a *real* clientConn
// (newTestClientConn) or serverConn (newTestServer + connect) of the package, inside a synctest
// bubble, steps to quiescence and records what it can observe:
//
//	conn  the application error code the peer saw the connection closed with (0: open)
//	reg   white box: genericConn.streamsCreated (which of control / encoder / decoder are registered)
//	ab    peer streams, still open on the peer's side, on which the endpoint sent STOP_SENDING
//	pend  API calls still blocked (RoundTrip calls / handlers reading a request body)
//
// plus, at start and end, which unidirectional streams the endpoint itself opened and the first
// frame of its control stream.  specs/h3conn/Trace.tla decides whether H3Conn allows each step.

package http3

import (
	"context"
	"encoding/json"
	"errors"
	"fmt"
	"io"
	"math/rand"
	"net/http"
	"os"
	"strings"
	"sync"
	"sync/atomic"
	"testing"
	"testing/synctest"
	"time"

	"golang.org/x/net/quic"
)

func TestVerifH3Conn(t *testing.T) {
	env := vfLoad(t)
	if env == nil {
		return
	}
	items := env.Items()
	stop := make(chan struct{})
	go vfH3CWatchdog(env, stop) // outside the bubbles: real clock
	for n, it := range items {
		if env.Hung {
			break
		}
		tr := n + 1
		if !env.Only(tr) {
			continue
		}
		var sc []vfH3CEvent
		if err := json.Unmarshal(it.V, &sc); err != nil {
			t.Fatalf("item %d: %v", it.B, err)
		}
		if len(sc) == 0 || sc[0].E != "hdr" {
			t.Fatalf("item %d: no header", it.B)
		}
		vfH3CCurrent.Store(fmt.Sprintf("script %d (%s)", it.B, string(it.V)))
		synctest.Test(t, func(t *testing.T) {
			r := &vfH3CRunner{t: t, env: env, tr: tr, rnd: env.Rand(int64(tr)), role: sc[0].Role,
				uni: map[int]*vfH3CUni{}, handled: map[string]bool{}}
			r.run(sc)
		})
		vfH3CProgress.Add(1)
	}
	close(stop)
	env.Finish(nil)
}

var (
	vfH3CProgress atomic.Int64
	vfH3CCurrent  atomic.Value
)

// A goroutine of the package that spins never lets synctest.Wait return: the watchdog (real clock)
// reports the current script as a hang and ends the process.
func vfH3CWatchdog(env *vfEnv, stop chan struct{}) {
	last, stuck := int64(-1), 0
	for {
		select {
		case <-stop:
			return
		case <-time.After(time.Second):
		}
		if p := vfH3CProgress.Load(); p != last {
			last, stuck = p, 0
			continue
		}
		if stuck++; stuck < 60 {
			continue
		}
		now, _ := vfH3CCurrent.Load().(string)
		env.Hung = true
		env.Emit(1<<20, map[string]any{"e": "hang", "what": "no progress for 60 s of real time in " + now})
		env.Finish(nil)
		os.Exit(1)
	}
}

type vfH3CEvent struct {
	E    string `json:"e"`
	Role string `json:"role"`
	I    int    `json:"u"`
	Ty   string `json:"ty"`
	How  string `json:"how"`
	K    string `json:"k"`
	V    int    `json:"v"`
	W    bool   `json:"w"`
	Cut  string `json:"cut"`
}

type vfH3CUni struct {
	qs     *quic.Stream
	open   bool   // the peer (the driver) has neither FINed nor reset it
	hdr    []byte // the type varint chosen for this stream
	sent   int    // octets of hdr already written
	frames int    // frames written on it (control streams)
}

type vfH3CRunner struct {
	t    *testing.T
	env  *vfEnv
	tr   int
	rnd  *rand.Rand
	role string

	tq *testQUICConn // the peer's end of the connection
	gc *genericConn  // white box: the endpoint under test
	cc *clientConn
	ts *testServer

	uni      map[int]*vfH3CUni
	nreq     int
	running  atomic.Int32 // handlers / RoundTrip calls that have not returned
	mu       sync.Mutex
	handled  map[string]bool
	shutStop context.CancelFunc
	lctl     *testQUICStream // the endpoint's control stream, once found
	lclosed  bool
}

func (r *vfH3CRunner) emit(ev map[string]any) { r.env.Emit(r.tr, ev) }

func (r *vfH3CRunner) run(sc []vfH3CEvent) {
	r.emit(map[string]any{"e": "hdr", "role": r.role})
	for n, ev := range sc[1:] {
		if p := vfCatch(func() { r.step(ev, sc[1+n+1:]) }); p != "" {
			r.emit(map[string]any{"e": "panic", "in": ev.E, "what": p})
			return
		}
	}
	if r.tq != nil {
		if p := vfCatch(func() { r.final() }); p != "" {
			r.emit(map[string]any{"e": "panic", "in": "final", "what": p})
		}
	}
	if r.shutStop != nil {
		r.shutStop()
	}
	if r.tq != nil {
		r.tq.qconn.Abort(nil) // lets every blocked call of this script return before the bubble ends
	}
	synctest.Wait()
}

// ---------------------------------------------------------------------------- observation

func (r *vfH3CRunner) connCode() int {
	err := r.tq.qconn.Wait(canceledCtx)
	if errors.Is(err, context.Canceled) {
		return 0
	}
	var ae *quic.ApplicationError
	if errors.As(err, &ae) {
		return int(ae.Code)
	}
	if strings.HasPrefix(err.Error(), "peer closed connection: NO_ERROR:") {
		return 1 // closed at the transport level, without an error
	}
	return 2 // closed by something else (a transport error, a timeout)
}

func (r *vfH3CRunner) observe(ev map[string]any) {
	synctest.Wait()
	conn := r.connCode()
	ev["conn"] = conn
	if conn == 1 || conn == 2 {
		ev["err"] = fmt.Sprint(r.tq.qconn.Wait(canceledCtx))
	}
	r.gc.mu.Lock()
	bits := r.gc.streamsCreated
	r.gc.mu.Unlock()
	reg := []string{}
	for _, c := range []struct {
		t streamType
		n string
	}{{streamTypeControl, "ctl"}, {streamTypeEncoder, "enc"}, {streamTypeDecoder, "dec"}} {
		if bits&(uint8(1)<<c.t) != 0 {
			reg = append(reg, c.n)
		}
	}
	ev["reg"] = reg
	ab := []int{}
	if conn == 0 {
		for i := 1; i <= 64; i++ {
			u := r.uni[i]
			if u == nil || !u.open {
				continue
			}
			if err := u.qs.Flush(); err != nil && err.Error() == "write to reset stream" {
				ab = append(ab, i)
			}
		}
	}
	ev["ab"] = ab
	ev["pend"] = int(r.running.Load())
	r.emit(ev)
}

// localStreams reports the unidirectional streams the endpoint has opened so far.
func (r *vfH3CRunner) localStreams(ev map[string]any) {
	nother := 0
	for ty, l := range r.tq.streams {
		switch ty {
		case streamTypeControl, streamTypeEncoder, streamTypeDecoder, streamTypeRequest:
		default:
			nother += len(l)
		}
	}
	ev["nctl"] = len(r.tq.streams[streamTypeControl])
	ev["nenc"] = len(r.tq.streams[streamTypeEncoder])
	ev["ndec"] = len(r.tq.streams[streamTypeDecoder])
	ev["nother"] = nother
	if r.lctl == nil && len(r.tq.streams[streamTypeControl]) > 0 {
		r.lctl = r.tq.streams[streamTypeControl][0]
	}
}

// nextLocalFrame reads one frame from the endpoint's control stream without blocking.
// ok is false when nothing (more) is there; r.lclosed is set when the stream has ended.
func (r *vfH3CRunner) nextLocalFrame() (ft frameType, payload []byte, ok bool) {
	if r.lctl == nil || r.lclosed {
		return 0, nil, false
	}
	ft, err := r.lctl.readFrameHeader()
	if err != nil {
		if !errors.Is(err, context.Canceled) && r.connCode() == 0 {
			r.lclosed = true
		}
		return 0, nil, false
	}
	payload, err = r.lctl.readFrameData()
	if err != nil {
		return 0, nil, false
	}
	if err := r.lctl.endFrame(); err != nil {
		return 0, nil, false
	}
	return ft, payload, true
}

func (r *vfH3CRunner) final() {
	synctest.Wait()
	ev := map[string]any{"e": "final"}
	r.localStreams(ev)
	for {
		if _, _, ok := r.nextLocalFrame(); !ok {
			break
		}
	}
	ev["lclosed"] = r.lclosed
	r.observe(ev)
}

// ---------------------------------------------------------------------------- octets

func vfH3CVarint(b []byte, v uint64, size int) []byte {
	switch size {
	case 1:
		return append(b, byte(v))
	case 2:
		return append(b, 0x40|byte(v>>8), byte(v))
	case 4:
		return append(b, 0x80|byte(v>>24), byte(v>>16), byte(v>>8), byte(v))
	default:
		return append(b, 0xc0|byte(v>>56), byte(v>>48), byte(v>>40), byte(v>>32), byte(v>>24), byte(v>>16), byte(v>>8), byte(v))
	}
}

// size picks an encoding length for v: minimal most of the time, padded otherwise; multi forces >= 2 octets.
func (r *vfH3CRunner) size(v uint64, multi bool) int {
	min := sizeVarint(v)
	sizes := []int{}
	for _, s := range []int{1, 2, 4, 8} {
		if s >= min && (!multi || s > 1) {
			sizes = append(sizes, s)
		}
	}
	if !multi && r.rnd.Intn(3) != 0 {
		return min
	}
	return sizes[r.rnd.Intn(len(sizes))]
}

func (r *vfH3CRunner) vi(b []byte, v uint64) []byte { return vfH3CVarint(b, v, r.size(v, false)) }

// grease returns a reserved value 0x1f*N + 0x21 (RFC 9114 6.2.3, 7.2.8, 7.2.4.1).
func (r *vfH3CRunner) grease() uint64 {
	switch r.rnd.Intn(4) {
	case 0:
		return 0x21
	case 1:
		return 0x21 + 0x1f*uint64(1+r.rnd.Intn(3))
	case 2:
		return 0x21 + 0x1f*uint64(r.rnd.Int63n(1<<40))
	default:
		return 0x21 + 0x1f*((1<<62-1-0x21)/0x1f) // the largest one below 2^62
	}
}

func (r *vfH3CRunner) streamTypeValue(class string) uint64 {
	switch class {
	case "ctl":
		return 0
	case "push":
		return 1
	case "enc":
		return 2
	case "dec":
		return 3
	}
	others := []uint64{0x04, 0x05, 0x08, 0x10, 0x20, 0x3f, 0x40, 0x41, 0x100, 0x102, 0x103, 0x3fff, 0x4000,
		1<<30 - 1, 1 << 30, 1 << 32, 1<<32 + 2, 1<<62 - 1, 1<<62 - 4, 1 << 61}
	if r.rnd.Intn(2) == 0 {
		return r.grease()
	}
	return others[r.rnd.Intn(len(others))]
}

func (r *vfH3CRunner) unknownFrameType() uint64 {
	others := []uint64{0x0a, 0x0b, 0x0c, 0x0e, 0x0f, 0x10, 0x20, 0x3f, 0x40, 0x41, 0x0f0700, 0x0f0701, 1 << 32, 1<<62 - 1}
	if r.rnd.Intn(2) == 0 {
		return r.grease()
	}
	return others[r.rnd.Intn(len(others))]
}

func (r *vfH3CRunner) junk(n int) []byte {
	b := make([]byte, n)
	r.rnd.Read(b)
	return b
}

func (r *vfH3CRunner) frame(ty uint64, payload []byte) []byte {
	b := r.vi(nil, ty)
	b = r.vi(b, uint64(len(payload)))
	return append(b, payload...)
}

func (r *vfH3CRunner) frameOctets(ev vfH3CEvent) []byte {
	known := []uint64{settingsMaxFieldSectionSize, settingsQPACKMaxTableCapacity, settingsQPACKBlockedStreams}
	pair := func(b []byte, id, v uint64) []byte { return r.vi(r.vi(b, id), v) }
	var p []byte
	switch ev.K {
	case "S_ok":
		r.rnd.Shuffle(len(known), func(i, j int) { known[i], known[j] = known[j], known[i] })
		for _, id := range known[:r.rnd.Intn(4)] {
			p = pair(p, id, uint64(r.rnd.Intn(1<<16)))
		}
		return r.frame(uint64(frameTypeSettings), p)
	case "S_unk":
		unk := []uint64{0x08, 0x33, 0x2b603742, 0x0a, 1<<62 - 1}
		p = pair(p, r.grease(), uint64(r.rnd.Intn(100)))
		if r.rnd.Intn(2) == 0 {
			p = pair(p, unk[r.rnd.Intn(len(unk))], uint64(r.rnd.Intn(3)))
		}
		if r.rnd.Intn(2) == 0 {
			p = pair(p, known[r.rnd.Intn(3)], 4096)
		}
		return r.frame(uint64(frameTypeSettings), p)
	case "S_h2":
		if r.rnd.Intn(2) == 0 {
			p = pair(p, known[r.rnd.Intn(3)], 100)
		}
		p = pair(p, uint64(2+ev.V), uint64(r.rnd.Intn(2))) // 0x02 .. 0x05
		if r.rnd.Intn(2) == 0 {
			p = pair(p, r.grease(), 1)
		}
		return r.frame(uint64(frameTypeSettings), p)
	case "S_dup":
		id := known[r.rnd.Intn(3)]
		p = pair(p, id, 10)
		if r.rnd.Intn(2) == 0 {
			p = pair(p, r.grease(), 1)
		}
		p = pair(p, id, uint64(10+r.rnd.Intn(2)))
		return r.frame(uint64(frameTypeSettings), p)
	case "S_bad":
		// the last pair runs past the end of the frame; the octets behind it are there (an empty grease frame)
		b := r.vi(nil, uint64(frameTypeSettings))
		if r.rnd.Intn(2) == 0 {
			b = append(b, 1, byte(known[r.rnd.Intn(3)])) // identifier only
		} else {
			b = append(b, 2, byte(known[r.rnd.Intn(3)]), 0x40) // half of a two-octet value
		}
		return append(b, 0x21, 0x00)
	case "DATA":
		return r.frame(uint64(frameTypeData), r.junk(r.rnd.Intn(4)))
	case "HEADERS":
		return r.frame(uint64(frameTypeHeaders), []byte{0, 0, 0xd1}[:r.rnd.Intn(2)*3])
	case "PUSH_PROMISE":
		return r.frame(uint64(frameTypePushPromise), []byte{byte(r.rnd.Intn(4)), 0, 0})
	case "CANCEL_PUSH":
		return r.frame(uint64(frameTypeCancelPush), r.vi(nil, uint64(r.rnd.Intn(200))))
	case "MAX_PUSH_ID":
		return r.frame(uint64(frameTypeMaxPushID), r.vi(nil, uint64(10*ev.V+1)))
	case "GOAWAY":
		var id uint64
		if r.role == "client" {
			id = uint64(4 * 3 * ev.V) // a client-initiated bidirectional stream id
			if ev.W {
				id += uint64(1 + r.rnd.Intn(3))
			}
		} else {
			id = uint64(7 * ev.V) // a push id
		}
		return r.frame(uint64(frameTypeGoaway), r.vi(nil, id))
	case "UNK":
		return r.frame(r.unknownFrameType(), r.junk(r.rnd.Intn(6)))
	case "H2RES":
		return r.frame([]uint64{0x02, 0x06, 0x08, 0x09}[r.rnd.Intn(4)], r.junk(r.rnd.Intn(6)))
	}
	panic("driver: unknown frame class " + ev.K)
}

// partOctets renders a frame that stops short.  Before SETTINGS it is a SETTINGS frame, afterwards one of
// unknown type, so that the octets that do arrive are no reason for an error.
func (r *vfH3CRunner) partOctets(cut string, first bool) []byte {
	ty := r.unknownFrameType()
	payload := r.junk(2 + r.rnd.Intn(4))
	if first {
		ty = uint64(frameTypeSettings)
		payload = []byte{byte(settingsMaxFieldSectionSize), 0x40, 0x10, byte(settingsQPACKBlockedStreams), 0x05}
	}
	switch cut {
	case "type":
		b := vfH3CVarint(nil, ty, r.size(ty, true))
		return b[:1+r.rnd.Intn(len(b)-1)]
	case "tyonly":
		return r.vi(nil, ty)
	case "len":
		b := r.vi(nil, ty)
		l := vfH3CVarint(nil, uint64(len(payload)), r.size(uint64(len(payload)), true))
		return append(b, l[:1+r.rnd.Intn(len(l)-1)]...)
	default: // "pay"
		b := r.vi(r.vi(nil, ty), uint64(len(payload)))
		return append(b, payload[:r.rnd.Intn(len(payload))]...)
	}
}

// ---------------------------------------------------------------------------- events

func (r *vfH3CRunner) write(u *vfH3CUni, b []byte) {
	if len(b) > 0 {
		u.qs.Write(b)
	}
	u.qs.Flush()
}

func (r *vfH3CRunner) step(ev vfH3CEvent, rest []vfH3CEvent) {
	out := map[string]any{"e": ev.E}
	if ev.E != "start" && r.tq == nil {
		panic("driver: script does not begin with start")
	}
	u := r.uni[ev.I]
	switch ev.E {
	case "start":
		if r.role == "client" {
			tc := newTestClientConn(r.t)
			r.tq, r.cc, r.gc = tc.testQUICConn, tc.cc, &tc.cc.genericConn
		} else {
			r.ts = newTestServer(r.t, http.HandlerFunc(r.serve))
			tc := r.ts.connect()
			r.tq = tc.testQUICConn
			r.ts.s.mu.Lock()
			for sc := range r.ts.s.activeConns {
				r.gc = &sc.genericConn
			}
			r.ts.s.mu.Unlock()
			if r.gc == nil {
				panic("driver: no serverConn registered")
			}
		}
		synctest.Wait()
		r.localStreams(out)
		out["first"] = "none"
		if ft, _, ok := r.nextLocalFrame(); ok {
			out["first"] = ft.String()
		}

	case "open":
		out["u"] = ev.I
		if qs, err := r.tq.qconn.NewSendOnlyStream(canceledCtx); err == nil {
			qs.SetWriteContext(canceledCtx)
			qs.Flush()
			r.uni[ev.I] = &vfH3CUni{qs: qs, open: true}
		}

	case "hpart", "hdr":
		out["u"] = ev.I
		if ev.E == "hdr" {
			out["ty"] = ev.Ty
		}
		if u == nil {
			break
		}
		if u.hdr == nil {
			class := ev.Ty
			if ev.E == "hpart" {
				class = "unk"
				for _, x := range rest { // the type this stream will turn out to have
					if x.E == "hdr" && x.I == ev.I {
						class = x.Ty
					}
				}
			}
			v := r.streamTypeValue(class)
			u.hdr = vfH3CVarint(nil, v, r.size(v, ev.E == "hpart"))
		}
		n := len(u.hdr)
		if ev.E == "hpart" {
			n = 1 + r.rnd.Intn(len(u.hdr)-1)
		}
		r.write(u, u.hdr[u.sent:n])
		u.sent = n

	case "data":
		out["u"] = ev.I
		if u != nil {
			r.write(u, r.junk(1+r.rnd.Intn(8)))
		}

	case "end":
		out["u"], out["how"] = ev.I, ev.How
		if u != nil {
			if ev.How == "fin" {
				u.qs.CloseWrite()
			} else {
				u.qs.Reset([]uint64{0x100, 0x10c, 0x102, 0}[r.rnd.Intn(4)])
			}
			u.open = false
		}

	case "frame":
		out["u"], out["k"], out["v"], out["w"] = ev.I, ev.K, ev.V, ev.W
		if u != nil {
			r.write(u, r.frameOctets(ev))
			u.frames++
		}

	case "fpart":
		out["u"], out["cut"] = ev.I, ev.Cut
		if u != nil {
			r.write(u, r.partOctets(ev.Cut, u.frames == 0))
			u.frames++
		}

	case "bidi":
		if qs, err := r.tq.qconn.NewStream(canceledCtx); err == nil {
			qs.SetWriteContext(canceledCtx)
			qs.Flush()
		}

	case "req":
		path := fmt.Sprintf("/%d", r.nreq)
		r.nreq++
		out["res"] = "none"
		qs, err := r.tq.qconn.NewStream(canceledCtx)
		if err != nil {
			break
		}
		st := newTestQUICStream(r.t, newStream(qs))
		hb := st.encodeHeaders(requestHeader(http.Header{":path": {path}}))
		st.writeVarint(int64(frameTypeHeaders))
		st.writeVarint(int64(len(hb)))
		st.Write(hb)
		st.stream.Flush()
		synctest.Wait()
		r.mu.Lock()
		seen := r.handled[path]
		r.mu.Unlock()
		if seen {
			out["res"] = "handled"
		} else if _, err := qs.Read(make([]byte, 1)); err != nil {
			var code quic.StreamErrorCode
			if errors.As(err, &code) {
				out["res"] = fmt.Sprintf("reset:%#x", uint64(code))
				if code == quic.StreamErrorCode(errH3RequestRejected) {
					out["res"] = "rejected"
				}
			}
		}

	case "rt":
		req, _ := http.NewRequest("GET", fmt.Sprintf("https://example.tld/%d", r.nreq), nil)
		r.nreq++
		done := make(chan struct{})
		r.running.Add(1)
		go func() {
			defer close(done)
			defer r.running.Add(-1)
			defer func() { recover() }()
			resp, err := r.cc.RoundTrip(req)
			if err == nil {
				resp.Body.Close()
			}
		}()
		synctest.Wait()
		select {
		case <-done:
			out["res"] = "err"
		default:
			out["res"] = "blocked"
		}

	case "shutdown":
		out["sent"], out["id"] = false, 0
		if r.shutStop == nil {
			ctx, cancel := context.WithCancel(context.Background())
			r.shutStop = cancel
			go r.ts.s.shutdown(ctx)
			synctest.Wait()
			for {
				ft, payload, ok := r.nextLocalFrame()
				if !ok {
					break
				}
				if ft == frameTypeGoaway && len(payload) > 0 && len(payload) == 1<<(payload[0]>>6) {
					var id uint64
					for i, c := range payload {
						if i == 0 {
							c &= 0x3f
						}
						id = id<<8 | uint64(c)
					}
					if id < 1<<30 {
						out["sent"], out["id"] = true, int(id)
					}
				}
			}
		}

	case "shutend":
		if r.shutStop != nil {
			r.shutStop()
		}

	default:
		panic("driver: unknown event " + ev.E)
	}
	r.observe(out)
}

// serve is the server's handler: it notes the request and reads the body, which never ends.
func (r *vfH3CRunner) serve(w http.ResponseWriter, req *http.Request) {
	r.running.Add(1)
	defer r.running.Add(-1)
	r.mu.Lock()
	r.handled[req.URL.Path] = true
	r.mu.Unlock()
	io.Copy(io.Discard, req.Body)
}
