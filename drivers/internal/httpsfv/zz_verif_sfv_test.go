// /verif driver for golang.org/x/net/internal/httpsfv (C56). Injected with `go test -overlay`.
//
//   replay: TLC-generated cases (entry point, input, outcome RFC 9651 determines: accepted or
//           not, the value, or the failing step) from specs/sfv/Gen.tla are run through the
//           real Parse* function and compared.
//   record: seeded random structured-field strings (built from the grammar, then damaged)
//           are run through the real Parse* functions; (entry point, input, ok, value) is
//           logged and TLC judges every line with specs/sfv/StructuredFields.tla (Trace.tla).
//
// Canonical projection of a result (the same on both sides):
//   list, innerlist, item   [{"b": member text, "p": parameter text}, ...]   (callback order)
//   dict                    [{"k": key, "b": member text or "?1", "p": parameter text}, ...]
//   params                  [{"k": key, "v": bare item text or "?1"}, ...]
//   integer, date           the value as a decimal numeral (date: seconds since the epoch)
//   decimal                 the value as a numeral with exactly three fractional digits
//   token, display          the bytes of the value;  boolean: true/false
//   string, bytes           acceptance only (the property makes no claim about their value)
// All texts are arrays of byte values.  The driver contains no oracle.

package httpsfv

import (
	"encoding/json"
	"fmt"
	"math/rand"
	"reflect"
	"sort"
	"strconv"
	"strings"
	"testing"
	"time"
)

func vfSfvInts(s string) []int {
	out := make([]int, len(s))
	for i := 0; i < len(s); i++ {
		out[i] = int(s[i])
	}
	return out
}

func vfSfvStr(p []int) string {
	b := make([]byte, len(p))
	for i, x := range p {
		b[i] = byte(x)
	}
	return string(b)
}

// vfSfvCall runs entry point fn of the real package on s and projects the result.
// res is "" | panic text | "hang".
func vfSfvCall(fn, s string) (ok bool, v any, res string) {
	res = vfCatchTimeout(10*time.Second, func() {
		switch fn {
		case "list":
			out := []any{}
			ok = ParseList(s, func(member, param string) {
				out = append(out, map[string]any{"b": vfSfvInts(member), "p": vfSfvInts(param)})
			})
			v = out
		case "dict":
			out := []any{}
			ok = ParseDictionary(s, func(key, val, param string) {
				out = append(out, map[string]any{"k": vfSfvInts(key), "b": vfSfvInts(val), "p": vfSfvInts(param)})
			})
			v = out
		case "item":
			out := []any{}
			ok = ParseItem(s, func(bareItem, param string) {
				out = append(out, map[string]any{"b": vfSfvInts(bareItem), "p": vfSfvInts(param)})
			})
			v = out
		case "innerlist":
			out := []any{}
			ok = ParseBareInnerList(s, func(bareItem, param string) {
				out = append(out, map[string]any{"b": vfSfvInts(bareItem), "p": vfSfvInts(param)})
			})
			v = out
		case "params":
			out := []any{}
			ok = ParseParameter(s, func(key, val string) {
				out = append(out, map[string]any{"k": vfSfvInts(key), "v": vfSfvInts(val)})
			})
			v = out
		case "integer":
			var n int64
			n, ok = ParseInteger(s)
			v = vfSfvInts(strconv.FormatInt(n, 10))
		case "decimal":
			var f float64
			f, ok = ParseDecimal(s)
			if f == 0 {
				f = 0 // the value of "-0.0" is zero
			}
			v = vfSfvInts(strconv.FormatFloat(f, 'f', 3, 64))
		case "string":
			_, ok = ParseString(s)
		case "token":
			var p string
			p, ok = ParseToken(s)
			v = vfSfvInts(p)
		case "bytes":
			_, ok = ParseByteSequence(s)
		case "boolean":
			var b bool
			b, ok = ParseBoolean(s)
			v = b
		case "date":
			var d time.Time
			d, ok = ParseDate(s)
			v = vfSfvInts(strconv.FormatInt(d.Unix(), 10))
		case "display":
			var p string
			p, ok = ParseDisplayString(s)
			v = vfSfvInts(p)
		default:
			panic("driver: unknown entry point " + fn)
		}
	})
	if fn == "string" || fn == "bytes" || !ok {
		v = nil
	}
	return
}

func vfSfvNorm(v any) any {
	b, _ := json.Marshal(v)
	var out any
	json.Unmarshal(b, &out)
	return out
}

type vfSfvItem struct {
	Fn  string `json:"fn"`
	In  []int  `json:"in"`
	Out struct {
		Ok  bool     `json:"ok"`
		V   any      `json:"v"`
		Why []string `json:"why"`
		At  int      `json:"at"`
	} `json:"out"`
}

type vfSfvMis struct {
	b        int
	what     string
	exp, act any
}

func TestVerifSfv(t *testing.T) {
	env := vfLoad(t)
	if env == nil {
		return
	}
	if env.Mode == "replay" {
		vfSfvReplay(t, env)
	} else {
		vfSfvRecord(t, env)
	}
	env.Finish(nil)
}

func vfSfvReplay(t *testing.T, env *vfEnv) {
	// Disagreements are grouped by a reporting key (entry point, direction, the RFC step the
	// specification names) and reported round-robin over the groups, so that a frequent class
	// cannot crowd a rare one out of the bounded mismatch list.
	groups := map[string][]vfSfvMis{}
	add := func(key string, m vfSfvMis) {
		if len(groups[key]) < 4 {
			groups[key] = append(groups[key], m)
		}
	}
	for _, it := range env.Items() {
		if env.Hung {
			break
		}
		var c vfSfvItem
		if err := json.Unmarshal(it.V, &c); err != nil {
			t.Fatalf("item %d: %v", it.B, err)
		}
		s := vfSfvStr(c.In)
		ok, v, res := vfSfvCall(c.Fn, s)
		env.Replayed(1)
		exp := map[string]any{"ok": c.Out.Ok}
		if c.Out.Ok && c.Out.V != nil {
			exp["v"] = c.Out.V
		}
		act := map[string]any{"ok": ok}
		if v != nil {
			act["v"] = vfSfvNorm(v)
		}
		switch {
		case res != "":
			env.Hung = env.Hung || res == "hang"
			add(c.Fn+"|"+res, vfSfvMis{it.B, c.Fn + ": " + res, exp, res})
		case ok && !c.Out.Ok:
			at := "byte"
			if c.Out.At > len(s) {
				at = "end"
			} else if s[c.Out.At-1] == '\t' {
				at = "HTAB"
			}
			add(c.Fn+"|acc|"+strings.Join(c.Out.Why, ">")+"|"+at,
				vfSfvMis{it.B, c.Fn + ": accepted, RFC 9651 fails parsing at " + strings.Join(c.Out.Why, ">"), exp, act})
		case !ok && c.Out.Ok:
			add(fmt.Sprintf("%s|rej|%v|%d", c.Fn, strings.Contains(s, "%ef%bf%bd"), len(s)/4),
				vfSfvMis{it.B, c.Fn + ": rejected, RFC 9651 accepts", exp, act})
		case ok && c.Out.V != nil && !reflect.DeepEqual(act["v"], c.Out.V):
			add(fmt.Sprintf("%s|val|%d", c.Fn, len(s)/4),
				vfSfvMis{it.B, c.Fn + ": value differs from RFC 9651", exp, act})
		}
	}
	keys := make([]string, 0, len(groups))
	for k := range groups {
		keys = append(keys, k)
	}
	sort.Strings(keys)
	for round := 0; round < 4; round++ {
		for _, k := range keys {
			if g := groups[k]; round < len(g) {
				env.Mismatch(g[round].b, 1, g[round].what, g[round].exp, g[round].act)
			}
		}
	}
}

// ---------------------------------------------------------------- record: random inputs

type vfSfvGen struct{ r *rand.Rand }

func (g vfSfvGen) pick(xs ...string) string { return xs[g.r.Intn(len(xs))] }

func (g vfSfvGen) digits(n int) string {
	b := make([]byte, n)
	for i := range b {
		b[i] = byte('0' + g.r.Intn(10))
	}
	return string(b)
}

func (g vfSfvGen) from(alpha string, n int) string {
	b := make([]byte, n)
	for i := range b {
		b[i] = alpha[g.r.Intn(len(alpha))]
	}
	return string(b)
}

const vfSfvLower = "abcdefghijklmnopqrstuvwxyz"
const vfSfvTok = "abcxyzABCXYZ0123456789!#$%&'*+-.^_`|~:/"

func (g vfSfvGen) integer() string {
	n := 1 + g.r.Intn(6)
	if g.r.Intn(4) == 0 {
		n = 13 + g.r.Intn(5) // around the 15-digit limit
	}
	return g.pick("", "", "-") + g.digits(n)
}

func (g vfSfvGen) decimal() string {
	n, f := 1+g.r.Intn(5), 1+g.r.Intn(3)
	if g.r.Intn(3) == 0 {
		n = 10 + g.r.Intn(5) // around the 12-digit limit
	}
	if g.r.Intn(5) == 0 {
		f = g.r.Intn(6) // 0 and more than 3 fractional digits
	}
	return g.pick("", "", "-") + g.digits(n) + "." + g.digits(f)
}

func (g vfSfvGen) str() string {
	var sb strings.Builder
	sb.WriteByte('"')
	for n := g.r.Intn(6); n > 0; n-- {
		switch p := g.r.Intn(20); {
		case p < 12:
			sb.WriteByte(byte(0x20 + g.r.Intn(0x5f)))
		case p < 15:
			sb.WriteString(g.pick(`\"`, `\\`))
		case p < 16:
			sb.WriteString(`\` + g.from("an0 ", 1))
		case p < 17:
			sb.WriteByte(byte(g.r.Intn(256)))
		default:
			sb.WriteString(g.pick(",", ";", " ", "=", "(", ")"))
		}
	}
	if g.r.Intn(12) != 0 {
		sb.WriteByte('"')
	}
	return sb.String()
}

func (g vfSfvGen) token() string {
	return g.from("abcXYZ*", 1) + g.from(vfSfvTok, g.r.Intn(5))
}

func (g vfSfvGen) bytes() string {
	return ":" + g.from("abcXYZ019+/=", g.r.Intn(7)) + g.pick(":", ":", ":", ":", "", "-:")
}

func (g vfSfvGen) escape(b []byte, upper bool) string {
	var sb strings.Builder
	for _, c := range b {
		h := fmt.Sprintf("%%%02x", c)
		if upper {
			h = strings.ToUpper(h)
		}
		sb.WriteString(h)
	}
	return sb.String()
}

func (g vfSfvGen) display() string {
	var sb strings.Builder
	sb.WriteString(`%"`)
	for n := g.r.Intn(5); n > 0; n-- {
		switch p := g.r.Intn(20); {
		case p < 6:
			sb.WriteByte(byte(0x20 + g.r.Intn(0x5f)))
			if c := sb.String()[sb.Len()-1]; c == '%' || c == '"' {
				sb.WriteString("25")
			}
		case p < 12:
			// a well-formed code point of 1..4 bytes, escaped
			r := []rune{0x41, 0xe9, 0x7ff, 0x800, 0x20ac, 0xd7ff, 0xe000, 0xfffd, 0xfffe, 0xffff, 0x10000, 0x1f4a9, 0x10ffff,
				rune(0x80 + g.r.Intn(0x780)), rune(0x800 + g.r.Intn(0xd000)), rune(0x10000 + g.r.Intn(0x100000))}[g.r.Intn(16)]
			sb.WriteString(g.escape([]byte(string(r)), g.r.Intn(15) == 0))
		case p < 15:
			// a multi-byte sequence interrupted after k octets by 1..2 unescaped characters or an
			// escaped ASCII character, then completed, completed with one octet too few, or not
			b := []byte(string([]rune{0xe9, 0x7ff, 0x20ac, 0xfffe, 0x1f600, 0x10ffff,
				rune(0x80 + g.r.Intn(0x780)), rune(0x800 + g.r.Intn(0xd000)), rune(0x10000 + g.r.Intn(0x100000))}[g.r.Intn(9)]))
			k := 1 + g.r.Intn(len(b)-1)
			end := []int{len(b), len(b), len(b) - 1, k}[g.r.Intn(4)]
			if end < k {
				end = k
			}
			sb.WriteString(g.escape(b[:k], false))
			sb.WriteString(g.pick("a", " ", "(", "-", "x-", "( ", "--", "zz", "%28", "%41"))
			sb.WriteString(g.escape(b[k:end], false))
		case p < 17:
			// arbitrary escaped bytes (mostly not UTF-8)
			b := make([]byte, 1+g.r.Intn(3))
			for i := range b {
				b[i] = byte(0x80 + g.r.Intn(0x80))
			}
			sb.WriteString(g.escape(b, false))
		case p < 18:
			sb.WriteString("%" + g.from("0123456789abcdefABCDEFg\"", g.r.Intn(3)))
		default:
			sb.WriteByte(byte(g.r.Intn(256)))
		}
	}
	if g.r.Intn(12) != 0 {
		sb.WriteByte('"')
	}
	return sb.String()
}

func (g vfSfvGen) bare() (string, string) {
	switch g.r.Intn(12) {
	case 0, 1:
		return g.integer(), "integer"
	case 2, 3:
		return g.decimal(), "decimal"
	case 4:
		return g.str(), "string"
	case 5, 6:
		return g.token(), "token"
	case 7:
		return g.bytes(), "bytes"
	case 8:
		return g.pick("?0", "?1", "?1", "?2", "?"), "boolean"
	case 9:
		return "@" + g.pick(g.integer(), g.integer(), g.decimal()), "date"
	default:
		return g.display(), "display"
	}
}

func (g vfSfvGen) key() string {
	if g.r.Intn(15) == 0 {
		return g.from("ABC1_-", 1) + g.from(vfSfvLower, g.r.Intn(3))
	}
	return g.from(vfSfvLower+"*", 1) + g.from(vfSfvLower+"0123456789_-.*", g.r.Intn(4))
}

func (g vfSfvGen) params() string {
	var sb strings.Builder
	for n := []int{0, 0, 0, 1, 1, 2, 3}[g.r.Intn(7)]; n > 0; n-- {
		sb.WriteString(";" + g.pick("", "", "", "", " ", "  ", "\t", " \t"))
		k := g.key()
		if sb.Len() > 4 && g.r.Intn(4) == 0 {
			k = "a" // repeated keys
		}
		sb.WriteString(k)
		if g.r.Intn(2) == 0 {
			b, _ := g.bare()
			sb.WriteString("=" + b)
		}
	}
	return sb.String()
}

func (g vfSfvGen) item() string { b, _ := g.bare(); return b + g.params() }

func (g vfSfvGen) inner() string {
	var sb strings.Builder
	sb.WriteString("(" + g.pick("", "", "", " ", "  ", " \t"))
	for n := g.r.Intn(4); n > 0; n-- {
		sb.WriteString(g.item())
		sb.WriteString(g.pick(" ", " ", " ", " ", "  ", "", "\t", " \t "))
	}
	sb.WriteString(g.pick(")", ")", ")", ")", ")", ")", ")", ""))
	return sb.String()
}

func (g vfSfvGen) member() string {
	if g.r.Intn(4) == 0 {
		return g.inner() + g.params()
	}
	return g.item()
}

func (g vfSfvGen) sep() string {
	return g.pick(",", ", ", ", ", ", ", " , ", ",\t", " \t, ", " ", ",,", "")
}

func (g vfSfvGen) list() string {
	var sb strings.Builder
	for i, n := 0, g.r.Intn(4); i < n; i++ {
		if i > 0 {
			sb.WriteString(g.sep())
		}
		sb.WriteString(g.member())
	}
	return sb.String() + g.pick("", "", "", "", "", "", " ", ",", ", ", "\t")
}

func (g vfSfvGen) dict() string {
	var sb strings.Builder
	for i, n := 0, g.r.Intn(5); i < n; i++ {
		if i > 0 {
			sb.WriteString(g.sep())
		}
		k := g.key()
		if g.r.Intn(3) == 0 {
			k = g.pick("u", "i", "a")
		}
		sb.WriteString(k)
		switch g.r.Intn(3) {
		case 0:
			sb.WriteString(g.params())
		default:
			sb.WriteString("=" + g.member())
		}
	}
	return sb.String() + g.pick("", "", "", "", "", "", " ", ",", ", ", "\t")
}

func (g vfSfvGen) damage(s string) string {
	if len(s) == 0 || g.r.Intn(2) == 0 {
		return s
	}
	const junk = " \t\",;=()*:/?@%\\-.0aA_~\x00\x7f\x80\xc3"
	b := []byte(s)
	i := g.r.Intn(len(b))
	switch g.r.Intn(4) {
	case 0:
		b = append(b[:i], b[i+1:]...)
	case 1:
		b[i] = junk[g.r.Intn(len(junk))]
	case 2:
		b = append(b[:i], append([]byte{junk[g.r.Intn(len(junk))]}, b[i:]...)...)
	default:
		b = b[:i]
	}
	return string(b)
}

var vfSfvFns = []string{"list", "dict", "item", "innerlist", "params", "integer", "decimal", "string", "token",
	"bytes", "boolean", "date", "display"}

func vfSfvRecord(t *testing.T, env *vfEnv) {
	n := env.Int("traces", 600)
	for tr := 1; tr <= n && !env.Hung; tr++ {
		if !env.Only(tr) {
			continue
		}
		g := vfSfvGen{env.Rand(int64(tr))}
		var s, fn string
		switch g.r.Intn(10) {
		case 0, 1:
			s, fn = g.list(), "list"
		case 2, 3, 4:
			s, fn = g.dict(), "dict"
		case 5:
			s, fn = g.item(), "item"
		case 6:
			s, fn = g.inner(), "innerlist"
		case 7:
			s, fn = g.params(), "params"
		default:
			s, fn = g.bare()
		}
		s = g.damage(s)
		if g.r.Intn(6) == 0 {
			fn = vfSfvFns[g.r.Intn(len(vfSfvFns))] // the same text through another entry point
		}
		ok, v, res := vfSfvCall(fn, s)
		if res != "" {
			env.Hung = env.Hung || res == "hang"
			env.Emit(tr, map[string]any{"e": map[bool]string{true: "hang", false: "panic"}[res == "hang"],
				"fn": fn, "in": vfSfvInts(s), "msg": res})
			continue
		}
		ev := map[string]any{"e": "parse", "fn": fn, "in": vfSfvInts(s), "ok": ok}
		if v != nil {
			ev["v"] = v
		}
		env.Emit(tr, ev)
	}
}
