// /verif driver for QUIC variable-length integers (C22). Injected with `go test -overlay`.
//
// replay: cases enumerated by TLC from specs/quicvarint/VarintCases.tla carry the outputs
// the specification predicts (encoding, size, decoding, truncation results); they are
// executed on the real quicwire functions and every disagreement is a mismatch.
// record: seeded 62-bit values and byte strings are run through the real functions and the
// results logged (values as 8-byte big-endian arrays) for TLC to judge (Trace.tla).
//
// The only value mapping is uint64 <-> 8-byte big-endian image (encoding/binary).

package quicwire

import (
	"bytes"
	"encoding/binary"
	"encoding/json"
	"math/rand"
	"testing"
)

type vfVarintCase struct {
	K      string `json:"k"`
	V      []int  `json:"v"`
	Enc    []int  `json:"enc"`
	Size   int    `json:"size"`
	TruncN int    `json:"truncn"`
	B      []int  `json:"b"`
	Ok     bool   `json:"ok"`
	N      int    `json:"n"`
	Dv     []int  `json:"dv"`
	Hdr    []int  `json:"hdr"`
	Avail  int    `json:"avail"`
	Plen   int    `json:"plen"`
	Len    int    `json:"len"`
	D      int    `json:"d"`
}

func vfBytes(a []int) []byte {
	b := make([]byte, len(a))
	for i, x := range a {
		b[i] = byte(x)
	}
	return b
}

func vfInts(b []byte) []int {
	a := make([]int, len(b))
	for i, x := range b {
		a[i] = int(x)
	}
	return a
}

func vfU64(a []int) uint64 { return binary.BigEndian.Uint64(vfBytes(a)) }

func vfImage(v uint64) []int {
	var b [8]byte
	binary.BigEndian.PutUint64(b[:], v)
	return vfInts(b[:])
}

// vfPayload is the concrete payload the driver uses for an abstract payload length.
func vfPayload(n int, salt byte) []byte {
	p := make([]byte, n)
	for i := range p {
		p[i] = byte(i*7) ^ salt
	}
	return p
}

func TestVerifQuicVarint(t *testing.T) {
	env := vfLoad(t)
	if env == nil {
		return
	}
	env.mismatches = []map[string]any{} // result.json must carry [] (not null) when nothing disagrees
	switch env.Mode {
	case "replay":
		vfVarintReplay(env)
	case "record":
		vfVarintRecord(env)
	default:
		t.Fatalf("unknown mode %q", env.Mode)
	}
	env.Finish(nil)
}

func vfVarintReplay(env *vfEnv) {
	rnd := env.Rand(77)
	for _, it := range env.Items() {
		var c vfVarintCase
		if err := json.Unmarshal(it.V, &c); err != nil {
			env.tb.Fatalf("item %d: %v", it.B, err)
		}
		steps := 0
		mm := func(step int, what string, exp, act any) { env.Mismatch(it.B, step, c.K+": "+what, exp, act) }
		p := vfCatch(func() {
			switch c.K {
			case "enc":
				v := vfU64(c.V)
				want := vfBytes(c.Enc)
				// AppendVarint appends exactly the predicted bytes (to an empty and to a non-empty buffer).
				got := AppendVarint(nil, v)
				steps++
				if !bytes.Equal(got, want) {
					mm(0, "AppendVarint", c.Enc, vfInts(got))
				}
				pre := []byte{0xaa, 0x55}
				got2 := AppendVarint(append([]byte(nil), pre...), v)
				steps++
				if !bytes.Equal(got2, append(append([]byte(nil), pre...), want...)) {
					mm(1, "AppendVarint onto a non-empty buffer", c.Enc, vfInts(got2))
				}
				steps++
				if s := SizeVarint(v); s != c.Size {
					mm(2, "SizeVarint", c.Size, s)
				}
				// ConsumeVarint of the predicted encoding followed by anything.
				junks := [][]byte{nil, {0xff}, {0x00, 0xc0, 0x7f}, make([]byte, 1+rnd.Intn(9))}
				rnd.Read(junks[3])
				for j, junk := range junks {
					in := append(append([]byte(nil), want...), junk...)
					gv, gn := ConsumeVarint(in)
					steps++
					if gn != c.Size || gv != v {
						mm(10+j, "ConsumeVarint(enc+junk)", map[string]any{"v": c.V, "n": c.Size}, map[string]any{"v": vfImage(gv), "n": gn})
					}
					iv, in2 := ConsumeVarintInt64(in)
					steps++
					if in2 != c.Size || uint64(iv) != v || iv < 0 {
						mm(20+j, "ConsumeVarintInt64(enc+junk)", map[string]any{"v": c.V, "n": c.Size}, map[string]any{"v": vfImage(uint64(iv)), "n": in2})
					}
				}
				// every proper prefix is truncated input
				for k := 0; k < len(want); k++ {
					_, gn := ConsumeVarint(want[:k:k])
					steps++
					if gn != c.TruncN {
						mm(30+k, "ConsumeVarint(proper prefix)", c.TruncN, gn)
					}
				}
			case "dec":
				in := vfBytes(c.B)
				in = in[:len(in):len(in)] // reading past the input panics
				gv, gn := ConsumeVarint(in)
				steps++
				if gn != c.N || (c.Ok && gv != vfU64(c.V)) {
					mm(0, "ConsumeVarint", map[string]any{"v": c.V, "n": c.N}, map[string]any{"v": vfImage(gv), "n": gn})
				}
			case "cvb":
				// header = predicted encoding of the declared length, then avail payload bytes
				pay := vfPayload(c.Avail, 0x5a)
				in := append(vfBytes(c.Hdr), pay...)
				in = in[:len(in):len(in)]
				gb, gn := ConsumeVarintBytes(in)
				steps++
				if gn != c.N {
					mm(0, "ConsumeVarintBytes n", c.N, gn)
				} else if c.Ok && !bytes.Equal(gb, pay[:c.Plen]) {
					mm(1, "ConsumeVarintBytes payload", c.Plen, len(gb))
				}
			case "avb":
				pay := vfPayload(c.Len, 0x33)
				got := AppendVarintBytes([]byte{0x01}, pay)
				want := append(append([]byte{0x01}, vfBytes(c.Hdr)...), pay...)
				steps++
				if !bytes.Equal(got, want) {
					mm(0, "AppendVarintBytes", map[string]any{"hdr": c.Hdr, "len": len(want)}, map[string]any{"head": vfInts(got[:min(len(got), 10)]), "len": len(got)})
				}
				gb, gn := ConsumeVarintBytes(append(got[1:len(got):len(got)], 0xee))
				steps++
				if gn != len(c.Hdr)+c.Len || !bytes.Equal(gb, pay) {
					mm(1, "ConsumeVarintBytes(AppendVarintBytes(p)+junk)", len(c.Hdr)+c.Len, gn)
				}
			case "c8":
				pay := vfPayload(c.Avail, 0x21)
				in := append([]byte{byte(c.D)}, pay...)
				in = in[:len(in):len(in)]
				gb, gn := ConsumeUint8Bytes(in)
				steps++
				if gn != c.N {
					mm(0, "ConsumeUint8Bytes n", c.N, gn)
				} else if c.Ok && !bytes.Equal(gb, pay[:c.Plen]) {
					mm(1, "ConsumeUint8Bytes payload", c.Plen, len(gb))
				}
			case "a8":
				pay := vfPayload(c.Len, 0x44)
				got := AppendUint8Bytes([]byte{0x02}, pay)
				want := append(append([]byte{0x02}, vfBytes(c.Hdr)...), pay...)
				steps++
				if !bytes.Equal(got, want) {
					mm(0, "AppendUint8Bytes", map[string]any{"hdr": c.Hdr, "len": len(want)}, map[string]any{"head": vfInts(got[:min(len(got), 10)]), "len": len(got)})
				}
				gb, gn := ConsumeUint8Bytes(append(got[1:len(got):len(got)], 0xee))
				steps++
				if gn != 1+c.Len || !bytes.Equal(gb, pay) {
					mm(1, "ConsumeUint8Bytes(AppendUint8Bytes(p)+junk)", 1+c.Len, gn)
				}
			default:
				env.tb.Fatalf("unknown case kind %q", c.K)
			}
		})
		if p != "" {
			mm(99, "panic", "no panic", p)
		}
		env.Replayed(steps)
	}
}

// vfRandValue draws a value below 2^62: size classes and their boundaries are equally likely.
func vfRandValue(rnd *rand.Rand) uint64 {
	bounds := []uint64{0, 63, 64, 16383, 16384, 1<<30 - 1, 1 << 30, 1<<62 - 1, 1 << 32, 1<<31 - 1, 1 << 31, 1 << 56}
	switch rnd.Intn(6) {
	case 0:
		return rnd.Uint64() & 0x3f
	case 1:
		return rnd.Uint64() & 0x3fff
	case 2:
		return rnd.Uint64() & 0x3fffffff
	case 3:
		return rnd.Uint64() & (1<<62 - 1)
	case 4:
		// a random number of significant bits
		return (rnd.Uint64() & (1<<62 - 1)) >> uint(rnd.Intn(62))
	default:
		b := bounds[rnd.Intn(len(bounds))]
		d := uint64(rnd.Intn(5))
		if rnd.Intn(2) == 0 && b >= d {
			return b - d
		}
		if b+d < 1<<62 {
			return b + d
		}
		return b
	}
}

func vfVarintRecord(env *vfEnv) {
	ntr := env.Int("traces", 40)
	per := env.Int("per", 60)
	for t := 1; t <= ntr; t++ {
		if !env.Only(t) {
			continue
		}
		rnd := env.Rand(int64(t))
		env.Emit(t, map[string]any{"e": "hdr", "maxsize": MaxVarintSize})
		for i := 0; i < per; i++ {
			var ev map[string]any
			p := vfCatch(func() {
				switch k := rnd.Intn(10); {
				case k < 6:
					v := vfRandValue(rnd)
					enc := AppendVarint(nil, v)
					junk := make([]byte, rnd.Intn(4))
					rnd.Read(junk)
					in := append(append([]byte(nil), enc...), junk...)
					dv, dn := ConsumeVarint(in[:len(in):len(in)])
					tr := make([]int, 0, len(enc))
					for k := 0; k < len(enc); k++ {
						_, n := ConsumeVarint(enc[:k:k])
						tr = append(tr, n)
					}
					ev = map[string]any{"e": "val", "v": vfImage(v), "enc": vfInts(enc), "size": SizeVarint(v),
						"dn": dn, "dv": vfImage(dv), "tr": tr}
				case k < 9:
					b := make([]byte, rnd.Intn(11))
					rnd.Read(b)
					if len(b) > 0 && rnd.Intn(2) == 0 {
						b[0] = byte(rnd.Intn(4))<<6 | b[0]&0x3f
					}
					v, n := ConsumeVarint(b[:len(b):len(b)])
					ev = map[string]any{"e": "dec", "b": vfInts(b), "n": n, "v": vfImage(v)}
				default:
					lens := []int{0, 1, 63, 64, 100, 16383, 16384, 20000}
					plen := lens[rnd.Intn(len(lens))] + rnd.Intn(3)
					pay := vfPayload(plen, byte(rnd.Intn(256)))
					all := AppendVarintBytes(nil, pay)
					hn := len(all) - plen // everything before the payload is the length prefix
					if hn < 0 {
						hn = 0
					}
					// cut or extend the buffer
					avail := plen + rnd.Intn(5) - 2
					if avail < 0 {
						avail = 0
					}
					in := append([]byte(nil), all...)
					for len(in) < hn+avail {
						in = append(in, 0xee)
					}
					in = in[: hn+avail : hn+avail]
					gb, gn := ConsumeVarintBytes(in)
					ev = map[string]any{"e": "vbytes", "plen": plen, "hdr": vfInts(all[:hn]), "alen": len(all),
						"avail": avail, "n": gn, "rlen": len(gb), "same": gn >= 0 && bytes.Equal(gb, pay)}
				}
			})
			if p != "" {
				env.Emit(t, map[string]any{"e": "panic", "msg": p})
				break
			}
			env.Emit(t, ev)
		}
	}
}
