// GENERATED from drivers/quic/zz_verif_gate_test.go (adapter replaced). /verif driver for C29: the real quic.gate and quic.queue (this file) and internal/gate.Gate
// (drivers/internal/gate, generated from this file). Several goroutines in a synctest bubble,
// one command at a time, quiescence after each; completions are logged by the goroutine that
// acquired the gate before it does anything else, unlocks are logged by the holder before it
// releases, so the log order is the acquisition order. TLC (specs/gate/Trace.tla) judges.

package gate

import (
	"context"
	"errors"
	"fmt"
	"math/rand"
	"os"
	"sync"
	"testing"
	"testing/synctest"
)

// --- adapter (the only part that differs between the packages) ---
type vfGateT = Gate

func vfNewGate(set bool) *vfGateT                  { g := New(set); return &g }
func vfGLock(g *vfGateT) bool                      { return g.Lock() }
func vfGWal(g *vfGateT, ctx context.Context) error { return g.WaitAndLock(ctx) }
func vfGLis(g *vfGateT) bool                       { return g.LockIfSet() }
func vfGUnlock(g *vfGateT, set bool)               { g.Unlock(set) }

const vfHasQueue = false

type vfQueueT struct{}

func vfNewQueue() *vfQueueT                                { return nil }
func vfQPut(q *vfQueueT, v int) bool                       { return false }
func vfQGet(q *vfQueueT, ctx context.Context) (int, error) { return 0, nil }
func vfQClose(q *vfQueueT, err error)                      {}

// --- generic driver ---
type vfGateRun struct {
	env    *vfEnv
	t      int
	mu     sync.Mutex // orders log entries with the gate operations they describe
	events []map[string]any
	busy   map[int]bool
	inWal  map[int]bool // the blocked call of p is a cancellable wait (waitAndLock / get)
	holder int
	ctxs   map[int]context.Context
	cancel map[int]context.CancelFunc
	done   map[int]bool
}

func (r *vfGateRun) log(ev map[string]any) { r.events = append(r.events, ev) }

func (r *vfGateRun) settle() {
	synctest.Wait()
	r.mu.Lock()
	evs := r.events
	r.events = nil
	r.mu.Unlock()
	for _, ev := range evs {
		switch ev["e"] {
		case "acq":
			r.busy[ev["p"].(int)] = false
			r.inWal[ev["p"].(int)] = false
			r.holder = ev["p"].(int)
		case "fail", "ret":
			r.busy[ev["p"].(int)] = false
			r.inWal[ev["p"].(int)] = false
		case "lis":
			if ev["acquired"].(bool) {
				r.holder = ev["p"].(int)
			}
		case "unlock":
			r.holder = 0
		}
		r.env.Emit(r.t, ev)
	}
	blocked := []int{}
	for p := 1; p <= 4; p++ {
		if r.busy[p] {
			blocked = append(blocked, p)
		}
	}
	r.env.Emit(r.t, map[string]any{"e": "q", "blocked": blocked})
}

// waiter returns a process blocked in a cancellable wait whose context is still live (0 if none).
func (r *vfGateRun) waiter() int {
	for p := 1; p <= 4; p++ {
		if r.busy[p] && r.inWal[p] && !r.done[p] {
			return p
		}
	}
	return 0
}

var vfErrClose = [3]error{nil, errors.New("close-1"), errors.New("close-2")}

func vfGateScenario(t *testing.T, env *vfEnv, tn int, rnd *rand.Rand, kind string) {
	r := &vfGateRun{env: env, t: tn, busy: map[int]bool{}, inWal: map[int]bool{}, ctxs: map[int]context.Context{}, cancel: map[int]context.CancelFunc{}, done: map[int]bool{}}
	nproc := 2 + rnd.Intn(3)
	for p := 1; p <= nproc; p++ {
		r.ctxs[p], r.cancel[p] = context.WithCancel(context.Background())
	}
	defer func() {
		for p := 1; p <= nproc; p++ {
			r.cancel[p]()
		}
	}()
	initSet := rnd.Intn(2) == 0
	var g *vfGateT
	var q *vfQueueT
	if kind == "gate" {
		g = vfNewGate(initSet)
		env.Emit(tn, map[string]any{"e": "hdr", "kind": kind, "set": initSet})
	} else {
		q = vfNewQueue()
		env.Emit(tn, map[string]any{"e": "hdr", "kind": kind, "set": false})
	}
	nextv := 1
	nops := env.Int("ops", 40)
	for k := 0; k < nops; k++ {
		p := 1 + rnd.Intn(nproc)
		x := rnd.Intn(100)
		if kind == "gate" {
			switch {
			case x < 25: // lock
				if r.busy[p] || r.holder == p {
					continue
				}
				r.busy[p] = true
				env.Emit(tn, map[string]any{"e": "call", "p": p, "op": "lock"})
				go func() {
					set := vfGLock(g)
					r.mu.Lock()
					r.log(map[string]any{"e": "acq", "p": p, "op": "lock", "set": set})
					r.mu.Unlock()
				}()
			case x < 50: // waitAndLock
				if r.busy[p] || r.holder == p {
					continue
				}
				r.busy[p] = true
				r.inWal[p] = true
				env.Emit(tn, map[string]any{"e": "call", "p": p, "op": "wal"})
				ctx := r.ctxs[p]
				go func() {
					err := vfGWal(g, ctx)
					r.mu.Lock()
					if err == nil {
						r.log(map[string]any{"e": "acq", "p": p, "op": "wal"})
					} else {
						r.log(map[string]any{"e": "fail", "p": p, "op": "wal"})
					}
					r.mu.Unlock()
				}()
			case x < 60: // lockIfSet
				if r.busy[p] || r.holder == p {
					continue
				}
				r.mu.Lock()
				acq := vfGLis(g)
				r.log(map[string]any{"e": "lis", "p": p, "acquired": acq})
				r.mu.Unlock()
			case x < 68 && r.holder != 0 && r.waiter() != 0:
				// hand-off race: the holder unlocks with the condition set and the context of a
				// blocked waiter is cancelled before that waiter has run again
				w, h := r.waiter(), r.holder
				r.done[w] = true
				r.mu.Lock()
				r.log(map[string]any{"e": "unlock", "p": h, "set": true})
				vfGUnlock(g, true)
				r.log(map[string]any{"e": "cancel", "p": w})
				r.cancel[w]()
				r.mu.Unlock()
			case x < 90: // unlock by the holder
				if r.holder == 0 {
					continue
				}
				set := rnd.Intn(2) == 0
				h := r.holder
				r.mu.Lock()
				r.log(map[string]any{"e": "unlock", "p": h, "set": set})
				vfGUnlock(g, set)
				r.mu.Unlock()
			default: // cancel
				if r.done[p] {
					continue
				}
				r.done[p] = true
				env.Emit(tn, map[string]any{"e": "cancel", "p": p})
				r.cancel[p]()
			}
		} else {
			switch {
			case x < 10 && r.waiter() != 0:
				// hand-off race: an item is put and the context of a blocked getter is cancelled
				// before that getter has run again
				w := r.waiter()
				r.done[w] = true
				v := nextv
				nextv++
				r.mu.Lock()
				ok := vfQPut(q, v)
				r.log(map[string]any{"e": "put", "v": v, "ok": ok})
				r.log(map[string]any{"e": "cancel", "p": w})
				r.cancel[w]()
				r.mu.Unlock()
			case x < 35: // put
				v := nextv
				nextv++
				r.mu.Lock()
				ok := vfQPut(q, v)
				r.log(map[string]any{"e": "put", "v": v, "ok": ok})
				r.mu.Unlock()
			case x < 80: // get
				if r.busy[p] {
					continue
				}
				r.busy[p] = true
				r.inWal[p] = true
				env.Emit(tn, map[string]any{"e": "call", "p": p, "op": "get"})
				ctx := r.ctxs[p]
				go func() {
					v, err := vfQGet(q, ctx)
					r.mu.Lock()
					switch {
					case err == nil:
						r.log(map[string]any{"e": "ret", "p": p, "op": "get", "kind": "item", "v": v, "err": 0})
					case err == vfErrClose[1]:
						r.log(map[string]any{"e": "ret", "p": p, "op": "get", "kind": "closed", "v": 0, "err": 1})
					case err == vfErrClose[2]:
						r.log(map[string]any{"e": "ret", "p": p, "op": "get", "kind": "closed", "v": 0, "err": 2})
					case errors.Is(err, context.Canceled):
						r.log(map[string]any{"e": "ret", "p": p, "op": "get", "kind": "ctx", "v": 0, "err": 0})
					default:
						r.log(map[string]any{"e": "ret", "p": p, "op": "get", "kind": fmt.Sprint(err), "v": 0, "err": 0})
					}
					r.mu.Unlock()
				}()
			case x < 88: // cancel
				if r.done[p] {
					continue
				}
				r.done[p] = true
				env.Emit(tn, map[string]any{"e": "cancel", "p": p})
				r.cancel[p]()
			default: // close (rare)
				if rnd.Intn(3) != 0 {
					continue
				}
				e := 1 + rnd.Intn(2)
				r.mu.Lock()
				vfQClose(q, vfErrClose[e])
				r.log(map[string]any{"e": "close", "err": e})
				r.mu.Unlock()
			}
		}
		r.settle()
	}
	// wind down so that no goroutine outlives the bubble
	if kind == "gate" {
		for i := 0; i < 2*nproc+2; i++ {
			if r.holder != 0 {
				h := r.holder
				r.mu.Lock()
				r.log(map[string]any{"e": "unlock", "p": h, "set": true})
				vfGUnlock(g, true)
				r.mu.Unlock()
				r.settle()
			}
		}
		for p := 1; p <= nproc; p++ {
			if !r.done[p] {
				r.done[p] = true
				env.Emit(tn, map[string]any{"e": "cancel", "p": p})
				r.cancel[p]()
			}
		}
		r.settle()
		for i := 0; i < nproc+1; i++ { // lock() waiters need the gate to be free
			if r.holder != 0 {
				h := r.holder
				r.mu.Lock()
				r.log(map[string]any{"e": "unlock", "p": h, "set": false})
				vfGUnlock(g, false)
				r.mu.Unlock()
				r.settle()
			}
		}
	} else {
		r.mu.Lock()
		vfQClose(q, vfErrClose[1])
		r.log(map[string]any{"e": "close", "err": 1})
		r.mu.Unlock()
		r.settle()
	}
}

func TestVerifGate(t *testing.T) {
	env := vfLoad(t)
	if env == nil {
		return
	}
	n := env.Int("traces", 60)
	abnormal := false
	for tn := 1; tn <= n; tn++ {
		if !env.Only(tn) {
			continue
		}
		kind := "gate"
		if vfHasQueue && tn%2 == 0 {
			kind = "queue"
		}
		rnd := env.Rand(int64(tn))
		hung := vfCatchTimeout(60e9, func() {
			synctest.Test(t, func(t *testing.T) { vfGateScenario(t, env, tn, rnd, kind) })
		})
		if hung != "" {
			abnormal = true
			env.Emit(tn, map[string]any{"e": "panic", "msg": hung})
			if hung == "hang" {
				env.Hung = true
				break
			}
		}
	}
	env.Finish(nil)
	if abnormal {
		// A bubble that ended in a deadlock leaves goroutines blocked for ever; the package's
		// TestMain would wait for them until the go test timeout. The results are complete.
		os.Exit(1)
	}
}
