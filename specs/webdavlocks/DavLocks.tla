------------------------------ MODULE DavLocks ------------------------------
(* X05 / X06: the WebDAV Handler (golang.org/x/net/webdav) over NewMemFS + NewMemLS *)
(* as a state machine: a small resource tree, the set of write locks, an abstract   *)
(* clock, and one action per HTTP request.                                          *)
(*                                                                                  *)
(* Two definitions of "what a request does" live side by side:                      *)
(*                                                                                  *)
(*  Contract(S, r)  the set of outcomes RFC 4918 (sections 6, 7, 9.x, 10.4) and the *)
(*                  package documentation allow: a set of status codes (where the   *)
(*                  RFC leaves the choice open the whole set is allowed), the state *)
(*                  afterwards, and what the response must say.  The real handler   *)
(*                  is judged against this and nothing else.                        *)
(*  Impl(F, S, r)   a transcription of the handler as written (confirmLocks, the    *)
(*                  temporary-lock trick, memLS.Confirm/Create/Refresh/Unlock, the  *)
(*                  memFS error classes) with a set F of named *repairs* applied.   *)
(*                  Impl({}, ..) is the pinned code; it is used (a) to steer the    *)
(*                  generator (a history only uses steps on which the pinned code   *)
(*                  and the contract agree), (b) to name the cause of a deviation   *)
(*                  (the single repair that makes Impl conform), and (c) for the    *)
(*                  design-level theorem checked by TLC: Impl(AllRepairs, ..) is    *)
(*                  always inside Contract.                                         *)
(*                                                                                  *)
(* Paths are sequences of segments (<<>> is "/").  A tree maps the non-root paths   *)
(* that exist to [k, c]: kind "d"/"f" and a content id (0 = empty).  A lock is      *)
(* [tok, root, inf, exp]: token number (order of issue), root path, depth infinity? *)
(* and the clock value at which it is dead (0 = never).                             *)
EXTENDS Integers, Sequences, FiniteSets, TLC

Root == <<>>
Parent(p) == IF p = <<>> THEN <<>> ELSE SubSeq(p, 1, Len(p) - 1)
PathPrefix(p, q) == Len(p) <= Len(q) /\ SubSeq(q, 1, Len(p)) = p
Below(p, q) == Len(p) < Len(q) /\ SubSeq(q, 1, Len(p)) = p          \* q lies strictly below p
SetMin(X) == CHOOSE x \in X : \A y \in X : x <= y

(* ------------------------------- trees ------------------------------------ *)
Exists(T, p) == p = Root \/ p \in DOMAIN T
IsDir(T, p)  == p = Root \/ (p \in DOMAIN T /\ T[p].k = "d")
Sub(T, p)    == {q \in DOMAIN T : PathPrefix(p, q)}                   \* p itself (unless root) and all below
Kids(T, p)   == {q \in DOMAIN T : Len(q) = Len(p) + 1 /\ PathPrefix(p, q)}
TreeRestrict(T, D) == [q \in D |-> T[q]]
RemoveSub(T, p) == TreeRestrict(T, DOMAIN T \ Sub(T, p))
PutNode(T, p, n) == [q \in DOMAIN T \cup {p} |-> IF q = p THEN n ELSE T[q]]
EmptyTree == [q \in {} |-> [k |-> "d", c |-> 0]]

WellFormedTree(T) == \A p \in DOMAIN T : p # Root /\ IsDir(T, Parent(p))

\* state of the ancestors of p: "ok" all proper ancestors are collections, "notdir" some proper
\* ancestor is mapped to a non-collection, "missing" otherwise
Anc(T, p) ==
    LET pre == {SubSeq(p, 1, i) : i \in 0..(Len(p) - 1)} IN
    IF \A q \in pre : IsDir(T, q) THEN "ok"
    ELSE IF \E q \in pre : Exists(T, q) /\ ~IsDir(T, q) THEN "notdir"
    ELSE "missing"

(* ------------------------------- locks ------------------------------------ *)
Covers(l, p) == l.root = p \/ (l.inf /\ Below(l.root, p))
LocksOn(S, p) == {l \in S.locks : Covers(l, p)}
Expire(L, now) == {l \in L : l.exp = 0 \/ l.exp > now}
Exp(S, to) == IF to = 0 THEN 0 ELSE S.now + to

\* no resource is covered by two locks (all locks are exclusive write locks)
Exclusive(L) == \A l1, l2 \in L : l1 # l2 =>
                   /\ l1.tok # l2.tok
                   /\ l1.root # l2.root
                   /\ ~(l1.inf /\ Below(l1.root, l2.root))

(* ------------------------------- requests --------------------------------- *)
(* r = [m, p, ifh, body, depth, to, lt]                                             *)
(*   m      "OPTIONS" "GET" "HEAD" "PUT" "DELETE" "MKCOL" "LOCK" "REFRESH" "UNLOCK" *)
(*          "PROPFIND"  ("REFRESH" is LOCK with an empty body)                      *)
(*   ifh    the If header: a sequence of lists [tf, tp, cs]; tf = "none" (No-tag    *)
(*          list), "uri" (tagged with an absolute URI) or "path" (tagged with an    *)
(*          absolute path); tp the tagged path; cs a sequence of conditions         *)
(*          [neg, k, v]: k = "tok" with v a token number (0 = <DAV:no-lock>, 99 = a  *)
(*          token that was never issued) or k = "etag" with v = 1 (the tagged       *)
(*          resource's current entity tag) / 0 (some other entity tag).             *)
(*          <<>> = no If header.                                                    *)
(*   body   PUT: content id; MKCOL: 1 = a request body is sent                      *)
(*   depth  "" (no header) "0" "1" "infinity" "bad"                                 *)
(*   to     Timeout in clock units, 0 = no Timeout header / Infinite                *)
(*   lt     UNLOCK: token number in Lock-Token (0 = no header, 99 = never issued)   *)
Req(m, p, ifh, body, depth, to, lt) ==
    [m |-> m, p |-> p, ifh |-> ifh, body |-> body, depth |-> depth, to |-> to, lt |-> lt]

CondTok(t)   == [neg |-> FALSE, k |-> "tok", v |-> t]
CondNot(t)   == [neg |-> TRUE,  k |-> "tok", v |-> t]
CondEtag(v)  == [neg |-> FALSE, k |-> "etag", v |-> v]
CondNEtag(v) == [neg |-> TRUE,  k |-> "etag", v |-> v]
List(tf, tp, cs) == [tf |-> tf, tp |-> tp, cs |-> cs]
NoTag(cs) == List("none", Root, cs)

(* ------------------------------- If header, RFC 4918 10.4 ------------------ *)
\* a state token matches a resource that is in the scope of the lock with that token;
\* an entity tag matches the resource's current entity tag (an unmapped URL has none)
CondHolds(S, res, c) ==
    (IF c.k = "tok" THEN \E l \in S.locks : l.tok = c.v /\ Covers(l, res)
                    ELSE c.v = 1 /\ Exists(S.tree, res)) # c.neg
ListRes(r, L) == IF L.tf = "none" THEN r.p ELSE L.tp
ListHolds(S, r, L) == \A j \in 1..Len(L.cs) : CondHolds(S, ListRes(r, L), L.cs[j])
IfHolds(S, r) == r.ifh = <<>> \/ \E i \in 1..Len(r.ifh) : ListHolds(S, r, r.ifh[i])
\* "the mere fact that a state token appears in an If header means that it has been submitted"
Submitted(r) == UNION {{r.ifh[i].cs[j].v : j \in {j \in 1..Len(r.ifh[i].cs) : r.ifh[i].cs[j].k = "tok"}}
                       : i \in 1..Len(r.ifh)}

(* ------------------------------- what a method may change ------------------ *)
\* the resources whose locks (direct or through a depth-infinity ancestor) must be submitted:
\* the resource itself, every member that is removed with it, and the parent collection when
\* the method adds or removes a member URL (RFC 4918 7.4, 7.5)
WriteSet(S, r) ==
    LET T == S.tree  p == r.p IN
    CASE r.m = "PUT"    -> {p} \cup (IF Exists(T, p) THEN {} ELSE {Parent(p)})
      [] r.m = "MKCOL"  -> {p, Parent(p)}
      [] r.m = "DELETE" -> {p, Parent(p)} \cup Sub(T, p)
      [] r.m = "LOCK"   -> IF Exists(T, p) THEN {} ELSE {Parent(p)}
      [] OTHER          -> {}
Needed(S, r) == UNION {LocksOn(S, q) : q \in WriteSet(S, r)}
Unsub(S, r)  == {l \in Needed(S, r) : l.tok \notin Submitted(r)}
GuardCodes(S, r) == (IF IfHolds(S, r) THEN {} ELSE {412}) \cup (IF Unsub(S, r) = {} THEN {} ELSE {423})

(* ------------------------------- outcomes ---------------------------------- *)
(* [codes, st, tok, info]: allowed status codes, state afterwards, token issued (0  *)
(* = none), and what the response must show: h = hrefs of a 207, c = content id of  *)
(* a GET (0 - 1 = not applicable), must / mustnot = methods in / not in Allow, linf  *)
(* / lto / lroot = depth, timeout and root in the lockdiscovery of a LOCK response. *)
NoInfo == [h |-> {}, c |-> 0 - 1, must |-> {}, mustnot |-> {}, linf |-> FALSE, lto |-> 0 - 1, lroot |-> Root]
Out(codes, st, tok, info) == [codes |-> codes, st |-> st, tok |-> tok, info |-> info]
Fail(S, codes) == {Out(codes, S, 0, NoInfo)}
E4 == {403, 404, 405, 409}             \* "some client error": the RFC does not single one out
AncCodes(T, p) == CASE Anc(T, p) = "missing" -> {409} [] Anc(T, p) = "notdir" -> E4 [] OTHER -> {}

DropLocksIn(L, p) == {l \in L : ~PathPrefix(p, l.root)}

CMkcol(S, r) ==
    LET T == S.tree  p == r.p
        why == GuardCodes(S, r) \cup (IF r.body # 0 THEN {415} ELSE {})
                 \cup (IF Exists(T, p) THEN {405} ELSE {}) \cup AncCodes(T, p)
    IN  IF why # {} THEN Fail(S, why)
        ELSE {Out({201}, [S EXCEPT !.tree = PutNode(T, p, [k |-> "d", c |-> 0])], 0, NoInfo)}

CPut(S, r) ==
    LET T == S.tree  p == r.p
        why == GuardCodes(S, r) \cup (IF IsDir(T, p) THEN E4 ELSE {}) \cup AncCodes(T, p)
    IN  IF why # {} THEN Fail(S, why)
        ELSE {Out(IF Exists(T, p) THEN {200, 201, 204} ELSE {201},
                  [S EXCEPT !.tree = PutNode(T, p, [k |-> "f", c |-> r.body])], 0, NoInfo)}

\* DELETE of a collection some of whose members are protected by locks that were not submitted:
\* 207 with 423 for those members; the other members may or may not have been removed (9.6.1)
CDelete(S, r) ==
    LET T == S.tree  p == r.p
        uns == Unsub(S, r)
        own == {l \in uns : Covers(l, p) \/ Covers(l, Parent(p))}
        hard == (IF IfHolds(S, r) THEN {} ELSE {412}) \cup (IF own # {} THEN {423} ELSE {})
                  \cup (IF p = Root THEN E4 ELSE {})
                  \cup (IF Exists(T, p) THEN {} ELSE IF Anc(T, p) = "notdir" THEN E4 ELSE {404})
        free(q) == \A q2 \in Sub(T, q) \cup {Parent(q)} : LocksOn(S, q2) \cap uns = {}
        cand == {q \in Sub(T, p) \ {p} : free(q)}
        gone(D) == UNION {Sub(T, q) : q \in D}
    IN  IF hard # {} THEN Fail(S, hard \cup (IF uns # {} THEN {423} ELSE {}))
        ELSE IF uns # {}
        THEN {Out({207, 423, 424},
                  [S EXCEPT !.tree = TreeRestrict(T, DOMAIN T \ gone(D)),
                            !.locks = {l \in S.locks : l.root \notin gone(D)}], 0, NoInfo) : D \in SUBSET cand}
        ELSE {Out({200, 204}, [S EXCEPT !.tree = RemoveSub(T, p), !.locks = DropLocksIn(S.locks, p)], 0, NoInfo)}

LockInfo(inf, to, root) == [NoInfo EXCEPT !.linf = inf, !.lto = to, !.lroot = root]

CLock(S, r) ==
    LET T == S.tree  p == r.p
        inf == r.depth # "0"
        conflict == LocksOn(S, p) # {} \/ (inf /\ \E l \in S.locks : Below(p, l.root))
        why == (IF r.depth \in {"", "0", "infinity"} THEN {} ELSE {400})
                 \cup (IF conflict THEN {423} ELSE {}) \cup GuardCodes(S, r)
                 \cup (IF Exists(T, p) THEN {} ELSE AncCodes(T, p))
        t == S.ntok + 1
    IN  IF why # {} THEN Fail(S, why)
        ELSE {Out(IF Exists(T, p) THEN {200} ELSE {201},
                  [S EXCEPT !.tree = IF Exists(T, p) THEN T ELSE PutNode(T, p, [k |-> "f", c |-> 0]),
                            !.locks = @ \cup {[tok |-> t, root |-> p, inf |-> inf, exp |-> Exp(S, r.to)]},
                            !.ntok = t],
                  t, LockInfo(inf, r.to, p))}

\* LOCK with an empty body refreshes the lock named by the single state token of the If header
CRefresh(S, r) ==
    LET single == Len(r.ifh) = 1 /\ Len(r.ifh[1].cs) = 1 /\ r.ifh[1].cs[1].k = "tok"
        c == r.ifh[1].cs[1]
        ls == {l \in S.locks : l.tok = c.v}
    IN  IF ~single THEN Fail(S, {400})
        ELSE IF c.neg THEN Fail(S, {400, 412})
        ELSE IF ~IfHolds(S, r) THEN Fail(S, {412})
        ELSE IF \A l \in ls : ~Covers(l, r.p) THEN Fail(S, {400, 409, 412})
        ELSE LET l == CHOOSE l \in ls : TRUE IN
             {Out({200}, [S EXCEPT !.locks = (@ \ {l}) \cup {[l EXCEPT !.exp = Exp(S, r.to)]}], 0,
                  LockInfo(l.inf, r.to, l.root))}

CUnlock(S, r) ==
    LET ls == {l \in S.locks : l.tok = r.lt} IN
    IF r.lt = 0 THEN Fail(S, {400})
    ELSE IF ls = {} THEN Fail(S, {409})
    ELSE IF \A l \in ls : ~Covers(l, r.p) THEN Fail(S, {400, 403, 409, 412})
    ELSE {Out({204}, [S EXCEPT !.locks = @ \ ls], 0, NoInfo)}

CGet(S, r) ==
    LET T == S.tree  p == r.p IN
    IF ~Exists(T, p) THEN Fail(S, IF Anc(T, p) = "notdir" THEN E4 ELSE {404})
    ELSE IF IsDir(T, p) THEN Fail(S, {200, 403, 405})
    ELSE {Out({200}, S, 0, [NoInfo EXCEPT !.c = IF r.m = "GET" THEN T[p].c ELSE 0 - 1])}

AllMethods == {"OPTIONS", "LOCK", "GET", "HEAD", "POST", "DELETE", "PROPPATCH", "COPY", "MOVE", "UNLOCK",
               "PROPFIND", "PUT", "MKCOL"}
COptions(S, r) ==
    LET T == S.tree  p == r.p
        must == IF ~Exists(T, p) THEN {"OPTIONS", "LOCK", "PUT", "MKCOL"}
                ELSE IF IsDir(T, p) THEN {"OPTIONS", "LOCK", "DELETE", "PROPPATCH", "COPY", "MOVE", "UNLOCK", "PROPFIND"}
                ELSE AllMethods \ {"MKCOL", "POST"}
        mustnot == IF ~Exists(T, p) THEN {"GET", "HEAD", "DELETE", "PROPPATCH", "COPY", "MOVE", "PROPFIND"}
                   ELSE {"MKCOL"}
    IN  {Out({200, 204}, S, 0, [NoInfo EXCEPT !.must = must, !.mustnot = mustnot])}

Scope(T, p, depth) ==
    CASE depth = "0" -> {p}
      [] depth = "1" -> {p} \cup Kids(T, p)
      [] OTHER       -> {p} \cup Sub(T, p)
CPropfind(S, r) ==
    LET T == S.tree  p == r.p
        why == (IF r.depth \in {"", "0", "1", "infinity"} THEN {} ELSE {400})
                 \cup (IF Exists(T, p) THEN {} ELSE IF Anc(T, p) = "notdir" THEN E4 ELSE {404})
    IN  IF why # {} THEN Fail(S, why)
        ELSE {Out(IF r.depth \in {"", "infinity"} THEN {207, 403} ELSE {207}, S, 0,
                  [NoInfo EXCEPT !.h = Scope(T, p, r.depth)])}

Contract(S, r) ==
    CASE r.m = "MKCOL"    -> CMkcol(S, r)
      [] r.m = "PUT"      -> CPut(S, r)
      [] r.m = "DELETE"   -> CDelete(S, r)
      [] r.m = "LOCK"     -> CLock(S, r)
      [] r.m = "REFRESH"  -> CRefresh(S, r)
      [] r.m = "UNLOCK"   -> CUnlock(S, r)
      [] r.m \in {"GET", "HEAD"} -> CGet(S, r)
      [] r.m = "OPTIONS"  -> COptions(S, r)
      [] r.m = "PROPFIND" -> CPropfind(S, r)

Tick(S) == [S EXCEPT !.now = @ + 1, !.locks = Expire(@, S.now + 1)]

\* does one concrete result [code, st, tok, info] satisfy the contract?
InfoOK(want, got) ==
    /\ want.h = got.h /\ want.c = got.c
    /\ want.must \subseteq got.allow /\ want.mustnot \cap got.allow = {}
    /\ want.linf = got.linf /\ want.lto = got.lto /\ want.lroot = got.lroot
ConformsC(C, x) == \E o \in C : x.code \in o.codes /\ x.st = o.st /\ x.tok = o.tok /\ InfoOK(o.info, x.info)
Conforms(S, r, x) == ConformsC(Contract(S, r), x)
\* the same without the response details (history steps are judged on status and state)
ConformsCoreC(C, x) == \E o \in C : x.code \in o.codes /\ x.st = o.st /\ x.tok = o.tok

(* ------------------------------- the handler as written --------------------- *)
(* Repairs (elements of F):                                                         *)
(*  "parent"    a lock on the parent collection protects its membership: the        *)
(*              temporary-lock check / token check also looks at the parent for     *)
(*              DELETE, MKCOL, PUT and LOCK of an unmapped URL                      *)
(*  "descend"   DELETE of a collection looks at locks rooted below it               *)
(*  "enforce"   after an If list matched, the tokens of all locks protecting what   *)
(*              the method changes must have been submitted (today a tagged list    *)
(*              replaces the check of the Request-URI altogether)                   *)
(*  "tagpath"   a Resource-Tag in absolute-path form is honoured (today the list is *)
(*              skipped because the tag has no host)                                *)
(*  "not"       Not is evaluated (memLS.lookup ignores it)                          *)
(*  "etag"      entity-tag conditions are evaluated (ignored today)                 *)
(*  "conj"      a list is the conjunction of its conditions (today: any state token *)
(*              of the list that locks the resource is enough)                      *)
(*  "dellocks"  DELETE destroys the locks rooted in the removed subtree             *)
(*  "lock409"   LOCK of an unmapped URL without a parent collection is 409, not 500 *)
(*  "lockif"    LOCK (create) evaluates its If header                               *)
(*  "refreshuri" a refresh checks that the Request-URI is in the scope of the lock  *)
(*  "unlockuri"  UNLOCK checks that the Request-URI is in the scope of the lock     *)
(*  "lockinf"   the lockdiscovery of an infinite lock says Infinite, not Second-0   *)
AllRepairs == {"parent", "descend", "enforce", "tagpath", "not", "etag", "conj", "dellocks", "lock409",
               "lockif", "refreshuri", "unlockuri", "lockinf"}

\* memFS.walk/find: "ok", "noent" (an intermediate name is missing) or "inval" (it is a file)
Walk(T, p) ==
    LET bad == {i \in 1..(Len(p) - 1) : ~IsDir(T, SubSeq(p, 1, i))} IN
    IF bad = {} THEN "ok"
    ELSE IF Exists(T, SubSeq(p, 1, SetMin(bad))) THEN "inval" ELSE "noent"

\* the locks, beyond those covering the Request-URI, whose tokens the repaired handler wants to see
IExtra(F, S, r) ==
    LET T == S.tree  p == r.p
        member == r.m \in {"DELETE", "MKCOL"} \/ (r.m \in {"PUT", "LOCK"} /\ ~Exists(T, p))
        ws == (IF "parent" \in F /\ member THEN {Parent(p)} ELSE {})
                \cup (IF "descend" \in F /\ r.m = "DELETE" THEN Sub(T, p) ELSE {})
    IN  UNION {LocksOn(S, q) : q \in ws}

IListOK(F, S, L, src) ==
    IF L.tf = "path" /\ "tagpath" \notin F THEN FALSE      \* url.Parse(tag).Host # r.Host: list skipped
    ELSE LET res == IF L.tf = "none" THEN src ELSE L.tp
             val(c) == IF c.k = "tok"
                       THEN LET b == \E l \in S.locks : l.tok = c.v /\ Covers(l, res)
                            IN  IF "not" \in F THEN b # c.neg ELSE b
                       ELSE (c.v = 1 /\ Exists(S.tree, res)) # c.neg
             toks  == {j \in 1..Len(L.cs) : L.cs[j].k = "tok"}
             etags == {j \in 1..Len(L.cs) : L.cs[j].k = "etag"}
             \* memLS.lookup: some state token of the list names a lock that covers the resource
             tokOK == IF toks = {} THEN "etag" \in F /\ etags # {}
                      ELSE IF "conj" \in F THEN \A j \in toks : val(L.cs[j])
                      ELSE \E j \in toks : val(L.cs[j])
             etagOK == "etag" \notin F \/ \A j \in etags : val(L.cs[j])
         IN  tokOK /\ etagOK

\* confirmLocks(r, src, ""): 0 = go ahead, otherwise the status returned
IConfirm(F, S, r) ==
    LET src == r.p IN
    IF r.ifh = <<>>
    THEN \* temporary zero-depth lock on src (memLS.canCreate): a lock rooted at src or a
         \* depth-infinity lock on an ancestor conflicts
         IF LocksOn(S, src) # {} \/ IExtra(F, S, r) # {} THEN 423 ELSE 0
    ELSE IF ~\E i \in 1..Len(r.ifh) : IListOK(F, S, r.ifh[i], src) THEN 412
    ELSE IF \/ "enforce" \in F /\ \E l \in LocksOn(S, src) : l.tok \notin Submitted(r)
            \/ \E l \in IExtra(F, S, r) : l.tok \notin Submitted(r)
    THEN 423
    ELSE 0

IRes(code, st, tok, info) == [code |-> code, st |-> st, tok |-> tok, info |-> info]
IFail(S, code) == IRes(code, S, 0, NoInfo)

IMkcol(F, S, r) ==
    LET T == S.tree  p == r.p  c == IConfirm(F, S, r) IN
    IF c # 0 THEN IFail(S, c)
    ELSE IF r.body # 0 THEN IFail(S, 415)
    ELSE IF Walk(T, p) = "noent" THEN IFail(S, 409)
    ELSE IF Walk(T, p) = "inval" \/ Exists(T, p) THEN IFail(S, 405)
    ELSE IRes(201, [S EXCEPT !.tree = PutNode(T, p, [k |-> "d", c |-> 0])], 0, NoInfo)

IPut(F, S, r) ==
    LET T == S.tree  p == r.p  c == IConfirm(F, S, r) IN
    IF c # 0 THEN IFail(S, c)
    ELSE IF Walk(T, p) = "noent" THEN IFail(S, 409)
    ELSE IF Walk(T, p) = "inval" \/ p = Root THEN IFail(S, 404)
    ELSE IF IsDir(T, p) THEN IFail(S, 405)                  \* memFile.Write on a directory fails
    ELSE IRes(201, [S EXCEPT !.tree = PutNode(T, p, [k |-> "f", c |-> r.body])], 0, NoInfo)

IDelete(F, S, r) ==
    LET T == S.tree  p == r.p  c == IConfirm(F, S, r) IN
    IF c # 0 THEN IFail(S, c)
    ELSE IF Walk(T, p) = "inval" THEN IFail(S, 405)
    ELSE IF ~Exists(T, p) THEN IFail(S, 404)
    ELSE IF p = Root THEN IFail(S, 405)
    ELSE IRes(204, [S EXCEPT !.tree = RemoveSub(T, p),
                             !.locks = IF "dellocks" \in F THEN DropLocksIn(@, p) ELSE @], 0, NoInfo)

ILockTo(F, to) == IF to = 0 /\ "lockinf" \notin F THEN 0 - 2 ELSE to    \* 0 - 2 stands for "Second-0"

ILock(F, S, r) ==
    LET T == S.tree  p == r.p
        inf == r.depth # "0"
        t == S.ntok + 1
        \* memLS.canCreate
        conflict == \/ \E l \in S.locks : l.root = p \/ (l.inf /\ Below(l.root, p))
                    \/ inf /\ \E l \in S.locks : Below(p, l.root)
        pre == IF r.ifh # <<>> /\ "lockif" \in F
               THEN (IF ~\E i \in 1..Len(r.ifh) : IListOK(F, S, r.ifh[i], p) THEN 412
                     ELSE IF \E l \in IExtra(F, S, r) : l.tok \notin Submitted(r) THEN 423 ELSE 0)
               ELSE IF \E l \in IExtra(F, S, r) : l.tok \notin Submitted(r) THEN 423
               ELSE 0
    IN  IF r.depth \notin {"", "0", "infinity"} THEN IFail(S, 400)
        ELSE IF pre # 0 THEN IFail(S, pre)
        ELSE IF conflict THEN IFail(S, 423)
        ELSE IF Exists(T, p) /\ Walk(T, p) = "ok"
        THEN IRes(200, [S EXCEPT !.locks = @ \cup {[tok |-> t, root |-> p, inf |-> inf, exp |-> Exp(S, r.to)]},
                                 !.ntok = t], t, LockInfo(inf, ILockTo(F, r.to), p))
        ELSE IF Walk(T, p) # "ok" \/ p = Root
        THEN IFail(S, IF "lock409" \in F THEN 409 ELSE 500)  \* the lock is removed again; its token is lost
        ELSE IRes(201, [S EXCEPT !.tree = PutNode(T, p, [k |-> "f", c |-> 0]),
                                 !.locks = @ \cup {[tok |-> t, root |-> p, inf |-> inf, exp |-> Exp(S, r.to)]},
                                 !.ntok = t], t, LockInfo(inf, ILockTo(F, r.to), p))

IRefresh(F, S, r) ==
    LET single == Len(r.ifh) = 1 /\ Len(r.ifh[1].cs) = 1 /\ r.ifh[1].cs[1].k = "tok"
        c == r.ifh[1].cs[1]
        ls == {l \in S.locks : l.tok = c.v}
    IN  IF ~single THEN IFail(S, 400)
        ELSE IF c.neg /\ "not" \in F THEN IFail(S, 412)
        ELSE IF ls = {} THEN IFail(S, 412)
        ELSE LET l == CHOOSE l \in ls : TRUE IN
             IF "refreshuri" \in F /\ ~(Covers(l, r.p) /\ (r.ifh[1].tf = "none" \/ Covers(l, r.ifh[1].tp)))
             THEN IFail(S, 412)
             ELSE IRes(200, [S EXCEPT !.locks = (@ \ {l}) \cup {[l EXCEPT !.exp = Exp(S, r.to)]}], 0,
                       LockInfo(l.inf, ILockTo(F, r.to), l.root))

IUnlock(F, S, r) ==
    LET ls == {l \in S.locks : l.tok = r.lt} IN
    IF r.lt = 0 THEN IFail(S, 400)
    ELSE IF ls = {} THEN IFail(S, 409)
    ELSE IF "unlockuri" \in F /\ \A l \in ls : ~Covers(l, r.p) THEN IFail(S, 409)
    ELSE IRes(204, [S EXCEPT !.locks = @ \ ls], 0, NoInfo)

IGet(F, S, r) ==
    LET T == S.tree  p == r.p IN
    IF Walk(T, p) # "ok" \/ ~Exists(T, p) THEN IFail(S, 404)
    ELSE IF IsDir(T, p) THEN IFail(S, 405)
    ELSE IRes(200, S, 0, [NoInfo EXCEPT !.c = IF r.m = "GET" THEN T[p].c ELSE 0 - 1])

IOptions(F, S, r) ==
    LET T == S.tree  p == r.p
        allow == IF Walk(T, p) # "ok" \/ ~Exists(T, p) THEN {"OPTIONS", "LOCK", "PUT", "MKCOL"}
                 ELSE IF IsDir(T, p) THEN {"OPTIONS", "LOCK", "DELETE", "PROPPATCH", "COPY", "MOVE", "UNLOCK", "PROPFIND"}
                 ELSE AllMethods \ {"MKCOL"}
    IN  [code |-> 200, st |-> S, tok |-> 0, info |-> NoInfo, allow |-> allow]

IPropfind(F, S, r) ==
    LET T == S.tree  p == r.p IN
    IF Walk(T, p) = "inval" THEN IFail(S, 405)
    ELSE IF ~Exists(T, p) THEN IFail(S, 404)
    ELSE IF r.depth \notin {"", "0", "1", "infinity"} THEN IFail(S, 400)
    ELSE IRes(207, S, 0, [NoInfo EXCEPT !.h = Scope(T, p, r.depth)])

ImplRaw(F, S, r) ==
    CASE r.m = "MKCOL"    -> IMkcol(F, S, r)
      [] r.m = "PUT"      -> IPut(F, S, r)
      [] r.m = "DELETE"   -> IDelete(F, S, r)
      [] r.m = "LOCK"     -> ILock(F, S, r)
      [] r.m = "REFRESH"  -> IRefresh(F, S, r)
      [] r.m = "UNLOCK"   -> IUnlock(F, S, r)
      [] r.m \in {"GET", "HEAD"} -> IGet(F, S, r)
      [] r.m = "OPTIONS"  -> IOptions(F, S, r)
      [] r.m = "PROPFIND" -> IPropfind(F, S, r)

\* a concrete result in the shape Conforms expects: info carries the Allow set
Impl(F, S, r) ==
    LET x == ImplRaw(F, S, r)
        allow == IF r.m = "OPTIONS" THEN x.allow ELSE {}
        i == x.info
    IN  [code |-> x.code, st |-> x.st, tok |-> x.tok,
         info |-> [h |-> i.h, c |-> i.c, allow |-> allow, linf |-> i.linf, lto |-> i.lto, lroot |-> i.lroot]]

(* ------------------------------- naming a deviation ------------------------- *)
\* the repairs that can matter for a request, in the order in which they are tried
Candidates(r) ==
    LET ifr == IF r.ifh = <<>> THEN <<>> ELSE <<"enforce", "tagpath", "not", "etag", "conj">> IN
    CASE r.m = "DELETE"  -> <<"dellocks", "parent", "descend">> \o ifr
      [] r.m \in {"PUT", "MKCOL"} -> <<"parent">> \o ifr
      [] r.m = "LOCK"    -> <<"parent", "lock409", "lockinf">> \o (IF r.ifh = <<>> THEN <<>> ELSE <<"lockif">>)
      [] r.m = "REFRESH" -> <<"not", "refreshuri", "lockinf">>
      [] r.m = "UNLOCK"  -> <<"unlockuri">>
      [] OTHER           -> <<>>
IfRepairs == {"enforce", "tagpath", "not", "etag", "conj", "lockif"}
\* "" when the pinned code conforms on (S, r) (C = Contract(S, r)); otherwise the first single repair
\* that makes the reference handler conform, "multi" if only the full set of repairs does
DevC(S, r, C) ==
    IF ConformsC(C, Impl({}, S, r)) THEN ""
    ELSE LET cand == Candidates(r)
             n == Len(cand)
             ok1 == {i \in 1..n : ConformsC(C, Impl({cand[i]}, S, r))} IN
         IF ok1 # {} THEN cand[SetMin(ok1)]
         ELSE LET ok2 == {k \in 1..(n * n) :
                            LET i == ((k - 1) \div n) + 1  j == ((k - 1) % n) + 1 IN
                            i < j /\ ConformsC(C, Impl({cand[i], cand[j]}, S, r))} IN
              IF ok2 # {} THEN LET k == SetMin(ok2)
                                   a == cand[((k - 1) \div n) + 1]
                                   b == cand[((k - 1) % n) + 1] IN
                               \* name the pair after its If-evaluation member
                               IF b \in IfRepairs THEN b \o "+" ELSE IF a \in IfRepairs THEN a \o "+" ELSE a \o "+" \o b
              ELSE IF ConformsC(C, Impl(AllRepairs, S, r)) THEN "multi" ELSE "unrepaired"
Dev(S, r) == DevC(S, r, Contract(S, r))
\* does the pinned code conform on status and state (response details aside)?
CoreOKC(S, r, C) == ConformsCoreC(C, Impl({}, S, r))

(* ------------------------------- design-level properties -------------------- *)
State0 == [tree |-> EmptyTree, locks |-> {}, now |-> 0, ntok |-> 0]

LocksWithinTree(S) == \A l \in S.locks : Exists(S.tree, l.root)
TokensIssued(S)    == \A l \in S.locks : l.tok \in 1..S.ntok
StateOK(S) == /\ WellFormedTree(S.tree) /\ Exclusive(S.locks) /\ LocksWithinTree(S) /\ TokensIssued(S)
              /\ \A l \in S.locks : l.exp = 0 \/ l.exp > S.now

\* Diff-based statement of lock enforcement, independent of the per-method write sets: whenever a
\* request changes a resource (its kind, its content, or whether it exists), the token of every lock
\* that covered the resource - or, when its existence changed, covered its parent collection - was
\* submitted in the If header; and a lock only disappears through UNLOCK with its own token, the
\* deletion of its root, or expiry.
Changed(S, S2) == {p \in DOMAIN S.tree \cup DOMAIN S2.tree :
                     ~(p \in DOMAIN S.tree /\ p \in DOMAIN S2.tree /\ S.tree[p] = S2.tree[p])}
NoUnauthorisedChange(S, r, S2) ==
    /\ \A p \in Changed(S, S2) :
          LET memb == (p \in DOMAIN S.tree) # (p \in DOMAIN S2.tree)
              prot == LocksOn(S, p) \cup (IF memb THEN LocksOn(S, Parent(p)) ELSE {})
          IN  \A l \in prot : l.tok \in Submitted(r)
    /\ \A l \in S.locks :
          (\A l2 \in S2.locks : l2.tok # l.tok) =>
              \/ r.m = "UNLOCK" /\ r.lt = l.tok /\ Covers(l, r.p)
              \/ r.m = "DELETE" /\ ~Exists(S2.tree, l.root) /\ l.tok \in Submitted(r)
    /\ \A l2 \in S2.locks :
          \/ \E l \in S.locks : l.tok = l2.tok /\ l.root = l2.root /\ l.inf = l2.inf
                                  /\ (l.exp = l2.exp \/ (r.m = "REFRESH" /\ Covers(l, r.p)))
          \/ r.m = "LOCK" /\ l2.tok = S.ntok + 1 /\ S2.ntok = S.ntok + 1 /\ l2.root = r.p
=============================================================================
