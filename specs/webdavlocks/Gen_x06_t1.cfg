SPECIFICATION GSpec
CONSTANTS
  Fixed = {}
  KindsOf <- KAll
  Targets <- TgAll
  MaxTok = 1
  MaxClock = 0
  Timeouts = {0}
  Bodies = {1}
  IfLevel = 0
  ReadLevel = 1
  GenDepth = 0
  EmitImpl = FALSE
CHECK_DEADLOCK FALSE
INVARIANT EmitState
VIEW gview
INVARIANTS Sound AllEdges
