SPECIFICATION GSpec
CONSTANTS
  Fixed = {}
  KindsOf <- KTiny
  Targets <- TgTiny
  MaxTok = 1
  MaxClock = 1
  Timeouts = {0, 1}
  Bodies = {1}
  IfLevel = 1
  ReadLevel = 1
  GenDepth = 0
  EmitImpl = TRUE
CHECK_DEADLOCK FALSE
INVARIANT EmitState
VIEW gview
