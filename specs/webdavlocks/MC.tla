--------------------------------- MODULE MC ---------------------------------
(* The bounded state machine over DavLocks: which resources may exist, which      *)
(* requests are sent, and the design-level properties TLC checks exhaustively.    *)
EXTENDS DavLocks

CONSTANTS
    KindsOf(_),   \* path -> set of kinds ("d", "f") the resource may have in an explored state
    Targets,      \* Request-URIs
    MaxTok,       \* LOCK requests that create a lock per history
    MaxClock,     \* the clock runs 0..MaxClock
    Timeouts,     \* Timeout header values (0 = none)
    Bodies,       \* PUT content ids
    IfLevel,      \* richness of the If headers sent (0, 1, 2)
    ReadLevel     \* 0: no read-only requests, 1: all of them

VARIABLE st
mvars == <<st>>

Nodes == {<<"a">>, <<"b">>, <<"a", "a">>, <<"a", "b">>}

InUniverse(S) ==
    /\ \A p \in DOMAIN S.tree : p \in Nodes /\ S.tree[p].k \in KindsOf(p)
    /\ S.ntok <= MaxTok
    /\ S.now <= MaxClock

(* ------------------------------- If headers sent -------------------------- *)
\* Only well-formed headers are sent: RFC 4918 10.4.2 allows either untagged lists only or tagged
\* lists only ("If = 1*No-tag-list | 1*Tagged-list"); a mix is a syntax error (400).
Toks(S) == {l.tok : l \in S.locks}
RootOf(S, t) == (CHOOSE l \in S.locks : l.tok = t).root

\* a sequence enumerating a set of token numbers in increasing order
RECURSIVE TokSeq(_)
TokSeq(X) == IF X = {} THEN <<>> ELSE LET m == SetMin(X) IN <<m>> \o TokSeq(X \ {m})

\* the header a well-behaved client sends: one tagged list per lock whose token is needed,
\* "<http://host/lock-root> (<token>)"; no header when nothing is locked
GoodIf(S, r0) ==
    LET ts == TokSeq({l.tok : l \in Needed(S, r0)})
    IN  [i \in 1..Len(ts) |-> List("uri", RootOf(S, ts[i]), <<CondTok(ts[i])>>)]

IfSpace(S, r0) ==
    LET p == r0.p
        live == Toks(S)
        toks == live \cup {99}
        roots == {l.root : l \in S.locks}
        dead == (1..S.ntok) \ live                        \* tokens of locks that were unlocked or have expired
        base == {<<>>, GoodIf(S, r0)} \cup {<<NoTag(<<CondTok(t)>>)>> : t \in dead}
        \* level 1: the common shapes
        l1 == {<<NoTag(<<CondTok(t)>>)>> : t \in toks}
              \cup {<<NoTag(<<CondNot(t)>>)>> : t \in live \cup {0}}
              \cup {<<NoTag(<<CondTok(t), CondEtag(0)>>)>> : t \in live}
              \cup {<<NoTag(<<CondTok(99)>>), NoTag(<<CondTok(t)>>)>> : t \in live}
              \cup {<<List("uri", RootOf(S, t), <<CondTok(t)>>)>> : t \in live}
              \cup {<<List("path", RootOf(S, t), <<CondTok(t)>>)>> : t \in live}
        \* level 2: every single-condition list under every tag, two-condition lists, two lists
        tagps == {p, Parent(p)} \cup roots
        tags == {<<"none", Root>>} \cup {<<"uri", q>> : q \in tagps} \cup {<<"path", p>>}
        conds == {CondTok(t) : t \in toks} \cup {CondNot(t) : t \in toks \cup {0}}
                 \cup {CondEtag(1), CondEtag(0), CondNEtag(0), CondNEtag(1)}
        l2a == {<<List(g[1], g[2], <<c>>)>> : g \in tags, c \in conds}
        l2b == UNION {{<<List(g[1], g[2], <<CondTok(t), c>>)>>, <<List(g[1], g[2], <<c, CondTok(t)>>)>>}
                        : g \in {<<"none", Root>>} \cup {<<"uri", q>> : q \in roots},
                          t \in live,
                          c \in {CondTok(99), CondNot(99), CondNot(0), CondEtag(1), CondEtag(0)}
                                \cup {CondTok(t2) : t2 \in live}}
        l2c == UNION {{<<List("uri", RootOf(S, t), <<CondTok(t)>>), List("uri", RootOf(S, u), <<CondTok(u)>>)>>,
                       <<NoTag(<<CondTok(t)>>), NoTag(<<CondNot(0)>>)>>,
                       \* the "always true" idiom of RFC 4918 10.4.8 that only submits a token
                       <<List("uri", p, <<CondNot(0)>>), List("uri", RootOf(S, t), <<CondTok(t)>>)>>}
                        : t \in live, u \in live}
    IN  CASE IfLevel = 0 -> base
          \* LOCK and MKCOL with a body: the If header is not what these edges are about
          [] r0.m = "LOCK" \/ (r0.m = "MKCOL" /\ r0.body # 0) ->
                 base \cup {<<NoTag(<<CondTok(99)>>)>>} \cup {<<NoTag(<<CondTok(t)>>)>> : t \in live}
          [] IfLevel = 1 -> base \cup l1
          [] OTHER       -> base \cup l1 \cup l2a \cup l2b \cup l2c

(* ------------------------------- requests sent ---------------------------- *)
WriteBases(S) ==
    UNION {
        {Req("PUT", p, <<>>, b, "", 0, 0) : b \in Bodies}
        \cup {Req("MKCOL", p, <<>>, b, "", 0, 0) : b \in {0, 1}}
        \cup {Req("DELETE", p, <<>>, 0, "", 0, 0)}
        \cup (IF S.ntok < MaxTok
              THEN {Req("LOCK", p, <<>>, 0, d, to, 0) : d \in {"0", "infinity"}, to \in Timeouts}
                   \cup {Req("LOCK", p, <<>>, 0, d, 0, 0) : d \in {"", "1"}}
              ELSE {})
        : p \in Targets}

LockBases(S) ==
    UNION {
        {Req("UNLOCK", p, <<>>, 0, "", 0, t) : t \in (1..S.ntok) \cup {0, 99}}
        \cup {Req("REFRESH", p, h, 0, "", to, 0) :
                to \in Timeouts,
                h \in {<<>>} \cup {<<NoTag(<<CondTok(t)>>)>> : t \in (1..S.ntok) \cup {99}}
                      \cup (IF IfLevel = 0 THEN {}
                            ELSE {<<NoTag(<<CondNot(t)>>)>> : t \in Toks(S)}
                                 \cup {<<NoTag(<<CondEtag(1)>>)>>}
                                 \cup {<<NoTag(<<CondTok(t), CondTok(99)>>)>> : t \in Toks(S)}
                                 \cup {<<List("uri", RootOf(S, t), <<CondTok(t)>>)>> : t \in Toks(S)})}
        : p \in Targets}

ReadBases(S) ==
    IF ReadLevel = 0 THEN {}
    ELSE UNION {
        {Req(m, p, <<>>, 0, "", 0, 0) : m \in {"OPTIONS", "GET", "HEAD"}}
        \cup {Req("PROPFIND", p, <<>>, 0, d, 0, 0) : d \in {"", "0", "1", "infinity", "bad"}}
        : p \in Targets}

Reqs(S) ==
    UNION {{[r0 EXCEPT !.ifh = h] : h \in IfSpace(S, r0)} : r0 \in WriteBases(S)}
    \cup LockBases(S) \cup ReadBases(S)

\* the requests a history is built from: no If header, or the well-behaved one
SteerReqs(S) ==
    UNION {{[r0 EXCEPT !.ifh = h] : h \in {<<>>, GoodIf(S, r0)}} : r0 \in WriteBases(S)}
    \cup {r \in LockBases(S) : r.m = "UNLOCK" \/ Len(r.ifh) = 1}

(* ------------------------------- the contract as a state machine ----------- *)
Init == st = State0
ReqStep == \E r \in Reqs(st) : \E o \in Contract(st, r) : st' = o.st /\ InUniverse(o.st)
TickStep == st.now < MaxClock /\ st' = Tick(st)
Next == ReqStep \/ TickStep
Spec == Init /\ [][Next]_mvars

(* ------------------------------- properties -------------------------------- *)
\* every state the contract can reach is a sound tree with exclusive locks on existing resources
Sound == StateOK(st)
\* every outgoing edge: the contract is defined, keeps the state sound, changes nothing in the scope
\* of a lock whose token was not submitted, and issues fresh tokens only
AllEdges ==
    \A r \in Reqs(st) :
        /\ Contract(st, r) # {}
        /\ \A o \in Contract(st, r) :
              /\ StateOK(o.st)
              /\ NoUnauthorisedChange(st, r, o.st)
              /\ o.st.now = st.now
              /\ o.st.ntok >= st.ntok
              /\ (o.tok # 0 => o.tok = st.ntok + 1 /\ o.st.ntok = o.tok)
              /\ (412 \in o.codes \/ 423 \in o.codes => o.st = st \/ r.m = "DELETE")
\* the repairs together are enough: the repaired reference handler is inside the contract everywhere,
\* and every deviation of the pinned handler has a name
RepairsSuffice == \A r \in Reqs(st) : Conforms(st, r, Impl(AllRepairs, st, r))
DeviationsNamed == \A r \in Reqs(st) : Dev(st, r) # "unrepaired"
\* token numbers are never reused
TokenUnique == [][st'.ntok >= st.ntok /\ \A l \in st'.locks : l.tok > st.ntok => l.tok = st.ntok + 1]_mvars
(* ------------------------------- universes --------------------------------- *)
KAll(p)   == {"d", "f"}
\* /a a collection, /b a file, /a/a a file, /a/b anything
KDeep(p)  == CASE p = <<"a">> -> {"d"} [] p = <<"b">> -> {"f"} [] p = <<"a", "a">> -> {"f"} [] OTHER -> {"d", "f"}
KTiny(p)  == CASE p = <<"a">> -> {"d"} [] p = <<"a", "b">> -> {"f"} [] OTHER -> {}
TgAll     == {Root, <<"a">>, <<"b">>, <<"a", "a">>, <<"a", "b">>, <<"b", "a">>}
TgDeep    == {Root, <<"a">>, <<"b">>, <<"a", "b">>}
TgTiny    == {Root, <<"a">>, <<"a", "b">>, <<"b">>}
TgX05     == {Root, <<"a">>, <<"a", "b">>}
=============================================================================
