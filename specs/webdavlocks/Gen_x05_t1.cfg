SPECIFICATION GSpec
CONSTANTS
  Fixed = {}
  KindsOf <- KDeep
  Targets <- TgDeep
  MaxTok = 2
  MaxClock = 0
  Timeouts = {0}
  Bodies = {1}
  IfLevel = 1
  ReadLevel = 0
  GenDepth = 0
  EmitImpl = FALSE
CHECK_DEADLOCK FALSE
INVARIANT EmitState
VIEW gview
INVARIANTS Sound AllEdges
