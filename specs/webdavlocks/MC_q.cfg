SPECIFICATION Spec
CONSTANTS
  Fixed = {}
  KindsOf <- KTiny
  Targets <- TgTiny
  MaxTok = 1
  MaxClock = 1
  Timeouts = {0, 1}
  Bodies = {1}
  IfLevel = 1
  ReadLevel = 1
INVARIANTS Sound AllEdges RepairsSuffice DeviationsNamed
PROPERTY TokenUnique
CHECK_DEADLOCK FALSE
