-------------------------------- MODULE Gen --------------------------------
(* Generator for the conformance driver.                                          *)
(*  - BFS (GSpec, INVARIANT EmitState, VIEW gview): every distinct abstract state  *)
(*    reachable through steps on which the pinned handler and the contract agree   *)
(*    is printed once, with a shortest such history and ALL requests of Reqs(st)   *)
(*    as edges: request, the outcomes the contract allows, and the name of the     *)
(*    known deviation of the pinned handler on that edge ("" if none).             *)
(*  - simulation (SSpec): random walks of GenDepth requests with predictions.      *)
(* JSON is positional (tuples) to keep the items small:                            *)
(*   request  [m, p, ifh, body, depth, to, lt]   ifh = [[tf, tp, [[neg, k, v]..]]..] *)
(*   state    [tree, locks, now, ntok]  tree = [[p, k, c]..]  locks = [[tok, root, inf, exp]..] *)
(*   outcome  [codes, tok, info, state | []]   ([] = the state does not change)     *)
(*   info     [] | ["h", hrefs] | ["c", content] | ["a", must, mustnot] | ["l", inf, to, root] *)
(*   edge     [request, outcomes, deviation (, [code, tok, state | []] of Impl)]     *)
(*   step     [request, codes, state, tok]                                          *)
EXTENDS MC, Json, SequencesExt

CONSTANTS GenDepth, EmitImpl

VARIABLE hist
gvars == <<st, hist>>
gview == st

(* ------------------------------- JSON shapes ------------------------------- *)
CondJ(c)  == <<c.neg, c.k, c.v>>
ListJ(L)  == <<L.tf, L.tp, [j \in 1..Len(L.cs) |-> CondJ(L.cs[j])]>>
ReqJ(r)   == <<r.m, r.p, [i \in 1..Len(r.ifh) |-> ListJ(r.ifh[i])], r.body, r.depth, r.to, r.lt>>
StJ(S)    == <<{<<q, S.tree[q].k, S.tree[q].c>> : q \in DOMAIN S.tree},
               {<<l.tok, l.root, l.inf, l.exp>> : l \in S.locks}, S.now, S.ntok>>
InfoJ(r, i) ==
    CASE r.m = "PROPFIND" -> <<"h", i.h>>
      [] r.m = "GET"      -> <<"c", i.c>>
      [] r.m = "OPTIONS"  -> <<"a", i.must, i.mustnot>>
      [] r.m \in {"LOCK", "REFRESH"} /\ i.lto # 0 - 1 -> <<"l", i.linf, i.lto, i.lroot>>
      [] OTHER            -> <<>>
OutJ(S, r, o) == <<o.codes, o.tok, InfoJ(r, o.info), IF o.st = S THEN <<>> ELSE StJ(o.st)>>
EdgeJ(S, r) ==
    LET C == Contract(S, r)
        outs == {OutJ(S, r, o) : o \in C}
    IN  IF EmitImpl
        THEN LET x == Impl({}, S, r) IN
             <<ReqJ(r), outs, DevC(S, r, C), <<x.code, x.tok, IF x.st = S THEN <<>> ELSE StJ(x.st)>> >>
        ELSE <<ReqJ(r), outs, DevC(S, r, C)>>
TickReq == Req("TICK", Root, <<>>, 0, "", 0, 0)
StepJ(r, codes, S2, tok) == <<ReqJ(r), codes, StJ(S2), tok>>

(* ------------------------------- BFS --------------------------------------- *)
\* a step of a history: the contract allows exactly one outcome and the pinned handler produces it
AgreedC(S, r, C) == Cardinality(C) = 1 /\ CoreOKC(S, r, C)

GInit == Init /\ hist = <<>>
GReq  == \E r \in SteerReqs(st) :
            LET C == Contract(st, r) IN
            /\ AgreedC(st, r, C)
            /\ LET o == CHOOSE o \in C : TRUE IN
               /\ o.st # st
               /\ InUniverse(o.st)
               /\ st' = o.st
               /\ hist' = Append(hist, StepJ(r, o.codes, o.st, o.tok))
GTick == /\ st.now < MaxClock
         /\ st.locks # {}
         /\ st' = Tick(st)
         /\ hist' = Append(hist, StepJ(TickReq, {0}, Tick(st), 0))
GNext == GReq \/ GTick
GSpec == GInit /\ [][GNext]_gvars

EmitState == LET rs == SetToSeq(Reqs(st)) IN
             PrintT(<<"BEH", ToJson([hist |-> hist, edges |-> [i \in 1..Len(rs) |-> EdgeJ(st, rs[i])]])>>)

(* ------------------------------- simulation -------------------------------- *)
RE(X) == RandomElement(X)
\* requests that change the state and on which handler and contract agree
Productive(S) == {r \in SteerReqs(S) :
                    LET C == Contract(S, r) IN
                    AgreedC(S, r, C) /\ (CHOOSE o \in C : TRUE).st # S /\ InUniverse((CHOOSE o \in C : TRUE).st)}
\* one draw per step: a tick (1), a state-changing request (2-5), a well-behaved request (6-7), any request (8-10);
\* a drawn request on which the pinned handler is known to deviate is skipped (the step stutters)
SNext ==
    IF Len(hist) >= GenDepth
    THEN PrintT(<<"BEH", ToJson([hist |-> hist, edges |-> <<>>])>>) /\ UNCHANGED gvars
    ELSE \E k \in {RE(1..10)} :
           IF k = 1 /\ st.now < MaxClock
           THEN st' = Tick(st) /\ hist' = Append(hist, StepJ(TickReq, {0}, Tick(st), 0))
           ELSE LET pool == IF k <= 5 /\ Productive(st) # {} THEN Productive(st)
                            ELSE IF k <= 7 THEN SteerReqs(st) ELSE Reqs(st) IN
                \E r \in {RE(pool)} :
                  LET C == Contract(st, r) IN
                  IF AgreedC(st, r, C) /\ InUniverse((CHOOSE o \in C : TRUE).st)
                  THEN LET o == CHOOSE o \in C : TRUE IN
                       st' = o.st /\ hist' = Append(hist, StepJ(r, o.codes, o.st, o.tok))
                  ELSE UNCHANGED gvars
SSpec == GInit /\ [][SNext]_gvars

=============================================================================
