SPECIFICATION GSpec
CONSTANTS
  Fixed = {}
  KindsOf <- KTiny
  Targets <- TgX05
  MaxTok = 1
  MaxClock = 1
  Timeouts = {0, 1}
  Bodies = {1}
  IfLevel = 0
  ReadLevel = 0
  GenDepth = 0
  EmitImpl = FALSE
CHECK_DEADLOCK FALSE
INVARIANT EmitState
VIEW gview
INVARIANTS Sound AllEdges
