# webdavlocks family hooks.
#
# signature(): a replay mismatch is classified by what the driver reports in `what`:
#   "<kind>;dev=<deviation named by the specification for this edge>;m=<method>;got=<status>"
# For an edge on which the specification already knows that the pinned handler deviates from the
# contract (dev != "") the signature is "dev=<name>;<kind>;got=<status>" - one class per named
# deviation, kind of disagreement and observed status. For an edge without a named deviation the
# signature keeps the method and a hash of the request, so that it can never coincide with a listed
# finding.
import hashlib
import json


def _h(x):
    return hashlib.sha256(json.dumps(x, sort_keys=True).encode()).hexdigest()[:10]


def signature(prop, kind, scenario, detail):
    what = (detail or {}).get("what", "")
    parts = what.split(";")
    f = dict(p.split("=", 1) for p in parts[1:] if "=" in p)
    k = parts[0] if parts else ""
    if kind != "replay" or not k:
        return None
    if k.startswith("history") or k.startswith("impl"):
        return "%s;m=%s;got=%s" % (k, f.get("m", "?"), f.get("got", "?"))
    dev = f.get("dev", "")
    if dev:
        return "dev=%s;%s;got=%s" % (dev, k, f.get("got", "?"))
    exp = (detail or {}).get("expected") or {}
    return "unexpected;%s;m=%s;got=%s;%s" % (k, f.get("m", "?"), f.get("got", "?"), _h(exp.get("request")))


def replay_all(ctx, st):
    """A gen_replay stage with several generator configs ("gens"): the generators run side by side
    (each TLC with gen_workers workers) and their items are replayed in ONE driver run."""
    import stages
    from concurrent.futures import ThreadPoolExecutor
    subs = []
    for g in st["gens"]:
        sub = dict(st)
        sub.update(g)
        subs.append(sub)
    with ThreadPoolExecutor(max_workers=len(subs)) as ex:
        res = list(ex.map(lambda s: stages.generate(ctx, s), subs))
    items, exhaustive = [], True
    for it, e in res:
        items += it
        exhaustive = exhaustive and e
    orig = stages.generate
    stages.generate = lambda c, s: (items, exhaustive)
    try:
        stages.stage_gen_replay(ctx, st)
    finally:
        stages.generate = orig
    # an item carries all edges of a state: keep the evidence samples small
    for smp in ctx.samples:
        it = smp.get("item") if isinstance(smp, dict) else None
        if isinstance(it, dict) and len(it.get("edges") or []) > 8:
            smp["item"] = {"hist": it.get("hist"), "edges": it["edges"][:8], "edges_total": len(it["edges"])}
