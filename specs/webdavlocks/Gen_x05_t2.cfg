SPECIFICATION GSpec
CONSTANTS
  Fixed = {}
  KindsOf <- KTiny
  Targets <- TgTiny
  MaxTok = 1
  MaxClock = 0
  Timeouts = {0}
  Bodies = {1}
  IfLevel = 2
  ReadLevel = 0
  GenDepth = 0
  EmitImpl = FALSE
CHECK_DEADLOCK FALSE
INVARIANT EmitState
VIEW gview
INVARIANTS Sound AllEdges
