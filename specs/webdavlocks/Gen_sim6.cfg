SPECIFICATION SSpec
CONSTANTS
  Fixed = {}
  KindsOf <- KAll
  Targets <- TgAll
  MaxTok = 2
  MaxClock = 2
  Timeouts = {0, 1}
  Bodies = {1, 2}
  IfLevel = 0
  ReadLevel = 1
  GenDepth = 30
  EmitImpl = FALSE
CHECK_DEADLOCK FALSE
