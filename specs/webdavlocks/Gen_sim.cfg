SPECIFICATION SSpec
CONSTANTS
  Fixed = {}
  KindsOf <- KDeep
  Targets <- TgDeep
  MaxTok = 3
  MaxClock = 3
  Timeouts = {0, 1, 2}
  Bodies = {1, 2}
  IfLevel = 1
  ReadLevel = 1
  GenDepth = 30
  EmitImpl = FALSE
CHECK_DEADLOCK FALSE
