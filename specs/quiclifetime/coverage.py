#!/usr/bin/env python3
"""Per-action coverage of recorded traces: which actions of QuicLifetime.tla (and in which lifetime
state) occurred in a trace.ndjson written by the driver.  Usage: coverage.py <trace.ndjson>..."""
import collections
import json
import sys


def main(paths):
    cnt = collections.Counter()
    ntr = 0
    for path in paths:
        traces = collections.OrderedDict()
        for ln in open(path):
            ln = ln.strip()
            if not ln:
                continue
            x = json.loads(ln)
            if x.get("e") == "meta":
                continue
            traces.setdefault(x.get("t", 0), []).append(x)
        for t, lines in traces.items():
            ntr += 1
            qs = [i for i, x in enumerate(lines) if x["e"] == "q"]

            def prevq(i):
                for j in reversed(qs):
                    if j < i:
                        return lines[j]
                return {"st": "alive", "conf": False}

            def nextq(i):
                for j in qs:
                    if j > i:
                        return lines[j]
                return {}
            for i, x in enumerate(lines):
                e = x["e"]
                pq, nq = prevq(i), nextq(i)
                st = pq.get("st")
                if e == "abort":
                    cnt["ApiAbort(%s) in %s" % (x["err"], st)] += 1
                elif e == "close":
                    cnt["ApiClose in %s" % st] += 1
                elif e == "wait":
                    cnt["ApiWait in %s" % st] += 1
                elif e in ("closeret", "waitret"):
                    cnt["Return of blocked %s with %s" % (e[:-3], x["r"])] += 1
                elif e == "epclose":
                    cnt["EpClose + Exit in %s" % st] += 1
                elif e == "cping":
                    cnt["conn sends on request (cping) in %s" % st] += 1
                elif e == "recv":
                    k, rk = x["k"], x.get("rk", True)
                    if k in ("ping", "ack", "hs") and rk:
                        name = "RecvProcessed(plain) in %s" % st
                        if x.get("conf") and not pq.get("conf"):
                            cnt["handshake confirmed (conf flips) in %s" % st] += 1
                    elif k == "pcc" and rk:
                        if x.get("cc") == "1d" and x.get("sp") != "a":
                            name = "RecvProcessed(0x1d outside app space) in %s" % st
                        else:
                            name = "RecvProcessed(pcc %s%s) in %s" % (x.get("cc"), " NO_ERROR" if x.get("cd") == 0 and x.get("cc") == "1c" else "", st)
                    elif k == "bad" and rk:
                        name = "RecvProcessed(bad) in %s" % st
                    elif k == "sreset" and rk:
                        name = "RecvReset in %s" % st
                    else:
                        name = "Recv unprocessed (%s%s) in %s" % (k, "" if rk else ", no keys", st)
                        if st == "alive" and pq.get("conf") and nq.get("idle") != pq.get("idle") and nq.get("st") == "alive":
                            cnt["RecvUnprocessedRestart (deviation) after %s" % (k if rk else "no-keys packet")] += 1
                    cnt[name] += 1
                elif e == "send":
                    cc = any(p["cc"] != "none" for p in x["pk"])
                    ae = any(p["ae"] for p in x["pk"])
                    if not cc:
                        cnt["Send in alive (%s)" % ("ack-eliciting" if ae else "not ack-eliciting")] += 1
                        if ae and pq.get("conf") and not pq.get("ssr") and nq.get("ssr") and nq.get("st") == "alive":
                            cnt["Send restarts the idle timer (first ack-eliciting since receive)"] += 1
                        if ae and pq.get("ssr") and nq.get("st") == "alive":
                            cnt["Send does not restart the idle timer (second ack-eliciting)"] += 1
                        j = i - 1
                        while j >= 0 and lines[j]["e"] == "send":
                            j -= 1
                        if ae and j >= 0 and lines[j]["e"] == "adv" and pq.get("st") == "alive" and pq.get("next") != pq.get("idle") and lines[j]["d"] == pq.get("next"):
                            cnt["keep-alive PING at the keep-alive deadline"] += 1
                    else:
                        if nq.get("st") == "draining" and st in ("peerClosed", "alive", "closing"):
                            cnt["Send CONNECTION_CLOSE in peerClosed -> draining"] += 1
                        else:
                            cnt["Send CONNECTION_CLOSE in closing (%s)" % ("first" if st != "closing" else "response")] += 1
                        if any(p["cc"] == "1c" and p["cd"] == 12 and p["sp"] != "a" for p in x["pk"]):
                            cnt["application close sent as APPLICATION_ERROR in Initial/Handshake"] += 1
                        if any(p["cc"] == "1d" for p in x["pk"]):
                            cnt["application close sent as 0x1d in 1-RTT"] += 1
                elif e == "adv":
                    cnt["Tick in %s" % st] += 1
                    if nq.get("st") == "done" and st != "done":
                        if nq.get("w") == "idle":
                            cnt["IdleExpire (confirmed: silent discard) in %s" % st] += 1
                        else:
                            cnt["DrainExpire in %s (final %s)" % (st, nq.get("w"))] += 1
                    elif st == "alive" and nq.get("st") == "closing" and nq.get("w") == "local" and nq.get("wc") == 2:
                        cnt["IdleExpire (handshake timeout -> closing)"] += 1
                    elif st != "alive" and not pq.get("conf") and pq.get("w") == "pending" and nq.get("w") == "local" and nq.get("wc") == 2:
                        cnt["IdleExpire (handshake timeout while %s)" % st] += 1
                elif e == "fin":
                    cnt["Fin (conn IDs no longer routed)"] += 1
                elif e == "tp":
                    cnt["Tp (advertised max_idle_timeout)"] += 1
                elif e in ("panic", "hang", "goexit"):
                    cnt["!! %s" % e] += 1
    print("%d traces" % ntr)
    for k in sorted(cnt):
        print("%6d  %s" % (cnt[k], k))


if __name__ == "__main__":
    main(sys.argv[1:])
