-------------------------------- MODULE Gen --------------------------------
(* Scripts of stimuli for one connection (scenario generator): API calls of the     *)
(* application, packets of the scripted peer, the conn's own ack-eliciting packets   *)
(* and advances of the fake clock, in every order, before, during and after the      *)
(* handshake.  The driver executes a script on a real Conn (steps whose precondition *)
(* does not hold there are skipped and not logged) and records what happened;        *)
(* Trace.tla judges the record.  mode "life": the whole alphabet; mode "idle": the   *)
(* handshake first, then traffic and clock with short idle timeouts, closes rare.    *)
(* TLC -simulate (random orders, quick tier) or exhaustive BFS (every order of the   *)
(* given length, thorough tier).                                                     *)
EXTENDS Integers, Sequences, TLC, Json

CONSTANTS Depth,        \* number of stimuli after the prefix
          Modes         \* subset of {"life", "idle"}

VARIABLES hist, cfg, closed, phase

Aborts == {[k |-> "abort", e |-> x] : x \in {"nil", "app", "other"}}
PeerCloses == {[k |-> "pcc", e |-> p[1], sp |-> p[2]] : p \in {"t", "t0", "a"} \X {"lo", "hi"}}
Pings == {[k |-> "ping", sp |-> x] : x \in {"lo", "hi"}}
Advs(ds) == {[k |-> "adv", d |-> x] : x \in ds}
Plain(ks) == {[k |-> x] : x \in ks}

Life == Aborts \cup PeerCloses \cup Pings
        \cup Plain({"close", "wait", "hs", "ack", "cping", "dup", "garb", "sreset", "bad", "epclose"})
        \cup Advs({"next", "pre", "ccd", "ccdpre", "ms", "s"})
Idle == Pings \cup Plain({"ack", "cping", "dup", "garb"})
        \cup Advs({"next", "pre", "ms", "s"})
        \cup {[k |-> "abort", e |-> "nil"], [k |-> "pcc", e |-> "t", sp |-> "hi"]}

Closing(x) == x.k \in {"abort", "close", "pcc", "bad", "sreset", "epclose"}

Cfgs == [mode : {"life"} \cap Modes, side : {"c", "s"}, pre : {"none", "hs", "hsall"}]
        \cup [mode : {"idle"} \cap Modes, side : {"c", "s"}, pre : {"hsall"}, l : {"a", "b", "tiny", "none"}, p : {"none", "a", "tiny"}, k : {"off", "a"}]

Prefix(c) == CASE c.pre = "hs" -> <<[k |-> "hs"]>>
               [] c.pre = "hsall" -> <<[k |-> "hsall"]>>
               [] OTHER -> <<>>

Init == /\ cfg \in Cfgs
        /\ hist = <<>> /\ closed = 0
        /\ phase = cfg.pre

Enabled(x) ==
    /\ closed < 99                                         \* nothing after Endpoint.Close
    /\ x.k \in {"cping", "dup", "sreset"} => phase # "none"
    /\ (x.k = "adv" /\ x.d \in {"ccd", "ccdpre"}) => closed > 0
    /\ x.k = "hs" => phase # "hsall"

Next ==
    /\ Len(hist) < Depth
    /\ \E x \in (IF cfg.mode = "life" THEN Life ELSE Idle) :
          /\ Enabled(x)
          /\ hist' = Append(hist, x)
          /\ closed' = IF x.k = "epclose" THEN 99 ELSE IF Closing(x) THEN closed + 1 ELSE closed
          /\ phase' = IF x.k = "hs" THEN (IF phase = "none" THEN "hs" ELSE "hsall") ELSE phase
    /\ cfg' = cfg

Spec == Init /\ [][Next]_<<hist, cfg, closed, phase>>

Item == [cfg |-> cfg, steps |-> Prefix(cfg) \o hist]
Emit == Len(hist) < Depth \/ PrintT(<<"BEH", ToJson(Item)>>)
=============================================================================
