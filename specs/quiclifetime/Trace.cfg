SPECIFICATION TSpec
CONSTANTS
  Cfgs = {}
  PTOs = {}
  Steps = {}
  AbortErrs = {}
  MaxWaiters = 3
  WithEpClose = FALSE
  AppCode = 7
INVARIANTS EndsWithin3PTO FinalWhenDone IdleNotEarly RespOnlyAfterSpacing
CONSTRAINT Mark
POSTCONDITION AllConsumed
CHECK_DEADLOCK FALSE
