--------------------------------- MODULE MC ---------------------------------
(* Constants of the exhaustive design-level runs (cfg files cannot hold tuples). *)
EXTENDS QuicLifetime

Ms(n) == <<n, 0>>
MkCfg(l, p, k, h) == [L |-> Ms(l), P |-> Ms(p), K |-> Ms(k), H |-> Ms(h)]

\* quick: one PTO value; idle timeouts on both sides, absent on either or both sides, shorter than
\* 3 PTO, keep-alive on / off, with and without handshake timeout
MCCfgsQ == { MkCfg(6, 4, 0, 5), MkCfg(0, 4, 1, 0), MkCfg(2, 0, 1, 5), MkCfg(0, 0, 1, 0) }
MCPTOsQ == { [pto |-> Ms(1), ptop |-> Ms(1), rto |-> Ms(1)] }
MCStepsQ == { Ms(1) }

\* thorough: PTO changes under the conn (backoff), more configurations
MCCfgsT == { MkCfg(l, p, k, h) : l \in {0, 2, 6}, p \in {0, 4}, k \in {0, 1}, h \in {0, 5} }
MCPTOsT == { [pto |-> Ms(1), ptop |-> Ms(1), rto |-> Ms(1)], [pto |-> Ms(1), ptop |-> Ms(2), rto |-> Ms(1)] }
MCStepsT == { Ms(1), Ms(2) }

\* the clock and the bookkeeping of what was sent last are not part of the state proper
=============================================================================
