SPECIFICATION Spec
CONSTANTS
  Depth = 9
  Modes = {"life"}
INVARIANT Emit
CHECK_DEADLOCK FALSE
