------------------------------- MODULE Trace -------------------------------
(* Trace validation for X03 / X04.  One trace = one scripted connection (real Conn, *)
(* package test harness, synctest bubble, fake clock).  Lines, in program order:    *)
(*   hdr      side, configuration (L, P, K, H as <<ms, ns>>), strict                 *)
(*   tp       (probe traces) max_idle_timeout the conn advertised, in ms             *)
(*   abort / close / wait / epclose / cping     API calls of the application         *)
(*   closeret / waitret                          a blocked call returned r (code rc) *)
(*   recv     a datagram from the scripted peer: kind k, space sp, rk = the conn     *)
(*            holds read keys for it, conf = handshake confirmed afterwards          *)
(*   adv      the fake clock advanced by d (never beyond the conn's next timer)      *)
(*   send     the conn wrote a datagram: packets [sp, cc, cd, ae, oth]               *)
(*   q        white-box snapshot at quiescence: lifetime state, timers as durations  *)
(*            from now, Wait / AcceptStream results, endpoint table, goroutine gone  *)
(*   fin      after done: a datagram for the conn's connection IDs finds no conn     *)
(* Every line but q carries the PTO values of loss recovery after the step (inputs). *)
(* Every line must be a step of QuicLifetime; timer expiries are silent steps        *)
(* composed into adv.  strict = the documented contract without the named            *)
(* deviations of the pinned tree (see README, known findings).                       *)
EXTENDS QuicLifetime, TraceIO

VARIABLES cur, l
tvars == <<vars, cur, l>>

Line == Trace[l]
Strict == cf.strict

TInit ==
    \E t \in 1..NT :
       LET h == Trace[Meta.starts[t]] IN
       /\ cur = t /\ l = Meta.starts[t] + 1
       /\ h.e = "hdr"
       /\ cf = [L |-> h.L, P |-> h.P, K |-> h.K, H |-> h.H, strict |-> h.strict, side |-> h.side]
       /\ s = InitState([L |-> h.L, P |-> h.P, K |-> h.K, H |-> h.H], h.ptop)

\* Endpoint.Close(expired context): the exit message follows the abort; by the time anything
\* is observable after the datagrams of the step, the conn is done
Eff(x) == IF x.exiting THEN Exit(x) ELSE x

\* RFC 9000 10.1: the timeout in force is the minimum of the two *advertised* values
TTp == /\ Line.e = "tp"
       /\ <<Line.adv, 0>> = cf.L
       /\ UNCHANGED s

TAbort == /\ Line.e = "abort"
          /\ Line.err \in {"nil", "app", "other"}
          /\ s' = ApiAbort(Clean(s), Line.err, Line.code, Line.pto)

TClose == Line.e = "close" /\ s' = ApiClose(Clean(s), Line.pto)
TWait  == Line.e = "wait" /\ s' = ApiWait(Clean(s))
TEpClose == Line.e = "epclose" /\ ~s.exiting /\ s' = EpClose(Clean(s), Line.pto)
TCPing == Line.e = "cping" /\ s' = Clean(s)

TRet == /\ Line.e \in {"closeret", "waitret"}
        /\ LET s1 == Eff(s) IN
           /\ s1.waiters > 0
           /\ s1.ferr.k # "none"
           /\ Match(s1.ferr, Line.r, Line.rc, Strict)
           /\ s' = [Clean(s1) EXCEPT !.waiters = s1.waiters - 1]

PeerErr == IF Line.cc = "1d" THEN Err("app", Line.cd)
           ELSE IF Line.cd = 0 THEN Err("peer0", 0) ELSE Err("peer", Line.cd)

TRecv ==
    /\ Line.e = "recv"
    /\ s.conf => Line.conf
    /\ LET c == Clean(s) IN
       CASE Line.k \in {"ping", "ack", "hs"} /\ Line.rk ->
                s' = RecvProcessed(cf, c, "ping", NoErr, Line.conf, Line.pto, Line.ptop)
         [] Line.k = "pcc" /\ Line.rk ->
                \* RFC 9000 12.4 / 12.5: an application CONNECTION_CLOSE (0x1d) outside the application
                \* data space is a protocol violation, not a close.  The pinned tree accepts it
                \* (named deviation, only accepted when not strict).
                IF Line.cc = "1d" /\ Line.sp # "a"
                   THEN \/ s' = RecvProcessed(cf, c, "bad", NoErr, Line.conf, Line.pto, Line.ptop)
                        \/ ~Strict /\ s' = RecvProcessed(cf, c, "pcc", PeerErr, Line.conf, Line.pto, Line.ptop)
                   ELSE s' = RecvProcessed(cf, c, "pcc", PeerErr, Line.conf, Line.pto, Line.ptop)
         [] Line.k = "bad" /\ Line.rk ->
                s' = RecvProcessed(cf, c, "bad", NoErr, Line.conf, Line.pto, Line.ptop)
         [] Line.k = "sreset" /\ Line.rk ->
                Line.conf = s.conf /\ s' = RecvReset(c, Line.pto)
         [] OTHER ->
                \* not processed: no keys, a duplicate, or it fails to decrypt
                /\ Line.conf = s.conf
                /\ \/ s' = c
                   \/ /\ ~Strict
                      /\ (Line.k = "dup" /\ Line.rk) \/ (~Line.rk /\ Line.sp # "a")
                      /\ s' = RecvUnprocessedRestart(cf, c, Line.ptop)

TSend == /\ Line.e = "send"
         /\ SendOK(s, Line.pk, Strict)
         /\ s' = Send(cf, Clean(s), Line.pk, Line.pto, Line.ptop, Line.rto)

TAdv == /\ Line.e = "adv"
        /\ s' = Expire(Tick(Clean(s), Line.d), Line.pto)

TQ == /\ Line.e = "q"
      /\ LET s1 == Eff(s) IN
         /\ Line.st = s1.st
         /\ Line.conf = s1.conf
         /\ s1.st = "alive" => (Line.idle = s1.idle /\ Line.next = s1.next /\ Line.ssr = s1.ssr)
         /\ s1.st # "done" => Line.drain = s1.drain
         /\ IF s1.ferr.k = "none" THEN Line.w = "pending" ELSE Match(s1.ferr, Line.w, Line.wc, Strict)
         /\ Line.acc = (IF s1.st = "alive" THEN "pending" ELSE "connclosed")
         /\ Line.inmap = (s1.st # "done")
         /\ Line.gone = (s1.st = "done")
         /\ Line.npend = s1.waiters
         /\ s1.ferr.k # "none" => s1.waiters = 0
         /\ ~KeepAliveDue(s1)
         \* no timer stays due at a quiescent point: the conn loop takes the earliest of its deadlines
         \* (the keep-alive deadline included, in every state) and would spin.  The pinned tree leaves
         \* the keep-alive deadline armed when the conn stops being alive (named deviation).
         /\ Strict => ~(s1.st \notin {"alive", "done"} /\ Line.next = DZero)
         \* outside the alive state the contract says nothing about the idle timer: take it as it is
         /\ s' = [Clean(s1) EXCEPT !.idle = IF s1.st = "alive" THEN @ ELSE Line.idle,
                                   !.next = IF s1.st = "alive" THEN @ ELSE Line.next]

TFin == /\ Line.e = "fin"
        /\ s.st = "done"
        /\ Line.routed = FALSE
        /\ UNCHANGED s

TNext ==
    /\ l <= Meta.ends[cur]
    /\ l' = l + 1 /\ cur' = cur /\ cf' = cf
    /\ (TTp \/ TAbort \/ TClose \/ TWait \/ TEpClose \/ TCPing \/ TRet \/ TRecv \/ TSend \/ TAdv \/ TQ \/ TFin)

TSpec == TInit /\ [][TNext]_tvars

Mark == HighWater(cur, l)
=============================================================================
