---------------------------- MODULE QuicLifetime ----------------------------
(* Lifetime of one QUIC connection at one endpoint: alive -> closing / draining -> *)
(* done (RFC 9000 10.2) and the idle timeout (RFC 9000 10.1), as golang.org/x/net/  *)
(* quic implements them in conn_close.go, idle.go and the conn loop.                *)
(*                                                                                  *)
(* One action per API call (Abort, Close, Wait, Endpoint.Close), per packet event   *)
(* (a processed packet of each kind, an ignored one, a stateless reset), per        *)
(* datagram the conn sends, and per timer expiry (idle / handshake timeout, drain   *)
(* timer; the keep-alive is a send).  The state is one record s; every action is an *)
(* operator from records to records so that the trace specification can compose     *)
(* the silent steps (timer expiries) with the logged ones.                          *)
(*                                                                                  *)
(* Time: a time or duration is a pair <<ms, ns>> (0 <= ns < 10^6) because TLC       *)
(* integers are 32 bit and the real timers are exact to the nanosecond.             *)
(*                                                                                  *)
(* Inputs that belong to other components are parameters chosen by the environment: *)
(* the PTO values of loss recovery (pto = base period, ptop = with backoff, rto =   *)
(* without max_ack_delay), whether the conn holds keys for a packet (rk), when the  *)
(* TLS handshake is confirmed (conf).                                               *)
EXTENDS Integers, Sequences, FiniteSets

----------------------------------------------------------------------------
(* durations *)
B == 1000000
DNone == <<0 - 1, 0>>
DZero == <<0, 0>>
DIs(a) == a[1] >= 0
DAdd(a, b) == LET n == a[2] + b[2] IN <<a[1] + b[1] + (n \div B), n % B>>
DSub(a, b) == IF a[2] >= b[2] THEN <<a[1] - b[1], a[2] - b[2]>>
                              ELSE <<a[1] - b[1] - 1, a[2] + B - b[2]>>
DLt(a, b) == a[1] < b[1] \/ (a[1] = b[1] /\ a[2] < b[2])
DLe(a, b) == a = b \/ DLt(a, b)
DMax(a, b) == IF DLt(a, b) THEN b ELSE a
DMin(a, b) == IF DLt(a, b) THEN a ELSE b
DMul(k, a) == LET n == k * a[2] IN <<k * a[1] + (n \div B), n % B>>       \* k <= 2000
DHalf(a) == <<a[1] \div 2, (a[2] + (a[1] % 2) * B) \div 2>>
\* timers are kept as the time remaining (DNone = not set); Dec lets d pass
Dec(t, d) == IF ~DIs(t) THEN t ELSE IF DLe(d, t) THEN DSub(t, d) ELSE DZero
Due(t) == t = DZero

----------------------------------------------------------------------------
(* errors: [k, c]; c = -1 matches any code *)
Err(k, c) == [k |-> k, c |-> c]
NoErr == Err("none", 0)

States == {"alive", "peerClosed", "closing", "draining", "done"}

\* configuration of one connection: L local max idle timeout, P the peer's max_idle_timeout,
\* K keep-alive period, H handshake timeout (DZero = absent / disabled)
Negotiated(cf) == IF cf.L = DZero THEN cf.P
                  ELSE IF cf.P = DZero THEN cf.L ELSE DMin(cf.L, cf.P)

InitState(cf, ptop) ==
    LET hto == IF cf.H = DZero THEN DNone ELSE DMax(cf.H, DMul(3, ptop)) IN
    [ st |-> "alive", conf |-> FALSE,
      lerr |-> "none", acode |-> 0, ferr |-> NoErr,
      \* CONNECTION_CLOSE pacing: one was sent; at this very instant; current spacing; time until a
      \* received packet may be answered; such a packet has been received
      ccSent |-> FALSE, ccNow |-> FALSE, ccD |-> DZero, ccWait |-> DZero, respOK |-> FALSE,
      \* timers, as time remaining
      drain |-> DNone, idle |-> hto, next |-> hto,
      ssr |-> FALSE,             \* an ack-eliciting packet was sent since the last processed packet
      waiters |-> 0, exiting |-> FALSE,
      \* ghosts for the design-level properties: time since closing / draining was first entered and
      \* the PTO then; time since the last event that restarted the idle timer and the period then
      sinceEnter |-> DNone, enterPto |-> DZero, sinceQual |-> DZero, qualDur |-> DZero,
      nd |-> "none" ]

----------------------------------------------------------------------------
(* idle.go *)

\* restartIdleTimer
RestartIdle(cf, s, ptop) ==
    IF s.st # "alive" THEN [s EXCEPT !.idle = DNone, !.next = DNone, !.qualDur = DZero, !.sinceQual = DZero]
    ELSE LET d0 == IF s.conf THEN Negotiated(cf) ELSE cf.H
             d  == DMax(d0, DMul(3, ptop))
             ia == IF d0 = DZero THEN DNone ELSE d
             na == IF ~s.conf \/ cf.K = DZero \/ s.ssr THEN ia
                   ELSE IF d0 = DZero THEN cf.K
                   ELSE DMin(cf.K, DHalf(d))
         IN [s EXCEPT !.idle = ia, !.next = na,
                      !.sinceQual = DZero, !.qualDur = IF d0 = DZero THEN DZero ELSE d]

----------------------------------------------------------------------------
(* conn_close.go *)

SetFinal(s, e) == IF s.ferr.k = "none" THEN [s EXCEPT !.ferr = e] ELSE s

SetState(s, st, pto) ==
    IF s.st = st THEN s
    ELSE LET s1 == [s EXCEPT !.st = st] IN
         IF st \in {"closing", "draining"} /\ ~DIs(s.drain)
            THEN [s1 EXCEPT !.drain = DMul(3, pto), !.sinceEnter = DZero, !.enterPto = pto]
         ELSE IF st = "done" THEN SetFinal(s1, Err("nil", 0))
         ELSE s1

\* enterClosing: Abort from the application, or an error detected by the conn
EnterClosing(s, lerr, code, pto) ==
    CASE s.st = "alive"      -> SetState([s EXCEPT !.lerr = lerr, !.acode = code], "closing", pto)
      [] s.st = "peerClosed" -> [s EXCEPT !.lerr = lerr, !.acode = code]
      [] OTHER               -> s

\* abort: the conn detected an error itself; it is the final status unless one is set already
InternalAbort(s, lerr, ferr, pto) == EnterClosing(SetFinal(s, ferr), lerr, 0, pto)

\* handlePeerConnectionClose
PeerClose(s, ferr, pto) ==
    LET s1 == SetFinal(s, ferr) IN
    CASE s.st = "alive"   -> SetState(s1, "peerClosed", pto)
      [] s.st = "closing" -> IF s.ccSent THEN SetState(s1, "draining", pto)
                                          ELSE SetState(s1, "peerClosed", pto)
      [] OTHER            -> s1

\* enterDraining
EnterDraining(s, pto) ==
    IF s.st \in {"alive", "peerClosed", "closing"} THEN SetState(s, "draining", pto) ELSE s

----------------------------------------------------------------------------
(* API *)

ApiAbort(s, e, code, pto) == EnterClosing(s, e, code, pto)
ApiClose(s, pto) == [ApiAbort(s, "nil", 0, pto) EXCEPT !.waiters = s.waiters + 1]
ApiWait(s) == [s EXCEPT !.waiters = s.waiters + 1]

\* What a final status looks like to the application.  The documentation of Wait says that a
\* NO_ERROR close by the peer is reported as nil (k = "peer0").
Reported(ferr, strict) ==
    IF ferr.k = "peer0" THEN (IF strict THEN {Err("nil", 0)} ELSE {Err("nil", 0), Err("peer", 0)})
    ELSE {ferr}
Match(ferr, k, c, strict) ==
    \E r \in Reported(ferr, strict) : r.k = k /\ (r.c = c \/ r.c = 0 - 1)

\* Endpoint.Close with an expired context: every conn is aborted with NO_ERROR and then told to exit
EpClose(s, pto) == [ApiAbort(s, "nil", 0, pto) EXCEPT !.exiting = TRUE]
Exit(s) == IF s.st = "done" THEN s
           ELSE SetState(SetFinal(s, Err("exit", 0)), "done", DZero)

----------------------------------------------------------------------------
(* packets from the peer *)

\* does the conn look at datagrams at all (handleDatagram returns early when draining / done)
Listening(s) == s.st \in {"alive", "peerClosed", "closing"}

\* A packet that was decrypted and was not a duplicate.  k: "ping" (any frames without effect
\* here: PING, ACK, handshake data), "pcc" (CONNECTION_CLOSE, final status pcode), "bad" (a
\* protocol violation).  conf2: handshake confirmed after it.
RecvProcessed(cf, s, k, pcode, conf2, pto, ptop) ==
    IF ~Listening(s) THEN s
    ELSE
    LET s1 == CASE k = "pcc" -> PeerClose(s, pcode, pto)
                [] k = "bad" -> InternalAbort(s, "bad", Err("local", 0 - 1), pto)
                [] OTHER     -> s
        s2 == [s1 EXCEPT !.conf = conf2, !.respOK = s.respOK \/ (s.ccSent /\ Due(s.ccWait))]
    IN IF conf2 THEN RestartIdle(cf, [s2 EXCEPT !.ssr = FALSE], ptop) ELSE s2

\* The pinned tree also restarts the idle timer for packets it did not process: duplicates and
\* long-header packets it has no keys for (named deviation, only accepted when not strict).
RecvUnprocessedRestart(cf, s, ptop) ==
    IF Listening(s) /\ s.conf THEN [RestartIdle(cf, [s EXCEPT !.ssr = FALSE], ptop) EXCEPT !.nd = "idle-restart-unprocessed"]
    ELSE s

\* a stateless reset (a datagram that fails to decrypt and ends with a token of the peer)
RecvReset(s, pto) ==
    IF ~Listening(s) THEN s ELSE EnterDraining(SetFinal(s, Err("sreset", 0)), pto)

----------------------------------------------------------------------------
(* datagrams the conn sends: a sequence of packets [sp, cc, cd, ae, oth] *)

CCOnly(pk) == \A i \in 1..Len(pk) : pk[i].cc # "none" /\ ~pk[i].oth /\ ~pk[i].ae
NoCC(pk)   == \A i \in 1..Len(pk) : pk[i].cc = "none"
AckEliciting(pk) == \E i \in 1..Len(pk) : pk[i].ae

\* the CONNECTION_CLOSE frame for the local error (Abort's documentation; RFC 9000 10.2.3)
CodeOK(s, p, strict) ==
    CASE s.lerr = "nil"   -> p.cc = "1c" /\ p.cd = 0
      [] s.lerr = "app"   -> IF p.sp = "a" THEN p.cc = "1d" /\ p.cd = s.acode
                                           ELSE p.cc = "1c" /\ p.cd = 12
      [] s.lerr = "other" -> p.cc = "1c" /\ (p.cd = 12 \/ (~strict /\ p.cd = 1))
      [] s.lerr = "hsto"  -> p.cc = "1c" /\ p.cd = 2
      [] s.lerr = "bad"   -> p.cc = "1c"
      [] OTHER            -> FALSE

\* closing state: the first CONNECTION_CLOSE at once, later ones only in response to a packet
\* received after the current spacing has elapsed since the last one
CloseAllowed(s) == ~s.ccSent \/ s.respOK

SendOK(s, pk, strict) ==
    /\ Len(pk) > 0
    /\ CASE s.st = "alive"      -> NoCC(pk)
         [] s.st = "closing"    -> CCOnly(pk) /\ CloseAllowed(s) /\ \A i \in 1..Len(pk) : CodeOK(s, pk[i], strict)
         [] s.st = "peerClosed" -> s.lerr # "none" /\ CCOnly(pk) /\ \A i \in 1..Len(pk) : CodeOK(s, pk[i], strict)
         [] OTHER               -> FALSE

\* sentConnectionClose: the spacing starts at rto and doubles with every CONNECTION_CLOSE
\* (datagrams written at the same instant count once)
SentCC(s, rto) ==
    LET d == IF ~s.ccSent THEN rto ELSE IF ~s.ccNow THEN DMul(2, s.ccD) ELSE s.ccD IN
    [s EXCEPT !.ccSent = TRUE, !.ccNow = TRUE, !.ccD = d, !.ccWait = d, !.respOK = FALSE]

Send(cf, s, pk, pto, ptop, rto) ==
    CASE s.st = "alive" ->
           IF AckEliciting(pk) /\ s.conf /\ ~s.ssr
              THEN RestartIdle(cf, [s EXCEPT !.ssr = TRUE], ptop) ELSE s
      [] s.st = "closing"    -> SentCC(s, rto)
      [] s.st = "peerClosed" -> SentCC(EnterDraining(s, pto), rto)
      [] OTHER -> s

----------------------------------------------------------------------------
(* time *)

Tick(s, d) ==
    IF d = DZero THEN s
    ELSE [s EXCEPT !.drain = Dec(s.drain, d), !.idle = Dec(s.idle, d), !.next = Dec(s.next, d),
                   !.ccWait = Dec(s.ccWait, d), !.ccNow = FALSE,
                   !.sinceEnter = IF DIs(s.sinceEnter) /\ s.st # "done" THEN DAdd(s.sinceEnter, d) ELSE s.sinceEnter,
                   !.sinceQual = IF s.qualDur # DZero /\ s.st # "done" THEN DAdd(s.sinceQual, d) ELSE s.sinceQual]

\* the conn loop's timer event: idleAdvance, then lifetimeAdvance
IdleExpire(s, pto) ==
    IF s.st = "done" \/ ~Due(s.idle) THEN s
    ELSE LET s1 == [s EXCEPT !.idle = DNone, !.next = DNone] IN
         IF s.conf THEN SetState(SetFinal(s1, Err("idle", 0)), "done", pto)   \* silently discarded
         ELSE InternalAbort(s1, "hsto", Err("local", 2), pto)                \* handshake timeout

DrainExpire(s, pto) ==
    IF s.st = "done" \/ ~Due(s.drain) THEN s
    ELSE LET s1 == [s EXCEPT !.drain = DNone] IN
         SetState(IF s.st # "draining" THEN SetFinal(s1, Err("noresp", 0)) ELSE s1, "done", pto)

Expire(s, pto) == DrainExpire(IdleExpire(s, pto), pto)

\* time until the earliest deadline of the conn (DNone if there is none)
DMinSet(a, b) == IF ~DIs(a) THEN b ELSE IF ~DIs(b) THEN a ELSE DMin(a, b)
NextDeadline(s) ==
    IF s.st = "done" THEN DNone
    ELSE DMinSet(DMinSet(s.idle, IF s.st = "alive" THEN s.next ELSE DNone),
                 IF s.st # "alive" THEN s.drain ELSE DNone)

\* keep-alive due: a PING must have gone out
KeepAliveDue(s) == s.st = "alive" /\ s.conf /\ ~s.ssr /\ Due(s.next) /\ s.next # s.idle

----------------------------------------------------------------------------
(* the design model: everything nondeterministic over small sets *)

CONSTANTS Cfgs,       \* set of configurations [L, P, K, H]
          PTOs,       \* set of [pto, ptop, rto] the environment may present
          Steps,      \* clock steps
          AbortErrs,  \* error classes the application aborts with
          MaxWaiters, \* blocked Close / Wait calls
          WithEpClose,
          AppCode

VARIABLES s, cf
vars == <<s, cf>>

\* packets the model lets the conn try to send (frames that matter here): plain packets, and
\* packets with a CONNECTION_CLOSE frame of either type with or without other frames
Packets == [sp : {"i", "a"}, cc : {"none"}, cd : {0}, ae : BOOLEAN, oth : {TRUE}]
           \cup [sp : {"i", "a"}, cc : {"1c", "1d"}, cd : {0, 12, AppCode}, ae : {FALSE}, oth : BOOLEAN]
           \cup [sp : {"i", "a"}, cc : {"1c"}, cd : {0}, ae : {TRUE}, oth : {TRUE}]
\* datagrams: one packet, or an Initial and a 1-RTT packet with the same frames
Datagrams == {<<p>> : p \in Packets} \cup {<<[p EXCEPT !.sp = "i"], [p EXCEPT !.sp = "a"]>> : p \in Packets}

Clean(x) == [x EXCEPT !.nd = "none"]

Init == /\ cf \in Cfgs
        /\ \E p \in PTOs : s = InitState(cf, p.ptop)

PeerErrs == {Err("peer", 3), Err("peer0", 0), Err("app", 42)}

Next ==
    /\ cf' = cf
    /\ \E p \in PTOs :
       \/ \E e \in AbortErrs : s' = ApiAbort(Clean(s), e, AppCode, p.pto)
       \/ s.waiters < MaxWaiters /\ s' = ApiClose(Clean(s), p.pto)
       \/ s.waiters < MaxWaiters /\ s' = ApiWait(Clean(s))
       \/ s.waiters > 0 /\ s.ferr.k # "none" /\ s' = [Clean(s) EXCEPT !.waiters = s.waiters - 1]
       \/ WithEpClose /\ ~s.exiting /\ s' = EpClose(Clean(s), p.pto)
       \/ s.exiting /\ s' = Exit(Clean(s))
       \/ \E k \in {"ping", "bad"} : s' = RecvProcessed(cf, Clean(s), k, NoErr, s.conf, p.pto, p.ptop)
       \/ ~s.conf /\ s' = RecvProcessed(cf, Clean(s), "hs", NoErr, TRUE, p.pto, p.ptop)
       \/ \E e \in PeerErrs : s' = RecvProcessed(cf, Clean(s), "pcc", e, s.conf, p.pto, p.ptop)
       \/ s' = RecvReset(Clean(s), p.pto)
       \/ \E d \in Datagrams : SendOK(s, d, TRUE) /\ s' = Send(cf, Clean(s), d, p.pto, p.ptop, p.rto)
       \/ \E d \in Steps :
             LET nd == NextDeadline(s) IN
             /\ DIs(nd) => DLe(d, nd)            \* timers fire on time: the clock does not skip a deadline
             /\ ~KeepAliveDue(s)                 \* the keep-alive goes out before time moves on
             /\ s' = Expire(Tick(Clean(s), d), p.pto)
       \/ DIs(NextDeadline(s)) /\ NextDeadline(s) # DZero
             /\ ~KeepAliveDue(s)
             /\ s' = Expire(Tick(Clean(s), NextDeadline(s)), p.pto)

Spec == Init /\ [][Next]_vars

----------------------------------------------------------------------------
(* design-level properties *)

TypeOK ==
    /\ s.st \in States
    /\ s.conf \in BOOLEAN /\ s.ssr \in BOOLEAN /\ s.ccSent \in BOOLEAN
    /\ s.lerr \in {"none", "nil", "app", "other", "hsto", "bad"}
    /\ s.waiters \in 0..MaxWaiters

\* The properties about what is sent quantify over every datagram the specification would let
\* the conn send in the current state (SendOK is the guard of the Send action).
Sendable(d) == SendOK(s, d, TRUE)
\* closing (and the peer-closed sub-state): nothing but CONNECTION_CLOSE, rate limited
OnlyCloseInClosing ==
    \A d \in Datagrams : (s.st \in {"closing", "peerClosed"} /\ Sendable(d)) => CCOnly(d)
ClosingRateLimited ==
    \A d \in Datagrams : (s.st = "closing" /\ s.ccSent /\ Sendable(d)) => s.respOK
RespOnlyAfterSpacing == s.respOK => (s.ccSent /\ Due(s.ccWait))
\* draining and done: nothing at all
SilentInDraining == \A d \in Datagrams : s.st \in {"draining", "done"} => ~Sendable(d)
NoSendAfterDone  == \A d \in Datagrams : s.st = "done" => ~Sendable(d)
\* while alive no CONNECTION_CLOSE goes out
NoCloseWhileAlive == \A d \in Datagrams : (s.st = "alive" /\ Sendable(d)) => NoCC(d)
\* RFC 9000 10.2.3 / 12.5: application CONNECTION_CLOSE (0x1d) only in the application data space
AppCloseOnlyInAppSpace ==
    \A d \in Datagrams : Sendable(d) => \A i \in 1..Len(d) : d[i].cc = "1d" => d[i].sp = "a"
\* the final status never changes once set
FirstCauseSticks == [][s.ferr.k # "none" => s'.ferr = s.ferr]_vars
\* closing and draining end no later than 3 PTO after the first of them was entered
EndsWithin3PTO ==
    s.st \in {"closing", "draining"} =>
        /\ DIs(s.drain) /\ DIs(s.sinceEnter)
        /\ DAdd(s.sinceEnter, s.drain) = DMul(3, s.enterPto)
\* draining is only entered with a final status from the peer (or a reset), and done always has one
FinalWhenDone == s.st \in {"draining", "done"} => s.ferr.k # "none"
\* a CONNECTION_CLOSE from the peer that becomes the final status moves alive / closing on
PeerCloseLeavesAlive == [][
    (s.st \in {"alive", "closing"} /\ s.ferr.k = "none" /\ s'.ferr.k \in {"peer", "peer0", "app"})
        => s'.st \in {"peerClosed", "draining"}]_vars
\* the idle timer: never earlier than the negotiated timeout (at least 3 PTO) after the last
\* qualifying event, and not later
IdleNotEarly ==
    (s.st = "done" /\ s.ferr.k = "idle") => DLe(s.qualDur, s.sinceQual)
IdleNotLate ==
    (s.st = "alive" /\ s.conf /\ s.qualDur # DZero) => (DLe(s.sinceQual, s.qualDur) /\ DAdd(s.sinceQual, s.idle) = s.qualDur)
\* the negotiated value: minimum of the two, an absent one does not count
NegotiatedIsMin ==
    LET n == Negotiated(cf) IN
    /\ (cf.L # DZero /\ cf.P # DZero) => (DLe(n, cf.L) /\ DLe(n, cf.P) /\ n \in {cf.L, cf.P})
    /\ (cf.L = DZero) => n = cf.P
    /\ (cf.P = DZero) => n = cf.L
\* states are only left forwards
Order == [][ (s.st = "done" => s'.st = "done")
          /\ (s.st = "draining" => s'.st \in {"draining", "done"})
          /\ (s.st # "alive" => s'.st # "alive") ]_vars
=============================================================================
