SPECIFICATION Spec
CONSTANTS
  Depth = 2
  Modes = {"life"}
INVARIANT Emit
CHECK_DEADLOCK FALSE
