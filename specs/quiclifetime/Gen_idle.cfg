SPECIFICATION Spec
CONSTANTS
  Depth = 10
  Modes = {"idle"}
INVARIANT Emit
CHECK_DEADLOCK FALSE
