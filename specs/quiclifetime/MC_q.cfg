SPECIFICATION Spec
CONSTANTS
  Cfgs <- MCCfgsQ
  PTOs <- MCPTOsQ
  Steps <- MCStepsQ
  AbortErrs = {"nil", "app", "other"}
  MaxWaiters = 1
  WithEpClose = FALSE
  AppCode = 7
INVARIANTS TypeOK OnlyCloseInClosing ClosingRateLimited RespOnlyAfterSpacing SilentInDraining NoSendAfterDone NoCloseWhileAlive AppCloseOnlyInAppSpace EndsWithin3PTO FinalWhenDone IdleNotEarly IdleNotLate NegotiatedIsMin
PROPERTIES FirstCauseSticks PeerCloseLeavesAlive Order
CHECK_DEADLOCK FALSE
