SPECIFICATION Spec
CONSTANTS
  Depth = 3
  Modes = {"idle"}
INVARIANT Emit
CHECK_DEADLOCK FALSE
