# Signatures of violations of the quiclifetime family (X03, X04): the class of the failing step --
# which line was rejected, after which stimulus, in which lifetime state, in a strict (documented
# contract) or ordinary trace -- not a hash of the values, so that one defect is reported once and a
# different failure of the same property still shows.
import re


def _prev_stim(lines):
    """the last stimulus line before the failing line"""
    for x in reversed(lines[:-1]):
        if x.get("e") not in ("q", "send", "closeret", "waitret"):
            return x
    return {}


def _prev_q(lines):
    for x in reversed(lines[:-1]):
        if x.get("e") == "q":
            return x
    return {}


def _stim_name(x):
    e = x.get("e", "?")
    if e == "recv":
        s = "recv-%s-%s" % (x.get("k"), x.get("sp"))
        if not x.get("rk", True):
            s += "-nokeys"
        if x.get("k") == "pcc":
            s += "-%s-%s" % (x.get("cc"), "noerror" if x.get("cd") == 0 else "error")
        return s
    if e == "abort":
        return "abort-%s" % x.get("err")
    if e == "adv":
        return "adv"
    return e


def signature(prop, kind, scenario, detail):
    what = (detail or {}).get("what", "")
    try:
        if kind != "trace" or not isinstance(scenario, dict):
            return None
        lines = scenario.get("lines") or []
        if not lines:
            return None
        hdr, last = lines[0], lines[-1]
        mode = "strict" if hdr.get("strict") else "trace"
        inv = re.match(r"invariant (\w+)", what)
        stim = _stim_name(_prev_stim(lines))
        st = _prev_q(lines).get("st", "start")
        e = last.get("e")
        if inv:
            return "%s;inv=%s;event=%s;after=%s;st=%s" % (mode, inv.group(1), e, stim, st)
        if e == "tp":
            return "%s;unmatched;tp;advertised=%s;local=%s" % (
                mode, "absent" if last.get("adv") == 0 else "other", "none" if hdr.get("L") == [0, 0] else "set")
        if e == "send":
            pk = last.get("pk") or [{}]
            p = pk[0]
            return "%s;unmatched;send;after=%s;st=%s;cc=%s;code=%s;sp=%s;ae=%s" % (
                mode, stim, st, p.get("cc"), p.get("cd") if p.get("cc") != "none" else "-", p.get("sp"), p.get("ae"))
        if e in ("closeret", "waitret"):
            return "%s;unmatched;%s;r=%s;rc=%s;after=%s" % (mode, e, last.get("r"), last.get("rc"), stim)
        if e == "q":
            pq = _prev_q(lines)
            ps = _prev_stim(lines)
            if last.get("st") not in ("alive", "done") and last.get("next") == [0, 0] and ps.get("e") == "adv":
                return "%s;unmatched;q;keep-alive-deadline-stays-due;st=%s" % (mode, last.get("st"))
            if (ps.get("e") == "recv" and (ps.get("k") == "dup" or not ps.get("rk", True))
                    and pq.get("st") == "alive" and last.get("st") == "alive" and pq.get("idle") != last.get("idle")):
                return "%s;unmatched;q;idle-timer-restarted-by-unprocessed-packet=%s" % (
                    mode, "duplicate" if ps.get("k") == "dup" else "long-header-without-keys")
            if (ps.get("e") == "recv" and ps.get("k") == "pcc" and ps.get("cc") == "1d" and ps.get("sp") != "a"
                    and last.get("w") == "app"):
                return "%s;unmatched;q;application-close-accepted-in-%s-packet" % (mode, ps.get("sp"))
            diff = [k for k in ("st", "conf", "idle", "next", "drain", "ssr", "w", "acc", "inmap", "gone", "npend")
                    if k in ("st", "w", "acc", "inmap", "gone") or pq.get(k) != last.get(k)]
            tag = "st=%s;w=%s" % (last.get("st"), last.get("w"))
            moved = ",".join(k for k in ("idle", "next", "drain", "ssr", "conf") if k in diff)
            return "%s;unmatched;q;after=%s;from=%s;%s;changed=%s;inmap=%s;gone=%s" % (
                mode, stim, st, tag, moved, last.get("inmap"), last.get("gone"))
        return "%s;unmatched;event=%s;after=%s;st=%s" % (mode, e, stim, st)
    except Exception:
        return None
