------------------------------- MODULE Trace -------------------------------
(* Trace validation for C22: the driver logs, for seeded 62-bit values and seeded  *)
(* byte strings, what the real quicwire functions returned (values as 8-byte       *)
(* big-endian arrays); every line must be what Varint.tla says.                    *)
EXTENDS Varint, TraceIO

VARIABLES cur, l, judged
tvars == <<cur, l, judged>>

Line == Trace[l]

TInit ==
    \E t \in 1..NT :
       LET h == Trace[Meta.starts[t]] IN
       /\ cur = t /\ l = Meta.starts[t] + 1 /\ judged = 0
       /\ h.e = "hdr"

AllNeg(s) == \A i \in 1..Len(s) : s[i] < 0

\* AppendVarint / SizeVarint / ConsumeVarint(enc ++ junk) / ConsumeVarint on every proper prefix
TVal ==
    /\ Line.e = "val"
    /\ IsValue(Line.v)
    /\ Line.enc = Enc(Line.v)
    /\ Line.size = Size(Line.v)
    /\ Line.dn = Size(Line.v)
    /\ Line.dv = Line.v
    /\ Len(Line.tr) = Size(Line.v) /\ AllNeg(Line.tr)

\* ConsumeVarint on an arbitrary byte string
TDec ==
    /\ Line.e = "dec"
    /\ IsBytes(Line.b)
    /\ LET d == Dec(Line.b) IN
       /\ Line.n = d.n
       /\ d.ok => Line.v = d.v

\* ConsumeVarintBytes on AppendVarintBytes(payload of plen bytes) cut or extended to hdr+avail bytes
TBytes ==
    /\ Line.e = "vbytes"
    /\ Line.plen >= 0 /\ Line.plen < 16777216
    /\ Line.hdr = Enc(FromNat(Line.plen))
    /\ Line.alen = Len(Line.hdr) + Line.plen
    /\ LET d == DecBytes(FromNat(Line.plen), Line.avail) IN
       /\ Line.n = d.n
       /\ d.ok => Line.rlen = d.plen /\ Line.same

TNext ==
    /\ l <= Meta.ends[cur]
    /\ l' = l + 1 /\ cur' = cur /\ judged' = judged + 1
    /\ (TVal \/ TDec \/ TBytes)

TSpec == TInit /\ [][TNext]_tvars

Mark == HighWater(cur, l)
=============================================================================
