------------------------------- MODULE Varint -------------------------------
(* QUIC variable-length integers (RFC 9000 section 16) on byte sequences.          *)
(*                                                                                 *)
(* TLC integers are 32-bit, so a value v in [0, 2^62) is represented by its 8-byte *)
(* big-endian image: a sequence of 8 bytes whose first byte is below 64 (the top   *)
(* two bits of the 64-bit word are clear).  Everything C22 says is a statement     *)
(* about byte positions, so nothing is lost.                                       *)
(*                                                                                 *)
(* What the RFC fixes is the DECODING: the two most significant bits of the first  *)
(* byte give the length 1, 2, 4 or 8; the remaining bits, big-endian, are the      *)
(* value.  An encoding of v is any byte string that decodes to v; C22 asks for the *)
(* shortest one.  Enc/Size below are derived from Dec through Fits/EncAs, and the  *)
(* lemmas at the end (checked by TLC on every enumerated value and byte string)    *)
(* say that this derivation is right.                                              *)
EXTENDS Integers, Sequences

Byte  == 0..255
Sizes == {1, 2, 4, 8}

Zeros(k) == SubSeq(<<0, 0, 0, 0, 0, 0, 0, 0>>, 1, k)

IsBytes(b) == \A i \in 1..Len(b) : b[i] \in Byte
IsValue(v) == Len(v) = 8 /\ IsBytes(v) /\ v[1] < 64

(* ------------------------------------------------------------------ decoding *)
LenOfTag(t) == CASE t = 0 -> 1 [] t = 1 -> 2 [] t = 2 -> 4 [] OTHER -> 8
TagOfLen(s) == CASE s = 1 -> 0 [] s = 2 -> 1 [] s = 4 -> 2 [] OTHER -> 3

Fail == [ok |-> FALSE, n |-> 0 - 1, v |-> Zeros(8)]

\* Dec(b): parse one varint from the front of b.  A negative n reports truncated input.
\* Only b[1..need] is ever looked at.
Dec(b) ==
    IF Len(b) = 0 THEN Fail
    ELSE LET need == LenOfTag(b[1] \div 64) IN
         IF Len(b) < need THEN Fail
         ELSE [ok |-> TRUE, n |-> need,
               v |-> Zeros(8 - need) \o <<b[1] % 64>> \o SubSeq(b, 2, need)]

(* ------------------------------------------------------------------ encoding *)
\* v is representable in s bytes: 8*s - 2 value bits.
Fits(v, s) == (\A i \in 1..(8 - s) : v[i] = 0) /\ v[9 - s] < 64

\* the s-byte encoding of a value that fits
EncAs(v, s) == <<TagOfLen(s) * 64 + v[9 - s]>> \o SubSeq(v, 10 - s, 8)

\* the shortest encoding
Size(v) == CHOOSE s \in Sizes : Fits(v, s) /\ \A r \in Sizes : r < s => ~Fits(v, r)
Enc(v)  == EncAs(v, Size(v))

(* ------------------------------------------------- length-prefixed byte helpers *)
\* A small natural number (< 2^24) as a value.
FromNat(n) == <<0, 0, 0, 0, 0, n \div 65536, (n \div 256) % 256, n % 256>>
\* v <= n for a value v and a small natural n
LeqNat(v, n) == (\A i \in 1..5 : v[i] = 0) /\ v[6] * 65536 + v[7] * 256 + v[8] <= n
ToNat(v)     == v[6] * 65536 + v[7] * 256 + v[8]      \* only where LeqNat(v, something)

\* ConsumeVarintBytes on Enc(dv) followed by avail more bytes: the declared length dv must
\* be available; the result is the next ToNat(dv) bytes and the total consumed.
DecBytes(dv, avail) ==
    IF LeqNat(dv, avail) THEN [ok |-> TRUE,  n |-> Size(dv) + ToNat(dv), plen |-> ToNat(dv)]
    ELSE                      [ok |-> FALSE, n |-> 0 - 1,                plen |-> 0]

\* 8-bit length prefix
DecBytes8(d, avail) ==
    IF d <= avail THEN [ok |-> TRUE,  n |-> 1 + d,  plen |-> d]
    ELSE               [ok |-> FALSE, n |-> 0 - 1,  plen |-> 0]

(* -------------------------------------------------------------------- lemmas *)
\* (checked by TLC for every enumerated value, see VarintCases.tla)
\* L1: every fitting EncAs is an encoding: it decodes to v with that length, whatever follows.
EncodesLemma(v, junk) ==
    \A s \in Sizes : Fits(v, s) =>
        /\ Len(EncAs(v, s)) = s
        /\ Dec(EncAs(v, s) \o junk) = [ok |-> TRUE, n |-> s, v |-> v]
\* L2: the round trip of C22 and the length law.
RoundTrip(v, junk) ==
    LET s == Size(v)  e == EncAs(v, s) IN
    /\ Len(e) = s
    /\ Dec(e \o junk) = [ok |-> TRUE, n |-> s, v |-> v]
\* L3: every proper prefix of the encoding is reported as truncated.
TruncLemma(v) ==
    LET s == Size(v)  e == EncAs(v, s) IN
    \A k \in 0..(s - 1) : Dec(SubSeq(e, 1, k)) = Fail
\* L4 (byte side): whatever decodes, decodes to a value that fits its length and whose
\* encoding of that length is exactly the bytes consumed -- so there is one encoding per
\* length and Enc is the shortest of all encodings, and Dec never looks past n bytes.
DecLemma(b) ==
    LET d == Dec(b) IN
    IF d.ok THEN /\ IsValue(d.v) /\ d.n \in Sizes /\ d.n <= Len(b)
                 /\ Fits(d.v, d.n)
                 /\ EncAs(d.v, d.n) = SubSeq(b, 1, d.n)
                 /\ Size(d.v) <= d.n
                 /\ Dec(SubSeq(b, 1, d.n)) = d
    ELSE d.n < 0 /\ (Len(b) = 0 \/ Len(b) < LenOfTag(b[1] \div 64))
=============================================================================
