SPECIFICATION Spec
CONSTANTS
  TopBytes = {1, 63}
  Alpha = {0, 1, 63, 64, 127, 128, 255}
  AlphaS = {0, 64, 255}
  MBig = 4
  FirstBytes = {0, 63, 64, 127, 128, 191, 192, 255}
  RestBytes = {0, 255}
  MaxDecLen = 9
INVARIANT Inv
CHECK_DEADLOCK FALSE
