SPECIFICATION Spec
CONSTANTS
  TopBytes = {0, 1, 62, 63}
  Alpha = {0, 1, 62, 63, 64, 65, 127, 128, 191, 192, 254, 255}
  AlphaS = {0, 63, 64, 255}
  MBig = 4
  FirstBytes = {0, 1, 63, 64, 65, 127, 128, 129, 191, 192, 193, 255}
  RestBytes = {0, 255}
  MaxDecLen = 9
INVARIANT Inv
CHECK_DEADLOCK FALSE
