# Signatures for quicstream violations.  A violation of NoNewDeviation is identified by the
# named deviation(s) of the real code that the step took (known findings modelled explicitly
# in QuicStream.tla) restricted to the ones that violate the property being checked;
# everything else by the failing line's event kind plus a hash of the scenario, so different
# failures stay distinguishable.
import re

FLAGGED = {
    "C19": {"StallAfterCloseRead", "StaleBufferReadAfterCloseRead", "KeyUpdateDeadlock"},
    "C20": {"NoFlowErrorAfterCloseRead", "EndMovedByLateRead"},
    "C32": {"SpuriousFinalSizeAfterLateRead"},
}


def signature(prop, kind, scenario, detail):
    what = (detail or {}).get("what", "")
    if kind == "crash":
        # the test binary died in golang/net code: identified by the panic message, not by line numbers
        m = re.search(r"(?:panic|fatal error): (.*?)  at ", what)
        return "crash:" + (m.group(1).strip() if m else "unknown")
    m = re.search(r'invariant NoNewDeviation violated.*?state=\{"nd": "\{(.*?)\}"', what)
    if m:
        names = sorted(x.strip().strip('\\"') for x in m.group(1).split(","))
        names = [n for n in names if n in FLAGGED.get(prop, set())] or names
        return "deviation:" + "+".join(names)
    return None
