SPECIFICATION TSpec
CONSTANTS
  Streams = {1, 2, 3, 4}
  Enforce = {"C19"}
  MCoff = 0
  MCwin = 0
  MCcw = 0
  MCpk = 0
  MCbk = 0
  MCdup = 0
  MCack = FALSE
INVARIANTS NoNewDeviation
CONSTRAINT Mark
POSTCONDITION AllConsumed
CHECK_DEADLOCK FALSE
