SPECIFICATION Spec
CONSTANTS
  Streams = {1}
  Enforce = {"C19", "C20", "C32"}
  MCoff = 2
  MCwin = 1
  MCcw = 2
  MCpk = 2
  MCbk = 1
  MCdup = 0
  MCack = TRUE
INVARIANTS CreditRespected ReadPrefix FinalSizeConsistent
PROPERTIES NoStreamAfterReset AdvertisedMonotone
CHECK_DEADLOCK FALSE
