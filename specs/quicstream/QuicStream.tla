----------------------------- MODULE QuicStream -----------------------------
(* QUIC streams and flow control of ONE endpoint E (golang.org/x/net/quic Conn) seen at   *)
(* the frame level plus E's application calls (C19, C20, C32).                            *)
(*                                                                                        *)
(* Send half, per stream s (snd[s]):                                                      *)
(*   win   stream credit = largest MAX_STREAM_DATA the peer has delivered (monotone)      *)
(*   hi    highest offset E has ever put on the wire (max off+len over all STREAM frames) *)
(*   wr    bytes the application has written (completed Write calls)                      *)
(*   pend  size of a Write call that has not returned yet (-1: none)                      *)
(*   flush value of wr at the last explicit Flush / CloseWrite / Close                    *)
(*   cl    final size declared by CloseWrite / Close (-1: still open)                     *)
(*   rq    reset codes requested (application Reset, peer STOP_SENDING)                   *)
(*   rs    a RESET_STREAM has been put on the wire;  fs  a FIN has been put on the wire   *)
(*   ack   byte ranges <<a,b>> the peer has acknowledged;  fa / ra  FIN / RESET acked     *)
(*   cp    a Close call is pending                                                        *)
(* Receive half, per stream (rcv[s]):                                                     *)
(*   win   largest MAX_STREAM_DATA E has advertised (transport parameter, frames sent)    *)
(*   hi    highest offset the peer has used (RFC 9000 4.1: counts for MAX_DATA)           *)
(*   hl    highest offset received while the application still wanted the data            *)
(*   cnt   what E has charged to its connection-level accounting for s (= hi unless the   *)
(*         named deviation below is taken)                                                *)
(*   got   byte ranges <<a,b>> received while live;  rd  bytes the application has read   *)
(*   fin   known final size (-1 unknown);  soft  final sizes seen after CloseRead         *)
(*   rst   code of a received RESET_STREAM (-1 none);  cr  application closed reading     *)
(*   eof   a Read returned io.EOF;  rac  a Read was issued after CloseRead / reset       *)
(* Connection (cx): cs / cr  which streams E may send / receive on, omax peer's MAX_DATA, *)
(*   imax MAX_DATA advertised by E, sent = frames in packets not yet acknowledged,        *)
(*   dead = E closed the connection, dev = named deviations taken (known findings).       *)
(*                                                                                        *)
(* Packetisation, batching of MAX_* updates, retransmission policy and which error is     *)
(* reported when a frame breaks several rules are NOT fixed here; only the bounds the     *)
(* properties state are.  Enforce selects which property's rules are judged.              *)
EXTENDS Integers, Sequences, FiniteSets, FiniteSetsExt, TLC

CONSTANTS Streams,       \* stream indices
          Enforce,       \* subset of {"C19", "C20", "C32"}
          MCoff, MCwin, MCcw, MCpk, MCbk, MCdup,   \* bounds of the design model (Init/Next only)
          MCack          \* design model: acknowledgements are modelled

VARIABLES snd, rcv, cx, net
vars == <<snd, rcv, cx, net>>

J(p) == p \in Enforce
Max2(a, b) == IF a > b THEN a ELSE b
Min2(a, b) == IF a < b THEN a ELSE b

(* position-dependent byte patterns: what E's application writes / what the peer sends *)
Pat(s, o)  == ((o % 251) * 7 + s * 13) % 251
PPat(s, o) == ((o % 251) * 11 + s * 17 + 3) % 251

OHiSum  == FoldSet(LAMBDA s, acc : snd[s].hi + acc, 0, Streams)
IHiSum  == FoldSet(LAMBDA s, acc : rcv[s].hi + acc, 0, Streams)
ICntSum == FoldSet(LAMBDA s, acc : rcv[s].cnt + acc, 0, Streams)

(* [0, n) is covered by the union of the half-open ranges in R *)
Covered(R, n) ==
    n <= 0 \/ \A p \in {0} \cup {r[2] : r \in {q \in R : q[2] < n}} :
                 \E r \in R : r[1] <= p /\ p < r[2]

(* end of the contiguous run of received bytes that starts at c *)
RECURSIVE Contig(_, _)
Contig(R, c) ==
    LET E == {r[2] : r \in {q \in R : q[1] <= c /\ q[2] > c}} IN
    IF E = {} THEN c ELSE Contig(R, Max(E))

AllAcked(s) == snd[s].cl >= 0 /\ snd[s].fa /\ Covered(snd[s].ack, snd[s].cl)

Live(s) == ~rcv[s].cr /\ rcv[s].rst < 0
Unread(s) == IF Live(s) THEN rcv[s].hi - rcv[s].rd ELSE 0
TotalUnread == FoldSet(LAMBDA s, acc : Unread(s) + acc, 0, Streams)

Snd0(w) == [win |-> w, hi |-> 0, wr |-> 0, pend |-> 0 - 1, flush |-> 0, cl |-> 0 - 1, rq |-> {},
            rs |-> FALSE, fs |-> FALSE, ack |-> {}, fa |-> FALSE, ra |-> FALSE, cp |-> FALSE]
Rcv0(w) == [win |-> w, hi |-> 0, hl |-> 0, cnt |-> 0, got |-> {}, rd |-> 0, fin |-> 0 - 1, soft |-> {},
            rst |-> 0 - 1, cr |-> FALSE, eof |-> FALSE, rac |-> FALSE]

InitWith(cs, cr, owin0, iwin0, omax0, imax0) ==
    /\ snd = [s \in Streams |-> Snd0(owin0[s])]
    /\ rcv = [s \in Streams |-> Rcv0(iwin0[s])]
    /\ cx = [cs |-> cs, cr |-> cr, omax |-> omax0, imax |-> imax0, sent |-> {}, dead |-> FALSE, dev |-> {}]

-----------------------------------------------------------------------------
(* ------------------------- application, send side ------------------------- *)
AppWriteCall(s, n) ==
    /\ cx.cs[s] /\ n >= 0 /\ snd[s].pend < 0
    /\ snd' = [snd EXCEPT ![s].pend = n]
    /\ UNCHANGED <<rcv, cx>>

(* Write returned n with or without an error: a nil error means everything was taken *)
AppWriteRet(s, n, noerr) ==
    /\ snd[s].pend >= 0 /\ n >= 0 /\ n <= snd[s].pend
    /\ (J("C19") => (noerr => n = snd[s].pend)) = TRUE
    /\ snd' = [snd EXCEPT ![s].pend = 0 - 1, ![s].wr = @ + n]
    /\ UNCHANGED <<rcv, cx>>

AppFlush(s, ok) ==
    /\ cx.cs[s]
    /\ snd' = [snd EXCEPT ![s].flush = IF ok THEN snd[s].wr ELSE @]
    /\ UNCHANGED <<rcv, cx>>

CloseWriteEff(r) == [r EXCEPT !.cl = IF @ < 0 THEN r.wr ELSE @, !.flush = r.wr]

AppCloseWrite(s) ==
    /\ cx.cs[s] /\ snd[s].pend < 0
    /\ snd' = [snd EXCEPT ![s] = CloseWriteEff(@)]
    /\ UNCHANGED <<rcv, cx>>

(* Close = CloseRead + CloseWrite + wait for the acknowledgement *)
AppCloseCall(s) ==
    /\ snd[s].pend < 0 /\ ~snd[s].cp
    /\ snd' = [snd EXCEPT ![s] = [(IF cx.cs[s] THEN CloseWriteEff(@) ELSE @) EXCEPT !.cp = TRUE]]
    /\ rcv' = [rcv EXCEPT ![s].cr = @ \/ cx.cr[s]]
    /\ UNCHANGED cx

(* C19: Close returns nil only after the peer has acknowledged all data (and the FIN) *)
AppCloseRet(s, res) ==
    /\ snd[s].cp
    /\ ((J("C19") /\ res = "nil" /\ cx.cs[s]) => AllAcked(s)) = TRUE
    /\ snd' = [snd EXCEPT ![s].cp = FALSE]
    /\ UNCHANGED <<rcv, cx>>

AppReset(s, code) ==
    /\ snd' = [snd EXCEPT ![s].rq = IF cx.cs[s] THEN @ \cup {code} ELSE @]
    /\ UNCHANGED <<rcv, cx>>

(* ------------------------------- E sends ---------------------------------- *)
(* STREAM frame (s, off, len, fin) in packet pn; dataok: payload = Pat(s, off..)             *)
SendStream(s, off, len, fin, pn, dataok) ==
    LET end == off + len
        nh  == Max2(snd[s].hi, end) IN
    /\ cx.cs[s] /\ ~cx.dead /\ off >= 0 /\ len >= 0
    \* (guards are written "(...) = TRUE" so that TLC evaluates them as state predicates)
    /\ (J("C20") => /\ end <= snd[s].win                             \* stream credit
                    /\ OHiSum - snd[s].hi + nh <= cx.omax) = TRUE    \* connection credit, new bytes only
    /\ (J("C32") => ~snd[s].rs) = TRUE                               \* nothing after RESET_STREAM
    /\ (J("C19") => /\ end <= snd[s].wr + Max2(snd[s].pend, 0)       \* only bytes the application wrote
                    /\ dataok
                    /\ fin => (snd[s].cl >= 0 /\ end = snd[s].cl)) = TRUE   \* FIN only at the declared end
    /\ snd' = [snd EXCEPT ![s].hi = nh, ![s].fs = @ \/ fin]
    /\ cx' = [cx EXCEPT !.sent = @ \cup {[pn |-> pn, k |-> "s", s |-> s, a |-> off, b |-> end, fin |-> fin]}]
    /\ UNCHANGED rcv

(* RESET_STREAM: final size = highest offset ever sent (C32); only when a reset was asked for *)
SendReset(s, final, code, pn) ==
    /\ cx.cs[s] /\ ~cx.dead
    /\ (J("C32") => final = snd[s].hi) = TRUE
    /\ (J("C19") => code \in snd[s].rq) = TRUE
    /\ snd' = [snd EXCEPT ![s].rs = TRUE]
    /\ cx' = [cx EXCEPT !.sent = @ \cup {[pn |-> pn, k |-> "r", s |-> s, a |-> 0, b |-> final, fin |-> FALSE]}]
    /\ UNCHANGED rcv

(* advertised limits never decrease (C20) *)
SendMaxSD(s, v) ==
    /\ cx.cr[s] /\ ~cx.dead
    /\ (J("C20") => v >= rcv[s].win) = TRUE
    /\ rcv' = [rcv EXCEPT ![s].win = Max2(@, v)]
    /\ UNCHANGED <<snd, cx>>

SendMaxData(v) ==
    /\ ~cx.dead
    /\ (J("C20") => v >= cx.imax) = TRUE
    /\ cx' = [cx EXCEPT !.imax = Max2(@, v)]
    /\ UNCHANGED <<snd, rcv>>

(* --------------------- frames of the peer, send half ---------------------- *)
(* gone: E no longer tracks the stream (both directions finished) and ignores the frame *)
PeerMaxSD(s, v, gone) ==
    /\ snd' = [snd EXCEPT ![s].win = IF gone \/ ~cx.cs[s] THEN @ ELSE Max2(@, v)]
    /\ UNCHANGED <<rcv, cx>>

PeerMaxData(v) ==
    /\ cx' = [cx EXCEPT !.omax = Max2(@, v)]
    /\ UNCHANGED <<snd, rcv>>

PeerStop(s, code, gone) ==
    /\ snd' = [snd EXCEPT ![s].rq = IF gone \/ ~cx.cs[s] THEN @ ELSE @ \cup {code}]
    /\ UNCHANGED <<rcv, cx>>

(* the peer acknowledges the packets whose numbers satisfy InR *)
PeerAck(InR(_)) ==
    LET A == {f \in cx.sent : InR(f.pn)} IN
    /\ snd' = [s \in Streams |->
                 [snd[s] EXCEPT !.ack = @ \cup {<<f.a, f.b>> : f \in {g \in A : g.s = s /\ g.k = "s" /\ g.b > g.a}},
                                !.fa  = @ \/ \E f \in A : f.s = s /\ f.k = "s" /\ f.fin,
                                !.ra  = @ \/ \E f \in A : f.s = s /\ f.k = "r"]]
    /\ cx' = [cx EXCEPT !.sent = @ \ A]
    /\ UNCHANGED rcv

(* -------------------- frames of the peer, receive half -------------------- *)
Judge(c) == IF c = "FLOW" THEN J("C20") ELSE J("C32")
(* outcome: "ok" or the error E closed the connection with.  must: violations E has to     *)
(* report (any one of them); may: violations E is allowed but not obliged to notice.       *)
OutcomeOK(mustAll, mayAll, outcome) ==
    LET must == {c \in mustAll : Judge(c)}
        may  == mayAll \cup {c \in mustAll : ~Judge(c)} IN
    IF must # {} THEN outcome \in must \cup may ELSE outcome \in {"ok"} \cup may

DieWith(d) == /\ cx' = [cx EXCEPT !.dead = TRUE, !.dev = @ \cup d] /\ UNCHANGED <<snd, rcv>>

(* Known findings on the pinned tree are modelled as NAMED DEVIATIONS so that the rest of a   *)
(* trace is still judged (cx.dev collects them; Flagged says which ones violate which          *)
(* property):                                                                                  *)
(*  UncountedAfterCloseRead / NoFlowErrorAfterCloseRead: once the application has closed      *)
(*    reading, E neither charges later STREAM bytes to its connection-level count nor checks  *)
(*    them against MAX_DATA (and never returns the credit: StallAfterCloseRead, see Quiesce). *)
(*  EndMovedByLateRead / SpuriousFinalSizeAfterLateRead: a Read issued after CloseRead or     *)
(*    after a RESET_STREAM arrived (rac) can move E's idea of the highest received offset;     *)
(*    a later RESET_STREAM or FIN - even a retransmission of the same one - is then charged     *)
(*    too little or refused with FINAL_SIZE_ERROR although it is consistent.                    *)

(* STREAM frame from the peer.  wb = E's connection-level byte count afterwards (white box, *)
(* -1 if not available).  RFC 9000 4.1 / 4.5.                                               *)
PeerStream(s, off, len, fin, gone, outcome, wb) ==
    LET end  == off + len
        r    == rcv[s]
        live == Live(s)
        nhi  == Max2(r.hi, end)
        c1   == Max2(r.cnt, IF r.fin >= 0 THEN r.cnt ELSE end)     \* charged if E counts the frame
        useC == ICntSum - r.cnt + c1
        vStream == end > r.win
        vConn   == useC > cx.imax
        vFinal  == \/ (r.fin >= 0 /\ end > r.fin)                  \* data beyond the final size
                   \/ (fin /\ r.fin >= 0 /\ end # r.fin)           \* final size changed
                   \/ (fin /\ end < r.hl)                          \* final size below data received
        sFinal  == \/ (fin /\ end < r.hi)
                   \/ (r.soft # {} /\ (end > Min(r.soft) \/ (fin /\ end \notin r.soft)))
        corrupt == r.rac /\ ~live /\ fin
        mustAll == (IF vStream \/ (live /\ vConn) THEN {"FLOW"} ELSE {}) \cup (IF vFinal THEN {"FINAL"} ELSE {})
        mayAll  == (IF ~live /\ (sFinal \/ corrupt) THEN {"FINAL"} ELSE {}) \cup (IF ~live /\ vConn THEN {"FLOW"} ELSE {})
        counted == live \/ c1 = r.cnt \/ wb = useC \/ wb = 0 - 2     \* -2: design model, E counts
        cnt2    == IF counted THEN c1 ELSE r.cnt
        devs    == (IF ~counted THEN {"UncountedAfterCloseRead"} ELSE {})
                   \cup (IF ~live /\ vConn THEN {"NoFlowErrorAfterCloseRead"} ELSE {})
        spurious == corrupt /\ outcome = "FINAL" /\ ~vFinal /\ ~sFinal
    IN
    /\ cx.cr[s] /\ ~cx.dead /\ off >= 0 /\ len >= 0
    /\ IF gone THEN outcome = "ok" /\ UNCHANGED <<snd, rcv, cx>>
       ELSE /\ OutcomeOK(mustAll, mayAll, outcome) = TRUE
            /\ IF outcome # "ok" THEN DieWith(IF spurious THEN {"SpuriousFinalSizeAfterLateRead"} ELSE {})
               ELSE /\ ((J("C20") /\ wb >= 0) => wb = ICntSum - r.cnt + cnt2) = TRUE
                    /\ rcv' = [rcv EXCEPT ![s] =
                         IF live
                         THEN [r EXCEPT !.hi = nhi, !.hl = Max2(@, end), !.cnt = cnt2,
                                        !.got = IF len > 0 THEN @ \cup {<<off, end>>} ELSE @,
                                        !.fin = IF fin THEN end ELSE @]
                         ELSE [r EXCEPT !.hi = nhi, !.cnt = cnt2,
                                        !.soft = IF fin /\ r.fin < 0 THEN @ \cup {end} ELSE @]]
                    /\ cx' = [cx EXCEPT !.dev = @ \cup devs]
                    /\ UNCHANGED snd

(* RESET_STREAM from the peer *)
PeerReset(s, final, code, gone, outcome, wb) ==
    LET r    == rcv[s]
        live == Live(s)
        c1   == IF r.fin >= 0 THEN r.cnt ELSE Max2(r.cnt, final)
        useC == ICntSum - r.cnt + c1
        vStream == final > r.win
        vConn   == useC > cx.imax
        vFinal  == (r.fin >= 0 /\ final # r.fin) \/ final < r.hl
        sFinal  == final < r.hi \/ (r.soft # {} /\ final \notin r.soft)
        corrupt == r.rac /\ ~live
        mustAll == (IF vStream \/ vConn THEN {"FLOW"} ELSE {}) \cup (IF vFinal THEN {"FINAL"} ELSE {})
        mayAll  == IF ~live /\ (sFinal \/ corrupt) THEN {"FINAL"} ELSE {}
        cntW    == wb - (ICntSum - r.cnt)                          \* what E charged according to the white box
        moved   == corrupt /\ r.rst < 0 /\ wb >= 0 /\ wb # useC /\ cntW >= 0
        c2      == IF moved THEN cntW ELSE c1
        spurious == corrupt /\ outcome = "FINAL" /\ ~vFinal /\ ~sFinal
    IN
    /\ cx.cr[s] /\ ~cx.dead /\ final >= 0
    /\ IF gone THEN outcome = "ok" /\ UNCHANGED <<snd, rcv, cx>>
       ELSE /\ OutcomeOK(mustAll, mayAll, outcome) = TRUE
            /\ IF outcome # "ok" THEN DieWith(IF spurious THEN {"SpuriousFinalSizeAfterLateRead"} ELSE {})
               ELSE /\ IF r.rst >= 0 THEN UNCHANGED rcv
                       ELSE rcv' = [rcv EXCEPT ![s] = [r EXCEPT !.hi = Max2(@, final), !.hl = Max2(@, final),
                                                               !.cnt = c2, !.fin = final, !.rst = code]]
                    /\ ((J("C20") /\ wb >= 0) => wb = (IF r.rst >= 0 THEN ICntSum ELSE ICntSum - r.cnt + c2)) = TRUE
                    /\ cx' = [cx EXCEPT !.dev = @ \cup (IF moved THEN {"EndMovedByLateRead"} ELSE {})]
                    /\ UNCHANGED snd

(* ----------------------- application, receive side ------------------------ *)
(* Read(max mx) returned n bytes with result res; b0/b1 = first/last byte, cont = the      *)
(* bytes follow the pattern's successor relation.                                          *)
ReadOK(s, mx, n, res, b0, b1, cont, code) ==
    LET r      == rcv[s]
        avail  == Contig(r.got, r.rd) - r.rd
        dataok == /\ n >= 1 /\ n <= mx /\ n <= avail
                  /\ b0 = PPat(s, r.rd) /\ b1 = PPat(s, r.rd + n - 1) /\ cont
    IN
    CASE res = "ok"     -> J("C19") => dataok
      [] res = "eof"    -> /\ J("C19") => ((n = 0 \/ dataok) /\ r.fin >= 0 /\ r.rd + n = r.fin)
                           /\ J("C32") => r.rst < 0                    \* a reset stream never reads EOF
      [] res = "reset"  -> n = 0 /\ ((J("C32") \/ J("C19")) => (r.rst >= 0 /\ code = r.rst))
      [] res = "closed" -> n = 0 /\ r.cr
      [] res = "block"  -> /\ n = 0                                    \* nothing deliverable (liveness as safety)
                           /\ J("C19") => (avail = 0 /\ r.fin # r.rd /\ ~r.cr)
                           /\ (J("C19") \/ J("C32")) => r.rst < 0
      [] OTHER          -> FALSE
(* Known finding F14 (named deviation): after CloseRead a Read can still return bytes from the  *)
(* stale lock-free buffer, whose memory has been recycled - not the data of this stream.        *)
AppRead(s, mx, n, res, b0, b1, cont, code) ==
    LET good  == ReadOK(s, mx, n, res, b0, b1, cont, code)        \* evaluated as a state predicate
        stale == rcv[s].cr /\ res = "ok" /\ n >= 1 /\ n <= mx
    IN
    /\ cx.cr[s] /\ n >= 0
    /\ (good \/ stale) = TRUE
    /\ rcv' = [rcv EXCEPT ![s].rd = @ + n, ![s].eof = @ \/ res = "eof", ![s].rac = @ \/ ~Live(s)]
    /\ cx' = [cx EXCEPT !.dev = IF good THEN @ ELSE @ \cup {"StaleBufferReadAfterCloseRead"}]
    /\ UNCHANGED snd

AppCloseRead(s) ==
    /\ rcv' = [rcv EXCEPT ![s].cr = @ \/ cx.cr[s]]
    /\ UNCHANGED <<snd, cx>>

(* E closed the connection although no rule required it *)
ConnDead == cx' = [cx EXCEPT !.dead = TRUE] /\ UNCHANGED <<snd, rcv>>

-----------------------------------------------------------------------------
(* Quiescent point: E has nothing more to do on its own.  ccok = congestion control and   *)
(* pacing do not hold E back (white box).                                                  *)
SendLive(s) ==      \* flushed bytes go out as far as both credits allow; the FIN needs no credit
    (cx.cs[s] /\ snd[s].rq = {}) =>
        /\ snd[s].hi >= Min2(snd[s].flush, snd[s].win) \/ OHiSum >= cx.omax
        /\ (snd[s].cl >= 0 /\ snd[s].hi >= snd[s].cl) => snd[s].fs
ResetLive(s) ==     \* a requested reset is on the wire unless the stream had completed
    (cx.cs[s] /\ snd[s].rq # {} /\ ~AllAcked(s)) => snd[s].rs
RecvLiveConn ==     \* the peer is never left without connection credit while E holds nothing unread
    TotalUnread = 0 => cx.imax > IHiSum
RecvLiveStream ==   \* nor without stream credit when the application has read everything
    \A s \in Streams : (cx.cr[s] /\ Live(s) /\ rcv[s].fin < 0 /\ rcv[s].hi = rcv[s].rd) => rcv[s].win > rcv[s].hi

(* With the known finding above the bytes E did not charge are never given back as MAX_DATA  *)
(* credit: the stall that follows is recorded as a named deviation instead of ending the trace *)
Quiesce(ccok) ==
    LET judged == ~cx.dead /\ ccok
        leaky  == "UncountedAfterCloseRead" \in cx.dev IN
    \* (= TRUE: evaluate as state predicates; TLC would otherwise split the disjunctions into successors)
    /\ ((judged /\ (J("C19") \/ J("C20"))) => \A s \in Streams : SendLive(s)) = TRUE
    /\ ((judged /\ J("C32")) => \A s \in Streams : ResetLive(s)) = TRUE
    /\ ((judged /\ J("C19")) => (RecvLiveStream /\ (~leaky => RecvLiveConn))) = TRUE
    /\ cx' = [cx EXCEPT !.dev = IF judged /\ J("C19") /\ leaky /\ ~RecvLiveConn THEN @ \cup {"StallAfterCloseRead"} ELSE @]
    /\ UNCHANGED <<snd, rcv>>

(* Final quiescence: the peer has opened all windows, acknowledged every packet and let    *)
(* every timer fire until E fell silent.  Everything written and flushed is on the wire    *)
(* and acknowledged, closed streams are complete, requested resets delivered.              *)
FinalOK ==
    ~cx.dead =>
        \A s \in Streams : cx.cs[s] =>
            /\ snd[s].pend < 0 /\ ~snd[s].cp
            /\ (J("C19") /\ snd[s].rq = {}) =>
                  /\ snd[s].hi >= snd[s].flush /\ Covered(snd[s].ack, snd[s].flush)
                  /\ snd[s].cl >= 0 => (snd[s].hi = snd[s].cl /\ snd[s].fs /\ AllAcked(s))
            /\ (J("C32") /\ snd[s].rq # {}) => ((snd[s].rs /\ snd[s].ra) \/ AllAcked(s))

(* deviations that are violations of the property being judged *)
Flagged == (IF J("C20") THEN {"NoFlowErrorAfterCloseRead", "EndMovedByLateRead"} ELSE {})
           \cup (IF J("C32") THEN {"SpuriousFinalSizeAfterLateRead"} ELSE {})
           \cup (IF J("C19") THEN {"StallAfterCloseRead", "StaleBufferReadAfterCloseRead"} ELSE {})

-----------------------------------------------------------------------------
(* Design model (model stage).  E's send half talks to a copy of E's receive half over a  *)
(* network that loses, duplicates and reorders packets in both directions.  The sender is  *)
(* the most general one the rules above allow (any STREAM frame within flushed data and    *)
(* both credits, any retransmission), the receiver reports exactly the errors it must.     *)
(* net.f / net.b: packets in flight forward (STREAM, RESET_STREAM) and backward (ACK "a",  *)
(* MAX_STREAM_DATA "m", MAX_DATA "M", STOP_SENDING "x"); n, m: packets sent so far;        *)
(* d: duplicates made.                                                                     *)
Init ==
    /\ InitWith([s \in Streams |-> TRUE], [s \in Streams |-> TRUE], [s \in Streams |-> MCwin],
                [s \in Streams |-> MCwin], MCcw, MCcw)
    /\ net = [f |-> {}, b |-> {}, n |-> 0, m |-> 0, d |-> 0]

MWrite(s) ==                       \* Write + Flush of one byte
    /\ snd[s].wr < MCoff /\ snd[s].cl < 0 /\ snd[s].rq = {}
    /\ snd' = [snd EXCEPT ![s].wr = @ + 1, ![s].flush = @ + 1]
    /\ UNCHANGED <<rcv, cx, net>>
MCloseWrite(s) == snd[s].cl < 0 /\ AppCloseWrite(s) /\ UNCHANGED net
MReset(s) == snd[s].rq = {} /\ ~AllAcked(s) /\ AppReset(s, 1) /\ UNCHANGED net

Useful(s, off, end, fin) ==     \* carries something the peer has not acknowledged yet
    (fin /\ ~snd[s].fa) \/ \E o \in off..(end - 1) : ~\E r \in snd[s].ack : r[1] <= o /\ o < r[2]
MSendStream(s, off, len, fin) ==
    /\ net.n < MCpk /\ snd[s].rq = {}
    /\ off + len <= snd[s].flush /\ Useful(s, off, off + len, fin)
    /\ SendStream(s, off, len, fin, net.n, TRUE)
    /\ net' = [net EXCEPT !.f = @ \cup {[pn |-> net.n, k |-> "s", s |-> s, a |-> off, b |-> off + len, fin |-> fin]},
                          !.n = @ + 1]
MSendReset(s) ==
    /\ net.n < MCpk /\ snd[s].rq # {} /\ ~snd[s].ra /\ ~AllAcked(s)
    /\ SendReset(s, snd[s].hi, 1, net.n)
    /\ net' = [net EXCEPT !.f = @ \cup {[pn |-> net.n, k |-> "r", s |-> s, a |-> 0, b |-> snd[s].hi, fin |-> FALSE]},
                          !.n = @ + 1]

Back(p) == IF net.m < MCbk THEN [net EXCEPT !.b = @ \cup {p}, !.m = @ + 1] ELSE net
(* delivery of a forward packet (keep: the network also keeps a copy = duplication); the   *)
(* receiver acknowledges it                                                                *)
MDeliverF(p, keep) ==
    /\ p \in net.f /\ (keep => net.d < MCdup)
    /\ \E outcome \in {"ok", "FLOW", "FINAL"} :
          IF p.k = "s" THEN PeerStream(p.s, p.a, p.b - p.a, p.fin, FALSE, outcome, 0 - 2)
                      ELSE PeerReset(p.s, p.b, 1, FALSE, outcome, 0 - 1)
    /\ cx'.dev = {}
    /\ net' = [(IF MCack THEN Back([k |-> "a", s |-> 0, v |-> p.pn]) ELSE net)
                   EXCEPT !.f = IF keep THEN @ ELSE @ \ {p}, !.d = IF keep THEN @ + 1 ELSE @]
MDropF(p) == p \in net.f /\ net' = [net EXCEPT !.f = @ \ {p}] /\ UNCHANGED <<snd, rcv, cx>>

MRead(s) ==
    LET r == rcv[s]
        avail == Contig(r.got, r.rd) - r.rd IN
    /\ IF avail > 0 THEN AppRead(s, 1, 1, "ok", PPat(s, r.rd), PPat(s, r.rd), TRUE, 0 - 1)
       ELSE /\ r.fin = r.rd /\ Live(s) /\ ~r.eof
            /\ AppRead(s, 1, 0, "eof", 0, 0, TRUE, 0 - 1)
    /\ UNCHANGED net
MCloseRead(s) ==
    /\ ~rcv[s].cr /\ net.m < MCbk
    /\ AppCloseRead(s)
    /\ net' = Back([k |-> "x", s |-> s, v |-> 0])
Consumed == FoldSet(LAMBDA s, acc : (IF Live(s) THEN rcv[s].rd ELSE rcv[s].hi) + acc, 0, Streams)
MSendMaxSD(s) ==
    LET v == rcv[s].rd + MCwin IN
    /\ net.m < MCbk /\ Live(s) /\ rcv[s].fin < 0 /\ v > rcv[s].win
    /\ SendMaxSD(s, v)
    /\ net' = Back([k |-> "m", s |-> s, v |-> v])
MSendMaxData ==
    LET v == Consumed + MCcw IN
    /\ net.m < MCbk /\ v > cx.imax
    /\ SendMaxData(v)
    /\ net' = Back([k |-> "M", s |-> 0, v |-> v])

MDeliverB(p, keep) ==
    /\ p \in net.b /\ (keep => net.d < MCdup)
    /\ CASE p.k = "a" -> PeerAck(LAMBDA pn : pn = p.v)
         [] p.k = "m" -> PeerMaxSD(p.s, p.v, FALSE)
         [] p.k = "M" -> PeerMaxData(p.v)
         [] OTHER     -> PeerStop(p.s, 1, FALSE)
    /\ net' = [net EXCEPT !.b = IF keep THEN @ ELSE @ \ {p}, !.d = IF keep THEN @ + 1 ELSE @]
MDropB(p) == p \in net.b /\ net' = [net EXCEPT !.b = @ \ {p}] /\ UNCHANGED <<snd, rcv, cx>>

Next ==
    \/ \E s \in Streams : MWrite(s) \/ MCloseWrite(s) \/ MReset(s) \/ MSendReset(s)
                           \/ MRead(s) \/ MCloseRead(s) \/ MSendMaxSD(s)
    \/ \E s \in Streams, off \in 0..MCoff, len \in 0..MCoff, fin \in BOOLEAN :
          off + len <= MCoff /\ (len > 0 \/ fin) /\ MSendStream(s, off, len, fin)
    \/ MSendMaxData
    \/ \E p \in net.f, keep \in BOOLEAN : MDeliverF(p, keep)
    \/ \E p \in net.f : MDropF(p)
    \/ \E p \in net.b, keep \in BOOLEAN : MDeliverB(p, keep)
    \/ \E p \in net.b : MDropB(p)

Spec == Init /\ [][Next]_vars
(* without acknowledgements the record of what is in flight unacknowledged is history only *)
ViewNoAck == <<snd, rcv, [cx EXCEPT !.sent = {}], net>>
StreamSym == Permutations(Streams)

(* C20: what the sender has used never exceeds what the receiver advertised, whatever the  *)
(* network does to the MAX_* frames; a compliant sender never draws a FLOW_CONTROL_ERROR    *)
CreditRespected ==
    /\ ~cx.dead
    /\ \A s \in Streams : /\ snd[s].hi <= snd[s].win /\ snd[s].win <= rcv[s].win
                           /\ rcv[s].hi <= snd[s].hi /\ rcv[s].hi <= rcv[s].win
    /\ OHiSum <= cx.omax /\ cx.omax <= cx.imax /\ IHiSum <= cx.imax /\ ICntSum = IHiSum
(* C19: what can be read is a prefix of what was written; EOF only at the declared end;    *)
(* everything acknowledged has really arrived                                              *)
ReadPrefix ==
    \A s \in Streams :
       /\ rcv[s].rd <= snd[s].wr /\ rcv[s].rd <= Contig(rcv[s].got, 0)
       /\ \A r \in rcv[s].got : r[2] <= snd[s].hi
       /\ rcv[s].eof => (snd[s].cl >= 0 /\ rcv[s].rd = snd[s].cl)
       /\ (AllAcked(s) /\ Live(s)) => (rcv[s].fin = snd[s].cl /\ Covered(rcv[s].got, snd[s].cl))
(* C32: every final size in flight or known is the one the sender's history implies        *)
FinalSizeConsistent ==
    /\ ~cx.dead
    /\ \A s \in Streams :
          rcv[s].fin >= 0 => /\ rcv[s].hi <= rcv[s].fin
                             /\ (rcv[s].rst < 0 => rcv[s].fin = snd[s].cl)
                             /\ (rcv[s].rst >= 0 => rcv[s].fin = snd[s].hi)
    /\ \A p \in net.f : (p.k = "r" => p.b = snd[p.s].hi) /\ ((p.k = "s" /\ p.fin) => p.b = snd[p.s].cl)
NoStreamAfterReset ==
    [][\A s \in Streams : snd[s].rs => {p \in net'.f : p.s = s /\ p.k = "s"} \subseteq net.f]_vars
AdvertisedMonotone ==
    [][cx'.imax >= cx.imax /\ \A s \in Streams : rcv'[s].win >= rcv[s].win]_vars
=============================================================================
