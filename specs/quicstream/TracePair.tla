----------------------------- MODULE TracePair -----------------------------
(* C19 end to end.  Two real quic Endpoints joined by an in-memory datagram network that  *)
(* drops, duplicates and reorders datagrams for a while (TestVerifQuicStreamPair).  The    *)
(* driver is the application on both sides; a "channel" is one direction of one stream.    *)
(* Judged, per channel c:                                                                  *)
(*   - every Read returns exactly the next bytes that were written (position-dependent     *)
(*     pattern: offset and content), never more than was written;                           *)
(*   - EOF only after the writer closed and every byte was read;                            *)
(*   - when Close returned nil ("seal": the driver reads the channel dry before another     *)
(*     datagram is delivered) the peer already holds everything up to EOF;                  *)
(*   - once the faults have ended and the network and the clock have run ("final"), every   *)
(*     channel has been read to EOF and no call is still blocked.                           *)
EXTENDS Integers, Sequences, TLC, TraceIO

CONSTANT MaxCh
VARIABLES cur, l, ch, nd
tvars == <<cur, l, ch, nd>>
Chans == 1..MaxCh

Line == Trace[l]
Pat(c, o) == ((o % 251) * 7 + c * 13) % 251
Max2(a, b) == IF a > b THEN a ELSE b

Ch0 == [wr |-> 0, pend |-> 0 - 1, cl |-> 0 - 1, cp |-> FALSE, rd |-> 0, eof |-> FALSE]

TInit ==
    \E t \in 1..NT :
       /\ cur = t /\ l = Meta.starts[t] + 1
       /\ Trace[Meta.starts[t]].e = "hdr"
       /\ ch = [c \in Chans |-> Ch0] /\ nd = {}

InC(c) == c \in Chans
TWCall == /\ Line.e = "w_call" /\ InC(Line.c) /\ ch[Line.c].pend < 0 /\ Line.n >= 0
          /\ ch' = [ch EXCEPT ![Line.c].pend = Line.n]
(* a nil error means everything was taken; after an error the rest of the trace is not C19's business *)
TWRet  == /\ Line.e = "w_ret" /\ InC(Line.c) /\ ch[Line.c].pend >= 0
          /\ Line.n >= 0 /\ Line.n <= ch[Line.c].pend
          /\ Line.err = "" /\ Line.n = ch[Line.c].pend
          /\ ch' = [ch EXCEPT ![Line.c].pend = 0 - 1, ![Line.c].wr = @ + Line.n]
TWFlush == Line.e = "w_flush" /\ InC(Line.c) /\ Line.ok /\ UNCHANGED ch
TWCW   == /\ Line.e = "w_cw" /\ InC(Line.c) /\ ch[Line.c].pend < 0
          /\ ch' = [ch EXCEPT ![Line.c].cl = IF @ < 0 THEN ch[Line.c].wr ELSE @]
TWCCall == /\ Line.e = "w_ccall" /\ InC(Line.c) /\ ch[Line.c].pend < 0 /\ ~ch[Line.c].cp
           /\ ch' = [ch EXCEPT ![Line.c].cl = IF @ < 0 THEN ch[Line.c].wr ELSE @, ![Line.c].cp = TRUE]
(* nothing resets a stream in these scripts: Close has to succeed *)
TWCRet == /\ Line.e = "w_cret" /\ InC(Line.c) /\ ch[Line.c].cp /\ Line.err = ""
          /\ ch' = [ch EXCEPT ![Line.c].cp = FALSE]
ReadOK(c) ==
    LET r == ch[c]
        dataok == /\ Line.n >= 1 /\ Line.n <= Line.max
                  /\ r.rd + Line.n <= r.wr + Max2(r.pend, 0)
                  /\ Line.b0 = Pat(c, r.rd) /\ Line.b1 = Pat(c, r.rd + Line.n - 1) /\ Line.cont
    IN CASE Line.res = "ok"  -> dataok /\ ~r.eof
         [] Line.res = "eof" -> (Line.n = 0 \/ dataok) /\ r.cl >= 0 /\ r.rd + Line.n = r.cl
         [] OTHER            -> FALSE
TRead == /\ Line.e = "r_read" /\ InC(Line.c)
         /\ ReadOK(Line.c) = TRUE
         /\ ch' = [ch EXCEPT ![Line.c].rd = @ + Line.n, ![Line.c].eof = @ \/ Line.res = "eof"]
(* Close returned nil and the channel was then read without any further delivery *)
TSeal == /\ Line.e = "seal" /\ InC(Line.c)
         /\ ch[Line.c].eof /\ ch[Line.c].rd = ch[Line.c].cl
         /\ UNCHANGED ch
FinalOK == /\ Line.pending = 0
           /\ \A c \in Chans : c <= Trace[Meta.starts[cur]].nch =>
                 (ch[c].cl >= 0 /\ ch[c].eof /\ ch[c].rd = ch[c].wr /\ ch[c].pend < 0 /\ ~ch[c].cp)
(* Known finding F15 (named deviation, reported through NoNewDeviation): both conns are in the   *)
(* middle of a 1-RTT key update and one of them can no longer authenticate the other's packets    *)
(* (white box: keys[i] = <<updating, authentication failures>>): nothing can ever be delivered.   *)
KeyUpdateDeadlock ==
    /\ Len(Line.keys) = 2
    /\ Line.keys[1][1] = 1 /\ Line.keys[2][1] = 1
    /\ (Line.keys[1][2] > 0 \/ Line.keys[2][2] > 0)
TFinal == /\ Line.e = "final"
          /\ IF FinalOK THEN nd' = {}
             ELSE KeyUpdateDeadlock /\ nd' = {"KeyUpdateDeadlock"}
          /\ UNCHANGED ch

TNext ==
    /\ l <= Meta.ends[cur]
    /\ l' = l + 1 /\ cur' = cur
    /\ \/ (TWCall \/ TWRet \/ TWFlush \/ TWCW \/ TWCCall \/ TWCRet \/ TRead \/ TSeal) /\ nd' = {}
       \/ TFinal

TSpec == TInit /\ [][TNext]_tvars
Mark == HighWater(cur, l)
NoNewDeviation == nd = {}
=============================================================================
