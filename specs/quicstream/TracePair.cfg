SPECIFICATION TSpec
CONSTANTS
  MaxCh = 6
CONSTRAINT Mark
POSTCONDITION AllConsumed
CHECK_DEADLOCK FALSE
