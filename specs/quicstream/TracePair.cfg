SPECIFICATION TSpec
CONSTANTS
  MaxCh = 6
INVARIANTS NoNewDeviation
CONSTRAINT Mark
POSTCONDITION AllConsumed
CHECK_DEADLOCK FALSE
