------------------------------- MODULE Trace -------------------------------
(* Trace validation of QUIC streams and flow control (C19, C20, C32).  One trace = one    *)
(* real quic.Conn driven by the package's scripted test peer (newTestConn) inside a       *)
(* synctest bubble (drivers/quic/zz_verif_quicstream_test.go).  After every command the   *)
(* driver steps the conn to quiescence and logs, in this order: the command (peer frames  *)
(* with the outcome seen on the wire), every STREAM / RESET_STREAM / MAX_STREAM_DATA /     *)
(* MAX_DATA frame the conn sent (with its packet number), application calls that          *)
(* returned, and a "q" line (calls still blocked, congestion state and a few white-box     *)
(* reads).  All accounting is recomputed here from the logged frames.                      *)
EXTENDS QuicStream, TraceIO

VARIABLES cur, l, nd
tvars == <<vars, cur, l, nd>>

Line == Trace[l]
InS(s) == s \in Streams

Kind(h, s) == IF s <= Len(h.kinds) THEN h.kinds[s] ELSE "none"
CanSend(k) == k \in {"lb", "lu", "rb"}
CanRecv(k) == k \in {"lb", "rb", "ru"}
(* RFC 9000 18.2: which initial_max_stream_data_* parameter governs which stream.  pp are *)
(* the peer's transport parameters (limits on what E sends), sp the ones E sent.          *)
OWin0(h, k) == CASE k = "lb" -> h.pp.br [] k = "lu" -> h.pp.u [] k = "rb" -> h.pp.bl [] OTHER -> 0
IWin0(h, k) == CASE k = "lb" -> h.sp.bl [] k = "rb" -> h.sp.br [] k = "ru" -> h.sp.u [] OTHER -> 0

TInit ==
    \E t \in 1..NT :
       LET h == Trace[Meta.starts[t]] IN
       /\ cur = t /\ l = Meta.starts[t] + 1
       /\ h.e = "hdr"
       /\ InitWith([s \in Streams |-> CanSend(Kind(h, s))], [s \in Streams |-> CanRecv(Kind(h, s))],
                   [s \in Streams |-> OWin0(h, Kind(h, s))], [s \in Streams |-> IWin0(h, Kind(h, s))],
                   h.pp.md, h.sp.md)
       /\ net = <<>> /\ nd = {}

TWCall == Line.e = "a_wcall" /\ InS(Line.s) /\ AppWriteCall(Line.s, Line.n)
TWRet  == Line.e = "a_wret" /\ InS(Line.s) /\ AppWriteRet(Line.s, Line.n, Line.err = "")
TFlush == Line.e = "a_flush" /\ InS(Line.s) /\ AppFlush(Line.s, Line.ok)
TCW    == Line.e = "a_cw" /\ InS(Line.s) /\ AppCloseWrite(Line.s)
TCCall == Line.e = "a_ccall" /\ InS(Line.s) /\ AppCloseCall(Line.s)
TCRet  == Line.e = "a_cret" /\ InS(Line.s) /\ AppCloseRet(Line.s, Line.res)
TReset == Line.e = "a_reset" /\ InS(Line.s) /\ AppReset(Line.s, Line.code)
TRead  == Line.e = "a_read" /\ InS(Line.s)
          /\ AppRead(Line.s, Line.max, Line.n, Line.res, Line.b0, Line.b1, Line.cont, Line.code)
TCR    == Line.e = "a_cr" /\ InS(Line.s) /\ AppCloseRead(Line.s)

TPStream == Line.e = "p_stream" /\ InS(Line.s)
            /\ PeerStream(Line.s, Line.off, Line.len, Line.fin, Line.gone, Line.outcome, Line.iused)
TPReset  == Line.e = "p_reset" /\ InS(Line.s)
            /\ PeerReset(Line.s, Line.final, Line.code, Line.gone, Line.outcome, Line.iused)
TPStop   == Line.e = "p_stop" /\ InS(Line.s) /\ Line.outcome = "ok" /\ PeerStop(Line.s, Line.code, Line.gone)
TPMaxSD  == Line.e = "p_maxsd" /\ InS(Line.s) /\ Line.outcome = "ok" /\ PeerMaxSD(Line.s, Line.v, Line.gone)
TPMaxData == Line.e = "p_maxdata" /\ Line.outcome = "ok" /\ PeerMaxData(Line.v)
InRanges(pn) == \E i \in 1..Len(Line.rs) : Line.rs[i][1] <= pn /\ pn < Line.rs[i][2]
TPAck    == Line.e = "p_ack" /\ Line.outcome = "ok" /\ PeerAck(InRanges)
(* the driver let the conn's loss / PTO timer fire *)
TTick    == Line.e = "tick" /\ UNCHANGED vars

DataOK(s, off, len) == len = 0 \/ (Line.b0 = Pat(s, off) /\ Line.b1 = Pat(s, off + len - 1) /\ Line.cont)
TEStream == Line.e = "e_stream" /\ InS(Line.s)
            /\ SendStream(Line.s, Line.off, Line.len, Line.fin, Line.pn, DataOK(Line.s, Line.off, Line.len))
TEReset  == Line.e = "e_reset" /\ InS(Line.s) /\ SendReset(Line.s, Line.final, Line.code, Line.pn)
TEMaxSD  == Line.e = "e_maxsd" /\ InS(Line.s) /\ SendMaxSD(Line.s, Line.v)
TEMaxData == Line.e = "e_maxdata" /\ SendMaxData(Line.v)

BlockedOK(b) ==
    \A i \in 1..Len(b) :
       /\ InS(b[i][2])
       /\ b[i][1] = "write" => snd[b[i][2]].pend >= 0
       /\ b[i][1] = "close" => snd[b[i][2]].cp
(* white box: the conn's own counters are exactly the ones recomputed from the frames *)
WhiteBoxOK(wb) ==
    (J("C20") /\ wb.ok /\ ~cx.dead) =>
        /\ wb.used = OHiSum /\ wb.omax = cx.omax
        /\ wb.iused = ICntSum /\ wb.ilim = cx.imax
        /\ \A i \in 1..Len(wb.st) :
              LET s == wb.st[i][1] IN
              InS(s) /\ (cx.cs[s] => (wb.st[i][2] = snd[s].hi /\ wb.st[i][3] = snd[s].win))
                     /\ (cx.cr[s] => wb.st[i][4] = rcv[s].win)
TQ == /\ Line.e = "q"
      /\ BlockedOK(Line.blocked) = TRUE
      /\ Quiesce(Line.cc = "ok")
      /\ WhiteBoxOK(Line.wb) = TRUE
TFinal == /\ Line.e = "final"
          /\ Len(Line.blocked) = 0
          /\ FinalOK = TRUE
          /\ UNCHANGED vars

TNext ==
    /\ l <= Meta.ends[cur]
    /\ l' = l + 1 /\ cur' = cur /\ net' = net
    /\ \/ TWCall \/ TWRet \/ TFlush \/ TCW \/ TCCall \/ TCRet \/ TReset \/ TRead \/ TCR
       \/ TPStream \/ TPReset \/ TPStop \/ TPMaxSD \/ TPMaxData \/ TPAck \/ TTick
       \/ TEStream \/ TEReset \/ TEMaxSD \/ TEMaxData \/ TQ \/ TFinal
    /\ nd' = cx'.dev \ cx.dev          \* deviations taken by this very step (reported once)

TSpec == TInit /\ [][TNext]_tvars
Mark == HighWater(cur, l)
NoNewDeviation == nd \cap Flagged = {}
=============================================================================
