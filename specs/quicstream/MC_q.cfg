SPECIFICATION Spec
CONSTANTS
  Streams = {1, 2}
  Enforce = {"C19", "C20", "C32"}
  MCoff = 1
  MCwin = 1
  MCcw = 1
  MCpk = 1
  MCbk = 1
  MCdup = 1
  MCack = FALSE
INVARIANTS CreditRespected ReadPrefix FinalSizeConsistent
PROPERTIES NoStreamAfterReset AdvertisedMonotone
CHECK_DEADLOCK FALSE
VIEW ViewNoAck
