SPECIFICATION Spec
CONSTANTS
  Static <- StaticSmall
  Names = {":m", "x"}
  Values = {"G", "vv"}
  Sizes = {0, 36, 71}
  InitMax = 71
  MaxWrites = 3
  MaxBlocks = 1
  MaxChanges = 2
  CfgKinds = {"max", "limit"}
  MaxLag = 1
INVARIANTS TypeOK RoundTrip NoDecodeError LockStep SizeInv NoSensitiveEntry CodeRefines
PROPERTIES SensitiveWrite SensitiveRead PlainRead
CHECK_DEADLOCK FALSE
