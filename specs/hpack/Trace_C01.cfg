SPECIFICATION TSpec
CONSTANTS
  Static <- StaticRFC
  Names = {}
  Values = {}
  Sizes = {}
  InitMax = 0
  MaxWrites = 0
  MaxBlocks = 0
  MaxChanges = 0
  CfgKinds = {}
  MaxLag = 0
INVARIANTS RoundTrip NoDecodeError LockStep SizeInv NoSensitiveEntry
CONSTRAINT Mark
POSTCONDITION AllConsumed
CHECK_DEADLOCK FALSE
