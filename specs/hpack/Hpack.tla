------------------------------- MODULE Hpack -------------------------------
(***************************************************************************)
(* HPACK table-level protocol (RFC 7541 sections 2.3, 3, 4, 6) between one  *)
(* encoder and one decoder: C01 (round trip, tables in lock-step) and C05  *)
(* (sensitive fields are never indexed).                                   *)
(*                                                                         *)
(* Names and values are strings; the size of an entry is                   *)
(* Len(name) + Len(value) + 32, so the very same operators judge the small *)
(* alphabets of the exhaustive configs and the real header fields of the   *)
(* recorded traces.  The wire is the sequence of *representations* written *)
(* by the encoder and not yet read by the decoder (byte-level encoding is  *)
(* the business of the hpackwire family).                                  *)
(*                                                                         *)
(* The encoder is specified by its CONTRACT (EncWrite: any representation  *)
(* that decodes to the field against the current table, a sensitive field  *)
(* only as a never-indexed literal).  The choice golang/net makes today    *)
(* (CodeRepr: static table first, ...) is a refinement, checked by TLC     *)
(* (CodeRefines) and used only to generate scenarios.                      *)
(***************************************************************************)
EXTENDS Integers, Sequences, FiniteSets, TLC

CONSTANTS
    Static,        \* static table: sequence of <<name, value>>
    Names, Values, \* field alphabet of the exhaustive / generator configs (strings)
    Sizes,         \* table sizes used by the size-change actions
    InitMax,       \* initial maximum size of both dynamic tables (4096 in the package)
    MaxWrites, MaxBlocks, MaxChanges,   \* bounds of the exhaustive configs
    MaxLag,        \* ... and how many written fields the decoder may lag behind
    CfgKinds       \* ... and which size-change actions are explored: subset of {"max", "limit", "allowed"}

VARIABLES
    enc,     \* [tab, max, limit, min, rmin, pend]  encoder: table (newest first), size
             \*   bounds and the pending "dynamic table size update"
    dec,     \* [tab, max, allowed]                 decoder
    wire,    \* representations written and not yet decoded
    pendf,   \* fields written whose decoded counterpart has not been emitted yet
    first,   \* decoder: no field representation decoded yet in this header block
    inblk,   \* encoder: at least one field written in the current header block
    bad,     \* ghost: the decoder emitted something else than the next written field
    derr,    \* ghost: the decoder rejected a representation
    quirk,   \* ghost: the encoder signalled other size updates than RFC 7541 prescribes
             \*   (allowed by UpdsOK; the decoder may then hold more than the encoder)
    plain,   \* ghost: <<name, value>> pairs ever written as a non-sensitive field
    cnt      \* [w, b, c] counters bounding the exhaustive configs

vars == <<enc, dec, wire, pendf, first, inblk, bad, derr, quirk, plain, cnt>>

NoMin == 2147483647                 \* "no minimum recorded" (uint32Max in the code)
NS    == Len(Static)
Min2(a, b) == IF a < b THEN a ELSE b

(* The static table of RFC 7541 Appendix A (written from the RFC). *)
StaticRFC == <<
  <<":authority", "">>, <<":method", "GET">>, <<":method", "POST">>, <<":path", "/">>,
  <<":path", "/index.html">>, <<":scheme", "http">>, <<":scheme", "https">>,
  <<":status", "200">>, <<":status", "204">>, <<":status", "206">>, <<":status", "304">>,
  <<":status", "400">>, <<":status", "404">>, <<":status", "500">>,
  <<"accept-charset", "">>, <<"accept-encoding", "gzip, deflate">>, <<"accept-language", "">>,
  <<"accept-ranges", "">>, <<"accept", "">>, <<"access-control-allow-origin", "">>,
  <<"age", "">>, <<"allow", "">>, <<"authorization", "">>, <<"cache-control", "">>,
  <<"content-disposition", "">>, <<"content-encoding", "">>, <<"content-language", "">>,
  <<"content-length", "">>, <<"content-location", "">>, <<"content-range", "">>,
  <<"content-type", "">>, <<"cookie", "">>, <<"date", "">>, <<"etag", "">>, <<"expect", "">>,
  <<"expires", "">>, <<"from", "">>, <<"host", "">>, <<"if-match", "">>,
  <<"if-modified-since", "">>, <<"if-none-match", "">>, <<"if-range", "">>,
  <<"if-unmodified-since", "">>, <<"last-modified", "">>, <<"link", "">>, <<"location", "">>,
  <<"max-forwards", "">>, <<"proxy-authenticate", "">>, <<"proxy-authorization", "">>,
  <<"range", "">>, <<"referer", "">>, <<"refresh", "">>, <<"retry-after", "">>,
  <<"server", "">>, <<"set-cookie", "">>, <<"strict-transport-security", "">>,
  <<"transfer-encoding", "">>, <<"user-agent", "">>, <<"vary", "">>, <<"via", "">>,
  <<"www-authenticate", "">> >>

(* Abstract static table of the exhaustive configs: an exact match for (":m","G"), *)
(* a name-only match for (":m", other) and ("ck", non-empty), a miss for "x".      *)
StaticSmall == << <<":m", "G">>, <<":m", "P">>, <<"ck", "">> >>

-----------------------------------------------------------------------------
(* Dynamic tables: sequences of <<name, value>>, newest first (HPACK index order). *)

ESize(e) == Len(e[1]) + Len(e[2]) + 32          \* RFC 7541 section 4.1

RECURSIVE TabSize(_)
TabSize(t) == IF t = <<>> THEN 0 ELSE ESize(Head(t)) + TabSize(Tail(t))

(* Eviction (section 4.3/4.4): drop oldest entries until the table fits. *)
RECURSIVE EvictN(_, _, _)
EvictN(t, sz, max) ==
    IF t = <<>> \/ sz <= max THEN t
    ELSE EvictN(SubSeq(t, 1, Len(t) - 1), sz - ESize(t[Len(t)]), max)
Evict(t, max) == EvictN(t, TabSize(t), max)

(* Insertion: an entry larger than max empties the table and is not stored. *)
Add(t, e, max) == Evict(<<e>> \o t, max)

ValidIdx(t, i) == i \in 1..(NS + Len(t))
At(t, i)       == IF i <= NS THEN Static[i] ELSE t[i - NS]

(* Index space = static table followed by the dynamic table (section 2.3.3).  The     *)
(* static part of the two searches is tabulated once (constant-level definitions).    *)
StaticEntries == {Static[i] : i \in 1..NS}
StaticNames   == {Static[i][1] : i \in 1..NS}
StaticExact   == [e \in StaticEntries |-> {i \in 1..NS : Static[i] = e}]
StaticByName  == [n \in StaticNames |-> {i \in 1..NS : Static[i][1] = n}]
ExactIdx(t, f) ==
    (IF <<f.n, f.v>> \in StaticEntries THEN StaticExact[<<f.n, f.v>>] ELSE {})
    \cup {NS + j : j \in {j \in 1..Len(t) : t[j] = <<f.n, f.v>>}}
NameIdx(t, n) ==
    (IF n \in StaticNames THEN StaticByName[n] ELSE {})
    \cup {NS + j : j \in {j \in 1..Len(t) : t[j][1] = n}}

IsPrefixOf(s, t) == Len(s) <= Len(t) /\ SubSeq(t, 1, Len(s)) = s

-----------------------------------------------------------------------------
(* Representations (section 6): k in idx | inc | no | never | upd.                  *)
(* idx: i = index.  Literals: i = name index, or 0 and n = literal name; v = value. *)
(* upd: i = new maximum size.                                                       *)
Idx(i)          == [k |-> "idx", i |-> i, n |-> "", v |-> ""]
Lit(k, i, n, v) == [k |-> k, i |-> i, n |-> IF i = 0 THEN n ELSE "", v |-> v]
Upd(s)          == [k |-> "upd", i |-> s, n |-> "", v |-> ""]
LitKinds        == {"inc", "no", "never"}

(* Decoder, one representation (sections 3.2, 4.2, 6).  fst: no field decoded yet in *)
(* this block; a size update is legal only then (section 4.2: "at the beginning of   *)
(* the first header block following the change", at most two of them being usual)    *)
(* and only up to the limit the decoder allows.                                      *)
DecOne(d, fst, r) ==
    LET fail == [d |-> d, fst |-> fst, out |-> <<>>, err |-> TRUE] IN
    CASE r.k = "upd" ->
           IF ~fst \/ r.i > d.allowed \/ r.i < 0 THEN fail
           ELSE [d |-> [d EXCEPT !.max = r.i, !.tab = Evict(d.tab, r.i)],
                 fst |-> fst, out |-> <<>>, err |-> FALSE]
      [] r.k = "idx" ->
           IF ~ValidIdx(d.tab, r.i) THEN fail
           ELSE LET e == At(d.tab, r.i) IN
                [d |-> d, fst |-> FALSE, out |-> <<[n |-> e[1], v |-> e[2], s |-> FALSE]>>, err |-> FALSE]
      [] r.k \in LitKinds ->
           IF r.i # 0 /\ ~ValidIdx(d.tab, r.i) THEN fail
           ELSE LET name == IF r.i = 0 THEN r.n ELSE At(d.tab, r.i)[1] IN
                [d |-> IF r.k = "inc" THEN [d EXCEPT !.tab = Add(d.tab, <<name, r.v>>, d.max)] ELSE d,
                 fst |-> FALSE,
                 out |-> <<[n |-> name, v |-> r.v, s |-> (r.k = "never")]>>,
                 err |-> FALSE]
      [] OTHER -> fail

RECURSIVE DecRun(_, _, _)
DecRun(d, fst, rs) ==
    IF rs = <<>> THEN [d |-> d, fst |-> fst, out |-> <<>>, err |-> FALSE]
    ELSE LET x == DecOne(d, fst, Head(rs)) IN
         IF x.err THEN x
         ELSE LET y == DecRun(x.d, x.fst, Tail(rs)) IN
              [d |-> y.d, fst |-> y.fst, out |-> x.out \o y.out, err |-> y.err]

-----------------------------------------------------------------------------
(* Encoder contract. *)

(* Size updates at the beginning of a block (section 4.2). *)
RECURSIVE DecAfterUpds(_, _)
DecAfterUpds(d, us) ==
    IF us = <<>> THEN d
    ELSE DecAfterUpds([d EXCEPT !.max = Head(us), !.tab = Evict(d.tab, Head(us))], Tail(us))

(* What RFC 7541 prescribes: the smallest maximum since the last update if it is below *)
(* the final one, then the final one.  e.rmin is that minimum; e.min is the minimum    *)
(* over SetMaxDynamicTableSize calls only, which is what golang/net tracks today (a    *)
(* truncation by SetMaxDynamicTableSizeLimit is not counted).                          *)
UpdFor(e, m)  == (IF m < e.max THEN <<m>> ELSE <<>>) \o <<e.max>>
RfcUpd(e)     == IF e.pend THEN UpdFor(e, e.rmin) ELSE <<>>
CodeUpd(e)    == IF e.pend THEN UpdFor(e, e.min) ELSE <<>>

(* CONTRACT for the updates us an encoder e writes to a decoder in state d: at most    *)
(* two; only before the first field of a block; none above what the decoder allows;    *)
(* and their EFFECT on the decoder is the one of the prescribed updates: it ends with  *)
(* the encoder's maximum and with the table the RFC's updates (or golang/net's, which  *)
(* may leave older entries behind the encoder's - harmless, they are beyond every      *)
(* index the encoder can use and are evicted first) would leave.  Redundant updates    *)
(* or omitted ones without effect are thus not judged; a skipped eviction is.          *)
UpdsOK(e, d, atStart, us) ==
    /\ Len(us) <= 2
    /\ us # <<>> => atStart
    /\ \A j \in 1..Len(us) : us[j] >= 0 /\ us[j] <= d.allowed
    /\ atStart => LET d2 == DecAfterUpds(d, us) IN
                  /\ d2.max = e.max /\ IsPrefixOf(e.tab, d2.tab)
                  /\ d2.tab \in {DecAfterUpds(d, RfcUpd(e)).tab, DecAfterUpds(d, CodeUpd(e)).tab}

UpdReprs(us)  == [j \in 1..Len(us) |-> Upd(us[j])]

(* Every representation a conforming encoder may choose for f against table t:       *)
(* sensitive => never-indexed literal (C05); otherwise an index of an identical entry, *)
(* or a literal with or without incremental indexing ("never" would change the flag). *)
(* A literal's name may be given by the index of any entry with that name.            *)
FieldChoices(t, f) ==
    IF f.s THEN {Lit("never", i, f.n, f.v) : i \in NameIdx(t, f.n) \cup {0}}
    ELSE {Idx(i) : i \in ExactIdx(t, f)}
         \cup {Lit(k, i, f.n, f.v) : k \in {"inc", "no"}, i \in NameIdx(t, f.n) \cup {0}}

EncAfter(e, f, r) ==
    [e EXCEPT !.tab  = IF r.k = "inc" THEN Add(e.tab, <<f.n, f.v>>, e.max) ELSE e.tab,
              !.pend = FALSE, !.min = NoMin, !.rmin = NoMin]

(* What golang/net chooses today (encode.go searchTable / shouldIndex, tables.go      *)
(* search): exact match in the static table, else in the dynamic table (newest);      *)
(* else a literal whose name index is the static one (last entry with that name) if   *)
(* any, else the newest dynamic one; indexed iff not sensitive and it fits.           *)
SetMax(S) == CHOOSE x \in S : \A y \in S : y <= x
SetMin(S) == CHOOSE x \in S : \A y \in S : x <= y
CodeRepr(e, f) ==
    LET ex  == ExactIdx(e.tab, f)
        nm  == NameIdx(e.tab, f.n)
        snm == {i \in nm : i <= NS}
        ni  == IF snm # {} THEN SetMax(snm) ELSE IF nm # {} THEN SetMin(nm) ELSE 0
    IN IF ~f.s /\ ex # {} THEN Idx(SetMin(ex))
       ELSE Lit(IF f.s THEN "never" ELSE IF ESize(<<f.n, f.v>>) <= e.max THEN "inc" ELSE "no",
                ni, f.n, f.v)

-----------------------------------------------------------------------------
(* Actions. *)

InitWith(emax, elimit, dmax, dallowed) ==
    /\ enc = [tab |-> <<>>, max |-> emax, limit |-> elimit, min |-> NoMin, rmin |-> NoMin, pend |-> FALSE]
    /\ dec = [tab |-> <<>>, max |-> dmax, allowed |-> dallowed]
    /\ wire = <<>> /\ pendf = <<>> /\ first = TRUE /\ inblk = FALSE
    /\ bad = FALSE /\ derr = FALSE /\ quirk = FALSE /\ plain = {}
    /\ cnt = [w |-> 0, b |-> 0, c |-> 0]

Init == InitWith(InitMax, InitMax, InitMax, InitMax)

(* Encoder.WriteField(f) producing the size updates us and the representation r. *)
AtStart == ~inblk /\ wire = <<>>
EncDo(f, us, r) ==
    /\ enc' = EncAfter(enc, f, r)
    /\ wire' = wire \o UpdReprs(us) \o <<r>>
    /\ pendf' = Append(pendf, f)
    /\ plain' = IF f.s THEN plain ELSE plain \cup {<<f.n, f.v>>}
    /\ quirk' = (quirk \/ us # RfcUpd(enc))
    /\ inblk' = TRUE
    /\ UNCHANGED <<dec, first, bad, derr>>
EncWrite(f, us, r) ==
    /\ UpdsOK(enc, dec, AtStart, us)
    /\ r \in FieldChoices(enc.tab, f)
    /\ EncDo(f, us, r)

(* Decoder.Write of the bytes of the next k representations. *)
DecWrite(k) ==
    /\ k \in 1..Len(wire)
    /\ LET x == DecRun(dec, first, SubSeq(wire, 1, k))
           m == Len(x.out) IN
       /\ dec' = x.d /\ first' = x.fst
       /\ derr' = (derr \/ x.err)
       /\ wire' = SubSeq(wire, k + 1, Len(wire))
       /\ IF m <= Len(pendf) /\ SubSeq(pendf, 1, m) = x.out
          THEN pendf' = SubSeq(pendf, m + 1, Len(pendf)) /\ bad' = bad
          ELSE pendf' = pendf /\ bad' = TRUE
    /\ UNCHANGED <<enc, inblk, quirk, plain>>

(* End of a header block: everything written was decoded; Decoder.Close. *)
EndBlock ==
    /\ wire = <<>>
    /\ first' = TRUE /\ inblk' = FALSE
    /\ quirk' = (quirk /\ enc.tab # dec.tab)      \* back in step: stays so until the next skip
    /\ UNCHANGED <<enc, dec, wire, pendf, bad, derr, plain>>

(* Size changes happen between header blocks (the property's quantifier) and stay    *)
(* within the limit the decoder allows ("the same dynamic-table limits").            *)
Between == ~inblk /\ wire = <<>> /\ first

SetMaxSize(v) ==         \* Encoder.SetMaxDynamicTableSize(v)
    /\ Between
    /\ LET w == Min2(v, enc.limit) IN
       /\ w <= dec.allowed
       /\ enc' = [enc EXCEPT !.min = Min2(@, w), !.rmin = Min2(@, w), !.pend = TRUE,
                             !.max = w, !.tab = Evict(@, w)]
    /\ UNCHANGED <<dec, wire, pendf, first, inblk, bad, derr, quirk, plain>>

SetLimit(v) ==           \* Encoder.SetMaxDynamicTableSizeLimit(v)
    /\ Between
    /\ enc' = IF enc.max > v
              THEN [enc EXCEPT !.limit = v, !.pend = TRUE, !.max = v, !.tab = Evict(@, v),
                               !.rmin = Min2(@, v)]
              ELSE [enc EXCEPT !.limit = v]
    /\ UNCHANGED <<dec, wire, pendf, first, inblk, bad, derr, quirk, plain>>

SetAllowed(v) ==         \* Decoder.SetAllowedMaxDynamicTableSize(v)
    /\ Between
    /\ v >= enc.max
    /\ dec' = [dec EXCEPT !.allowed = v]
    /\ UNCHANGED <<enc, wire, pendf, first, inblk, bad, derr, quirk, plain>>

-----------------------------------------------------------------------------
(* Exhaustive model: every conforming encoder choice, free interleaving of the two ends. *)
Fields == [n : Names, v : Values, s : BOOLEAN]
UpdCands == {<<>>} \cup {<<a>> : a \in Sizes} \cup {<<a, b>> : a \in Sizes, b \in Sizes}

Next ==
    \/ /\ cnt.w < MaxWrites /\ Len(pendf) < MaxLag
       /\ \E us \in {u \in UpdCands : UpdsOK(enc, dec, AtStart, u)} :
             \E f \in Fields : \E r \in FieldChoices(enc.tab, f) : EncDo(f, us, r)
       /\ cnt' = [cnt EXCEPT !.w = @ + 1]
    \/ DecWrite(1) /\ UNCHANGED cnt
    \/ inblk /\ cnt.b < MaxBlocks /\ EndBlock /\ cnt' = [cnt EXCEPT !.b = @ + 1]
    \/ /\ cnt.c < MaxChanges
       /\ \E v \in Sizes :
             \/ ("max" \in CfgKinds /\ SetMaxSize(v))
             \/ ("limit" \in CfgKinds /\ SetLimit(v))
             \/ ("allowed" \in CfgKinds /\ SetAllowed(v))
       /\ cnt' = [cnt EXCEPT !.c = @ + 1]

Spec == Init /\ [][Next]_vars

-----------------------------------------------------------------------------
(* Properties. *)

TypeOK ==
    /\ enc.max <= enc.limit /\ enc.max >= 0
    /\ enc.pend \/ (enc.min = NoMin /\ enc.rmin = NoMin)
    /\ enc.rmin <= enc.min
    /\ enc.max <= dec.allowed

(* C01: the decoder emits exactly the written fields, in order, names, values, flags. *)
RoundTrip == ~bad /\ (wire = <<>> => pendf = <<>>)

(* C01: the decoder never rejects what the encoder wrote (same limits). *)
NoDecodeError == ~derr

(* C01: tables in lock-step whenever everything written has been read: the decoder     *)
(* holds the encoder's entries at the same indices; once the encoder has signalled a   *)
(* size change the maxima agree; and the tables are equal as long as the encoder       *)
(* signals exactly what RFC 7541 section 4.2 prescribes.                               *)
LockStep ==
    wire = <<>> => /\ IsPrefixOf(enc.tab, dec.tab)
                   /\ ~enc.pend => /\ enc.max = dec.max
                                   /\ (~quirk => enc.tab = dec.tab)

SizeInv == TabSize(enc.tab) <= enc.max /\ TabSize(dec.tab) <= dec.max

(* C05: no table entry stems from a sensitive write (every entry was written as a      *)
(* non-sensitive field at some point), so no later field can refer to a sensitive value. *)
InTab(t, e) == \E i \in 1..Len(t) : t[i] = e
NoSensitiveEntry ==
    /\ \A i \in 1..Len(enc.tab) : enc.tab[i] \in plain
    /\ \A i \in 1..Len(dec.tab) : dec.tab[i] \in plain

(* C05 as action properties: a sensitive write emits a never-indexed literal and leaves *)
(* the encoder's table alone; decoding a never-indexed literal leaves the decoder's     *)
(* table alone and reports the flag.                                                    *)
Wrote == Len(pendf') = Len(pendf) + 1
SensitiveWrite ==
    [][(Wrote /\ pendf'[Len(pendf')].s) =>
          /\ wire'[Len(wire')].k = "never"
          /\ enc'.tab = enc.tab]_vars
SensitiveRead ==
    [][(wire # <<>> /\ wire' = Tail(wire) /\ Head(wire).k = "never" /\ ~derr') =>
          /\ dec'.tab = dec.tab
          /\ (~bad' => pendf # <<>> /\ pendf[1].s /\ pendf' = Tail(pendf))]_vars
PlainRead ==
    [][(wire # <<>> /\ wire' = Tail(wire) /\ Head(wire).k \in {"idx", "inc", "no"} /\ ~bad') =>
          pendf # <<>> /\ ~pendf[1].s]_vars

(* The choices made by golang/net today, and the updates the RFC prescribes, are among *)
(* those the contract allows. *)
CodeRefines ==
    /\ \A f \in Fields : CodeRepr(enc, f) \in FieldChoices(enc.tab, f)
    /\ UpdsOK(enc, dec, AtStart, CodeUpd(enc))
    /\ UpdsOK(enc, dec, AtStart, RfcUpd(enc))

=============================================================================
