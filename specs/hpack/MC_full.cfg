SPECIFICATION Spec
CONSTANTS
  Static <- StaticSmall
  Names = {":m", "x"}
  Values = {"G", "vv"}
  Sizes = {0, 36, 71}
  InitMax = 71
  MaxWrites = 3
  MaxBlocks = 2
  MaxChanges = 3
  CfgKinds = {"max", "limit", "allowed"}
  MaxLag = 2
INVARIANTS TypeOK RoundTrip NoDecodeError LockStep SizeInv NoSensitiveEntry CodeRefines
PROPERTIES SensitiveWrite SensitiveRead PlainRead
CHECK_DEADLOCK FALSE
