-------------------------------- MODULE Gen --------------------------------
(* Scenario generator: histories of header blocks and table-size changes out of Hpack, *)
(* following the representation golang/net chooses today (CodeRepr) so that the model's *)
(* tables see the same eviction pressure as the real ones.  Only the operations are    *)
(* exported; the driver executes them on the real Encoder/Decoder and Trace.tla judges *)
(* what was recorded against the contract.                                             *)
EXTENDS Hpack, Json

CONSTANTS GenDepth, MaxGap,    \* history length; size changes between two blocks
          CfgOdds               \* a size change is proposed with probability 3/CfgOdds
VARIABLES hist, gap
gvars == <<vars, hist, gap>>

GInit == Init /\ hist = <<[e |-> "hdr"]>> /\ gap = 0

Rec(r) == hist' = Append(hist, r)

GWrite(f) ==
    /\ Len(hist) > 1                       \* every history starts with a size change
    /\ EncWrite(f, CodeUpd(enc), CodeRepr(enc, f))
    /\ Rec([e |-> "w", n |-> f.n, v |-> f.v, s |-> f.s]) /\ gap' = 0

(* the whole block is read and closed *)
GEnd ==
    /\ inblk
    /\ LET x == DecRun(dec, first, wire) IN
       /\ dec' = x.d /\ derr' = (derr \/ x.err)
       /\ bad' = (bad \/ x.out # pendf)
       /\ quirk' = (quirk /\ enc.tab # x.d.tab)
    /\ wire' = <<>> /\ pendf' = <<>> /\ first' = TRUE /\ inblk' = FALSE
    /\ UNCHANGED <<enc, plain>>
    /\ Rec([e |-> "end"]) /\ gap' = 0

GCfg(v, c) ==
    /\ gap < MaxGap /\ gap' = gap + 1
    /\ \/ c = 1 /\ SetMaxSize(v) /\ Rec([e |-> "setmax", v |-> v])
       \/ c = 2 /\ SetLimit(v) /\ Rec([e |-> "setlimit", v |-> v])
       \/ c = 3 /\ Len(hist) > 1 /\ SetAllowed(v) /\ Rec([e |-> "allowed", v |-> v])

(* Simulation mode: one random field and one random size change are proposed per step *)
(* (TLC then picks among the enabled proposals), which keeps a step cheap and the mix  *)
(* of writes, block ends and size changes balanced.  Once GenDepth operations are      *)
(* recorded the history is closed by a single final step and printed once.             *)
GNext ==
    /\ UNCHANGED cnt
    /\ IF Len(hist) > GenDepth THEN FALSE
       ELSE IF Len(hist) = GenDepth
       THEN Rec([e |-> "fin"]) /\ UNCHANGED <<vars, gap>>
       ELSE LET f == RandomElement(Fields)
                v == RandomElement(Sizes)
                c == RandomElement(1..(IF Len(hist) = 1 THEN 2 ELSE CfgOdds)) IN
            GWrite(f) \/ GEnd \/ GCfg(v, c)

GSpec == GInit /\ [][GNext]_gvars

Emit == Len(hist) <= GenDepth \/ PrintT(<<"BEH", ToJson(hist)>>)
=============================================================================
