SPECIFICATION GSpec
CONSTANTS
  Static <- StaticRFC
  Names = {":method", "cookie", "x-k"}
  Values = {"GET", "", "tok"}
  Sizes = {0, 38, 76, 114, 4096}
  InitMax = 4096
  MaxWrites = 0
  MaxBlocks = 0
  MaxChanges = 0
  CfgKinds = {}
  MaxLag = 0
  GenDepth = 40
  CfgOdds = 6
  MaxGap = 1
INVARIANTS Emit RoundTrip NoDecodeError LockStep SizeInv NoSensitiveEntry
CHECK_DEADLOCK FALSE
