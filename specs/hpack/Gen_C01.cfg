SPECIFICATION GSpec
CONSTANTS
  Static <- StaticRFC
  Names = {":method", ":path", "cookie", "x-k", "accept-encoding"}
  Values = {"GET", "/", "", "a1", "gzip, deflate", "sid=0123456789abcdef"}
  Sizes = {0, 37, 38, 74, 97, 134, 4096}
  InitMax = 4096
  MaxWrites = 0
  MaxBlocks = 0
  MaxChanges = 0
  CfgKinds = {}
  MaxLag = 0
  GenDepth = 40
  CfgOdds = 6
  MaxGap = 3
INVARIANTS Emit RoundTrip NoDecodeError LockStep SizeInv NoSensitiveEntry
CHECK_DEADLOCK FALSE
