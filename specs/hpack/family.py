# Signatures for the hpack family (C01, C05): name the specific failing scenario class so that a
# different violation of the same property is still reported.


def _leading_updates(lines):
    """Kinds of the representations fed to the decoder in the block the last line belongs to."""
    fed = list(lines[-1].get("fed") or [])
    for ln in reversed(lines[:-1]):
        if ln.get("e") in ("close", "hdr"):
            break
        if ln.get("e") == "dec":
            if ln.get("err"):
                return None
            fed = list(ln.get("fed") or []) + fed
    return fed


def signature(prop, kind, scenario, detail):
    if kind != "trace" or not isinstance(scenario, dict):
        return None
    lines = scenario.get("lines") or []
    if not lines:
        return None
    last = lines[-1]
    if last.get("e") == "dec" and "size update MUST occur at the beginning" in (last.get("err") or ""):
        fed = _leading_updates(lines)
        if fed:
            lead = 0
            while lead < len(fed) and fed[lead] == "upd":
                lead += 1
            # exactly the pair RFC 7541 section 4.2 prescribes (minimum, then final size) at the
            # very beginning of a block, and no other size update in what was fed
            if lead == 2 and "upd" not in fed[lead:]:
                return "trace:decoder-rejects-second-size-update-at-block-start"
    return None
