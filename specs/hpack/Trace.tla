------------------------------- MODULE Trace -------------------------------
(* Trace validation for hpack.Encoder / hpack.Decoder (C01, C05): every recorded   *)
(* call on the real objects must be a step of Hpack.  The representations written   *)
(* by the real encoder (tokenised from its bytes with the RFC 7541 first-byte masks) *)
(* are judged against the encoder CONTRACT (EncWrite), the fields emitted by the     *)
(* real decoder against DecRun applied to those representations, and both real       *)
(* dynamic tables (entries, size, maxSize) against the model's after every call.     *)
EXTENDS Hpack, TraceIO

VARIABLES cur, l
tvars == <<vars, cur, l>>

Line == Trace[l]

TInit ==
    \E t \in 1..NT :
       LET h == Trace[Meta.starts[t]] IN
       /\ cur = t /\ l = Meta.starts[t] + 1
       /\ h.e = "hdr"
       /\ InitWith(h.encmax, h.limit, h.decmax, h.allowed)

(* White-box snapshot of a real dynamicTable: entries newest first, the size the code *)
(* accounts, maxSize, and the number of entries carrying the Sensitive flag.          *)
Snap(x, s) == s.tab = x.tab /\ s.max = x.max /\ s.size = TabSize(x.tab) /\ s.sens = 0

TSetMax   == Line.e = "setmax" /\ SetMaxSize(Line.v) /\ Snap(enc', Line.enc)
TSetLimit == Line.e = "setlimit" /\ SetLimit(Line.v) /\ Snap(enc', Line.enc)
TAllowed  == Line.e = "allowed" /\ SetAllowed(Line.v)

TWrite ==
    /\ Line.e = "write" /\ Line.err = ""
    /\ LET k  == Len(Line.reprs)
           f  == [n |-> Line.n, v |-> Line.v, s |-> Line.s] IN
       /\ k >= 1
       /\ \A j \in 1..(k - 1) : Line.reprs[j].k = "upd"
       /\ LET us == [j \in 1..(k - 1) |-> Line.reprs[j].i]
              lr == Line.reprs[k]
              r  == IF lr.k = "idx" THEN Idx(lr.i) ELSE Lit(lr.k, lr.i, f.n, f.v) IN
          /\ lr.k \in {"idx"} \cup LitKinds
          /\ EncWrite(f, us, r)
    /\ Snap(enc', Line.enc)

TDec ==
    /\ Line.e = "dec" /\ Line.err = ""
    /\ Line.nrep \in 1..Len(wire)
    /\ DecRun(dec, first, SubSeq(wire, 1, Line.nrep)).out = Line.out
    /\ DecWrite(Line.nrep)
    /\ Snap(dec', Line.dec)

TClose == Line.e = "close" /\ Line.err = "" /\ EndBlock

TNext ==
    /\ l <= Meta.ends[cur]
    /\ l' = l + 1 /\ cur' = cur
    /\ (TSetMax \/ TSetLimit \/ TAllowed \/ TWrite \/ TDec \/ TClose)
    /\ UNCHANGED cnt

TSpec == TInit /\ [][TNext]_tvars

Mark == HighWater(cur, l)
=============================================================================
