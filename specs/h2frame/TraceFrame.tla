----------------------------- MODULE TraceFrame -----------------------------
(* Trace validation for C06: a real Framer performed the logged Write* calls (seeded random *)
(* arguments over the whole 31-bit / 24-bit ranges, real payloads) on one buffer and read   *)
(* the buffer back.  For every call the specification recomputes Accept / Wire / Norm from  *)
(* the logged arguments; the logged error flag, header bytes, length and payload prefix     *)
(* must be those of Wire(c) and the k-th frame read must be Norm of the k-th accepted call. *)
EXTENDS H2Frame, TraceIO

VARIABLES q, cur, l
tvars == <<q, cur, l>>

Line == Trace[l]

HdrBytes(h) == <<h.len \div 65536, (h.len \div 256) % 256, h.len % 256, h.type, h.flags>> \o WBytes(h.sid)
Min(a, b) == IF a < b THEN a ELSE b

\* logged payload prefix against the layout: concrete positions must agree
PrefixOK(pp, p) == /\ Len(pp) = Min(16, PLen(p))
                   /\ \A i \in 1..Len(pp) : ByteAt(p, i) < 0 \/ ByteAt(p, i) = pp[i]

TInit == \E t \in 1..NT :
            /\ cur = t /\ l = Meta.starts[t] + 1
            /\ Trace[Meta.starts[t]].e = "hdr"
            /\ q = <<>>

TWrite ==
    /\ Line.e = "w"
    /\ LET c == Line.c  acc == Accept(c)  w == Wire(c) IN
       /\ acc \in {"yes", "no"}
       /\ Line.err = (acc = "no")
       /\ IF acc = "no" THEN Line.n = 0 /\ q' = q
          ELSE /\ Line.n = 9 + w.h.len
               /\ Line.hb = HdrBytes(w.h)
               /\ (PrefixOK(Line.pp, w.p) /\ InRoundTripDomain(c)) = TRUE
               /\ q' = Append(q, [f |-> Norm(c), dg |-> Line.dg])

TRead ==
    /\ Line.e = "r"
    /\ q # <<>>
    /\ LET x == Head(q) IN
       /\ Line.cls = "F"
       /\ Line.type = x.f.type /\ Line.flags = x.f.flags /\ Line.len = x.f.len /\ Line.sid = x.f.sid
       /\ Line.w = x.f.w /\ Line.b = x.f.b
       /\ Line.dlen = PLen(x.f.d)
       /\ (Line.dlen > 0 => Line.dg = x.dg)
    /\ q' = Tail(q)

\* after the last write everything written has been read back and the buffer is empty
TEnd == Line.e = "end" /\ q = <<>> /\ Line.left = 0 /\ q' = q

TNext ==
    /\ l <= Meta.ends[cur]
    /\ l' = l + 1 /\ cur' = cur
    /\ (TWrite \/ TRead \/ TEnd)

TSpec == TInit /\ [][TNext]_tvars

Mark == HighWater(cur, l)
=============================================================================
