SPECIFICATION Spec
CONSTANTS
  Kinds = {"meta"}
  Depth = 0
  CoreFrom = 0
  MaxItems = 3
  ManyCuts = FALSE
  DoPrint = TRUE
INVARIANTS Sound Export
CHECK_DEADLOCK FALSE
