------------------------------ MODULE H2Frame ------------------------------
(* HTTP/2 frame layer (RFC 7540 section 4 and 6, RFC 9218 section 7.1) as a wire format:  *)
(*   Wire(c)   what a Framer.Write* call c puts on the wire (9-byte header fields and     *)
(*             payload layout),                                                           *)
(*   Parse     what a reader makes of a header + payload (frame or error),                *)
(*   Norm(c)   the frame the caller of Write* described,                                  *)
(*   Viol/May  the rules of the RFC a frame can break, as a *set* of acceptable error     *)
(*             classes (the reader may pick any one of them).                             *)
(* C06 is  Accept(c) = "yes" => Parse(Wire(c)) = Norm(c)  (RoundTrip), C07's per-frame    *)
(* part is ParseSound (the deterministic reader refines the rule set).                    *)
(*                                                                                        *)
(* 32-bit quantities are pairs <<hi, lo>> of 16-bit halves (TLC integers are 32-bit).     *)
(* A payload is a sequence of segments: concrete bytes ("b"), n zero bytes ("z") or a     *)
(* slice of an opaque blob ("o": the caller's data, whose content the format never reads).*)
EXTENDS Integers, Sequences, FiniteSets, TLC

\* ------------------------------------------------------------------ words
Mask31(w)   == <<w[1] % 32768, w[2]>>
HighBit(w)  == w[1] >= 32768
SetHigh(w)  == <<(w[1] % 32768) + 32768, w[2]>>
ZeroW       == <<0, 0>>
WBytes(w)   == <<w[1] \div 256, w[1] % 256, w[2] \div 256, w[2] % 256>>
U16Bytes(x) == <<x \div 256, x % 256>>
Bit(flags, b) == (flags \div b) % 2 = 1          \* b is a power of two

\* ------------------------------------------------------------------ payload segments
Seg(k, v, id, off, n) == [k |-> k, v |-> v, id |-> id, off |-> off, n |-> n]
B(v)          == IF v = <<>> THEN <<>> ELSE <<Seg("b", v, "", 0, Len(v))>>
Z(n)          == IF n <= 0 THEN <<>> ELSE <<Seg("z", <<>>, "", 0, n)>>
O(id, off, n) == IF n <= 0 THEN <<>> ELSE <<Seg("o", <<>>, id, off, n)>>

RECURSIVE PLen(_)
PLen(p) == IF p = <<>> THEN 0 ELSE Head(p).n + PLen(Tail(p))

Slice1(s, a, n) ==                       \* n > 0 and a + n <= s.n
    CASE s.k = "b" -> Seg("b", SubSeq(s.v, a + 1, a + n), "", 0, n)
      [] s.k = "z" -> Seg("z", <<>>, "", 0, n)
      [] OTHER     -> Seg("o", <<>>, s.id, s.off + a, n)

RECURSIVE Take(_, _), Drop(_, _), ByteAt(_, _), Canon(_)
Take(p, n) == IF n <= 0 \/ p = <<>> THEN <<>>
              ELSE IF Head(p).n <= n THEN <<Head(p)>> \o Take(Tail(p), n - Head(p).n)
              ELSE <<Slice1(Head(p), 0, n)>>
Drop(p, n) == IF n <= 0 \/ p = <<>> THEN p
              ELSE IF Head(p).n <= n THEN Drop(Tail(p), n - Head(p).n)
              ELSE <<Slice1(Head(p), n, Head(p).n - n)>> \o Tail(p)
\* value of byte i (1-based); -1 when it lies in an opaque blob or past the end
ByteAt(p, i) == IF p = <<>> THEN 0 - 1
                ELSE IF i <= Head(p).n
                     THEN (CASE Head(p).k = "b" -> Head(p).v[i] [] Head(p).k = "z" -> 0 [] OTHER -> 0 - 1)
                     ELSE ByteAt(Tail(p), i - Head(p).n)
\* canonical form: adjacent concrete segments and contiguous slices of one blob are merged
Canon(p) == IF Len(p) < 2 THEN p
            ELSE LET a == p[1] b == p[2] r == Tail(Tail(p)) IN
                 IF a.k = "b" /\ b.k = "b" THEN Canon(<<Seg("b", a.v \o b.v, "", 0, a.n + b.n)>> \o r)
                 ELSE IF a.k = "z" /\ b.k = "z" THEN Canon(<<Seg("z", <<>>, "", 0, a.n + b.n)>> \o r)
                 ELSE IF a.k = "o" /\ b.k = "o" /\ a.id = b.id /\ a.off + a.n = b.off
                      THEN Canon(<<Seg("o", <<>>, a.id, a.off, a.n + b.n)>> \o r)
                 ELSE <<a>> \o Canon(Tail(p))

Known(p, i, n) == \A j \in i..(i + n - 1) : ByteAt(p, j) >= 0
U32At(p, i)    == <<ByteAt(p, i) * 256 + ByteAt(p, i + 1), ByteAt(p, i + 2) * 256 + ByteAt(p, i + 3)>>
U16At(p, i)    == ByteAt(p, i) * 256 + ByteAt(p, i + 1)

\* ------------------------------------------------------------------ frame types, flags, codes
TData == 0  THeaders == 1  TPriority == 2  TRst == 3  TSettings == 4  TPush == 5
TPing == 6  TGoAway == 7  TWindow == 8  TCont == 9  TPrioUpd == 16
KnownTypes == {0, 1, 2, 3, 4, 5, 6, 7, 8, 9, 16}
FEndStream == 1  FAck == 1  FEndHeaders == 4  FPadded == 8  FPriority == 32
EProtocol == 1  EFlowControl == 3  EFrameSize == 6  ECompression == 9
MaxFrame == 16777215                       \* 2^24 - 1

Hdr(len, type, flags, sid) == [len |-> len, type |-> type, flags |-> flags, sid |-> sid]

\* ------------------------------------------------------------------ reader
\* Projection of a parsed frame: header fields (stream id without the reserved bit), 32-bit
\* fields w, small fields b (exclusive bit, weight, setting ids), opaque part d.
NoFrame == [type |-> 0, flags |-> 0, len |-> 0, sid |-> ZeroW, w |-> <<>>, b |-> <<>>, d |-> <<>>]
Fr(h, w, b, d) == [res |-> "frame", code |-> 0,
                   f |-> [type |-> h.type, flags |-> h.flags, len |-> h.len, sid |-> Mask31(h.sid),
                          w |-> w, b |-> b, d |-> Canon(d)]]
Er(res, code) == [res |-> res, code |-> code, f |-> NoFrame]
ConnE(code)   == Er("conn", code)
StreamE(code) == Er("stream", code)
EofE          == Er("eof", 0)            \* io.ErrUnexpectedEOF out of a short fixed field
Opaque        == Er("opaque", 0)         \* outside the model: a fixed field inside a blob

RECURSIVE SettingIds(_, _), SettingVals(_, _), FirstIWS(_, _)
SettingIds(p, i)  == IF i + 5 > PLen(p) THEN <<>> ELSE <<U16At(p, i)>> \o SettingIds(p, i + 6)
SettingVals(p, i) == IF i + 5 > PLen(p) THEN <<>> ELSE <<U32At(p, i + 2)>> \o SettingVals(p, i + 6)
\* value of the first SETTINGS_INITIAL_WINDOW_SIZE (id 4) entry, <<0,0>> if none
FirstIWS(p, i)    == IF i + 5 > PLen(p) THEN ZeroW
                     ELSE IF U16At(p, i) = 4 THEN U32At(p, i + 2) ELSE FirstIWS(p, i + 6)

\* Parse transcribes the order of the checks of the parse*Frame functions.
\* Precondition: h.len = PLen(p).
Parse(h, p) ==
    LET n   == PLen(p)
        sid == Mask31(h.sid)
        s0  == sid = ZeroW
        padded == Bit(h.flags, FPadded)
    IN
    CASE h.type = TData ->
           IF s0 THEN ConnE(EProtocol)
           ELSE IF padded /\ n = 0 THEN EofE
           ELSE IF padded /\ ~Known(p, 1, 1) THEN Opaque
           ELSE LET pad  == IF padded THEN ByteAt(p, 1) ELSE 0
                    rest == IF padded THEN Drop(p, 1) ELSE p
                IN IF pad > PLen(rest) THEN ConnE(EProtocol)
                   ELSE Fr(h, <<>>, <<>>, Take(rest, PLen(rest) - pad))
      [] h.type = THeaders ->
           IF s0 THEN ConnE(EProtocol)
           ELSE IF padded /\ n = 0 THEN EofE
           ELSE IF padded /\ ~Known(p, 1, 1) THEN Opaque
           ELSE LET pad  == IF padded THEN ByteAt(p, 1) ELSE 0
                    r1   == IF padded THEN Drop(p, 1) ELSE p
                    prio == Bit(h.flags, FPriority)
                IN IF prio /\ PLen(r1) < 5 THEN EofE
                   ELSE IF prio /\ ~Known(r1, 1, 5) THEN Opaque
                   ELSE LET r2 == IF prio THEN Drop(r1, 5) ELSE r1
                            v  == IF prio THEN U32At(r1, 1) ELSE ZeroW
                        IN IF PLen(r2) - pad < 0 THEN StreamE(EProtocol)
                           ELSE Fr(h, IF prio THEN <<Mask31(v)>> ELSE <<>>,
                                      IF prio THEN <<IF HighBit(v) THEN 1 ELSE 0, ByteAt(r1, 5)>> ELSE <<>>,
                                      Take(r2, PLen(r2) - pad))
      [] h.type = TPriority ->
           IF s0 THEN ConnE(EProtocol)
           ELSE IF n # 5 THEN ConnE(EFrameSize)
           ELSE IF ~Known(p, 1, 5) THEN Opaque
           ELSE LET v == U32At(p, 1) IN
                Fr(h, <<Mask31(v)>>, <<IF HighBit(v) THEN 1 ELSE 0, ByteAt(p, 5)>>, <<>>)
      [] h.type = TRst ->
           IF n # 4 THEN ConnE(EFrameSize)
           ELSE IF s0 THEN ConnE(EProtocol)
           ELSE IF ~Known(p, 1, 4) THEN Opaque
           ELSE Fr(h, <<U32At(p, 1)>>, <<>>, <<>>)
      [] h.type = TSettings ->
           IF Bit(h.flags, FAck) /\ n > 0 THEN ConnE(EFrameSize)
           ELSE IF ~s0 THEN ConnE(EProtocol)
           ELSE IF n % 6 # 0 THEN ConnE(EFrameSize)
           ELSE IF ~Known(p, 1, n) THEN Opaque
           ELSE IF HighBit(FirstIWS(p, 1)) THEN ConnE(EFlowControl)
           ELSE Fr(h, SettingVals(p, 1), SettingIds(p, 1), <<>>)
      [] h.type = TPush ->
           IF s0 THEN ConnE(EProtocol)
           ELSE IF padded /\ n = 0 THEN EofE
           ELSE IF padded /\ ~Known(p, 1, 1) THEN Opaque
           ELSE LET pad == IF padded THEN ByteAt(p, 1) ELSE 0
                    r1  == IF padded THEN Drop(p, 1) ELSE p
                IN IF PLen(r1) < 4 THEN EofE
                   ELSE IF ~Known(r1, 1, 4) THEN Opaque
                   ELSE LET r2 == Drop(r1, 4) IN
                        IF pad > PLen(r2) THEN ConnE(EProtocol)
                        ELSE Fr(h, <<Mask31(U32At(r1, 1))>>, <<>>, Take(r2, PLen(r2) - pad))
      [] h.type = TPing ->
           IF n # 8 THEN ConnE(EFrameSize)
           ELSE IF ~s0 THEN ConnE(EProtocol)
           ELSE Fr(h, <<>>, <<>>, p)
      [] h.type = TGoAway ->
           IF ~s0 THEN ConnE(EProtocol)
           ELSE IF n < 8 THEN ConnE(EFrameSize)
           ELSE IF ~Known(p, 1, 8) THEN Opaque
           ELSE Fr(h, <<Mask31(U32At(p, 1)), U32At(p, 5)>>, <<>>, Drop(p, 8))
      [] h.type = TWindow ->
           IF n # 4 THEN ConnE(EFrameSize)
           ELSE IF ~Known(p, 1, 4) THEN Opaque
           ELSE LET inc == Mask31(U32At(p, 1)) IN
                IF inc = ZeroW THEN (IF s0 THEN ConnE(EProtocol) ELSE StreamE(EProtocol))
                ELSE Fr(h, <<inc>>, <<>>, <<>>)
      [] h.type = TCont ->
           IF s0 THEN ConnE(EProtocol) ELSE Fr(h, <<>>, <<>>, p)
      [] h.type = TPrioUpd ->
           IF ~s0 THEN ConnE(EProtocol)
           ELSE IF n < 4 THEN ConnE(EFrameSize)
           ELSE IF ~Known(p, 1, 4) THEN Opaque
           ELSE LET v == Mask31(U32At(p, 1)) IN
                IF v = ZeroW THEN ConnE(EProtocol) ELSE Fr(h, <<v>>, <<>>, Drop(p, 4))
      [] OTHER -> Fr(h, <<>>, <<>>, p)

\* ------------------------------------------------------------------ the rules a frame can break
\* Error classes: "C<code>" connection error, "S<code>" stream error, "EOF" unexpected-EOF
\* error value.  Viol(h, p): classes of the rules the frame breaks (one of them must be
\* reported, which one is the reader's choice).  May(h, p): errors the reader may also raise.
SidMustBeNonZero == {TData, THeaders, TPriority, TRst, TPush, TCont}
SidMustBeZero    == {TSettings, TPing, TGoAway, TPrioUpd}
ShortField       == {"EOF", "C1", "C6", "S1", "S6"}      \* a fixed field is cut short: any error

RECURSIVE LaterIWSBad(_, _, _)
LaterIWSBad(p, i, seen) ==      \* a non-first INITIAL_WINDOW_SIZE entry above 2^31-1
    IF i + 5 > PLen(p) THEN FALSE
    ELSE IF U16At(p, i) = 4 THEN (seen /\ HighBit(U32At(p, i + 2))) \/ LaterIWSBad(p, i + 6, TRUE)
    ELSE LaterIWSBad(p, i + 6, seen)

Viol(h, p) ==
    LET n == PLen(p)
        s0 == Mask31(h.sid) = ZeroW
        padded == Bit(h.flags, FPadded) /\ h.type \in {TData, THeaders, TPush}
        pad == IF padded /\ n > 0 THEN ByteAt(p, 1) ELSE 0
        fixed == (IF padded THEN 1 ELSE 0)
                 + (IF h.type = THeaders /\ Bit(h.flags, FPriority) THEN 5 ELSE 0)
                 + (IF h.type = TPush THEN 4 ELSE 0)
    IN
    (IF h.type \in SidMustBeNonZero /\ s0 THEN {"C1"} ELSE {})
    \cup (IF h.type \in SidMustBeZero /\ ~s0 THEN {"C1"} ELSE {})
    \cup (IF h.type = TPriority /\ n # 5 THEN {"C6", "S6"} ELSE {})
    \cup (IF h.type \in {TRst, TWindow} /\ n # 4 THEN {"C6"} ELSE {})
    \cup (IF h.type = TPing /\ n # 8 THEN {"C6"} ELSE {})
    \cup (IF h.type = TSettings /\ (n % 6 # 0 \/ (Bit(h.flags, FAck) /\ n > 0)) THEN {"C6"} ELSE {})
    \cup (IF h.type = TGoAway /\ n < 8 THEN {"C6"} ELSE {})
    \cup (IF h.type = TPrioUpd /\ n < 4 THEN {"C6"} ELSE {})
    \cup (IF h.type \in {TData, THeaders, TPush} /\ n < fixed THEN ShortField ELSE {})
    \cup (IF h.type \in {TData, TPush} /\ n >= fixed /\ pad > n - fixed THEN {"C1"} ELSE {})
    \cup (IF h.type = THeaders /\ n >= fixed /\ pad > n - fixed THEN {"C1", "S1"} ELSE {})
    \cup (IF h.type = TWindow /\ n = 4 /\ Known(p, 1, 4) /\ Mask31(U32At(p, 1)) = ZeroW
          THEN (IF s0 THEN {"C1"} ELSE {"C1", "S1"}) ELSE {})
    \cup (IF h.type = TSettings /\ n % 6 = 0 /\ Known(p, 1, n) /\ HighBit(FirstIWS(p, 1)) THEN {"C3"} ELSE {})
    \cup (IF h.type = TPrioUpd /\ n >= 4 /\ Known(p, 1, 4) /\ Mask31(U32At(p, 1)) = ZeroW THEN {"C1"} ELSE {})

May(h, p) ==
    IF h.type = TSettings /\ PLen(p) % 6 = 0 /\ Known(p, 1, PLen(p)) /\ LaterIWSBad(p, 1, FALSE)
    THEN {"C3"} ELSE {}

Class(r) == CASE r.res = "frame"  -> "F"
              [] r.res = "conn"   -> IF r.code = 1 THEN "C1" ELSE IF r.code = 3 THEN "C3"
                                     ELSE IF r.code = 6 THEN "C6" ELSE "C9"
              [] r.res = "stream" -> IF r.code = 1 THEN "S1" ELSE "S6"
              [] r.res = "eof"    -> "EOF"
              [] OTHER            -> "OPAQUE"

\* What a reader may answer for frame (h, p).
AllowedClasses(h, p) == IF Viol(h, p) = {} THEN {"F"} \cup May(h, p) ELSE Viol(h, p) \cup May(h, p)

\* The deterministic reader is one of the readers the rules allow.
ParseSound(h, p) == LET r == Parse(h, p) IN r.res = "opaque" \/ Class(r) \in AllowedClasses(h, p)

\* ------------------------------------------------------------------ writer
\* A call of a Write* method.  All calls share one record shape:
\*  m method, allow = Framer.AllowIllegalWrites, sid stream id, es/eh/ack flags, dlen length of the
\*  caller's opaque bytes (data, header block fragment, debug data, priority string, raw payload),
\*  padded/pad/padnz padding (padnz: the pad bytes are not zeros), prio/dep/excl/weight priority,
\*  w1, w2 other 32-bit arguments, st settings, type/flags/rawb for WriteRawFrame (rawb: concrete
\*  payload prefix).
Call0(m) == [m |-> m, allow |-> FALSE, sid |-> ZeroW, es |-> FALSE, eh |-> FALSE, ack |-> FALSE,
             dlen |-> 0, padded |-> FALSE, pad |-> 0, padnz |-> FALSE,
             dep |-> ZeroW, excl |-> FALSE, weight |-> 0, w1 |-> ZeroW, w2 |-> ZeroW,
             st |-> <<>>, type |-> 0, flags |-> 0, rawb |-> <<>>]

F2(b, v) == IF b THEN v ELSE 0
PrioZero(c) == c.dep = ZeroW /\ ~c.excl /\ c.weight = 0
DepWord(c)  == IF c.excl THEN SetHigh(c.dep) ELSE c.dep          \* only used when dep has no high bit
PadSeg(c)   == IF c.padnz THEN O("pad", 0, c.pad) ELSE Z(c.pad)
Data(c)     == O("data", 0, c.dlen)

RECURSIVE SettingsBytes(_)
SettingsBytes(st) == IF st = <<>> THEN <<>>
                     ELSE U16Bytes(Head(st).id) \o WBytes(Head(st).val) \o SettingsBytes(Tail(st))

Mk(type, flags, sid, p) == [h |-> Hdr(PLen(p), type, flags, sid), p |-> p]

\* The bytes the method puts on the wire when it accepts the call.
Wire(c) ==
    CASE c.m = "Data" ->
           Mk(TData, F2(c.es, FEndStream) + F2(c.padded, FPadded), c.sid,
              (IF c.padded THEN B(<<c.pad>>) ELSE <<>>) \o Data(c) \o (IF c.padded THEN PadSeg(c) ELSE <<>>))
      [] c.m = "Headers" ->
           Mk(THeaders, F2(c.es, FEndStream) + F2(c.eh, FEndHeaders) + F2(c.pad # 0, FPadded)
                        + F2(~PrioZero(c), FPriority), c.sid,
              (IF c.pad # 0 THEN B(<<c.pad>>) ELSE <<>>)
              \o (IF ~PrioZero(c) THEN B(WBytes(DepWord(c)) \o <<c.weight>>) ELSE <<>>)
              \o Data(c) \o Z(c.pad))
      [] c.m = "Priority" ->
           Mk(TPriority, 0, c.sid, B(WBytes(DepWord(c)) \o <<c.weight>>))
      [] c.m = "RSTStream" -> Mk(TRst, 0, c.sid, B(WBytes(c.w1)))
      [] c.m = "Settings" -> Mk(TSettings, 0, ZeroW, B(SettingsBytes(c.st)))
      [] c.m = "SettingsAck" -> Mk(TSettings, FAck, ZeroW, <<>>)
      [] c.m = "Ping" -> Mk(TPing, F2(c.ack, FAck), ZeroW, O("data", 0, 8))
      [] c.m = "GoAway" -> Mk(TGoAway, 0, ZeroW, B(WBytes(Mask31(c.w1)) \o WBytes(c.w2)) \o Data(c))
      [] c.m = "WindowUpdate" -> Mk(TWindow, 0, c.sid, B(WBytes(c.w1)))
      [] c.m = "Continuation" -> Mk(TCont, F2(c.eh, FEndHeaders), c.sid, Data(c))
      [] c.m = "PushPromise" ->
           Mk(TPush, F2(c.eh, FEndHeaders) + F2(c.pad # 0, FPadded), c.sid,
              (IF c.pad # 0 THEN B(<<c.pad>>) ELSE <<>>) \o B(WBytes(c.w1)) \o Data(c) \o Z(c.pad))
      [] c.m = "PriorityUpdate" -> Mk(TPrioUpd, 0, ZeroW, B(WBytes(c.sid)) \o Data(c))
      [] OTHER -> Mk(c.type, c.flags, c.sid, B(c.rawb) \o Data(c))       \* "Raw"

ValidSid(w) == w # ZeroW /\ ~HighBit(w)
StreamBound == {"Data", "Headers", "Priority", "RSTStream", "Continuation", "PushPromise", "PriorityUpdate"}

\* Arguments inside the documented domain of the method (the property's "arguments the
\* method accepts").
Legal(c) ==
    /\ c.m \in StreamBound => ValidSid(c.sid)
    /\ c.m = "WindowUpdate" => ~HighBit(c.sid) /\ c.w1 # ZeroW /\ ~HighBit(c.w1)
    /\ c.m = "Data" => (c.padded => c.pad <= 255 /\ ~c.padnz)
    /\ c.m \in {"Headers", "Priority"} => ~HighBit(c.dep)
    /\ c.m = "PushPromise" => ValidSid(c.w1)
    /\ c.m = "GoAway" => ~HighBit(c.w1)
    /\ c.m = "Settings" => \A i \in 1..Len(c.st) : c.st[i].id = 4 => ~HighBit(c.st[i].val)
    /\ PLen(Wire(c).p) <= MaxFrame

\* What no setting of AllowIllegalWrites can put on the wire.
Unencodable(c) ==
    \/ c.m = "Data" /\ c.padded /\ c.pad > 255
    \/ c.m = "Priority" /\ HighBit(c.dep)
    \/ PLen(Wire(c).p) > MaxFrame

\* "yes": the method must write Wire(c); "no": it must return an error and write nothing;
\* "any": outside the documented domain and not required to be rejected - whatever the method
\* does, if it writes, it writes Wire(c).
Accept(c) ==
    IF c.m = "Raw" THEN (IF PLen(Wire(c).p) > MaxFrame THEN "no" ELSE "yes")
    ELSE IF Unencodable(c) THEN "no"
    ELSE IF Legal(c) THEN "yes"
    ELSE IF c.allow THEN "yes"
    ELSE IF c.m \in {"GoAway", "Settings"} \/ (c.m = "WindowUpdate" /\ c.w1 # ZeroW /\ ~HighBit(c.w1))
         THEN "any"               \* not validated by design: reserved bits, setting values
    ELSE "no"

\* The frame the caller described (independent of Wire: the property's right-hand side).
Norm(c) ==
    LET f(type, flags, len, sid, w, b, d) ==
          [type |-> type, flags |-> flags, len |-> len, sid |-> sid, w |-> w, b |-> b, d |-> d]
        pr == <<IF c.excl THEN 1 ELSE 0, c.weight>>
    IN
    CASE c.m = "Data" -> f(TData, F2(c.es, 1) + F2(c.padded, 8), c.dlen + F2(c.padded, 1 + c.pad), c.sid,
                           <<>>, <<>>, Data(c))
      [] c.m = "Headers" ->
           f(THeaders, F2(c.es, 1) + F2(c.eh, 4) + F2(c.pad > 0, 8) + F2(~PrioZero(c), 32),
             c.dlen + F2(c.pad > 0, 1 + c.pad) + F2(~PrioZero(c), 5), c.sid,
             IF PrioZero(c) THEN <<>> ELSE <<c.dep>>, IF PrioZero(c) THEN <<>> ELSE pr, Data(c))
      [] c.m = "Priority" -> f(TPriority, 0, 5, c.sid, <<c.dep>>, pr, <<>>)
      [] c.m = "RSTStream" -> f(TRst, 0, 4, c.sid, <<c.w1>>, <<>>, <<>>)
      [] c.m = "Settings" -> f(TSettings, 0, 6 * Len(c.st), ZeroW, [i \in 1..Len(c.st) |-> c.st[i].val],
                               [i \in 1..Len(c.st) |-> c.st[i].id], <<>>)
      [] c.m = "SettingsAck" -> f(TSettings, 1, 0, ZeroW, <<>>, <<>>, <<>>)
      [] c.m = "Ping" -> f(TPing, F2(c.ack, 1), 8, ZeroW, <<>>, <<>>, O("data", 0, 8))
      [] c.m = "GoAway" -> f(TGoAway, 0, 8 + c.dlen, ZeroW, <<c.w1, c.w2>>, <<>>, Data(c))
      [] c.m = "WindowUpdate" -> f(TWindow, 0, 4, c.sid, <<c.w1>>, <<>>, <<>>)
      [] c.m = "Continuation" -> f(TCont, F2(c.eh, 4), c.dlen, c.sid, <<>>, <<>>, Data(c))
      [] c.m = "PushPromise" -> f(TPush, F2(c.eh, 4) + F2(c.pad > 0, 8), 4 + c.dlen + F2(c.pad > 0, 1 + c.pad),
                                  c.sid, <<c.w1>>, <<>>, Data(c))
      [] c.m = "PriorityUpdate" -> f(TPrioUpd, 0, 4 + c.dlen, ZeroW, <<c.sid>>, <<>>, Data(c))
      [] OTHER -> f(c.type, c.flags, Len(c.rawb) + c.dlen, c.sid, <<>>, <<>>, Canon(B(c.rawb) \o Data(c)))

\* Raw frames are in the round-trip domain when their type is an extension type.
InRoundTripDomain(c) == Accept(c) = "yes" /\ Legal(c) /\ (c.m = "Raw" => c.type \notin KnownTypes /\ ~HighBit(c.sid))

\* C06: what was written reads back as the frame the caller described.
RoundTrip(c) ==
    InRoundTripDomain(c) =>
        LET w == Wire(c) r == Parse(w.h, w.p) IN r.res = "frame" /\ r.f = Norm(c)

\* A CONTINUATION can only be read after a HEADERS frame without END_HEADERS on its stream.
NeedsPrelude(c) == Wire(c).h.type = TCont /\ Mask31(c.sid) # ZeroW
=============================================================================
