SPECIFICATION Spec
CONSTANTS
  DoPrint = TRUE
  Wide = TRUE
  BigLens = 0
  Fams = {"RawKnown"}
  AllAllow = FALSE
INVARIANTS RoundTripHolds ParseSoundHolds NoOpaque Export
CHECK_DEADLOCK FALSE
