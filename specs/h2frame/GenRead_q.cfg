SPECIFICATION Spec
CONSTANTS
  Kinds = {"order", "meta"}
  Depth = 3
  CoreFrom = 2
  MaxItems = 2
  ManyCuts = FALSE
  DoPrint = TRUE
INVARIANTS Sound Export
CHECK_DEADLOCK FALSE
