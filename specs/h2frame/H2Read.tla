------------------------------- MODULE H2Read -------------------------------
(* The reading side of the HTTP/2 frame layer as a state machine over wire frames (C07).    *)
(*                                                                                          *)
(*  property level   what any correct reader must guarantee, whatever it picks:             *)
(*      OrderBad / SidBad (stream-id rules, HEADERS/CONTINUATION contiguity) => error,      *)
(*      no returned frame longer than maxread, MetaOK for every merged header block;        *)
(*  mechanism        ReadStep: ReadFrame as implemented (size check, order check, per-type  *)
(*      parser of H2Frame, readMetaFrame's accumulation loop over CONTINUATION frames with a *)
(*      small HPACK decoder), producing the outcome class, the frame and the *set* of        *)
(*      outcome classes the rules allow at that point.                                       *)
(* TLC checks that the mechanism satisfies the property level on every enumerated input     *)
(* (GenRead.tla), the same inputs are replayed on the real Framer, and TraceRead.tla judges  *)
(* recorded runs over arbitrary bytes with the property-level predicates only.              *)
EXTENDS H2Frame, SequencesExt

\* ------------------------------------------------------------------ header field characters
\* (RFC 7230 token characters; RFC 7540 8.1.2: lower case names; field values without
\*  control characters other than HTAB)
IsTChar(b) == \/ b \in 48..57 \/ b \in 65..90 \/ b \in 97..122
              \/ b \in {33, 35, 36, 37, 38, 39, 42, 43, 45, 46, 94, 95, 96, 124, 126}
ValidName(n)  == Len(n) > 0 /\ \A i \in 1..Len(n) : IsTChar(n[i]) /\ n[i] \notin 65..90
ValidValue(v) == \A i \in 1..Len(v) : ~((v[i] < 32 /\ v[i] # 9) \/ v[i] = 127)
IsPseudo(n)   == Len(n) > 0 /\ n[1] = 58
PMethod == <<58, 109, 101, 116, 104, 111, 100>>                 \* ":method"
PPath   == <<58, 112, 97, 116, 104>>                            \* ":path"
PScheme == <<58, 115, 99, 104, 101, 109, 101>>                  \* ":scheme"
PAuth   == <<58, 97, 117, 116, 104, 111, 114, 105, 116, 121>>   \* ":authority"
PProto  == <<58, 112, 114, 111, 116, 111, 99, 111, 108>>        \* ":protocol"
PStatus == <<58, 115, 116, 97, 116, 117, 115>>                  \* ":status"
KnownPseudo == {PMethod, PPath, PScheme, PAuth, PProto, PStatus}
FieldSize(f) == Len(f.n) + Len(f.v) + 32                        \* RFC 7541 4.1

ListSize(fs) == FoldLeft(LAMBDA acc, f : acc + FieldSize(f), 0, fs)      \* (iterative: lists can be long)

\* What C07 states about a returned MetaHeadersFrame (maxlist = effective MaxHeaderListSize).
PseudoFirst(fs) == \A i, j \in 1..Len(fs) : i < j /\ IsPseudo(fs[j].n) => IsPseudo(fs[i].n)
NoDupPseudo(fs) == \A i, j \in 1..Len(fs) : i < j /\ IsPseudo(fs[i].n) => fs[i].n # fs[j].n
NoUnknownPseudo(fs) == \A i \in 1..Len(fs) : IsPseudo(fs[i].n) => fs[i].n \in KnownPseudo
AllValid(fs) == \A i \in 1..Len(fs) : ValidValue(fs[i].v) /\ (IsPseudo(fs[i].n) \/ ValidName(fs[i].n))
MetaOK(fs, truncated, maxlist) ==
    /\ PseudoFirst(fs) /\ NoDupPseudo(fs) /\ NoUnknownPseudo(fs) /\ AllValid(fs)
    /\ (ListSize(fs) <= maxlist \/ truncated)

\* ------------------------------------------------------------------ property level, per frame header
\* expect = stream of an unfinished header block (ZeroW if none)
OrderBad(expect, h) == IF expect # ZeroW THEN h.type # TCont \/ Mask31(h.sid) # expect ELSE h.type = TCont
SidBad(h) == \/ h.type \in SidMustBeNonZero /\ Mask31(h.sid) = ZeroW
             \/ h.type \in SidMustBeZero /\ Mask31(h.sid) # ZeroW
ExpectAfter(expect, h) == IF h.type \in {THeaders, TCont}
                          THEN (IF Bit(h.flags, FEndHeaders) THEN ZeroW ELSE Mask31(h.sid)) ELSE expect

\* ------------------------------------------------------------------ a small HPACK decoder (RFC 7541)
\* indexed fields and literal fields without / never indexed, 7-bit lengths, no Huffman, the
\* static table entries below; anything else is outside the generated inputs.
F(n, v) == [n |-> n, v |-> v]
StaticTab == [i \in {1, 2, 3, 4, 5, 6, 7, 8} |->
    CASE i = 1 -> F(PAuth, <<>>) [] i = 2 -> F(PMethod, <<71, 69, 84>>) [] i = 3 -> F(PMethod, <<80, 79, 83, 84>>)
      [] i = 4 -> F(PPath, <<47>>) [] i = 5 -> F(PPath, <<47, 105, 110, 100, 101, 120, 46, 104, 116, 109, 108>>)
      [] i = 6 -> F(PScheme, <<104, 116, 116, 112>>) [] i = 7 -> F(PScheme, <<104, 116, 116, 112, 115>>)
      [] OTHER -> F(PStatus, <<50, 48, 48>>)]
\* one field representation from the front of buf:
\*   st = "ok" (field f, used bytes), "more" (incomplete), "bad" (decoding error), "long" (string over maxstr)
DecodeOne(buf, maxstr) ==
    LET b == buf[1]
        none == F(<<>>, <<>>)
        str(at) ==      \* string starting at index at: [st, s, next]
            IF at > Len(buf) THEN [st |-> "more", s |-> <<>>, next |-> at]
            ELSE IF buf[at] >= 128 THEN [st |-> "bad", s |-> <<>>, next |-> at]       \* Huffman: not generated
            ELSE IF maxstr # 0 /\ buf[at] > maxstr THEN [st |-> "long", s |-> <<>>, next |-> at]
            ELSE IF at + buf[at] > Len(buf) THEN [st |-> "more", s |-> <<>>, next |-> at]
            ELSE [st |-> "ok", s |-> SubSeq(buf, at + 1, at + buf[at]), next |-> at + buf[at] + 1]
    IN
    IF b >= 128 THEN
        (IF b - 128 \in DOMAIN StaticTab THEN [st |-> "ok", f |-> StaticTab[b - 128], used |-> 1]
         ELSE [st |-> "bad", f |-> none, used |-> 0])
    ELSE IF b \in 0..31 /\ (b % 16 = 0 \/ b % 16 \in DOMAIN StaticTab) THEN
        LET nm == IF b % 16 = 0 THEN str(2) ELSE [st |-> "ok", s |-> StaticTab[b % 16].n, next |-> 2] IN
        IF nm.st # "ok" THEN [st |-> nm.st, f |-> none, used |-> 0]
        ELSE LET vl == str(nm.next) IN
             IF vl.st # "ok" THEN [st |-> vl.st, f |-> none, used |-> 0]
             ELSE [st |-> "ok", f |-> F(nm.s, vl.s), used |-> vl.next - 1]
    ELSE [st |-> "bad", f |-> none, used |-> 0]

\* ------------------------------------------------------------------ merged header blocks (mechanism)
\* accumulation state of readMetaFrame
Meta0(maxlist) == [remain |-> maxlist, sawRegular |-> FALSE, invalid |-> FALSE, truncated |-> FALSE,
                   emitOn |-> TRUE, fields |-> <<>>, saved |-> <<>>, herr |-> FALSE]

Emit(ms, f) ==
    IF ~ms.emitOn THEN ms
    ELSE LET ps  == IsPseudo(f.n)
             bad == \/ ~ValidValue(f.v)
                    \/ ps /\ ms.sawRegular
                    \/ ~ps /\ ~ValidName(f.n)
             m1  == [ms EXCEPT !.sawRegular = @ \/ ~ps]
         IN IF bad THEN [m1 EXCEPT !.invalid = TRUE, !.emitOn = FALSE]
            ELSE IF FieldSize(f) > m1.remain THEN [m1 EXCEPT !.truncated = TRUE, !.emitOn = FALSE, !.remain = 0]
            ELSE [m1 EXCEPT !.remain = @ - FieldSize(f), !.fields = Append(@, f)]

\* hpack.Decoder.Write on the bytes buf (= saved \o fragment)
RECURSIVE FeedBuf(_, _, _)
FeedBuf(ms, buf, maxstr) ==
    IF buf = <<>> THEN [ms EXCEPT !.saved = <<>>]
    ELSE LET d == DecodeOne(buf, maxstr) IN
         CASE d.st = "ok"   -> FeedBuf(Emit(ms, d.f), SubSeq(buf, d.used + 1, Len(buf)), maxstr)
           [] d.st = "more" -> [ms EXCEPT !.saved = buf]
           [] OTHER         -> [ms EXCEPT !.herr = TRUE]
Feed(ms, frag, maxstr) == IF frag = <<>> THEN ms ELSE FeedBuf(ms, ms.saved \o frag, maxstr)

RECURSIVE Flat(_)
Flat(p) == IF p = <<>> THEN <<>>
           ELSE (IF Head(p).k = "b" THEN Head(p).v ELSE [i \in 1..Head(p).n |-> 0]) \o Flat(Tail(p))

MixedPseudo(fs) == /\ \E i \in 1..Len(fs) : fs[i].n = PStatus
                   /\ \E i \in 1..Len(fs) : IsPseudo(fs[i].n) /\ fs[i].n # PStatus

\* ------------------------------------------------------------------ ReadFrame (mechanism + allowed set)
\* cfg = [meta, maxread, maxlist];  a wire frame = [type, flags, sid, p];  st = [expect]
WHdr(fr) == Hdr(PLen(fr.p), fr.type, fr.flags, fr.sid)

\* A result of one ReadFrame call.
\*   cls      outcome class of the mechanism     allowed  classes the rules allow
\*   used     number of wire frames consumed     dead     no further ReadFrame is meaningful
\*   f        frame projection (H2Frame), for merged blocks: d = <<>>, fields / truncated set
Res(cls, allowed, used, dead, expect, f, ismeta, fields, truncated) ==
    [cls |-> cls, allowed |-> allowed, used |-> used, dead |-> dead, expect |-> expect, f |-> f,
     ismeta |-> ismeta, fields |-> fields, truncated |-> truncated]
ErrRes(cls, allowed, used, dead, expect) == Res(cls, allowed, used, dead, expect, NoFrame, FALSE, <<>>, FALSE)

\* the accumulation loop: frag is the fragment of the frame just read (number used of the call)
RECURSIVE MetaLoop(_, _, _, _, _, _, _, _)
MetaLoop(cfg, ms, hf, frag, ended, sid, rest, used) ==
    LET maxstr == cfg.maxlist
        tooMuch == {"C1", "C11", "F"}       \* oversize list: connection error, or a Truncated frame
        fieldErr == {"S1", "C1"}            \* malformed field list: stream or connection error
    IN
    IF Len(frag) > 2 * ms.remain THEN ErrRes("C1", tooMuch, used, TRUE, ZeroW)
    ELSE IF ms.invalid THEN ErrRes("C1", fieldErr, used, TRUE, ZeroW)
    ELSE LET m2 == Feed(ms, frag, maxstr) IN
         IF m2.herr THEN ErrRes("C9", {"C9"}, used, TRUE, ZeroW)
         ELSE IF ended THEN
              (IF m2.saved # <<>> THEN ErrRes("C9", {"C9"}, used, TRUE, ZeroW)
               ELSE IF m2.invalid \/ ~NoUnknownPseudo(m2.fields) \/ ~NoDupPseudo(m2.fields)
                    THEN ErrRes("S1", fieldErr, used, FALSE, ZeroW)
               ELSE IF MixedPseudo(m2.fields) THEN ErrRes("S1", {"S1", "C1", "F"}, used, FALSE, ZeroW)
               ELSE Res("F", IF m2.truncated THEN tooMuch ELSE {"F"}, used, FALSE, ZeroW,
                        [hf EXCEPT !.d = <<>>], TRUE, m2.fields, m2.truncated))
         ELSE IF rest = <<>> THEN ErrRes("EOF", {"EOF"}, used, TRUE, sid)
         ELSE LET fr == Head(rest)  h == WHdr(fr) IN
              IF h.len > cfg.maxread
              THEN ErrRes("TOOLARGE", {"TOOLARGE"} \cup (IF OrderBad(sid, h) THEN {"C1"} ELSE {}), used + 1, TRUE, sid)
              ELSE IF OrderBad(sid, h) THEN ErrRes("C1", {"C1"}, used + 1, TRUE, sid)
              ELSE MetaLoop(cfg, m2, hf, Flat(fr.p), Bit(h.flags, FEndHeaders), sid, Tail(rest), used + 1)

\* one ReadFrame call on the remaining wire frames fs (non-empty)
ReadStep(cfg, st, fs) ==
    LET fr == Head(fs)  h == WHdr(fr)
        big == h.len > cfg.maxread
        ob  == OrderBad(st.expect, h)
        e2  == ExpectAfter(st.expect, h)
        pr  == Parse(h, fr.p)
        rules == (IF big THEN {"TOOLARGE"} ELSE {}) \cup (IF ob THEN {"C1"} ELSE {}) \cup Viol(h, fr.p)
        opt == May(h, fr.p)
    IN
    IF big THEN ErrRes("TOOLARGE", rules \cup opt, 1, TRUE, st.expect)
    ELSE IF ob THEN ErrRes("C1", rules \cup opt, 1, TRUE, st.expect)
    ELSE IF pr.res # "frame" THEN ErrRes(Class(pr), rules \cup opt, 1, pr.res # "stream", e2)
    ELSE IF h.type = THeaders /\ cfg.meta
         THEN MetaLoop(cfg, Meta0(cfg.maxlist), pr.f, Flat(pr.f.d), Bit(h.flags, FEndHeaders), Mask31(h.sid), Tail(fs), 1)
    ELSE Res("F", {"F"} \cup opt, 1, FALSE, e2, pr.f, FALSE, <<>>, FALSE)

\* all ReadFrame calls on the input fs until a terminal outcome (the last one is EOF at the end)
RECURSIVE Reads(_, _, _)
Reads(cfg, st, fs) ==
    IF fs = <<>> THEN <<ErrRes("EOF", {"EOF"}, 0, TRUE, st.expect)>>
    ELSE LET r == ReadStep(cfg, st, fs) IN
         IF r.dead THEN <<r>>
         ELSE <<r>> \o Reads(cfg, [expect |-> r.expect], SubSeq(fs, r.used + 1, Len(fs)))

\* ------------------------------------------------------------------ the mechanism satisfies C07
\* evaluated on a whole input: walk the results with the property-level ghost `expect`, which is
\* computed from the wire headers only
RECURSIVE WalkOK(_, _, _, _)
WalkOK(cfg, expect, fs, rs) ==
    IF rs = <<>> \/ fs = <<>> THEN TRUE
    ELSE LET r == Head(rs)  h == WHdr(Head(fs))
             consumed == SubSeq(fs, 1, r.used)
             after == IF r.used = 0 THEN expect
                      ELSE LET RECURSIVE Fold(_, _)
                               Fold(e, k) == IF k > r.used THEN e ELSE Fold(ExpectAfter(e, WHdr(fs[k])), k + 1)
                           IN Fold(expect, 1)
         IN /\ r.cls \in r.allowed
            /\ (OrderBad(expect, h) \/ SidBad(h)) => r.cls # "F"
            /\ r.cls = "F" => \A k \in 1..r.used : PLen(consumed[k].p) <= cfg.maxread
            /\ r.cls = "F" /\ r.ismeta =>
                   /\ MetaOK(r.fields, r.truncated, cfg.maxlist)
                   /\ \A k \in 2..r.used : ~OrderBad(Mask31(h.sid), WHdr(consumed[k]))
                   /\ Bit(consumed[r.used].flags, FEndHeaders)
            /\ (r.dead \/ WalkOK(cfg, after, SubSeq(fs, r.used + 1, Len(fs)), Tail(rs)))
=============================================================================
