SPECIFICATION Spec
CONSTANTS
  DoPrint = TRUE
  Wide = FALSE
  BigLens = 1
  Fams = {"Data","Headers","Priority","RSTStream","Settings","Ping","GoAway","WindowUpdate","Continuation","PushPromise","PriorityUpdate","RawExt"}
  AllAllow = FALSE
INVARIANTS RoundTripHolds ParseSoundHolds NoOpaque Export
CHECK_DEADLOCK FALSE
