SPECIFICATION Spec
CONSTANTS
  DoPrint = TRUE
  Wide = TRUE
  BigLens = 2
  Fams = {"RawKnown","Data","Headers","Priority","RSTStream","Settings","Ping","GoAway","WindowUpdate","Continuation","PushPromise","PriorityUpdate","RawExt"}
  AllAllow = TRUE
INVARIANTS RoundTripHolds ParseSoundHolds NoOpaque Export
CHECK_DEADLOCK FALSE
