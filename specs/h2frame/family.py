# Signatures for findings of the h2frame family: they name the scenario class (method / frame
# types / reader configuration and what disagreed), not the property alone.


def _sidclass(w):
    v = (w[0] << 16) | w[1]
    if v == 0:
        return "0"
    if v >= 1 << 31:
        return "highbit"
    if v == (1 << 31) - 1:
        return "max"
    return "n"


def signature(prop, kind, scenario, detail):
    what = (detail or {}).get("what", "")
    what = what.split(":")[0][:60]
    try:
        if kind == "replay" and isinstance(scenario, dict) and "c" in scenario:
            c = scenario["c"]
            h = scenario.get("h", {})
            return "write:%s;allow=%d;acc=%s;sid=%s;type=%s;flags=%s;dlen=%s;%s" % (
                c.get("m"), 1 if c.get("allow") else 0, scenario.get("acc"), _sidclass(c.get("sid", [0, 0])),
                h.get("type"), h.get("flags"), c.get("dlen"), what)
        if kind == "replay" and isinstance(scenario, dict) and "frames" in scenario:
            cfg = scenario.get("cfg", {})
            fr = ",".join("%s/%s/%s" % (f.get("type"), f.get("flags"), _sidclass(f.get("sid", [0, 0])))
                          for f in scenario["frames"][:6])
            return "read:%s;meta=%d;maxread=%s;mhls=%s;frames=%s;step=%s;%s" % (
                cfg.get("kind"), 1 if cfg.get("meta") else 0, cfg.get("maxread"), cfg.get("mhls"), fr,
                (detail or {}).get("step"), what)
        if kind == "trace" and isinstance(scenario, dict):
            lines = scenario.get("lines") or [{}]
            last = lines[-1]
            if last.get("e") == "w":
                c = last.get("c", {})
                return "trace:write:%s;sid=%s;err=%s" % (c.get("m"), _sidclass(c.get("sid", [0, 0])), last.get("err"))
            if last.get("e") == "r":
                return "trace:readback:type=%s;cls=%s" % (last.get("type"), last.get("cls"))
            if last.get("e") == "read":
                wire = ",".join(str(w.get("type")) for w in (last.get("wire") or [])[:6])
                return "trace:read:cls=%s;meta=%s;wire=%s" % (last.get("cls"), last.get("ismeta"), wire)
            return "trace:%s:%s" % (last.get("e"), last.get("op"))
    except Exception:
        return None
    return None
