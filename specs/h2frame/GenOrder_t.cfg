SPECIFICATION Spec
CONSTANTS
  Kinds = {"order"}
  Depth = 4
  CoreFrom = 2
  MaxItems = 0
  ManyCuts = TRUE
  DoPrint = TRUE
INVARIANTS Sound Export
CHECK_DEADLOCK FALSE
