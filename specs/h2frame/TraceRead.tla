------------------------------ MODULE TraceRead ------------------------------
(* Trace validation for C07.  A real Framer read an arbitrary (random / mutated) byte       *)
(* stream; for every ReadFrame call the driver logged the headers of the wire frames the    *)
(* call consumed (decoded from the input bytes at frame boundaries, independently of the     *)
(* Framer) and what came back.  The specification keeps the property-level ghost `expect`   *)
(* (stream of an unfinished header block, from the wire headers only) and demands what C07   *)
(* states: no frame longer than the read limit, stream-id and contiguity violations are      *)
(* errors, a merged header block covers exactly HEADERS CONTINUATION* of one stream and its  *)
(* field list is MetaOK.  Which error is reported is not judged.  Panics and hangs are       *)
(* events no action matches.                                                                 *)
EXTENDS H2Read, TraceIO

VARIABLES expect, dead, conf, cur, l
tvars == <<expect, dead, conf, cur, l>>

Line == Trace[l]

WH(x) == Hdr(x.len, x.type, x.flags, x.sid)

FoldExpect(e, W) == FoldLeft(LAMBDA x, w : ExpectAfter(x, WH(w)), e, W)

TInit == \E t \in 1..NT :
            LET h == Trace[Meta.starts[t]] IN
            /\ cur = t /\ l = Meta.starts[t] + 1
            /\ h.e = "hdr"
            /\ conf = [meta |-> h.meta, maxread |-> h.maxread, maxlist |-> h.maxlist]
            /\ expect = ZeroW /\ dead = FALSE

FrameOK(W) ==
    LET h == WH(W[1]) IN
    /\ \A k \in 1..Len(W) : W[k].len <= conf.maxread
    /\ Line.type = h.type /\ Line.flags = h.flags /\ Line.len = h.len /\ Line.sid = Mask31(h.sid)
    /\ ~OrderBad(expect, h) /\ ~SidBad(h)
    /\ IF Line.ismeta
       THEN /\ conf.meta /\ h.type = THeaders
            /\ \A k \in 2..Len(W) : ~OrderBad(Mask31(h.sid), WH(W[k]))
            /\ \A k \in 1..Len(W) : Bit(W[k].flags, FEndHeaders) <=> k = Len(W)
            /\ MetaOK(Line.fields, Line.truncated, conf.maxlist)
       ELSE /\ Len(W) = 1
            /\ ~(conf.meta /\ h.type = THeaders)

TRead ==
    /\ Line.e = "read"
    /\ ~dead
    /\ LET W == Line.wire IN
       \* ("= TRUE": evaluated as one state-level expression, not expanded as an action)
       /\ (Line.cls = "F" => (W # <<>> /\ FrameOK(W))) = TRUE
       /\ expect' = FoldExpect(expect, W)
    /\ dead' = (Line.cls # "F" /\ ~Line.streamerr)
    /\ conf' = conf

TNext ==
    /\ l <= Meta.ends[cur]
    /\ l' = l + 1 /\ cur' = cur
    /\ TRead

TSpec == TInit /\ [][TNext]_tvars

Mark == HighWater(cur, l)
=============================================================================
