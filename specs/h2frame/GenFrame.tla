------------------------------ MODULE GenFrame ------------------------------
(* Bounded argument domain of the Framer.Write* methods.  Every call is one TLC state;     *)
(* RoundTrip and ParseSound are checked on it, and (when DoPrint) the case is exported with  *)
(* everything the specification predicts: accept / reject, header, payload layout, result  *)
(* of reading it back.                                                                     *)
EXTENDS H2Frame, Json

CONSTANTS DoPrint,     \* export CASE items
          Wide,        \* larger value sets (model checking without export)
          BigLens,     \* payloads at the 2^24-1 limit: 0 none, 1 a few per method, 2 all flag combinations
          Fams,        \* which method families to enumerate
          AllAllow     \* keep AllowIllegalWrites = TRUE also for calls inside the documented domain

VARIABLES c, fam    \* c: the call (or the root "Init"), fam: its family

W31max == <<32767, 65535>>                 \* 2^31 - 1
WHigh  == <<32768, 0>>                     \* 2^31
WHigh1 == <<32768, 1>>
WAll   == <<65535, 65535>>
Sids   == {ZeroW, <<0, 1>>, <<0, 2>>, W31max, WHigh1} \cup (IF Wide THEN {<<1, 0>>, <<0, 65535>>, WHigh, WAll} ELSE {})
Words  == {ZeroW, <<0, 1>>, W31max, WHigh, WAll} \cup (IF Wide THEN {<<258, 772>>, WHigh1} ELSE {})
Deps   == {ZeroW, <<0, 1>>, W31max, WHigh1}
Lens   == {0, 16384} \cup (IF Wide THEN {1, 2, 255, 16383, 16385, 65536} ELSE {})
Pads   == {0, 1, 255} \cup (IF Wide THEN {2, 254} ELSE {})
Wts    == {0, 255} \cup (IF Wide THEN {1, 16} ELSE {})

Prios  == IF Wide THEN Deps \X BOOLEAN \X Wts
          ELSE {<<ZeroW, FALSE, 0>>, <<ZeroW, TRUE, 0>>, <<ZeroW, FALSE, 255>>, <<<<0, 1>>, FALSE, 0>>,
                <<W31max, TRUE, 255>>, <<WHigh1, FALSE, 0>>, <<WHigh1, TRUE, 255>>}

\* lengths at the frame size limit for a call c0 with dlen = 0
Big(c0) == IF BigLens > 0 /\ c0.sid \in {ZeroW, <<0, 1>>} /\ ~c0.allow /\ ~c0.es /\ ~c0.excl /\ c0.weight = 0
              /\ c0.dep \in {ZeroW, <<0, 1>>} /\ c0.w1 \in {ZeroW, <<0, 1>>} /\ c0.w2 = ZeroW
              /\ (BigLens > 1 \/ (c0.sid = <<0, 1>> /\ ~c0.eh /\ c0.flags = 0 /\ c0.type \in {0, 10}
                                  /\ (c0.m = "PushPromise" => c0.pad = 0) /\ (c0.m = "Headers" => c0.pad \in {0, 255})))
           THEN LET ov == PLen(Wire(c0).p) IN {MaxFrame - ov, MaxFrame + 1 - ov} ELSE {}
WithLens(S) == UNION {{[c0 EXCEPT !.dlen = n] : n \in Lens \cup Big(c0) \cup (IF c0.m = "Data" THEN {1} ELSE {})} : c0 \in S}

St(id, v) == [id |-> id, val |-> v]
SettingLists == {<<>>, <<St(1, <<0, 4096>>)>>, <<St(4, W31max)>>, <<St(4, WHigh)>>,
                 <<St(3, <<0, 100>>), St(5, <<0, 16384>>), St(65535, WAll)>>,
                 <<St(4, <<0, 7>>), St(4, WAll)>>, <<St(2, ZeroW), St(2, <<0, 1>>)>>}

CData == WithLens({[Call0("Data") EXCEPT !.allow = a, !.sid = s, !.es = e, !.padded = p[1], !.pad = p[2], !.padnz = p[3]] :
                     a \in BOOLEAN, s \in Sids, e \in BOOLEAN,
                     p \in {<<FALSE, 0, FALSE>>} \cup {<<TRUE, n, FALSE>> : n \in Pads \cup {256}} \cup {<<TRUE, 1, TRUE>>, <<TRUE, 255, TRUE>>}})
CHeaders == WithLens({[Call0("Headers") EXCEPT !.allow = a, !.sid = s, !.es = f[1], !.eh = f[2], !.pad = p,
                                               !.dep = q[1], !.excl = q[2], !.weight = q[3]] :
                     a \in BOOLEAN, s \in Sids, f \in BOOLEAN \X BOOLEAN, p \in Pads, q \in Prios})
CPriority == {[Call0("Priority") EXCEPT !.allow = a, !.sid = s, !.dep = d, !.excl = x, !.weight = w] :
                     a \in BOOLEAN, s \in Sids, d \in Deps, x \in BOOLEAN, w \in Wts}
CRst == {[Call0("RSTStream") EXCEPT !.allow = a, !.sid = s, !.w1 = v] : a \in BOOLEAN, s \in Sids, v \in Words}
CSettings == {[Call0("Settings") EXCEPT !.allow = a, !.st = l] : a \in BOOLEAN, l \in SettingLists}
              \cup {[Call0("SettingsAck") EXCEPT !.allow = a] : a \in BOOLEAN}
CPing == {[Call0("Ping") EXCEPT !.allow = a, !.ack = k] : a \in BOOLEAN, k \in BOOLEAN}
CGoAway == WithLens({[Call0("GoAway") EXCEPT !.allow = a, !.w1 = l, !.w2 = v] : a \in BOOLEAN, l \in Sids, v \in Words})
CWindow == {[Call0("WindowUpdate") EXCEPT !.allow = a, !.sid = s, !.w1 = v] : a \in BOOLEAN, s \in Sids, v \in Words}
CCont == WithLens({[Call0("Continuation") EXCEPT !.allow = a, !.sid = s, !.eh = e] : a \in BOOLEAN, s \in Sids, e \in BOOLEAN})
CPush == WithLens({[Call0("PushPromise") EXCEPT !.allow = a, !.sid = s, !.eh = e, !.pad = p, !.w1 = v] :
                     a \in BOOLEAN, s \in Sids, e \in BOOLEAN, p \in Pads, v \in Sids})
CPrioUpd == WithLens({[Call0("PriorityUpdate") EXCEPT !.allow = a, !.sid = s] : a \in BOOLEAN, s \in Sids})
\* raw frames: extension types round trip; known types with concrete short payloads exercise
\* every reader rule (used by C07 as well)
RawPayloads == {<<>>, <<0>>, <<1>>, <<5>>, <<0, 0, 0, 0>>, <<128, 0, 0, 0>>, <<0, 0, 0, 1>>, <<128, 0, 0, 1, 7>>,
                <<0, 0, 0, 3, 9>>, <<2, 0, 0, 0, 1, 0, 0>>, <<1, 128, 0, 0, 5, 200, 0>>, <<0, 4, 128, 0, 0, 0>>,
                <<0, 4, 0, 0, 0, 1, 0, 4, 255, 255, 255, 255>>, <<0, 3, 0, 0, 0, 100>>,
                <<0, 0, 0, 0, 0, 0, 0, 1>>, <<127, 255, 255, 255, 0, 0, 0, 2, 88>>, <<1, 2, 3, 4, 5, 6, 7, 8>>,
                <<0, 0, 0, 0, 117>>, <<0, 0, 0, 5, 117, 61, 49>>, <<3, 0, 0, 0, 9, 0, 0, 0>>, <<4, 0, 0, 0, 9, 0, 0, 0>>}
RawFlags == {0, 8, 40, 255} \cup (IF Wide THEN {1, 4} ELSE {})
RawSet(types) == {x \in {[Call0("Raw") EXCEPT !.sid = s, !.type = t, !.flags = f, !.rawb = b, !.dlen = n] :
                   s \in {ZeroW, <<0, 1>>, WHigh1} \cup (IF Wide THEN {W31max} ELSE {}), t \in types, f \in RawFlags,
                   b \in RawPayloads, n \in {0} \cup (IF Wide THEN {3} ELSE {})} : Parse(Wire(x).h, Wire(x).p).res # "opaque"}
CRawKnown == RawSet(KnownTypes)
CRawExt == RawSet({10, 17, 255})
           \cup WithLens({[Call0("Raw") EXCEPT !.sid = s, !.type = t, !.flags = f] :
                           s \in {ZeroW, <<0, 1>>}, t \in {0, 9, 10, 255}, f \in {0, 5, 247}})

Fam(x) == CASE x = "Data" -> CData [] x = "Headers" -> CHeaders [] x = "Priority" -> CPriority
            [] x = "RSTStream" -> CRst [] x = "Settings" -> CSettings [] x = "Ping" -> CPing
            [] x = "GoAway" -> CGoAway [] x = "WindowUpdate" -> CWindow [] x = "Continuation" -> CCont
            [] x = "PushPromise" -> CPush [] x = "PriorityUpdate" -> CPrioUpd
            [] x = "RawExt" -> CRawExt [] x = "RawKnown" -> CRawKnown
\* with AllowIllegalWrites only the calls outside the documented domain are of interest
\* (inside it the flag changes nothing); the Wide model keeps the whole product
Calls(g) == {x \in Fam(g) : Wide \/ AllAllow \/ ~x.allow \/ ~Legal(x)}

\* one root per family, its successors are the calls (successors are generated in parallel)
Init == fam \in Fams /\ c = Call0("Init")
Next == c.m = "Init" /\ c' \in Calls(fam) /\ fam' = fam
Spec == Init /\ [][Next]_<<c, fam>>

Case(x) == LET w == Wire(x) r == Parse(w.h, w.p) IN
    [c |-> x, acc |-> Accept(x), h |-> w.h, p |-> w.p, prelude |-> NeedsPrelude(x),
     res |-> r.res, code |-> r.code, f |-> r.f,
     allowed |-> AllowedClasses(w.h, w.p), rt |-> InRoundTripDomain(x)]

RoundTripHolds  == c.m = "Init" \/ RoundTrip(c)
ParseSoundHolds == c.m = "Init" \/ LET w == Wire(c) IN Accept(c) = "no" \/ ParseSound(w.h, w.p)
NoOpaque        == c.m = "Init" \/ LET w == Wire(c) IN Accept(c) = "no" \/ Parse(w.h, w.p).res # "opaque"
Export          == c.m = "Init" \/ ~DoPrint \/ PrintT(<<"CASE", ToJson(Case(c))>>)
=============================================================================
