------------------------------- MODULE GenRead -------------------------------
(* Inputs for the reader (C07) and what H2Read predicts for them.                            *)
(*  Kind "order": all sequences of at most Depth wire frames over a small alphabet built      *)
(*     around HEADERS / CONTINUATION contiguity, stream-id rules, size limits and stream      *)
(*     errors that do not end the connection, for every reader configuration in Cfgs.         *)
(*  Kind "meta": one header block - up to MaxItems field representations (valid, unknown /    *)
(*     duplicate / late pseudo-headers, bad names and values, a field larger than the list     *)
(*     limit, an HPACK error), split over HEADERS and CONTINUATION frames at every chosen      *)
(*     byte position, optionally cut short - for every MaxHeaderListSize in Lists.            *)
(* Every behaviour is checked against the property level (WalkOK) and exported as BEH.        *)
EXTENDS H2Read, Json

CONSTANTS Kinds,      \* subset of {"order", "meta"}
          Depth,      \* kind "order": number of frames
          CoreFrom,   \* kind "order": frames after the first CoreFrom come from CoreAlphabet only
          MaxItems,   \* kind "meta": field representations per block
          ManyCuts,   \* kind "meta": more split positions
          DoPrint

VARIABLES cfg, fs, phase      \* reader configuration, wire frames, "root" | "build" | "done"
vars == <<cfg, fs, phase>>

Fm(type, flags, sid, p) == [type |-> type, flags |-> flags, sid |-> sid, p |-> p]
S1 == <<0, 1>>
S3 == <<0, 3>>
Lit(n, v) == <<0, Len(n)>> \o n \o <<Len(v)>> \o v          \* literal field without indexing, new name
Rep(b, k) == [i \in 1..k |-> b]
NFoo == <<102, 111, 111>>                                    \* "foo"
VBar == <<98, 97, 114>>                                      \* "bar"

\* ------------------------------------------------------------------ kind "order"
SmallRead == 20
OrderCfgs == {x \in {[kind |-> "order", meta |-> m, maxread |-> r, mhls |-> 0, maxlist |-> 16777216] : m \in BOOLEAN, r \in {SmallRead, 16384}} : ManyCuts \/ x.meta \/ x.maxread # SmallRead}
Alphabet == {
    Fm(THeaders, 5, S1, B(<<130>> \o Lit(NFoo, VBar))),            \* complete block on stream 1, END_STREAM
    Fm(THeaders, 0, S1, B(<<130>>)),                               \* opens a block on stream 1
    Fm(THeaders, 0, S3, B(<<136>>)),                               \* opens a block on stream 3
    Fm(THeaders, 4, ZeroW, B(<<130>>)),                            \* stream 0
    Fm(THeaders, 8, S1, B(<<5>>)),                                 \* padding longer than the payload, block left open
    Fm(THeaders, 36, S3, B(<<128, 0, 0, 1, 9, 130>>)),             \* priority, complete
    Fm(TCont, 4, S1, B(<<132>>)),                                  \* closes stream 1's block
    Fm(TCont, 0, S1, B(Lit(NFoo, VBar))),                          \* continues it
    Fm(TCont, 0, S1, <<>>),                                        \* empty continuation
    Fm(TCont, 4, S3, B(Lit(<<120>>, <<121>>))),                    \* closes stream 3's block
    Fm(TCont, 4, ZeroW, <<>>),                                     \* stream 0
    Fm(TCont, 4, S1, B(Lit(NFoo, Rep(97, 15)))),                   \* 21 bytes: one over the small read limit
    Fm(TData, 1, S1, O("data", 0, 5)),
    Fm(TData, 0, ZeroW, O("data", 0, 5)),
    Fm(TData, 0, S3, O("data", 0, 21)),                            \* one over the small read limit
    Fm(TData, 0, S3, O("data", 0, 20)),                            \* exactly the small read limit
    Fm(TPing, 0, ZeroW, O("data", 0, 8)),
    Fm(TPing, 0, ZeroW, O("data", 0, 7)),                          \* wrong size
    Fm(TWindow, 0, S1, B(<<0, 0, 0, 0>>)),                         \* zero increment: stream error, not fatal
    Fm(TWindow, 0, ZeroW, B(<<0, 0, 0, 5>>)),
    Fm(TSettings, 0, S3, <<>>),                                    \* stream id on SETTINGS
    Fm(TPush, 4, S1, B(<<0, 0, 0, 2, 130>>)),
    Fm(250, 0, S3, O("data", 0, 2)) }                              \* extension frame

CoreAlphabet == {a \in Alphabet : \/ a.type \in {THeaders, TCont} /\ a.sid # ZeroW /\ PLen(a.p) < 20 /\ a.flags # 36
                                  \/ a.type = TData /\ a.sid = S1
                                  \/ a.type = TWindow /\ a.sid = S1}

\* ------------------------------------------------------------------ kind "meta"
Items == {<<130>>,                                   \* :method GET (indexed)
          Lit(PPath, <<47>>),                        \* :path /
          <<136>>,                                   \* :status 200
          Lit(<<58, 98, 111, 103, 117, 115>>, <<120>>),   \* :bogus x
          Lit(NFoo, VBar),                           \* foo: bar
          <<4, 1, 47>>,                              \* :path / (literal with indexed name)
          Lit(<<70, 111, 111>>, VBar),               \* Foo: bar   (upper case)
          Lit(NFoo, <<98, 1, 114>>),                 \* foo: b\x01r (control character)
          Lit(<<>>, <<120>>),                        \* empty name
          Lit(<<98, 105, 103>>, Rep(97, 60)),        \* big: 60 x 'a' (size 95)
          <<128>>}                                   \* index 0: HPACK decoding error
RECURSIVE SeqsUpTo(_, _)
SeqsUpTo(S, k) == IF k = 0 THEN {<<>>} ELSE LET R == SeqsUpTo(S, k - 1) IN R \cup {Append(r, x) : r \in R, x \in S}
RECURSIVE Concat(_)
Concat(ss) == IF ss = <<>> THEN <<>> ELSE Head(ss) \o Concat(Tail(ss))
Lists == {0, 64, 130}
MetaCfgs == {[kind |-> "meta", meta |-> TRUE, maxread |-> 16384, mhls |-> l, maxlist |-> IF l = 0 THEN 16777216 ELSE l] : l \in Lists}
\* the frames of one block: bytes bs split at the positions in cuts (ascending)
Split2(bs, a) == <<SubSeq(bs, 1, a), SubSeq(bs, a + 1, Len(bs))>>
Split3(bs, a, b) == <<SubSeq(bs, 1, a), SubSeq(bs, a + 1, b), SubSeq(bs, b + 1, Len(bs))>>
Frames(parts, prio) ==
    [i \in 1..Len(parts) |->
        IF i = 1 THEN Fm(THeaders, (IF Len(parts) = 1 THEN 4 ELSE 0) + (IF prio THEN 32 + 8 ELSE 0), S1,
                         (IF prio THEN B(<<2, 0, 0, 0, 3, 200>>) ELSE <<>>) \o B(parts[1]) \o (IF prio THEN Z(2) ELSE <<>>))
        ELSE Fm(TCont, IF i = Len(parts) THEN 4 ELSE 0, S1, B(parts[i]))]
Cuts(n) == (IF ManyCuts THEN {0, 1, n \div 2, n - 1, n} ELSE {1, n \div 2, n - 1}) \cap 0..n
Blocks == UNION {
    LET bs == Concat(its)  n == Len(bs)  full == ManyCuts \/ Len(its) < 2 IN
        {Frames(<<bs>>, FALSE)} \cup (IF full THEN {Frames(<<bs>>, TRUE)} ELSE {})
        \cup {Frames(Split2(bs, a), FALSE) : a \in (IF full THEN Cuts(n) ELSE {n \div 2}) \cap 0..n}
        \cup {Frames(Split3(bs, a, b), FALSE) : a \in (IF ManyCuts THEN {1, n \div 2} ELSE {1}) \cap 0..n,
                                                   b \in (IF ManyCuts THEN {n \div 2, n - 1} ELSE {n - 1}) \cap 1..n}
        \cup (IF n > 1 /\ full THEN {Frames(<<SubSeq(bs, 1, n - 1)>>, FALSE), Frames(Split2(SubSeq(bs, 1, n - 1), 1), FALSE)} ELSE {})
    : its \in SeqsUpTo(Items, MaxItems)}
Trailer(b) == {<<Fm(TPing, 0, ZeroW, O("data", 0, 8))>>} \cup (IF Len(b) = 1 THEN {<<>>, <<Fm(TCont, 4, S1, <<>>)>>} ELSE {})

\* ------------------------------------------------------------------ enumeration
Init == /\ phase = "root" /\ fs = <<>>
        /\ cfg \in (IF "order" \in Kinds THEN OrderCfgs ELSE {}) \cup (IF "meta" \in Kinds THEN MetaCfgs ELSE {})

Dead(c, f) == LET rs == Reads(c, [expect |-> ZeroW], f) IN rs[Len(rs)].cls # "EOF" \/ rs[Len(rs)].used # 0

Next ==
    \/ /\ cfg.kind = "order" /\ phase \in {"root", "build"} /\ Len(fs) < Depth
       /\ \E a \in (IF Len(fs) >= CoreFrom THEN CoreAlphabet ELSE Alphabet) :
            /\ fs' = Append(fs, a)
            /\ phase' = IF \/ Len(fs') = Depth \/ Dead(cfg, fs')
                            \/ (~ManyCuts /\ Len(fs') >= CoreFrom /\ fs'[1] \notin CoreAlphabet)   \* quick: longer only after a core frame
                         THEN "done" ELSE "build"
       /\ UNCHANGED cfg
    \/ /\ cfg.kind = "meta" /\ phase = "root"
       /\ \E b \in Blocks : \E t \in Trailer(b) : fs' = b \o t
       /\ phase' = "done" /\ UNCHANGED cfg

Spec == Init /\ [][Next]_vars

Beh == LET rs == Reads(cfg, [expect |-> ZeroW], fs) IN
       [cfg |-> cfg, frames |-> fs,
        reads |-> [i \in 1..Len(rs) |-> [cls |-> rs[i].cls, allowed |-> rs[i].allowed, used |-> rs[i].used,
                                        f |-> rs[i].f, ismeta |-> rs[i].ismeta, fields |-> rs[i].fields,
                                        truncated |-> rs[i].truncated]]]

\* the mechanism meets the property level on this input
Sound == phase = "root" \/ WalkOK(cfg, ZeroW, fs, Reads(cfg, [expect |-> ZeroW], fs))
Export == phase # "done" \/ ~DoPrint \/ PrintT(<<"BEH", ToJson(Beh)>>)
=============================================================================
