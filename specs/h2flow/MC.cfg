SPECIFICATION Spec
CONSTANTS
  Streams = {1}
  MaxInt = 3
  Enforce = {"send", "credit", "recv"}
  MCw = 2
  MCmf = 1
  MCn = 1
  MCrefresh = 2
INVARIANTS Conservation CreditBounded SentWithinWritten QuiescentCredit
PROPERTIES NoOverdraw
CHECK_DEADLOCK FALSE
VIEW mcView
