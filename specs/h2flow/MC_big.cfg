SPECIFICATION Spec
CONSTANTS
  Streams = {1}
  MaxInt = 4
  Enforce = {"send", "credit", "recv"}
  MCw = 3
  MCmf = 2
  MCn = 1
  MCrefresh = 2
INVARIANTS Conservation CreditBounded SentWithinWritten QuiescentCredit
PROPERTIES NoOverdraw
CHECK_DEADLOCK FALSE
VIEW mcView
