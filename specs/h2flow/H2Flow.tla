------------------------------- MODULE H2Flow -------------------------------
(* HTTP/2 flow control of ONE endpoint E (the golang.org/x/net/http2 server or     *)
(* Transport) talking to a peer P, seen at the frame level plus E's application     *)
(* calls.  E is sender of DATA (C08 server, C09 Transport) and receiver of DATA     *)
(* (C10 credit conservation, C11 window enforcement).                               *)
(*                                                                                  *)
(* Sender half.   pcw, piw + sdelta[s] are the send windows exactly as P defines    *)
(* them (RFC 9113 6.9): 65535 / SETTINGS_INITIAL_WINDOW_SIZE plus WINDOW_UPDATEs     *)
(* minus DATA already sent; pmf is P's SETTINGS_MAX_FRAME_SIZE.                      *)
(* Receiver half. ca, siw + rdelta[s] are E's receive windows as P sees them        *)
(* (advertised credit minus DATA sent by P).  unread[s] are payload bytes buffered   *)
(* for the application; cu is credit E has got back (application reads, padding,     *)
(* discarded DATA, buffers of closed streams) and not yet returned to P.  E may      *)
(* return credit in any batches (SendWU with any inc <= cu): the batching policy is  *)
(* not fixed, only that nothing is invented (inc <= cu) and that at a quiescent      *)
(* point less than MinRefresh is withheld.                                           *)
EXTENDS Integers, Sequences, FiniteSets, FiniteSetsExt, TLC

CONSTANTS Streams,       \* stream identifiers
          MaxInt,        \* 2^31-1 (or a small bound for model checking)
          Enforce,       \* subset of {"send", "credit", "recv"}: which halves are judged
          MCw, MCmf, MCn, MCrefresh   \* bounds used only by Init/Next (model checking)

VARIABLES
    \* sender half
    pcw, piw, pmf, sdelta, appw, sentb, sst,
    \* receiver half
    W, ca, siw, rdelta, unread, rdoff, rst, cu, su, minRefresh,
    \* connection
    dev,      \* named deviations of the real code that were taken (known findings), see DevReadAfterGone
    owe,      \* obligations: FLOW_CONTROL reactions E still has to show: records [s |-> id or 0]
    dead      \* E has sent GOAWAY with an error / closed the connection

vars == <<pcw, piw, pmf, sdelta, appw, sentb, sst, W, ca, siw, rdelta, unread, rdoff, rst, cu, su,
          minRefresh, owe, dead, dev>>
(* model-checking VIEW: the read offset is an observation, not state *)
mcView == <<pcw, piw, pmf, sdelta, appw, sentb, sst, W, ca, siw, rdelta, unread, rst, cu, su, minRefresh, owe, dead, dev>>
sendVars == <<pcw, piw, pmf, sdelta, appw, sentb, sst>>
recvVars == <<W, ca, siw, rdelta, unread, rdoff, rst, cu, su, minRefresh>>

Judged(h) == h \in Enforce

SW(s) == piw + sdelta[s]               \* stream send window as P defines it
RW(s) == siw + rdelta[s]               \* stream receive window as P sees it
Min2(a, b) == IF a < b THEN a ELSE b
Sum(f, S) == FoldSet(LAMBDA x, acc : f[x] + acc, 0, S)

(* send-side stream states: idle -> open -> done (END_STREAM or RST sent / reset by P)      *)
(* receive-side: idle -> open (body accepts DATA) -> noBody (application closed the body,   *)
(*   buffered bytes stay charged until the stream goes away) / ended (P sent END_STREAM)    *)
(*   -> gone (E dropped the stream: everything buffered is credited back)                   *)

InitWith(w, cw, iw, mf, rcw, riw, mr) ==
    /\ pcw = cw /\ piw = iw /\ pmf = mf
    /\ sdelta = [s \in Streams |-> 0] /\ appw = [s \in Streams |-> 0] /\ sentb = [s \in Streams |-> 0]
    /\ sst = [s \in Streams |-> "idle"]
    /\ W = w /\ ca = rcw /\ siw = riw /\ rdelta = [s \in Streams |-> 0]
    /\ unread = [s \in Streams |-> 0] /\ rdoff = [s \in Streams |-> 0]
    /\ rst = [s \in Streams |-> "idle"] /\ cu = w - rcw /\ minRefresh = mr
    /\ su = [s \in Streams |-> 0]
    /\ owe = {} /\ dead = FALSE /\ dev = {}

-----------------------------------------------------------------------------
(* Stream creation (server: P's HEADERS; Transport: E's own HEADERS).  hasBody = the     *)
(* receive side expects DATA (request without END_STREAM / response).                    *)
StreamOpen(s, hasBody) ==
    /\ sst[s] = "idle" /\ rst[s] = "idle"
    /\ sst' = [sst EXCEPT ![s] = "open"]
    /\ rst' = [rst EXCEPT ![s] = IF hasBody THEN "open" ELSE "ended"]
    /\ UNCHANGED <<pcw, piw, pmf, sdelta, appw, sentb, W, ca, siw, rdelta, unread, rdoff, cu, su, minRefresh, owe, dead, dev>>

(* ---------------- sender half ---------------- *)
(* P's WINDOW_UPDATE.  A window may not exceed MaxInt: E must answer with a               *)
(* FLOW_CONTROL error (stream or connection); the window is then left unchanged.          *)
PeerWU(s, inc) ==
    /\ inc > 0
    /\ IF s = 0
       THEN IF pcw <= MaxInt - inc
            THEN pcw' = pcw + inc /\ UNCHANGED <<sdelta, owe>>
            ELSE owe' = owe \cup {[s |-> 0, h |-> "send"]} /\ UNCHANGED <<pcw, sdelta>>
       ELSE IF sst[s] # "open" THEN UNCHANGED <<pcw, sdelta, owe>>      \* ignored on closed streams
            ELSE IF SW(s) <= MaxInt - inc
                 THEN sdelta' = [sdelta EXCEPT ![s] = @ + inc] /\ UNCHANGED <<pcw, owe>>
                 ELSE owe' = owe \cup {[s |-> s, h |-> "send"]} /\ UNCHANGED <<pcw, sdelta>>
    /\ UNCHANGED <<piw, pmf, appw, sentb, sst, dead, dev>> /\ UNCHANGED recvVars

(* P's SETTINGS: initial window (all stream windows shift, possibly below zero) and/or    *)
(* max frame size.                                                                        *)
PeerSettings(iw, mf) ==
    /\ piw' = iw /\ pmf' = mf
    /\ IF \E s \in Streams : sst[s] = "open" /\ iw > piw /\ SW(s) > MaxInt - (iw - piw)
       THEN owe' = owe \cup {[s |-> 0, h |-> "send"]} ELSE owe' = owe
    /\ UNCHANGED <<pcw, sdelta, appw, sentb, sst, dead, dev>> /\ UNCHANGED recvVars

(* The application hands n more bytes of body for stream s to E.                          *)
AppWrite(s, n) ==
    /\ n >= 0
    /\ appw' = [appw EXCEPT ![s] = IF sst[s] = "open" THEN @ + n ELSE @]   \* writes to a finished stream fail
    /\ UNCHANGED <<pcw, piw, pmf, sdelta, sentb, sst, owe, dead, dev>> /\ UNCHANGED recvVars

(* E sends DATA(s, n, END_STREAM = es).  This is C08 / C09.                                *)
SendDataOK(s, n) ==
    /\ n <= pmf
    /\ n = 0 \/ (n <= pcw /\ n <= SW(s))
    /\ sentb[s] + n <= appw[s]
SendData(s, n, es) ==
    /\ sst[s] = "open" /\ n >= 0
    /\ Judged("send") => SendDataOK(s, n)
    /\ pcw' = pcw - n
    /\ sdelta' = [sdelta EXCEPT ![s] = @ - n]
    /\ sentb' = [sentb EXCEPT ![s] = @ + n]
    /\ sst' = [sst EXCEPT ![s] = IF es THEN "done" ELSE @]
    /\ UNCHANGED <<piw, pmf, appw, owe, dead, dev>> /\ UNCHANGED recvVars

(* The send side of s ends without DATA (HEADERS with END_STREAM, RST either way).         *)
SendEnd(s) ==
    /\ sst' = [sst EXCEPT ![s] = IF @ = "idle" THEN @ ELSE "done"]
    /\ UNCHANGED <<pcw, piw, pmf, sdelta, appw, sentb, owe, dead, dev>> /\ UNCHANGED recvVars

(* ---------------- receiver half ---------------- *)
Refund(n) == cu' = cu + n

(* P sends DATA(s, len bytes of flow-controlled payload of which pad are padding).         *)
(* C11: beyond an advertised window => E owes a FLOW_CONTROL reaction and nothing is       *)
(* delivered or charged (accept = FALSE: the frame is refused for another reason, e.g. beyond  *)
(* the declared Content-Length; then only the connection window is involved).  Otherwise the frame is charged to both windows; its payload is   *)
(* buffered if the body accepts it, and everything else (padding, DATA for a body that     *)
(* no longer accepts it) is credit E got back at once.                                     *)
(* su[s] bounds the stream-level credit E has earned (reads, padding) and P has not yet seen  *)
(* in a WINDOW_UPDATE: E applies such credit to the window it enforces when it QUEUES the      *)
(* update, and a stream's update can sit behind that stream's flow-blocked DATA.  So E's       *)
(* enforced stream window lies in RW(s) .. RW(s)+su[s]: a frame beyond RW(s)+su[s] must be      *)
(* refused, one within RW(s) must be accepted, in between either is legal.                     *)
StreamChecked(s, accept) == rst[s] \in {"open", "noBody"} /\ accept
PeerDataRefused(s) ==
    /\ owe' = owe \cup {[s |-> s, h |-> "recv"]}
    /\ UNCHANGED <<ca, rdelta, unread, cu, su, rst>>
PeerDataTaken(s, len, pad, es, accept) ==
    /\ ca' = ca - len
    /\ IF (rst[s] = "open" /\ accept) \/ (rst[s] = "noBody" /\ accept /\ len = pad)
       \* (a frame of pure padding carries nothing the closed body could refuse: its padding
       \*  is credited at both levels like on an open stream)
       THEN /\ rdelta' = [rdelta EXCEPT ![s] = @ - len]
            /\ unread' = [unread EXCEPT ![s] = @ + (len - pad)]
            /\ Refund(pad)
            /\ su' = [su EXCEPT ![s] = @ + pad]
       ELSE /\ rdelta' = IF rst[s] = "noBody" /\ accept THEN [rdelta EXCEPT ![s] = @ - len] ELSE rdelta
            /\ unread' = unread
            /\ Refund(len)
            /\ su' = su
    /\ rst' = [rst EXCEPT ![s] = IF es /\ @ \in {"open", "noBody"} THEN "ended" ELSE @]
    (* DATA after P's own END_STREAM is P's protocol violation (RFC 9113 5.1): E refuses it with *)
    (* an error of its choosing (STREAM_CLOSED, or FLOW_CONTROL_ERROR if it still counts the     *)
    (* frame against the stream window).  The "late" mark is never judged; it only makes a      *)
    (* FLOW_CONTROL reaction on s admissible.                                                    *)
    /\ owe' = IF rst[s] = "ended" /\ len > 0 THEN owe \cup {[s |-> s, h |-> "late"]} ELSE owe
PeerData(s, len, pad, es, accept) ==
    /\ len >= 0 /\ pad >= 0 /\ pad <= len
    /\ IF len > ca \/ (StreamChecked(s, accept) /\ len > RW(s) + su[s])
       THEN PeerDataRefused(s)
       ELSE IF (StreamChecked(s, accept) /\ len > RW(s)) \/ (rst[s] = "ended" /\ len > 0)
            \* (DATA after P's own END_STREAM: E may still hold the stream open - e.g. when the
            \*  application had closed the body before END_STREAM arrived - and refuse the frame
            \*  against the stream window it enforces, which the spec no longer tracks for s)
            THEN PeerDataRefused(s) \/ PeerDataTaken(s, len, pad, es, accept)
            ELSE PeerDataTaken(s, len, pad, es, accept)
    /\ UNCHANGED <<W, siw, rdoff, minRefresh, dead, dev>> /\ UNCHANGED sendVars

(* The application reads n buffered bytes of s: they become credit.                        *)
AppRead(s, n) ==
    /\ n > 0 /\ n <= unread[s]
    /\ unread' = [unread EXCEPT ![s] = @ - n]
    /\ rdoff' = [rdoff EXCEPT ![s] = @ + n]
    /\ Refund(n)
    /\ su' = [su EXCEPT ![s] = @ + n]
    /\ UNCHANGED <<W, ca, siw, rdelta, rst, minRefresh, owe, dead, dev>> /\ UNCHANGED sendVars

(* The application closes the body: later DATA is not buffered any more.                   *)
AppCloseBody(s) ==
    /\ rst' = [rst EXCEPT ![s] = IF @ = "open" THEN "noBody" ELSE @]
    /\ UNCHANGED <<W, ca, siw, rdelta, unread, rdoff, cu, su, minRefresh, owe, dead, dev>> /\ UNCHANGED sendVars

(* Variant used by the Transport: closing the response body discards what is buffered at once. *)
AppCloseBodyDiscard(s) ==
    /\ rst' = [rst EXCEPT ![s] = IF @ = "open" THEN "noBody" ELSE @]
    /\ Refund(unread[s])
    /\ unread' = [unread EXCEPT ![s] = 0]
    /\ UNCHANGED <<W, ca, siw, rdelta, rdoff, su, minRefresh, owe, dead, dev>> /\ UNCHANGED sendVars

(* The connection is gone (E closed it): nothing more can be owed on the wire.                *)
ConnClosed ==
    /\ dead' = TRUE /\ owe' = {}
    /\ UNCHANGED dev /\ UNCHANGED sendVars /\ UNCHANGED recvVars

(* E forgets stream s (closed both ways, reset, aborted): whatever is still buffered is    *)
(* credit again.                                                                           *)
StreamGone(s) ==
    /\ rst[s] # "gone"
    /\ rst' = [rst EXCEPT ![s] = "gone"]
    /\ Refund(unread[s])
    /\ unread' = [unread EXCEPT ![s] = 0]
    /\ UNCHANGED <<pcw, piw, pmf, sdelta, appw, sentb, sst, W, ca, siw, rdelta, rdoff, su, minRefresh, owe, dead, dev>>

(* Known deviation of the real server (finding F9, C10): closeStream credits the bytes still   *)
(* buffered in the request body AND leaves them readable; when the handler reads them later  *)
(* they are credited a second time.  The step is modelled so that the rest of the trace can  *)
(* still be judged; taking it is recorded in dev and reported through NoDeviation.           *)
DevReadAfterGone(s, n) ==
    /\ rst[s] = "gone" /\ n > 0
    /\ Refund(n)
    /\ dev' = dev \cup {"F9-server-read-after-stream-close-credited-twice"}
    /\ UNCHANGED <<W, ca, siw, rdelta, unread, rdoff, rst, su, minRefresh, owe, dead>> /\ UNCHANGED sendVars

(* E returns credit.  C10: never more than it holds (cu), never past the configured        *)
(* window or 2^31-1.                                                                       *)
SendWU(s, inc) ==
    /\ inc > 0
    /\ IF s = 0
       THEN /\ Judged("credit") => (inc <= cu /\ ca <= MaxInt - inc)
            /\ ca' = ca + inc /\ cu' = cu - inc /\ rdelta' = rdelta /\ su' = su
       ELSE /\ Judged("credit") => RW(s) <= MaxInt - inc
            /\ rdelta' = [rdelta EXCEPT ![s] = @ + inc] /\ UNCHANGED <<ca, cu>>
            /\ su' = [su EXCEPT ![s] = IF @ > inc THEN @ - inc ELSE 0]
    /\ UNCHANGED <<W, siw, unread, rdoff, rst, minRefresh, owe, dead, dev>> /\ UNCHANGED sendVars

(* E reports an error.  A FLOW_CONTROL error must be owed (C11: DATA within the window      *)
(* is always accepted; C08/C09: a legal WINDOW_UPDATE is never refused).                    *)
Owed(s) == \E o \in owe : o.s = s
SendRST(s, flowControl) ==
    /\ flowControl /\ (Judged("recv") \/ Judged("send")) => Owed(s)
    /\ owe' = {o \in owe : o.s # s}
    /\ sst' = [sst EXCEPT ![s] = IF @ = "idle" THEN @ ELSE "done"]
    /\ UNCHANGED <<pcw, piw, pmf, sdelta, appw, sentb, dead, dev>> /\ UNCHANGED recvVars

SendGoAway(flowControl) ==
    /\ flowControl /\ (Judged("recv") \/ Judged("send")) => owe # {}
    /\ owe' = {}
    /\ dead' = TRUE
    /\ UNCHANGED dev /\ UNCHANGED sendVars /\ UNCHANGED recvVars

(* Quiescent point: every goroutine of E is blocked.  live = streams E still knows.         *)
(*  - C08/C09 "eventually sent": no stream has pending application bytes while both of its  *)
(*    windows are positive.                                                                 *)
(*  - C10: less than MinRefresh of credit is withheld.                                      *)
(*  - C11: no owed FLOW_CONTROL reaction is still missing.                                  *)
Pending(s) == sst[s] = "open" /\ rst[s] # "gone" /\ appw[s] > sentb[s]
QuiesceOK ==
    /\ Judged("send") => \A s \in Streams : Pending(s) => (pcw <= 0 \/ SW(s) <= 0)
    /\ Judged("credit") => cu < minRefresh
    /\ \A o \in owe : ~Judged(o.h)

-----------------------------------------------------------------------------
(* Closed system for model checking: P and the application are arbitrary, E's choices       *)
(* (how much DATA to send, when and how much credit to return) are arbitrary within the     *)
(* guards; E is obliged to return credit once cu >= minRefresh (MustRefresh), which is      *)
(* what makes quiescent points satisfy QuiesceOK.                                           *)
Init == InitWith(MCw, MCw, MCw, MCmf, MCw, MCw, MCrefresh)

MustRefresh == cu >= minRefresh

Next ==
    /\ ~dead
    /\ \/ \E s \in Streams, b \in BOOLEAN : StreamOpen(s, b)
       \/ ~MustRefresh /\ \E s \in Streams \cup {0}, inc \in 1..MCn : PeerWU(s, inc)
       \/ ~MustRefresh /\ \E iw \in 0..MCw, mf \in 1..MCmf : PeerSettings(iw, mf)
       \/ ~MustRefresh /\ \E s \in Streams, n \in 1..MCn : appw[s] < MCn /\ AppWrite(s, n)
       \/ ~MustRefresh /\ \E s \in Streams, n \in 0..MCn, es \in BOOLEAN : SendDataOK(s, n) /\ SendData(s, n, es)
       \/ ~MustRefresh /\ \E s \in Streams, len \in 0..MCn, pad \in 0..1, es, acc \in BOOLEAN :
              rst[s] # "idle" /\ su[s] + pad <= MCw /\ PeerData(s, len, pad, es, acc)
       \/ ~MustRefresh /\ \E s \in Streams, n \in 1..MCn : su[s] + n <= MCw /\ AppRead(s, n)
       \/ ~MustRefresh /\ \E s \in Streams : rst[s] = "open" /\ AppCloseBody(s)
       \/ ~MustRefresh /\ \E s \in Streams : rst[s] = "open" /\ AppCloseBodyDiscard(s)
       \/ ~MustRefresh /\ \E s \in Streams : rst[s] \notin {"idle", "gone"} /\ StreamGone(s)
       \/ \E inc \in 1..cu : ca <= MaxInt - inc /\ SendWU(0, inc)
       \/ \E s \in Streams : \E inc \in 1..su[s] : RW(s) <= MaxInt - inc /\ SendWU(s, inc)
       \/ \E s \in Streams : Owed(s) /\ SendRST(s, TRUE)
       \/ owe # {} /\ SendGoAway(TRUE)

Spec == Init /\ [][Next]_vars

(* Design-level properties. *)
Conservation == W = ca + cu + Sum(unread, Streams)      \* no credit is lost or invented
CreditBounded == ca <= W /\ ca <= MaxInt /\ cu >= 0 /\ \A s \in Streams : unread[s] >= 0
SentWithinWritten == \A s \in Streams : sentb[s] <= appw[s]
NoOverdraw == [][\A s \in Streams : sentb'[s] > sentb[s] =>
                    (sentb'[s] - sentb[s] <= pmf /\ pcw' >= 0 /\ piw + sdelta'[s] >= 0)]_vars
(* every state without an urgent refresh is a legal quiescent point for credit *)
QuiescentCredit == ~MustRefresh => cu < minRefresh
NoDeviation == dev = {}
=============================================================================
