# Family hooks for wshandshake (X13, X14).
#
# signature(): the trace specs accept every step and put the name of the offended clause of the
# contract into the variable `bad`; a finding is named by the role, that clause and its detail (for
# example `X13;server;accepted-must-reject;connection-without-upgrade-token`), so that one defect of
# golang/net has one name whatever the spelling of the head that showed it, and a different
# violation of the same property is still reported as new.
import json
import re


def _bad(detail):
    what = (detail or {}).get("what", "")
    m = re.search(r"state=(\{.*\})\s*$", what)
    if not m:
        return None
    try:
        bad = json.loads(m.group(1)).get("bad")
    except Exception:
        return None
    if not bad:
        return None
    words = re.findall(r'[A-Za-z0-9][A-Za-z0-9_.:-]*', bad)
    return ";".join(words) if words else None


def signature(prop, kind, scenario, detail):
    if kind != "trace" or not isinstance(scenario, dict) or not scenario.get("lines"):
        return None
    lines = scenario["lines"]
    role = lines[0].get("kind", "?")
    last = lines[-1]
    if last.get("e") in ("panic", "hang"):
        return "%s;%s;%s;%s" % (prop, role, last.get("e"), last.get("op", ""))
    b = _bad(detail)
    if b:
        if role == "closing":
            h = lines[0]
            peers = "both-real" if h.get("realc") and h.get("reals") else ("raw-client" if not h.get("realc") else "raw-server")
            return "%s;%s;%s;%s;%s" % (prop, h.get("flow"), peers, last.get("e"), b)
        return "%s;%s;%s" % (prop, role, b)
    return "%s;%s;unmatched;%s" % (prop, role, last.get("e"))


# --------------------------------------------------------------------------- custom stage
# record_validate plus the per-action coverage the trace specs count in their postcondition (COVER lines:
# which action of the specification, with which outcome class, occurred in validated steps).  The
# numbers go into the evidence (coverage.action_coverage); an action outcome the real code can show
# that no trace of the run reached is logged as COVERAGE-GAP (a weakness of the run, not a verdict).
EXPECTED = {
    "X13": ["server/accept", "server/reject:method", "server/reject:upgrade", "server/reject:key",
            "server/reject:version", "server/reject:origin", "server/reject:proto",
            "client/request", "client/ok", "client/status", "client/upgrade", "client/challenge",
            "client/ext", "client/proto", "client/authority", "client/config-version", "client/nonce", "client/dial-refused"],
    "X14": ["send/frame", "send/refused", "recv/msg", "recv/eof", "recv/block", "close/frame", "close/silent",
            "inject", "rawclose", "hret"],
}


def record_validate_cover(ctx, st):
    import stages
    from vlib import log

    orig = stages.validate_traces
    got = {}

    def wrapped(c, s, lines):
        res = orig(c, s, lines)
        got["r"] = res[3]
        return res

    stages.validate_traces = wrapped
    try:
        stages.stage_record_validate(ctx, st)
    finally:
        stages.validate_traces = orig
    r = got.get("r")
    if r is None:
        return
    cover = ctx.extra.setdefault("action_coverage", {})
    for p in r.prints:
        if p[0] == "COVER" and len(p) >= 3:
            cover[p[1]] = cover.get(p[1], 0) + int(p[2])
    want = EXPECTED.get(ctx.prop, [])
    gaps = [k for k in want if not cover.get(k)]
    log("[cover] %d of %d action outcomes occurred in validated steps: %s" %
        (len(want) - len(gaps), len(want), ", ".join("%s=%d" % (k, cover[k]) for k in sorted(cover))))
    if gaps:
        log("COVERAGE-GAP property=%s: no validated step for %s" % (ctx.prop, ", ".join(gaps)))
        ctx.notes.append("action outcomes not reached in this run: " + ", ".join(gaps))
