SPECIFICATION Spec
CONSTANTS
  W = 3
  Roles = {"server", "client"}
  PairS = {"c", "v", "cfg", "p", "k"}
  PairC = {"a", "p", "cp", "st"}
INVARIANTS DecisionAdmitted AcceptImpliesRFC VersionAnswered SuccessImpliesRFC ChecksWellFormed Emit
CHECK_DEADLOCK FALSE
