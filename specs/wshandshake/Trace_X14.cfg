SPECIFICATION TSpec
CONSTANTS
  MaxOps = 0
  Sessions <- NoSessions
CONSTRAINT Mark
POSTCONDITION Post
CHECK_DEADLOCK FALSE
INVARIANT NoFinding
