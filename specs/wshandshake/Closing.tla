------------------------------- MODULE Closing -------------------------------
(* The closing handshake of RFC 6455 (sections 1.4, 5.5.1, 7.1, 7.4) and the state of a          *)
(* golang.org/x/net/websocket Conn after Close / after a protocol error (X14).                   *)
(*                                                                                               *)
(* Two ends "c" (client role) and "s" (server role), each a real Conn or a scripted raw peer,      *)
(* joined by two byte pipes seen as queues of frames.  Per real end: whether its transport is      *)
(* closed (Conn.Close, or the server library after the handler returned), whether its reader has   *)
(* met the end (a Close frame, or a frame whose masking contradicts the writer's role), how many   *)
(* Close frames it has written, and whether it still owes the peer a Close frame.                 *)
(*                                                                                               *)
(* Every operation of the application is an action whose *observation* (bytes that reached the     *)
(* wire, result class) is a parameter: XxxVerdict names the clause the observation offends         *)
(* (<<>> = none), XxxStep is the next state.  The generator part (below) explores the machine with *)
(* the observations the contract prescribes and exports one history per reachable abstract state.  *)
EXTENDS Integers, Sequences, FiniteSets, TLC, Bitwise

Ends == {"c", "s"}
Peer(r) == IF r = "c" THEN "s" ELSE "c"
MustMask(r) == r = "c"                     \* RFC 6455 5.1: client-to-server frames are masked, the others are not

StatusNormal == <<3, 232>>                 \* 1000
StatusProto  == <<3, 234>>                 \* 1002
EOT == [k |-> "eot", pl |-> <<>>, ok |-> TRUE]     \* the writer closed its transport

VARIABLES real,      \* real[r]: r is a real Conn (otherwise the scripted raw peer)
          flow,      \* "direct": Conns made by newHybi*Conn; "handler": the server Conn lives inside Server.ServeHTTP
          wire,      \* wire[r]: frames travelling towards r, not yet consumed
          out,       \* ghost: everything ever written towards r
          tclosed,   \* tclosed[r]: r closed its transport
          eof,       \* eof[r]: "no" | "close" (reader met a Close frame) | "proto" (reader met a masking violation)
          nclose,    \* Close frames r has written
          owes,      \* r has received a Close frame and not written one yet
          hist       \* generator: the operations so far
vars == <<real, flow, wire, out, tclosed, eof, nclose, owes, hist>>

(* ----------------------------------------------------------------------- frames on the wire *)
KindOf(op) == CASE op \in {1, 2} -> "data" [] op = 0 -> "cont" [] op = 8 -> "close" [] op = 9 -> "ping"
                [] op = 10 -> "pong" [] OTHER -> "unknown"
BadF == [k |-> "garbage", fin |-> FALSE, rsv |-> 0, masked |-> FALSE, pl |-> <<>>]

\* short frames (payload below 126 bytes) from raw bytes, payload unmasked
RECURSIVE ParseFrames(_)
ParseFrames(b) ==
    IF b = <<>> THEN <<>>
    ELSE IF Len(b) < 2 THEN <<BadF>>
    ELSE LET masked == b[2] >= 128
             n      == b[2] % 128
             hl     == 2 + (IF masked THEN 4 ELSE 0)
         IN IF n > 125 \/ Len(b) < hl + n THEN <<BadF>>
            ELSE LET raw == SubSeq(b, hl + 1, hl + n)
                     pl  == IF masked THEN [i \in 1..n |-> raw[i] ^^ b[3 + ((i - 1) % 4)]] ELSE raw
                 IN <<[k |-> KindOf(b[1] % 16), fin |-> b[1] >= 128, rsv |-> (b[1] % 128) \div 16,
                       masked |-> masked, pl |-> pl]>> \o ParseFrames(SubSeq(b, hl + n + 1, Len(b)))

\* a written frame as the reader at the other side will see it
Abs(writer, f) == [k |-> f.k, pl |-> f.pl, ok |-> f.masked = MustMask(writer)]
AbsAll(writer, wf) == [i \in DOMAIN wf |-> Abs(writer, wf[i])]
RoleOK(r, wf) == \A i \in DOMAIN wf : wf[i].fin /\ wf[i].rsv = 0 /\ wf[i].masked = MustMask(r)
NClose(wf) == Cardinality({i \in DOMAIN wf : wf[i].k = "close"})

\* what the reader of r meets next: PINGs on the way are answered, PONGs dropped
RECURSIVE Walk(_, _)
Walk(q, pongs) ==
    IF q = <<>> THEN [k |-> "block", pl |-> <<>>, pongs |-> pongs, rest |-> <<>>]
    ELSE LET f == Head(q) IN
         IF f.k = "eot" THEN [k |-> "eot", pl |-> <<>>, pongs |-> pongs, rest |-> q]
         ELSE IF ~f.ok THEN [k |-> "bad", pl |-> <<>>, pongs |-> pongs, rest |-> Tail(q)]
         ELSE IF f.k = "ping" THEN Walk(Tail(q), Append(pongs, f.pl))
         ELSE IF f.k = "pong" THEN Walk(Tail(q), pongs)
         ELSE [k |-> f.k, pl |-> f.pl, pongs |-> pongs, rest |-> Tail(q)]

Put(w, to, fs) == [w EXCEPT ![to] = @ \o fs]

(* ----------------------------------------------------------------------- Receive *)
(* res: "msg" | "eof" (io.EOF) | "block" (nothing to read) | other error text; m: the message;    *)
(* wf: the frames the call wrote (parsed from the raw bytes).                                     *)
RecvVerdict(r, res, m, wf) ==
    LET w     == Walk(wire[r], <<>>)
        np    == Len(w.pongs)
        extra == SubSeq(wf, np + 1, Len(wf))
    IN
    IF eof[r] # "no"
    THEN \* RFC 1.4 / 5.5.1: after a Close frame (or after failing the connection) nothing further is delivered
         IF res = "msg" THEN <<"message-after-end", eof[r]>>
         ELSE IF \E i \in DOMAIN wf : wf[i].k \in {"data", "cont"} THEN <<"data-frame-after-end">>
         ELSE <<>>
    ELSE IF ~RoleOK(r, wf) THEN <<"frame-shape">>
    ELSE IF Len(wf) < np \/ \E i \in 1..np : wf[i].k # "pong" \/ wf[i].pl # w.pongs[i] THEN <<"pong">>
    ELSE CASE w.k = "block" -> IF res = "block" /\ extra = <<>> THEN <<>> ELSE <<"recv-nothing-pending", res>>
           [] w.k = "eot"   -> IF res = "eof" /\ extra = <<>> THEN <<>> ELSE <<"recv-transport-end", res>>
           [] w.k \in {"data", "cont"} -> IF res = "msg" /\ m = w.pl /\ extra = <<>> THEN <<>> ELSE <<"recv-message", res>>
           \* a Close frame: the reader reports io.EOF; the Close frame owed in response (5.5.1) may be written
           \* here or by the application's Close (see `owes`)
           [] w.k = "close" -> IF res = "eof" /\ (extra = <<>> \/ (Len(extra) = 1 /\ extra[1].k = "close" /\ nclose[r] = 0))
                               THEN <<>> ELSE <<"recv-close", res>>
           \* masking violation: the connection is failed, optionally with a Close frame 1002 (7.1.7, 7.4.1)
           [] w.k = "bad"   -> IF res \notin {"msg", "block"}
                                  /\ (extra = <<>> \/ (Len(extra) = 1 /\ extra[1].k = "close" /\ extra[1].pl = StatusProto))
                               THEN <<>> ELSE <<"recv-violation", res>>
           [] OTHER -> <<"recv-unknown-frame", w.k>>

RecvStep(r, wf) ==
    LET w == Walk(wire[r], <<>>)
        nc == nclose[r] + NClose(wf) IN
    /\ nclose' = [nclose EXCEPT ![r] = nc]
    /\ out' = Put(out, Peer(r), AbsAll(r, wf))
    /\ IF eof[r] # "no"
       THEN /\ wire' = Put(wire, Peer(r), AbsAll(r, wf))
            /\ UNCHANGED <<eof, owes>>
       ELSE /\ wire' = Put([wire EXCEPT ![r] = w.rest], Peer(r), AbsAll(r, wf))
            /\ eof' = [eof EXCEPT ![r] = CASE w.k = "close" -> "close" [] w.k = "bad" -> "proto" [] OTHER -> "no"]
            /\ owes' = [owes EXCEPT ![r] = IF w.k = "close" THEN nc = 0 ELSE @]
    /\ UNCHANGED <<real, flow, tclosed>>

(* ----------------------------------------------------------------------- Close *)
(* wf: frames that reached the wire; tc: the transport is closed afterwards; err: "" = nil          *)
CloseVerdict(r, wf, tc, err) ==
    IF tclosed[r] THEN (IF wf # <<>> THEN <<"wrote-after-close">> ELSE <<>>)     \* idempotent in effect
    ELSE IF ~tc THEN <<"transport-left-open">>
    ELSE IF ~RoleOK(r, wf) THEN <<"frame-shape">>
    ELSE IF nclose[r] = 0
         \* one Close frame with status 1000 (closeStatusNormal), written before the transport is closed
         THEN (IF Len(wf) = 1 /\ wf[1].k = "close" /\ wf[1].pl = StatusNormal /\ err = "" THEN <<>>
               ELSE <<"close-frame", Len(wf)>>)
    \* a Close frame went out already (protocol error path): a second one is neither required nor excluded by the package
    ELSE IF wf = <<>> \/ (Len(wf) = 1 /\ wf[1].k = "close") THEN <<>> ELSE <<"close-frame-again", Len(wf)>>

CloseStep(r, wf) ==
    IF tclosed[r] THEN UNCHANGED <<real, flow, wire, out, tclosed, eof, nclose, owes>>
    ELSE /\ wire' = Put(wire, Peer(r), AbsAll(r, wf) \o <<EOT>>)
         /\ out' = Put(out, Peer(r), AbsAll(r, wf) \o <<EOT>>)
         /\ tclosed' = [tclosed EXCEPT ![r] = TRUE]
         /\ nclose' = [nclose EXCEPT ![r] = @ + NClose(wf)]
         /\ owes' = [owes EXCEPT ![r] = @ /\ nclose[r] + NClose(wf) = 0]
         /\ UNCHANGED <<real, flow, eof>>

(* ----------------------------------------------------------------------- Send *)
SendVerdict(r, pl, wf, err) ==
    IF tclosed[r]
    THEN IF wf # <<>> THEN <<"wrote-after-close">>                 \* no data frame after the Close frame of Close()
         ELSE IF err = "" THEN <<"send-after-close-reported-success">> ELSE <<>>
    ELSE IF Len(wf) = 1 /\ wf[1].k = "data" /\ wf[1].pl = pl /\ RoleOK(r, wf) /\ err = "" THEN <<>>
    ELSE <<"send", Len(wf)>>

SendStep(r, wf) ==
    /\ wire' = Put(wire, Peer(r), AbsAll(r, wf))
    /\ out' = Put(out, Peer(r), AbsAll(r, wf))
    /\ UNCHANGED <<real, flow, tclosed, eof, nclose, owes>>

(* ----------------------------------------------------------------------- the server handler returns *)
(* Server.serveWebSocket closes the transport.  RFC 5.5.1: an endpoint that received a Close frame   *)
(* and has not sent one MUST send one in response - at the latest now.                              *)
HRetVerdict(wf, tc) ==
    IF ~tc THEN <<"transport-left-open">>
    ELSE IF tclosed["s"] THEN (IF wf # <<>> THEN <<"wrote-after-close">> ELSE <<>>)
    ELSE IF ~RoleOK("s", wf) THEN <<"frame-shape">>
    ELSE IF owes["s"] THEN (IF Len(wf) = 1 /\ wf[1].k = "close" THEN <<>> ELSE <<"close-unanswered">>)
    ELSE IF wf = <<>> \/ (Len(wf) = 1 /\ wf[1].k = "close" /\ nclose["s"] = 0) THEN <<>> ELSE <<"handler-return-wrote", Len(wf)>>

HRetStep(wf) ==
    IF tclosed["s"] THEN UNCHANGED <<real, flow, wire, out, tclosed, eof, nclose, owes>>
    ELSE /\ wire' = Put(wire, "c", AbsAll("s", wf) \o <<EOT>>)
         /\ out' = Put(out, "c", AbsAll("s", wf) \o <<EOT>>)
         /\ tclosed' = [tclosed EXCEPT !["s"] = TRUE]
         /\ nclose' = [nclose EXCEPT !["s"] = @ + NClose(wf)]
         /\ owes' = [owes EXCEPT !["s"] = @ /\ NClose(wf) = 0]
         /\ UNCHANGED <<real, flow, eof>>

(* ----------------------------------------------------------------------- the raw peer *)
InjectStep(to, fs) ==
    /\ wire' = Put(wire, to, fs) /\ out' = Put(out, to, fs)
    /\ UNCHANGED <<real, flow, tclosed, eof, nclose, owes>>

InitWith(rc, rs, fl) ==
    /\ real = [r \in Ends |-> IF r = "c" THEN rc ELSE rs] /\ flow = fl
    /\ wire = [r \in Ends |-> <<>>] /\ out = [r \in Ends |-> <<>>]
    /\ tclosed = [r \in Ends |-> FALSE] /\ eof = [r \in Ends |-> "no"]
    /\ nclose = [r \in Ends |-> 0] /\ owes = [r \in Ends |-> FALSE]

(* ======================================================================= generator / model *)
CONSTANTS MaxOps,        \* operations per history
          Sessions       \* set of <<real client, real server, flow>>

\* the observation the contract prescribes (the code's choice where the contract leaves one):
\* frames are written with the writer's masking, FIN set
F(r, k, pl) == [k |-> k, fin |-> TRUE, rsv |-> 0, masked |-> MustMask(r), pl |-> pl]
ExpRecvFrames(r) ==
    LET w == Walk(wire[r], <<>>) IN
    IF eof[r] # "no" THEN <<>>
    ELSE [i \in DOMAIN w.pongs |-> F(r, "pong", w.pongs[i])]
         \o (IF w.k = "bad" THEN <<F(r, "close", StatusProto)>> ELSE <<>>)

\* what the raw peer may put on the wire towards `to` (ok: masked as its role demands)
RawFrames(to) ==
    { [k |-> "data",  pl |-> <<104, 105>>, ok |-> TRUE],                 \* "hi"
      [k |-> "ping",  pl |-> <<112>>, ok |-> TRUE],
      [k |-> "close", pl |-> <<>>, ok |-> TRUE],                          \* Close without status
      [k |-> "close", pl |-> StatusNormal, ok |-> TRUE],
      [k |-> "close", pl |-> <<3, 233, 98, 121, 101>>, ok |-> TRUE],      \* 1001 "bye"
      [k |-> "data",  pl |-> <<120>>, ok |-> FALSE] }                     \* wrong masking

Op(e, who, f) == [e |-> e, who |-> who, f |-> f]
NoF == [k |-> "", pl |-> <<>>, ok |-> TRUE]

GInit == /\ \E s \in Sessions : InitWith(s[1], s[2], s[3])
         /\ hist = <<>>

GSend(r) == /\ real[r] /\ ~(flow = "handler" /\ r = "c")
            /\ SendStep(r, IF tclosed[r] THEN <<>> ELSE <<F(r, "data", <<111, 107>>)>>)       \* "ok"
            /\ hist' = Append(hist, Op("send", r, NoF))
GRecv(r) == /\ real[r] /\ ~tclosed[r]
            /\ RecvStep(r, ExpRecvFrames(r))
            /\ hist' = Append(hist, Op("recv", r, NoF))
GClose(r) == /\ real[r]
             /\ CloseStep(r, IF tclosed[r] THEN <<>> ELSE <<F(r, "close", StatusNormal)>>)
             /\ hist' = Append(hist, Op("close", r, NoF))
RawOpen(to) == \A i \in DOMAIN out[to] : out[to][i].k # "eot"         \* the raw peer's own transport is open
GInject(to) == /\ ~real[Peer(to)] /\ real[to] /\ RawOpen(to)
               /\ \E f \in RawFrames(to) : InjectStep(to, <<f>>) /\ hist' = Append(hist, Op("inject", to, f))
GRawClose(to) == /\ ~real[Peer(to)] /\ real[to] /\ RawOpen(to)
                 /\ InjectStep(to, <<EOT>>)
                 /\ hist' = Append(hist, Op("rawclose", to, NoF))

GNext == /\ Len(hist) < MaxOps
         /\ \E r \in Ends : GSend(r) \/ GRecv(r) \/ GClose(r) \/ GInject(r) \/ GRawClose(r)
GSpec == GInit /\ [][GNext]_vars

GView == <<real, flow, wire, tclosed, eof, nclose, owes>>

(* ----------------------------------------------------------------------- design invariants *)
TypeOK == /\ \A r \in Ends : eof[r] \in {"no", "close", "proto"} /\ nclose[r] \in 0..2

\* Close() ends the stream: nothing is ever written behind the transport's end
NothingAfterEnd == \A r \in Ends : \A i \in DOMAIN out[r] : out[r][i].k = "eot" => i = Len(out[r])

\* a real end never writes a data frame after the Close frame of its Close()
NoDataAfterOwnClose ==
    \A r \in Ends : real[Peer(r)] /\ tclosed[Peer(r)] =>
        \A i, j \in DOMAIN out[r] : (i < j /\ out[r][i].k = "close" /\ out[r][i].pl = StatusNormal) => out[r][j].k # "data"

\* at most one Close frame per end by Close(), one more only after a protocol error
CloseCount == \A r \in Ends : real[r] => nclose[r] <= (IF eof[r] = "proto" THEN 2 ELSE 1)

\* a clean closing handshake between two real ends: once both have closed, each direction carries
\* exactly one Close frame, it is the last frame before the end, and nobody owes anything
CleanClose ==
    (real["c"] /\ real["s"] /\ tclosed["c"] /\ tclosed["s"] /\ eof["c"] # "proto" /\ eof["s"] # "proto") =>
       \A r \in Ends : /\ ~owes[r]
                       /\ Len(out[r]) >= 2 /\ out[r][Len(out[r]) - 1].k = "close"
                       /\ Cardinality({i \in DOMAIN out[r] : out[r][i].k = "close"}) = 1

\* an end that received a Close frame and then called Close has answered it
Answered == \A r \in Ends : real[r] /\ tclosed[r] /\ flow = "direct" => ~owes[r]
=============================================================================
