------------------------------- MODULE Trace -------------------------------
(* Trace validation for the opening handshake (X13).  One trace = one case executed on the real   *)
(* code: the head that was sent (lexed from the bytes that really went over the pipe), and what    *)
(* the real server / client did with it (its answer lexed from the raw bytes, what the handler /   *)
(* the caller saw).  Every step is accepted; the variable `bad` names the clause of WsHandshake    *)
(* that the observation offends (<<>> = none) and the invariant NoFinding rejects the trace.       *)
EXTENDS WsHandshake, TraceIO

VARIABLES cur, l, bad, key, seen, ph
tvars == <<cur, l, bad, key, seen, ph>>
Line == Trace[l]
Hd   == Trace[Meta.starts[cur]]

TInit == \E t \in 1..NT :
           /\ cur = t /\ l = Meta.starts[t] + 1
           /\ Trace[Meta.starts[t]].e = "head"
           /\ bad = <<>> /\ key = <<>> /\ seen = {} /\ ph = "start"

(* ----------------------------------------------------------------------- server *)
ErrClass(status, body) ==
    CASE body = "bad method" -> "method"
      [] body = "not websocket protocol" -> "upgrade"
      [] body = "mismatch challenge/response" -> "key"
      [] body = "missing or bad WebSocket Version" -> "version"
      [] body = "" /\ status = 403 -> "origin"
      [] body = "" -> "proto"
      [] OTHER -> "other"

\* the abstract outcome of what the server wrote and did
SrvObserved(x) ==
    LET hs == x.hdrs
        la == Lines(hs, HAccept)  lp == Lines(hs, HProto)  lu == Lines(hs, HUpgrade)  lc == Lines(hs, HConn)
        acc == x.status = 101 IN
    [acc |-> acc, status |-> x.status,
     cls |-> IF acc THEN "" ELSE ErrClass(x.status, x.body),
     accept |-> IF la = <<>> THEN <<>> ELSE la[1].vb,
     proto |-> Toks(hs, HProto),
     ext |-> Lines(hs, HExt) # <<>>,
     verhdr |-> "13" \in Range(Toks(hs, HVersion)),
     shape |-> /\ Len(lu) = 1 /\ lu[1].ltoks = <<"websocket">>
               /\ Len(lc) = 1 /\ "upgrade" \in Range(lc[1].ltoks)
               /\ Len(la) = 1 /\ Len(lp) <= 1 /\ (Len(lp) = 1 => Len(lp[1].toks) = 1)
               /\ x.proto = "HTTP/1.1" /\ x.isserver
               \* Config.Header fields are added, the mandatory ones are not overridden (they occur once, see above)
               /\ Hd.cfg.hdr => FirstLine(hs, "x-extra").v = "1",
     handler |-> x.handler, extra |-> x.extra, closed |-> x.closed, first |-> x.first]

THead(h) == [line |-> h.line, hdrs |-> h.hdrs, tail |-> h.tail]

TServer ==
    /\ Line.e = "sres" /\ Hd.kind = "server" /\ ph = "start"
    /\ LET h == THead(Hd)  cfg == Hd.cfg  o == SrvObserved(Line)
           \* the Handshake callback of the driver: what it found in config.Protocol and what it left there
           cbok == /\ Line.final = (IF Line.cb THEN Select(cfg.sel, Line.seen) ELSE <<>>)
                   /\ Range(Line.seen) \subseteq Range(cfg.preset) \cup Range(Offered(h))
       IN bad' = IF ~cbok THEN <<"callback-saw-foreign-protocols">>
                 ELSE IF ServerAllowed(h, cfg, Line.final, o) THEN <<>>
                 ELSE ServerWhy(h, cfg, Line.final, o)
    /\ ph' = "done" /\ UNCHANGED <<key, seen>>

(* ----------------------------------------------------------------------- client *)
Want == [target |-> Hd.want.target, hosts |-> Range(Hd.want.hosts), origin |-> Hd.want.origin,
         protocols |-> Hd.want.protocols, extra |-> Hd.want.extra]

\* the request the client wrote; its key is remembered for the challenge
TRequest ==
    /\ Line.e = "creq" /\ Hd.kind = "client" /\ ph = "start"
    /\ LET q == [line |-> Line.line, hdrs |-> Line.hdrs, extra |-> Line.extra] IN
       /\ bad' = IF ClientRequestOK(q, Want) THEN <<>> ELSE <<"request", ClientRequestWhy(q, Want)>>
       /\ key' = FirstLine(Line.hdrs, HKey).vb
    /\ ph' = "sent" /\ UNCHANGED seen

TResponse ==
    /\ Line.e = "cres" /\ Hd.kind = "client" /\ ph = "sent"
    /\ LET r == [status |-> Line.status, hdrs |-> Line.hdrs, tail |-> Line.tail]
           o == [ok |-> Line.res = "ok", cls |-> IF Line.res = "ok" THEN "" ELSE Line.res, after |-> Line.after,
                 cfgproto |-> Line.cfgproto, first |-> Line.first, isclient |-> Line.isclient]
       IN bad' = IF ClientAllowed(r, Want, key, o) THEN <<>> ELSE ClientWhy(r, Want, key, o)
    /\ ph' = "done" /\ UNCHANGED <<key, seen>>

\* parseAuthority: the address dialled for Config.Location (default port of the scheme when none is given)
TAuthority ==
    /\ Line.e = "cauth" /\ Hd.kind = "client" /\ ph = "done"
    /\ bad' = IF Line.got = Hd.want.authority THEN <<>> ELSE <<"authority", Line.got>>
    /\ UNCHANGED <<key, seen, ph>>

\* Config.Version other than 13: ErrBadProtocolVersion and nothing on the wire
TBadVersion ==
    /\ Line.e = "cver" /\ Hd.kind = "clientver" /\ ph = "start"
    /\ bad' = IF Line.res = "badversion" /\ Line.wrote = 0 THEN <<>> ELSE <<"config-version", Line.res>>
    /\ ph' = "done" /\ UNCHANGED <<key, seen>>

\* DialConfig without a usable configuration: the error names what is missing, and can be printed
\* (which of several applicable errors is reported is not fixed)
DialAllowed(x) == \/ ~x.loc /\ x.res = "location"
                  \/ ~x.origin /\ x.res = "origin"
                  \/ x.loc /\ x.origin /\ x.scheme \notin {"ws", "wss"} /\ x.res = "scheme"
TDial ==
    /\ Line.e = "dial" /\ Hd.kind = "dial"
    /\ bad' = IF ~DialAllowed(Line) THEN <<"dial-error", Line.res>>
              ELSE IF Line.text = "panic" THEN <<"dial-error-text-panics", Line.res>> ELSE <<>>
    /\ UNCHANGED <<key, seen, ph>>

\* every handshake carries a fresh nonce: 16 random bytes in base64, never one used before
TNonce ==
    /\ Line.e = "nonce" /\ Hd.kind = "nonces"
    /\ bad' = IF ~IsBase64Of16(Line.vb) THEN <<"nonce-form">>
              ELSE IF Line.vb \in seen THEN <<"nonce-reused">> ELSE <<>>
    /\ seen' = seen \cup {Line.vb}
    /\ UNCHANGED <<key, ph>>

TNext ==
    /\ l <= Meta.ends[cur]
    /\ l' = l + 1 /\ cur' = cur
    /\ (TServer \/ TRequest \/ TResponse \/ TAuthority \/ TBadVersion \/ TNonce \/ TDial)

TSpec == TInit /\ [][TNext]_tvars

Mark == HighWater(cur, l)
NoFinding == bad = <<>>

(* ----------------------------------------------------------------------- coverage *)
CoverKey(x) ==
    CASE x.e = "sres"  -> "server/" \o (IF x.status = 101 THEN "accept" ELSE "reject:" \o ErrClass(x.status, x.body))
      [] x.e = "creq"  -> "client/request"
      [] x.e = "cres"  -> "client/" \o x.res
      [] x.e = "cauth" -> "client/authority"
      [] x.e = "cver"  -> "client/config-version"
      [] x.e = "nonce" -> "client/nonce"
      [] x.e = "dial"  -> "client/dial-refused"
      [] OTHER -> "other/" \o x.e
Cover ==
    LET idx == {i \in 2..Len(Trace) : Trace[i].e # "head"}
        ks  == {CoverKey(Trace[i]) : i \in idx} IN
    \A k \in ks : PrintT(<<"COVER", k, Cardinality({i \in idx : CoverKey(Trace[i]) = k})>>)
Post == AllConsumed /\ Cover
=============================================================================
