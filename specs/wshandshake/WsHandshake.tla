---------------------------- MODULE WsHandshake ----------------------------
(* The WebSocket opening handshake (RFC 6455 sections 1.3, 4.1, 4.2, 4.4) as a contract over  *)
(* HTTP message heads, for both roles of golang.org/x/net/websocket.                          *)
(*                                                                                            *)
(* A head is a structured record: the start line split into its three words and the header    *)
(* lines in wire order, each already lexed:                                                   *)
(*     [n |-> field name in lower case, v |-> field value without surrounding whitespace,      *)
(*      toks |-> the value as a comma-separated list (elements trimmed, empty ones dropped),   *)
(*      ltoks |-> the same in lower case, vb |-> the characters of v as ASCII codes (key and    *)
(*      accept lines only, <<>> elsewhere)]                                                    *)
(* Spelling (field-name case, whitespace, one list line or repeated lines, token case) is      *)
(* data of the record, not of the contract: every predicate below is defined on all lines of   *)
(* a field name (HTTP: repeated lines of a list-valued field are the comma-joined list).       *)
(*                                                                                            *)
(* Each requirement of the RFC is a three-valued check: "ok" (satisfied in the one spelling     *)
(* the RFC itself uses), "bad" (violated: the handshake MUST fail), "grey" (satisfied only      *)
(* under a reading the RFC leaves open, e.g. repeated single-valued fields or `Upgrade` lists: *)
(* either outcome is allowed).  ServerAllowed / ClientAllowed say which observed outcomes the   *)
(* contract admits; ServerDecision / ClientDecision are the decision procedures in the shape    *)
(* of the code (ordered checks on the first line of each field, the first failing check names   *)
(* the error) with RFC-correct primitives; TLC checks on the whole generated domain that the    *)
(* decisions are admitted by the contract.                                                     *)
EXTENDS Integers, Sequences, FiniteSets, TLC, Sha1

Range(s) == {s[i] : i \in DOMAIN s}

\* keys of the generated requests; their accept values are computed once (constant-level definition)
Key2     == <<65,81,73,68,66,65,85,71,66,119,103,74,67,103,115,77,68,81,52,80,69,65,61,61>>   \* "AQIDBAUGBwgJCgsMDQ4PEA=="
KeyShort == <<97, 98, 99>>                                     \* "abc": not a nonce, but not empty
\* their accept values as literals (TLC does not cache the result of the recursive SHA-1 operators);
\* the ASSUME below recomputes them once at start-up
KnownAccept == << SampleAccept,
                  <<67,47,48,110,109,72,104,66,122,116,83,82,71,82,49,67,119,76,54,84,102,52,90,106,119,112,89,61>>,
                  <<122,119,75,100,53,66,110,111,87,120,81,54,71,120,84,120,120,83,109,66,83,72,71,72,88,57,77,61>> >>
ASSUME KnownAccept = <<Accept(SampleKey), Accept(Key2), Accept(KeyShort)>>
AcceptOf(key) == IF key = SampleKey THEN KnownAccept[1] ELSE IF key = Key2 THEN KnownAccept[2]
                 ELSE IF key = KeyShort THEN KnownAccept[3] ELSE Accept(key)

Lines(hdrs, n) == SelectSeq(hdrs, LAMBDA x : x.n = n)

RECURSIVE FlatToks(_, _, _)
FlatToks(ls, i, low) == IF i > Len(ls) THEN <<>>
                        ELSE (IF low THEN ls[i].ltoks ELSE ls[i].toks) \o FlatToks(ls, i + 1, low)
Toks(hdrs, n)    == FlatToks(Lines(hdrs, n), 1, FALSE)       \* all list elements of a field, in order
LTokSet(hdrs, n) == Range(FlatToks(Lines(hdrs, n), 1, TRUE))
FirstLine(hdrs, n) == LET ls == Lines(hdrs, n) IN
                      IF ls = <<>> THEN [n |-> n, v |-> "", toks |-> <<>>, ltoks |-> <<>>, vb |-> <<>>] ELSE ls[1]

HUpgrade  == "upgrade"
HConn     == "connection"
HKey      == "sec-websocket-key"
HVersion  == "sec-websocket-version"
HProto    == "sec-websocket-protocol"
HExt      == "sec-websocket-extensions"
HAccept   == "sec-websocket-accept"
HOrigin   == "origin"
HHost     == "host"

\* Origins that are valid URLs for Handler's default check (the generator uses no others as "valid")
ValidOrigins == {"http://example.com", "https://a.example:8443"}

Checks3 == {"ok", "bad", "grey"}

(* ======================================================================= server side *)
(* cfg: [mode |-> "handler" (websocket.Handler: default origin check) | "server" (Server with a  *)
(*       Handshake callback that selects the subprotocol as cfg.sel says) | "reject" (Server     *)
(*       whose Handshake callback returns an error),                                            *)
(*       sel |-> "keep" (leaves config.Protocol as it found it) | "none" (clears it) |            *)
(*               "chat" (selects "chat" if it is in the list, nothing otherwise),                 *)
(*       preset |-> Server.Config.Protocol before the request,                                   *)
(*       hdr |-> Server.Config.Header carries X-Extra: 1 and values for Upgrade, Connection,        *)
(*               Sec-WebSocket-Accept and Sec-WebSocket-Protocol that must not reach the wire]      *)

SrvMethod(h)  == IF h.line[1] = "GET" THEN "ok" ELSE "bad"

\* RFC 6455 4.2.1 items 3 and 4: Upgrade contains "websocket", Connection includes the token "upgrade"
SrvUpgrade(h) ==
    LET lu == Lines(h.hdrs, HUpgrade)  lc == Lines(h.hdrs, HConn) IN
    IF "websocket" \notin LTokSet(h.hdrs, HUpgrade) \/ "upgrade" \notin LTokSet(h.hdrs, HConn) THEN "bad"
    ELSE IF Len(lu) = 1 /\ lu[1].ltoks = <<"websocket">> /\ Len(lc) = 1 THEN "ok"
    ELSE "grey"

\* item 5: a Sec-WebSocket-Key; the package documents only that it must not be empty
SrvKey(h) ==
    LET lk == Lines(h.hdrs, HKey) IN
    IF \A i \in DOMAIN lk : lk[i].vb = <<>> THEN "bad"
    ELSE IF Len(lk) = 1 THEN "ok" ELSE "grey"

\* item 6: Sec-WebSocket-Version with a value of 13
SrvVersion(h) ==
    LET lv == Lines(h.hdrs, HVersion) IN
    IF \A i \in DOMAIN lv : lv[i].v # "13" THEN "bad"
    ELSE IF Len(lv) = 1 THEN "ok" ELSE "grey"

\* item 7 (origin policy): Handler requires an Origin that is a valid URL; a Server decides in its callback
SrvOrigin(h, cfg) ==
    CASE cfg.mode = "server" -> "ok"
      [] cfg.mode = "reject" -> "bad"
      [] OTHER -> LET lo == Lines(h.hdrs, HOrigin) IN
                  IF \A i \in DOMAIN lo : lo[i].v \notin ValidOrigins THEN "bad"
                  ELSE IF Len(lo) = 1 THEN "ok" ELSE "grey"

Offered(h) == Toks(h.hdrs, HProto)          \* every subprotocol the client offered, in order

\* what the Handshake callback of the driver leaves in config.Protocol when it found `seen` there
Select(sel, seen) == CASE sel = "none" -> <<>>
                       [] sel = "chat" -> IF "chat" \in Range(seen) THEN <<"chat">> ELSE <<>>
                       [] OTHER -> seen

\* final: config.Protocol when AcceptHandshake runs (known in mode "server": logged by the callback)
SrvProto(h, cfg, final) ==
    IF cfg.mode = "server"
    THEN IF Len(final) >= 2 THEN "bad"          \* "You need choose a Protocol in Handshake func in Server"
         ELSE IF Len(final) = 1 /\ final[1] \notin Range(Offered(h)) THEN "grey"   \* may not be echoed
         ELSE "ok"
    ELSE IF Len(Offered(h)) <= 1 /\ cfg.preset = <<>> THEN "ok" ELSE "grey"

SrvChecks(h, cfg, final) ==
    [method |-> SrvMethod(h), upgrade |-> SrvUpgrade(h), key |-> SrvKey(h), version |-> SrvVersion(h),
     origin |-> SrvOrigin(h, cfg), proto |-> SrvProto(h, cfg, final)]

\* the accept values a server may answer: that of a key the client sent
SrvAccepts(h) == LET lk == Lines(h.hdrs, HKey) IN {AcceptOf(lk[i].vb) : i \in {j \in DOMAIN lk : lk[j].vb # <<>>}}

(* An observed / decided server outcome:                                                          *)
(*  [acc, status, cls (failed check, "" when accepted), accept (vb of the accept line or <<>>),     *)
(*   proto (<<>> or <<p>>), ext (an extension was echoed), verhdr ("13" listed in a                 *)
(*   Sec-WebSocket-Version response field), shape (the 101 head has exactly one Upgrade: websocket, *)
(*   one Connection with the token upgrade, one accept line, at most one protocol line),            *)
(*   handler (the connection was handed to the WebSocket handler), extra (bytes written after a     *)
(*   101 head before the handler ran), closed (transport closed when ServeHTTP returned),           *)
(*   first ("" or what the handler's first Receive returned)]                                       *)
SrvProtoEchoOK(h, cfg, final, o) ==
    \/ o.proto = <<>> /\ (cfg.mode = "server" => final = <<>> \/ final[1] \notin Range(Offered(h)))
    \/ /\ Len(o.proto) = 1 /\ o.proto[1] \in Range(Offered(h))
       /\ cfg.mode = "server" => final = o.proto

\* the clauses of a good 101 answer, by name
SrvAcceptFaults(h, cfg, final, o) ==
    {c \in {"accept", "proto", "shape", "first", "ext"} :
       CASE c = "accept" -> o.accept \notin SrvAccepts(h)
         [] c = "proto"  -> ~SrvProtoEchoOK(h, cfg, final, o)
         [] c = "shape"  -> o.status # 101 \/ o.cls # "" \/ ~o.shape \/ ~o.handler \/ o.extra # 0 \/ ~o.closed
         [] c = "first"  -> h.tail /\ o.first # "msg:hi"     \* the frame that arrived with the head is not lost
         [] OTHER        -> o.ext}
SrvAcceptOK(h, cfg, final, o) == SrvAcceptFaults(h, cfg, final, o) = {}

SrvRejectOK(ck, o) ==
    /\ o.status \in 400..499 /\ ~o.handler /\ o.closed /\ o.accept = <<>> /\ o.first = ""
    /\ o.cls \in DOMAIN ck /\ ck[o.cls] # "ok"
    \* RFC 4.4 / 4.2.2: an unsupported version is answered with the versions the server speaks
    /\ (ck.version = "bad" /\ \A c \in DOMAIN ck \ {"version"} : ck[c] = "ok") => o.verhdr

ServerAllowed(h, cfg, final, o) ==
    LET ck == SrvChecks(h, cfg, final) IN
    /\ (\E c \in DOMAIN ck : ck[c] = "bad") => ~o.acc
    /\ (\A c \in DOMAIN ck : ck[c] = "ok") => o.acc
    /\ IF o.acc THEN SrvAcceptOK(h, cfg, final, o) ELSE SrvRejectOK(ck, o)

\* why an outcome is not allowed (it becomes the signature of a finding)
SrvBadName(h, c) ==
    CASE c = "upgrade" -> IF "websocket" \notin LTokSet(h.hdrs, HUpgrade) THEN "upgrade-without-websocket"
                          ELSE "connection-without-upgrade-token"
      [] c = "key"     -> "no-key"
      [] c = "version" -> "version-not-13"
      [] c = "origin"  -> "origin-policy"
      [] c = "proto"   -> "protocol-not-chosen"
      [] OTHER         -> c
ServerWhy(h, cfg, final, o) ==
    LET ck == SrvChecks(h, cfg, final)
        bad == {c \in DOMAIN ck : ck[c] = "bad"} IN
    IF o.acc /\ bad # {} THEN <<"accepted-must-reject", {SrvBadName(h, c) : c \in bad}>>
    ELSE IF ~o.acc /\ (\A c \in DOMAIN ck : ck[c] = "ok") THEN <<"rejected-must-accept", {o.cls}>>
    ELSE IF o.acc THEN <<"bad-101", {IF c # "proto" THEN c
                                     ELSE IF o.proto # <<>> /\ \E i \in DOMAIN o.proto : o.proto[i] \notin Range(Offered(h))
                                          THEN "echo-not-offered" ELSE "echo-not-the-selected"
                                     : c \in SrvAcceptFaults(h, cfg, final, o)}>>
    ELSE <<"bad-reject", (IF o.status \notin 400..499 \/ o.handler \/ ~o.closed \/ o.accept # <<>> \/ o.first # "" THEN {"shape"} ELSE {})
                          \cup (IF o.cls \notin DOMAIN ck THEN {"unknown-error-text"}
                                ELSE IF ck[o.cls] = "ok" THEN {"blames-" \o o.cls} ELSE {})
                          \cup (IF ck.version = "bad" /\ (\A c \in DOMAIN ck \ {"version"} : ck[c] = "ok") /\ ~o.verhdr
                                THEN {"no-version-header"} ELSE {})>>

\* the decision procedure in the shape of ReadHandshake / newServerConn / AcceptHandshake:
\* checks in the code's order on the first line of each field; first failure names the error.
SrvRej(status, cls, ver) == [acc |-> FALSE, status |-> status, cls |-> cls, accept |-> <<>>, proto |-> <<>>,
                             ext |-> FALSE, verhdr |-> ver, shape |-> FALSE, handler |-> FALSE, extra |-> 0,
                             closed |-> TRUE, first |-> ""]
SrvSeen(h) == FirstLine(h.hdrs, HProto).toks        \* repaired design: the preset list is not mixed in
ServerDecision(h, cfg) ==
    LET final == Select(IF cfg.mode = "server" THEN cfg.sel ELSE "keep", SrvSeen(h))
        echo  == IF Len(final) = 1 /\ final[1] \in Range(Offered(h)) THEN final ELSE <<>> IN
    IF h.line[1] # "GET" THEN SrvRej(405, "method", FALSE)
    ELSE IF FirstLine(h.hdrs, HUpgrade).ltoks # <<"websocket">> \/ "upgrade" \notin Range(FirstLine(h.hdrs, HConn).ltoks)
         THEN SrvRej(400, "upgrade", FALSE)
    ELSE IF FirstLine(h.hdrs, HKey).vb = <<>> THEN SrvRej(400, "key", FALSE)
    ELSE IF FirstLine(h.hdrs, HVersion).v # "13" THEN SrvRej(400, "version", TRUE)
    ELSE IF cfg.mode = "reject" \/ (cfg.mode = "handler" /\ FirstLine(h.hdrs, HOrigin).v \notin ValidOrigins)
         THEN SrvRej(403, "origin", FALSE)
    ELSE IF Len(final) >= 2 THEN SrvRej(400, "proto", FALSE)
    ELSE [acc |-> TRUE, status |-> 101, cls |-> "", accept |-> AcceptOf(FirstLine(h.hdrs, HKey).vb), proto |-> echo,
          ext |-> FALSE, verhdr |-> FALSE, shape |-> TRUE, handler |-> TRUE, extra |-> 0, closed |-> TRUE,
          first |-> IF h.tail THEN "msg:hi" ELSE ""]
SrvFinalOfDecision(h, cfg) == Select(IF cfg.mode = "server" THEN cfg.sel ELSE "keep", SrvSeen(h))

(* ======================================================================= client side *)
(* cfg: [protocols |-> Config.Protocol (offered, in order), ...]; key: the characters of the        *)
(* Sec-WebSocket-Key the client actually sent; r: the head of the response it was given            *)
(* [status |-> Nat, hdrs |-> lexed lines, tail |-> a frame follows the head in the same segment].   *)

CliStatus(r) == IF r.status = 101 THEN "ok" ELSE "bad"

CliUpgrade(r) ==
    LET lu == Lines(r.hdrs, HUpgrade)  lc == Lines(r.hdrs, HConn) IN
    IF "websocket" \notin LTokSet(r.hdrs, HUpgrade) \/ "upgrade" \notin LTokSet(r.hdrs, HConn) THEN "bad"
    ELSE IF Len(lu) = 1 /\ lu[1].ltoks = <<"websocket">> /\ Len(lc) = 1 /\ lc[1].ltoks = <<"upgrade">> THEN "ok"
    ELSE "grey"

CliChallenge(r, key) ==
    LET la == Lines(r.hdrs, HAccept)  want == AcceptOf(key) IN
    IF \A i \in DOMAIN la : la[i].vb # want THEN "bad"
    ELSE IF Len(la) = 1 THEN "ok" ELSE "grey"

\* the client offers no extension: any extension in the response was not offered
CliExt(r) == LET le == Lines(r.hdrs, HExt) IN
             IF \E i \in DOMAIN le : le[i].v # "" THEN "bad" ELSE "ok"

CliProto(r, cfg) ==
    LET lp == Lines(r.hdrs, HProto)  ts == Toks(r.hdrs, HProto) IN
    IF ts = <<>> THEN "ok"
    ELSE IF Len(lp) = 1 THEN (IF Len(ts) = 1 /\ ts[1] \in Range(cfg.protocols) THEN "ok" ELSE "bad")   \* one value, offered
    ELSE IF \A i \in DOMAIN ts : ts[i] \notin Range(cfg.protocols) THEN "bad"
    ELSE "grey"            \* the field "MUST NOT appear more than once in an HTTP response": what a client does then is open

CliChecks(r, cfg, key) ==
    [status |-> CliStatus(r), upgrade |-> CliUpgrade(r), challenge |-> CliChallenge(r, key),
     ext |-> CliExt(r), proto |-> CliProto(r, cfg)]

(* outcome: [ok, cls (failed check, "" on success), after (bytes the client wrote after its request  *)
(*  until the handshake call returned), cfgproto (Config.Protocol afterwards), first, isclient]       *)
ClientAllowed(r, cfg, key, o) ==
    LET ck == CliChecks(r, cfg, key)  ts == Toks(r.hdrs, HProto) IN
    /\ (\E c \in DOMAIN ck : ck[c] = "bad") => ~o.ok
    /\ (\A c \in DOMAIN ck : ck[c] = "ok") => o.ok
    /\ o.after = 0                                   \* nothing is sent before the handshake is decided
    /\ IF o.ok
       THEN /\ o.cls = "" /\ o.isclient
            /\ ts # <<>> => Len(o.cfgproto) = 1 /\ o.cfgproto[1] \in Range(ts) \cap Range(cfg.protocols)
            /\ r.tail => o.first = "msg:hello"       \* bytes behind the response head are not lost
       ELSE o.cls \in DOMAIN ck /\ ck[o.cls] # "ok" /\ o.first = ""

ClientWhy(r, cfg, key, o) ==
    LET ck == CliChecks(r, cfg, key)
        bad == {c \in DOMAIN ck : ck[c] = "bad"}
        ts  == Toks(r.hdrs, HProto) IN
    IF o.ok /\ bad # {} THEN <<"succeeded-must-fail", bad>>
    ELSE IF ~o.ok /\ (\A c \in DOMAIN ck : ck[c] = "ok") THEN <<"failed-must-succeed", {o.cls}>>
    ELSE IF o.after # 0 THEN <<"wrote-after-request", {}>>
    ELSE IF o.ok THEN <<"bad-success", (IF r.tail /\ o.first # "msg:hello" THEN {"bytes-behind-head-lost"} ELSE {})
                                        \cup (IF ts # <<>> /\ ~(Len(o.cfgproto) = 1 /\ o.cfgproto[1] \in Range(ts) \cap Range(cfg.protocols))
                                              THEN {"config-protocol"} ELSE {})
                                        \cup (IF ~o.isclient \/ o.cls # "" THEN {"shape"} ELSE {})>>
    ELSE <<"bad-failure", IF o.cls \notin DOMAIN ck THEN {"unknown-error"} ELSE IF ck[o.cls] = "ok" THEN {"blames-" \o o.cls} ELSE {"shape"}>>

CliFail(cls) == [ok |-> FALSE, cls |-> cls, after |-> 0, cfgproto |-> <<>>, first |-> "", isclient |-> TRUE]
\* hybiClientHandshake after http.ReadResponse: ordered checks on the first line of each field
ClientDecision(r, cfg, key) ==
    LET p == FirstLine(r.hdrs, HProto) IN
    IF r.status # 101 THEN CliFail("status")
    ELSE IF FirstLine(r.hdrs, HUpgrade).ltoks # <<"websocket">> \/ FirstLine(r.hdrs, HConn).ltoks # <<"upgrade">>
         THEN CliFail("upgrade")
    ELSE IF FirstLine(r.hdrs, HAccept).vb # AcceptOf(key) THEN CliFail("challenge")
    ELSE IF FirstLine(r.hdrs, HExt).v # "" THEN CliFail("ext")
    ELSE IF p.v # "" /\ ~(Len(p.toks) = 1 /\ p.toks[1] \in Range(cfg.protocols)) THEN CliFail("proto")
    ELSE [ok |-> TRUE, cls |-> "", after |-> 0, cfgproto |-> IF p.v # "" THEN p.toks ELSE cfg.protocols,
          first |-> IF r.tail THEN "msg:hello" ELSE "", isclient |-> TRUE]

(* ----------------------------------------------------------------------- the request the client sends (4.1) *)
(* cfg: [target |-> request-target of Config.Location, hosts |-> the admissible Host values (host, with   *)
(*  the port when it is not the scheme's default; with or without it when it is), origin |-> the ASCII      *)
(*  serialisation of Config.Origin, protocols, extra |-> <<n, v>> pairs of Config.Header that must appear]  *)
Mandatory == {HHost, HUpgrade, HConn, HKey, HVersion, HOrigin}

ClientRequestOK(q, cfg) ==
    LET one(n) == Len(Lines(q.hdrs, n)) = 1 IN
    /\ q.line = <<"GET", cfg.target, "HTTP/1.1">>
    /\ \A n \in Mandatory : one(n)                                  \* present, not repeated, not overridden
    /\ FirstLine(q.hdrs, HHost).v \in cfg.hosts
    /\ FirstLine(q.hdrs, HUpgrade).ltoks = <<"websocket">>
    /\ "upgrade" \in Range(FirstLine(q.hdrs, HConn).ltoks)
    /\ IsBase64Of16(FirstLine(q.hdrs, HKey).vb)                    \* a 16-byte nonce, base64 (4.1 item 7)
    /\ FirstLine(q.hdrs, HVersion).v = "13"
    /\ FirstLine(q.hdrs, HOrigin).v = cfg.origin
    /\ Toks(q.hdrs, HProto) = cfg.protocols                       \* nothing offered: no such field
    /\ Lines(q.hdrs, HExt) = <<>>                                  \* no extension is offered
    /\ \A i \in DOMAIN cfg.extra : \E j \in DOMAIN q.hdrs : q.hdrs[j].n = cfg.extra[i][1] /\ q.hdrs[j].v = cfg.extra[i][2]
    /\ q.extra = 0                                                 \* nothing follows the head

\* why a request is not well-formed (name of the first offended clause)
ClientRequestWhy(q, cfg) ==
    IF q.line # <<"GET", cfg.target, "HTTP/1.1">> THEN "request-line"
    ELSE IF \E n \in Mandatory : Len(Lines(q.hdrs, n)) # 1 THEN "mandatory-field-count"
    ELSE IF FirstLine(q.hdrs, HHost).v \notin cfg.hosts THEN "host"
    ELSE IF ~IsBase64Of16(FirstLine(q.hdrs, HKey).vb) THEN "key-form"
    ELSE IF FirstLine(q.hdrs, HOrigin).v # cfg.origin THEN "origin"
    ELSE IF Toks(q.hdrs, HProto) # cfg.protocols THEN "protocols"
    ELSE "other"
=============================================================================
