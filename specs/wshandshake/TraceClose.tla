----------------------------- MODULE TraceClose -----------------------------
(* Trace validation for the closing handshake (X14): every recorded operation on a real Conn is    *)
(* a step of Closing; the frames it wrote are parsed here from the raw bytes that reached the       *)
(* pipe.  Every step is accepted; `bad` names the offended clause and NoFinding rejects the trace.  *)
EXTENDS Closing, TraceIO

VARIABLES cur, l, bad
tvars == <<vars, cur, l, bad>>
Line == Trace[l]

TInit == \E t \in 1..NT :
           LET h == Trace[Meta.starts[t]] IN
           /\ cur = t /\ l = Meta.starts[t] + 1
           /\ h.e = "head" /\ h.kind = "closing"
           /\ InitWith(h.realc, h.reals, h.flow)
           /\ hist = <<>> /\ bad = <<>>

IsEnd(r) == r \in Ends
NoSessions == {}

TSend == /\ Line.e = "send" /\ IsEnd(Line.who) /\ real[Line.who]
         /\ LET wf == ParseFrames(Line.w) IN
            /\ bad' = SendVerdict(Line.who, Line.pl, wf, Line.err)
            /\ SendStep(Line.who, wf)
         /\ UNCHANGED hist

TRecv == /\ Line.e = "recv" /\ IsEnd(Line.who) /\ real[Line.who] /\ ~tclosed[Line.who]
         /\ LET wf == ParseFrames(Line.w) IN
            /\ bad' = RecvVerdict(Line.who, Line.res, Line.m, wf)
            /\ RecvStep(Line.who, wf)
         /\ UNCHANGED hist

TClose == /\ Line.e = "close" /\ IsEnd(Line.who) /\ real[Line.who]
          /\ LET wf == ParseFrames(Line.w) IN
             /\ bad' = CloseVerdict(Line.who, wf, Line.tc, Line.err)
             /\ CloseStep(Line.who, wf)
          /\ UNCHANGED hist

THRet == /\ Line.e = "hret" /\ flow = "handler" /\ real["s"]
         /\ LET wf == ParseFrames(Line.w) IN
            /\ bad' = HRetVerdict(wf, Line.tc)
            /\ HRetStep(wf)
         /\ UNCHANGED hist

\* the raw peer's bytes: frames as the spec parses them; their masking is right iff it is the one of the raw peer's role
TInject == /\ Line.e = "inject" /\ IsEnd(Line.to) /\ ~real[Peer(Line.to)]
           /\ LET fs == ParseFrames(Line.bytes) IN
              /\ bad' = IF \E i \in DOMAIN fs : fs[i].k = "garbage" THEN <<"driver-injected-garbage">> ELSE <<>>
              /\ InjectStep(Line.to, AbsAll(Peer(Line.to), fs))
           /\ UNCHANGED hist

TRawClose == /\ Line.e = "rawclose" /\ IsEnd(Line.to) /\ ~real[Peer(Line.to)]
             /\ bad' = <<>>
             /\ InjectStep(Line.to, <<EOT>>)
             /\ UNCHANGED hist

TNext ==
    /\ l <= Meta.ends[cur]
    /\ l' = l + 1 /\ cur' = cur
    /\ (TSend \/ TRecv \/ TClose \/ THRet \/ TInject \/ TRawClose)

TSpec == TInit /\ [][TNext]_tvars

Mark == HighWater(cur, l)
NoFinding == bad = <<>>

(* ----------------------------------------------------------------------- coverage *)
CoverKey(x) ==
    CASE x.e = "recv"  -> "recv/" \o (IF x.res \in {"msg", "eof", "block"} THEN x.res ELSE "error")
      [] x.e = "close" -> "close/" \o (IF x.w = <<>> THEN "silent" ELSE "frame")
      [] x.e = "send"  -> "send/" \o (IF x.w = <<>> THEN "refused" ELSE "frame")
      [] OTHER -> x.e
Cover ==
    LET idx == {i \in 2..Len(Trace) : Trace[i].e # "head"}
        ks  == {CoverKey(Trace[i]) : i \in idx} IN
    \A k \in ks : PrintT(<<"COVER", k, Cardinality({i \in idx : CoverKey(Trace[i]) = k})>>)
Post == AllConsumed /\ Cover
=============================================================================
