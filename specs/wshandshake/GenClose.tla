------------------------------ MODULE GenClose ------------------------------
(* Exhaustive exploration of the closing machine (design invariants of Closing) that doubles as   *)
(* scenario generator: with the history kept out of the VIEW, TLC reaches every abstract state     *)
(* once and prints the history that led there; the driver executes it on real Conns and appends    *)
(* the same probe to every history (Receive twice, Close twice, Send - or, inside the server       *)
(* handler, Receive twice and return).                                                             *)
EXTENDS Closing, Json

AllSessions == {<<TRUE, TRUE, "direct">>, <<FALSE, TRUE, "direct">>, <<TRUE, FALSE, "direct">>, <<FALSE, TRUE, "handler">>}

Emit == PrintT(<<"BEH", ToJson([realc |-> real["c"], reals |-> real["s"], flow |-> flow, ops |-> hist])>>)
=============================================================================
