-------------------------------- MODULE Sha1 --------------------------------
(* SHA-1 (FIPS 180-4) and base64 (RFC 4648) over sequences of bytes, so that the             *)
(* Sec-WebSocket-Accept value of RFC 6455 section 4.2.2 step 5.4 is computed by the          *)
(* specification itself: Accept(key) = base64(SHA-1(key ++ GUID)).  TLC integers are 32-bit   *)
(* signed, so a 32-bit word is a pair <<hi, lo>> of 16-bit limbs.                            *)
EXTENDS Integers, Sequences, Bitwise

LOCAL W16 == 65536

LOCAL Add2(a, b) == LET lo == a[2] + b[2]
                        hi == a[1] + b[1] + (lo \div W16)
                    IN <<hi % W16, lo % W16>>
LOCAL Add5(a, b, c, d, e) == LET lo == a[2] + b[2] + c[2] + d[2] + e[2]
                                 hi == a[1] + b[1] + c[1] + d[1] + e[1] + (lo \div W16)
                             IN <<hi % W16, lo % W16>>
LOCAL XorW(a, b) == <<a[1] ^^ b[1], a[2] ^^ b[2]>>
LOCAL AndW(a, b) == <<a[1] & b[1], a[2] & b[2]>>
LOCAL OrW(a, b)  == <<a[1] | b[1], a[2] | b[2]>>
LOCAL NotW(a)    == <<65535 - a[1], 65535 - a[2]>>
LOCAL Pow2 == [n \in 0..16 |-> 2 ^ n]
LOCAL RotlS(a, n) == <<((a[1] * Pow2[n]) % W16) + (a[2] \div Pow2[16 - n]),
                       ((a[2] * Pow2[n]) % W16) + (a[1] \div Pow2[16 - n])>>
LOCAL Rotl(a, n) == IF n < 16 THEN RotlS(a, n)
                    ELSE IF n = 16 THEN <<a[2], a[1]>>
                    ELSE RotlS(<<a[2], a[1]>>, n - 16)

LOCAL Zeros(n) == [i \in 1..n |-> 0]
\* message ++ 0x80 ++ zeros ++ 64-bit length in bits (messages below 8 KiB)
LOCAL Pad(m) == LET L  == Len(m)
                    z  == (119 - (L % 64)) % 64          \* zeros so that L + 1 + z = 56 mod 64
                    nb == L * 8
                IN m \o <<128>> \o Zeros(z) \o Zeros(6) \o <<nb \div 256, nb % 256>>

LOCAL WordAt(b, i) == <<b[i] * 256 + b[i + 1], b[i + 2] * 256 + b[i + 3]>>

RECURSIVE Sched(_, _)
LOCAL Sched(w, t) == IF t > 80 THEN w
                     ELSE Sched(Append(w, Rotl(XorW(XorW(w[t - 3], w[t - 8]), XorW(w[t - 14], w[t - 16])), 1)), t + 1)

LOCAL K1 == <<23170, 31129>>   \* 5A827999
LOCAL K2 == <<28377, 60321>>   \* 6ED9EBA1
LOCAL K3 == <<36635, 48348>>   \* 8F1BBCDC
LOCAL K4 == <<51810, 49622>>   \* CA62C1D6

RECURSIVE Rounds(_, _, _)
LOCAL Rounds(s, w, t) ==
    IF t > 80 THEN s
    ELSE LET a == s[1]  b == s[2]  c == s[3]  d == s[4]  e == s[5]
             f == IF t <= 20 THEN OrW(AndW(b, c), AndW(NotW(b), d))
                  ELSE IF t <= 40 THEN XorW(XorW(b, c), d)
                  ELSE IF t <= 60 THEN OrW(OrW(AndW(b, c), AndW(b, d)), AndW(c, d))
                  ELSE XorW(XorW(b, c), d)
             k == IF t <= 20 THEN K1 ELSE IF t <= 40 THEN K2 ELSE IF t <= 60 THEN K3 ELSE K4
             tmp == Add5(Rotl(a, 5), f, e, k, w[t])
         IN Rounds(<<tmp, a, Rotl(b, 30), c, d>>, w, t + 1)

LOCAL H0 == << <<26437, 8961>>, <<61389, 43913>>, <<39098, 56574>>, <<4146, 21622>>, <<50130, 57840>> >>

RECURSIVE Blocks(_, _, _)
LOCAL Blocks(h, p, off) ==
    IF off > Len(p) THEN h
    ELSE LET w == Sched([i \in 1..16 |-> WordAt(p, off + 4 * (i - 1))], 17)
             r == Rounds(h, w, 1)
         IN Blocks([i \in 1..5 |-> Add2(h[i], r[i])], p, off + 64)

\* the 20 bytes of the digest
Sha1(m) == LET h == Blocks(H0, Pad(m), 1)
           IN [i \in 1..20 |-> LET wd == h[((i - 1) \div 4) + 1]
                                   lim == wd[(((i - 1) % 4) \div 2) + 1]
                               IN IF (i - 1) % 2 = 0 THEN lim \div 256 ELSE lim % 256]

(* ------------------------------------------------------------------ base64 *)
B64Char(i) == IF i < 26 THEN 65 + i ELSE IF i < 52 THEN 71 + i ELSE IF i < 62 THEN i - 4
              ELSE IF i = 62 THEN 43 ELSE 47
IsB64Char(c) == (c >= 65 /\ c <= 90) \/ (c >= 97 /\ c <= 122) \/ (c >= 48 /\ c <= 57) \/ c = 43 \/ c = 47
B64Val(c) == IF c >= 65 /\ c <= 90 THEN c - 65 ELSE IF c >= 97 /\ c <= 122 THEN c - 71
             ELSE IF c >= 48 /\ c <= 57 THEN c + 4 ELSE IF c = 43 THEN 62 ELSE 63

LOCAL Group(b, i, n) ==      \* n in 1..3 bytes starting at b[i]
    LET x == b[i]
        y == IF n >= 2 THEN b[i + 1] ELSE 0
        z == IF n >= 3 THEN b[i + 2] ELSE 0
    IN <<B64Char(x \div 4), B64Char((x % 4) * 16 + (y \div 16))>>
       \o (IF n >= 2 THEN <<B64Char((y % 16) * 4 + (z \div 64))>> ELSE <<61>>)
       \o (IF n >= 3 THEN <<B64Char(z % 64)>> ELSE <<61>>)

RECURSIVE B64(_, _)
LOCAL B64(b, i) == IF i > Len(b) THEN <<>>
                   ELSE LET n == IF Len(b) - i + 1 >= 3 THEN 3 ELSE Len(b) - i + 1
                        IN Group(b, i, n) \o B64(b, i + 3)
Base64(b) == B64(b, 1)

\* s is the canonical base64 encoding of exactly 16 bytes (24 characters ending in "==")
IsBase64Of16(s) == /\ Len(s) = 24
                   /\ \A i \in 1..22 : IsB64Char(s[i])
                   /\ s[23] = 61 /\ s[24] = 61
                   /\ B64Val(s[22]) % 16 = 0

(* ------------------------------------------------------------------ RFC 6455 *)
\* "258EAFA5-E914-47DA-95CA-C5AB0DC85B11" as ASCII codes
GUID == <<50,53,56,69,65,70,65,53,45,69,57,49,52,45,52,55,68,65,45,57,53,67,65,45,67,53,65,66,48,68,67,56,53,66,49,49>>

\* key: the characters of the Sec-WebSocket-Key value (leading / trailing whitespace removed)
Accept(key) == Base64(Sha1(key \o GUID))

\* RFC 6455 section 1.3: key "dGhlIHNhbXBsZSBub25jZQ==" gives "s3pPLMBiTxaQ9kYGzzhZRbK+xOo="
SampleKey    == <<100,71,104,108,73,72,78,104,98,88,66,115,90,83,66,117,98,50,53,106,90,81,61,61>>
SampleAccept == <<115,51,112,80,76,77,66,105,84,120,97,81,57,107,89,71,122,122,104,90,82,98,75,43,120,79,111,61>>
\* FIPS 180 test vectors: SHA-1("abc"), SHA-1("")
Sha1Vectors ==
    /\ Sha1(<<97, 98, 99>>) = <<169,153,62,54,71,6,129,106,186,62,37,113,120,80,194,108,156,208,216,157>>
    /\ Sha1(<<>>) = <<218,57,163,238,94,107,75,13,50,85,191,239,149,96,24,144,175,216,7,9>>
    /\ Accept(SampleKey) = SampleAccept
    /\ IsBase64Of16(SampleKey)
=============================================================================
