SPECIFICATION TSpec
CONSTRAINT Mark
POSTCONDITION Post
CHECK_DEADLOCK FALSE
INVARIANT NoFinding
