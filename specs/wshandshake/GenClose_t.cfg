SPECIFICATION GSpec
CONSTANTS
  MaxOps = 4
  Sessions <- AllSessions
VIEW GView
INVARIANTS TypeOK NothingAfterEnd NoDataAfterOwnClose CloseCount CleanClose Answered Emit
CHECK_DEADLOCK FALSE
