-------------------------------- MODULE Gen --------------------------------
(* Case generator and design check for the opening handshake (X13).  A case is one HTTP head    *)
(* (request towards the real server, or response towards the real client) chosen per field from *)
(* a small alphabet: canonical / other case / absent / wrong value / inside a list / repeated    *)
(* lines / near misses.  TLC enumerates every case in which at most W fields leave the canonical *)
(* alternative (W = 2: all singles and all pairs; W = 3 in the thorough tier for the server),     *)
(* checks the design invariants on each, and prints it as an item for the driver.                *)
EXTENDS WsHandshake, Json

CONSTANTS W,            \* how many fields may deviate from the canonical alternative at once
          Roles,        \* subset of {"server", "client"}
          PairS, PairC  \* the fields (server / client) that take part in combinations of two and more deviations

ASSUME Sha1Vectors      \* FIPS 180 vectors and the example of RFC 6455 section 1.3

(* ----------------------------------------------------------------------- building lines *)
\* a list-valued line: v = the value as written, ts = its elements as <<raw, lower>> pairs
\* (no recursive operator here: TLC evaluates the alphabets below once only if they are constant-level
\* expressions without RECURSIVE operators)
LnL(n, v, ts) == [n |-> n, v |-> v, toks |-> [i \in DOMAIN ts |-> ts[i][1]], ltoks |-> [i \in DOMAIN ts |-> ts[i][2]], vb |-> <<>>]
S(x) == <<x, x>>
Ln(n, x)     == [n |-> n, v |-> x, toks |-> <<x>>, ltoks |-> <<x>>, vb |-> <<>>]      \* one lower-case token
LnC(n, x, l) == [n |-> n, v |-> x, toks |-> <<x>>, ltoks |-> <<l>>, vb |-> <<>>]      \* one token with its lower-case form
LnE(n)       == [n |-> n, v |-> "", toks |-> <<>>, ltoks |-> <<>>, vb |-> <<>>]     \* empty value
LnB(n, b)    == [n |-> n, v |-> "", toks |-> <<>>, ltoks |-> <<>>, vb |-> b]        \* value given as characters

(* ----------------------------------------------------------------------- server alphabet *)
SDims == <<"m", "hv", "u", "c", "k", "v", "o", "cfg", "p", "e", "t">>

SAlt ==
  [m   |-> <<"GET", "POST", "get">>,
   hv  |-> <<"HTTP/1.1", "HTTP/1.0">>,
   u   |-> << <<Ln(HUpgrade, "websocket")>>,
              <<LnC(HUpgrade, "WebSocket", "websocket")>>,
              <<LnC(HUpgrade, "WEBSOCKET", "websocket")>>,
              <<>>,
              <<Ln(HUpgrade, "websocketx")>>,
              <<LnL(HUpgrade, "h2c, websocket", <<S("h2c"), S("websocket")>>)>>,
              <<Ln(HUpgrade, "h2c"), Ln(HUpgrade, "websocket")>>,
              <<Ln(HUpgrade, "websocket"), Ln(HUpgrade, "h2c")>> >>,
   c   |-> << <<LnC(HConn, "Upgrade", "upgrade")>>,
              <<Ln(HConn, "upgrade")>>,
              <<LnC(HConn, "UPGRADE", "upgrade")>>,
              <<LnL(HConn, "keep-alive, Upgrade", <<S("keep-alive"), <<"Upgrade", "upgrade">> >>)>>,
              <<LnL(HConn, "Upgrade, keep-alive", << <<"Upgrade", "upgrade">>, S("keep-alive")>>)>>,
              <<LnL(HConn, "keep-alive,upgrade", <<S("keep-alive"), S("upgrade")>>)>>,
              <<LnL(HConn, "Keep-Alive ,  uPgRaDe", << <<"Keep-Alive", "keep-alive">>, <<"uPgRaDe", "upgrade">> >>)>>,
              <<>>,
              <<Ln(HConn, "keep-alive")>>,
              <<Ln(HConn, "close")>>,
              <<Ln(HConn, "notupgrade")>>,
              <<LnL(HConn, "keep-alive, x-upgrade-y", <<S("keep-alive"), S("x-upgrade-y")>>)>>,
              <<Ln(HConn, "keep-alive"), LnC(HConn, "Upgrade", "upgrade")>>,
              <<LnC(HConn, "Upgrade", "upgrade"), Ln(HConn, "keep-alive")>> >>,
   k   |-> << <<LnB(HKey, SampleKey)>>,
              <<LnB(HKey, Key2)>>,
              <<>>,
              <<LnE(HKey)>>,
              <<LnB(HKey, KeyShort)>>,
              <<LnB(HKey, SampleKey), LnB(HKey, Key2)>> >>,
   v   |-> << <<Ln(HVersion, "13")>>,
              <<>>,
              <<Ln(HVersion, "8")>>,
              <<LnL(HVersion, "13, 8", <<S("13"), S("8")>>)>>,
              <<LnL(HVersion, "8, 13", <<S("8"), S("13")>>)>>,
              <<LnE(HVersion)>>,
              <<Ln(HVersion, "013")>>,
              <<Ln(HVersion, "14")>>,
              <<Ln(HVersion, "13"), Ln(HVersion, "8")>>,
              <<Ln(HVersion, "8"), Ln(HVersion, "13")>> >>,
   o   |-> << <<Ln(HOrigin, "http://example.com")>>,
              <<>>,
              <<Ln(HOrigin, "null")>>,
              <<Ln(HOrigin, "https://a.example:8443")>>,
              <<LnE(HOrigin)>> >>,
   cfg |-> << [mode |-> "handler", sel |-> "keep", preset |-> <<>>, hdr |-> FALSE],
              [mode |-> "server",  sel |-> "keep", preset |-> <<>>, hdr |-> FALSE],
              [mode |-> "server",  sel |-> "none", preset |-> <<>>, hdr |-> FALSE],
              [mode |-> "server",  sel |-> "chat", preset |-> <<>>, hdr |-> FALSE],
              [mode |-> "reject",  sel |-> "keep", preset |-> <<>>, hdr |-> FALSE],
              [mode |-> "server",  sel |-> "keep", preset |-> <<"chat">>, hdr |-> FALSE],
              [mode |-> "server",  sel |-> "chat", preset |-> <<"chat">>, hdr |-> FALSE],
              \* Server.Config.Header: an extra field, and attempts to override the mandatory ones
              [mode |-> "server",  sel |-> "keep", preset |-> <<>>, hdr |-> TRUE] >>,
   p   |-> << <<>>,
              <<Ln(HProto, "chat")>>,
              <<LnL(HProto, "chat, superchat", <<S("chat"), S("superchat")>>)>>,
              <<LnL(HProto, "superchat,chat", <<S("superchat"), S("chat")>>)>>,
              <<Ln(HProto, "chat"), Ln(HProto, "superchat")>>,
              <<Ln(HProto, "superchat")>>,
              <<LnC(HProto, "Chat", "chat")>> >>,
   e   |-> << <<>>,
              <<LnL(HExt, "permessage-deflate; client_max_window_bits", <<S("permessage-deflate; client_max_window_bits")>>)>> >>,
   t   |-> <<FALSE, TRUE>> ]

(* ----------------------------------------------------------------------- client alphabet *)
CDims == <<"st", "u", "c", "a", "e", "p", "cp", "t", "loc", "x">>

\* accept values are templates the driver fills in for the nonce the client really sent:
\*   $A the right value, $OTHER the value for another key, $LOWER the right value in lower case,
\*   $TRUNC the right value without its last character; the generator's own check uses SampleKey
Tpl(n, t) == [n |-> n, v |-> t, toks |-> <<>>, ltoks |-> <<>>, vb |-> <<>>]
Lower(b) == [i \in DOMAIN b |-> IF b[i] >= 65 /\ b[i] <= 90 THEN b[i] + 32 ELSE b[i]]
FillVb(t, key) == CASE t = "$A" -> AcceptOf(key)
                    [] t = "$OTHER" -> AcceptOf(Key2)
                    [] t = "$LOWER" -> Lower(AcceptOf(key))
                    [] t = "$TRUNC" -> SubSeq(AcceptOf(key), 1, 27)
                    [] OTHER -> <<>>
Fill(hs, key) == [i \in DOMAIN hs |-> IF hs[i].n = HAccept THEN [hs[i] EXCEPT !.vb = FillVb(hs[i].v, key)] ELSE hs[i]]

CAlt ==
  [st  |-> << [status |-> 101, line |-> "HTTP/1.1 101 Switching Protocols"],
              [status |-> 101, line |-> "HTTP/1.1 101 Web Socket Protocol Handshake"],
              [status |-> 200, line |-> "HTTP/1.1 200 OK"],
              [status |-> 100, line |-> "HTTP/1.1 100 Continue"],
              [status |-> 102, line |-> "HTTP/1.1 102 Processing"],
              [status |-> 201, line |-> "HTTP/1.1 201 Created"],
              [status |-> 301, line |-> "HTTP/1.1 301 Moved Permanently"],
              [status |-> 400, line |-> "HTTP/1.1 400 Bad Request"],
              [status |-> 426, line |-> "HTTP/1.1 426 Upgrade Required"] >>,
   u   |-> << <<Ln(HUpgrade, "websocket")>>,
              <<LnC(HUpgrade, "WebSocket", "websocket")>>,
              <<>>,
              <<Ln(HUpgrade, "websocketx")>>,
              <<LnL(HUpgrade, "websocket, foo", <<S("websocket"), S("foo")>>)>>,
              <<Ln(HUpgrade, "foo"), Ln(HUpgrade, "websocket")>> >>,
   c   |-> << <<LnC(HConn, "Upgrade", "upgrade")>>,
              <<Ln(HConn, "upgrade")>>,
              <<LnC(HConn, "UPGRADE", "upgrade")>>,
              <<>>,
              <<Ln(HConn, "keep-alive")>>,
              <<Ln(HConn, "notupgrade")>>,
              <<LnL(HConn, "keep-alive, Upgrade", <<S("keep-alive"), <<"Upgrade", "upgrade">> >>)>>,
              <<Ln(HConn, "close"), LnC(HConn, "Upgrade", "upgrade")>> >>,
   a   |-> << <<Tpl(HAccept, "$A")>>,
              <<>>,
              <<Tpl(HAccept, "$OTHER")>>,
              <<Tpl(HAccept, "$LOWER")>>,
              <<Tpl(HAccept, "$TRUNC")>>,
              <<Tpl(HAccept, "")>>,
              <<Tpl(HAccept, "$OTHER"), Tpl(HAccept, "$A")>>,
              <<Tpl(HAccept, "$A"), Tpl(HAccept, "$OTHER")>> >>,
   e   |-> << <<>>,
              <<Ln(HExt, "permessage-deflate")>>,
              <<LnE(HExt)>> >>,
   p   |-> << <<>>,
              <<Ln(HProto, "chat")>>,
              <<Ln(HProto, "superchat")>>,
              <<Ln(HProto, "other")>>,
              <<LnC(HProto, "Chat", "chat")>>,
              <<LnL(HProto, "chat, superchat", <<S("chat"), S("superchat")>>)>>,
              <<LnE(HProto)>>,
              <<Ln(HProto, "chat"), Ln(HProto, "superchat")>> >>,
   cp  |-> << <<"chat", "superchat">>, <<>>, <<"chat">>, <<"superchat", "chat", "x">> >>,
   t   |-> <<FALSE, TRUE>>,
   \* Config.Location / Origin: url, the request-target and admissible Host values it implies,
   \* the origin as configured and its ASCII serialisation
   loc |-> << [url |-> "ws://example.com/ws", target |-> "/ws", hosts |-> {"example.com"},
               ourl |-> "http://example.com", origin |-> "http://example.com", authority |-> "example.com:80"],
              [url |-> "ws://example.com:8080/a/b?x=1&y=2", target |-> "/a/b?x=1&y=2", hosts |-> {"example.com:8080"},
               ourl |-> "https://a.example:8443", origin |-> "https://a.example:8443", authority |-> "example.com:8080"],
              [url |-> "ws://example.com:80/", target |-> "/", hosts |-> {"example.com", "example.com:80"},
               ourl |-> "http://Example.COM", origin |-> "http://example.com", authority |-> "example.com:80"],
              [url |-> "wss://secure.example.com:443/chat", target |-> "/chat", hosts |-> {"secure.example.com", "secure.example.com:443"},
               ourl |-> "https://secure.example.com", origin |-> "https://secure.example.com", authority |-> "secure.example.com:443"],
              [url |-> "ws://example.com", target |-> "/", hosts |-> {"example.com"},
               ourl |-> "http://example.com", origin |-> "http://example.com", authority |-> "example.com:80"] >>,
   \* Config.Header (set with Header.Add): fields that must appear / mandatory fields that must not be overridden
   x   |-> << [set |-> <<>>, extra |-> <<>>],
              [set |-> << <<"X-Custom", "v1">>, <<"Cookie", "a=b">> >>, extra |-> << <<"x-custom", "v1">>, <<"cookie", "a=b">> >>],
              [set |-> << <<"Upgrade", "evil">>, <<"Connection", "close">>, <<"Host", "evil.example">>,
                          <<"Sec-WebSocket-Key", "ZXZpbGV2aWxldmlsZXZpbA==">>, <<"Sec-WebSocket-Version", "8">>,
                          <<"Sec-WebSocket-Protocol", "evil">>, <<"Sec-WebSocket-Accept", "evil">>, <<"User-Agent", "verif">> >>,
               extra |-> << <<"user-agent", "verif">> >>] >> ]

(* ----------------------------------------------------------------------- cases *)
Dims(role) == IF role = "server" THEN SDims ELSE CDims
Alt(role)  == IF role = "server" THEN SAlt ELSE CAlt
NAlt(role, d) == Len(Alt(role)[d])

Base(role) == [d \in Range(Dims(role)) |-> 1]
PairDims(role) == IF role = "server" THEN PairS ELSE PairC

Weight(role, c) == Cardinality({d \in DOMAIN c : c[d] # 1})

RECURSIVE Cat(_, _)
Cat(ss, i) == IF i > Len(ss) THEN <<>> ELSE ss[i] \o Cat(ss, i + 1)

HostLine == Ln(HHost, "server.example.com")

SHead(c) == [line |-> <<SAlt.m[c.m], "/ws", SAlt.hv[c.hv]>>,
             hdrs |-> <<HostLine>> \o Cat(<<SAlt.u[c.u], SAlt.c[c.c], SAlt.k[c.k], SAlt.v[c.v], SAlt.o[c.o], SAlt.p[c.p], SAlt.e[c.e]>>, 1),
             tail |-> SAlt.t[c.t]]
SCfg(c)  == SAlt.cfg[c.cfg]

CResp(c) == [status |-> CAlt.st[c.st].status, line |-> CAlt.st[c.st].line,
             hdrs |-> Cat(<<CAlt.u[c.u], CAlt.c[c.c], CAlt.a[c.a], CAlt.e[c.e], CAlt.p[c.p]>>, 1),
             tail |-> CAlt.t[c.t]]
CCfg(c)  == [protocols |-> CAlt.cp[c.cp], url |-> CAlt.loc[c.loc].url, target |-> CAlt.loc[c.loc].target,
             hosts |-> CAlt.loc[c.loc].hosts, authority |-> CAlt.loc[c.loc].authority, ourl |-> CAlt.loc[c.loc].ourl, origin |-> CAlt.loc[c.loc].origin,
             set |-> CAlt.x[c.x].set, extra |-> CAlt.x[c.x].extra, version |-> 13]

(* ----------------------------------------------------------------------- state space *)
VARIABLES role, c
vars == <<role, c>>

\* the canonical head first; every step moves one more field off its canonical alternative
Init == role \in Roles /\ c = Base(role)
Next == /\ UNCHANGED role
        /\ \E d \in DOMAIN c :
              /\ c[d] = 1
              /\ LET dev == {x \in DOMAIN c : c[x] # 1} IN
                 \/ dev = {}
                 \/ Cardinality(dev) < W /\ dev \cup {d} \subseteq PairDims(role)
              /\ \E a \in 2..NAlt(role, d) : c' = [c EXCEPT ![d] = a]
Spec == Init /\ [][Next]_vars

(* ----------------------------------------------------------------------- design invariants *)
\* The decision procedure of each role is admitted by the contract on every case.
DecisionAdmitted ==
    IF role = "server"
    THEN LET h == SHead(c)  cfg == SCfg(c)  fin == SrvFinalOfDecision(h, cfg) IN
         ServerAllowed(h, cfg, fin, ServerDecision(h, cfg))
    ELSE LET r == [CResp(c) EXCEPT !.hdrs = Fill(CResp(c).hdrs, SampleKey)] IN
         ClientAllowed(r, CCfg(c), SampleKey, ClientDecision(r, CCfg(c), SampleKey))

\* An accepting decision implies every precondition of RFC 6455 4.2.1 (read on all lines of a field);
\* the accept value is a function of the key alone; the echoed subprotocol was offered by the client
\* and selected by the server's configuration; no extension is ever echoed.
AcceptImpliesRFC ==
    role = "server" =>
      LET h == SHead(c)  cfg == SCfg(c)  d == ServerDecision(h, cfg) IN
      d.acc => /\ h.line[1] = "GET"
               /\ "websocket" \in LTokSet(h.hdrs, HUpgrade) /\ "upgrade" \in LTokSet(h.hdrs, HConn)
               /\ \E i \in DOMAIN h.hdrs : h.hdrs[i].n = HKey /\ h.hdrs[i].vb # <<>> /\ d.accept = AcceptOf(h.hdrs[i].vb)
               /\ \E i \in DOMAIN h.hdrs : h.hdrs[i].n = HVersion /\ h.hdrs[i].v = "13"
               /\ d.proto # <<>> => d.proto[1] \in Range(Offered(h)) /\ d.proto = SrvFinalOfDecision(h, cfg)
               /\ ~d.ext
\* A rejecting decision for an unsupported version names the supported one.
VersionAnswered ==
    role = "server" =>
      LET d == ServerDecision(SHead(c), SCfg(c)) IN (~d.acc /\ d.cls = "version") => d.verhdr
\* A successful client decision implies every precondition of RFC 6455 4.1 (response validation).
SuccessImpliesRFC ==
    role = "client" =>
      LET r == [CResp(c) EXCEPT !.hdrs = Fill(CResp(c).hdrs, SampleKey)]  cfg == CCfg(c)
          d == ClientDecision(r, cfg, SampleKey) IN
      d.ok => /\ r.status = 101
              /\ "websocket" \in LTokSet(r.hdrs, HUpgrade) /\ "upgrade" \in LTokSet(r.hdrs, HConn)
              /\ \E i \in DOMAIN r.hdrs : r.hdrs[i].n = HAccept /\ r.hdrs[i].vb = AcceptOf(SampleKey)
              /\ \A i \in DOMAIN r.hdrs : r.hdrs[i].n = HExt => r.hdrs[i].v = ""
              /\ Toks(r.hdrs, HProto) # <<>> => d.cfgproto[1] \in Range(cfg.protocols)

\* the checks are never contradictory: a case is not both "must accept" and "must reject"
ChecksWellFormed ==
    IF role = "server"
    THEN LET ck == SrvChecks(SHead(c), SCfg(c), SrvFinalOfDecision(SHead(c), SCfg(c))) IN \A x \in DOMAIN ck : ck[x] \in Checks3
    ELSE LET ck == CliChecks([CResp(c) EXCEPT !.hdrs = Fill(CResp(c).hdrs, SampleKey)], CCfg(c), SampleKey) IN
         \A x \in DOMAIN ck : ck[x] \in Checks3

(* ----------------------------------------------------------------------- items for the driver *)
Wire(hs) == [i \in DOMAIN hs |-> [n |-> hs[i].n, v |-> hs[i].v, vb |-> hs[i].vb]]
Item == IF role = "server"
        THEN [kind |-> "server", w |-> Weight(role, c), dims |-> c, cfg |-> SCfg(c),
              line |-> SHead(c).line, hdrs |-> Wire(SHead(c).hdrs), tail |-> SHead(c).tail]
        ELSE [kind |-> "client", w |-> Weight(role, c), dims |-> c,
              cfg |-> [protocols |-> CCfg(c).protocols, url |-> CCfg(c).url, ourl |-> CCfg(c).ourl,
                       set |-> CCfg(c).set, version |-> 13],
              want |-> [target |-> CCfg(c).target, hosts |-> CCfg(c).hosts, authority |-> CCfg(c).authority, origin |-> CCfg(c).origin,
                        protocols |-> CCfg(c).protocols, extra |-> CCfg(c).extra],
              line |-> CResp(c).line, status |-> CResp(c).status, hdrs |-> Wire(CResp(c).hdrs), tail |-> CResp(c).tail]
Emit == PrintT(<<"CASE", ToJson(Item)>>)
=============================================================================
