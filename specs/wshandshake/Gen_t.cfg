SPECIFICATION Spec
CONSTANTS
  W = 2
  Roles = {"server", "client"}
  PairS = {"m", "hv", "u", "c", "k", "v", "o", "cfg", "p", "e", "t"}
  PairC = {"st", "u", "c", "a", "e", "p", "cp", "t", "loc", "x"}
INVARIANTS DecisionAdmitted AcceptImpliesRFC VersionAnswered SuccessImpliesRFC ChecksWellFormed Emit
CHECK_DEADLOCK FALSE
