SPECIFICATION TSpec
CONSTANTS
  Types = {"bidi", "uni"}
  MaxOpenVals = {}
  MaxV = 0
  MaxNum = 0
  MaxCalls = 0
INVARIANTS LocalWithinLimit RemoteWithinConfig RemoteBound SentBound
CONSTRAINT Mark
POSTCONDITION AllConsumed
CHECK_DEADLOCK FALSE
