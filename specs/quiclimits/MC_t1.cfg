SPECIFICATION MCSpec
CONSTANTS
  Types = {"bidi"}
  MaxOpenVals = {0, 1, 3, 5}
  MaxV = 8
  MaxNum = 8
  MaxCalls = 4
INVARIANTS TypeOK LocalWithinLimit RemoteWithinConfig RemoteBound SentBound
PROPERTIES Monotone Progress
CHECK_DEADLOCK FALSE
