SPECIFICATION GSpec
CONSTANTS
  Types = {"bidi", "uni"}
  MaxOpenVals = {1, 2, 4}
  MaxV = 6
  MaxNum = 5
  MaxCalls = 6
  GenDepth = 14
INVARIANT Emit
CHECK_DEADLOCK FALSE
