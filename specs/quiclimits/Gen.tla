-------------------------------- MODULE Gen --------------------------------
(* Scenario generator for the in-package binding: histories of operations on one    *)
(* localStreamLimits or one remoteStreamLimits per stream type, taken from the      *)
(* model.  Only the operations are exported; the driver executes them on the real   *)
(* objects and TLC judges what they returned (Trace.tla).  On the local side the    *)
(* model is stepped to quiescence (every enabled return happens first), so that the *)
(* ids it cancels are calls that are really blocked.                                *)
EXTENDS QuicLimits, TLC, Json

CONSTANT GenDepth
VARIABLES hist, side
gvars == <<vars, hist, side>>

Rec(r) == hist' = Append(hist, r)

GInit ==
    /\ Init
    /\ side \in {"local", "remote"}
    /\ hist = <<[e |-> "cfg", side |-> side, maxopen |-> maxOpen]>>

Settled == \A t \in Types : \A id \in pend[t] : ~ENABLED Ret(t, id, lopened[t]) /\ ~ENABLED RetErr(t, id)

GLocal ==
    \/ \E t \in Types : \E id \in pend[t] : (Ret(t, id, lopened[t]) \/ RetErr(t, id)) /\ UNCHANGED hist
    \/ /\ Settled
       /\ \/ \E t \in Types : nextId <= MaxCalls /\ Call(t, nextId) /\ Rec([e |-> "call", ty |-> t])
          \/ \E t \in Types : \E id \in pend[t] : Cancel(id) /\ Rec([e |-> "cancel", id |-> id])
          \/ \E t \in Types, v \in 0..MaxV : PeerMaxStreams(t, v) /\ Rec([e |-> "peermax", ty |-> t, v |-> v])
          \/ ConnClosed /\ ~closed /\ Rec([e |-> "close"])
          \* a late frame for a stream number we may or may not have opened (wasOpened), in
          \* every order relative to calls, blocked calls and MAX_STREAMS
          \/ \E t \in Types, num \in 0..MaxCalls :
                UNCHANGED vars /\ Rec([e |-> "late", ty |-> t, num |-> num])

GRemote ==
    \/ \E t \in Types, num \in 0..MaxNum : \E m \in AllowedRmax(t, rclosed[t]) :
          m <= MaxV /\ PeerOpens(t, num, m) /\ Rec([e |-> "peeropen", ty |-> t, num |-> num])
    \/ \E t \in Types : \E m \in AllowedRmax(t, rclosed[t] + 1) :
          m <= MaxV /\ PeerStreamDone(t, m) /\ Rec([e |-> "peerdone", ty |-> t])
    \/ \E t \in Types, pto \in BOOLEAN :
          SendMaxStreams(t, rmax[t]) /\ Rec([e |-> "send", ty |-> t, pto |-> pto])
    \/ \E t \in Types, lost \in BOOLEAN :
          UNCHANGED vars /\ Rec([e |-> "fate", ty |-> t, lost |-> lost])

GNext == /\ side' = side
         /\ \/ side = "local" /\ GLocal
            \/ side = "remote" /\ GRemote

GSpec == GInit /\ [][GNext]_gvars

Emit == Len(hist) <= GenDepth \/ PrintT(<<"BEH", ToJson(hist)>>)
=============================================================================
