SPECIFICATION MCSpec
CONSTANTS
  Types = {"bidi", "uni"}
  MaxOpenVals = {0, 1, 2}
  MaxV = 3
  MaxNum = 3
  MaxCalls = 2
INVARIANTS TypeOK LocalWithinLimit RemoteWithinConfig RemoteBound SentBound
PROPERTIES Monotone Progress
CHECK_DEADLOCK FALSE
