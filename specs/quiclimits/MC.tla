--------------------------------- MODULE MC ---------------------------------
(* Model-checking wrapper: the two directions do not interact, so each behaviour   *)
(* explores one of them (avoids the product of the two state spaces).              *)
EXTENDS QuicLimits
VARIABLE side
MCInit == Init /\ side \in {"local", "remote"}
MCNext == /\ side' = side
          /\ \/ side = "local" /\ NextLocal
             \/ side = "remote" /\ NextRemote
MCSpec == MCInit /\ [][MCNext]_<<vars, side>> /\ Fair
=============================================================================
