SPECIFICATION MCSpec
CONSTANTS
  Types = {"bidi"}
  MaxOpenVals = {0, 1, 3}
  MaxV = 5
  MaxNum = 5
  MaxCalls = 3
INVARIANTS TypeOK LocalWithinLimit RemoteWithinConfig RemoteBound SentBound
PROPERTIES Monotone
CHECK_DEADLOCK FALSE
