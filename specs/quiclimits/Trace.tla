------------------------------- MODULE Trace -------------------------------
(* Trace validation for C21.  Two kinds of traces share the vocabulary:            *)
(*  level "unit": localStreamLimits / remoteStreamLimits driven directly; the      *)
(*     limit in force (lim.max) and the counters are read after every call;        *)
(*  level "conn": a real Conn with a scripted peer (newTestConn): NewStream calls,  *)
(*     STREAM / MAX_STREAMS frames in both directions, CONNECTION_CLOSE codes; the  *)
(*     limit in force is what has been seen on the wire.                           *)
(* Every line must be a step of QuicLimits; the invariants of the cfg are checked   *)
(* in every state.                                                                  *)
EXTENDS QuicLimits, TraceIO

VARIABLES cur, l
tvars == <<vars, cur, l>>

Line == Trace[l]

TInit ==
    \E t \in 1..NT :
       LET h == Trace[Meta.starts[t]] IN
       /\ cur = t /\ l = Meta.starts[t] + 1
       /\ h.e = "hdr"
       /\ InitWith([x \in Types |-> h.lmax0[x]], [x \in Types |-> h.maxopen[x]], [x \in Types |-> 0])

\* the initial limits go out in the transport parameters: like every advertised limit they
\* must not exceed what is configured (nothing is closed yet)
TStart ==
    /\ Line.e = "start"
    /\ \A x \in Types : ropened[x] = 0 /\ rclosed[x] = 0 /\ rmax[x] = 0
    /\ \A x \in Types : Line.rmax0[x] >= 0 /\ Line.rmax0[x] <= maxOpen[x]
    /\ rmax' = [x \in Types |-> Line.rmax0[x]]
    /\ sent' = rmax'
    /\ UNCHANGED <<maxOpen, ropened, rclosed, lastErr, lvars>>

IsT(x) == x \in Types
SetOf(s) == {s[i] : i \in 1..Len(s)}

TCall   == Line.e = "call" /\ IsT(Line.ty) /\ Line.id = nextId /\ Call(Line.ty, Line.id)
TRet    == Line.e = "ret" /\ IsT(Line.ty) /\ Ret(Line.ty, Line.id, Line.num)
TRetErr == Line.e = "reterr" /\ IsT(Line.ty) /\ RetErr(Line.ty, Line.id)
TCancel == Line.e = "cancel" /\ Cancel(Line.id)
TPeerMax == Line.e = "peermax" /\ IsT(Line.ty) /\ Line.v >= 0 /\ PeerMaxStreams(Line.ty, Line.v)
TClose  == Line.e = "close" /\ ConnClosed

\* unit level: localStreamLimits.wasOpened(num), as called for a frame that names a stream of
\* ours which is no longer in the conn's map.  It only answers; the limits do not move.
TLateU ==
    /\ Line.e = "lateframe" /\ IsT(Line.ty) /\ Line.num >= 0
    /\ closed \/ (Line.was = (Line.num < lopened[Line.ty]))
    /\ UNCHANGED vars

\* conn level: the peer sent a frame (STOP_SENDING, MAX_STREAM_DATA, RESET_STREAM, STREAM
\* retransmission) for a stream we opened and that is finished; the connection stays up
TLateC ==
    /\ Line.e = "clateframe" /\ IsT(Line.ty)
    /\ LateFrame(Line.ty, Line.num)
    /\ Line.outcome = "ok"

\* after the driver has stepped to quiescence: the calls still blocked are exactly the
\* pending ones, and none of them could proceed
TQuiesce ==
    /\ Line.e = "quiesce"
    /\ SetOf(Line.blocked) = UNION {pend[x] : x \in Types}
    /\ NoneEnabled
    /\ UNCHANGED vars

\* unit level: remoteStreamLimits.open(id); lim.max / lim.opened read afterwards
TPeerOpenU ==
    /\ Line.e = "peeropen" /\ IsT(Line.ty) /\ Line.num >= 0
    /\ PeerOpens(Line.ty, Line.num, Line.max)
    /\ Line.err = (lastErr' = "STREAM_LIMIT")
    /\ Line.err => Line.code = "STREAM_LIMIT"
    /\ Line.max = rmax'[Line.ty] /\ Line.opened = ropened'[Line.ty]

\* unit level: remoteStreamLimits.close()
TPeerDoneU ==
    /\ Line.e = "peerdone" /\ IsT(Line.ty)
    /\ PeerStreamDone(Line.ty, Line.max)
    /\ Line.closed = rclosed'[Line.ty]

\* a MAX_STREAMS frame produced by appendFrame
TSendMax == Line.e = "sendmax" /\ IsT(Line.ty) /\ SendMaxStreams(Line.ty, Line.v)

\* conn level: the peer's frame for stream num of type ty was delivered.  The limit in
\* force is the one on the wire.  Outcome: "ok" (no error) or the CONNECTION_CLOSE code.
TPeerOpenC ==
    /\ Line.e = "cpeeropen" /\ IsT(Line.ty) /\ Line.num >= 0
    /\ PeerOpens(Line.ty, Line.num, rmax[Line.ty])
    /\ IF lastErr' = "STREAM_LIMIT" THEN Line.outcome = "STREAM_LIMIT" ELSE Line.outcome = "ok"

\* conn level: a MAX_STREAMS frame seen on the wire raises (never lowers) the limit in
\* force, within what the finished streams allow
TSendMaxC ==
    /\ Line.e = "csendmax" /\ IsT(Line.ty)
    /\ Line.v \in AllowedRmax(Line.ty, rclosed[Line.ty])
    /\ rmax' = [rmax EXCEPT ![Line.ty] = Line.v]
    /\ sent' = [sent EXCEPT ![Line.ty] = Line.v]
    /\ lastErr' = "ok"
    /\ UNCHANGED <<maxOpen, ropened, rclosed, lvars>>

\* conn level: the driver finished one open peer stream (both directions done, acked)
TPeerDoneC ==
    /\ Line.e = "cpeerdone" /\ IsT(Line.ty)
    /\ PeerStreamDone(Line.ty, rmax[Line.ty])

TNext ==
    /\ l <= Meta.ends[cur]
    /\ l' = l + 1 /\ cur' = cur
    /\ \/ TStart \/ TCall \/ TRet \/ TRetErr \/ TCancel \/ TPeerMax \/ TClose \/ TQuiesce \/ TLateU \/ TLateC
       \/ TPeerOpenU \/ TPeerDoneU \/ TSendMax
       \/ TPeerOpenC \/ TSendMaxC \/ TPeerDoneC

TSpec == TInit /\ [][TNext]_tvars

Mark == HighWater(cur, l)

\* action property checked on traces: limits never go down
TMonotone == [][\A t \in Types : rmax'[t] >= rmax[t] /\ sent'[t] >= sent[t] /\ lmax'[t] >= lmax[t]]_vars
=============================================================================
