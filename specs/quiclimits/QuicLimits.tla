----------------------------- MODULE QuicLimits -----------------------------
(* QUIC stream-count limits of one endpoint (RFC 9000 section 4.6), both directions.*)
(*                                                                                 *)
(* Local side (streams we open): the peer's MAX_STREAMS is lmax; NewStream blocks   *)
(* while lopened >= lmax and returns the stream number lopened otherwise.  Remote   *)
(* side (streams the peer opens): we advertise rmax (transport parameter, then      *)
(* MAX_STREAMS frames), the peer opens stream numbers below it (a higher number     *)
(* implicitly opens all lower ones), streams are finished one by one, and we may    *)
(* raise rmax.  WHEN and BY HOW MUCH rmax is raised is a tuning decision of the     *)
(* implementation (golang/net: "less than 8 left or it would double"); C21 only     *)
(* needs  rmax' >= rmax  and  rmax' <= rclosed + maxOpen, so that is all the        *)
(* specification fixes (the new limit is a nondeterministic choice).                *)
(*                                                                                 *)
(* All variables are functions of the stream type (bidi / uni are independent).     *)
EXTENDS Integers, FiniteSets, Sequences

CONSTANTS Types,       \* stream types
          MaxOpenVals, \* model checking: configured Max*RemoteStreams values
          MaxV,        \* model checking: largest MAX_STREAMS value the peer sends
          MaxNum,      \* model checking: largest stream number the peer uses
          MaxCalls     \* model checking: number of NewStream calls

VARIABLES
    \* ---- local side
    lmax,      \* [type -> peer's current MAX_STREAMS]
    lopened,   \* [type -> number of streams opened by us]
    closed,    \* connection closed (locally or by the peer)
    pend,      \* [type -> set of ids of NewStream calls that have not returned]
    canc,      \* set of call ids whose context was cancelled
    nextId,    \* next call id
    \* ---- remote side
    maxOpen,   \* [type -> configured limit on simultaneously open peer streams]
    rmax,      \* [type -> limit currently in force for the peer's streams]
    ropened,   \* [type -> number of streams opened by the peer (highest number + 1)]
    rclosed,   \* [type -> number of peer streams that are finished]
    sent,      \* [type -> last value advertised on the wire (transport parameter / MAX_STREAMS)]
    lastErr    \* result of the last PeerOpens: "ok" | "STREAM_LIMIT"

lvars == <<lmax, lopened, closed, pend, canc, nextId>>
rvars == <<maxOpen, rmax, ropened, rclosed, sent, lastErr>>
vars  == <<lvars, rvars>>

Max(a, b) == IF a > b THEN a ELSE b

InitWith(lmax0, maxOpen0, rmax0) ==
    /\ lmax = lmax0 /\ lopened = [t \in Types |-> 0] /\ closed = FALSE
    /\ pend = [t \in Types |-> {}] /\ canc = {} /\ nextId = 1
    /\ maxOpen = maxOpen0 /\ rmax = rmax0
    /\ ropened = [t \in Types |-> 0] /\ rclosed = [t \in Types |-> 0]
    /\ sent = rmax0 /\ lastErr = "ok"

(* ------------------------------------------------------------- local side *)
\* the application calls NewStream / NewSendOnlyStream
Call(t, id) ==
    /\ pend' = [pend EXCEPT ![t] = @ \cup {id}] /\ nextId' = nextId + 1
    /\ UNCHANGED <<lmax, lopened, closed, canc, rvars>>

\* a call returns stream number num: only while there is quota, numbers are dense
CanOpen(t) == ~closed /\ lopened[t] < lmax[t]
Ret(t, id, num) ==
    /\ id \in pend[t] /\ CanOpen(t) /\ num = lopened[t]
    /\ lopened' = [lopened EXCEPT ![t] = @ + 1]
    /\ pend' = [pend EXCEPT ![t] = @ \ {id}]
    /\ UNCHANGED <<lmax, closed, canc, nextId, rvars>>

\* a call returns an error: its context was cancelled, or the connection is closed
RetErr(t, id) ==
    /\ id \in pend[t] /\ (id \in canc \/ closed)
    /\ pend' = [pend EXCEPT ![t] = @ \ {id}]
    /\ UNCHANGED <<lmax, lopened, closed, canc, nextId, rvars>>

Cancel(id) ==
    /\ canc' = canc \cup {id}
    /\ UNCHANGED <<lmax, lopened, closed, pend, nextId, rvars>>

\* MAX_STREAMS from the peer, in any order: a value that does not raise the limit is ignored
PeerMaxStreams(t, v) ==
    /\ lmax' = [lmax EXCEPT ![t] = Max(@, v)]
    /\ UNCHANGED <<lopened, closed, pend, canc, nextId, rvars>>

\* the peer sends a (late, duplicate, retransmitted) frame for a stream we opened earlier and
\* that may be finished and forgotten by now: nothing about the limits changes -- in
\* particular it frees no quota (CanOpen is unchanged) and wakes no blocked call
LateFrame(t, num) ==
    /\ num >= 0 /\ num < lopened[t]
    /\ UNCHANGED <<lvars, rvars>>

ConnClosed ==
    /\ closed' = TRUE
    /\ UNCHANGED <<lmax, lopened, pend, canc, nextId, rvars>>

\* At quiescence no call may be left blocked that could proceed (lost wake-up), and the
\* set of blocked calls is exactly pend.
NoneEnabled == \A t \in Types : pend[t] # {} => (~closed /\ lopened[t] >= lmax[t] /\ pend[t] \cap canc = {})

(* ------------------------------------------------------------ remote side *)
\* what C21 allows for the limit after a step that leaves rclosed at rc
AllowedRmax(t, rc) == {m \in rmax[t]..Max(rmax[t], rc + maxOpen[t]) : m <= rc + maxOpen[t] \/ m = rmax[t]}

\* the peer uses stream number num (first frame for it): beyond the limit it is a
\* STREAM_LIMIT_ERROR and nothing changes; otherwise all numbers up to num are open
PeerOpens(t, num, newmax) ==
    IF num >= rmax[t]
    THEN /\ lastErr' = "STREAM_LIMIT"
         /\ UNCHANGED <<maxOpen, rmax, ropened, rclosed, sent, lvars>>
    ELSE /\ lastErr' = "ok"
         /\ ropened' = [ropened EXCEPT ![t] = Max(@, num + 1)]
         /\ newmax \in AllowedRmax(t, rclosed[t])
         /\ rmax' = [rmax EXCEPT ![t] = newmax]
         /\ UNCHANGED <<maxOpen, rclosed, sent, lvars>>

\* one open peer stream is finished (both directions done and removed from the conn)
PeerStreamDone(t, newmax) ==
    /\ rclosed[t] < ropened[t]
    /\ rclosed' = [rclosed EXCEPT ![t] = @ + 1]
    /\ newmax \in AllowedRmax(t, rclosed[t] + 1)
    /\ rmax' = [rmax EXCEPT ![t] = newmax]
    /\ lastErr' = "ok"
    /\ UNCHANGED <<maxOpen, ropened, sent, lvars>>

\* a MAX_STREAMS frame with value v goes on the wire: never below what was advertised
\* before, never above the limit in force (golang/net always sends the limit in force)
SendMaxStreams(t, v) ==
    /\ sent[t] <= v /\ v <= rmax[t]
    /\ sent' = [sent EXCEPT ![t] = v]
    /\ lastErr' = "ok"
    /\ UNCHANGED <<maxOpen, rmax, ropened, rclosed, lvars>>

(* --------------------------------------------------------------- properties *)
TypeOK ==
    /\ \A t \in Types : lopened[t] >= 0 /\ rclosed[t] >= 0 /\ ropened[t] >= rclosed[t]

\* never a local stream whose number is at or beyond the peer's MAX_STREAMS
LocalWithinLimit == \A t \in Types : lopened[t] <= lmax[t]
\* the peer never holds more simultaneously open streams than configured
RemoteWithinConfig == \A t \in Types : ropened[t] - rclosed[t] <= maxOpen[t]
\* what makes that true: the peer is held to rmax, and rmax to closed + configured
RemoteBound == \A t \in Types : ropened[t] <= rmax[t] /\ (rmax[t] <= rclosed[t] + maxOpen[t])
\* what is on the wire never exceeds the limit in force
SentBound == \A t \in Types : sent[t] <= rmax[t]
\* advertised limits never decrease (action property)
Monotone == [][\A t \in Types : rmax'[t] >= rmax[t] /\ sent'[t] >= sent[t] /\ lmax'[t] >= lmax[t]
                                /\ lopened'[t] >= lopened[t]]_vars

(* ----------------------------------------------------------- model checking *)
Init ==
    \E mo \in [Types -> MaxOpenVals] :
    \E r0 \in [Types -> 0..MaxV] :
       /\ \A t \in Types : r0[t] <= mo[t]
       /\ InitWith([t \in Types |-> 0], mo, r0)

NextLocal ==
    \/ \E t \in Types : nextId <= MaxCalls /\ Call(t, nextId)
    \/ \E t \in Types : \E id \in pend[t] : Ret(t, id, lopened[t]) \/ RetErr(t, id)
    \/ \E t \in Types : \E id \in pend[t] : Cancel(id)
    \/ \E t \in Types, v \in 0..MaxV : PeerMaxStreams(t, v)
    \/ \E t \in Types : \E num \in 0..(lopened[t] - 1) : LateFrame(t, num)
    \/ ConnClosed
NextRemote ==
    \/ \E t \in Types, num \in 0..MaxNum : \E m \in AllowedRmax(t, rclosed[t]) : m <= MaxV /\ PeerOpens(t, num, m)
    \/ \E t \in Types : \E m \in AllowedRmax(t, rclosed[t] + 1) : m <= MaxV /\ PeerStreamDone(t, m)
    \/ \E t \in Types : \E v \in sent[t]..rmax[t] : SendMaxStreams(t, v)
Next == NextLocal \/ NextRemote

Fair == WF_vars(\E t \in Types : \E id \in pend[t] : Ret(t, id, lopened[t]))
Spec == Init /\ [][Next]_vars /\ Fair

\* a blocked NewStream returns once the limit allows it (and nothing closes the conn)
Progress == \A t \in Types : (pend[t] # {} /\ CanOpen(t)) ~> (pend[t] = {} \/ ~CanOpen(t) \/ closed)
=============================================================================
