----------------------------- MODULE QuicTokens -----------------------------
(* C31: address-validation (Retry) tokens and stateless-reset tokens are bound to   *)
(* their context.                                                                   *)
(*                                                                                  *)
(* Retry tokens, with an abstract AEAD.  A token is what the server sealed when it  *)
(* sent a Retry:                                                                    *)
(*    key    the server's token key (one per retryState)                            *)
(*    nonce  fresh per token; part of it travels as the Retry packet's Source       *)
(*           Connection ID (the client's next Destination Connection ID), the rest  *)
(*           in the token                                                           *)
(*    ad     additional data <<client source connection id, ip, port>>              *)
(*    pt     plaintext <<timestamp, original destination connection id>>            *)
(* Opening succeeds only with the same key, nonce and additional data on an         *)
(* undamaged token (that is the AEAD's contract; the real one is trusted).          *)
(* The contexts are compared component by component: a presentation is described    *)
(* by which components equal those of the issue (same) and which differ.            *)
(*                                                                                  *)
(* Time.  d = presentation time - issue time is a pair <<seconds, nanoseconds>>      *)
(* (0 <= ns < 10^9; TLC integers are 32-bit), V the validity period in whole         *)
(* seconds.  The token carries a timestamp of unspecified resolution R <= 1 s        *)
(* (issue time rounded down), and validity is measured from it in both directions   *)
(* (a token from the future, after the clock stepped back, is accepted within V):   *)
(* accepted iff |now - stamp| <= V, stamp \in (issue - 1s, issue].  So               *)
(*      d > V                 => rejected   (the property: not after its validity)   *)
(*      d <= -V - 1s          => rejected                                            *)
(*      -V <= d <= V - 1s     => accepted                                            *)
(*      otherwise             the answer depends on R: not judged ("any")            *)
EXTENDS Integers, Sequences, FiniteSets

Components == {"key", "scid", "dcid", "ip", "port"}
Damages == {"none", "flipnonce", "flipct", "fliptag", "trunc1", "truncshort", "empty", "extend"}
NS == 1000000000

IsDelta(d) == d.s \in Int /\ d.ns \in 0..(NS - 1)

\* comparisons of d = <<s, ns>> with whole seconds k
Gt(d, k)  == d.s > k \/ (d.s = k /\ d.ns > 0)      \* d >  k s
Leq(d, k) == ~Gt(d, k)                              \* d <= k s
Geq(d, k) == d.s >= k                               \* d >= k s

\* the three-valued prediction for the time window alone
Window(d, V) ==
    IF Gt(d, V) \/ Leq(d, 0 - V - 1) THEN "no"
    ELSE IF Geq(d, 0 - V) /\ Leq(d, V - 1) THEN "yes"
    ELSE "any"

\* same: the set of components of the presenting context equal to the issuing one
Expected(same, dmg, d, V) ==
    IF same # Components \/ dmg # "none" THEN "no" ELSE Window(d, V)

\* C31 (Retry part): whatever is (or may be) accepted was presented unmodified, from the same
\* address and port, with the same connection IDs and key, not after its validity period.
AcceptedOnlyInContext(same, dmg, d, V) ==
    Expected(same, dmg, d, V) # "no" =>
        /\ same = Components /\ dmg = "none"
        /\ Leq(d, V)

\* an observation of the real validateToken: ok and, when ok, whether the returned original
\* destination connection id is the one the token was issued for
ObservationAllowed(exp, ok, odcidSame) ==
    /\ exp = "yes" => ok
    /\ exp = "no"  => ~ok
    /\ ok => odcidSame

(* ---------------------------------------------------------- stateless reset *)
\* Observations <<key, cid, token>> (identities of byte strings).  The token must be a
\* function of (key, cid) and differ for different connection IDs and keys.
ResetFunction(obs)  == \A x, y \in obs : (x[1] = y[1] /\ x[2] = y[2]) => x[3] = y[3]
ResetDistinct(obs)  == \A x, y \in obs : x[3] = y[3] => (x[1] = y[1] /\ x[2] = y[2])
=============================================================================
