----------------------------- MODULE QuicTokens -----------------------------
(* C31: address-validation (Retry) tokens and stateless-reset tokens are bound to   *)
(* their context.                                                                   *)
(*                                                                                  *)
(* Retry tokens, with an abstract AEAD.  A token is what the server sealed when it  *)
(* sent a Retry:                                                                    *)
(*    key    the server's token key (one per retryState)                            *)
(*    nonce  fresh per token; part of it travels as the Retry packet's Source       *)
(*           Connection ID (the client's next Destination Connection ID), the rest  *)
(*           in the token                                                           *)
(*    ad     additional data <<client source connection id, ip, port>>              *)
(*    pt     plaintext <<timestamp, original destination connection id>>            *)
(* Opening succeeds only with the same key, nonce and additional data on an         *)
(* undamaged token (that is the AEAD's contract; the real one is trusted).          *)
(* The contexts are compared component by component: a presentation says, for each  *)
(* component, how it relates to the one of the issue: "same", or one of the ways of  *)
(* being a different value (another key; a connection ID with one bit flipped, cut   *)
(* short, extended by a zero byte or empty; another address, the same address one    *)
(* bit away or zero-padded into the other family; a port differing in its low bit   *)
(* or only in its high byte).  The verdict does not depend on how close the other    *)
(* value is: anything that is not the issued value is invalid.  The only unclear     *)
(* case is an IPv4 address presented in its IPv4-mapped IPv6 form: whether that is    *)
(* "the same client address" is left open (not judged unless something else differs). *)
(*                                                                                  *)
(* Time.  d = presentation time - issue time is a pair <<seconds, nanoseconds>>      *)
(* (0 <= ns < 10^9; TLC integers are 32-bit), V the validity period in whole         *)
(* seconds.  The token carries a timestamp of unspecified resolution R <= 1 s        *)
(* (issue time rounded down), and validity is measured from it in both directions   *)
(* (a token from the future, after the clock stepped back, is accepted within V):   *)
(* accepted iff |now - stamp| <= V, stamp \in (issue - 1s, issue].  So               *)
(*      d > V                 => rejected   (the property: not after its validity)   *)
(*      d <= -V - 1s          => rejected                                            *)
(*      -V <= d <= V - 1s     => accepted                                            *)
(*      otherwise             the answer depends on R: not judged ("any")            *)
EXTENDS Integers, Sequences, FiniteSets

Components == {"key", "scid", "dcid", "ip", "port"}
KeyV  == {"same", "other"}
ScidV == {"same", "flip", "prefix", "ext0", "empty"}
DcidV == {"same", "flip", "prefix", "prefix2", "ext0", "empty"}
IpV   == {"same", "other", "flip", "pad", "mapped"}
PortV == {"same", "lowbit", "highbyte"}
Contexts == [key : KeyV, scid : ScidV, dcid : DcidV, ip : IpV, port : PortV]
SameCtx  == [key |-> "same", scid |-> "same", dcid |-> "same", ip |-> "same", port |-> "same"]

\* some component is certainly not the issued value
Differs(c) == c.key # "same" \/ c.scid # "same" \/ c.dcid # "same" \/ c.port # "same" \/ c.ip \notin {"same", "mapped"}
Damages == {"none", "flipnonce", "flipct", "fliptag", "trunc1", "truncshort", "empty", "extend"}
NS == 1000000000

IsDelta(d) == d.s \in Int /\ d.ns \in 0..(NS - 1)

\* comparisons of d = <<s, ns>> with whole seconds k
Gt(d, k)  == d.s > k \/ (d.s = k /\ d.ns > 0)      \* d >  k s
Leq(d, k) == ~Gt(d, k)                              \* d <= k s
Geq(d, k) == d.s >= k                               \* d >= k s

\* the three-valued prediction for the time window alone
Window(d, V) ==
    IF Gt(d, V) \/ Leq(d, 0 - V - 1) THEN "no"
    ELSE IF Geq(d, 0 - V) /\ Leq(d, V - 1) THEN "yes"
    ELSE "any"

\* c: the presenting context relative to the issuing one
Expected(c, dmg, d, V) ==
    IF Differs(c) \/ dmg # "none" THEN "no"
    ELSE IF c.ip = "mapped" THEN (IF Window(d, V) = "no" THEN "no" ELSE "any")
    ELSE Window(d, V)

\* C31 (Retry part): whatever is (or may be) accepted was presented unmodified, from the same
\* address and port, with the same connection IDs and key, not after its validity period.
AcceptedOnlyInContext(c, dmg, d, V) ==
    Expected(c, dmg, d, V) # "no" =>
        /\ ~Differs(c) /\ dmg = "none"
        /\ Leq(d, V)

\* an observation of the real validateToken: ok and, when ok, whether the returned original
\* destination connection id is the one the token was issued for
ObservationAllowed(exp, ok, odcidSame) ==
    /\ exp = "yes" => ok
    /\ exp = "no"  => ~ok
    /\ ok => odcidSame

(* ---------------------------------------------------------- stateless reset *)
\* Observations <<key, cid, token>> (identities of byte strings).  The token must be a
\* function of (key, cid) -- whatever calls came before, whichever generator with that key
\* produced it and whichever buffer carried the connection ID -- and differ for different
\* connection IDs and keys.
ResetFunction(obs)  == \A x, y \in obs : (x[1] = y[1] /\ x[2] = y[2]) => x[3] = y[3]
ResetDistinct(obs)  == \A x, y \in obs : x[3] = y[3] => (x[1] = y[1] /\ x[2] = y[2])
=============================================================================
