------------------------------- MODULE Trace -------------------------------
(* Trace validation for C31.  Lines:                                                *)
(*   hdr    v = validity period of the package in whole seconds                      *)
(*   retry  one makeToken / validateToken experiment on the real retryState (or      *)
(*          through a real Endpoint): how each context component related to the     *)
(*          issued one (same, or which kind of different value), the                *)
(*          damage kind, the time offset d = dsec s + dns ns, the result             *)
(*   srt    one stateless-reset token observation <<key id, cid id, token id>>: a     *)
(*          tokenForConnID call (fresh slice, reused buffer, fresh generator,         *)
(*          concurrent) or the trailing 16 bytes of a stateless reset an Endpoint     *)
(*          sent for a datagram with that destination connection id (identities      *)
(*          of byte strings, interned by the driver)                                 *)
(* Every line must be allowed by QuicTokens.                                         *)
EXTENDS QuicTokens, TraceIO

VARIABLES cur, l, V, obs
tvars == <<cur, l, V, obs>>

Line == Trace[l]

TInit ==
    \E t \in 1..NT :
       LET h == Trace[Meta.starts[t]] IN
       /\ cur = t /\ l = Meta.starts[t] + 1
       /\ h.e = "hdr" /\ h.v \in 2..100000
       /\ V = h.v /\ obs = {}

TRetry ==
    /\ Line.e = "retry"
    /\ Line.dmg \in Damages
    /\ Line.ctx \in Contexts
    /\ LET d == [s |-> Line.dsec, ns |-> Line.dns] IN
       /\ IsDelta(d)
       /\ ObservationAllowed(Expected(Line.ctx, Line.dmg, d, V), Line.ok, Line.odsame)
    /\ UNCHANGED <<V, obs>>

TReset ==
    /\ Line.e = "srt"
    /\ LET n == <<Line.key, Line.cid, Line.tok>> IN
       /\ obs' = obs \cup {n}
       \* the new observation against all earlier ones (obs itself satisfied both already)
       /\ \A x \in obs : ResetFunction({x, n}) /\ ResetDistinct({x, n})
    /\ UNCHANGED V

TNext ==
    /\ l <= Meta.ends[cur]
    /\ l' = l + 1 /\ cur' = cur
    /\ (TRetry \/ TReset)

TSpec == TInit /\ [][TNext]_tvars

Mark == HighWater(cur, l)
=============================================================================
