SPECIFICATION Spec
CONSTANTS
  Vmodel = 5
  MaxSeq = 4
INVARIANTS Lemma Export
CHECK_DEADLOCK FALSE
