SPECIFICATION Spec
CONSTANTS
  Vmodel = 5
INVARIANTS Lemma Export
CHECK_DEADLOCK FALSE
