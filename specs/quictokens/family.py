# Signatures for findings of the quictokens family (C31): which experiment class failed.


def _window(line, v):
    s, ns = line.get("dsec", 0), line.get("dns", 0)
    if s > v or (s == v and ns > 0):
        return "after-validity"
    if s < -v - 1 or (s == -v - 1 and ns == 0):
        return "before-window"
    if s >= -v and (s < v - 1 or (s == v - 1 and ns == 0)):
        return "inside"
    return "edge"


def signature(prop, kind, scenario, detail):
    try:
        if kind != "trace" or not isinstance(scenario, dict):
            return None
        lines = scenario.get("lines") or []
        if not lines:
            return None
        hdr, last = lines[0], lines[-1]
        e = last.get("e")
        if e == "retry":
            ctx = last.get("ctx", {})
            diff = ["%s=%s" % (k, ctx.get(k)) for k in ("key", "scid", "dcid", "ip", "port") if ctx.get(k, "same") != "same"]
            return "retry;lvl=%s;different=%s;dmg=%s;window=%s;ok=%s;odsame=%s" % (
                last.get("lvl"), "+".join(diff) or "none", last.get("dmg"), _window(last, hdr.get("v", 5)),
                last.get("ok"), last.get("odsame"))
        if e == "srt":
            return "reset-token;how=%s;cidlen=%s" % (last.get("how"), last.get("cidlen"))
        return "tokens;event=%s;%s" % (e, str(last.get("msg", ""))[:60])
    except Exception:
        return None
