------------------------------- MODULE Cases -------------------------------
(* Case generator for C31 (TLC breadth-first, exhaustive for the listed domain):     *)
(* issue context x presenting context (each component same / different, and every   *)
(* way of differing for one component at a time) x time                              *)
(* offset at every boundary of the validity window x sub-second part of the issue    *)
(* time x damage kind x length class of the original destination connection id x    *)
(* address family.  Every case is one state; the invariant checks the property on   *)
(* the specification's own prediction and exports the case.  Offsets are symbolic   *)
(* in the validity period V (m*V + s seconds + ns) because the driver reads V from   *)
(* the package; the prediction is made by TLC again when it judges the recorded      *)
(* results (Trace.tla), with V from the trace header.                                *)
EXTENDS QuicTokens, TLC, Json

CONSTANTS Vmodel,   \* validity used to check the lemma here (any V >= 2 gives the same classes)
          MaxSeq    \* longest tokenForConnID call sequence

VARIABLE c

\* d = m*V + s seconds + ns
Offsets == {<<0 - 1, 0 - 2, 0>>, <<0 - 1, 0 - 1, 0>>, <<0 - 1, 0 - 1, 1>>, <<0 - 1, 0 - 1, 999999999>>,
            <<0 - 1, 0, 0>>, <<0 - 1, 0, 1>>, <<0 - 1, 1, 0>>,
            <<0, 0 - 1, 0>>, <<0, 0 - 1, 999999999>>, <<0, 0, 0>>, <<0, 0, 1>>, <<0, 0, 500000000>>,
            <<1, 0 - 2, 0>>, <<1, 0 - 1, 0>>, <<1, 0 - 1, 1>>, <<1, 0 - 1, 999999999>>,
            <<1, 0, 0>>, <<1, 0, 1>>, <<1, 1, 0>>, <<1, 3, 0>>, <<2, 0, 0>>}
FewOffsets == {<<0, 0, 0>>, <<1, 0 - 1, 0>>, <<1, 0, 1>>}
Fracs == {0, 1, 500000000, 999999999}
OdcidLens == {0, 8, 20}
Fams == {"v4", "v6"}

Delta(o, V) == [s |-> o[1] * V + o[2], ns |-> o[3]]

Case(ctx, dmg, o, fr, ol, fam) ==
    [k |-> "retry", ctx |-> ctx, dmg |-> dmg, dm |-> o[1], ds |-> o[2], dns |-> o[3],
     ifrac |-> fr, olen |-> ol, fam |-> fam]

With(n, v) == [SameCtx EXCEPT ![n] = v]
\* one component differing, in every way it can (address variants that need an IPv4 issue
\* only there)
Singles(fam) ==
    {With("key", "other")} \cup {With("scid", v) : v \in ScidV \ {"same"}}
    \cup {With("dcid", v) : v \in DcidV \ {"same"}}
    \cup {With("ip", v) : v \in (IF fam = "v4" THEN IpV ELSE {"other", "flip"}) \ {"same"}}
    \cup {With("port", v) : v \in PortV \ {"same"}}
\* every combination of same / different components (the plainest variant of each)
Basic(s) == [key |-> IF "key" \in s THEN "same" ELSE "other", scid |-> IF "scid" \in s THEN "same" ELSE "flip",
             dcid |-> IF "dcid" \in s THEN "same" ELSE "flip", ip |-> IF "ip" \in s THEN "same" ELSE "other",
             port |-> IF "port" \in s THEN "same" ELSE "lowbit"]

CasesRetry ==
    \* (A) same context, undamaged: the whole time grid
    {Case(SameCtx, "none", o, fr, ol, fam) : o \in Offsets, fr \in Fracs, ol \in OdcidLens, fam \in Fams}
    \* (B) every combination of same / different components, inside and at the edge of the window
    \cup {Case(Basic(s), "none", o, 0, 8, fam) : s \in SUBSET Components, o \in FewOffsets, fam \in Fams}
    \* (B') one component differing in each of its ways (near misses: prefixes, zero padding, ...)
    \cup UNION {{Case(x, "none", o, 0, 8, fam) : x \in Singles(fam), o \in FewOffsets} : fam \in Fams}
    \* (C) every damage kind in the right context
    \cup {Case(SameCtx, dmg, o, fr, ol, "v4") : dmg \in Damages, o \in FewOffsets, fr \in {0, 999999999}, ol \in OdcidLens}
    \* (D) damage and a wrong component together
    \cup {Case(Basic(Components \ {x}), dmg, <<0, 0, 0>>, 0, 8, "v4") : x \in Components, dmg \in Damages \ {"none"}}

Groups == {"A4", "A6", "B", "C", "D"}
InGroup(x, g) ==
    CASE g = "A4" -> x.ctx = SameCtx /\ x.dmg = "none" /\ x.fam = "v4"
      [] g = "A6" -> x.ctx = SameCtx /\ x.dmg = "none" /\ x.fam = "v6"
      [] g = "B"  -> x.ctx # SameCtx /\ x.dmg = "none"
      [] g = "C"  -> x.ctx = SameCtx /\ x.dmg # "none"
      [] g = "D"  -> x.ctx # SameCtx /\ x.dmg # "none"

(* Stateless-reset call histories: every sequence of up to MaxSeq calls over three      *)
(* connection IDs (with repeats), carried to tokenForConnID in fresh slices, through    *)
(* ONE buffer overwritten in place, or alternating.  The token is a function of (key,   *)
(* connection ID): independent of the call history and of which buffer carried the ID. *)
Ids == {"A", "B", "C"}
RECURSIVE IdSeqs(_)
IdSeqs(n) == IF n = 0 THEN {<<>>} ELSE {Append(q, x) : q \in IdSeqs(n - 1), x \in Ids}
CasesReset == {[k |-> "reset", seq |-> q, carrier |-> m] :
                  q \in UNION {IdSeqs(n) : n \in 1..MaxSeq}, m \in {"fresh", "reuse", "mixed"}}

\* the abstract generator: F is any injective function of (key, id); a history of calls returns
\* F of each id whatever came before (checked here on the model, on the real code by Trace.tla)
F(key, id) == <<key, id>>
HistoryIndependent(q) == \A i, j \in 1..Len(q) : (q[i] = q[j]) <=> (F("k", q[i]) = F("k", q[j]))

Init == c \in [k : {"grp"}, g : Groups \cup {"R"}]
Next == c.k = "grp" /\ c' \in (IF c.g = "R" THEN CasesReset ELSE {x \in CasesRetry : InGroup(x, c.g)})
Spec == Init /\ [][Next]_c

D(x) == Delta(<<x.dm, x.ds, x.dns>>, Vmodel)

Lemma == c.k = "grp" \/ (c.k = "reset" /\ HistoryIndependent(c.seq)) \/
    /\ c.k = "retry"
    /\ IsDelta(D(c))
    /\ c.ctx \in Contexts
    /\ AcceptedOnlyInContext(c.ctx, c.dmg, D(c), Vmodel)
    /\ Expected(c.ctx, c.dmg, D(c), Vmodel) \in {"yes", "no", "any"}
    \* the classes do not depend on the value of V (checked for a second value)
    /\ Expected(c.ctx, c.dmg, Delta(<<c.dm, c.ds, c.dns>>, Vmodel + 7), Vmodel + 7) = Expected(c.ctx, c.dmg, D(c), Vmodel)

Out(x) == [k |-> "retry", ctx |-> x.ctx, dmg |-> x.dmg, dm |-> x.dm, ds |-> x.ds,
           dns |-> x.dns, ifrac |-> x.ifrac, olen |-> x.olen, fam |-> x.fam,
           exp |-> Expected(x.ctx, x.dmg, D(x), Vmodel)]

Export == c.k = "grp" \/ PrintT(<<"CASE", ToJson(IF c.k = "reset" THEN c ELSE Out(c))>>)
=============================================================================
