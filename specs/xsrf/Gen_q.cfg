SPECIFICATION Spec
CONSTANTS
  Alphabet = {"_", ":", "c", "x"}
  MaxLenU = 2
  MaxLenA = 2
  Keys = {"k1", "k2"}
  GenKeys = {"k1"}
  GenSum = 2
  Eras = {"modern", "epoch", "pre1970", "bubble"}
INVARIANTS CleanOK WindowShape Emit
CHECK_DEADLOCK FALSE
