-------------------------------- MODULE Xsrf --------------------------------
(* C57: XSRF tokens (golang.org/x/net/xsrftoken) are bound to key, user, action and a    *)
(* time window.                                                                          *)
(*                                                                                       *)
(* What is specified                                                                     *)
(*   Clean      the documented escaping: first every "_" becomes "__", then every ":"     *)
(*              becomes "_c" (two ordered rewrites over character sequences);             *)
(*   MacInput   the authenticated message  Clean(user) ":" Clean(action) ":" issue-ms;    *)
(*   Mac        an IDEAL message authentication code: injective in (key, message) and     *)
(*              unforgeable - modelled as the pair itself.  HMAC-SHA1 is trusted to       *)
(*              behave like that; what the code has to get right is the message format;   *)
(*   Generate   issue time = t rounded up to the millisecond; token = (mac, issue-ms);     *)
(*   Valid      the token is valid for (key, user, action) at `now` with timeout T iff     *)
(*              issue - 1 min <= now < issue + T   and the mac is the mac of that triple.  *)
(*                                                                                       *)
(* Times are pairs <<ms, ns>> (0 <= ns < 10^6) relative to a base instant that is a whole  *)
(* number of milliseconds: TLC integers are 32-bit and the property does not depend on the *)
(* base.  Strings are sequences of one-character strings over a small alphabet.           *)
(*                                                                                       *)
(* The module enumerates a finite case domain as TLC *states* (variable c, Next stutters): *)
(*   bind  a token generated for (key, u, a), and the set of triples of the whole domain   *)
(*         for which it must be accepted - the spec-level theorem checked by TLC is that    *)
(*         this set is exactly {(key, u, a)}  (BindExact), which is the ':' / '_' clause;   *)
(*   win   a token generated at an issue instant, checked at one instant placed at a        *)
(*         window boundary +/- 1 ns, with the verdict of Valid.                            *)
(* Gen.tla prints each case with the predicted outcome for replay on the real package.    *)
EXTENDS Integers, Sequences, FiniteSets, TLC, SequencesExt

CONSTANTS
    Alphabet,     \* characters of user and action ids, e.g. {"_", ":", "c", "x"}
    MaxLenU,      \* maximum length of a user id
    MaxLenA,      \* maximum length of an action id
    Keys,         \* secret keys (non-empty strings, taken as atoms)
    GenKeys,      \* keys tokens are generated with in the bind cases (subset of Keys)
    GenSum,       \* bind cases generate tokens for the pairs (u, a) with Len(u) + Len(a) <= GenSum;
                  \* each token is checked against EVERY triple of Keys x StrsU x StrsA
    Eras          \* names of the base instants at which the driver places every case (the
                  \* predicted outcome does not depend on the base)

---------------------------------------------------------------------------
(* strings *)

StrsUpTo(n) == UNION {[1..k -> Alphabet] : k \in 0..n}
StrsU == StrsUpTo(MaxLenU)
StrsA == StrsUpTo(MaxLenA)

\* strings.ReplaceAll for a one-character pattern: one left-to-right pass, the replacement
\* is not scanned again
RepAll(s, ch, rep) == FoldLeft(LAMBDA acc, x : acc \o (IF x = ch THEN rep ELSE <<x>>), <<>>, s)

\* the two ORDERED rewrites of the package documentation: "_" -> "__", then ":" -> "_c"
Clean(s) == RepAll(RepAll(s, "_", <<"_", "_">>), ":", <<"_", "c">>)

\* Clean tabulated once over the domain (TLC evaluates this constant a single time)
CleanTab == [s \in StrsU \cup StrsA |-> Clean(s)]
CleanOf(s) == IF s \in DOMAIN CleanTab THEN CleanTab[s] ELSE Clean(s)

MacInput(u, a, ms) == CleanOf(u) \o <<":">> \o CleanOf(a) \o <<":">> \o <<ToString(ms)>>

Mac(key, msg) == <<key, msg>>                    \* ideal MAC

---------------------------------------------------------------------------
(* time *)

NsPerMs == 1000000
Minute  == 60000                                  \* in ms
Norm(ms, ns) == <<ms + (ns \div NsPerMs), ns % NsPerMs>>
TAdd(x, y)   == Norm(x[1] + y[1], x[2] + y[2])
TLe(x, y)    == x[1] < y[1] \/ (x[1] = y[1] /\ x[2] <= y[2])
TLt(x, y)    == x[1] < y[1] \/ (x[1] = y[1] /\ x[2] < y[2])
Ns(n)        == Norm(0, n)                        \* n may be negative

IssueMs(t) == IF t[2] = 0 THEN t[1] ELSE t[1] + 1    \* t rounded UP to the millisecond
Lower(ims)    == <<ims - Minute, 0>>                 \* first valid instant (inclusive)
Upper(ims, T) == TAdd(<<ims, 0>>, T)                 \* first expired instant (exclusive bound)
InWindow(ims, now, T) == TLe(Lower(ims), now) /\ TLt(now, Upper(ims, T))

---------------------------------------------------------------------------
(* tokens *)

Generate(key, u, a, t) ==
    LET ims == IssueMs(t) IN [mac |-> Mac(key, MacInput(u, a, ims)), ms |-> ims]

\* m = Mac(key, msg), written so that TLC does not build msg when the keys already differ
MacIs(m, key, u, a, ms) == m[1] = key /\ m[2] = MacInput(u, a, ms)

Valid(tok, key, u, a, now, T) ==
    /\ MacIs(tok.mac, key, u, a, tok.ms)
    /\ InWindow(tok.ms, now, T)

---------------------------------------------------------------------------
(* case domain *)

Day == <<86400000, 0>>
BindIssue == <<3, 250000>>                        \* generation instant of the bind cases
BindCheck == <<1003, 0>>                          \* one second later, inside the window

Triples == Keys \X StrsU \X StrsA

AcceptSet(key, u, a) ==
    LET tok == Generate(key, u, a, BindIssue)
    IN  {q \in Triples : Valid(tok, q[1], q[2], q[3], BindCheck, Day)}

\* check instant number p of a window case, with the label used in reports
PointAt(t, T, p) ==
    LET ims == IssueMs(t)
        L == Lower(ims)
        U == Upper(ims, T)
    IN CASE p = 1  -> [at |-> TAdd(L, Ns(0 - 1)), lbl |-> "lower-1ns"]
         [] p = 2  -> [at |-> L,                  lbl |-> "lower"]
         [] p = 3  -> [at |-> TAdd(L, Ns(1)),     lbl |-> "lower+1ns"]
         [] p = 4  -> [at |-> TAdd(U, Ns(0 - 1)), lbl |-> "upper-1ns"]
         [] p = 5  -> [at |-> U,                  lbl |-> "upper"]
         [] p = 6  -> [at |-> TAdd(U, Ns(1)),     lbl |-> "upper+1ns"]
         [] p = 7  -> [at |-> t,                  lbl |-> "generation-instant"]
         [] p = 8  -> [at |-> <<ims, 0>>,         lbl |-> "issue-instant"]
         [] p = 9  -> [at |-> TAdd(<<ims, 0>>, Ns(0 - 1)), lbl |-> "issue-1ns"]
         [] p = 10 -> [at |-> TAdd(L, <<0 - 3600000, 0>>), lbl |-> "hour-before-lower"]
         [] p = 11 -> [at |-> TAdd(U, <<3600000, 0>>),     lbl |-> "hour-after-upper"]
         [] p = 12 -> [at |-> TAdd(L, <<1, 1>>),           lbl |-> "inside-near-lower"]
NPoints == 12

\* timeouts <<ms, ns>>: 0, 1 ms, 1.5 ms, 1 h, 24 h (the package default), and - the property
\* quantifies over all timeouts - two negative ones (window ends before the issue instant / is
\* empty; the formula is the same)
AllTimeouts == {<<0, 0>>, <<1, 0>>, <<1, 500000>>, <<3600000, 0>>, Day,
                <<0 - 30000, 0>>, <<0 - 60000, 0>>}
\* generation instants <<ms, ns>>: on a millisecond, 1 ns after, 1 ns before the next, in between
Issues == {<<0, 0>>, <<0, 1>>, <<0, 999999>>, <<7, 500000>>}

Cases ==
         {[kind |-> "dom"]}
    \cup {[kind |-> "bind", key |-> k, u |-> p[1], a |-> p[2]] :
              k \in GenKeys, p \in {q \in StrsU \X StrsA : Len(q[1]) + Len(q[2]) <= GenSum}}
    \cup {[kind |-> "win", T |-> T, issue |-> t, p |-> p] :
              T \in AllTimeouts, t \in Issues, p \in 1..NPoints}

VARIABLE c
Init == c \in Cases
Next == UNCHANGED c
Spec == Init /\ [][Next]_c

WinPoint == PointAt(c.issue, c.T, c.p)
WinKey  == CHOOSE k \in Keys : TRUE
WinUser == <<"x", ":", "_">>
WinAct  == <<"c">>
WinVerdict == Valid(Generate(WinKey, WinUser, WinAct, c.issue), WinKey, WinUser, WinAct, WinPoint.at, c.T)

---------------------------------------------------------------------------
(* spec-level theorems, checked by TLC on the whole case domain *)

\* a token is accepted for exactly the triple it was generated for
BindExact == c.kind = "bind" => AcceptSet(c.key, c.u, c.a) = {<<c.key, c.u, c.a>>}

\* Clean is injective and never produces the separator
CleanOK == c.kind = "dom" =>
    /\ Cardinality({Clean(s) : s \in StrsU \cup StrsA}) = Cardinality(StrsU \cup StrsA)
    /\ \A s \in StrsU \cup StrsA : \A i \in 1..Len(Clean(s)) : Clean(s)[i] # ":"

\* the verdicts at the labelled instants are the ones the property text gives
WindowShape == c.kind = "win" =>
    LET lbl == WinPoint.lbl
        v == WinVerdict
        pos == TLt(<<0, 0>>, c.T)                              \* timeout > 0
        wide == TLt(<<0 - Minute, 1>>, c.T)                    \* lower + 1 ns < upper
    IN  /\ lbl \in {"lower-1ns", "hour-before-lower", "upper", "upper+1ns", "hour-after-upper"} => ~v
        /\ lbl \in {"lower", "lower+1ns", "upper-1ns"} /\ wide => v
        /\ lbl \in {"generation-instant", "issue-instant"} /\ pos => v
        /\ lbl = "issue-1ns" /\ TLe(<<0, 0>>, c.T) => v

TypeOK == c \in Cases
=============================================================================
