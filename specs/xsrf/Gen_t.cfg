SPECIFICATION Spec
CONSTANTS
  Alphabet = {"_", ":", "c", "x"}
  MaxLenU = 3
  MaxLenA = 2
  Keys = {"k1", "k2"}
  GenKeys = {"k1", "k2"}
  GenSum = 3
  Eras = {"modern", "epoch", "pre1970", "bubble"}
INVARIANTS CleanOK WindowShape Emit
CHECK_DEADLOCK FALSE
