# xsrf family hooks: signatures that name the scenario class of a C57 mismatch, so that a
# known finding suppresses only its own class.  The verdict always comes from TLC's
# prediction; this file only classifies mismatches for reporting.
import re


def signature(prop, kind, scenario, detail):
    if prop != "C57" or kind != "replay" or not isinstance(scenario, dict):
        return None
    what = detail.get("what", "")
    m = re.match(r"(bind|win) era=(\S+)( at=(\S+))? :", what)
    if not m:
        return None
    k, era, lbl = m.group(1), m.group(2), m.group(4)
    exp, act = detail.get("expected"), detail.get("actual")
    if act == "panic":
        return "%s;era=%s;panic" % (k, era)
    if era == "pre1970" and exp is True and act is False:
        # a token issued before the Unix epoch is rejected for its own triple inside its window
        return "pre1970;own-token-rejected-inside-window"
    if k == "bind":
        # which other triple was accepted / own triple rejected
        m2 = re.search(r"token for \((.*?)\) checked for \((.*?)\)", what)
        same = bool(m2) and m2.group(1) == m2.group(2)
        return "bind;era=%s;%s" % (era, "own-triple-rejected" if same else "other-triple-accepted:" + (m2.group(1) + "~" + m2.group(2) if m2 else "?"))
    return "win;era=%s;at=%s;expected=%s" % (era, lbl, "valid" if exp else "invalid")
