-------------------------------- MODULE Gen --------------------------------
(* C57 case generator: every case of Xsrf!Cases with the outcome the specification        *)
(* predicts, for replay on generateTokenAtTime / validTokenAtTime and on the exported      *)
(* Generate / Valid / ValidFor.                                                           *)
(*   bind  token for (key, u, a) and `accept`: the triples for which it must be valid;      *)
(*         every other triple of the domain `dom` (keys x strings over the alphabet up to   *)
(*         the given lengths) must be rejected;                                            *)
(*   win   timeout T, generation instant `issue`, check instant   *)
(*         `check` (all <<ms, ns>> offsets from the base), label of the boundary, verdict.  *)
EXTENDS Xsrf, Json

Rec3(q) == [key |-> q[1], u |-> q[2], a |-> q[3]]

\* the domain a bind case is checked against, in a form the driver can enumerate
Dom == [alpha |-> SetToSeq(Alphabet), maxu |-> MaxLenU, maxa |-> MaxLenA, keys |-> SetToSeq(Keys),
        issue |-> BindIssue, check |-> BindCheck, T |-> Day]

\* for bind cases the spec-level theorem BindExact is evaluated on the same set that is printed
Item ==
    IF c.kind = "dom"
    THEN [kind |-> "dom", eras |-> SetToSeq(Eras), dom |-> Dom]
    ELSE IF c.kind = "bind"
    THEN LET acc == AcceptSet(c.key, c.u, c.a) IN
         [kind |-> "bind", eras |-> SetToSeq(Eras), dom |-> Dom, key |-> c.key, u |-> c.u, a |-> c.a,
          accept |-> SetToSeq({Rec3(q) : q \in acc}), exact |-> (acc = {<<c.key, c.u, c.a>>})]
    ELSE LET pt == WinPoint IN
         [kind |-> "win", eras |-> SetToSeq(Eras), T |-> c.T, issue |-> c.issue, check |-> pt.at,
          lbl |-> pt.lbl, key |-> WinKey, u |-> WinUser, a |-> WinAct,
          valid |-> Valid(Generate(WinKey, WinUser, WinAct, c.issue), WinKey, WinUser, WinAct, pt.at, c.T)]

Emit == LET it == Item IN
        /\ PrintT(<<"CASE", ToJson(it)>>)
        /\ c.kind = "bind" => it.exact             \* BindExact (spec-level theorem; failure = exit 2)
=============================================================================
