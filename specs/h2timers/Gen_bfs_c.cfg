SPECIFICATION GSpec
CONSTANTS
  Cfgs = {}
  Steps = {1}
  MaxEv = 0
  Depth = 4
  Mode = "bfs"
  Side = {"c"}
INVARIANT Emit
CHECK_DEADLOCK FALSE
