SPECIFICATION Spec
CONSTANTS
  Cfgs <- CfgsQc
  Steps = {1}
  MaxEv = 5
INVARIANTS TypeOK ExpiryExact ReadIdleOnTime PingOnTime RespHdrOnTime IdleOnTime ShutOnTime WriteOnTime
  HealthCheckAlive NoPingWhenDisabled AtMostOnePingInFlight PingsSpaced IdleOnlyWhenNoStreams
  GoAwayBounded SettingsBounded PrefaceBounded ClosedIsQuiet NoLateHealthCheck
PROPERTIES QuietStep ClosedForever
CHECK_DEADLOCK FALSE
