SPECIFICATION GSpec
CONSTANTS
  Cfgs = {}
  Steps = {1, 2}
  MaxEv = 0
  Depth = 10
  Mode = "sim"
  Side = {"c"}
INVARIANT Emit
CHECK_DEADLOCK FALSE
