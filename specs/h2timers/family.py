# Signatures of violations of the h2timers family (X17, X18): the class of the failing step (which
# stimulus, what the endpoint showed that the specification does not allow), not a hash of the
# values, so that one defect is reported once and a different failure still shows.
import re


def _first_closed(lines):
    for x in lines[1:]:
        if x.get("closed"):
            return x
    return {}


def signature(prop, kind, scenario, detail):
    what = (detail or {}).get("what", "")
    try:
        if kind != "trace" or not isinstance(scenario, dict):
            return None
        lines = scenario.get("lines") or []
        if len(lines) < 2:
            return None
        hdr, last = lines[0], lines[-1]
        mode = "strict" if hdr.get("strict") else "trace"
        side = hdr.get("side")
        inv = re.match(r"invariant (\w+)", what)
        e = last.get("e")
        if inv:
            return "%s;%s;inv=%s;event=%s" % (mode, side, inv.group(1), e)
        prev = lines[-2] if len(lines) > 2 else {}
        if side == "c" and prev.get("closed") and e == "adv" and (last.get("lost") or last.get("pac")):
            fc = _first_closed(lines)
            by = "peer" if fc.get("e") == "pclose" else "transport"
            return "%s;c;health-check-runs-on-closed-connection;closed-by=%s" % (mode, by)
        shown = []
        for k in ("closed", "hc", "pa", "ga", "rst", "res", "lost", "pac", "ps", "ig", "sa", "ns"):
            v = last.get(k)
            if v not in (None, 0, False, [], ""):
                shown.append("%s=%s" % (k, str(v).replace(" ", "")))
        pe = prev.get("e", "start")
        return "%s;%s;unmatched;%s;after=%s;%s" % (mode, side, e, pe, ",".join(shown))
    except Exception:
        return None
