SPECIFICATION GSpec
CONSTANTS
  Cfgs = {}
  Steps = {1}
  MaxEv = 0
  Depth = 6
  Mode = "bfs"
  Side = {"s"}
INVARIANT Emit
CHECK_DEADLOCK FALSE
