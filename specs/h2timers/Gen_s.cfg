SPECIFICATION GSpec
CONSTANTS
  Cfgs = {}
  Steps = {1, 2}
  MaxEv = 0
  Depth = 12
  Mode = "sim"
  Side = {"s"}
INVARIANT Emit
CHECK_DEADLOCK FALSE
