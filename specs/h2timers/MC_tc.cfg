SPECIFICATION Spec
CONSTANTS
  Cfgs <- CfgsTc
  Steps = {1}
  MaxEv = 8
INVARIANTS TypeOK ExpiryExact ReadIdleOnTime PingOnTime RespHdrOnTime IdleOnTime ShutOnTime WriteOnTime
  HealthCheckAlive NoPingWhenDisabled AtMostOnePingInFlight PingsSpaced IdleOnlyWhenNoStreams
  GoAwayBounded SettingsBounded PrefaceBounded ClosedIsQuiet NoLateHealthCheck
PROPERTIES QuietStep ClosedForever
CHECK_DEADLOCK FALSE
