SPECIFICATION Spec
CONSTANTS
  Cfgs <- CfgsTc
  Steps = {1, 2}
  MaxEv = 7
INVARIANTS TypeOK ExpiryExact ReadIdleOnTime PingOnTime RespHdrOnTime IdleOnTime ShutOnTime WriteOnTime
  HealthCheckAlive NoPingWhenDisabled AtMostOnePingInFlight PingsSpaced IdleOnlyWhenNoStreams
  GoAwayBounded SettingsBounded PrefaceBounded ClosedIsQuiet
PROPERTIES QuietStep ClosedForever
CHECK_DEADLOCK FALSE
