-------------------------------- MODULE Gen --------------------------------
(* Scenario generator: behaviours of H2Timers itself (every stimulus enabled in the  *)
(* specification, every clock advance up to and beyond the next deadline), printed   *)
(* as scripts for the driver.  Durations in ticks (the driver's tick is 1 s, so that  *)
(* firstSettingsTimeout = 2 and prefaceTimeout = 10 are the package's constants).     *)
(* TLC -simulate (quick) or exhaustive BFS of a small depth (thorough).               *)
EXTENDS H2Timers, TLC, Json

CONSTANTS Depth, Side,
          Mode          \* "sim": many configurations, random walks; "bfs": a few configurations, every script of length Depth

VARIABLES hist

Cli(Rs, Ps, Ws, Hs) == [side : {"c"}, R : Rs, P : Ps, W : Ws, H : Hs, I : {0}, FS : {2}, PF : {10}, GA : {1}]
Srv(Rs, Ps, Ws, Is, GAs) == [side : {"s"}, R : Rs, P : Ps, W : Ws, H : {0}, I : Is, FS : {2}, PF : {10}, GA : GAs]

BfsCfgs ==
    (IF "c" \in Side THEN Cli({2}, {3}, {0}, {2}) \cup Cli({0}, {2}, {2}, {0}) ELSE {})
    \cup (IF "s" \in Side THEN Srv({2}, {1}, {0}, {3}, {1}) \cup Srv({0}, {2}, {2}, {2}, {1}) ELSE {})

SimCfgs ==
    (IF "c" \in Side THEN Cli({2, 3}, {1, 2, 5}, {0}, {0, 2, 3}) \cup Cli({0}, {2}, {0, 2, 3}, {0, 3}) ELSE {})
    \cup (IF "s" \in Side THEN Srv({0, 2, 3}, {1, 2, 5}, {0}, {0, 2, 3, 5}, {1, 3}) \cup Srv({0}, {2}, {2, 3}, {0, 3}, {1}) ELSE {})

GenCfgs == IF Mode = "bfs" THEN BfsCfgs ELSE SimCfgs

GInit == cf \in GenCfgs /\ s = Init0(cf) /\ n = 0 /\ hist = <<>>

\* the interesting part of a server connection starts after the handshake
Useful(ev) == \/ s.phase = "run"
              \/ ev.k \in {"preface", "settings"}
              \/ Mode = "sim" /\ ev.k = "adv" /\ Len(hist) < 3

GNext == /\ Len(hist) < Depth /\ ~(s.closed /\ NextDeadline(s) < 0 /\ Len(hist) > 2)
         /\ n' = n /\ cf' = cf
         /\ \E ev \in Events(cf, s) :
               /\ Enabled(cf, s, ev) /\ Useful(ev)
               /\ ev.k = "adv" => ev.d > 0
               /\ s' = Apply(cf, s, ev)
               /\ hist' = Append(hist, ev)

GSpec == GInit /\ [][GNext]_<<vars, hist>>

Item == [cf |-> cf, steps |-> hist]
Emit == (Len(hist) < Depth /\ ~(s.closed /\ NextDeadline(s) < 0 /\ Len(hist) > 2)) \/ PrintT(<<"BEH", ToJson(Item)>>)
=============================================================================
