SPECIFICATION Spec
CONSTANTS
  Cfgs <- CfgsTs
  Steps = {1}
  MaxEv = 10
INVARIANTS TypeOK ExpiryExact ReadIdleOnTime PingOnTime RespHdrOnTime IdleOnTime ShutOnTime WriteOnTime
  HealthCheckAlive NoPingWhenDisabled AtMostOnePingInFlight PingsSpaced IdleOnlyWhenNoStreams
  GoAwayBounded SettingsBounded PrefaceBounded ClosedIsQuiet NoLateHealthCheck
PROPERTIES QuietStep ClosedForever
CHECK_DEADLOCK FALSE
