------------------------------ MODULE H2Timers ------------------------------
(* Timers of one HTTP/2 connection in golang.org/x/net/http2, at either endpoint.      *)
(*                                                                                      *)
(* Client (transport.go): the read-idle timer of clientConnReadLoop.run (re-armed by    *)
(* every frame read), ClientConn.healthCheck (a PING with its own PingTimeout context), *)
(* closeForLostPing, the ResponseHeaderTimeout timer of clientStream.writeRequest       *)
(* (armed when the request has been written), WriteByteTimeout in stickyErrWriter /     *)
(* writeWithByteTimeout.                                                                *)
(* Server (server.go): prefaceTimeout in readPreface, and in serverConn.serve the       *)
(* settingsTimer (firstSettingsTimeout), idleTimer (Server.IdleTimeout: stopped when a  *)
(* stream opens, re-armed when the last one closes, GOAWAY(NO_ERROR) at expiry), the    *)
(* readIdleTimer / handlePingTimer (PING at last frame + ReadIdleTimeout, close at      *)
(* PingTimeout after the PING unless its ack arrives), shutdownTimer (goAwayTimeout     *)
(* after a GOAWAY has been written and, for a graceful one, the last stream is gone),   *)
(* WriteByteTimeout in bufferedWriter.                                                  *)
(*                                                                                      *)
(* The state is one record s, every event is an operator from records to records        *)
(* (Apply); timers are kept as time remaining (None = not armed); an advance of the     *)
(* clock is split at every deadline and the expiries are composed into it (Adv), so a   *)
(* recorded trace may advance the clock by any amount.  out = what the endpoint emitted *)
(* in the last step; ghosts g* measure the time since the event a timer is counted      *)
(* from, for the design-level properties (not early / not late).                        *)
EXTENDS Integers, Sequences, FiniteSets

None == 0 - 1
Armed(t) == t >= 0
Dec(t, d) == IF t < 0 THEN t ELSE IF d <= t THEN t - d ELSE 0
Min2(a, b) == IF a < b THEN a ELSE b
MinT(a, b) == IF a < 0 THEN b ELSE IF b < 0 THEN a ELSE Min2(a, b)   \* of two timers

S == 1..2                        \* request / stream slots
GCap == 1000000000               \* ghosts saturate (bounds the model; traces stay far below)
GInc(g, d) == IF g < 0 THEN g ELSE Min2(g + d, GCap)

SeqMap(q, F(_)) == IF Len(q) = 0 THEN <<>> ELSE [i \in 1..Len(q) |-> F(q[i])]
SeqMin(q) == IF Len(q) = 0 THEN None
             ELSE CHOOSE m \in {q[i] : i \in 1..Len(q)} : \A j \in 1..Len(q) : m <= q[j]
Remove(q, i) == IF Len(q) <= 1 THEN <<>> ELSE [j \in 1..(Len(q) - 1) |-> IF j < i THEN q[j] ELSE q[j + 1]]

----------------------------------------------------------------------------
(* configuration: side "c" / "s"; R ReadIdleTimeout, P PingTimeout, W WriteByteTimeout, *)
(* H ResponseHeaderTimeout (client), I IdleTimeout (server); FS firstSettingsTimeout,   *)
(* PF prefaceTimeout, GA goAwayTimeout.  0 = disabled (R, W, H, I).                     *)

\* Before golang/net commit b97c328 the read-idle timer of the client outlived the connection
\* (clientConnReadLoop.run re-armed it after the failing ReadFrame and never stopped it) and
\* healthCheck ran on the closed connection (LateExpire, deviation "late-hc").  The contract, and
\* the repaired tree: the timer dies with the read loop and healthCheck ignores a closed
\* connection.  LateHC = TRUE gives the old behaviour (kept for reference and for the mutation test).
LateHC == FALSE

Out0 == [hc |-> 0, pa |-> 0, ga |-> <<>>, rst |-> {}, res |-> {}, lost |-> 0,
         close |-> "none", ok |-> TRUE, opt |-> FALSE, pac |-> 0]

Init0(cf) ==
    [ closed |-> FALSE, why |-> "none",
      phase |-> IF cf.side = "c" THEN "run" ELSE "pre",
      ri |-> IF cf.side = "c" /\ cf.R > 0 THEN cf.R ELSE None,   \* read-idle timer
      hc |-> <<>>,               \* health-check PINGs in flight: time left to their PingTimeout
      late |-> None,             \* client: the read-idle timer re-armed by the read that failed
      zh |-> <<>>,               \* client: health checks still waiting after the Transport closed the connection
      zo |-> FALSE,              \* the last of them started at the very instant of the close: it may not exist
      str |-> [x \in S |-> "none"],
      rh |-> [x \in S |-> None], \* client: ResponseHeaderTimeout timers
      pf |-> IF cf.side = "s" THEN cf.PF ELSE None,
      fs |-> None, idle |-> None, shut |-> None,
      goaway |-> "none",         \* none | no (graceful) | err
      gs |-> FALSE,              \* graceful shutdown requested (once)
      wb |-> FALSE, wrem |-> None, wprog |-> FALSE,   \* a write is blocked; its current window
      pend |-> Out0,             \* frames queued behind the blocked write
      out |-> Out0,
      gF |-> 0, gP |-> <<>>, gI |-> None, gA |-> [x \in S |-> None], gG |-> None, gW |-> None,
      nd |-> "none" ]

Open(s) == {x \in S : s.str[x] \in {"open", "body", "await", "respb", "resp"}}
Waiting(s) == {x \in S : s.str[x] \in {"body", "await"}}          \* RoundTrip has not returned
Running(s) == ~s.closed /\ s.phase = "run"

\* emit into out, or into pend while a write is blocked (server: frames queue behind it)
\* (after a GOAWAY with an error code the server writes nothing more: a health-check PING is
\* counted as sent, and timed, but never leaves)
EmitHC(s) == IF s.goaway = "err" THEN s ELSE IF s.wb THEN [s EXCEPT !.pend.hc = @ + 1] ELSE [s EXCEPT !.out.hc = @ + 1]
EmitPA(s) == IF s.wb THEN [s EXCEPT !.pend.pa = @ + 1] ELSE [s EXCEPT !.out.pa = @ + 1]
EmitGA(s, c) == IF s.wb THEN [s EXCEPT !.pend.ga = Append(@, c)] ELSE [s EXCEPT !.out.ga = Append(@, c)]
Chk(s, b) == [s EXCEPT !.out.ok = @ /\ b]

----------------------------------------------------------------------------
(* closing: every timer is stopped, every request that has not returned fails *)

\* A request whose body is still being written reports nothing here: its RoundTrip returns when the
\* body's Read returns (the test harness's body does not react to Close).
\* Health checks in flight (client): when the read loop ends (the peer closed, or a write of the
\* read loop failed) each of them fails at once and calls closeForLostPing; when the Transport itself
\* closed the connection for a lost PING the others keep waiting for their own PingTimeout (under
\* the harness's net.Conn the blocked Read is not woken by Close) and report then.
Close(cf, s, why, class) ==
    LET fail == {<<x, class>> : x \in {y \in S : s.str[y] = "await"}}
        own == cf.side = "c" /\ why = "lostping"
        rest == IF own THEN SelectSeq(s.hc, LAMBDA t : t > 0) ELSE <<>> IN
    [s EXCEPT !.closed = TRUE, !.why = why, !.ri = None, !.hc = <<>>, !.gP = <<>>, !.zh = rest,
              !.out.lost = @ + (IF cf.side = "c" /\ ~own THEN Len(s.hc) ELSE 0),
              !.rh = [x \in S |-> None], !.gA = [x \in S |-> None],
              !.str = [x \in S |-> IF x \in Open(s) THEN "failed" ELSE s.str[x]],
              !.pf = None, !.fs = None, !.idle = None, !.shut = None, !.gI = None, !.gG = None,
              !.wb = FALSE, !.wrem = None, !.wprog = FALSE, !.gW = None, !.pend = Out0,
              !.out.close = why, !.out.res = @ \cup fail,
              \* transport.go, clientConnReadLoop.run: the read that fails re-arms the read-idle
              \* timer once more (named deviation "late-hc" when it fires)
              \* (peer closed: by the full period; closed by the Transport itself: the harness's Read
              \* stays blocked, the timer keeps the time it had)
              !.late = IF ~LateHC THEN None
                       ELSE IF cf.side = "c" /\ cf.R > 0 /\ why = "peer" THEN cf.R
                       ELSE IF own THEN s.ri ELSE None]

\* server: the end of every serve-loop iteration arms the shutdown timer once the GOAWAY has
\* been written (nothing being written) and, for a graceful one, no stream is left
ArmShut(cf, s) ==
    IF cf.side = "s" /\ ~s.closed /\ s.goaway # "none" /\ ~s.wb /\ ~Armed(s.shut)
       /\ (s.goaway = "err" \/ Open(s) = {})
    THEN [s EXCEPT !.shut = cf.GA, !.gG = 0] ELSE s

GoAway(cf, s, code) ==
    IF s.goaway = "none" THEN EmitGA([s EXCEPT !.goaway = code], code)
    ELSE IF s.goaway = "no" /\ code = "err" THEN [s EXCEPT !.goaway = "err"]   \* no second frame
    ELSE s

\* a frame has been read from the peer
Frame(cf, s) ==
    IF cf.side = "c" THEN [s EXCEPT !.gF = 0, !.ri = IF cf.R > 0 THEN cf.R ELSE None]
    ELSE \* handlePingTimer measures from the last frame read, unless a PING is outstanding
         [s EXCEPT !.gF = 0, !.ri = IF cf.R > 0 /\ Len(s.hc) = 0 THEN cf.R ELSE s.ri]

\* server: after a connection error found by the frame reader (the scripted violation is one)
\* readFrames has ended: nothing the peer sends, not even its closing the connection, is seen
\* any more; the connection ends by the shutdown timer
Deaf(cf, s) == cf.side = "s" /\ s.goaway = "err"
PeerEvents == {"pclose", "frame", "ping", "pack", "open", "rst", "bad"}

StreamClosed(cf, s, x) ==
    LET s1 == [s EXCEPT !.str[x] = "closed"] IN
    IF Open(s1) = {} THEN [s1 EXCEPT !.idle = IF cf.I > 0 THEN cf.I ELSE None, !.gI = 0] ELSE s1

----------------------------------------------------------------------------
(* events: stimuli of the application and of the peer *)

Enabled(cf, s, ev) ==
    LET k == ev.k IN
    CASE k = "adv"     -> ev.d >= 0
      [] s.closed      -> FALSE
      [] k = "pclose"  -> TRUE
      [] s.wb          -> k \in {"prog", "resume"}
      [] k = "preface" -> cf.side = "s" /\ s.phase = "pre"
      [] k = "settings" -> cf.side = "s" /\ s.phase = "set"
      [] s.phase # "run" -> FALSE
      [] k \in {"ping", "frame"} -> TRUE
      [] k = "pack"    -> ev.i = 0 \/ ev.i \in 1..Len(s.hc)
      [] k = "sping"   -> /\ ~Deaf(cf, s)
                          /\ cf.side = "c" => (cf.R = 0 /\ Open(s) = {})
                          /\ cf.side = "s" => Open(s) = {}
      [] k = "req"     -> cf.side = "c" /\ s.str[ev.x] = "none"
      [] k = "bodyend" -> cf.side = "c" /\ s.str[ev.x] \in {"body", "respb"}
      [] k = "rhdr"    -> cf.side = "c" /\ (s.str[ev.x] = "await" \/ (s.str[ev.x] = "body" /\ ~ev.end))
      [] k = "rdata"   -> cf.side = "c" /\ s.str[ev.x] = "resp"
      [] k = "open"    -> cf.side = "s" /\ s.str[ev.x] = "none"
      [] k = "hfin"    -> cf.side = "s" /\ s.str[ev.x] = "open" /\ s.goaway # "err"
      [] k = "rst"     -> cf.side = "s" /\ s.str[ev.x] = "open"
      [] k = "bad"     -> cf.side = "s"
      [] k = "gshut"   -> cf.side = "s" /\ ~s.gs
      [] OTHER         -> FALSE

----------------------------------------------------------------------------
(* time *)

Tick(s, d) ==
    IF d = 0 THEN s ELSE
    [s EXCEPT !.ri = Dec(@, d), !.hc = SeqMap(s.hc, LAMBDA t : Dec(t, d)), !.late = Dec(@, d),
              !.zh = SeqMap(s.zh, LAMBDA t : Dec(t, d)),
              !.rh = [x \in S |-> Dec(s.rh[x], d)], !.pf = Dec(@, d), !.fs = Dec(@, d),
              !.idle = Dec(@, d), !.shut = Dec(@, d), !.wrem = Dec(@, d),
              !.gF = GInc(@, d), !.gP = SeqMap(s.gP, LAMBDA g : GInc(g, d)), !.gI = GInc(@, d),
              !.gA = [x \in S |-> GInc(s.gA[x], d)], !.gG = GInc(@, d), !.gW = GInc(@, d)]

NextDeadline(s) ==
    LET rhm == MinT(s.rh[1], s.rh[2]) IN
    MinT(MinT(MinT(s.ri, SeqMin(s.hc)), MinT(MinT(s.late, SeqMin(s.zh)), rhm)),
         MinT(MinT(s.pf, s.fs), MinT(MinT(s.idle, s.shut), s.wrem)))

\* --- expiries, each its own operator (identity when its timer is not due) ---

\* ResponseHeaderTimeout: the request fails with errTimeout and the stream is reset
RhExpire(cf, s, x) ==
    IF s.closed \/ s.rh[x] # 0 THEN s
    ELSE Chk([s EXCEPT !.rh[x] = None, !.str[x] = "failed", !.out.res = @ \cup {<<x, "timeout">>},
                       !.out.rst = @ \cup {x}, !.gA[x] = None],
             s.str[x] = "await" /\ s.gA[x] = cf.H)

\* PingTimeout: the connection is closed (client: closeForLostPing; server: handlePingTimer)
PingExpire(cf, s) ==
    IF s.closed \/ SeqMin(s.hc) # 0 THEN s
    ELSE LET n == Len(s.hc)
             i == CHOOSE j \in 1..n : s.hc[j] = 0
             s1 == Chk(s, s.gP[i] = cf.P) IN
         [Close(cf, s1, "lostping", "lost") EXCEPT
              !.out.lost = s1.out.lost + (IF cf.side = "c" THEN Cardinality({j \in 1..n : s.hc[j] = 0}) ELSE 1)]

\* WriteByteTimeout: a window without progress fails the write; progress starts a new window
WExpire(cf, s) ==
    IF s.closed \/ s.wrem # 0 THEN s
    ELSE IF s.wprog THEN [s EXCEPT !.wrem = cf.W, !.wprog = FALSE, !.gW = 0]
    ELSE Close(cf, Chk(s, s.gW = cf.W), "werr", "other")

\* ReadIdleTimeout: a health-check PING goes out
RiExpire(cf, s) ==
    IF s.closed \/ s.ri # 0 THEN s
    ELSE LET s1 == Chk([s EXCEPT !.ri = None, !.hc = Append(@, cf.P), !.gP = Append(@, 0)],
                       s.gF = cf.R)
         IN EmitHC(s1)

\* client, after the connection is closed: the re-armed read-idle timer fires (deviation)
\* the health check runs on the closed connection: its PING cannot be written (the peer closed:
\* closeForLostPing is called at once) or is written to the closed connection and waited for
LateExpire(cf, s) ==
    IF s.late # 0 THEN s
    ELSE IF s.why = "peer" THEN [s EXCEPT !.late = None, !.out.lost = @ + 1, !.nd = "late-hc"]
    ELSE [s EXCEPT !.late = None, !.zh = Append(@, cf.P), !.out.pac = @ + 1, !.nd = "late-hc"]

\* client: a health check that outlived the connection gives up
ZExpire(cf, s) ==
    IF SeqMin(s.zh) # 0 THEN s
    ELSE [s EXCEPT !.zh = SelectSeq(s.zh, LAMBDA t : t > 0), !.zo = FALSE,
                   !.out.lost = @ + Cardinality({j \in 1..Len(s.zh) : s.zh[j] = 0})]

PfExpire(cf, s) == IF s.closed \/ s.pf # 0 THEN s ELSE Close(cf, s, "preface", "other")
FsExpire(cf, s) == IF s.closed \/ s.fs # 0 THEN s ELSE Close(cf, s, "fset", "other")
ShutExpire(cf, s) == IF s.closed \/ s.shut # 0 THEN s ELSE Close(cf, Chk(s, s.gG = cf.GA), "shut", "other")
IdleExpire(cf, s) ==
    IF s.closed \/ s.idle # 0 THEN s
    ELSE GoAway(cf, Chk([s EXCEPT !.idle = None], Open(s) = {} /\ s.gI = cf.I), "no")

\* Timers due at the same instant race in the real code (separate goroutines, or messages to the
\* serve loop in any order).  The order here is one of them; out.opt marks a step in which the
\* connection closed while something else was due, so that a trace may show less.
DueCount(s) ==
    Cardinality({x \in S : s.rh[x] = 0}) + (IF s.ri = 0 THEN 1 ELSE 0) + (IF s.idle = 0 THEN 1 ELSE 0)
    + (IF SeqMin(s.hc) = 0 THEN 1 ELSE 0) + (IF s.fs = 0 THEN 1 ELSE 0) + (IF s.shut = 0 THEN 1 ELSE 0)
    + (IF s.wrem = 0 THEN 1 ELSE 0) + (IF s.pf = 0 THEN 1 ELSE 0)

Expire(cf, s) ==
    LET many == DueCount(s) > 1
        a == RhExpire(cf, RhExpire(cf, s, 1), 2)
        b == RiExpire(cf, a)
        c == IdleExpire(cf, b)
        d == ArmShut(cf, c)
        e == WExpire(cf, PingExpire(cf, d))
        f == ShutExpire(cf, FsExpire(cf, PfExpire(cf, e)))
        g == LateExpire(cf, ZExpire(cf, f))
        \* client: the read-idle timer and a PingTimeout due together: the new health check either
        \* registered its PING before the connection was closed (and waits for it) or found it closed
        race == cf.side = "c" /\ ~s.closed /\ s.ri = 0 /\ SeqMin(s.hc) = 0 /\ g.closed /\ Len(g.zh) > 0
        h == IF race THEN [g EXCEPT !.zo = TRUE] ELSE g
    IN IF many /\ h.closed /\ ~s.closed THEN [h EXCEPT !.out.opt = TRUE] ELSE h

RECURSIVE Adv(_, _, _)
Adv(cf, s, d) ==
    LET nd == NextDeadline(s) IN
    IF nd < 0 \/ d < nd THEN Tick(s, d)
    ELSE Adv(cf, Expire(cf, Tick(s, nd)), d - nd)

----------------------------------------------------------------------------
(* the transition function *)

Clean(s) == [s EXCEPT !.out = Out0, !.nd = "none"]

\* the blocked write is through: everything queued behind it goes out
Resume(cf, s) ==
    [s EXCEPT !.wb = FALSE, !.wrem = None, !.wprog = FALSE, !.gW = None, !.pend = Out0,
              !.out.hc = @ + s.pend.hc, !.out.pa = @ + s.pend.pa + 1, !.out.ga = @ \o s.pend.ga]

Apply1(cf, s, ev) ==
    LET k == ev.k IN
    CASE k = "adv"    -> Adv(cf, s, ev.d)
      [] k = "pclose" -> Close(cf, s, "peer", "other")
      [] k = "prog"   -> [s EXCEPT !.wprog = TRUE]
      [] k = "resume" -> Resume(cf, s)
      [] k = "preface" -> \* serve starts its timers after the preface
             [s EXCEPT !.phase = "set", !.pf = None, !.fs = cf.FS, !.gF = 0,
                       !.idle = IF cf.I > 0 THEN cf.I ELSE None, !.gI = 0,
                       !.ri = IF cf.R > 0 THEN cf.R ELSE None]
      [] k = "settings" -> Frame(cf, [s EXCEPT !.phase = "run", !.fs = None])
      [] k = "frame"  -> Frame(cf, s)
      [] k = "ping"   -> IF Deaf(cf, s) THEN Frame(cf, s) ELSE EmitPA(Frame(cf, s))
      [] k = "pack"   ->
             IF ev.i = 0 \/ Deaf(cf, s) THEN Frame(cf, s)
             ELSE IF cf.side = "c"
                  THEN Frame(cf, [s EXCEPT !.hc = Remove(s.hc, ev.i), !.gP = Remove(s.gP, ev.i)])
                  ELSE [s EXCEPT !.hc = <<>>, !.gP = <<>>, !.gF = 0, !.ri = cf.R]
      [] k = "sping"  -> \* the peer has stopped reading; the PING ack cannot be written
             [Frame(cf, s) EXCEPT !.wb = TRUE, !.wrem = IF cf.W > 0 THEN cf.W ELSE None,
                                  !.wprog = FALSE, !.gW = 0]
      [] k = "req"    ->
             IF ev.body THEN [s EXCEPT !.str[ev.x] = "body"]
             ELSE [s EXCEPT !.str[ev.x] = "await", !.rh[ev.x] = IF cf.H > 0 THEN cf.H ELSE None, !.gA[ev.x] = 0]
      [] k = "bodyend" ->
             IF s.str[ev.x] = "respb" THEN [s EXCEPT !.str[ev.x] = "resp"]
             ELSE [s EXCEPT !.str[ev.x] = "await", !.rh[ev.x] = IF cf.H > 0 THEN cf.H ELSE None, !.gA[ev.x] = 0]
      [] k = "rhdr"   ->
             LET s1 == Frame(cf, s)
                 st == IF s.str[ev.x] = "body" THEN "respb" ELSE IF ev.end THEN "done" ELSE "resp" IN
             [s1 EXCEPT !.str[ev.x] = st, !.rh[ev.x] = None, !.gA[ev.x] = None,
                        !.out.res = @ \cup {<<ev.x, "ok">>}]
      [] k = "rdata"  -> [Frame(cf, s) EXCEPT !.str[ev.x] = IF ev.end THEN "done" ELSE "resp"]
      [] k = "open"   ->
             IF s.goaway # "none" THEN Frame(cf, s)       \* new streams are ignored after GOAWAY
             ELSE [Frame(cf, s) EXCEPT !.str[ev.x] = "open", !.idle = None, !.gI = None]
      [] k = "hfin"   -> StreamClosed(cf, s, ev.x)
      [] k = "rst"    -> IF Deaf(cf, s) THEN Frame(cf, s) ELSE StreamClosed(cf, Frame(cf, s), ev.x)
      [] k = "bad"    -> IF Deaf(cf, s) THEN Frame(cf, s) ELSE GoAway(cf, Frame(cf, s), "err")
      [] k = "gshut"  -> GoAway(cf, [s EXCEPT !.gs = TRUE], "no")

Apply(cf, s, ev) ==
    IF Deaf(cf, s) /\ ev.k \in PeerEvents THEN Clean(s)
    ELSE ArmShut(cf, Apply1(cf, Clean(s), ev))

----------------------------------------------------------------------------
(* the design model *)

CONSTANTS Cfgs,       \* set of configurations
          Steps,      \* clock advances tried besides "to the next deadline"
          MaxEv       \* bound on the number of events

VARIABLES s, cf, n
vars == <<s, cf, n>>

Events(c, st) ==
    LET nd == NextDeadline(st) IN
    [k : {"adv"}, d : Steps \cup (IF nd > 0 THEN {nd} ELSE {})]
    \cup [k : {"pclose", "prog", "resume", "preface", "settings", "frame", "ping", "sping", "bad", "gshut"}]
    \cup [k : {"pack"}, i : 0..2]
    \cup [k : {"req"}, x : S, body : BOOLEAN]
    \cup [k : {"bodyend", "open", "hfin", "rst"}, x : S]
    \cup [k : {"rhdr", "rdata"}, x : S, end : BOOLEAN]

Init == cf \in Cfgs /\ s = Init0(cf) /\ n = 0
Next == /\ n < MaxEv /\ n' = n + 1 /\ cf' = cf
        /\ \E ev \in Events(cf, s) : Enabled(cf, s, ev) /\ s' = Apply(cf, s, ev)
Spec == Init /\ [][Next]_vars

----------------------------------------------------------------------------
(* design-level properties *)

TypeOK ==
    /\ s.closed \in BOOLEAN /\ s.wb \in BOOLEAN /\ s.wprog \in BOOLEAN
    /\ s.phase \in {"pre", "set", "run"} /\ s.goaway \in {"none", "no", "err"}
    /\ \A x \in S : s.str[x] \in {"none", "open", "closed", "body", "await", "respb", "resp", "done", "failed"}
    /\ Len(s.hc) = Len(s.gP)

\* every expiry happened exactly when its period had elapsed since the event it counts from
ExpiryExact == s.out.ok

\* NotEarly / NotLate per timer: an armed timer and the time since its event add up to its period
ReadIdleOnTime == Armed(s.ri) => (cf.R > 0 /\ s.ri + s.gF = cf.R)
PingOnTime == \A i \in 1..Len(s.hc) : s.hc[i] + s.gP[i] = cf.P
RespHdrOnTime == \A x \in S : /\ Armed(s.rh[x]) => (s.str[x] = "await" /\ s.rh[x] + s.gA[x] = cf.H)
                              /\ (~s.closed /\ cf.H > 0 /\ s.str[x] = "await") => Armed(s.rh[x])
IdleOnTime == Armed(s.idle) => (cf.I > 0 /\ s.idle + s.gI = cf.I)
ShutOnTime == Armed(s.shut) => s.shut + s.gG = cf.GA
WriteOnTime == Armed(s.wrem) => (s.wb /\ cf.W > 0 /\ s.wrem + s.gW = cf.W)

\* health checking never stops silently on an open connection
HealthCheckAlive ==
    (Running(s) /\ cf.R > 0) => (Armed(s.ri) \/ Len(s.hc) > 0)
NoPingWhenDisabled == cf.R = 0 => (Len(s.hc) = 0 /\ s.out.hc = 0 /\ s.pend.hc = 0)

\* the server has at most one health-check PING in flight; so has a client whose PingTimeout does
\* not exceed its ReadIdleTimeout (otherwise traffic other than the ack lets a second one start)
AtMostOnePingInFlight ==
    /\ cf.side = "s" => Len(s.hc) <= 1
    /\ (cf.side = "c" /\ cf.P <= cf.R) => Len(s.hc) <= 1
PingsSpaced == \A i \in 1..Len(s.gP) : \A j \in 1..Len(s.gP) : i < j => s.gP[i] >= s.gP[j] + cf.R

\* IdleTimeout runs only while there is no stream, and does run then
IdleOnlyWhenNoStreams ==
    /\ Armed(s.idle) => Open(s) = {}
    /\ (cf.side = "s" /\ ~s.closed /\ s.phase # "pre" /\ cf.I > 0 /\ Open(s) = {} /\ s.goaway = "none")
          => Armed(s.idle)

\* once the GOAWAY is written the connection ends within goAwayTimeout (graceful: after the last stream)
GoAwayBounded ==
    (cf.side = "s" /\ ~s.closed /\ s.goaway # "none" /\ ~s.wb /\ (s.goaway = "err" \/ Open(s) = {}))
        => Armed(s.shut)

\* a connection that has not seen the peer's SETTINGS does not outlive firstSettingsTimeout
SettingsBounded == (~s.closed /\ s.phase = "set") => Armed(s.fs)
PrefaceBounded == (~s.closed /\ s.phase = "pre") => Armed(s.pf)

\* a closed connection is quiet: no timer is armed (but for the named deviation), nothing is emitted
ClosedIsQuiet ==
    s.closed => /\ NextDeadline([s EXCEPT !.late = None, !.zh = <<>>]) = None
                /\ Open(s) = {}
QuietStep == [][s.closed => (s'.out.hc = 0 /\ s'.out.pa = 0 /\ s'.out.ga = <<>> /\ s'.out.rst = {}
                             /\ s'.out.res = {} /\ s'.out.close = "none")]_vars
NoLateHealthCheck == s.nd # "late-hc" /\ ~Armed(s.late)

\* a request fails with the timeout error only at its ResponseHeaderTimeout, and never after
\* its response headers were delivered
ClosedForever == [][s.closed => s'.closed]_vars
=============================================================================
