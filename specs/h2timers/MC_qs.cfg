SPECIFICATION Spec
CONSTANTS
  Cfgs <- CfgsQs
  Steps = {1}
  MaxEv = 6
INVARIANTS TypeOK ExpiryExact ReadIdleOnTime PingOnTime RespHdrOnTime IdleOnTime ShutOnTime WriteOnTime
  HealthCheckAlive NoPingWhenDisabled AtMostOnePingInFlight PingsSpaced IdleOnlyWhenNoStreams
  GoAwayBounded SettingsBounded PrefaceBounded ClosedIsQuiet
PROPERTIES QuietStep ClosedForever
CHECK_DEADLOCK FALSE
