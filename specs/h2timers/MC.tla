--------------------------------- MODULE MC ---------------------------------
(* Model-checking instances of H2Timers: small durations (ticks), few events. *)
EXTENDS H2Timers

Cli(Rs, Ps, Ws, Hs) == [side : {"c"}, R : Rs, P : Ps, W : Ws, H : Hs, I : {0}, FS : {2}, PF : {4}, GA : {1}]
Srv(Rs, Ps, Ws, Is, GAs) == [side : {"s"}, R : Rs, P : Ps, W : Ws, H : {0}, I : Is, FS : {2}, PF : {4}, GA : GAs]

CfgsQc == Cli({2, 3}, {2, 5}, {0}, {0, 3}) \cup Cli({0}, {2}, {0, 2}, {0, 3})
CfgsQs == Srv({0, 3}, {2}, {0, 2}, {0, 2, 5}, {1})
CfgsTc == Cli({0, 2, 3}, {2, 3, 5}, {0, 2}, {0, 2, 3})
CfgsTs == Srv({0, 2, 3}, {2, 5}, {0, 2}, {0, 2, 3, 5}, {1, 3})
=============================================================================
