------------------------------- MODULE Trace -------------------------------
(* Trace validation for X17 / X18.  One trace = one real connection (ClientConn or      *)
(* server connection) in a synctest bubble, driven by a script; times in milliseconds.  *)
(*   hdr   side, R P W H I GA (configured), FS PF (constants of the package), strict     *)
(*   every other line: the stimulus (e = the event kind of H2Timers, with d / i / x /    *)
(*   body / end) and what the endpoint did until quiescence: hc health-check PINGs sent, *)
(*   pa PING acks sent, ga GOAWAY codes, rst streams reset (client), rp PINGs bundled    *)
(*   with a reset (client), res RoundTrip results [x, class], closed, lost = calls of    *)
(*   CountError("conn_close_lost_ping"), wac = bytes written after the close (client),   *)
(*   np = len(cc.pings) (client), q/ps/ig/sa/ns = serve-loop snapshot (server).          *)
(* Every line must be the step Apply(ev) of H2Timers with exactly that outcome.  Timer   *)
(* expiries are silent steps composed into adv.  (strict: probes of the repaired F1.)   *)
EXTENDS H2Timers, TraceIO

VARIABLES cur, l
tvars == <<vars, cur, l>>

Line == Trace[l]

TInit ==
    \E t \in 1..NT :
       LET h == Trace[Meta.starts[t]] IN
       /\ cur = t /\ l = Meta.starts[t] + 1 /\ n = 0
       /\ h.e = "hdr"
       /\ cf = [side |-> h.side, R |-> h.R, P |-> h.P, W |-> h.W, H |-> h.H, I |-> h.I,
                FS |-> h.FS, PF |-> h.PF, GA |-> h.GA, strict |-> h.strict]
       /\ s = Init0(cf)

Ev == CASE Line.e = "adv" -> [k |-> "adv", d |-> Line.d]
        [] Line.e = "pack" -> [k |-> "pack", i |-> Line.idx]
        [] Line.e = "req" -> [k |-> "req", x |-> Line.x, body |-> Line.body]
        [] Line.e \in {"bodyend", "open", "hfin", "rst"} -> [k |-> Line.e, x |-> Line.x]
        [] Line.e \in {"rhdr", "rdata"} -> [k |-> Line.e, x |-> Line.x, end |-> Line.end]
        [] OTHER -> [k |-> Line.e]

ToSet(q) == {q[i] : i \in 1..Len(q)}
GaName(c) == IF c = 0 THEN "no" ELSE "err"

\* Does the line show what the specification says the step produced?  In a step in which the
\* connection closed while other timers were due at the same instant (out.opt) the real code may
\* have done less of the rest (goroutines / serve-loop messages race).
\* A server connection that the server closed itself through conn.Close (lost PING, write timeout)
\* keeps its serve loop under the harness's net.Conn (Close does not wake the blocked reader, and
\* writes after it still reach the peer's buffer); what that loop does afterwards is not judged.
Zombie(pre) == cf.side = "s" /\ pre.closed /\ pre.why \in {"lostping", "werr"}

Shows(o, t, pre) ==
    LET ex == ~t.out.opt IN
    IF Zombie(pre) THEN o.closed = TRUE ELSE
    /\ o.closed = t.closed
    /\ IF ex THEN o.hc = t.out.hc ELSE o.hc <= t.out.hc
    /\ IF ex THEN o.pa = t.out.pa ELSE o.pa <= t.out.pa
    /\ LET g == [i \in 1..Len(o.ga) |-> GaName(o.ga[i])] IN
       IF ex THEN Len(g) = Len(t.out.ga) /\ \A i \in 1..Len(g) : g[i] = t.out.ga[i]
       ELSE Len(g) <= Len(t.out.ga)
    /\ IF ex THEN o.lost = t.out.lost ELSE o.lost <= t.out.lost
    /\ cf.strict => t.nd = "none"
    /\ IF cf.side = "c"
       THEN \* (in the step that closes the connection the resets of the aborted streams race with the close)
            /\ IF t.out.close # "none" THEN t.out.rst \subseteq ToSet(o.rst) \/ ~ex
               ELSE ToSet(o.rst) = t.out.rst
            /\ o.rp <= Len(o.rst)
            /\ {r[1] : r \in ToSet(o.res)} = {r[1] : r \in t.out.res}
            /\ \A r \in ToSet(o.res) : \/ <<r[1], r[2]>> \in t.out.res
                                       \/ ~ex /\ r[2] \in {"lost", "other"}
            /\ ~t.closed => o.np = Len(t.hc)
            \* a PING written to the connection after it was closed: only the late health check does that
            /\ IF ex THEN o.pac = t.out.pac ELSE o.pac + o.hc <= t.out.pac + t.out.hc
            /\ o.ga = <<>>
       ELSE \* (a connection closed by the server itself: under the harness's net.Conn the serve loop
            \* may live on until its reader fails; its snapshot is not judged then)
            /\ IF t.closed THEN TRUE
               ELSE IF t.phase = "pre" THEN o.q = "pre"
               ELSE /\ o.q = "ok"
                    /\ o.ps = (Len(t.hc) > 0)
                    /\ o.ig = (t.goaway # "none")
                    /\ o.sa = Armed(t.shut)
                    /\ o.ns = Cardinality(Open(t))

\* A health check that started at the very instant the connection was closed (s.zo) may or may
\* not have registered its PING: a step may also be taken from the state without it.
TStep ==
    /\ Has(Line, "closed")
    /\ \E keep \in (IF s.zo /\ Len(s.zh) > 0 THEN {TRUE, FALSE} ELSE {TRUE}) :
          LET s0 == IF keep THEN s ELSE [s EXCEPT !.zh = SubSeq(s.zh, 1, Len(s.zh) - 1), !.zo = FALSE] IN
          /\ Enabled(cf, s0, Ev)
          /\ s' = Apply(cf, s0, Ev)
          /\ Shows(Line, s', s)

TNext ==
    /\ l <= Meta.ends[cur]
    /\ l' = l + 1 /\ cur' = cur /\ cf' = cf /\ n' = n
    /\ TStep

TSpec == TInit /\ [][TNext]_tvars

Mark == HighWater(cur, l)
=============================================================================
