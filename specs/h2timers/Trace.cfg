SPECIFICATION TSpec
CONSTANTS
  Cfgs = {}
  Steps = {}
  MaxEv = 0
INVARIANTS ExpiryExact ReadIdleOnTime PingOnTime RespHdrOnTime IdleOnTime ShutOnTime WriteOnTime
  HealthCheckAlive NoPingWhenDisabled AtMostOnePingInFlight IdleOnlyWhenNoStreams GoAwayBounded ClosedIsQuiet NoLateHealthCheck
CONSTRAINT Mark
POSTCONDITION AllConsumed
CHECK_DEADLOCK FALSE
