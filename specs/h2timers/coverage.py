#!/usr/bin/env python3
# Per-action coverage of a recorded (and validated) h2timers trace file:
#   VERIF_KEEP=1 bin/vcheck X17 --tier quick ; python3 specs/h2timers/coverage.py /tmp/verif-scratch/X17-*/drv-*/trace.ndjson
# Stimuli are counted by kind; expiries (silent steps composed into adv) by their logged effect.
import collections
import json
import sys

c = collections.Counter()
traces = set()
for path in sys.argv[1:]:
    prev = {}
    hdr = {}
    infl = 0
    stalled = False
    for ln in open(path):
        x = json.loads(ln)
        e = x.get("e")
        if e == "meta":
            continue
        if e == "hdr":
            hdr, prev, infl, stalled = x, {}, 0, False
            traces.add((path, x["t"]))
            c["traces side=" + x["side"] + (" strict" if x.get("strict") else "")] += 1
            continue
        side = hdr["side"]
        k = e
        if e == "pack":
            k = "pack right payload" if x.get("idx") else "pack wrong payload"
        if e == "req":
            k = "req with body" if x.get("body") else "req without body"
        if e in ("rhdr", "rdata"):
            k = "%s end=%s" % (e, x.get("end"))
        c["stimulus " + k] += 1
        was_closed = prev.get("closed", False)
        if x.get("hc"):
            c["RiExpire (health-check PING sent)"] += x["hc"]
            infl += x["hc"]
            if infl > 1:
                c["  second PING while one is in flight"] += 1
        if e == "pack" and x.get("idx"):
            infl = max(0, infl - 1)
        if x.get("closed") and not was_closed:
            infl = 0
            if e == "adv":
                if x.get("lost"):
                    c["PingExpire (closed for the lost PING)"] += 1
                elif stalled:
                    c["WExpire (write timed out, closed)"] += 1
                elif prev.get("sa"):
                    c["ShutExpire (closed after GOAWAY)"] += 1
                elif prev.get("q") == "pre":
                    c["PfExpire (no preface)"] += 1
                elif side == "s":
                    c["FsExpire (no SETTINGS)"] += 1
                else:
                    c["closed in adv (other)"] += 1
            else:
                c["closed by " + e] += 1
        if x.get("closed") and was_closed and e == "adv" and (x.get("lost") or x.get("pac")):
            c["LateExpire / ZExpire (health check on the closed connection)"] += 1
        for r in x.get("res", []):
            c["RoundTrip result " + r[1]] += 1
            if r[1] == "timeout":
                c["RhExpire (ResponseHeaderTimeout)"] += 1
        if x.get("rp"):
            c["  RST_STREAM bundled with PING"] += x["rp"]
        for g in x.get("ga", []):
            if e == "adv":
                c["IdleExpire (GOAWAY NO_ERROR)" if g == 0 else "GOAWAY in adv code %d" % g] += 1
            else:
                c["GOAWAY on %s code %d" % (e, g)] += 1
        if x.get("sa") and not prev.get("sa"):
            c["ArmShut (shutdown timer armed) on " + e] += 1
        if e == "sping":
            stalled = True
        if e == "resume":
            stalled = False
            if x.get("ga"):
                c["  GOAWAY written after a blocked write"] += 1
        if stalled and e == "adv" and prev.get("e") == "prog" and not x.get("closed"):
            c["  adv after progress (window may re-arm)"] += 1
        prev = x
print("%d traces" % len(traces))
for k in sorted(c):
    print("%6d  %s" % (c[k], k))
