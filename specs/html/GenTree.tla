------------------------------ MODULE GenTree ------------------------------
(* Every edge of the NodeTree state graph, exported for replay on html/node.go (C41).    *)
(* One CASE item per reachable forest: the link table of the forest and, for every call   *)
(* of the node API in that state that is inside the contract or documented to panic, the  *)
(* outcome NodeTree predicts: panic (table unchanged) or the link table afterwards.       *)
(* The same run checks the NodeTree invariants, so the enumeration is also the            *)
(* exhaustive model check of the quick tier.                                              *)
EXTENDS NodeTree, Json, TLC

\* Nodes are model values (SYMMETRY: one representative per isomorphism class of forests is
\* expanded, which covers every edge of the graph up to renaming of nodes; the real code
\* cannot tell nodes apart).  Num fixes the numbering used in the exported tables.
NN == Cardinality(Nodes)
Num == CHOOSE f \in [Nodes -> 1..NN] : \A a, b \in Nodes : a # b => f[a] # f[b]
Node(i) == CHOOSE a \in Nodes : Num[a] = i
Nm(x) == IF x = Nil THEN 0 ELSE Num[x]
Tab(k) == LET t == Links(k) IN
          [i \in 1..NN |-> LET r == t[Node(i)] IN <<Nm(r.p), Nm(r.f), Nm(r.l), Nm(r.pv), Nm(r.nx)>>]
Perms == Permutations(Nodes)

Op(name, n, c, o, pan, k) == [op |-> name, n |-> Nm(n), c |-> Nm(c), o |-> Nm(o), panic |-> pan, post |-> Tab(k)]

AppendOps == {Op("append", x[1], x[2], 0, AppendPanics(x[1], x[2]),
                 IF AppendPanics(x[1], x[2]) THEN kids ELSE [kids EXCEPT ![x[1]] = Append(@, x[2])]) :
              x \in {y \in Nodes \X Nodes : AppendPanics(y[1], y[2]) \/ AppendLegal(y[1], y[2])}}

InsertOps == {Op("insert", x[1], x[2], x[3], InsertPanics(x[1], x[2], x[3]),
                 IF InsertPanics(x[1], x[2], x[3]) THEN kids
                 ELSE [kids EXCEPT ![x[1]] = IF x[3] = Nil THEN Append(@, x[2]) ELSE InsertAt(@, IndexOf(@, x[3]), x[2])]) :
              x \in {y \in Nodes \X Nodes \X (Nodes \cup {Nil}) :
                       /\ y[3] = Nil \/ ParentOf(kids, y[3]) = y[1]
                       /\ InsertPanics(y[1], y[2], y[3]) \/ InsertLegal(y[1], y[2], y[3])}}

RemoveOps == {Op("remove", x[1], x[2], 0, RemovePanics(x[1], x[2]),
                 IF RemovePanics(x[1], x[2]) THEN kids ELSE [kids EXCEPT ![x[1]] = RemoveAt(@, IndexOf(@, x[2]))]) :
              x \in Nodes \X Nodes}

Export == PrintT(<<"CASE", ToJson([pre |-> Tab(kids), ops |-> AppendOps \cup InsertOps \cup RemoveOps])>>)
=============================================================================
