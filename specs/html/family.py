# html family hooks: signatures that name the scenario class of a C39/C40/C41 violation, so that a
# known finding does not hide a different violation of the same property.  The verdict itself
# always comes from TLC (a trace TLC rejected, or a replay mismatch against TLC's prediction);
# this file only classifies rejected scenarios for reporting.

TT = {0: "Error", 1: "Text", 2: "StartTag", 3: "EndTag", 4: "SelfClosingTag", 5: "Comment", 6: "Doctype"}
WS = (9, 10, 12, 13, 32)


def _scan(lines):
    hdr = lines[0] if lines and lines[0].get("e") == "in" else {}
    last = lines[-1]
    mb = hdr.get("maxbuf", 0)
    e = last.get("e")
    if e == "tok":
        n = last.get("n", 0)
        if mb and n > mb:
            over = n - mb
            return "scan:tok-exceeds-maxbuf;tt=%s;over=%s" % (TT.get(last.get("tt"), "?"), over if over <= 2 else ">2")
        return "scan:tok-not-next-bytes;tt=%s;maxbuf=%s;chunk=%s" % (TT.get(last.get("tt"), "?"), "set" if mb else "0", hdr.get("chunk"))
    if e == "end":
        return "scan:end=%s-not-allowed;maxbuf=%s;ctx=%s;cdata=%s" % (last.get("err"), "set" if mb else "0",
                                                                      hdr.get("ctx") or "-", hdr.get("cdata"))
    return "scan:%s;maxbuf=%s" % (e, "set" if mb else "0")


def _esc(lines):
    last = lines[-1]
    e = last.get("e")
    if e == "esc":
        if last.get("u") != last.get("s"):
            return "esc:unescape(escape(s))!=s"
        return "esc:escape-output-not-Esc(s)"
    if e == "tok":
        a, b, n = last.get("a", {}), last.get("b", {}), last.get("n")
        ty = TT.get(a.get("ty"), "?")
        data = a.get("data") or []
        if n != 1:
            return "tok:%s:retokenizes-to-%s-tokens" % (ty, n)
        if b.get("ty") != a.get("ty"):
            return "tok:%s:type-becomes-%s" % (ty, TT.get(b.get("ty"), "?"))
        if b.get("data") != a.get("data"):
            if ty == "Comment" and 13 in data:
                return "tok:Comment:data-with-CR"
            if ty == "Doctype" and data and data[0] in WS:
                return "tok:Doctype:data-with-leading-space"
            return "tok:%s:data-differs" % ty
        return "tok:%s:attributes-differ" % ty
    if e == "rp":
        if last.get("rerr"):
            return "rp:render-error"
        if last.get("perr"):
            return "rp:parse-error"
        i, o = last.get("in", {}), last.get("out", {})
        if i.get("ne") != o.get("ne"):
            return "rp:element-count-%s" % ("grew" if o.get("ne", 0) > i.get("ne", 0) else "shrank")
        if len(i.get("texts", [])) != len(o.get("texts", [])) or len(i.get("attrs", [])) != len(o.get("attrs", [])):
            return "rp:value-count-differs"
        for x, y in zip(i.get("texts", []), o.get("texts", [])):
            if x != y:
                if x[:1] == [10] and y == [10] + x:
                    # Render's "initial newline" rule applied to an element the parser does not strip it from
                    return "rp:text-gains-leading-newline"
                break
        return "rp:value-differs"
    if e == "et":
        toks = last.get("toks") or []
        name = bytes(x & 255 for x in last.get("name") or []).decode("latin1").lower()
        near = [r for r in ("iframe", "noembed", "noframes", "noscript", "plaintext", "script", "style", "textarea", "title", "xmp")
                if name.startswith(r) or r.startswith(name)]
        return "et:%s-tokens;name-%s" % (len(toks), ("near-" + near[0]) if near else "plain")
    if e == "dlv":
        w, c = last.get("w") or [], last.get("c") or []
        if last.get("boundary"):
            c = c[1:]
        how = "pad%s+chunk%s" % (last.get("boundary"), last.get("chunk")) if last.get("boundary") else "chunk%s" % last.get("chunk")
        if len(w) != len(c):
            return "dlv:token-count-differs;%s" % how
        for x, y in zip(w, c):
            if x != y:
                what = "type" if x.get("ty") != y.get("ty") else "data" if x.get("data") != y.get("data") else "attributes"
                return "dlv:%s-%s-differs;%s" % (TT.get(x.get("ty"), "?"), what, how)
        return "dlv:padding-token-differs;%s" % how
    return "esc:%s" % e


def _tree(lines):
    last = lines[-1]
    e = last.get("e")
    if e != "parse":
        return "parse:%s" % e
    ns, ctx = last.get("ns"), last.get("ctx")
    where = "%s;ctx=%s%s" % (last.get("mode"), (ns + ":") if ns else "", ctx or "-")
    if last.get("err") == "other":
        # a recovered internal panic: class = panic text, kind of call, kind of context and the
        # construct of the input that the failing path needs (when the input is logged)
        msg = str(last.get("msg", ""))
        cls = ("nil-dereference" if "nil pointer" in msg else
               "new-current-node-not-head" if "will be a head element" in msg else
               "html-element-not-found" if "<html> element not found" in msg else
               "index-out-of-range" if "index out of range" in msg else msg[:50])
        cx = "none" if not ctx else ("foreign" if ns else ("head" if ctx == "head" else "html-element"))
        feat = last.get("feat") or []
        mode = last.get("mode")
        # the known classes, each tied to the construct its code path needs
        if cls == "nil-dereference" and mode == "frag" and cx == "none" and ("<select" in feat or "<input" in feat):
            return "parse:error-returned:nil-dereference;frag;ctx=none;input-has-select-or-input-start-tag"
        if cls in ("nil-dereference", "index-out-of-range") and mode == "frag" and cx == "foreign" and "</html" in feat:
            # </html> pops the root html element; the next token finds an empty stack of open elements
            return "parse:error-returned;frag;ctx=foreign;html-end-tag-pops-the-root-element"
        if mode == "frag" and cx == "head":
            # one root cause: resetInsertionMode picks inHeadIM for a <head> context although only the
            # root html element is on the stack (marked TODO in the code); inHeadIM / inHeadNoscriptIM
            # then pop that root or find no head below it
            return "parse:error-returned;frag;ctx=head;in-head-mode-without-head-element"
        return "parse:error-returned:%s;%s;ctx=%s;scripting=%s;has=%s" % (
            cls, mode, cx, "on" if last.get("script") else "off", ",".join(feat) or "-")
    if last.get("render") == "err":
        rv = last.get("rvoid", "-")
        if rv not in ("-", "html"):
            return "parse:render-error:void-element-name-with-children-in-foreign-namespace"
        return "parse:render-error:%s;%s" % (str(last.get("msg", ""))[:50], where)
    return "parse:tree-not-well-formed;%s" % where


def signature(prop, kind, scenario, detail):
    try:
        if kind == "trace":
            lines = scenario.get("lines") or [{}]
            if prop == "C39":
                return _scan(lines)
            if prop == "C40":
                return _esc(lines)
            if prop == "C41":
                return _tree(lines)
        if kind == "replay":
            what = (detail or {}).get("what", "")
            if prop == "C40":
                return "escgen:" + what.replace(" ", "-")[:60]
            if prop == "C41" and isinstance(scenario, dict):
                ops = scenario.get("ops") or []
                st = (detail or {}).get("step")
                o = ops[st] if isinstance(st, int) and 0 <= st < len(ops) else {}
                return "nodeapi:%s;panic-predicted=%s;oldchild=%s;%s" % (
                    o.get("op"), o.get("panic"), "nil" if not o.get("o") else "set",
                    "panic-differs" if "panic" in what else "links-differ")
    except Exception:
        return None
    return None
