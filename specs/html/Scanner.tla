------------------------------ MODULE Scanner ------------------------------
(* C39: HTML tokenization is lossless and total.                                          *)
(*                                                                                        *)
(* The tokenizer itself (html/token.go) is not modelled.  This is the small machine the   *)
(* property describes: a cursor `pos` over the byte string `input`.                       *)
(*   Tok(raw)   a token was returned whose Raw() is `raw`: legal iff raw is exactly the    *)
(*              next Len(raw) bytes of the input (no gap, no overlap, no invented byte);   *)
(*              with SetMaxBuf(maxbuf) no token may hold more than maxbuf bytes.           *)
(*   End(err)   the tokenizer returned ErrorToken with Err() = err: legal for io.EOF iff   *)
(*              the whole input was consumed, or what is left is an unterminated tag       *)
(*              (which HTML discards); legal for ErrBufferExceeded iff a limit is set and  *)
(*              the limit was really reached (the last token filled it, or at least        *)
(*              maxbuf bytes remain).                                                      *)
(* A panic, a hang or a token count above the step budget has no action at all.           *)
(*                                                                                        *)
(* "Unterminated tag" is the notion of the HTML standard (WHATWG 13.2.5.6 - 13.2.5.40):    *)
(* after "<" + ASCII letter or "</" + ASCII letter the tag runs to the first ">" that is   *)
(* not inside a quoted attribute value; end of input before that is eof-in-tag and the    *)
(* tag is dropped.  TagRun is that scan (states of the standard, nothing else of the      *)
(* tokenizer); it is evaluated by divide and conquer so that TLC's evaluation depth stays  *)
(* logarithmic in the input length.                                                       *)
EXTENDS Integers, Sequences

VARIABLES input,     \* the bytes given to the tokenizer (sequence of 0..255)
          pos,       \* bytes covered by the Raw() of the tokens returned so far
          maxbuf,    \* SetMaxBuf value, 0 = unlimited
          lastn,     \* length of the last token's Raw()
          done       \* ErrorToken seen
svars == <<input, pos, maxbuf, lastn, done>>

IsLetter(c) == (c >= 65 /\ c <= 90) \/ (c >= 97 /\ c <= 122)
IsWs(c)     == c \in {9, 10, 12, 13, 32}
LT == 60   GT == 62   SOL == 47   EQ == 61   DQ == 34   SQ == 39

\* ---- the tag scan of the HTML standard (only what decides where a tag ends)
TagStates == {"name", "battr", "attr", "aattr", "bval", "dq", "sq", "unq", "aq", "sc", "done"}

RECURSIVE Step(_, _)
Step(st, c) ==
    CASE st = "done"  -> "done"
      [] st = "name"  -> IF IsWs(c) THEN "battr" ELSE IF c = SOL THEN "sc" ELSE IF c = GT THEN "done" ELSE "name"
      [] st = "battr" -> IF IsWs(c) THEN "battr" ELSE IF c = SOL \/ c = GT THEN Step("aattr", c)
                         ELSE IF c = EQ THEN "attr" ELSE Step("attr", c)
      [] st = "attr"  -> IF IsWs(c) \/ c = SOL \/ c = GT THEN Step("aattr", c) ELSE IF c = EQ THEN "bval" ELSE "attr"
      [] st = "aattr" -> IF IsWs(c) THEN "aattr" ELSE IF c = SOL THEN "sc" ELSE IF c = EQ THEN "bval"
                         ELSE IF c = GT THEN "done" ELSE Step("attr", c)
      [] st = "bval"  -> IF IsWs(c) THEN "bval" ELSE IF c = DQ THEN "dq" ELSE IF c = SQ THEN "sq"
                         ELSE IF c = GT THEN "done" ELSE Step("unq", c)
      [] st = "dq"    -> IF c = DQ THEN "aq" ELSE "dq"
      [] st = "sq"    -> IF c = SQ THEN "aq" ELSE "sq"
      [] st = "unq"   -> IF IsWs(c) THEN "battr" ELSE IF c = GT THEN "done" ELSE "unq"
      [] st = "aq"    -> IF IsWs(c) THEN "battr" ELSE IF c = SOL THEN "sc" ELSE IF c = GT THEN "done" ELSE Step("battr", c)
      [] st = "sc"    -> IF c = GT THEN "done" ELSE Step("battr", c)

\* state after scanning s[a..b] from state st (balanced recursion)
RECURSIVE TagRun(_, _, _, _)
TagRun(s, st, a, b) ==
    IF a > b THEN st
    ELSE IF a = b THEN Step(st, s[a])
    ELSE LET m   == (a + b) \div 2
             mid == TagRun(s, st, a, m)
         \* the test forces the left half before the right half is entered (TLC passes operator
         \* arguments lazily; without it the evaluation depth would be linear in b - a)
         IN IF mid = "done" THEN "done" ELSE TagRun(s, mid, m + 1, b)

\* the same scan, one byte after the other (used by the model check only)
RECURSIVE TagRunSeq(_, _, _, _)
TagRunSeq(s, st, a, b) == IF a > b THEN st ELSE TagRunSeq(s, Step(st, s[a]), a + 1, b)

\* s[p+1..] is a tag that the end of the input cuts short
UnterminatedTagAt(s, p) ==
    LET n == Len(s) IN
    /\ p + 2 <= n
    /\ s[p + 1] = LT
    /\ \/ IsLetter(s[p + 2]) /\ TagRun(s, "name", p + 3, n) # "done"
       \/ s[p + 2] = SOL /\ p + 3 <= n /\ IsLetter(s[p + 3]) /\ TagRun(s, "name", p + 4, n) # "done"

\* ---- digest of s[a..b] for tokens too long to log byte by byte (balanced recursion;
\* every intermediate value stays below 2^31): <<length mod M, sum, position-weighted sum>>
M == 32749
RECURSIVE Dg(_, _, _)
Dg(s, a, b) ==
    IF a > b THEN <<0, 0, 0>>
    ELSE IF a = b THEN <<1, (s[a] + 1) % M, (s[a] + 1) % M>>
    ELSE LET m == (a + b) \div 2
             x == Dg(s, a, m)
             y == Dg(s, m + 1, b)
         IN <<(x[1] + y[1]) % M, (x[2] + y[2]) % M, (x[3] + y[3] + x[1] * y[2]) % M>>
RECURSIVE DgSeq(_, _, _, _)
DgSeq(s, a, b, acc) == IF a > b THEN acc
                       ELSE DgSeq(s, a + 1, b, <<(acc[1] + 1) % M, (acc[2] + s[a] + 1) % M,
                                                 (acc[3] + ((acc[1] + 1) % M) * ((s[a] + 1) % M)) % M>>)

\* ---- actions
TokLen(len) ==
    /\ ~done
    /\ len >= 0 /\ pos + len <= Len(input)
    /\ maxbuf > 0 => len <= maxbuf
    /\ pos' = pos + len /\ lastn' = len
    /\ UNCHANGED <<input, maxbuf, done>>

Tok(raw)      == TokLen(Len(raw)) /\ raw = SubSeq(input, pos + 1, pos + Len(raw))
TokD(len, dg) == TokLen(len) /\ dg = Dg(input, pos + 1, pos + len)

End(err) ==
    /\ ~done
    /\ \/ err = "EOF" /\ (pos = Len(input) \/ UnterminatedTagAt(input, pos))
       \/ err = "BUF" /\ maxbuf > 0 /\ (Len(input) - pos >= maxbuf \/ lastn >= maxbuf)
    /\ done' = TRUE
    /\ UNCHANGED <<input, pos, maxbuf, lastn>>

\* ---- a model of "any lossless tokenizer" for the exhaustive sanity check (MCScan)
CONSTANTS Alphabet, MaxLen
Strings == UNION {[1..m -> Alphabet] : m \in 0..MaxLen}
Init == /\ input \in Strings /\ pos = 0 /\ maxbuf \in {0, 2} /\ lastn = 0 /\ done = FALSE
Next == \/ \E len \in 1..(Len(input) - pos) : Tok(SubSeq(input, pos + 1, pos + len))
        \/ End("EOF") \/ End("BUF")
Spec == Init /\ [][Next]_svars

Contains(s, a, b, c) == \E i \in a..b : s[i] = c
\* what the property promises once the tokenizer has stopped
Lossless == done => \/ pos = Len(input)
                    \/ maxbuf > 0
                    \/ /\ input[pos + 1] = LT                   \* a tag was cut short:
                       /\ pos + 2 <= Len(input)                 \* it opens like a tag,
                       /\ IsLetter(input[pos + 2]) \/ input[pos + 2] = SOL
                       /\ \A i \in (pos + 1)..Len(input) :      \* and every ">" left over is inside quotes
                            input[i] = GT => (Contains(input, pos + 1, i - 1, DQ) \/ Contains(input, pos + 1, i - 1, SQ))
\* helper operators agree with their one-byte-at-a-time definitions
HelpersOK == (pos = 0 /\ ~done) => \A a \in 1..(Len(input) + 1) :
                /\ \A st \in TagStates : TagRun(input, st, a, Len(input)) = TagRunSeq(input, st, a, Len(input))
                /\ Dg(input, a, Len(input)) = DgSeq(input, a, Len(input), <<0, 0, 0>>)
\* the simple criterion of the design (opens like a tag, no ">" at all) is covered by the exemption
SimpleCriterion == (pos = 0 /\ ~done) => \A p \in 0..Len(input) :
    (/\ p + 2 <= Len(input) /\ input[p + 1] = LT
     /\ \/ IsLetter(input[p + 2])
        \/ input[p + 2] = SOL /\ p + 3 <= Len(input) /\ IsLetter(input[p + 3])
     /\ ~Contains(input, p + 1, Len(input), GT)) => UnterminatedTagAt(input, p)
\* a complete tag is never exempt: "<a>", "<a b='>'>", "</a >" ...
CompleteNotExempt == (pos = 0 /\ ~done) => \A p \in 0..Len(input) :
    (/\ p + 3 <= Len(input) /\ input[p + 1] = LT /\ IsLetter(input[p + 2]) /\ input[Len(input)] = GT
     /\ ~Contains(input, p + 1, Len(input), DQ) /\ ~Contains(input, p + 1, Len(input), SQ))
    => ~UnterminatedTagAt(input, p)
=============================================================================
