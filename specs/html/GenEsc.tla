------------------------------- MODULE GenEsc -------------------------------
(* C40 (1): every string of length <= MaxLen over the special-character alphabet is one   *)
(* TLC state.  On it TLC checks that Esc loses nothing (Unesc5(Esc(c)) = c), that no       *)
(* special byte survives unescaped, and exports the case with the predicted EscapeString   *)
(* output; the driver requires EscapeString(c) = esc and UnescapeString(esc) = c.          *)
EXTENDS Escape, Json, TLC

CONSTANTS Alphabet, MaxLen
VARIABLE c
Strings == UNION {[1..m -> Alphabet] : m \in 0..MaxLen}
GInit == c \in Strings
GNext == UNCHANGED c
GSpec == GInit /\ [][GNext]_c

\* one evaluation of Esc(c) per state
Check(e) == /\ Unesc5(e, 1) = c                                  \* Inverse
            /\ \A i \in 1..Len(e) :                               \* NoRawSpecial
                   /\ e[i] \notin {LT, GT, DQ, SQ}
                   /\ e[i] = AMP => \E x \in {AMP, LT, GT, DQ, SQ} : StartsWith(e, i, EscByte(x, FALSE))
Export == LET e == Esc(c) IN Check(e) /\ PrintT(<<"CASE", ToJson([in |-> c, esc |-> e])>>)
=============================================================================
