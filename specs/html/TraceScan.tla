----------------------------- MODULE TraceScan -----------------------------
(* C39 trace validation.  One trace = one input given to a real Tokenizer:                 *)
(*   {"e":"in","input":[bytes],"maxbuf":n, ...}         header (how it was fed is informative) *)
(*   {"e":"tok","n":len,"raw":[bytes]}                  a token; Raw() logged byte by byte   *)
(*   {"e":"tok","n":len,"dg":[l,s,w]}                   a token of a long input: digest of Raw() *)
(*   {"e":"end","err":"EOF"|"BUF"|"OTHER"}              ErrorToken and the class of Err()    *)
(* and, never matched by any action: {"e":"panic"}, {"e":"hang"}, {"e":"budget"}.           *)
(* TLC replays the lines on the Scanner machine: every token must be the next bytes of the  *)
(* input (TLC compares the bytes, or recomputes the digest from the input itself), and the  *)
(* end must be one the property allows.                                                     *)
EXTENDS Scanner, TraceIO

VARIABLES cur, l
tvars == <<svars, cur, l>>
Line == Trace[l]

TInit == \E t \in 1..NT :
            LET h == Trace[Meta.starts[t]] IN
            /\ cur = t /\ l = Meta.starts[t] + 1
            /\ h.e = "in"
            /\ input = h.input /\ maxbuf = h.maxbuf
            /\ pos = 0 /\ lastn = 0 /\ done = FALSE

TTok == /\ Line.e = "tok"
        /\ IF Has(Line, "raw") THEN Line.n = Len(Line.raw) /\ Tok(Line.raw)
           ELSE TokD(Line.n, Line.dg)

TEnd == Line.e = "end" /\ End(Line.err)

TNext == /\ l <= Meta.ends[cur]
         /\ l' = l + 1 /\ cur' = cur
         /\ (TTok \/ TEnd)

TSpec == TInit /\ [][TNext]_tvars
Mark == HighWater(cur, l)
\* the input never changes within a trace: keep it out of the fingerprint
TView == <<cur, l, pos, lastn, done>>
=============================================================================
