SPECIFICATION TSpec
CONSTANTS
  Nodes = {1}
CONSTRAINT Mark
POSTCONDITION AllConsumed
CHECK_DEADLOCK FALSE
