SPECIFICATION Spec
CONSTANTS
  Alphabet = {60, 97, 47, 62, 34, 61, 32}
  MaxLen = 4
INVARIANTS Lossless HelpersOK SimpleCriterion CompleteNotExempt
CHECK_DEADLOCK FALSE
