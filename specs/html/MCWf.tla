-------------------------------- MODULE MCWf --------------------------------
(* Sanity of the WellFormed predicate itself (C41), over *all* link tables on N nodes      *)
(* (N = 2: 3^10 = 59049 tables; every field ranges over nil and both nodes):               *)
(*   Sound/Complete  WellFormed(t) holds exactly for the tables Links(k) of forests k;     *)
(*   CertEquiv       t is WellFormed iff depth / sibling-index columns exist that make     *)
(*                   WellFormedCert hold (the linear form used on recorded parser output). *)
(* Plus a list of hand-made malformed tables on 4 nodes that must be rejected.             *)
EXTENDS NodeTree, TLC

VARIABLE t
N == Cardinality(Nodes)
Row == [p : 0..N, f : 0..N, l : 0..N, pv : 0..N, nx : 0..N, ty : {3}]
WInit == t \in [Nodes -> Row] /\ kids = [n \in Nodes |-> <<>>]
WNext == UNCHANGED <<t, kids>>
WSpec == WInit /\ [][WNext]_<<t, kids>>

\* all forests over Nodes, as kids functions
Seqs == UNION {[1..m -> Nodes] : m \in 0..N}
AllForests == {k \in [Nodes -> Seqs] : ForestOK(k)}
ForestTables == {Links(k) : k \in AllForests}

WithCert(tt, d, k) == [i \in Nodes |-> [p |-> tt[i].p, f |-> tt[i].f, l |-> tt[i].l, pv |-> tt[i].pv,
                                         nx |-> tt[i].nx, ty |-> tt[i].ty, d |-> d[i], k |-> k[i]]]

SoundComplete == WellFormed(t) <=> (t \in ForestTables)
CertEquiv == WellFormed(t) <=> (\E d \in [Nodes -> 0..N], k \in [Nodes -> 1..N] : WellFormedCert(WithCert(t, d, k)))

\* malformed tables that must be rejected (rows: <<p, f, l, pv, nx>>, 4 nodes)
Tab(rows) == [i \in 1..Len(rows) |-> [p |-> rows[i][1], f |-> rows[i][2], l |-> rows[i][3],
                                       pv |-> rows[i][4], nx |-> rows[i][5], ty |-> 3, d |-> 0, k |-> 1]]
Bad == {
  \* two nodes that are each other's only child (parent cycle, locally consistent)
  Tab(<< <<2,2,2,0,0>>, <<1,1,1,0,0>> >>),
  \* children 2,3 of 1 that form a sibling ring not reachable from first/last
  Tab(<< <<0,0,0,0,0>>, <<1,0,0,3,3>>, <<1,0,0,2,2>> >>),
  \* first child's prev not nil / last pointer stale after a removal
  Tab(<< <<0,2,3,0,0>>, <<1,0,0,0,0>>, <<0,0,0,0,0>> >>),
  \* next without the matching prev
  Tab(<< <<0,2,3,0,0>>, <<1,0,0,0,3>>, <<1,0,0,0,0>> >>),
  \* sibling with a different parent
  Tab(<< <<0,2,2,0,0>>, <<1,0,0,0,3>>, <<4,0,0,2,0>>, <<0,3,3,0,0>> >>),
  \* detached node that kept a sibling link
  Tab(<< <<0,0,0,0,2>>, <<0,0,0,1,0>> >>),
  \* a node that is its own parent
  Tab(<< <<1,1,1,0,0>> >>) }
Good == { Tab(<< <<0,2,3,0,0>>, <<1,0,0,0,3>>, <<1,4,4,2,0>>, <<3,0,0,0,0>> >>) }
ASSUME \A b \in Bad : ~WellFormed(b)
ASSUME \A g \in Good : WellFormed(g)
ASSUME \A b \in Bad : ~(\E d \in [Ids(b) -> 0..4], k \in [Ids(b) -> 1..4] :
                          WellFormedCert([i \in Ids(b) |-> [b[i] EXCEPT !.d = d[i], !.k = k[i]]]))
=============================================================================
