------------------------------ MODULE NodeTree ------------------------------
(* C41: the node tree of golang.org/x/net/html.                                          *)
(*                                                                                       *)
(* Abstract state: a forest over the set Nodes,    kids[n] = the ordered children of n.    *)
(* The implementation (html/node.go) represents it with five links per node              *)
(* (Parent, FirstChild, LastChild, PrevSibling, NextSibling); Links(kids) is the link    *)
(* table the forest determines and WellFormed(t) is the property C41 states about a      *)
(* table: links mutually consistent, child lists doubly linked and terminated, acyclic,  *)
(* valid node types.                                                                     *)
(*                                                                                       *)
(* Actions AppendChild / InsertBefore / RemoveChild are the node API.  Their documented  *)
(* panics are preconditions (AppendPanics, InsertPanics, RemovePanics say when the call  *)
(* must panic and leave everything unchanged).  Calls the API neither guards nor the     *)
(* parser makes (inserting an ancestor under its descendant, InsertBefore with an        *)
(* oldChild that is not a child of n) are outside the contract and not enabled.          *)
(*                                                                                       *)
(* TLC checks (MC_tree*.cfg) on every reachable forest: ForestOK, WellFormed(Links(kids))*)
(* and that the links carry the whole forest (KidsOf(Links(kids)) = kids).  MC_wf.cfg    *)
(* checks, over *all* link tables on two nodes, that WellFormed(t) holds exactly for the *)
(* tables of forests and that the certificate form used in trace validation              *)
(* (WellFormedCert: depth and sibling-index columns) is equivalent.                      *)
EXTENDS Integers, Sequences, FiniteSets

CONSTANT Nodes                 \* the nodes (integers 1..n, or model values under SYMMETRY); 0 is nil
Nil == 0

VARIABLE kids                  \* kids[n]: sequence of children of n
vars == <<kids>>

Range(s) == {s[i] : i \in 1..Len(s)}

\* ------------------------------------------------------------------ abstract forest
ParentOf(k, c) == IF \E n \in DOMAIN k : c \in Range(k[n])
                  THEN CHOOSE n \in DOMAIN k : c \in Range(k[n]) ELSE Nil
IndexOf(s, c)  == CHOOSE i \in 1..Len(s) : s[i] = c

RECURSIVE AncSelfB(_, _, _)
AncSelfB(k, n, fuel) == IF n = Nil \/ fuel = 0 THEN {}
                        ELSE {n} \cup AncSelfB(k, ParentOf(k, n), fuel - 1)
AncSelf(k, n) == AncSelfB(k, n, Cardinality(DOMAIN k) + 1)

NoDup(s) == \A i, j \in 1..Len(s) : i # j => s[i] # s[j]

RECURSIVE ReachesNilB(_, _, _)
ReachesNilB(k, n, fuel) == IF n = Nil THEN TRUE ELSE IF fuel = 0 THEN FALSE
                           ELSE ReachesNilB(k, ParentOf(k, n), fuel - 1)

ForestOK(k) ==
    /\ \A n \in DOMAIN k : Range(k[n]) \subseteq DOMAIN k /\ NoDup(k[n])
    /\ \A n, m \in DOMAIN k : n # m => Range(k[n]) \cap Range(k[m]) = {}
    /\ \A n \in DOMAIN k : ReachesNilB(k, n, Cardinality(DOMAIN k) + 1)

\* ------------------------------------------------------------------ link tables
\* A table is a function (or sequence) i |-> record with fields p, f, l, pv, nx (node ids,
\* 0 = nil) and ty (node type).
Links(k) ==
    [c \in DOMAIN k |->
        LET p == ParentOf(k, c)
            s == IF p = Nil THEN <<>> ELSE k[p]
            i == IF p = Nil THEN 0 ELSE IndexOf(s, c)
        IN [p  |-> p,
            f  |-> IF k[c] = <<>> THEN Nil ELSE k[c][1],
            l  |-> IF k[c] = <<>> THEN Nil ELSE k[c][Len(k[c])],
            pv |-> IF p = Nil \/ i = 1 THEN Nil ELSE s[i - 1],
            nx |-> IF p = Nil \/ i = Len(s) THEN Nil ELSE s[i + 1],
            ty |-> 3]]

\* NodeType values of html/node.go: Error 0, Text 1, Document 2, Element 3, Comment 4,
\* Doctype 5, Raw 6 ("not returned by the parser"), scopeMarker 7 (internal).
ValidTypes == {1, 2, 3, 4, 5}

Ids(t) == DOMAIN t

LinksOK(t) ==
    LET D == Ids(t) IN
    /\ \A i \in D : {t[i].p, t[i].f, t[i].l, t[i].pv, t[i].nx} \subseteq (D \cup {Nil})
    /\ \A i \in D :
        /\ (t[i].f = Nil) <=> (t[i].l = Nil)
        /\ t[i].f # Nil => (t[t[i].f].p = i /\ t[t[i].f].pv = Nil)
        /\ t[i].l # Nil => (t[t[i].l].p = i /\ t[t[i].l].nx = Nil)
        /\ t[i].nx # Nil => (t[t[i].nx].pv = i /\ t[t[i].nx].p = t[i].p)
        /\ t[i].pv # Nil => (t[t[i].pv].nx = i /\ t[t[i].pv].p = t[i].p)
        /\ t[i].p = Nil => (t[i].pv = Nil /\ t[i].nx = Nil)
        /\ (t[i].p # Nil /\ t[i].pv = Nil) => t[t[i].p].f = i
        /\ (t[i].p # Nil /\ t[i].nx = Nil) => t[t[i].p].l = i

RECURSIVE ChainEnds(_, _, _, _)
\* following field fld ("p" or "pv") from i reaches nil within fuel steps
ChainEnds(t, fld, i, fuel) ==
    IF i = Nil THEN TRUE ELSE IF fuel = 0 THEN FALSE
    ELSE ChainEnds(t, fld, IF fld = "p" THEN t[i].p ELSE t[i].pv, fuel - 1)

Acyclic(t)       == \A i \in Ids(t) : ChainEnds(t, "p", i, Cardinality(Ids(t)) + 1)
SibTerminated(t) == \A i \in Ids(t) : ChainEnds(t, "pv", i, Cardinality(Ids(t)) + 1)
TypesOK(t)       == \A i \in Ids(t) : t[i].ty \in ValidTypes

\* The property of C41 about a returned tree.
WellFormed(t) == LinksOK(t) /\ Acyclic(t) /\ SibTerminated(t) /\ TypesOK(t)

\* Certificate form, linear in the table size (used on recorded parser output, where tables
\* have thousands of rows): column d claims the depth of the node, column k its position
\* in its sibling list.  A table that admits such columns has no parent cycle and no
\* sibling cycle (d and k strictly decrease along p and pv).
RankOK(t) ==
    \A i \in Ids(t) :
        /\ t[i].d >= 0 /\ t[i].k >= 1
        /\ IF t[i].p = Nil THEN t[i].d = 0 ELSE t[i].d = t[t[i].p].d + 1
        /\ IF t[i].pv = Nil THEN t[i].k = 1 ELSE t[i].k = t[t[i].pv].k + 1
WellFormedCert(t) == LinksOK(t) /\ RankOK(t) /\ TypesOK(t)

\* the child sequence the links of n spell out (first, then next ... ), bounded
RECURSIVE Follow(_, _, _)
Follow(t, c, fuel) == IF c = Nil \/ fuel = 0 THEN <<>> ELSE <<c>> \o Follow(t, t[c].nx, fuel - 1)
KidsOf(t) == [n \in Ids(t) |-> Follow(t, t[n].f, Cardinality(Ids(t)))]

\* ------------------------------------------------------------------ the node API
Detached(c) == ParentOf(kids, c) = Nil       \* no parent (hence no siblings)

InsertAt(s, i, c) == SubSeq(s, 1, i - 1) \o <<c>> \o SubSeq(s, i, Len(s))
RemoveAt(s, i)    == SubSeq(s, 1, i - 1) \o SubSeq(s, i + 1, Len(s))

\* documented panics
AppendPanics(n, c)    == ~Detached(c)
InsertPanics(n, c, o) == ~Detached(c)
RemovePanics(n, c)    == ParentOf(kids, c) # n

\* inside the contract: the new child is not n or one of its ancestors; oldChild is nil or a child of n
AppendLegal(n, c)    == c \notin AncSelf(kids, n)
InsertLegal(n, c, o) == c \notin AncSelf(kids, n) /\ (o = Nil \/ ParentOf(kids, o) = n)

AppendChild(n, c) ==
    /\ AppendLegal(n, c) /\ ~AppendPanics(n, c)
    /\ kids' = [kids EXCEPT ![n] = Append(@, c)]

InsertBefore(n, c, o) ==
    /\ InsertLegal(n, c, o) /\ ~InsertPanics(n, c, o)
    /\ kids' = [kids EXCEPT ![n] = IF o = Nil THEN Append(@, c) ELSE InsertAt(@, IndexOf(@, o), c)]

RemoveChild(n, c) ==
    /\ ~RemovePanics(n, c)
    /\ kids' = [kids EXCEPT ![n] = RemoveAt(@, IndexOf(@, c))]

Init == kids = [n \in Nodes |-> <<>>]
Next == \E n, c \in Nodes : \/ AppendChild(n, c)
                            \/ RemoveChild(n, c)
                            \/ \E o \in Nodes \cup {Nil} : InsertBefore(n, c, o)
Spec == Init /\ [][Next]_vars

\* ------------------------------------------------------------------ checked by TLC
ForestInv     == ForestOK(kids)
WellFormedInv == WellFormed(Links(kids))
FaithfulInv   == KidsOf(Links(kids)) = kids
\* after RemoveChild the child has no parent and no siblings; after an insertion it sits
\* where the caller asked (action properties)
RemoveDetaches == [][\A n, c \in Nodes : (ParentOf(kids, c) = n /\ kids' = [kids EXCEPT ![n] = RemoveAt(@, IndexOf(@, c))])
                        => LET r == Links(kids')[c] IN r.p = Nil /\ r.pv = Nil /\ r.nx = Nil]_vars
=============================================================================
