SPECIFICATION Spec
CONSTANTS
  Nodes = {a, b, c, d, e, f}
SYMMETRY Perms
INVARIANTS ForestInv WellFormedInv FaithfulInv Export
CHECK_DEADLOCK FALSE
