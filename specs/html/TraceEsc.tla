------------------------------ MODULE TraceEsc ------------------------------
(* C40 trace validation.  Lines (byte strings are arrays of ints):                         *)
(*   {"e":"esc","s":[..],"o":[..],"u":[..]}    s, EscapeString(s), UnescapeString(of that)   *)
(*   {"e":"tok","a":{ty,data,attrs},"n":k,"b":{ty,data,attrs}}                               *)
(*        a token of a real tokenizer run, the number of tokens its String() tokenizes to    *)
(*        and the first of them (attrs: sequence of <<key, value>>)                          *)
(*   {"e":"rp","rerr":bool,"perr":bool,"in":{ne,texts,attrs},"out":{ne,texts,attrs}}          *)
(*        a built tree of ordinary elements, rendered and parsed again: element count and    *)
(*        text / attribute values in document order, before and after                        *)
(*   {"e":"et","name":[..],"s":[..],"toks":[tokens]}                                         *)
(*        the tokens of "<name>" EscapeString(s) "</name>" for an ordinary element name       *)
(*   {"e":"dlv","w":[tokens],"c":[tokens],"pad":n,"boundary":b,"chunk":k}                     *)
(*        all tokens of an input delivered whole (w) and delivered in bounded reads and / or  *)
(*        behind a padding comment of n bytes of data (c): delivery independence              *)
(* {"e":"panic"} / {"e":"hang"} match nothing.                                               *)
EXTENDS Escape, TraceIO

VARIABLES cur, l
tvars == <<cur, l>>
Line == Trace[l]

TInit == \E t \in 1..NT : cur = t /\ l = Meta.starts[t]

TEsc == Line.e = "esc" /\ EscapeRoundTrip(Line.s, Line.o, Line.u)
TTok == Line.e = "tok" /\ TokenRoundTrip(Line.a, Line.n, Line.b)
TRp  == Line.e = "rp" /\ ~Line.rerr /\ ~Line.perr /\ RenderParseOK(Line.in, Line.out)

TEt  == Line.e = "et" /\ EscTokOK(Line.name, Line.s, Line.toks)
TDlv == Line.e = "dlv" /\ DeliveryIndependent(Line.w, Line.c, Line.boundary > 0, Line.pad)

TNext == /\ l <= Meta.ends[cur]
         /\ l' = l + 1 /\ cur' = cur
         /\ (TEsc \/ TTok \/ TRp \/ TDlv \/ TEt)
TSpec == TInit /\ [][TNext]_tvars
Mark == HighWater(cur, l)
=============================================================================
