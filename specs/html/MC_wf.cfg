SPECIFICATION WSpec
CONSTANTS
  Nodes = {1, 2}
INVARIANTS SoundComplete CertEquiv
CHECK_DEADLOCK FALSE
