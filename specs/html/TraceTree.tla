------------------------------ MODULE TraceTree ------------------------------
(* C41 trace validation.  One trace = one call of Parse / ParseFragment on one input:       *)
(*   {"e":"parse","mode":"doc"|"frag","ctx":..,"ns":..,"script":bool,                          *)
(*    "err":"none"|"depth"|"other","render":"ok"|"err"|"none","nodes":[{ty,p,f,l,pv,nx,d,k}]}  *)
(* nodes: every node reachable from the returned node(s) through any of the five links,      *)
(* numbered from 1 (0 = nil), with the driver's claimed depth d and sibling index k          *)
(* (certificates checked by WellFormedCert, see NodeTree).  Accepted iff                     *)
(*   - the call returned a tree, it is WellFormed and rendering it succeeded, or             *)
(*   - it returned the documented rejection (nesting deeper than 512 elements).             *)
(* Any other error is a recovered internal panic of the parser and is not accepted;          *)
(* {"e":"panic"} / {"e":"hang"} match nothing (termination: 10 s watchdog per call).        *)
EXTENDS NodeTree, TraceIO

VARIABLES cur, l
tvars == <<kids, cur, l>>
Line == Trace[l]

TInit == \E t \in 1..NT : cur = t /\ l = Meta.starts[t] /\ kids = <<>>

TParse ==
    /\ Line.e = "parse"
    /\ \/ Line.err = "none" /\ WellFormedCert(Line.nodes) /\ Line.render = "ok"
       \/ Line.err = "depth"

TNext == /\ l <= Meta.ends[cur]
         /\ l' = l + 1 /\ cur' = cur /\ kids' = kids
         /\ TParse
TSpec == TInit /\ [][TNext]_tvars
Mark == HighWater(cur, l)
=============================================================================
