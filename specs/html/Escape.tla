------------------------------- MODULE Escape -------------------------------
(* C40: HTML re-serialization preserves what the tokenizer and parser saw.                 *)
(*                                                                                         *)
(* Three equations over observations of the real package; TLC evaluates them:              *)
(*  (1) EscapeString / UnescapeString.  Esc is the escaping EscapeString documents          *)
(*      ("escapes only five such characters: <, >, &, ' and \""): every such byte becomes   *)
(*      its entity, every other byte is copied.  (The code also escapes CR as &#13;, which  *)
(*      the documentation does not mention: both spellings of CR are accepted.)             *)
(*      Judged: logged EscapeString(s) is Esc(s) and logged UnescapeString(that) is s.      *)
(*  (2) Token.String.  For a tag, comment or doctype token a, tokenizing a.String() yields  *)
(*      exactly one token and it equals a (type, data, attributes in order).                *)
(*  (3) Render, then Parse.  For a tree of ordinary elements with text and attribute        *)
(*      values, the reparsed tree has the same number of elements and the same values in    *)
(*      document order, modulo the parser's newline and NUL normalization (NormSet).        *)
EXTENDS Integers, Sequences

AMP == 38   LT == 60   GT == 62   DQ == 34   SQ == 39   CR == 13   LF == 10   NUL == 0

EscByte(c, escCR) ==
    CASE c = AMP -> <<38, 97, 109, 112, 59>>          \* &amp;
      [] c = LT  -> <<38, 108, 116, 59>>              \* &lt;
      [] c = GT  -> <<38, 103, 116, 59>>              \* &gt;
      [] c = DQ  -> <<38, 35, 51, 52, 59>>            \* &#34;
      [] c = SQ  -> <<38, 35, 51, 57, 59>>            \* &#39;
      [] c = CR /\ escCR -> <<38, 35, 49, 51, 59>>    \* &#13;
      [] OTHER   -> <<c>>

\* balanced recursion: evaluation depth logarithmic in Len(s)
RECURSIVE EscRange(_, _, _, _)
EscRange(s, a, b, escCR) ==
    IF a > b THEN <<>>
    ELSE IF a = b THEN EscByte(s[a], escCR)
    ELSE LET m == (a + b) \div 2 IN EscRange(s, a, m, escCR) \o EscRange(s, m + 1, b, escCR)

Esc(s)    == EscRange(s, 1, Len(s), FALSE)       \* the documented escaping
EscCR(s)  == EscRange(s, 1, Len(s), TRUE)        \* ... with CR escaped as well
EscOK(s, o) == o = Esc(s) \/ o = EscCR(s)

\* the inverse of Esc on its image: replaces exactly the five entity spellings (model-level
\* witness that Esc loses nothing; UnescapeString itself decodes far more and is judged only
\* through the equation UnescapeString(EscapeString(s)) = s)
StartsWith(o, j, w) == j + Len(w) - 1 <= Len(o) /\ SubSeq(o, j, j + Len(w) - 1) = w
RECURSIVE Unesc5(_, _)
Unesc5(o, j) ==
    IF j > Len(o) THEN <<>>
    ELSE IF \E c \in {AMP, LT, GT, DQ, SQ} : StartsWith(o, j, EscByte(c, FALSE))
         THEN LET c == CHOOSE x \in {AMP, LT, GT, DQ, SQ} : StartsWith(o, j, EscByte(x, FALSE))
              IN <<c>> \o Unesc5(o, j + Len(EscByte(c, FALSE)))
         ELSE <<o[j]>> \o Unesc5(o, j + 1)

\* (1)
EscapeRoundTrip(s, o, u) == EscOK(s, o) /\ u = s

\* (2) a, b: [ty, data, attrs]; n: number of tokens String() re-tokenized to
TagLike == 2..6      \* StartTag 2, EndTag 3, SelfClosingTag 4, Comment 5, Doctype 6
TokenRoundTrip(a, n, b) == a.ty \in TagLike /\ n = 1 /\ b.ty = a.ty /\ b.data = a.data /\ b.attrs = a.attrs

\* (3) the parser's normalization: CR LF and CR become LF (the tokenizer's convertNewlines);
\* NUL is dropped from text in the body and becomes U+FFFD in attribute values.  Render
\* escapes CR, so a CR may also survive unchanged.
RECURSIVE NL(_, _)
NL(s, i) == IF i > Len(s) THEN <<>>
            ELSE IF s[i] = CR THEN <<LF>> \o NL(s, IF i < Len(s) /\ s[i + 1] = LF THEN i + 2 ELSE i + 1)
            ELSE <<s[i]>> \o NL(s, i + 1)
DelNul(s) == SelectSeq(s, LAMBDA c : c # NUL)
RECURSIVE RepNul(_, _)
RepNul(s, i) == IF i > Len(s) THEN <<>>
                ELSE (IF s[i] = NUL THEN <<239, 191, 189>> ELSE <<s[i]>>) \o RepNul(s, i + 1)
NormSet(s) == LET t == NL(s, 1) IN {DelNul(s), RepNul(s, 1), DelNul(t), RepNul(t, 1)}

SameValues(xs, ys) == Len(xs) = Len(ys) /\ \A i \in 1..Len(xs) : ys[i] \in NormSet(xs[i])
\* attributes: <<el, k, v>> = (index of the element in document order, key, value).  The order of
\* the attributes of one element is not part of the property (the parser sorts the attributes
\* of formatting elements); keys are unique per element.
SameAttrs(xs, ys) ==
    /\ Len(xs) = Len(ys)
    /\ \A i \in 1..Len(xs) : \E j \in 1..Len(ys) :
           ys[j].el = xs[i].el /\ ys[j].k = xs[i].k /\ ys[j].v \in NormSet(xs[i].v)
RenderParseOK(in, out) ==
    /\ out.ne = in.ne                          \* no additional (or lost) element: no injection
    /\ SameValues(in.texts, out.texts)
    /\ SameAttrs(in.attrs, out.attrs)

\* (3b) the tokenizer's half of (3): for an element name that is not one of the ten raw-text /
\* RCDATA names (names that merely extend one of them, or are prefixes of one, are ordinary), the
\* bytes "<name>" EscapeString(s) "</name>" tokenize to the start tag, one text token carrying s
\* (none when s is empty) and the end tag; names are lower-cased, a CR may arrive as LF.
Lower(w) == [i \in 1..Len(w) |-> IF w[i] >= 65 /\ w[i] <= 90 THEN w[i] + 32 ELSE w[i]]
RawTextNames == { <<105,102,114,97,109,101>>, <<110,111,101,109,98,101,100>>, <<110,111,102,114,97,109,101,115>>,
                  <<110,111,115,99,114,105,112,116>>, <<112,108,97,105,110,116,101,120,116>>, <<115,99,114,105,112,116>>,
                  <<115,116,121,108,101>>, <<116,101,120,116,97,114,101,97>>, <<116,105,116,108,101>>, <<120,109,112>> }
Tag(ty, name) == [ty |-> ty, data |-> name, attrs |-> <<>>]
EscTokOK(name, s, toks) ==
    LET n == Lower(name) IN
    \/ n \in RawTextNames           \* raw text / RCDATA: not judged here
    \/ /\ s = <<>> /\ toks = <<Tag(2, n), Tag(3, n)>>
    \/ /\ s # <<>> /\ Len(toks) = 3
       /\ toks[1] = Tag(2, n) /\ toks[3] = Tag(3, n)
       /\ toks[2].ty = 1 /\ toks[2].attrs = <<>> /\ toks[2].data \in {s, NL(s, 1)}

\* (4) delivery independence.  The tokenizer's contract is over the byte stream: how the bytes
\* arrive (one Read, bounded reads of 1/2/3/7/64 bytes, random short reads) and where its internal
\* buffer happens to be refilled must not change the tokens.  w: the tokens (type, data, attributes)
\* of an input delivered whole; c: the tokens of the same input delivered differently, behind a
\* padding comment "<!--" pad x "p" "-->" when pad > 0 or the boundary flag is set (the comment moves
\* the 4096 / 8192 refill boundary of the tokenizer's buffer into the input).
\* Byte strings longer than 256 bytes are logged as <<65536, length, sum, weighted sum>> of (byte + 1)
\* modulo DM (weights 1, 2, ...); the padding comment's data is pad bytes "p" (112).
DM == 32749
PadData(n) == IF n <= 256 THEN [i \in 1..n |-> 112]
              ELSE <<65536, n, (n * 113) % DM, ((((n * (n + 1)) \div 2) % DM) * 113) % DM>>
PadToken(n) == [ty |-> 5, data |-> PadData(n), attrs |-> <<>>]
DeliveryIndependent(w, c, padded, pad) == c = (IF padded THEN <<PadToken(pad)>> ELSE <<>>) \o w
=============================================================================
