SPECIFICATION GSpec
CONSTANTS
  Alphabet = {38, 60, 62, 34, 39, 97, 59, 35, 120, 49}
  MaxLen = 5
INVARIANTS Export
CHECK_DEADLOCK FALSE
