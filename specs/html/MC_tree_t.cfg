SPECIFICATION Spec
CONSTANTS
  Nodes = {1, 2, 3, 4, 5}
INVARIANTS ForestInv WellFormedInv FaithfulInv
PROPERTY RemoveDetaches
CHECK_DEADLOCK FALSE
