SPECIFICATION Spec
CONSTANTS
  Nodes = {a, b, c, d}
SYMMETRY Perms
INVARIANTS ForestInv WellFormedInv FaithfulInv Export
CHECK_DEADLOCK FALSE
