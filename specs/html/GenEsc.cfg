SPECIFICATION GSpec
CONSTANTS
  Alphabet = {38, 60, 62, 34, 39, 97, 59, 35, 120}
  MaxLen = 4
INVARIANTS Export
CHECK_DEADLOCK FALSE
