SPECIFICATION TSpec
CONSTANTS
  Alphabet = {0}
  MaxLen = 0
CONSTRAINT Mark
POSTCONDITION AllConsumed
VIEW TView
CHECK_DEADLOCK FALSE
