SPECIFICATION GSpec
CONSTANTS
  Spaces = {0, 1, 2}
  MaxPn = 6
  Sizes = {1, 3}
  Wnds = {0}
  GenDepth = 26
INVARIANT Emit
CHECK_DEADLOCK FALSE
