------------------------------ MODULE GenLoss ------------------------------
(* Scenario generator for C26: contract-respecting call histories for lossState. *)
(* The QuicLoss model supplies the numbering (next packet number per space,      *)
(* spaces whose keys are gone); which packets the real code acknowledges or      *)
(* declares lost is not predicted - the driver records it and TraceLoss judges.  *)
(* ACK frames are lists of descending, separated [lo, hi) ranges below the next  *)
(* packet number.  Run with -simulate: a step first picks the kind of operation  *)
(* (uniformly over Mix), then its arguments, so that kinds with many argument    *)
(* combinations do not crowd out the others.                                     *)
EXTENDS QuicLoss, Json, TLC

CONSTANTS GenDepth
VARIABLES hist, ki
gvars == <<vars, hist, ki>>

Mix == <<"send", "send", "send", "send", "send", "ack", "ack", "ack", "ack", "adv", "adv", "skip", "dkeys", "dpkts", "confirm">>

GInit == Init /\ hist = <<>> /\ ki = 0
Rec(r) == hist' = Append(hist, r)

Live == Spaces \ gone

Rng(sp) == {<<a, b>> : a \in 0..NextPn(sp), b \in 1..NextPn(sp)}
Acks(sp) == {<<r>> : r \in {x \in Rng(sp) : x[1] < x[2]}}
            \cup {<<r1, r2>> : r1 \in {x \in Rng(sp) : x[1] < x[2]},
                               r2 \in {x \in Rng(sp) : x[1] < x[2]}}
Desc(rs) == \A i \in 1..(Len(rs) - 1) : rs[i + 1][2] < rs[i][1]

Op(k) ==
    \/ /\ k = "send"
       /\ \E sp \in Live, z \in Sizes, c \in 0..2 :
            /\ NextPn(sp) <= MaxPn /\ Send(sp, z, c # 2)
            /\ Rec([e |-> "send", sp |-> sp, size |-> z, k |-> c])
    \/ /\ k = "skip"
       /\ \E sp \in Live : NextPn(sp) <= MaxPn /\ NextPn(sp) > 0 /\ Skip(sp) /\ Rec([e |-> "skip", sp |-> sp])
    \/ /\ k = "ack"
       /\ \E sp \in Live : NextPn(sp) > 0 /\ \E rs \in Acks(sp) : Desc(rs) /\ \E d \in 0..2 :
            UNCHANGED vars /\ Rec([e |-> "ack", sp |-> sp, rs |-> rs, d |-> d])
    \/ /\ k = "adv"
       /\ \E a \in {"timer", "past", "tick", "far"} : UNCHANGED vars /\ Rec([e |-> "adv", k |-> a])
    \/ /\ k = "dkeys"
       /\ \E sp \in Live : sp # 2 /\ DiscardKeys(sp) /\ Rec([e |-> "dkeys", sp |-> sp])
    \/ /\ k = "dpkts"
       /\ \E sp \in Live : NextPn(sp) > 0 /\ DiscardPackets(sp) /\ Rec([e |-> "dpkts", sp |-> sp])
    \/ /\ k = "confirm"
       /\ UNCHANGED vars /\ Rec([e |-> "confirm"])

Can(k) ==
    CASE k = "send"  -> \E sp \in Live : NextPn(sp) <= MaxPn
      [] k = "skip"  -> \E sp \in Live : NextPn(sp) <= MaxPn /\ NextPn(sp) > 0
      [] k = "ack"   -> \E sp \in Live : NextPn(sp) > 0
      [] k = "dkeys" -> \E sp \in Live : sp # 2
      [] k = "dpkts" -> \E sp \in Live : NextPn(sp) > 0
      [] OTHER       -> TRUE

GNext ==
    /\ Len(hist) < GenDepth
    /\ IF ki = 0
       THEN /\ \E i \in 1..Len(Mix) : Can(Mix[i]) /\ ki' = i
            /\ UNCHANGED <<vars, hist>>
       ELSE /\ Op(Mix[ki]) /\ ki' = 0

GSpec == GInit /\ [][GNext]_gvars

Emit == Len(hist) < GenDepth \/ PrintT(<<"BEH", ToJson(hist)>>)
=============================================================================
