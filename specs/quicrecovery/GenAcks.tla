------------------------------ MODULE GenAcks ------------------------------
(* Scenario generator for C25: histories of the QuicAcks model (with the peer    *)
(* not assumed honest), exported as operation lists.  Only the operations are    *)
(* exported: the driver executes them on the real ackState / lossState, records  *)
(* what the real code answered, and TraceAcks.tla judges the record.             *)
(* Receive side: run breadth-first with VIEW gview - every reachable model state *)
(* (up to GenDepth operations) is visited once and the history that first        *)
(* reached it is exported.  Send side: run with -simulate.                        *)
EXTENDS QuicAcks, Json, TLC

CONSTANTS GenDepth,   \* longest history
          MinDepth    \* receive side (bfs): shortest history that is exported
VARIABLES hist, ki
gvars == <<vars, hist, ki>>
gview == <<viewNoGhost>>

\* send side (simulate mode): a step first picks the kind of operation, then its arguments
Mix == <<"send", "send", "send", "send", "skip", "good", "good", "good", "bad">>

GInit == Init /\ hist = <<>> /\ ki = 0

Rec(r) == hist' = Append(hist, r)

GRecv ==
    /\ \/ \E pn \in Nums : Arrive(pn) /\ Rec([e |-> "arrive", pn |-> pn])
       \/ \E L \in Nums : AckOfAck(L) /\ Rec([e |-> "ackofack", l |-> L])
       \/ \E el \in BOOLEAN : Receive(el) /\ Rec([e |-> "receive", el |-> el])
       \/ BuildAck /\ Rec([e |-> "ack"])
    /\ UNCHANGED <<svars, ki>>

GSend ==
    /\ IF ki = 0
       THEN /\ ki' \in 1..Len(Mix)
            /\ UNCHANGED <<svars, hist>>
       ELSE /\ ki' = 0
            /\ \/ Mix[ki] = "send" /\ next <= MaxPn /\ Send /\ Rec([e |-> "send"])
               \/ Mix[ki] = "skip" /\ next <= MaxPn /\ Skip /\ Rec([e |-> "skip"])
               \/ /\ Mix[ki] \in {"good", "bad"}
                  /\ Mix[ki] = "bad" => Len(hist) >= 5
                  /\ \E rs \in AckFrames : /\ BadAck(rs) <=> (Mix[ki] = "bad")
                                           /\ PeerAck(rs) /\ Rec([e |-> "peerack", rs |-> rs])
               \/ /\ \/ (Mix[ki] \in {"send", "skip"} /\ next > MaxPn)          \* nothing to do
                     \/ (Mix[ki] = "good" /\ next = 0)
                     \/ (Mix[ki] = "bad" /\ Len(hist) < 5)
                  /\ UNCHANGED <<svars, hist>>
    /\ UNCHANGED rvars

GNext == /\ Len(hist) < GenDepth /\ ~closed
         /\ \/ (mode \in {"recv", "both"} /\ GRecv)
            \/ (mode \in {"send", "both"} /\ GSend)
         /\ UNCHANGED mode

GSpec == GInit /\ [][GNext]_gvars

\* receive side (bfs with VIEW): the history that first reached a model state is exported
\* for every state at depth >= MinDepth; send side (simulate): a history is complete at
\* GenDepth operations or when the connection was closed.
Emit == \/ (mode = "recv" /\ Len(hist) < MinDepth)
        \/ (mode # "recv" /\ Len(hist) < GenDepth /\ ~closed)
        \/ PrintT(<<"BEH", ToJson(hist)>>)
=============================================================================
