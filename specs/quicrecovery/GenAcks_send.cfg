SPECIFICATION GSpec
CONSTANTS
  MaxPn = 5
  MaxRanges = 3
  Honest = FALSE
  Side = "send"
  GenDepth = 12
  MinDepth = 6
INVARIANT Emit
CHECK_DEADLOCK FALSE
