# Signatures for the quicrecovery family: name the class of failing scenario, so that a known
# finding does not hide a different violation of the same property.
import hashlib
import json
import re


def _h(x):
    return hashlib.sha1(json.dumps(x, sort_keys=True).encode()).hexdigest()[:10]


def _inv(what):
    m = re.search(r"invariant (\w+) violated", what or "")
    return m.group(1) if m else None


def signature(prop, kind, scenario, detail):
    if kind != "trace" or not isinstance(scenario, dict):
        return None
    lines = scenario.get("lines") or []
    if not lines:
        return None
    what = detail.get("what", "")
    inv = _inv(what)
    last = lines[-1]
    if inv is None:
        # no spec step matches the line (panic / hang / ill-formed event)
        return "%s;unmatched;%s;%s" % (prop, last.get("e"), _h([x.get("e") for x in lines[-6:]]))
    if prop == "C25":
        if inv == "BadAckRejected" and last.get("e") == "peerack":
            nxt, skipped = 0, set()
            for ln in lines[:-1]:
                if ln.get("e") == "send":
                    nxt += 1
                elif ln.get("e") == "skip":
                    skipped.add(ln["pn"])
                    nxt += 1
            named = set()
            unsent = False
            for lo, hi in last.get("rs", []):
                if hi > nxt:
                    unsent = True
                named.update(n for n in skipped if lo <= n < hi)
            head = last.get("head", 0)
            if unsent:
                return "C25;peer-ack-accepted;names-never-sent-number"
            if named and all(n < head for n in named):
                # every skipped number named by the frame had already left the sent-packet list
                return "C25;peer-ack-accepted;skipped-number-below-oldest-tracked-packet"
            return "C25;peer-ack-accepted;skipped-number-still-tracked"
        if inv == "NoDoubleProcess" and last.get("e") == "arrive":
            pn = last.get("pn")
            for ln in lines[:-1]:
                # an ack-of-ack for a Largest Acknowledged above the packet being processed
                if ln.get("e") == "ackofack" and ln.get("l", -1) > ln.get("inp", 1 << 62) and ln["inp"] < pn < ln["l"]:
                    return "C25;double-process;after-ack-of-ack-above-packet-in-progress"
            return "C25;double-process;no-out-of-order-ack-of-ack;%s" % _h(lines[-8:])
        return "C25;%s;%s" % (inv, last.get("e"))
    if prop == "C26":
        return "C26;%s;%s;%s" % (inv, last.get("e"), last.get("k", last.get("op", last.get("f", ""))))
    return None
