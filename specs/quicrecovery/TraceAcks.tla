----------------------------- MODULE TraceAcks -----------------------------
(* Trace validation for C25.  A trace is what the in-package driver did to one   *)
(* real ackState (arrive / ackofack / receive / ack) and one real lossState      *)
(* (send / skip / peerack), with every answer of the real code.  The ghosts of   *)
(* QuicAcks are advanced with the real answers; the cfg checks NoDoubleProcess,  *)
(* AckOnlyReceived and BadAckRejected in every state.  The algorithm variables   *)
(* of the model (seen, pend) are not used: the real code stands in for them.     *)
EXTENDS QuicAcks, TraceIO

VARIABLES cur, l
tvars == <<vars, cur, l>>

Line == Trace[l]

TInit ==
    \E t \in 1..NT :
       LET h == Trace[Meta.starts[t]] IN
       /\ cur = t /\ l = Meta.starts[t] + 1
       /\ h.e = "hdr"
       /\ Init

Alg == UNCHANGED <<seen, pend>>

TArrive   == Line.e = "arrive" /\ Line.pn >= 0 /\ ArriveWith(Line.pn, Line.ok) /\ Alg /\ UNCHANGED svars
TAckOfAck == Line.e = "ackofack" /\ AckOfAckGhost(Line.l) /\ Alg /\ UNCHANGED svars
TReceive  == Line.e = "receive" /\ Line.pn = inp /\ ReceiveGhost /\ Alg /\ UNCHANGED svars
\* the ACK frame as parsed back from the wire: a list of [lo, hi) ranges, possibly empty
TAck      == Line.e = "ack" /\ (\A i \in 1..Len(Line.rs) : Line.rs[i][1] < Line.rs[i][2])
             /\ BuildAckWith(RangeNums(Line.rs)) /\ Alg /\ UNCHANGED svars

TSend     == Line.e = "send" /\ Line.pn = next /\ Send /\ UNCHANGED rvars
TSkip     == Line.e = "skip" /\ Line.pn = next /\ Skip /\ UNCHANGED rvars
TPeerAck  == Line.e = "peerack" /\ WellFormed(Line.rs) /\ PeerAckWith(Line.rs, Line.rej) /\ UNCHANGED rvars

\* a trace is not followed beyond a violation (one report per trace)
TNext ==
    /\ l <= Meta.ends[cur] /\ UNCHANGED mode
    /\ NoDoubleProcess /\ AckOnlyReceived /\ BadAckRejected
    /\ l' = l + 1 /\ cur' = cur
    /\ (TArrive \/ TAckOfAck \/ TReceive \/ TAck \/ TSend \/ TSkip \/ TPeerAck)

TSpec == TInit /\ [][TNext]_tvars

Mark == HighWater(cur, l)
=============================================================================
