SPECIFICATION TSpec
CONSTANTS
  MaxPn = 0
  MaxRanges = 0
  Honest = FALSE
  Side = "both"
INVARIANTS NoDoubleProcess AckOnlyReceived BadAckRejected
CONSTRAINT Mark
POSTCONDITION AllConsumed
CHECK_DEADLOCK FALSE
