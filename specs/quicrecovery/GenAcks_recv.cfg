SPECIFICATION GSpec
CONSTANTS
  MaxPn = 5
  MaxRanges = 3
  Honest = FALSE
  Side = "recv"
  GenDepth = 12
  MinDepth = 6
INVARIANT Emit
VIEW gview
CHECK_DEADLOCK FALSE
