SPECIFICATION TSpec
CONSTANTS
  Spaces = {0, 1, 2}
  MaxPn = 0
  Sizes = {}
  Wnds = {}
INVARIANTS OneFate BifExact ObsBif ObsNonNeg CwndMin
CONSTRAINT Mark
POSTCONDITION AllConsumed
CHECK_DEADLOCK FALSE
