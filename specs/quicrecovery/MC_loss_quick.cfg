SPECIFICATION Spec
CONSTANTS
  Spaces = {0, 2}
  MaxPn = 1
  Sizes = {3}
  Wnds = {0, 1}
INVARIANTS TypeOK OneFate BifExact BifNonNeg CwndMin GoneResolved
PROPERTIES FateFinal
CHECK_DEADLOCK FALSE
