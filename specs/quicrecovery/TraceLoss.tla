----------------------------- MODULE TraceLoss -----------------------------
(* Trace validation for C26.  The driver calls the real lossState (packetSent,   *)
(* skipNumber, receiveAckStart/Range/End, advance, discardKeys, discardPackets,  *)
(* ...) with explicit times.  Every ackf/lossf callback is a "fate" line; every  *)
(* call ends with a line that carries cc.bytesInFlight, cc.congestionWindow and  *)
(* cc.minimumCongestionWindow() as read after the call.  The accounting of       *)
(* QuicLoss is advanced with the reported fates; the observed counters are put   *)
(* next to it and the cfg checks in every state:                                  *)
(*   OneFate, BifExact (model accounting), ObsBif (observed = in-flight packets  *)
(*   without a fate), ObsNonNeg, CwndMin (observed window >= observed minimum).  *)
EXTENDS QuicLoss, TraceIO

VARIABLES cur, l, obif, sync      \* sync: obif was read after the last line (call boundary)
tvars == <<vars, cur, l, obif, sync>>

Line == Trace[l]

TInit ==
    \E t \in 1..NT :
       LET h == Trace[Meta.starts[t]] IN
       /\ cur = t /\ l = Meta.starts[t] + 1
       /\ h.e = "hdr"
       /\ InitWith(h.cwnd, h.minw)
       /\ obif = h.bif /\ sync = TRUE

\* counters read after the call returned
Observe == /\ obif' = Line.bif /\ cwnd' = Line.cwnd /\ minw' = Line.minw /\ sync' = TRUE
Quiet   == UNCHANGED <<pk, gone, bif, dup>>

TSend == /\ Line.e = "send" /\ Line.sp \in Spaces /\ Line.pn = NextPn(Line.sp) /\ Line.size >= 0
         /\ pk' = [pk EXCEPT ![Line.sp] = Append(@, [size |-> Line.size, inf |-> Line.inf, fate |-> "none"])]
         /\ Line.sp \notin gone
         /\ bif' = bif + (IF Line.inf THEN Line.size ELSE 0)
         /\ UNCHANGED <<gone, dup>> /\ Observe

TSkip == /\ Line.e = "skip" /\ Line.sp \in Spaces /\ Line.pn = NextPn(Line.sp) /\ Line.sp \notin gone
         /\ pk' = [pk EXCEPT ![Line.sp] = Append(@, [size |-> 0, inf |-> FALSE, fate |-> "skipped"])]
         /\ UNCHANGED <<gone, bif, dup>> /\ Observe

\* an ackf / lossf callback: (space, number, fate) and the size of the packet handed over
TFate == /\ Line.e = "fate"
         /\ ResolveWith(Line.sp, Line.pn, Line.f)
         /\ Line.size = P(Line.sp, Line.pn).size
         /\ obif' = obif /\ sync' = FALSE

\* calls that change no fate by themselves (fates they cause were reported just before)
TCall == /\ Line.e \in {"ackrange", "ackend", "advance", "dpkts", "misc"}
         /\ Quiet /\ Observe

TDKeys == /\ Line.e = "dkeys" /\ Line.sp \in Spaces /\ Line.sp \notin gone
          /\ pk' = [pk EXCEPT ![Line.sp] = AllTo(@, "discarded")]
          /\ bif' = bif - Unresolved(Line.sp)
          /\ gone' = gone \cup {Line.sp}
          /\ dup' = dup /\ Observe

\* Observed bytes in flight = sizes of the in-flight packets without a fate.  The model's own
\* bif is kept equal to that sum by construction (BifExact: checked exhaustively on QuicLoss and
\* again here in every state), so the comparison with the observation uses bif.
ObsBif    == sync => obif = bif
ObsNonNeg == obif >= 0

\* a trace is not followed beyond a violation (one report per trace)
TNext ==
    /\ l <= Meta.ends[cur]
    /\ OneFate /\ ObsBif /\ ObsNonNeg /\ CwndMin
    /\ l' = l + 1 /\ cur' = cur
    /\ (TSend \/ TSkip \/ TFate \/ TCall \/ TDKeys)

TSpec == TInit /\ [][TNext]_tvars

Mark == HighWater(cur, l)
=============================================================================
