SPECIFICATION Spec
CONSTANTS
  MaxPn = 7
  MaxRanges = 3
  Honest = TRUE
  Side = "either"
INVARIANTS TypeOK NoDoubleProcess AckOnlyReceived Refuses BadAckRejected ClosedForCause
CHECK_DEADLOCK FALSE
