------------------------------ MODULE QuicLoss ------------------------------
(* C26 - QUIC loss recovery accounts for every sent packet exactly once.          *)
(*                                                                                *)
(* This is the accounting the property states, nothing more: per number space a   *)
(* list of packet records (index = packet number + 1)                             *)
(*     [size, inf (counts towards bytes in flight), fate]                         *)
(* with fate in {"none", "acked", "lost", "discarded", "skipped"}; "skipped" is a *)
(* number that was never sent (optimistic-ACK defence) and can have no fate.      *)
(* bif is bytes in flight, cwnd / minw the congestion window and its minimum.     *)
(* WHICH unresolved packet is acknowledged or declared lost, and WHEN, is left    *)
(* completely free (loss timing, packet/time thresholds, PTO, RTT are tuning);    *)
(* so is the evolution of cwnd above minw.                                        *)
(*                                                                                *)
(* ResolveWith / Observe are the forms used by TraceLoss.tla: the real code's     *)
(* ackf/lossf callbacks and counters are fed in, and the invariants below judge.  *)
EXTENDS Integers, Sequences, FiniteSets

CONSTANTS Spaces,     \* number spaces (0 initial, 1 handshake, 2 application data)
          MaxPn,      \* model bound: packet numbers 0..MaxPn per space
          Sizes,      \* model bound: packet sizes
          Wnds        \* model bound: offsets of cwnd above minw that are explored

VARIABLES pk,         \* [Spaces -> Seq(record)]
          gone,       \* spaces whose keys have been discarded
          bif, cwnd, minw,
          dup         \* a packet was given a second fate

vars == <<pk, gone, bif, cwnd, minw, dup>>

Fates == {"none", "acked", "lost", "discarded", "skipped"}

RECURSIVE SumFrom(_, _)
\* sum of the sizes of in-flight packets without a fate in s[i..]
SumFrom(s, i) == IF i > Len(s) THEN 0
                 ELSE (IF s[i].inf /\ s[i].fate = "none" THEN s[i].size ELSE 0) + SumFrom(s, i + 1)
Unresolved(sp) == SumFrom(pk[sp], 1)

RECURSIVE SumSpaces(_)
SumSpaces(S) == IF S = {} THEN 0 ELSE LET sp == CHOOSE x \in S : TRUE IN Unresolved(sp) + SumSpaces(S \ {sp})
InFlightTotal == SumSpaces(Spaces)

Known(sp, pn) == sp \in Spaces /\ pn >= 0 /\ pn < Len(pk[sp])
P(sp, pn)     == pk[sp][pn + 1]
NextPn(sp)    == Len(pk[sp])

------------------------------------------------------------------------------

Send(sp, size, inf) ==
    /\ sp \in Spaces /\ sp \notin gone
    /\ pk' = [pk EXCEPT ![sp] = Append(@, [size |-> size, inf |-> inf, fate |-> "none"])]
    /\ bif' = bif + (IF inf THEN size ELSE 0)
    /\ UNCHANGED <<gone, cwnd, minw, dup>>

Skip(sp) ==
    /\ sp \in Spaces /\ sp \notin gone
    /\ pk' = [pk EXCEPT ![sp] = Append(@, [size |-> 0, inf |-> FALSE, fate |-> "skipped"])]
    /\ UNCHANGED <<gone, bif, cwnd, minw, dup>>

\* the implementation reports fate f for packet (sp, pn)
ResolveWith(sp, pn, f) ==
    /\ Known(sp, pn) /\ f \in {"acked", "lost"}
    /\ P(sp, pn).fate # "skipped"                    \* a number that was never sent has no fate
    /\ IF P(sp, pn).fate = "none"
       THEN /\ pk' = [pk EXCEPT ![sp][pn + 1].fate = f]
            /\ bif' = bif - (IF P(sp, pn).inf THEN P(sp, pn).size ELSE 0)
            /\ dup' = dup
       ELSE /\ dup' = TRUE                           \* second fate: violation, state kept
            /\ UNCHANGED <<pk, bif>>
    /\ UNCHANGED <<gone, cwnd, minw>>

Resolve(sp, pn, f) == Known(sp, pn) /\ P(sp, pn).fate = "none" /\ ResolveWith(sp, pn, f)

AllTo(s, f) == [i \in 1..Len(s) |-> IF s[i].fate = "none" THEN [s[i] EXCEPT !.fate = f] ELSE s[i]]

\* dropping the keys of a space: whatever has no fate yet is discarded, all at once
DiscardKeys(sp) ==
    /\ sp \in Spaces /\ sp \notin gone
    /\ pk' = [pk EXCEPT ![sp] = AllTo(@, "discarded")]
    /\ bif' = bif - Unresolved(sp)
    /\ gone' = gone \cup {sp}
    /\ UNCHANGED <<cwnd, minw, dup>>

\* Retry: everything sent in the space is declared lost (model form; the real code
\* reports the packets one by one, which the trace sees as ResolveWith steps)
DiscardPackets(sp) ==
    /\ sp \in Spaces /\ sp \notin gone
    /\ pk' = [pk EXCEPT ![sp] = AllTo(@, "lost")]
    /\ bif' = bif - Unresolved(sp)
    /\ UNCHANGED <<gone, cwnd, minw, dup>>

\* end of an ack/loss batch: the window moves anywhere not below the minimum
BatchEnd(w) ==
    /\ w >= minw
    /\ cwnd' = w
    /\ UNCHANGED <<pk, gone, bif, minw, dup>>

------------------------------------------------------------------------------

InitWith(w, m) ==
    /\ pk = [sp \in Spaces |-> <<>>] /\ gone = {}
    /\ bif = 0 /\ cwnd = w /\ minw = m /\ dup = FALSE

Init == \E d \in Wnds : InitWith(2 + d, 2)      \* model minimum window = 2 units

Next ==
    \/ \E sp \in Spaces, z \in Sizes, inf \in BOOLEAN : NextPn(sp) <= MaxPn /\ Send(sp, z, inf)
    \/ \E sp \in Spaces : NextPn(sp) <= MaxPn /\ Skip(sp)
    \/ \E sp \in Spaces, pn \in 0..MaxPn, f \in {"acked", "lost"} : Resolve(sp, pn, f)
    \/ \E sp \in Spaces : DiscardKeys(sp)
    \/ \E sp \in Spaces : DiscardPackets(sp)
    \/ \E d \in Wnds : BatchEnd(minw + d)

Spec == Init /\ [][Next]_vars

------------------------------------------------------------------------------
(* what C26 states *)

OneFate    == ~dup                                   \* never a second fate (in particular never acked and lost)
BifExact   == bif = InFlightTotal                    \* bytes in flight = in-flight packets without a fate
BifNonNeg  == bif >= 0
CwndMin    == cwnd >= minw
\* a fate is final
FateFinal  == [][\A sp \in Spaces : \A i \in 1..Len(pk[sp]) :
                    pk[sp][i].fate # "none" => (Len(pk'[sp]) >= i /\ pk'[sp][i].fate = pk[sp][i].fate)]_vars
\* after the keys of a space are dropped nothing in it is left without a fate
GoneResolved == \A sp \in gone : \A i \in 1..Len(pk[sp]) : pk[sp][i].fate # "none"

TypeOK ==
    /\ \A sp \in Spaces : \A i \in 1..Len(pk[sp]) : pk[sp][i].fate \in Fates
    /\ gone \subseteq Spaces /\ dup \in BOOLEAN
=============================================================================
