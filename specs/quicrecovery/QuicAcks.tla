------------------------------ MODULE QuicAcks ------------------------------
(* C25 - QUIC acknowledges only received packets and never processes one twice;   *)
(* peer ACK frames for never-sent or skipped packet numbers are rejected.         *)
(*                                                                                *)
(* Two independent halves of one endpoint, for one packet number space:           *)
(*                                                                                *)
(*  receive side (quic/acks.go, conn_recv.go):                                    *)
(*    ghosts  arrived   - every number that arrived                               *)
(*            processed - every number for which "should I process it?" was yes   *)
(*            dbl       - a number was answered yes twice                          *)
(*            lastAck   - numbers named by the last ACK frame built               *)
(*            ackd      - Largest Acknowledged fields of the ACK frames sent      *)
(*    algorithm (what the model checker explores; the real code replaces it in    *)
(*    trace validation): seen = set of numbers with oldest-range pruning,         *)
(*    inp = packet between shouldProcess and receive (conn_recv handles the       *)
(*    frames in between, which is where an ack-of-ack lands), pend = an ACK is     *)
(*    owed.                                                                        *)
(*                                                                                *)
(*  send side (quic/loss.go receiveAckRange/skipNumber):                          *)
(*    next = next packet number, skipped = numbers deliberately not used,         *)
(*    closed = connection closed with PROTOCOL_VIOLATION,                          *)
(*    missed = an ACK frame naming a never-sent or skipped number was accepted.    *)
(*                                                                                *)
(* Every action has a "With" form taking the decision of the implementation as a  *)
(* parameter; the model instantiates it with the algorithm below, TraceAcks.tla   *)
(* with what the real code answered.                                              *)
EXTENDS Integers, FiniteSets, Sequences

CONSTANTS MaxPn,      \* packet numbers are 0..MaxPn in the model
          MaxRanges,  \* ACK range limit (maxAckRanges in acks.go)
          Honest,     \* TRUE: an ack-of-ack handled while packet pn is processed has L < pn
          Side        \* which half Next explores: "recv", "send", "either" (one of them,
                      \* chosen initially) or "both" (interleaved)

VARIABLES arrived, processed, dbl, lastAck, ackd,     \* receive side ghosts
          seen, inp, pend,                            \* receive side algorithm
          next, skipped, closed, missed,              \* send side
          mode                                        \* "recv", "send" or "both"

rvars == <<arrived, processed, dbl, lastAck, ackd, seen, inp, pend>>
svars == <<next, skipped, closed, missed>>
vars  == <<rvars, svars, mode>>

Nums == 0..MaxPn
None == 0 - 1

SetMin(S) == CHOOSE a \in S : \A b \in S : a <= b
SetMax(S) == CHOOSE a \in S : \A b \in S : a >= b

------------------------------------------------------------------------------
(* range arithmetic on sets of numbers *)

Starts(S)        == {n \in S : (n - 1) \notin S}
NumRanges(S)     == Cardinality(Starts(S))
RangeStart(S, n) == SetMax({a \in Starts(S) : a <= n})           \* n \in S

\* keep the MaxRanges highest ranges (receive drops the oldest ones)
Prune(S) ==
    IF NumRanges(S) <= MaxRanges THEN S
    ELSE LET k    == NumRanges(S) - MaxRanges
             from == CHOOSE a \in Starts(S) : Cardinality({b \in Starts(S) : b < a}) = k
         IN {n \in S : n >= from}

\* rangeset.min() of the empty set is 0
Floor(S) == IF S = {} THEN 0 ELSE SetMin(S)

ShouldProcess(pn) == pn >= Floor(seen) /\ pn \notin seen

\* numbers named by a list of [lo, hi) ranges (ACK frames are logged like that)
InRanges(rs, n) == \E i \in 1..Len(rs) : rs[i][1] <= n /\ n < rs[i][2]
RangeNums(rs)   == UNION {rs[i][1]..(rs[i][2] - 1) : i \in 1..Len(rs)}

------------------------------------------------------------------------------
(* receive side: ghost bookkeeping, parameterised by the implementation's answers *)

ArriveWith(pn, yes) ==
    /\ inp = None
    /\ arrived' = arrived \cup {pn}
    /\ processed' = IF yes THEN processed \cup {pn} ELSE processed
    /\ dbl' = (dbl \/ (yes /\ pn \in processed))
    /\ inp' = IF yes THEN pn ELSE None
    /\ UNCHANGED <<lastAck, ackd>>

\* an ACK of one of our packets that carried an ACK frame with Largest Acknowledged L
AckOfAckGhost(L) ==
    /\ inp # None
    /\ L \in ackd
    /\ UNCHANGED <<arrived, processed, dbl, lastAck, ackd, inp>>

ReceiveGhost ==
    /\ inp # None
    /\ inp' = None
    /\ UNCHANGED <<arrived, processed, dbl, lastAck, ackd>>

\* an ACK frame naming the set A of numbers goes out (A = {} : nothing to send)
BuildAckWith(A) ==
    /\ inp = None
    /\ lastAck' = A
    /\ ackd' = IF A = {} THEN ackd ELSE ackd \cup {SetMax(A)}
    /\ UNCHANGED <<arrived, processed, dbl, inp>>

(* receive side: the algorithm of acks.go *)

Arrive(pn) ==
    /\ ArriveWith(pn, ShouldProcess(pn))
    /\ UNCHANGED <<seen, pend>>

AckOfAck(L) ==
    /\ AckOfAckGhost(L)
    /\ Honest => L < inp
    /\ seen' = IF L \in seen THEN {n \in seen : n >= RangeStart(seen, L)} ELSE seen
    /\ UNCHANGED pend

Receive(el) ==
    /\ ReceiveGhost
    /\ seen' = Prune(seen \cup {inp})
    /\ pend' = (pend \/ el)

BuildAck ==
    /\ pend
    /\ BuildAckWith(seen)
    /\ pend' = FALSE
    /\ UNCHANGED seen

------------------------------------------------------------------------------
(* send side *)

Send == /\ ~closed
        /\ next' = next + 1
        /\ UNCHANGED <<skipped, closed, missed>>

Skip == /\ ~closed
        /\ skipped' = skipped \cup {next}
        /\ next' = next + 1
        /\ UNCHANGED <<closed, missed>>

\* the ACK frame rs names a packet number that was never sent
BadAck(rs) == \E i \in 1..Len(rs) :
                 \/ rs[i][2] > next
                 \/ \E n \in skipped : rs[i][1] <= n /\ n < rs[i][2]

\* rejected = the implementation answered PROTOCOL_VIOLATION
PeerAckWith(rs, rejected) ==
    /\ ~closed
    /\ missed' = (missed \/ (BadAck(rs) /\ ~rejected))
    /\ closed' = rejected
    /\ UNCHANGED <<next, skipped>>

AckFrames == {<<r>> : r \in {<<a, b>> : a \in Nums, b \in 1..(MaxPn + 2)}}
             \cup {<<r1, r2>> : r1 \in {<<a, b>> : a \in 2..MaxPn, b \in 3..(MaxPn + 2)},
                                r2 \in {<<a, b>> : a \in Nums, b \in Nums}}
WellFormed(rs) == /\ \A i \in 1..Len(rs) : rs[i][1] < rs[i][2]
                  /\ \A i \in 1..(Len(rs) - 1) : rs[i + 1][2] < rs[i][1]   \* descending, with a gap

PeerAck(rs) == WellFormed(rs) /\ PeerAckWith(rs, BadAck(rs))

------------------------------------------------------------------------------

Init ==
    /\ arrived = {} /\ processed = {} /\ dbl = FALSE /\ lastAck = {} /\ ackd = {}
    /\ seen = {} /\ inp = None /\ pend = FALSE
    /\ next = 0 /\ skipped = {} /\ closed = FALSE /\ missed = FALSE
    /\ mode \in (IF Side = "either" THEN {"recv", "send"} ELSE {Side})

RecvNext ==
    /\ \/ \E pn \in Nums : Arrive(pn)
       \/ \E L \in Nums : AckOfAck(L)
       \/ \E el \in BOOLEAN : Receive(el)
       \/ BuildAck
    /\ UNCHANGED svars

SendNext ==
    /\ \/ (next <= MaxPn /\ (Send \/ Skip))
       \/ \E rs \in AckFrames : PeerAck(rs)
    /\ UNCHANGED rvars

Next == /\ \/ (mode \in {"recv", "both"} /\ RecvNext)
           \/ (mode \in {"send", "both"} /\ SendNext)
        /\ UNCHANGED mode

Spec == Init /\ [][Next]_vars

------------------------------------------------------------------------------
(* what C25 states *)

NoDoubleProcess == ~dbl                         \* no number is processed twice
AckOnlyReceived == lastAck \subseteq arrived    \* an ACK names only numbers that arrived
BadAckRejected  == ~missed                      \* ACK of a never-sent / skipped number => PROTOCOL_VIOLATION

(* design-level facts about the algorithm, checked on the model only *)
TypeOK ==
    /\ arrived \subseteq Nums /\ processed \subseteq arrived /\ seen \subseteq processed
    /\ inp \in Nums \cup {None} /\ ackd \subseteq Nums /\ lastAck \subseteq Nums
    /\ next \in 0..(MaxPn + 1) /\ skipped \subseteq 0..(next - 1)
    /\ NumRanges(seen) <= MaxRanges
\* between packets, nothing already processed would be accepted again
Refuses == inp = None => \A pn \in processed : ~ShouldProcess(pn)
\* rejection happens only for a reason (the model never closes a connection on a valid ACK)
ClosedForCause == closed => ~missed

\* the ghost variable arrived does not influence behaviour
viewNoGhost == <<processed, dbl, lastAck, ackd, seen, inp, pend, next, skipped, closed, missed, mode>>
=============================================================================
