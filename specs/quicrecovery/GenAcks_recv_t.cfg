SPECIFICATION GSpec
CONSTANTS
  MaxPn = 6
  MaxRanges = 3
  Honest = FALSE
  Side = "recv"
  GenDepth = 14
  MinDepth = 8
INVARIANT Emit
VIEW gview
CHECK_DEADLOCK FALSE
