------------------------------- MODULE Trace -------------------------------
(* Trace validation for memLS: every recorded call of the real lock system must be  *)
(* a step of MemLS with the logged result, and the white-box read of byToken /       *)
(* byName / byExpiry logged after the call must be what the specification derives    *)
(* from its lock set.  Times and durations are logged in abstract units (the driver  *)
(* maps k to base + k*unit); tokens are logged as the index of the real token string *)
(* in order of first issue (0 = a string no Create ever returned).                   *)
EXTENDS MC, TraceIO

VARIABLES cur, l
tvars == <<st, res, cur, l>>

Line == Trace[l]

SetOf(s) == {s[i] : i \in 1..Len(s)}

TInit ==
    \E t \in 1..NT :
       /\ cur = t /\ l = Meta.starts[t] + 1
       /\ Trace[Meta.starts[t]].e = "hdr"
       /\ Init

CallOf(L) ==
    CASE L.e = "create"  -> [op |-> "create", t |-> L.at, root |-> L.root, zd |-> L.zd, dur |-> L.dur]
      [] L.e = "refresh" -> [op |-> "refresh", t |-> L.at, tok |-> L.tok, dur |-> L.dur]
      [] L.e = "unlock"  -> [op |-> "unlock", t |-> L.at, tok |-> L.tok]
      [] L.e = "confirm" -> [op |-> "confirm", t |-> L.at, ns |-> L.ns, conds |-> SetOf(L.conds)]
      [] L.e = "release" -> [op |-> "release", h |-> L.h]

\* the logged result is the one the specification predicts
OutMatches(o, L) ==
    /\ o.err = L.err
    /\ L.e = "create"  => o.tok = L.rtok
    /\ L.e = "confirm" => o.h = L.rh
    /\ (L.e = "refresh" /\ o.err = "") => (o.root = L.rroot /\ o.zd = L.rzd /\ o.dur = L.rdur)

Prefixes(n) == {SubSeq(n, 1, i) : i \in 0..Len(n)}
TableNames(L) == UNION {Prefixes(L[k].root) : k \in DOMAIN L}

\* white-box read after the call: wb.locks (byToken), wb.names (byName), wb.heap (byExpiry, in array order)
WBMatches(S, wb) ==
    LET L == S.locks
        E == SetOf(wb.locks)
        H == wb.heap
        ExpOf(k) == L[k].exp IN
    /\ Len(wb.locks) = Cardinality(DOMAIN L)
    /\ {[k |-> e.k, root |-> e.root, zd |-> e.zd, held |-> e.held, exp |-> e.exp] : e \in E}
         = {[k |-> k, root |-> L[k].root, zd |-> L[k].zd, held |-> L[k].held, exp |-> L[k].exp] : k \in DOMAIN L}
    /\ SetOf(wb.names) = {[n |-> n, rc |-> RefCount(L, n), tok |-> TokenAt(L, n)] : n \in TableNames(L)}
    /\ Len(wb.names) = Cardinality(TableNames(L))
    \* byExpiry holds exactly the unheld locks with a finite expiry, once each, in heap order,
    \* and every node knows its index
    /\ SetOf(H) = {k \in DOMAIN L : ~L[k].held /\ L[k].exp # Inf}
    /\ Len(H) = Cardinality(SetOf(H))
    /\ \A i \in 2..Len(H) : ExpOf(H[i \div 2]) <= ExpOf(H[i])
    /\ \A e \in E : IF e.k \in SetOf(H) THEN e.bi >= 0 /\ e.bi < Len(H) /\ H[e.bi + 1] = e.k
                                        ELSE e.bi = 0 - 1

TStep ==
    /\ Line.e \in {"create", "refresh", "unlock", "confirm", "release"}
    /\ LET c == CallOf(Line) IN
       /\ Legal(st, c)
       /\ \E r \in Do(st, c) :
            /\ OutMatches(r.out, Line)
            /\ WBMatches(r.st, Line.wb)
            /\ st' = r.st
            /\ res' = [call |-> c, out |-> r.out]

TNext ==
    /\ l <= Meta.ends[cur]
    /\ l' = l + 1 /\ cur' = cur
    /\ TStep

TSpec == TInit /\ [][TNext]_tvars

Mark == HighWater(cur, l)
=============================================================================
