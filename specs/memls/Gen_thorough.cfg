SPECIFICATION GSpec
CONSTANTS
  Names <- NamesQ
  Times = {0, 1, 2}
  Durs <- DursQ
  MaxTok = 2
  MaxHolds = 1
  MaxConds = 1
  Monotone = TRUE
  GenDepth = 0
INVARIANT EmitState
CHECK_DEADLOCK FALSE
VIEW view
