SPECIFICATION TSpec
CONSTANTS
  Names = {}
  Times = {}
  Durs = {}
  MaxTok = 0
  MaxHolds = 0
  MaxConds = 0
  Monotone = FALSE
INVARIANTS MutualExclusion HeldConsistent
CONSTRAINT Mark
POSTCONDITION AllConsumed
CHECK_DEADLOCK FALSE
