SPECIFICATION Spec
CONSTANTS
  Names <- NamesT
  Times = {0, 1, 2}
  Durs <- DursQ
  MaxTok = 2
  MaxHolds = 2
  MaxConds = 2
  Monotone = TRUE
INVARIANTS TypeOK MutualExclusion MutualExclusionNames HeldConsistent WalkIsOverlap ConfirmDeterministic
PROPERTIES CreateIff TokensUnique ExpiredIsDead HeldIsExclusive OnlyReleaseUnholds
CHECK_DEADLOCK FALSE
VIEW view
