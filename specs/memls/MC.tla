--------------------------------- MODULE MC ---------------------------------
(* Constants for exhaustive checking of MemLS (names are sequences, which a .cfg *)
(* file cannot write).                                                           *)
EXTENDS MemLS

\* "/", "/a", "/a/b", "/ab" (a sibling sharing a string prefix with /a), "/a/b/c", "/d"
NamesQ == {<<>>, <<"a">>, <<"a", "b">>, <<"ab">>}
NamesT == {<<>>, <<"a">>, <<"a", "b">>, <<"a", "b", "c">>, <<"ab">>, <<"d">>}
DursQ  == {0, 1, Inf}
DursS  == {1, Inf}
DursZ  == {0, Inf}
DursT  == {0, 1, 3, Inf}
=============================================================================
