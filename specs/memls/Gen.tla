-------------------------------- MODULE Gen --------------------------------
(* Behaviour generator for MemLS.  Two uses:                                        *)
(*  - BFS (Gen_*.cfg with INVARIANT EmitState, VIEW view): every distinct state of   *)
(*    the bounded graph is printed once, with a shortest history leading to it (pre) *)
(*    and ALL its outgoing edges with the predicted outcome and next state - so the  *)
(*    driver replays every edge of the graph on the real memLS;                      *)
(*  - simulation (SPECIFICATION SSpec): long random histories with predictions.      *)
EXTENDS MC, Json

CONSTANT GenDepth
VARIABLE hist
gvars == <<st, res, hist>>

Prefixes(n) == {SubSeq(n, 1, i) : i \in 0..Len(n)}
TableNames(L) == UNION {Prefixes(L[k].root) : k \in DOMAIN L}

\* what the driver can read back from the real object: byToken, byName, byExpiry
Proj(S) ==
    LET L == S.locks IN
    [locks |-> {[k |-> k, root |-> L[k].root, zd |-> L[k].zd, held |-> L[k].held, exp |-> L[k].exp] : k \in DOMAIN L},
     names |-> {[n |-> n, rc |-> RefCount(L, n), tok |-> TokenAt(L, n)] : n \in TableNames(L)},
     heap  |-> {k \in DOMAIN L : ~L[k].held /\ L[k].exp # Inf}]

\* The real object has no clock of its own: an edge that only moves the model's clock leaves
\* it unchanged ("same"), so the driver can apply the next edge to the same object.
SameObj(A, B) == A.locks = B.locks /\ A.holds = B.holds /\ A.nextTok = B.nextTok
Edges(S) ==
    UNION {{[call |-> c, out |-> r.out, same |-> SameObj(r.st, S),
             proj |-> IF SameObj(r.st, S) THEN [same |-> TRUE] ELSE Proj(r.st)] : r \in Do(S, c)} : c \in Calls(S)}

GInit == Init /\ hist = <<>>
GNext == /\ Next
         /\ hist' = Append(hist, [call |-> res'.call, out |-> res'.out, same |-> FALSE, proj |-> Proj(st')])
GSpec == GInit /\ [][GNext]_gvars

EmitState == PrintT(<<"BEH", ToJson([pre |-> hist, edges |-> Edges(st)])>>)

\* Simulation: one random call per step (so that TLC does not enumerate every successor),
\* the history is printed once when it reaches GenDepth.
RE(C) == RandomElement(C)
RandCall(kind) ==
    LET T == CallTimes(st) IN
    CASE kind = 1 -> [op |-> "create", t |-> RE(T), root |-> RE(Names), zd |-> RE(BOOLEAN), dur |-> RE(Durs)]
      [] kind = 2 -> [op |-> "refresh", t |-> RE(T), tok |-> RE(Toks), dur |-> RE(Durs)]
      [] kind = 3 -> [op |-> "unlock", t |-> RE(T), tok |-> RE(Toks)]
      [] kind = 4 -> [op |-> "confirm", t |-> RE(T), ns |-> RE(NameSeqs), conds |-> RE(CondSets)]
      [] kind = 5 -> [op |-> "release", h |-> RE(DOMAIN st.holds \cup {0})]
SNext ==
    IF Len(hist) >= GenDepth
    THEN PrintT(<<"BEH", ToJson([pre |-> hist, edges |-> {}])>>) /\ UNCHANGED gvars
    ELSE /\ \E kind \in 1..5 :
              \E c \in {RandCall(kind)} :         \* bound once (a LET would draw again at every use)
              /\ kind = 1 => st.nextTok <= MaxTok
              /\ kind = 4 => Cardinality(DOMAIN st.holds) < MaxHolds
              /\ kind = 5 => c.h # 0
              /\ Step(c)
         /\ hist' = Append(hist, [call |-> res'.call, out |-> res'.out, same |-> FALSE, proj |-> Proj(st')])
SSpec == GInit /\ [][SNext]_gvars
=============================================================================
