SPECIFICATION Spec
CONSTANTS
  Names <- NamesQ
  Times = {0, 1, 2}
  Durs <- DursQ
  MaxTok = 3
  MaxHolds = 1
  MaxConds = 1
  Monotone = TRUE
INVARIANTS TypeOK MutualExclusion MutualExclusionNames HeldConsistent WalkIsOverlap ConfirmDeterministic
PROPERTIES CreateIff TokensUnique ExpiredIsDead HeldIsExclusive OnlyReleaseUnholds
CHECK_DEADLOCK FALSE
VIEW view
