------------------------------- MODULE MemLS -------------------------------
(* C43 - the WebDAV in-memory lock system (webdav/lock.go, memLS) as the property  *)
(* describes it: a set of locks over a tree of resource names, a clock carried by   *)
(* every API call, Create / Refresh / Unlock / Confirm and the release closure.     *)
(*                                                                                  *)
(* A resource name is a sequence of path segments (<<>> is "/").  A lock covers its *)
(* root and, unless it has zero depth, every descendant of the root.  Every API     *)
(* call first forgets the unheld locks whose expiry is <= the call's clock value.   *)
(* A lock confirmed by Confirm is "held" until the returned release is called: it   *)
(* does not expire and rejects Confirm / Refresh / Unlock meanwhile.                *)
(*                                                                                  *)
(* The specification is written functionally: Do(S, c) is the set of possible       *)
(* [st, out] results of call c in state S.  The same operator serves exhaustive     *)
(* checking (MC_*.cfg), generation of behaviours with predicted results (Gen.tla)   *)
(* and validation of recorded traces (Trace.tla).                                   *)
EXTENDS Integers, Sequences, FiniteSets, TLC

CONSTANTS Names,      \* finite set of resource names used as arguments (model checking)
          Times,      \* clock values a call may carry (model checking)
          Durs,       \* lock durations, Inf included or not (model checking)
          MaxTok,     \* at most MaxTok tokens are ever issued (model checking)
          MaxHolds,   \* at most MaxHolds Confirm results outstanding (model checking)
          MaxConds,   \* at most MaxConds tokens in a Confirm condition list (model checking)
          Monotone    \* TRUE: clock values never decrease from call to call

Inf == 0 - 1           \* infinite duration / no expiry

VARIABLES st,         \* [locks, nextTok, holds, clock]
          res         \* [call |-> ..., out |-> ...] of the latest step

\* st.locks   : token -> [root, zd, exp, held]   (the live locks)
\* st.nextTok : next token to issue; tokens are never reused
\* st.holds   : release handle -> set of tokens held through it
\* st.clock   : clock value of the latest API call

vars == <<st, res>>
view == st                \* the outcome of the last call is not part of the state

-----------------------------------------------------------------------------
(* Names and coverage *)

IsPrefix(a, b) == Len(a) <= Len(b) /\ SubSeq(b, 1, Len(a)) = a

\* the resources a lock with this root and depth covers
Covers(root, zd, n) == n = root \/ (~zd /\ IsPrefix(root, n))

\* two locks conflict when some resource is covered by both.  An overlap, if any, always
\* contains one of the two roots, so it is enough to look at those (MutualExclusionNames
\* below re-states the invariant over every name of the universe).
Overlap(r1, z1, r2, z2) == \E n \in {r1, r2} : Covers(r1, z1, n) /\ Covers(r2, z2, n)

Expired(l, t) == ~l.held /\ l.exp # Inf /\ l.exp <= t

\* what every API call does first
Collect(L, t) == [k \in {j \in DOMAIN L : ~Expired(L[j], t)} |-> L[k]]

Restrict(f, S) == [x \in S |-> f[x]]

FreeHandle(H) == CHOOSE h \in 1..(Cardinality(DOMAIN H) + 1) : h \notin DOMAIN H

Expiry(t, dur) == IF dur < 0 THEN Inf ELSE t + dur

-----------------------------------------------------------------------------
(* The refcounted name table of the implementation (anchor: canCreate / create /   *)
(* remove / walkToRoot), derived from the lock set.  Checked against Overlap below *)
(* and compared with the real byName table by the driver.                          *)

RefCount(L, n) == Cardinality({k \in DOMAIN L : IsPrefix(n, L[k].root)})
TokenAt(L, n)  == IF \E k \in DOMAIN L : L[k].root = n
                  THEN CHOOSE k \in DOMAIN L : L[k].root = n ELSE 0
Ancestors(n)   == {SubSeq(n, 1, i) : i \in 0..(Len(n) - 1)}      \* strict

\* transcription of memLS.canCreate over the derived table
CanCreateWalk(L, root, zd) ==
    /\ RefCount(L, root) = 0 \/ (TokenAt(L, root) = 0 /\ zd)
    /\ \A a \in Ancestors(root) : TokenAt(L, a) = 0 \/ L[TokenAt(L, a)].zd

-----------------------------------------------------------------------------
(* The calls.  c is a record with field op and the arguments; each operator returns *)
(* the set of possible [st, out].                                                   *)

DoCreate(S, c) ==
    LET L == Collect(S.locks, c.t) IN
    IF \E k \in DOMAIN L : Overlap(L[k].root, L[k].zd, c.root, c.zd)
    THEN {[st |-> [S EXCEPT !.locks = L, !.clock = c.t], out |-> [err |-> "locked", tok |-> 0]]}
    ELSE {[st |-> [S EXCEPT !.locks = L @@ (S.nextTok :> [root |-> c.root, zd |-> c.zd, held |-> FALSE,
                                                           exp |-> Expiry(c.t, c.dur)]),
                            !.nextTok = S.nextTok + 1, !.clock = c.t],
           out |-> [err |-> "", tok |-> S.nextTok]]}

DoRefresh(S, c) ==
    LET L == Collect(S.locks, c.t) k == c.tok IN
    IF k \notin DOMAIN L
    THEN {[st |-> [S EXCEPT !.locks = L, !.clock = c.t], out |-> [err |-> "nosuchlock"]]}
    ELSE IF L[k].held
    THEN {[st |-> [S EXCEPT !.locks = L, !.clock = c.t], out |-> [err |-> "locked"]]}
    ELSE {[st |-> [S EXCEPT !.locks = [L EXCEPT ![k].exp = Expiry(c.t, c.dur)], !.clock = c.t],
           out |-> [err |-> "", root |-> L[k].root, zd |-> L[k].zd, dur |-> IF c.dur < 0 THEN Inf ELSE c.dur]]}

DoUnlock(S, c) ==
    LET L == Collect(S.locks, c.t) k == c.tok IN
    IF k \notin DOMAIN L
    THEN {[st |-> [S EXCEPT !.locks = L, !.clock = c.t], out |-> [err |-> "nosuchlock"]]}
    ELSE IF L[k].held
    THEN {[st |-> [S EXCEPT !.locks = L, !.clock = c.t], out |-> [err |-> "locked"]]}
    ELSE {[st |-> [S EXCEPT !.locks = Restrict(L, DOMAIN L \ {k}), !.clock = c.t], out |-> [err |-> ""]]}

\* the locks among `conds` that the caller may claim for resource n
Claimable(L, conds, n) == {k \in conds \cap DOMAIN L : ~L[k].held /\ Covers(L[k].root, L[k].zd, n)}

\* c.ns: the non-empty names of the call (0, 1 or 2 of them); c.conds: set of tokens presented
DoConfirm(S, c) ==
    LET L == Collect(S.locks, c.t)
        N == {c.ns[i] : i \in 1..Len(c.ns)} IN
    IF \E n \in N : Claimable(L, c.conds, n) = {}
    THEN {[st |-> [S EXCEPT !.locks = L, !.clock = c.t], out |-> [err |-> "confirmationfailed", h |-> 0]]}
    ELSE {LET H == {f[n] : n \in N} h == FreeHandle(S.holds) IN
          [st |-> [S EXCEPT !.locks = [k \in DOMAIN L |-> IF k \in H THEN [L[k] EXCEPT !.held = TRUE] ELSE L[k]],
                            !.holds = S.holds @@ (h :> H), !.clock = c.t],
           out |-> [err |-> "", h |-> h]]
          : f \in {g \in [N -> DOMAIN L] : \A n \in N : g[n] \in Claimable(L, c.conds, n)}}

\* the release closure returned by Confirm; it carries no clock value
DoRelease(S, c) ==
    LET T == S.holds[c.h] IN
    {[st |-> [S EXCEPT !.locks = [k \in DOMAIN S.locks |-> IF k \in T THEN [S.locks[k] EXCEPT !.held = FALSE]
                                                                         ELSE S.locks[k]],
                       !.holds = Restrict(S.holds, DOMAIN S.holds \ {c.h})],
      out |-> [err |-> ""]]}

IsCall(c) == c.op \in {"create", "refresh", "unlock", "confirm"}

\* may call c be issued in state S?  (the caller's obligations, not the model bounds)
Legal(S, c) ==
    IF c.op = "release" THEN c.h \in DOMAIN S.holds
    ELSE Monotone => c.t >= S.clock

Do(S, c) ==
    CASE c.op = "create"  -> DoCreate(S, c)
      [] c.op = "refresh" -> DoRefresh(S, c)
      [] c.op = "unlock"  -> DoUnlock(S, c)
      [] c.op = "confirm" -> DoConfirm(S, c)
      [] c.op = "release" -> DoRelease(S, c)

Step(c) == /\ Legal(st, c)
           /\ \E r \in Do(st, c) : st' = r.st /\ res' = [call |-> c, out |-> r.out]

-----------------------------------------------------------------------------
(* Bounded next-state relation for model checking and behaviour generation *)

Toks     == 1..MaxTok
NameSeqs == {<<>>} \cup {<<n>> : n \in Names} \cup {<<n, m>> : n \in Names, m \in Names}
CondSets == {C \in SUBSET Toks : Cardinality(C) <= MaxConds}

CallTimes(S) == {t \in Times : Monotone => t >= S.clock}
CreateCalls(S)  == IF S.nextTok <= MaxTok
                   THEN {[op |-> "create", t |-> t, root |-> r, zd |-> z, dur |-> d] :
                            t \in CallTimes(S), r \in Names, z \in BOOLEAN, d \in Durs}
                   ELSE {}
RefreshCalls(S) == {[op |-> "refresh", t |-> t, tok |-> k, dur |-> d] : t \in CallTimes(S), k \in Toks, d \in Durs}
UnlockCalls(S)  == {[op |-> "unlock", t |-> t, tok |-> k] : t \in CallTimes(S), k \in Toks}
ConfirmCalls(S) == IF Cardinality(DOMAIN S.holds) < MaxHolds
                   THEN {[op |-> "confirm", t |-> t, ns |-> ns, conds |-> cs] :
                            t \in CallTimes(S), ns \in NameSeqs, cs \in CondSets}
                   ELSE {}
ReleaseCalls(S) == {[op |-> "release", h |-> h] : h \in DOMAIN S.holds}

Calls(S) == CreateCalls(S) \cup RefreshCalls(S) \cup UnlockCalls(S) \cup ConfirmCalls(S) \cup ReleaseCalls(S)

InitState == [locks |-> <<>>, nextTok |-> 1, holds |-> <<>>, clock |-> 0]

Init == /\ st = InitState
        /\ res = [call |-> [op |-> "init"], out |-> [err |-> ""]]

\* one disjunct per kind of call (TLC's simulator picks a disjunct first)
Next == \/ \E c \in CreateCalls(st)  : Step(c)
        \/ \E c \in RefreshCalls(st) : Step(c)
        \/ \E c \in UnlockCalls(st)  : Step(c)
        \/ \E c \in ConfirmCalls(st) : Step(c)
        \/ \E c \in ReleaseCalls(st) : Step(c)

Spec == Init /\ [][Next]_vars

-----------------------------------------------------------------------------
(* What C43 states, as invariants and action properties of the specification *)

locks == st.locks

TypeOK ==
    /\ st.nextTok \in Nat \ {0}
    /\ DOMAIN locks \subseteq 1..(st.nextTok - 1)
    /\ \A k \in DOMAIN locks : /\ locks[k].held \in BOOLEAN /\ locks[k].zd \in BOOLEAN
                               /\ locks[k].exp \in Nat \cup {Inf}
    /\ \A h \in DOMAIN st.holds : st.holds[h] \subseteq DOMAIN locks

\* never two locks covering a common resource
MutualExclusion ==
    \A k1, k2 \in DOMAIN locks :
       k1 # k2 => ~Overlap(locks[k1].root, locks[k1].zd, locks[k2].root, locks[k2].zd)

\* the same, stated over every name of the universe instead of the two roots
MutualExclusionNames ==
    \A n \in Names : Cardinality({k \in DOMAIN locks : Covers(locks[k].root, locks[k].zd, n)}) <= 1

\* held flag <-> exactly one outstanding release owns the lock
HeldConsistent ==
    /\ \A k \in DOMAIN locks : locks[k].held <=> \E h \in DOMAIN st.holds : k \in st.holds[h]
    /\ \A h1, h2 \in DOMAIN st.holds : h1 # h2 => st.holds[h1] \cap st.holds[h2] = {}

\* the refcount walk of the implementation decides exactly "no live lock conflicts"
WalkIsOverlap ==
    \A r \in Names, zd \in BOOLEAN :
       CanCreateWalk(locks, r, zd) <=> ~\E k \in DOMAIN locks : Overlap(locks[k].root, locks[k].zd, r, zd)

\* Confirm never has a choice: at most one live lock can be claimed for a resource
ConfirmDeterministic == \A c \in Calls(st) : Cardinality(Do(st, c)) = 1

\* Create succeeds exactly when no live lock (held, or not yet expired at the call) conflicts
CreateIff ==
    [][res'.call.op = "create" =>
         LET c == res'.call
             live == {k \in DOMAIN locks : ~Expired(locks[k], c.t)} IN
         (res'.out.err = "") <=> ~\E k \in live : Overlap(locks[k].root, locks[k].zd, c.root, c.zd)]_vars

\* every token is unique: a created lock gets a token never issued before
TokensUnique ==
    [][/\ st'.nextTok >= st.nextTok
       /\ (res'.call.op = "create" /\ res'.out.err = "") =>
              (res'.out.tok = st.nextTok /\ st'.nextTok = st.nextTok + 1 /\ res'.out.tok \notin DOMAIN locks)]_vars

\* an unheld lock past its expiry is gone for everybody
ExpiredIsDead ==
    [][IsCall(res'.call) =>
         LET c == res'.call
             dead == {k \in DOMAIN locks : Expired(locks[k], c.t)} IN
         /\ dead \cap DOMAIN locks' = {}
         /\ \A k \in DOMAIN locks' : \/ ~Expired(locks'[k], c.t)
                                      \/ k \notin DOMAIN locks                   \* created with duration 0
                                      \/ (c.op = "refresh" /\ c.tok = k)         \* refreshed with duration 0
         /\ (c.op \in {"refresh", "unlock"} /\ c.tok \in dead) => res'.out.err = "nosuchlock"
         /\ (c.op = "confirm" /\ c.ns # <<>> /\ c.conds \subseteq dead) => res'.out.err = "confirmationfailed"]_vars

\* a confirmed lock cannot be confirmed, refreshed or unlocked again until released,
\* and stays in place (it does not expire while held)
HeldIsExclusive ==
    [][IsCall(res'.call) =>
         LET c == res'.call
             held == {k \in DOMAIN locks : locks[k].held} IN
         /\ \A k \in held : k \in DOMAIN locks' /\ locks'[k] = locks[k]
         /\ (c.op \in {"refresh", "unlock"} /\ c.tok \in held) => res'.out.err = "locked"
         /\ (c.op = "confirm" /\ c.ns # <<>> /\ c.conds \subseteq held) => res'.out.err = "confirmationfailed"]_vars

\* only Release gives a held lock back
OnlyReleaseUnholds ==
    [][\A k \in DOMAIN locks : (locks[k].held /\ k \in DOMAIN locks' /\ ~locks'[k].held) => res'.call.op = "release"]_vars
=============================================================================
