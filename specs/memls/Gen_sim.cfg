SPECIFICATION SSpec
CONSTANTS
  Names <- NamesT
  Times = {0, 1, 2, 3, 4, 5, 6, 7}
  Durs <- DursT
  MaxTok = 6
  MaxHolds = 2
  MaxConds = 2
  Monotone = TRUE
  GenDepth = 28
CHECK_DEADLOCK FALSE
