# memls family hook: replay_all() is a gen_replay stage with several generator configs ("gens")
# whose items are replayed in ONE driver run (saves one `go test` link per config).


def replay_all(ctx, st):
    import stages
    items, exhaustive = [], True
    for g in st["gens"]:
        sub = dict(st)
        sub.update(g)
        it, ex = stages.generate(ctx, sub)
        items += it
        exhaustive = exhaustive and ex
    orig = stages.generate
    stages.generate = lambda c, s: (items, exhaustive)
    try:
        stages.stage_gen_replay(ctx, st)
    finally:
        stages.generate = orig
