SPECIFICATION GSpec
CONSTANTS
  Names <- NamesQ
  Times = {0, 1}
  Durs <- DursQ
  MaxTok = 2
  MaxHolds = 1
  MaxConds = 1
  Monotone = FALSE
  GenDepth = 0
INVARIANT EmitState
CHECK_DEADLOCK FALSE
VIEW view
INVARIANTS TypeOK MutualExclusion MutualExclusionNames HeldConsistent WalkIsOverlap ConfirmDeterministic
PROPERTIES CreateIff TokensUnique ExpiredIsDead HeldIsExclusive OnlyReleaseUnholds
