SPECIFICATION SSpec
CONSTANTS
  ArgPaths <- PathsT
  OpenFlags <- AllFlags
  Datas <- DatasT
  ReadLens = {1, 2, 5}
  Seeks <- SeeksT
  RdCounts = {0, 1, 2}
  MaxHandles = 3
  MaxSize = 8
  MaxDepth = 4
  GenDepth = 40
CHECK_DEADLOCK FALSE
