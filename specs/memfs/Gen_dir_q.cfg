SPECIFICATION DSpec
CONSTANTS
  ArgPaths <- PathsF
  OpenFlags <- FlagsH
  Datas <- DatasH
  ReadLens = {4}
  Seeks <- SeeksH
  RdCounts = {}
  MaxHandles = 2
  MaxSize = 4
  MaxDepth = 1
  GenDepth = 3
INVARIANTS EmitLeaf TreeOK
CHECK_DEADLOCK FALSE
