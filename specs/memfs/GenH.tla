-------------------------------- MODULE GenH --------------------------------
(* History-sensitive generation.  An implementation may keep state the abstract file *)
(* system does not have: bytes left in a backing array after a truncation, spare     *)
(* capacity, a position left beyond the end by another handle's truncation.  Two      *)
(* histories that reach the same abstract state can therefore behave differently, and *)
(* a BFS that identifies states by VIEW Canon(st) explores only one of them.          *)
(* Here the generator carries a ghost, img: for every node the bytes a store that     *)
(* never clears anything would still hold (the current contents laid over everything  *)
(* that was ever there).  It is NOT part of the specification of correct behaviour -  *)
(* predictions still come from Do - it only refines the VIEW, so that "empty file     *)
(* that once held <<2,2>>" is explored (with all its outgoing edges) separately from  *)
(* "empty file that never held anything".                                             *)
EXTENDS Gen

VARIABLE img
hvars == <<st, res, hist, img>>

Overlay(d, g) == d \o SubSeq(g, Len(d) + 1, Len(g))
NextImg(S, T) == [n \in DOMAIN T.data |-> Overlay(T.data[n], IF n \in DOMAIN S.data THEN img[n] ELSE <<>>)]

HInit == GInit /\ img = (0 :> <<>>)
HNext == GNext /\ img' = NextImg(st, st')
HSpec == HInit /\ [][HNext]_hvars

-----------------------------------------------------------------------------
(* Directed histories: a fixed prefix (DPrefix: create the file through handle 1 and   *)
(* write recognisable bytes) followed by EVERY sequence of GenDepth handle-level calls  *)
(* (open incl. truncating opens, seek, write, read, fstat, close; two handles).  The    *)
(* history is part of the state here (no VIEW), so histories are not merged; each full  *)
(* history is printed once with the predictions of Do for every step.                   *)
DPrefix == <<[op |-> "open", p |-> <<"a">>, f |-> F("rw", TRUE, FALSE, FALSE, FALSE, FALSE)],
             [op |-> "write", h |-> 1, d |-> <<2, 2>>]>>

RECURSIVE ApplyAll(_, _, _)
ApplyAll(S, H, cs) ==
    IF cs = <<>> THEN [st |-> S, hist |-> H]
    ELSE LET c == Head(cs)
             r == CHOOSE x \in Do(S, c) : TRUE IN
         ApplyAll(r.st, Append(H, Rec(S, c, r)), Tail(cs))

DCalls(S) == {c \in OpenCalls(S) \cup FileCalls(S) :
                 Legal(S, c) /\ \A r \in Do(S, c) : SizeOK(r.st) /\ PosOK(r.st) /\ DepthOK(r.st)}

DInit == LET a == ApplyAll(InitState, <<>>, DPrefix) IN
         /\ st = a.st /\ hist = a.hist /\ img = (0 :> <<>>)
         /\ res = [call |-> [op |-> "init"], out |-> [r |-> "ok", why |-> "init"]]
DNext == /\ Len(hist) < Len(DPrefix) + GenDepth
         /\ UNCHANGED img
         /\ \E c \in DCalls(st) : \E r \in Do(st, c) :
               /\ st' = r.st /\ res' = [call |-> c, out |-> r.out]
               /\ hist' = Append(hist, Rec(st, c, r))
DSpec == DInit /\ [][DNext]_hvars
EmitLeaf == Len(hist) < Len(DPrefix) + GenDepth \/ PrintT(<<"BEH", ToJson([pre |-> hist, edges |-> {}])>>)

hview == <<Canon(st), [q \in DOMAIN st.ent |-> img[st.ent[q]]], [k \in DOMAIN st.h |-> img[st.h[k].node]]>>
=============================================================================
