-------------------------------- MODULE GenH --------------------------------
(* History-sensitive generation.  An implementation may keep state the abstract file *)
(* system does not have: bytes left in a backing array after a truncation, spare     *)
(* capacity, a position left beyond the end by another handle's truncation.  Two      *)
(* histories that reach the same abstract state can therefore behave differently, and *)
(* a BFS that identifies states by VIEW Canon(st) explores only one of them.          *)
(* Here the generator carries a ghost, img: for every node the bytes a store that     *)
(* never clears anything would still hold (the current contents laid over everything  *)
(* that was ever there).  It is NOT part of the specification of correct behaviour -  *)
(* predictions still come from Do - it only refines the VIEW, so that "empty file     *)
(* that once held <<2,2>>" is explored (with all its outgoing edges) separately from  *)
(* "empty file that never held anything".                                             *)
EXTENDS Gen

VARIABLE img
hvars == <<st, res, hist, img>>

Overlay(d, g) == d \o SubSeq(g, Len(d) + 1, Len(g))
NextImg(S, T) == [n \in DOMAIN T.data |-> Overlay(T.data[n], IF n \in DOMAIN S.data THEN img[n] ELSE <<>>)]

HInit == GInit /\ img = (0 :> <<>>)
HNext == GNext /\ img' = NextImg(st, st')
HSpec == HInit /\ [][HNext]_hvars

hview == <<Canon(st), [q \in DOMAIN st.ent |-> img[st.ent[q]]], [k \in DOMAIN st.h |-> img[st.h[k].node]]>>
=============================================================================
