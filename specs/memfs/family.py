# memfs family hooks.
#
# signature(): the driver names the disagreement class in `what` (file system, operation, the case
# of the specification that applied, expected/actual class, result or tree), so that one known
# disagreement never hides a different one.  OpenFile with O_APPEND / O_SYNC is one class per flag
# whatever kind of entry is opened.
#
# replay_all(): a gen_replay stage with several generator configs ("gens") whose items are replayed
# in ONE driver run (saves one `go test` link per config).

import re


def signature(prop, kind, scenario, detail):
    w = (detail or {}).get("what") or ""
    if not w.startswith("fs="):
        return None
    m = re.match(r"^(fs=\w+;op=open);case=open:[\w-]+\+(O_APPEND|O_SYNC);(expected=ok;actual=err;result)$", w)
    if m:
        return "%s;flag=%s;%s" % (m.group(1), m.group(2), m.group(3))
    return w


def replay_all(ctx, st):
    import stages
    items, exhaustive = [], True
    for g in st["gens"]:
        sub = dict(st)
        sub.update(g)
        it, ex = stages.generate(ctx, sub)
        items += it
        exhaustive = exhaustive and ex
    orig = stages.generate
    stages.generate = lambda c, s: (items, exhaustive)
    try:
        stages.stage_gen_replay(ctx, st)
    finally:
        stages.generate = orig
