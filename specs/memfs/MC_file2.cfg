SPECIFICATION Spec
CONSTANTS
  ArgPaths <- PathsF
  OpenFlags <- FlagsQ
  Datas <- DatasQ
  ReadLens = {1, 3}
  Seeks <- SeeksQ
  RdCounts = {0}
  MaxHandles = 2
  MaxSize = 3
  MaxDepth = 2
INVARIANTS TreeOK ChoiceOnlyWhereAllowed
PROPERTIES RenameIntoOwnSubtreeFails RootIsFixed FailureIsNoop
CHECK_DEADLOCK FALSE
VIEW view
