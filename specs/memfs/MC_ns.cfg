SPECIFICATION Spec
CONSTANTS
  ArgPaths <- PathsQ
  OpenFlags <- FlagsN
  Datas <- DatasN
  ReadLens = {2}
  Seeks <- SeeksN
  RdCounts = {0, 1}
  MaxHandles = 1
  MaxSize = 1
  MaxDepth = 2
INVARIANTS TreeOK ChoiceOnlyWhereAllowed
PROPERTIES RenameIntoOwnSubtreeFails RootIsFixed FailureIsNoop
CHECK_DEADLOCK FALSE
VIEW view
