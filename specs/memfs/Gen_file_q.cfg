SPECIFICATION HSpec
CONSTANTS
  ArgPaths <- PathsF
  OpenFlags <- FlagsQ
  Datas <- DatasQ
  ReadLens = {2}
  Seeks <- SeeksQ
  RdCounts = {0}
  MaxHandles = 1
  MaxSize = 3
  MaxDepth = 2
  GenDepth = 0
INVARIANTS EmitState TreeOK
PROPERTIES RenameIntoOwnSubtreeFails RootIsFixed FailureIsNoop
CHECK_DEADLOCK FALSE
VIEW hview
