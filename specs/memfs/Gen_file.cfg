SPECIFICATION HSpec
CONSTANTS
  ArgPaths <- PathsF
  OpenFlags <- AllFlags
  Datas <- DatasQ
  ReadLens = {1, 3}
  Seeks <- SeeksQ
  RdCounts = {0}
  MaxHandles = 1
  MaxSize = 3
  MaxDepth = 2
  GenDepth = 0
INVARIANTS EmitState TreeOK
PROPERTIES RenameIntoOwnSubtreeFails RootIsFixed FailureIsNoop
CHECK_DEADLOCK FALSE
VIEW hview
