-------------------------------- MODULE Gen --------------------------------
(* Behaviour generator for MemFS (same scheme as specs/memls/Gen.tla).              *)
(*  - BFS (INVARIANT EmitState, VIEW view): every distinct state of the bounded      *)
(*    graph once, with a shortest history leading to it (pre) and ALL its outgoing   *)
(*    edges: per call the set of allowed outcomes, each with the predicted tree;     *)
(*  - simulation (SPECIFICATION SSpec): long random histories.                       *)
(* A history step carries the outcome the model took (out) and the other allowed     *)
(* outcomes (alts): an implementation that legitimately takes another one leaves     *)
(* the history there.                                                                *)
EXTENDS MC, Json

CONSTANT GenDepth
VARIABLE hist
gvars == <<st, res, hist>>

\* what an observer can read back through the API: the tree with kinds and contents, and for
\* every open handle the kind and size of its file (File.Stat) and its position (Seek(0, current))
Proj(S) == {[p |-> q, k |-> S.kind[S.ent[q]], d |-> S.data[S.ent[q]]] : q \in DOMAIN S.ent}
      \cup {[h |-> x, k |-> S.kind[S.h[x].node], size |-> Len(S.data[S.h[x].node]),
             pos |-> IF S.kind[S.h[x].node] = "file" THEN S.h[x].pos ELSE 0 - 1] : x \in DOMAIN S.h}

Outs(S, c) == {[out |-> r.out, same |-> (r.st = S), tree |-> IF r.st = S THEN {"same"} ELSE Proj(r.st)] : r \in Do(S, c)}
Edges(S) == {[call |-> c, outs |-> Outs(S, c)] : c \in Calls(S)}

GInit == Init /\ hist = <<>>
Rec(S, c, r) == [call |-> c, out |-> r.out, same |-> (r.st = S), alts |-> {x.out : x \in Do(S, c) \ {r}}, tree |-> Proj(r.st)]
GNext == \E c \in Calls(st) :
            /\ Legal(st, c)
            /\ \E r \in Do(st, c) : /\ st' = r.st /\ res' = [call |-> c, out |-> r.out]
                                    /\ hist' = Append(hist, Rec(st, c, r))
GSpec == GInit /\ [][GNext]_gvars

\* Simulation: one random call per step, the history is printed once at GenDepth.
RE(C) == RandomElement(C)
RandCall(kind) ==
    LET hs == DOMAIN st.h
        k  == IF hs = {} THEN 0 ELSE RE(hs) IN
    CASE kind = 1  -> [op |-> "mkdir", p |-> RE(ArgPaths)]
      [] kind = 2  -> [op |-> "open", p |-> RE(ArgPaths), f |-> RE(OpenFlags)]
      [] kind = 3  -> [op |-> "rename", p |-> RE(ArgPaths), q |-> RE(ArgPaths)]
      [] kind = 4  -> [op |-> "removeall", p |-> RE(ArgPaths)]
      [] kind = 5  -> [op |-> "stat", p |-> RE(ArgPaths)]
      [] kind = 6  -> [op |-> "write", h |-> k, d |-> RE(Datas)]
      [] kind = 7  -> [op |-> "read", h |-> k, n |-> RE(ReadLens)]
      [] kind = 8  -> LET s == RE(Seeks) IN [op |-> "seek", h |-> k, off |-> s[1], wh |-> s[2]]
      [] kind = 9  -> [op |-> "readdir", h |-> k, cnt |-> RE(RdCounts)]
      [] kind = 10 -> [op |-> "fstat", h |-> k]
      [] kind = 11 -> [op |-> "close", h |-> k]
      [] kind = 12 -> [op |-> "write", h |-> k, d |-> RE(Datas)]
SNext ==
    IF Len(hist) >= GenDepth
    THEN PrintT(<<"BEH", ToJson([pre |-> hist, edges |-> {}])>>) /\ UNCHANGED gvars
    ELSE \E kind \in 1..12 :
            \E c \in {RandCall(kind)} :          \* bound once (a LET would draw again at every use)
            /\ kind = 2 => Cardinality(DOMAIN st.h) < MaxHandles
            /\ Legal(st, c)
            /\ \A r \in Do(st, c) : SizeOK(r.st) /\ PosOK(r.st) /\ DepthOK(r.st)
            /\ \E r \in {RE(Do(st, c))} :
               /\ st' = r.st /\ res' = [call |-> c, out |-> r.out]
               /\ hist' = Append(hist, Rec(st, c, r))
SSpec == GInit /\ [][SNext]_gvars

EmitState == PrintT(<<"BEH", ToJson([pre |-> hist, edges |-> Edges(st)])>>)
=============================================================================
