SPECIFICATION GSpec
CONSTANTS
  ArgPaths <- PathsQ
  OpenFlags <- FlagsN
  Datas = {}
  ReadLens = {}
  Seeks <- SeeksN
  RdCounts = {0, 1}
  MaxHandles = 1
  MaxSize = 0
  MaxDepth = 2
  GenDepth = 0
INVARIANTS EmitState TreeOK
PROPERTIES RenameIntoOwnSubtreeFails RootIsFixed FailureIsNoop
CHECK_DEADLOCK FALSE
VIEW view
