SPECIFICATION HSpec
CONSTANTS
  ArgPaths <- PathsF
  OpenFlags <- FlagsH
  Datas <- DatasH
  ReadLens = {3}
  Seeks <- SeeksH
  RdCounts = {0}
  MaxHandles = 2
  MaxSize = 3
  MaxDepth = 1
  GenDepth = 0
INVARIANTS EmitState TreeOK
CHECK_DEADLOCK FALSE
VIEW hview
