------------------------------- MODULE MemFS -------------------------------
(* C44 - the hierarchical file system that the os package documents for the subset *)
(* of operations webdav.FileSystem / webdav.File expose: Mkdir, OpenFile(flags),    *)
(* Write, Read, Seek, Readdir, Rename, RemoveAll, Stat, File.Stat, Close.           *)
(* NewMemFS() and Dir(tmp) must both behave like this specification; the native run *)
(* is what calibrates it (a native disagreement is a specification error).          *)
(*                                                                                  *)
(* Paths are sequences of names (<<>> is the root).  Entries map paths to nodes;    *)
(* open handles refer to nodes, not paths, so a handle survives Rename / RemoveAll  *)
(* of its file (as it does on a Unix file system and in memFS).                     *)
(*                                                                                  *)
(* Functional style: Do(S, c) is the SET of allowed [st, out] results of call c in  *)
(* state S.  It has more than one element exactly where the contract leaves the     *)
(* behaviour open: renaming over an existing entry (OS-specific per the FileSystem  *)
(* documentation) and which entries a partial Readdir(n>0) returns.                 *)
(* Results are classes: out.r is "ok" or "err" (error identity is not part of the   *)
(* property); out.why names the case of the specification that applied (used for    *)
(* reports only, never compared).                                                   *)
EXTENDS Integers, Sequences, FiniteSets, TLC

CONSTANTS ArgPaths,    \* paths used as arguments (model checking)
          OpenFlags,   \* set of flag records [acc, create, excl, trunc, app, sync]
          Datas,       \* byte sequences a Write may carry
          ReadLens,    \* buffer lengths for Read (>= 1)
          Seeks,       \* set of <<offset, whence>>
          RdCounts,    \* Readdir counts
          MaxHandles,  \* open handles at a time
          MaxSize,     \* file sizes and positions stay <= MaxSize (model bound)
          MaxDepth     \* paths stay <= MaxDepth names long (model bound; renames can deepen a tree)

VARIABLES st,          \* [ent, kind, data, h]
          res          \* [call, out] of the latest step

\* st.ent  : path -> node, for every linked entry except the root (node 0)
\* st.kind : node -> "dir" | "file", for every node that is linked or open
\* st.data : node -> sequence of bytes (files; <<>> for directories)
\* st.h    : handle -> [node, pos, rd, wr, app, path, snap, got]      path = the path it was opened at
\*           snap = listing of the directory when it was opened, got = entries returned so far

vars == <<st, res>>

-----------------------------------------------------------------------------
IsPrefix(a, b)  == Len(a) <= Len(b) /\ SubSeq(b, 1, Len(a)) = a
Parent(p)       == SubSeq(p, 1, Len(p) - 1)
Last(p)         == p[Len(p)]
Restrict(f, D)  == [x \in D |-> f[x]]
Min(a, b)       == IF a < b THEN a ELSE b
Zeros(n)        == [i \in 1..n |-> 0]

Exists(S, p)    == p = <<>> \/ p \in DOMAIN S.ent
NodeAt(S, p)    == IF p = <<>> THEN 0 ELSE S.ent[p]
IsDirAt(S, p)   == Exists(S, p) /\ S.kind[NodeAt(S, p)] = "dir"
ParentIsDir(S, p) == p # <<>> /\ IsDirAt(S, Parent(p))
\* some proper ancestor of p is a regular file
ThroughFile(S, p) == \E i \in 1..(Len(p) - 1) :
                        LET a == SubSeq(p, 1, i) IN Exists(S, a) /\ S.kind[NodeAt(S, a)] = "file"
Under(S, p)     == {q \in DOMAIN S.ent : IsPrefix(p, q)}           \* p itself and everything below
Kids(S, p)      == {q \in DOMAIN S.ent : Len(q) = Len(p) + 1 /\ IsPrefix(p, q)}
Listing(S, p)   == {<<Last(q), S.kind[S.ent[q]]>> : q \in Kids(S, p)}
Linked(S, n)    == n = 0 \/ \E q \in DOMAIN S.ent : S.ent[q] = n
PathOf(S, n)    == IF n = 0 THEN <<>> ELSE CHOOSE q \in DOMAIN S.ent : S.ent[q] = n

FreeNode(S)     == CHOOSE n \in 1..(Cardinality(DOMAIN S.kind) + 1) : n \notin DOMAIN S.kind
FreeHandle(S)   == CHOOSE k \in 1..(Cardinality(DOMAIN S.h) + 1) : k \notin DOMAIN S.h

\* forget nodes that are neither linked nor open
GC(S) ==
    LET keep == {0} \cup {S.ent[q] : q \in DOMAIN S.ent} \cup {S.h[k].node : k \in DOMAIN S.h} IN
    [S EXCEPT !.kind = Restrict(S.kind, keep), !.data = Restrict(S.data, keep)]

\* Node numbers are arbitrary names: the VIEW identifies states up to renaming of nodes (a linked
\* node is named by its path, an unlinked one by the handles that still refer to it).
NodeName(S, n) == IF Linked(S, n) THEN <<"path", PathOf(S, n)>>
                  ELSE <<"open", S.kind[n], S.data[n], {k \in DOMAIN S.h : S.h[k].node = n}>>
Canon(S) == [tree |-> [q \in DOMAIN S.ent |-> <<S.kind[S.ent[q]], S.data[S.ent[q]]>>],
             h    |-> [k \in DOMAIN S.h |-> [S.h[k] EXCEPT !.node = NodeName(S, S.h[k].node)]]]
view == Canon(st)

Ok(S, why)        == [st |-> S, out |-> [r |-> "ok", why |-> why]]
OkWith(S, why, x) == [st |-> S, out |-> [r |-> "ok", why |-> why] @@ x]
Err(S, why)       == [st |-> S, out |-> [r |-> "err", why |-> why]]

-----------------------------------------------------------------------------
(* Namespace operations *)

DoMkdir(S, c) ==
    LET p == c.p IN
    IF p = <<>> THEN {Err(S, "mkdir:root")}
    ELSE IF Exists(S, p) THEN {Err(S, "mkdir:exists")}
    ELSE IF ~ParentIsDir(S, p) THEN {Err(S, "mkdir:no-parent-directory")}
    ELSE LET n == FreeNode(S) IN
         {Ok([S EXCEPT !.ent = S.ent @@ (p :> n), !.kind = S.kind @@ (n :> "dir"),
                       !.data = S.data @@ (n :> <<>>)], "mkdir:new")}

DoStat(S, c) ==
    IF Exists(S, c.p)
    THEN LET n == NodeAt(S, c.p) IN
         {OkWith(S, "stat:existing", [kind |-> S.kind[n], size |-> Len(S.data[n])])}
    ELSE {Err(S, "stat:missing")}

DoRemoveAll(S, c) ==
    LET p == c.p IN
    IF p = <<>> THEN {Err(S, "removeall:root")}
    ELSE IF Exists(S, p)
    THEN {Ok(GC([S EXCEPT !.ent = Restrict(S.ent, DOMAIN S.ent \ Under(S, p))]), "removeall:existing")}
    ELSE IF ThroughFile(S, p) THEN {Err(S, "removeall:through-a-file")}
    \* os.RemoveAll: "If the path does not exist, RemoveAll returns nil"
    ELSE IF Exists(S, Parent(p)) THEN {Ok(S, "removeall:missing-leaf")}
    ELSE {Ok(S, "removeall:missing-parent")}

\* entries of the subtree at p re-rooted at q, the subtree at q (if any) being dropped
Moved(S, p, q) ==
    LET sub  == Under(S, p)
        keep == DOMAIN S.ent \ (sub \cup Under(S, q))
        dst(x) == q \o SubSeq(x, Len(p) + 1, Len(x)) IN
    [y \in keep \cup {dst(x) : x \in sub} |->
        IF y \in keep THEN S.ent[y] ELSE S.ent[CHOOSE x \in sub : dst(x) = y]]

DoRename(S, c) ==
    LET p == c.p q == c.q IN
    IF p = <<>> \/ q = <<>> THEN {Err(S, "rename:root")}
    ELSE IF ~Exists(S, p) THEN {Err(S, IF p = q THEN "rename:missing-onto-itself" ELSE "rename:source-missing")}
    ELSE IF p # q /\ IsPrefix(p, q) THEN {Err(S, "rename:into-own-subtree")}
    \* "renaming over an existing entry" is OS-specific per the FileSystem contract: either outcome
    ELSE IF p = q THEN {Ok(S, "rename:over-existing(itself)"), Err(S, "rename:over-existing(itself)")}
    ELSE IF ~ParentIsDir(S, q) THEN {Err(S, "rename:no-destination-directory")}
    ELSE IF Exists(S, q)
    THEN {Ok(GC([S EXCEPT !.ent = Moved(S, p, q)]), "rename:over-existing"), Err(S, "rename:over-existing")}
    ELSE {Ok([S EXCEPT !.ent = Moved(S, p, q)], "rename:move")}

-----------------------------------------------------------------------------
(* OpenFile.  c.f = [acc \in {"r","w","rw"}, create, excl, trunc, app, sync] *)

CanWrite(f) == f.acc \in {"w", "rw"}
CanRead(f)  == f.acc \in {"r", "rw"}

FlagNote(f) == IF f.app THEN "+O_APPEND" ELSE IF f.sync THEN "+O_SYNC" ELSE ""

NewHandle(S, n, f, why) ==
    LET k == FreeHandle(S)
        p == PathOf(S, n) IN
    OkWith([S EXCEPT !.h = S.h @@ (k :> [node |-> n, pos |-> 0, rd |-> CanRead(f), wr |-> CanWrite(f),
                                         app |-> f.app, path |-> p,
                                         snap |-> IF S.kind[n] = "dir" THEN Listing(S, p) ELSE {},
                                         got |-> {}])],
           why \o FlagNote(f), [h |-> k])

DoOpen(S, c) ==
    LET p == c.p f == c.f IN
    IF Exists(S, p)
    THEN LET n == NodeAt(S, p) IN
         IF f.create /\ f.excl THEN {Err(S, "open:excl-existing")}
         ELSE IF S.kind[n] = "dir"
         THEN IF CanWrite(f) THEN {Err(S, "open:directory-for-writing")}
              ELSE {NewHandle(S, n, f, "open:directory")}
         ELSE IF f.trunc /\ CanWrite(f)
         THEN {NewHandle([S EXCEPT !.data[n] = <<>>], n, f, "open:file-truncate")}
         ELSE {NewHandle(S, n, f, "open:file")}
    ELSE IF ~f.create THEN {Err(S, "open:missing")}
    ELSE IF ~ParentIsDir(S, p) THEN {Err(S, "open:create-no-parent-directory")}
    ELSE LET n == FreeNode(S) IN
         {NewHandle([S EXCEPT !.ent = S.ent @@ (p :> n), !.kind = S.kind @@ (n :> "file"),
                              !.data = S.data @@ (n :> <<>>)], n, f, "open:create")}

-----------------------------------------------------------------------------
(* File operations through a handle k = c.h *)

DoWrite(S, c) ==
    LET k == c.h H == S.h[k] n == H.node d == c.d IN
    IF S.kind[n] = "dir" THEN {Err(S, "write:directory")}
    ELSE IF ~H.wr THEN {Err(S, "write:handle-not-open-for-writing")}
    ELSE IF d = <<>>
    \* writing nothing changes nothing (not even past the end of the file)
    THEN {OkWith(S, IF H.pos > Len(S.data[n]) THEN "write:empty-past-end" ELSE "write:empty", [n |-> 0])}
    ELSE LET old   == S.data[n]
             start == IF H.app THEN Len(old) ELSE H.pos
             base  == IF start > Len(old) THEN old \o Zeros(start - Len(old)) ELSE old
             new   == [i \in 1..(IF start + Len(d) > Len(base) THEN start + Len(d) ELSE Len(base)) |->
                         IF i > start /\ i <= start + Len(d) THEN d[i - start] ELSE base[i]] IN
         {OkWith([S EXCEPT !.data[n] = new, !.h[k].pos = start + Len(d)],
                 IF start > Len(old) THEN "write:past-end(hole)" ELSE "write:data", [n |-> Len(d)])}

DoRead(S, c) ==
    LET k == c.h H == S.h[k] n == H.node IN
    IF S.kind[n] = "dir" THEN {Err(S, "read:directory")}
    ELSE IF ~H.rd THEN {Err(S, "read:handle-not-open-for-reading")}
    ELSE IF H.pos >= Len(S.data[n]) THEN {OkWith(S, "read:at-end", [n |-> 0, d |-> <<>>, eof |-> TRUE])}
    ELSE LET m == Min(c.n, Len(S.data[n]) - H.pos) IN
         {OkWith([S EXCEPT !.h[k].pos = H.pos + m], "read:data",
                 [n |-> m, d |-> SubSeq(S.data[n], H.pos + 1, H.pos + m), eof |-> FALSE])}

DoSeek(S, c) ==
    LET k == c.h H == S.h[k] n == H.node
        base == CASE c.wh = 0 -> 0 [] c.wh = 1 -> H.pos [] c.wh = 2 -> Len(S.data[n])
        np == base + c.off IN
    IF S.kind[n] = "dir"
    THEN {OkWith([S EXCEPT !.h[k].got = {}], "seek:rewind-directory", [pos |-> 0])}   \* only Seek(0, 0) is issued
    ELSE IF np < 0 THEN {Err(S, "seek:negative")}
    ELSE {OkWith([S EXCEPT !.h[k].pos = np], "seek:file", [pos |-> np])}

\* Readdir: c.cnt <= 0 returns everything that is left; c.cnt > 0 returns at most c.cnt of the
\* remaining entries (any of them) and signals the end with eof
DoReaddir(S, c) ==
    LET k == c.h H == S.h[k] n == H.node left == H.snap \ H.got IN
    IF S.kind[n] # "dir" THEN {Err(S, "readdir:not-a-directory")}
    ELSE IF c.cnt <= 0
    THEN {OkWith([S EXCEPT !.h[k].got = H.snap],
                 IF H.got = {} THEN "readdir:all" ELSE "readdir:all-after-partial", [ents |-> left, eof |-> FALSE])}
    ELSE IF left = {} THEN {OkWith(S, "readdir:at-end", [ents |-> {}, eof |-> TRUE])}
    ELSE {OkWith([S EXCEPT !.h[k].got = H.got \cup E], "readdir:partial", [ents |-> E, eof |-> FALSE])
          : E \in {X \in SUBSET left : Cardinality(X) = Min(c.cnt, Cardinality(left))}}

DoFstat(S, c) ==
    LET n == S.h[c.h].node IN
    {OkWith(S, "fstat", [kind |-> S.kind[n], size |-> Len(S.data[n])])}

DoClose(S, c) ==
    {Ok(GC([S EXCEPT !.h = Restrict(S.h, DOMAIN S.h \ {c.h})]), "close")}

-----------------------------------------------------------------------------
Do(S, c) ==
    CASE c.op = "mkdir"     -> DoMkdir(S, c)
      [] c.op = "stat"      -> DoStat(S, c)
      [] c.op = "removeall" -> DoRemoveAll(S, c)
      [] c.op = "rename"    -> DoRename(S, c)
      [] c.op = "open"      -> DoOpen(S, c)
      [] c.op = "write"     -> DoWrite(S, c)
      [] c.op = "read"      -> DoRead(S, c)
      [] c.op = "seek"      -> DoSeek(S, c)
      [] c.op = "readdir"   -> DoReaddir(S, c)
      [] c.op = "fstat"     -> DoFstat(S, c)
      [] c.op = "close"     -> DoClose(S, c)

HandleOps == {"write", "read", "seek", "readdir", "fstat", "close"}

\* Calls inside the property's quantifier.  Left out because neither POSIX nor the os package
\* defines them (see README): O_EXCL without O_CREATE, O_TRUNC without write access, O_CREATE on
\* an existing directory, seeking a directory handle anywhere but (0, start), zero-length reads,
\* Readdir through a handle whose directory was removed, renamed or changed since it was opened
\* (os.File.Readdir stats the entries by the path the directory was opened at).
Legal(S, c) ==
    IF c.op \in HandleOps
    THEN /\ c.h \in DOMAIN S.h
         /\ LET H == S.h[c.h] isdir == S.kind[H.node] = "dir" IN
            /\ c.op = "seek" => (c.wh \in 0..2 /\ (isdir => (c.off = 0 /\ c.wh = 0)))
            /\ c.op = "read" => c.n >= 1
            /\ (c.op = "readdir" /\ isdir) => (Linked(S, H.node) /\ PathOf(S, H.node) = H.path
                                               /\ Listing(S, H.path) = H.snap)
    ELSE c.op = "open" =>
         /\ c.f.excl => c.f.create
         /\ c.f.trunc => CanWrite(c.f)
         /\ c.f.create => ~IsDirAt(S, c.p)

Step(c) == /\ Legal(st, c)
           /\ \E r \in Do(st, c) : st' = r.st /\ res' = [call |-> c, out |-> r.out]

-----------------------------------------------------------------------------
(* Bounded next-state relation *)

PathCalls(S) ==
         {[op |-> "mkdir", p |-> p] : p \in ArgPaths}
    \cup {[op |-> "stat", p |-> p] : p \in ArgPaths}
    \cup {[op |-> "removeall", p |-> p] : p \in ArgPaths}
    \cup {[op |-> "rename", p |-> p, q |-> q] : p \in ArgPaths, q \in ArgPaths}
OpenCalls(S) ==
    IF Cardinality(DOMAIN S.h) < MaxHandles
    THEN {[op |-> "open", p |-> p, f |-> f] : p \in ArgPaths, f \in OpenFlags}
    ELSE {}
FileCalls(S) ==
    UNION {     {[op |-> "write", h |-> k, d |-> d] : d \in Datas}
           \cup {[op |-> "read", h |-> k, n |-> n] : n \in ReadLens}
           \cup {[op |-> "seek", h |-> k, off |-> s[1], wh |-> s[2]] : s \in Seeks}
           \cup {[op |-> "readdir", h |-> k, cnt |-> n] : n \in RdCounts}
           \cup {[op |-> "fstat", h |-> k], [op |-> "close", h |-> k]} : k \in DOMAIN S.h}

\* model bound only: files stay small
SizeOK(S) == \A n \in DOMAIN S.data : Len(S.data[n]) <= MaxSize
PosOK(S)  == \A k \in DOMAIN S.h : S.h[k].pos <= MaxSize
DepthOK(S) == \A q \in DOMAIN S.ent : Len(q) <= MaxDepth

Calls(S) == {c \in PathCalls(S) \cup OpenCalls(S) \cup FileCalls(S) :
                Legal(S, c) /\ \A r \in Do(S, c) : SizeOK(r.st) /\ PosOK(r.st) /\ DepthOK(r.st)}

InitState == [ent |-> <<>>, kind |-> (0 :> "dir"), data |-> (0 :> <<>>), h |-> <<>>]
Init == st = InitState /\ res = [call |-> [op |-> "init"], out |-> [r |-> "ok", why |-> "init"]]
Next == \E c \in Calls(st) : Step(c)
Spec == Init /\ [][Next]_vars

-----------------------------------------------------------------------------
(* Properties of the specification *)

\* a hierarchical file system: every entry hangs under a directory, nodes are linked at most once
TreeOK ==
    /\ st.kind[0] = "dir"
    /\ \A p \in DOMAIN st.ent : p # <<>> /\ IsDirAt(st, Parent(p)) /\ st.ent[p] # 0
    /\ \A p, q \in DOMAIN st.ent : st.ent[p] = st.ent[q] => p = q
    /\ \A n \in DOMAIN st.kind : st.kind[n] = "dir" => st.data[n] = <<>>
    /\ DOMAIN st.kind = DOMAIN st.data
    /\ \A k \in DOMAIN st.h : st.h[k].node \in DOMAIN st.kind
    /\ \A n \in DOMAIN st.kind : Linked(st, n) \/ \E k \in DOMAIN st.h : st.h[k].node = n

\* C44's last sentence
RenameIntoOwnSubtreeFails ==
    [][(res'.call.op = "rename" /\ res'.call.p # res'.call.q /\ IsPrefix(res'.call.p, res'.call.q))
          => (res'.out.r = "err" /\ st' = st)]_vars
RootIsFixed ==
    [][/\ (res'.call.op = "rename" /\ (res'.call.p = <<>> \/ res'.call.q = <<>>)) => (res'.out.r = "err" /\ st' = st)
       /\ (res'.call.op = "removeall" /\ res'.call.p = <<>>) => (res'.out.r = "err" /\ st' = st)]_vars

\* a failed call changes nothing; only the two documented cases have a choice
FailureIsNoop == [][res'.out.r = "err" => st' = st]_vars
ChoiceOnlyWhereAllowed ==
    \A c \in Calls(st) : Cardinality(Do(st, c)) > 1 =>
        \/ c.op = "rename" /\ Exists(st, c.q)
        \/ c.op = "readdir" /\ c.cnt > 0
=============================================================================
