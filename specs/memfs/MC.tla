--------------------------------- MODULE MC ---------------------------------
(* Constants for exhaustive checking / behaviour generation of MemFS. *)
EXTENDS MemFS

F(acc, create, excl, trunc, app, sync) ==
    [acc |-> acc, create |-> create, excl |-> excl, trunc |-> trunc, app |-> app, sync |-> sync]

\* every flag combination the specification defines
AllFlags == {f \in [acc : {"r", "w", "rw"}, create : BOOLEAN, excl : BOOLEAN, trunc : BOOLEAN,
                    app : BOOLEAN, sync : BOOLEAN] : (f.excl => f.create) /\ (f.trunc => f.acc # "r")}

\* a representative subset for the quick tier
FlagsQ == {F("r", FALSE, FALSE, FALSE, FALSE, FALSE),
           F("w", FALSE, FALSE, FALSE, FALSE, FALSE),
           F("rw", TRUE, FALSE, FALSE, FALSE, FALSE),
           F("w", TRUE, TRUE, FALSE, FALSE, FALSE),
           F("rw", TRUE, FALSE, TRUE, FALSE, FALSE),
           F("w", FALSE, FALSE, FALSE, TRUE, FALSE),
           F("r", FALSE, FALSE, FALSE, FALSE, TRUE)}

PathsQ == {<<>>, <<"a">>, <<"a", "b">>, <<"ab">>}      \* "ab": a sibling sharing a string prefix with "a"
PathsT == {<<>>, <<"a">>, <<"a", "b">>, <<"a", "b", "c">>, <<"d">>}

DatasQ == {<<>>, <<1>>, <<2, 2>>}
\* namespace-centred configs: tiny files, few flags
DatasT == {<<>>, <<1>>, <<2, 2>>, <<3, 1, 2>>}
DatasN == {<<1>>}
SeeksN == {<<0, 0>>}
FlagsN == {F("r", FALSE, FALSE, FALSE, FALSE, FALSE),
           F("w", FALSE, FALSE, FALSE, FALSE, FALSE),
           F("rw", TRUE, FALSE, FALSE, FALSE, FALSE),
           F("w", TRUE, TRUE, FALSE, FALSE, FALSE)}
\* directed histories (GenH!DSpec): plain and truncating opens, a one-byte write, seeks inside and
\* beyond the old length <<2, 2>>
FlagsH == {F("rw", FALSE, FALSE, FALSE, FALSE, FALSE),
           F("rw", FALSE, FALSE, TRUE, FALSE, FALSE),
           F("w", FALSE, FALSE, TRUE, FALSE, FALSE)}
DatasH == {<<1>>}
SeeksH == {<<1, 0>>, <<3, 0>>}
\* file-centred configs: one path, every flag combination
PathsF == {<<"a">>}
SeeksQ == {<<0, 0>>, <<1, 1>>, <<0 - 1, 2>>, <<0 - 1, 0>>, <<2, 2>>}
SeeksT == SeeksQ \cup {<<3, 0>>, <<0 - 2, 1>>, <<0, 2>>}
=============================================================================
