------------------------------ MODULE H2Server ------------------------------
(* One HTTP/2 server connection of golang.org/x/net/http2 (server.go) seen by its      *)
(* client and by the request handlers (C15), plus the control-frame queue bound (C16). *)
(*                                                                                      *)
(* The module has two layers.                                                           *)
(*                                                                                      *)
(* OBSERVABLE LAYER - what the properties talk about.  Per stream: what the client has  *)
(* sent (cs, recvRST), what the server has sent (sentES, sentRST), how the request is   *)
(* classified (kind) and where its handler is (hst); per connection: PING payloads and  *)
(* SETTINGS frames still to be acknowledged, rejections still owed.  Every observable   *)
(* event X has a guard G_X (the rule the property imposes on it) and an update U_X.     *)
(* Trace validation (Trace.tla) uses G_X /\ U_X: a recorded event whose guard is false  *)
(* matches no step.                                                                     *)
(*                                                                                      *)
(* MECHANISM LAYER - a design model of the serve loop: server-side stream states,       *)
(* the closed-stream filter of writeFrame, the write queue (control frames first,       *)
(* per-stream FIFO, any stream order), curHandlers / unstartedHandlers, the flood       *)
(* limit.  Its steps perform the observable updates and record in viol every guard      *)
(* that did not hold; TLC checks viol = {} and the quiescence conditions exhaustively   *)
(* (MC*.cfg), i.e. that the design refines the property.  Gen.tla walks this layer to   *)
(* produce client/handler schedules that are replayed on the real server.               *)
EXTENDS Integers, Sequences, FiniteSets, TLC

CONSTANTS Streams,      \* stream identifiers (naturals; the client opens them in increasing order)
          MaxQ,         \* maxQueuedControlFrames (trace: read from the package)
          MCAdv,        \* model checking: advertised SETTINGS_MAX_CONCURRENT_STREAMS
          MCPings,      \* model checking: PING payloads the client may use
          MCOwed,       \* model checking: PINGs that may be outstanding at once
          MCSettings,   \* model checking: SETTINGS frames the client may send
          MCKinds,      \* model checking: request classes the client may use
          MCWrites,     \* model checking: handler writes per stream
          MCPauses,     \* model checking: how often the peer may stop reading / exhaust a window
          MCGoAway,     \* model checking: may a graceful shutdown begin (BOOLEAN)
          MCPanics      \* model checking: subset of BOOLEAN: may handlers return normally (FALSE) / panic (TRUE)

(* RFC 9113 section 7 error codes *)
NoError == 0      Protocol == 1     Internal == 2    StreamClosedErr == 5
Refused == 7      Calm == 11

VARIABLES
    \* ---- observable layer
    adv,       \* advertised concurrency limit
    cs,        \* cs[s]: "idle" | "open" (HEADERS sent) | "hcr" (END_STREAM sent)
    kind,      \* kind[s]: "none" | "ok" | "head" | "connspec" | "malF" | "malS" | "over"
    recvRST,   \* the client has sent RST_STREAM(s)
    sentES,    \* the server has sent END_STREAM on s
    sentRST,   \* the server has sent RST_STREAM(s)
    hst,       \* handler: "none" | "unstarted" | "running" | "done"
    rejOwed,   \* streams whose rejection (RST_STREAM) is still owed
    pings,     \* sequence of PING payloads still to be acknowledged
    setOwed,   \* SETTINGS frames still to be acknowledged
    paused,    \* the peer is not reading (no server frame can be observed)
    setPaused, \* SETTINGS frames received since the peer stopped reading
    dead,      \* GOAWAY with an error was sent / the connection is closed
    gs,        \* graceful shutdown: [cause: a reason for it exists (GOAWAY from the client, Server shutdown,
               \*   "Connection: close" response), ingo: the server has decided to send GOAWAY (mechanism only),
               \*   shut: GOAWAY(NO_ERROR) was sent, last: the last-stream-id it carried]
    viol,      \* model checking only: names of guards that did not hold
    \* ---- mechanism layer (model checking / generation only)
    sst,       \* server stream state: "idle" | "open" | "hcr" | "hcl" | "closed"
    resetQ,    \* stream.resetQueued
    mh,        \* handler goroutine: "none" | "queued" | "running" | "fin" | "done"
    unst,      \* unstartedHandlers (sequence of stream ids)
    wq,        \* write scheduler contents: sequence of [t, s, es, c]
    nAck,      \* SETTINGS acks to write (the real code keeps one flag: see DevMergedAck in Trace.tla)
    hw,        \* handler writes so far
    fcb,       \* the peer's flow-control window is exhausted: DATA cannot be written
    budget     \* remaining pause / window-exhaustion toggles

obsVars  == <<adv, gs, cs, kind, recvRST, sentES, sentRST, hst, rejOwed, pings, setOwed, paused, setPaused, dead, viol>>
mechVars == <<sst, resetQ, mh, unst, wq, nAck, hw, fcb, budget>>
vars     == <<obsVars, mechVars>>

Accepted == {"ok", "head", "connspec"}

(* A stream is closed, as far as frames on the wire tell, once either side has reset it *)
(* or both sides have ended it.                                                          *)
Closed(s)  == recvRST[s] \/ sentRST[s] \/ (sentES[s] /\ cs[s] = "hcr")
(* counts against the advertised limit: open on the wire.  A request that is malformed at request *)
(* level occupies its stream until the server's RST_STREAM is out.                                  *)
Counted(s) == kind[s] \in Accepted \cup {"malS"} /\ ~Closed(s)
CountedSet == {s \in Streams : Counted(s)}
Running    == {s \in Streams : hst[s] = "running"}
Waiting    == {s \in Streams : hst[s] = "unstarted" /\ Counted(s)}   \* accepted, not reset, handler not yet started

RemoveFirst(seq, x) ==
    LET i == CHOOSE i \in 1..Len(seq) : seq[i] = x /\ \A j \in 1..(i - 1) : seq[j] # x
    IN  SubSeq(seq, 1, i - 1) \o SubSeq(seq, i + 1, Len(seq))
InSeq(seq, x) == \E i \in 1..Len(seq) : seq[i] = x

-----------------------------------------------------------------------------
(* ------------------------------ observable layer ------------------------------ *)

ObsInit(a) ==
    /\ adv = a
    /\ cs = [s \in Streams |-> "idle"] /\ kind = [s \in Streams |-> "none"]
    /\ recvRST = [s \in Streams |-> FALSE] /\ sentES = [s \in Streams |-> FALSE]
    /\ sentRST = [s \in Streams |-> FALSE] /\ hst = [s \in Streams |-> "none"]
    /\ rejOwed = {} /\ pings = <<>> /\ setOwed = 0 /\ paused = FALSE /\ setPaused = 0
    /\ dead = FALSE /\ viol = {}
    /\ gs = [cause |-> FALSE, ingo |-> FALSE, shut |-> FALSE, last |-> 0]

(* Client HEADERS opening stream s.  k is the class of the request as the driver built it:  *)
(*   ok / head      well-formed GET/POST / HEAD request                                      *)
(*   connspec       carries a connection-specific header field (RFC 9113 8.2.2)              *)
(*   malF           malformed at field level (bad name/value, pseudo-header order/duplicates) *)
(*   malS           malformed request line (missing/invalid :method, :path, :scheme, ...)     *)
(* A stream opened while adv streams are open is beyond the limit ("over") and must be       *)
(* refused whatever else is wrong with it; malF is rejected before streams are counted.      *)
(* After GOAWAY(NO_ERROR, last) a stream above last is "ignored" (RFC 9113 6.8): the server   *)
(* said it will not process it; nothing is owed for it and it never reaches a handler.        *)
G_CHdr(s, es, k) == cs[s] = "idle" /\ \A t \in Streams : t >= s => cs[t] = "idle"
KindOf(s, k) == IF k = "malF" THEN k
                ELSE IF gs.shut /\ s > gs.last THEN "ignored"
                ELSE IF Cardinality(CountedSet) >= adv THEN "over" ELSE k
U_CHdr(s, es, k) ==
    LET kk == KindOf(s, k) IN
    /\ cs' = [cs EXCEPT ![s] = IF es THEN "hcr" ELSE "open"]
    /\ kind' = [kind EXCEPT ![s] = kk]
    /\ hst' = [hst EXCEPT ![s] = IF kk \in Accepted THEN "unstarted" ELSE "none"]
    /\ rejOwed' = IF kk \in Accepted \cup {"ignored"} THEN rejOwed ELSE rejOwed \cup {s}
    /\ UNCHANGED <<adv, gs, recvRST, sentES, sentRST, pings, setOwed, paused, setPaused, dead>>

G_CData(s, es) == cs[s] = "open"
U_CData(s, es) ==
    /\ cs' = [cs EXCEPT ![s] = IF es THEN "hcr" ELSE @]
    /\ UNCHANGED <<adv, gs, kind, recvRST, sentES, sentRST, hst, rejOwed, pings, setOwed, paused, setPaused, dead>>

G_CRst(s) == cs[s] # "idle"
U_CRst(s) ==
    /\ recvRST' = [recvRST EXCEPT ![s] = TRUE]
    /\ UNCHANGED <<adv, gs, cs, kind, sentES, sentRST, hst, rejOwed, pings, setOwed, paused, setPaused, dead>>

U_CPing(d) ==
    /\ pings' = Append(pings, d)
    /\ UNCHANGED <<adv, gs, cs, kind, recvRST, sentES, sentRST, hst, rejOwed, setOwed, paused, setPaused, dead>>

U_CSettings ==
    /\ setOwed' = setOwed + 1
    /\ setPaused' = IF paused THEN setPaused + 1 ELSE setPaused
    /\ UNCHANGED <<adv, gs, cs, kind, recvRST, sentES, sentRST, hst, rejOwed, pings, paused, dead>>

U_Pause(p) ==
    /\ paused' = p /\ setPaused' = IF p THEN 0 ELSE setPaused
    /\ UNCHANGED <<adv, gs, cs, kind, recvRST, sentES, sentRST, hst, rejOwed, pings, setOwed, dead>>

(* A request handler (the application's) starts for s.  C15: only for accepted, well-formed  *)
(* requests, and never more than adv at once.                                                 *)
G_HStart(s) == kind[s] \in {"ok", "head"} /\ hst[s] = "unstarted" /\ Cardinality(Running) < adv
U_HStart(s) ==
    /\ hst' = [hst EXCEPT ![s] = "running"]
    /\ UNCHANGED <<adv, gs, cs, kind, recvRST, sentES, sentRST, rejOwed, pings, setOwed, paused, setPaused, dead>>

G_HEnd(s) == hst[s] = "running"
U_HEnd(s) ==
    /\ hst' = [hst EXCEPT ![s] = "done"]
    /\ UNCHANGED <<adv, gs, cs, kind, recvRST, sentES, sentRST, rejOwed, pings, setOwed, paused, setPaused, dead>>

(* The server writes HEADERS (status > 0: response head; 0: trailers) or DATA on s.  C15:     *)
(* never after END_STREAM / RST_STREAM was sent or RST_STREAM received for s; only on streams  *)
(* whose request was accepted; an application response needs a started handler; a request with *)
(* connection-specific fields is answered by the server itself with a 4xx (RFC 9113 8.1.1: "a  *)
(* server MAY send an HTTP response prior to closing or resetting the stream").               *)
G_SResp(s, es, status) ==
    /\ cs[s] # "idle" /\ kind[s] \in Accepted
    /\ ~sentES[s] /\ ~sentRST[s] /\ ~recvRST[s]
    /\ kind[s] \in {"ok", "head"} => hst[s] \in {"running", "done"}
    /\ (kind[s] = "connspec" /\ status # 0) => status \in 400..499
U_SResp(s, es, status) ==
    /\ sentES' = [sentES EXCEPT ![s] = @ \/ es]
    /\ hst' = [hst EXCEPT ![s] = IF kind[s] = "connspec" THEN "done" ELSE @]
    /\ UNCHANGED <<adv, gs, cs, kind, recvRST, sentRST, rejOwed, pings, setOwed, paused, setPaused, dead>>

(* The server writes RST_STREAM(s, code).  A rejection that is owed must use PROTOCOL_ERROR     *)
(* (or REFUSED_STREAM beyond the limit); an accepted request is never refused.                  *)
RejCodes(s) == IF kind[s] = "over" THEN {Protocol, Refused} ELSE {Protocol}
G_SRst(s, code) ==
    /\ cs[s] # "idle"
    /\ IF s \in rejOwed THEN code \in RejCodes(s)
       ELSE kind[s] \in Accepted => code \notin {Protocol, Refused}
U_SRst(s, code) ==
    /\ sentRST' = [sentRST EXCEPT ![s] = TRUE]
    /\ rejOwed' = rejOwed \ {s}
    /\ UNCHANGED <<adv, gs, cs, kind, recvRST, sentES, hst, pings, setOwed, paused, setPaused, dead>>

G_SPingAck(d) == InSeq(pings, d)
U_SPingAck(d) ==
    /\ pings' = IF InSeq(pings, d) THEN RemoveFirst(pings, d) ELSE pings
    /\ UNCHANGED <<adv, gs, cs, kind, recvRST, sentES, sentRST, hst, rejOwed, setOwed, paused, setPaused, dead>>

G_SSetAck == setOwed > 0
U_SSetAck ==
    /\ setOwed' = setOwed - 1
    /\ UNCHANGED <<adv, gs, cs, kind, recvRST, sentES, sentRST, hst, rejOwed, pings, paused, setPaused, dead>>

(* Graceful shutdown.  A cause: the client sent GOAWAY, the Server is shutting down, or a handler  *)
(* answered with "Connection: close".  The server may then send GOAWAY(NO_ERROR, last); last must  *)
(* cover every stream whose request was handed to a handler (a later GOAWAY may only lower it).     *)
(* Streams above last are ignored from then on - also those the client opened before it saw the    *)
(* GOAWAY.  Everything else about C15 is unchanged during the shutdown: streams <= last are        *)
(* served, reset, refused and rejected as before, PING and SETTINGS are acknowledged.              *)
U_Cause ==
    /\ gs' = [gs EXCEPT !.cause = TRUE]
    /\ UNCHANGED <<adv, cs, kind, recvRST, sentES, sentRST, hst, rejOwed, pings, setOwed, paused, setPaused, dead>>
Above(last) == {s \in Streams : s > last /\ kind[s] \notin {"none", "malF"}}
G_SGoAwayG(last) ==
    /\ gs.cause /\ (gs.shut => last <= gs.last)
    /\ \A s \in Above(last) : hst[s] \notin {"running", "done"}
U_SGoAwayG(last) ==
    /\ gs' = [gs EXCEPT !.shut = TRUE, !.last = last]
    /\ kind' = [s \in Streams |-> IF s \in Above(last) THEN "ignored" ELSE kind[s]]
    /\ hst' = [s \in Streams |-> IF s \in Above(last) THEN "none" ELSE hst[s]]
    /\ rejOwed' = rejOwed \ Above(last)
    /\ UNCHANGED <<adv, cs, recvRST, sentES, sentRST, pings, setOwed, paused, setPaused, dead>>

(* The connection ends: GOAWAY with an error code, or close.  Inside C15's quantifier the       *)
(* client gives no cause for that except a pile-up of requests whose handlers could not start   *)
(* yet (early resets; how many the server tolerates is its policy).                              *)
G_SGoAway(code) == code = Calm /\ \E s \in Streams : hst[s] = "unstarted" /\ kind[s] \in Accepted
U_Dead ==
    /\ dead' = TRUE /\ pings' = <<>> /\ setOwed' = 0 /\ rejOwed' = {}
    /\ UNCHANGED <<adv, gs, cs, kind, recvRST, sentES, sentRST, hst, paused, setPaused>>

(* Quiescent point: every goroutine of the server is blocked.  cur / ctl / live are the serve   *)
(* (mq = maxQueuedControlFrames, so = SETTINGS acks owed)                                        *)
(* loop's curHandlers, queuedControlFrames and stream table.                                     *)
(*  - nothing is owed to a reading peer: PING acks, SETTINGS acks, rejections;                   *)
(*  - at most adv handlers run; a request that waits for its handler waits because adv          *)
(*    handler goroutines are busy ("queued, not run" - and not lost);                            *)
(*  - the control-frame queue and the handler count are within their bounds (C16);               *)
(*  - the server's stream table is the set of streams that are open on the wire.                 *)
QuiesceOK(cur, ctl, live, mq, so) ==
    \/ dead
    \/ /\ ~paused => (pings = <<>> /\ so = 0 /\ rejOwed = {})
       /\ Cardinality(Running) <= adv /\ cur <= adv
       /\ (~paused /\ Waiting # {}) => cur >= adv
       /\ ctl <= mq
       /\ ~paused => live = CountedSet

-----------------------------------------------------------------------------
(* ------------------------------ mechanism layer ------------------------------- *)

Live(s)  == sst[s] \in {"open", "hcr", "hcl"}
CurStr   == Cardinality({s \in Streams : Live(s)})                  \* curClientStreams
CurH     == Cardinality({s \in Streams : mh[s] \in {"running", "fin"}})   \* curHandlers
IsCtl(f) == f.t \in {"RST", "PA"}
NCtl     == Cardinality({i \in 1..Len(wq) : IsCtl(wq[i])})          \* queuedControlFrames
Frame(t, s, es, c) == [t |-> t, s |-> s, es |-> es, c |-> c]
MaxId    == LET S == {s \in Streams : sst[s] # "idle"} IN                 \* maxClientStreamID
            IF S = {} THEN 0 ELSE CHOOSE m \in S : \A t \in S : t <= m
(* processFrame after a graceful GOAWAY was decided: frames on streams above maxClientStreamID are dropped *)
Discarded(s) == gs.ingo /\ s > MaxId
Check(g, name) == viol' = IF g THEN viol ELSE viol \cup {name}

MechInit ==
    /\ sst = [s \in Streams |-> "idle"] /\ resetQ = [s \in Streams |-> FALSE]
    /\ mh = [s \in Streams |-> "none"] /\ unst = <<>> /\ wq = <<>> /\ nAck = 0
    /\ hw = [s \in Streams |-> 0] /\ fcb = FALSE /\ budget = MCPauses

Init == ObsInit(MCAdv) /\ MechInit

(* closeStream: the stream leaves the table, its queued HEADERS/DATA are dropped (control frames stay) *)
StreamFrame(f, s) == f.s = s /\ ~IsCtl(f)
Drop(q, s) == SelectSeq(q, LAMBDA f : ~StreamFrame(f, s))

(* writeFrame from a handler: frames for a closed stream are ignored *)
Filtered(q, f) == IF sst[f.s] = "closed" THEN q ELSE Append(q, f)

NextId(s) == cs[s] = "idle" /\ \A t \in Streams : t < s => cs[t] # "idle"

(* processHeaders for a new stream *)
(* Environment assumption: no stream is opened in the short window between the server's           *)
(* END_STREAM on a still-open request and the RST_STREAM(NO_ERROR) that follows it (the server      *)
(* counts such a stream until the RST is written; whether it counts is not judged).                 *)
M_ClientHeaders(s, es, k) ==
    /\ NextId(s) /\ \A t \in Streams : sst[t] # "hcl"
    /\ U_CHdr(s, es, k) /\ UNCHANGED viol
    /\ IF k = "malF"
       THEN /\ wq' = Append(wq, Frame("RST", s, FALSE, Protocol))          \* stream error from the frame reader
            /\ UNCHANGED <<sst, resetQ, mh, unst>>
       ELSE IF Discarded(s)
       THEN UNCHANGED <<sst, resetQ, mh, unst, wq>>
       ELSE IF CurStr + 1 > adv
       THEN /\ \E c \in {Protocol, Refused} : wq' = Append(wq, Frame("RST", s, FALSE, c))
            /\ sst' = [sst EXCEPT ![s] = "closed"]                          \* maxClientStreamID has moved past s
            /\ UNCHANGED <<resetQ, mh, unst>>
       ELSE /\ sst' = [sst EXCEPT ![s] = IF es THEN "hcr" ELSE "open"]
            /\ IF k = "malS"
               THEN /\ wq' = Append(wq, Frame("RST", s, FALSE, Protocol))
                    /\ resetQ' = [resetQ EXCEPT ![s] = TRUE]
                    /\ UNCHANGED <<mh, unst>>
               ELSE /\ mh' = [mh EXCEPT ![s] = "queued"]                    \* scheduleHandler (started by M_Start)
                    /\ unst' = Append(unst, s)
                    /\ UNCHANGED <<wq, resetQ>>
    /\ UNCHANGED <<nAck, hw, fcb, budget>>

(* scheduleHandler / handlerDone: start the oldest queued handler while fewer than adv run;    *)
(* entries of streams that are gone are skipped.  The server's own 400 handler runs at once.    *)
M_Start ==
    /\ unst # <<>>
    /\ LET s == Head(unst) IN
       IF ~Live(s)
       THEN /\ unst' = Tail(unst) /\ mh' = [mh EXCEPT ![s] = "done"]
            /\ UNCHANGED <<obsVars, wq>>
       ELSE /\ CurH < adv
            /\ unst' = Tail(unst)
            /\ IF kind[s] = "connspec"
               THEN /\ mh' = [mh EXCEPT ![s] = "fin"]
                    /\ wq' = wq \o <<Frame("H", s, FALSE, 400), Frame("D", s, TRUE, 0)>>
                    /\ UNCHANGED obsVars
               ELSE /\ mh' = [mh EXCEPT ![s] = "running"]
                    /\ U_HStart(s) /\ Check(G_HStart(s), "HandlerStart")
                    /\ UNCHANGED wq
    /\ UNCHANGED <<sst, resetQ, nAck, hw, fcb, budget>>

(* the handler writes and flushes: response HEADERS first (END_STREAM for HEAD), then DATA *)
M_HandlerWrite(s) ==
    /\ mh[s] = "running" /\ hw[s] < MCWrites
    /\ hw' = [hw EXCEPT ![s] = @ + 1]
    /\ wq' = IF hw[s] = 0 THEN Filtered(wq, Frame("H", s, kind[s] = "head", 200))
             ELSE IF kind[s] = "head" THEN wq
             ELSE Filtered(wq, Frame("D", s, FALSE, 0))
    /\ UNCHANGED <<obsVars, sst, resetQ, mh, unst, nAck, fcb, budget>>

(* the handler returns (final frame carries END_STREAM) or panics (RST_STREAM INTERNAL_ERROR) *)
M_HandlerReturn(s, panics) ==
    /\ mh[s] = "running"
    /\ mh' = [mh EXCEPT ![s] = "fin"]
    /\ U_HEnd(s) /\ UNCHANGED viol
    /\ wq' = IF panics THEN Filtered(wq, Frame("HP", s, FALSE, Internal))
             ELSE IF hw[s] = 0 THEN Filtered(wq, Frame("H", s, TRUE, 200))
             ELSE IF kind[s] = "head" THEN wq
             ELSE Filtered(wq, Frame("D", s, TRUE, 0))
    /\ UNCHANGED <<sst, resetQ, unst, nAck, hw, fcb, budget>>

(* handlerDone: the handler goroutine ends once its last frame is written or dropped *)
M_HandlerDone(s) ==
    /\ mh[s] = "fin" /\ \A i \in 1..Len(wq) : ~StreamFrame(wq[i], s)
    /\ mh' = [mh EXCEPT ![s] = "done"]
    /\ UNCHANGED <<obsVars, sst, resetQ, unst, wq, nAck, hw, fcb, budget>>

M_ClientData(s, es) ==
    /\ G_CData(s, es) /\ kind[s] # "malF" /\ U_CData(s, es) /\ UNCHANGED viol
    /\ IF Discarded(s)
       THEN UNCHANGED <<sst, wq, resetQ>>
       ELSE IF sst[s] = "open" /\ ~resetQ[s]
       THEN /\ sst' = [sst EXCEPT ![s] = IF es THEN "hcr" ELSE @]
            /\ UNCHANGED <<wq, resetQ>>
       ELSE IF Live(s) /\ resetQ[s]
       THEN UNCHANGED <<sst, wq, resetQ>>
       ELSE /\ wq' = Append(wq, Frame("RST", s, FALSE, StreamClosedErr))
            /\ resetQ' = [resetQ EXCEPT ![s] = Live(s)]
            /\ UNCHANGED sst
    /\ UNCHANGED <<mh, unst, nAck, hw, fcb, budget>>

M_ClientRST(s) ==
    /\ G_CRst(s) /\ kind[s] # "malF" /\ ~recvRST[s] /\ U_CRst(s) /\ UNCHANGED viol
    /\ IF Live(s) /\ ~Discarded(s)
       THEN sst' = [sst EXCEPT ![s] = "closed"] /\ wq' = Drop(wq, s)
       ELSE UNCHANGED <<sst, wq>>
    /\ UNCHANGED <<resetQ, mh, unst, nAck, hw, fcb, budget>>

(* a graceful shutdown begins (client GOAWAY / Server shutdown / "Connection: close"): GOAWAY goes out *)
(* before anything else that is queued                                                                *)
M_Graceful ==
    /\ MCGoAway /\ ~gs.ingo
    /\ gs' = [gs EXCEPT !.cause = TRUE, !.ingo = TRUE]
    /\ wq' = <<Frame("GA", 0, FALSE, 0)>> \o wq
    /\ UNCHANGED <<adv, cs, kind, recvRST, sentES, sentRST, hst, rejOwed, pings, setOwed, paused, setPaused, dead, viol>>
    /\ UNCHANGED <<sst, resetQ, mh, unst, nAck, hw, fcb, budget>>

M_ClientPing(d) ==
    /\ U_CPing(d) /\ UNCHANGED viol
    /\ wq' = Append(wq, Frame("PA", 0, FALSE, d))
    /\ UNCHANGED <<sst, resetQ, mh, unst, nAck, hw, fcb, budget>>

M_ClientSettings ==
    /\ U_CSettings /\ UNCHANGED viol
    /\ nAck' = nAck + 1
    /\ UNCHANGED <<sst, resetQ, mh, unst, wq, hw, fcb, budget>>

M_Pause(p) ==
    /\ paused # p /\ (p => budget > 0) /\ U_Pause(p) /\ UNCHANGED viol
    /\ budget' = IF p THEN budget - 1 ELSE budget
    /\ UNCHANGED <<sst, resetQ, mh, unst, wq, nAck, hw, fcb>>

M_Window(b) ==
    /\ fcb # b /\ (b => budget > 0)
    /\ fcb' = b /\ budget' = IF b THEN budget - 1 ELSE budget
    /\ UNCHANGED <<obsVars, sst, resetQ, mh, unst, wq, nAck, hw>>

(* scheduleFrameWrite: SETTINGS ack first, then control frames in order, then the head frame   *)
(* of any stream (DATA only within the peer's windows).                                          *)
FirstCtl == CHOOSE i \in 1..Len(wq) : IsCtl(wq[i]) /\ \A j \in 1..(i - 1) : ~IsCtl(wq[j])
Poppable(i) ==
    /\ ~IsCtl(wq[i])
    /\ \A j \in 1..(i - 1) : wq[j].s # wq[i].s \/ IsCtl(wq[j])
    /\ wq[i].t = "D" => ~fcb
Without(i) == SubSeq(wq, 1, i - 1) \o SubSeq(wq, i + 1, Len(wq))

Sent(i) ==
    LET f == wq[i]  rest == Without(i) IN
    CASE f.t = "GA" ->
           /\ U_SGoAwayG(MaxId) /\ Check(G_SGoAwayG(MaxId), "GoAway")
           /\ wq' = rest /\ UNCHANGED <<sst, resetQ>>
      [] f.t = "PA" ->
           /\ U_SPingAck(f.c) /\ Check(G_SPingAck(f.c), "PingAck")
           /\ wq' = rest /\ UNCHANGED <<sst, resetQ>>
      [] f.t = "RST" ->
           /\ U_SRst(f.s, f.c) /\ Check(G_SRst(f.s, f.c), "Rst")
           /\ IF Live(f.s) THEN sst' = [sst EXCEPT ![f.s] = "closed"] /\ wq' = Drop(rest, f.s)
                           ELSE UNCHANGED sst /\ wq' = rest
           /\ UNCHANGED resetQ
      [] f.t = "HP" ->
           /\ U_SRst(f.s, f.c) /\ Check(G_SRst(f.s, f.c) /\ Live(f.s), "PanicRst")
           /\ sst' = [sst EXCEPT ![f.s] = "closed"] /\ wq' = Drop(rest, f.s)
           /\ UNCHANGED resetQ
      [] OTHER ->                                                            \* HEADERS / DATA
           /\ U_SResp(f.s, f.es, f.c)
           /\ Check(G_SResp(f.s, f.es, f.c) /\ sst[f.s] \in {"open", "hcr"}, "FrameAfterClose")
           /\ IF ~f.es THEN wq' = rest /\ UNCHANGED <<sst, resetQ>>
              ELSE IF sst[f.s] = "open"                                      \* response complete, request not: RST(NO_ERROR)
              THEN /\ sst' = [sst EXCEPT ![f.s] = "hcl"]
                   /\ resetQ' = [resetQ EXCEPT ![f.s] = TRUE]
                   /\ wq' = Append(rest, Frame("RST", f.s, FALSE, NoError))
              ELSE /\ sst' = [sst EXCEPT ![f.s] = "closed"]
                   /\ wq' = Drop(rest, f.s) /\ UNCHANGED resetQ

M_Pop ==
    /\ ~paused
    /\ IF \E i \in 1..Len(wq) : wq[i].t = "GA"
       THEN Sent(CHOOSE i \in 1..Len(wq) : wq[i].t = "GA") /\ UNCHANGED nAck
       ELSE IF nAck > 0
       THEN /\ nAck' = nAck - 1 /\ U_SSetAck /\ Check(G_SSetAck, "SettingsAck")
            /\ UNCHANGED <<sst, resetQ, wq>>
       ELSE /\ UNCHANGED nAck
            /\ IF \E i \in 1..Len(wq) : IsCtl(wq[i])
               THEN Sent(FirstCtl)
               ELSE \E i \in 1..Len(wq) : Poppable(i) /\ Sent(i)
    /\ UNCHANGED <<mh, unst, hw, fcb, budget>>

(* the serve loop gives up on a peer that makes it queue control frames without reading them *)
M_Overflow ==
    /\ NCtl > MaxQ
    /\ U_Dead /\ UNCHANGED viol
    /\ UNCHANGED mechVars

CanPop == ~paused /\ (nAck > 0 \/ \E i \in 1..Len(wq) : IsCtl(wq[i]) \/ Poppable(i))
CanStart == unst # <<>> /\ (~Live(Head(unst)) \/ CurH < adv)
CanFinish == \E s \in Streams : mh[s] = "fin" /\ \A i \in 1..Len(wq) : ~StreamFrame(wq[i], s)
Quiescent == ~CanPop /\ ~CanStart /\ ~CanFinish /\ NCtl <= MaxQ

Internal_ ==
    \/ M_Pop
    \/ M_Start
    \/ \E s \in Streams : M_HandlerDone(s)

Env ==
    \/ \E s \in Streams, es \in BOOLEAN, k \in MCKinds : M_ClientHeaders(s, es, k)
    \/ \E s \in Streams : M_ClientData(s, TRUE)      \* (DATA without END_STREAM changes nothing in this model)
    \/ \E s \in Streams : M_ClientRST(s)
    \/ \E d \in MCPings : Len(pings) < MCOwed /\ M_ClientPing(d)
    \/ setOwed < MCSettings /\ M_ClientSettings
    \/ \E p \in BOOLEAN : M_Pause(p)
    \/ \E b \in BOOLEAN : M_Window(b)
    \/ M_Graceful
    \/ \E s \in Streams : M_HandlerWrite(s)
    \/ \E s \in Streams, p \in MCPanics : M_HandlerReturn(s, p)

Next ==
    /\ ~dead
    /\ IF NCtl > MaxQ THEN M_Overflow ELSE (Env \/ Internal_)

Spec == Init /\ [][Next]_vars

(* ------------------------------ design-level properties ------------------------------ *)
NoViolation   == viol = {}
HandlerBound  == Cardinality(Running) <= adv /\ CurH <= adv
CtlBound      == NCtl <= MaxQ + 1
StreamLimit   == CurStr <= adv
QuiescentOK   == (Quiescent /\ ~dead) =>
                   QuiesceOK(CurH, NCtl, {s \in Streams : Live(s)}, MaxQ, setOwed)
(* the handler of a refused or malformed request never exists *)
NeverHandled  == \A s \in Streams : kind[s] \in {"malF", "malS", "over", "ignored"} => (hst[s] = "none" /\ mh[s] = "none")
=============================================================================
