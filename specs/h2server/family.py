# Signatures for h2server violations.  A violation of NoDeviation is identified by the named
# deviation (a known defect modelled explicitly in H2Server.tla / Trace.tla); everything else by the failing
# line's event kind plus a hash of the scenario, so different failures stay distinguishable.
import re
import hashlib
import json


def signature(prop, kind, scenario, detail):
    what = detail.get("what", "")
    m = re.search(r'invariant NoDeviation violated.*?state=\{"dev": "\{(.*?)\}"', what)
    if m:
        names = sorted(x.strip().strip('\\"') for x in m.group(1).split(","))
        return "deviation:" + "+".join(names)
    return None
