SPECIFICATION Spec
CONSTANTS
  Streams = {1}
  MaxQ = 2
  MCAdv = 1
  MCPings = {1, 2}
  MCOwed = 2
  MCSettings = 2
  MCKinds = {"ok", "head", "malS", "malF"}
  MCWrites = 2
  MCPauses = 2
  MCPanics = {FALSE}
  MCGoAway = TRUE
INVARIANTS NoViolation HandlerBound CtlBound StreamLimit QuiescentOK NeverHandled
CHECK_DEADLOCK FALSE
