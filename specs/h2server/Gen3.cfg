SPECIFICATION GSpec
CONSTANTS
  Streams = {1, 2, 3}
  MaxQ = 100
  MCAdv = 2
  MCPings = {}
  MCOwed = 0
  MCSettings = 0
  MCKinds = {"ok", "head", "connspec", "malS"}
  MCWrites = 2
  MCPauses = 0
  MCPanics = {FALSE, TRUE}
  MCGoAway = TRUE
  GenDepth = 16
INVARIANTS Emit NoViolation HandlerBound StreamLimit NeverHandled
CHECK_DEADLOCK FALSE
