------------------------------- MODULE Trace -------------------------------
(* Trace validation for C15.  One trace = one connection of a real http2.Server driven  *)
(* by a scripted client and scripted handlers inside a synctest bubble                  *)
(* (drivers/http2/zz_verif_h2server_test.go).  After every command the driver lets the   *)
(* server run to quiescence and logs, in this order: handlers that started (h_start),    *)
(* every frame the server wrote (s_ lines), and a "q" line with white-box counters of  *)
(* serve loop.  Each line must be a step of the observable layer of H2Server: its guard  *)
(* is the rule C15 imposes on that event.  The mechanism layer is not used here.         *)
EXTENDS H2Server, TraceIO

VARIABLES cur, l, maxq,
          dev    \* named deviation of the real code taken by the LAST step (known finding), else {}
tvars == <<vars, cur, l, maxq, dev>>

Line == Trace[l]
InS(s) == s \in Streams
AsSet(seq) == {seq[i] : i \in 1..Len(seq)}

TInit ==
    \E t \in 1..NT :
       LET h == Trace[Meta.starts[t]] IN
       /\ cur = t /\ l = Meta.starts[t] + 1
       /\ h.e = "hdr"
       /\ maxq = h.maxq /\ dev = {}
       /\ ObsInit(h.adv)
       /\ sst = 0 /\ resetQ = 0 /\ mh = 0 /\ unst = 0 /\ wq = 0 /\ nAck = 0 /\ hw = 0 /\ fcb = 0 /\ budget = 0   \* mechanism layer unused

Mech == UNCHANGED <<viol, mechVars>>

TCHdr   == Line.e = "c_hdr" /\ InS(Line.s) /\ G_CHdr(Line.s, Line.es, Line.k) /\ U_CHdr(Line.s, Line.es, Line.k) /\ Mech
TCData  == Line.e = "c_data" /\ InS(Line.s) /\ G_CData(Line.s, Line.es) /\ U_CData(Line.s, Line.es) /\ Mech
TCRst   == Line.e = "c_rst" /\ InS(Line.s) /\ G_CRst(Line.s) /\ U_CRst(Line.s) /\ Mech
TCPing  == Line.e = "c_ping" /\ U_CPing(Line.d) /\ Mech
TCSet   == Line.e = "c_settings" /\ U_CSettings /\ Mech
TCWU    == Line.e = "c_wu" /\ UNCHANGED vars
TCPause == Line.e = "c_pause" /\ ~paused /\ U_Pause(TRUE) /\ Mech
TCResume == Line.e = "c_resume" /\ paused /\ U_Pause(FALSE) /\ Mech

THStart == Line.e = "h_start" /\ InS(Line.s) /\ G_HStart(Line.s) /\ U_HStart(Line.s) /\ Mech
(* a first write may carry "Connection: close": a cause for a graceful shutdown *)
THWrite == /\ Line.e = "h_write" /\ InS(Line.s) /\ hst[Line.s] = "running"
           /\ IF Has(Line, "close") /\ Line.close THEN U_Cause /\ Mech ELSE UNCHANGED vars
(* the client sends GOAWAY(NO_ERROR) / the Server is told to shut down gracefully *)
TCause  == Line.e \in {"c_goaway", "shutdown"} /\ U_Cause /\ Mech
THRet   == Line.e \in {"h_ret", "h_panic"} /\ InS(Line.s) /\ G_HEnd(Line.s) /\ U_HEnd(Line.s) /\ Mech

TSHdr   == Line.e = "s_hdr" /\ InS(Line.s) /\ G_SResp(Line.s, Line.es, Line.status) /\ U_SResp(Line.s, Line.es, Line.status) /\ Mech
TSData  == Line.e = "s_data" /\ InS(Line.s) /\ G_SResp(Line.s, Line.es, 0) /\ U_SResp(Line.s, Line.es, 0) /\ Mech
TSRst   == Line.e = "s_rst" /\ InS(Line.s) /\ G_SRst(Line.s, Line.code) /\ U_SRst(Line.s, Line.code) /\ Mech
TSPing  == /\ Line.e = "s_ping"
           /\ IF Line.ack THEN G_SPingAck(Line.d) /\ U_SPingAck(Line.d) /\ Mech
                          ELSE UNCHANGED vars
TSSet   == /\ Line.e = "s_settings"
           /\ IF Line.ack THEN G_SSetAck /\ U_SSetAck /\ Mech
                          ELSE UNCHANGED vars
TSWU    == Line.e \in {"s_wu", "s_other"} /\ UNCHANGED vars
TSGoAway == /\ Line.e = "s_goaway"
            /\ IF Line.code = NoError
               THEN G_SGoAwayG(Line.last) /\ U_SGoAwayG(Line.last) /\ Mech
               ELSE G_SGoAway(Line.code) /\ U_Dead /\ Mech

(* White box, exact: with a reading peer the serve loop's curHandlers is the number of application  *)
(* handlers the driver has seen start and not told to return (a handler that was told to return    *)
(* has nothing left to wait for: everything it wrote was flushed before), plus the server's own     *)
(* 400 handlers whose response is held back by flow control.  A slot that is leaked or given back   *)
(* twice shows here before it shows as starvation or as too many handlers.                          *)
Held400 == {s \in Streams : kind[s] = "connspec" /\ hst[s] = "done" /\ ~sentES[s] /\ ~recvRST[s] /\ ~sentRST[s]}
SlotsExact == (~dead /\ ~paused) => Line.cur = Cardinality(Running) + Cardinality(Held400)

(* Known deviation of the real server (finding: merged SETTINGS acks).  processSettings only     *)
(* raises a flag (needToSendSettingsAck); SETTINGS frames that arrive while a frame write is     *)
(* blocked are acknowledged by ONE ack.  The step is specific: k >= 2 SETTINGS frames received   *)
(* while the peer was not reading, at least one but fewer than k acks afterwards.                *)
DevGuard ==
    /\ Line.e = "q" /\ Line.state = "ok" /\ ~dead /\ ~paused
    /\ ~QuiesceOK(Line.cur, Line.ctl, AsSet(Line.live), maxq, setOwed)
    /\ setOwed > 0 /\ setPaused >= 2 /\ setOwed < setPaused
    /\ QuiesceOK(Line.cur, Line.ctl, AsSet(Line.live), maxq, 0) /\ SlotsExact
TQDev ==
    /\ DevGuard
    /\ setOwed' = 0 /\ setPaused' = 0
    /\ UNCHANGED <<adv, gs, cs, kind, recvRST, sentES, sentRST, hst, rejOwed, pings, paused, dead>>
    /\ Mech

TQ == /\ Line.e = "q" /\ Line.state = "ok" /\ SlotsExact
      /\ QuiesceOK(Line.cur, Line.ctl, AsSet(Line.live), maxq, setOwed) /\ UNCHANGED vars

(* once the connection is finished (GOAWAY with an error) nothing more is judged, but a panic, *)
(* a hang or an aborted scenario never matches                                                  *)
TAfter == dead /\ Line.e \notin {"panic", "hang", "abort"} /\ UNCHANGED vars

TNext ==
    /\ l <= Meta.ends[cur]
    /\ l' = l + 1 /\ cur' = cur /\ maxq' = maxq
    /\ dev' = IF DevGuard THEN {"F-settings-acks-merged-while-write-blocked"} ELSE {}
    /\ IF dead THEN TAfter
       ELSE (TQDev \/ TCHdr \/ TCData \/ TCRst \/ TCPing \/ TCSet \/ TCWU \/ TCPause \/ TCResume
             \/ THStart \/ THWrite \/ THRet \/ TCause
             \/ TSHdr \/ TSData \/ TSRst \/ TSPing \/ TSSet \/ TSWU \/ TSGoAway \/ TQ)

TSpec == TInit /\ [][TNext]_tvars
Mark == HighWater(cur, l)
NoDeviation == dev = {}
=============================================================================
