SPECIFICATION GSpec
CONSTANTS
  Streams = {1, 2, 3, 4}
  MaxQ = 100
  MCAdv = 2
  MCPings = {}
  MCOwed = 0
  MCSettings = 0
  MCKinds = {"ok", "head"}
  MCWrites = 1
  MCPauses = 0
  MCPanics = {FALSE, TRUE}
  MCGoAway = TRUE
  GenDepth = 22
INVARIANTS Emit NoViolation HandlerBound StreamLimit NeverHandled
CHECK_DEADLOCK FALSE
