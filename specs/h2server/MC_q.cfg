SPECIFICATION Spec
CONSTANTS
  Streams = {1, 2}
  MaxQ = 2
  MCAdv = 1
  MCPings = {}
  MCOwed = 0
  MCSettings = 0
  MCKinds = {"ok", "connspec"}
  MCWrites = 1
  MCPauses = 0
  MCPanics = {FALSE}
  MCGoAway = TRUE
INVARIANTS NoViolation HandlerBound CtlBound StreamLimit QuiescentOK NeverHandled
CHECK_DEADLOCK FALSE
