SPECIFICATION Spec
CONSTANTS
  Streams = {1}
  MaxQ = 3
  MCAdv = 1
  MCPings = {1}
  MCOwed = 6
  MCSettings = 1
  MCKinds = {"ok"}
  MCWrites = 1
  MCPauses = 1
  MCPanics = {FALSE}
  MCGoAway = FALSE
INVARIANTS NoViolation HandlerBound CtlBound StreamLimit QuiescentOK NeverHandled
CHECK_DEADLOCK FALSE
