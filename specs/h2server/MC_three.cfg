SPECIFICATION Spec
CONSTANTS
  Streams = {1, 2, 3}
  MaxQ = 2
  MCAdv = 2
  MCPings = {}
  MCOwed = 0
  MCSettings = 0
  MCKinds = {"ok"}
  MCWrites = 1
  MCPauses = 0
  MCPanics = {FALSE}
  MCGoAway = TRUE
INVARIANTS NoViolation HandlerBound CtlBound StreamLimit QuiescentOK NeverHandled
CHECK_DEADLOCK FALSE
