SPECIFICATION GSpec
CONSTANTS
  Streams = {1, 2, 3}
  MaxQ = 100
  MCAdv = 2
  MCPings = {}
  MCOwed = 0
  MCSettings = 0
  MCKinds = {"ok"}
  MCWrites = 0
  MCPauses = 0
  MCPanics = {FALSE}
  MCGoAway = FALSE
  GenDepth = 18
INVARIANTS Emit NoViolation HandlerBound StreamLimit NeverHandled
CHECK_DEADLOCK FALSE
