SPECIFICATION TSpec
CONSTANTS
  Streams = {1, 3, 5, 7, 9, 11, 13, 15, 17, 19, 21, 23, 25, 27, 29, 31}
  MaxQ = 0
  MCAdv = 0
  MCPings = {}
  MCOwed = 0
  MCSettings = 0
  MCKinds = {}
  MCWrites = 0
  MCPauses = 0
  MCPanics = {}
  MCGoAway = FALSE
CONSTRAINT Mark
POSTCONDITION AllConsumed
CHECK_DEADLOCK FALSE
INVARIANTS NoDeviation
