SPECIFICATION GSpec
CONSTANTS
  Streams = {1, 2}
  MaxQ = 100
  MCAdv = 1
  MCPings = {}
  MCOwed = 0
  MCSettings = 0
  MCKinds = {"ok"}
  MCWrites = 1
  MCPauses = 0
  MCPanics = {FALSE}
  MCGoAway = TRUE
  GenDepth = 12
INVARIANTS Emit NoViolation HandlerBound StreamLimit NeverHandled
CHECK_DEADLOCK FALSE
