------------------------------ MODULE Hostile ------------------------------
(* Trace validation for C16: the property-level machine "a server connection under any  *)
(* client byte stream".  One trace = one connection of a real http2.Server inside a      *)
(* synctest bubble that is fed hostile input (mutated valid sessions, random bytes with  *)
(* and without the preface, floods of small frames while the peer does not read), then   *)
(* has every handler released, the peer reading again and the fake clock advanced past   *)
(* GOAWAY / idle / ping timeouts (drivers/http2/zz_verif_h2server_test.go).              *)
(*                                                                                       *)
(* Lines: hdr, in (input written), q (quiescent point with the serve loop's counters),   *)
(* release (handlers told to return), out (frames drained), tick (clock advanced),       *)
(* final (facts at the end).  Accepted iff                                                *)
(*   - no panic / hang / abort line (they match no step);                                 *)
(*   - at every quiescent point the serve loop answered or has ended ("stuck" matches    *)
(*     nothing), queued control frames <= maxQueuedControlFrames and running handlers     *)
(*     <= the advertised limit;                                                           *)
(*   - at the end the connection is closed (the peer reads EOF), or it is still serving:  *)
(*     no GOAWAY was sent, the serve loop answers and a fresh PING was acknowledged with  *)
(*     the same payload.  (Whether the serve goroutine is gone is checked by the driver   *)
(*     after the client has closed its side too: a "leak" line matches no step.  The      *)
(*     synctest pipe does not wake the server's own reader when the server closes the     *)
(*     connection, so "closed" cannot be required of the goroutine before that.)          *)
EXTENDS Integers, Sequences, TLC, TraceIO

VARIABLES cur, l, adv, maxq, phase, gone
hvars == <<cur, l, adv, maxq, phase, gone>>

Line == Trace[l]

TInit ==
    \E t \in 1..NT :
       LET h == Trace[Meta.starts[t]] IN
       /\ cur = t /\ l = Meta.starts[t] + 1
       /\ h.e = "hdr" /\ adv = h.adv /\ maxq = h.maxq
       /\ phase = "input" /\ gone = FALSE

Bounded == Line.state = "closed" \/ (Line.state = "ok" /\ Line.ctl <= maxq /\ Line.cur <= adv)

TIn      == Line.e = "in" /\ phase = "input" /\ UNCHANGED <<phase, gone>>
TQ       == /\ Line.e = "q" /\ Bounded /\ (gone => Line.state = "closed")     \* a closed connection stays closed
            /\ gone' = (gone \/ Line.state = "closed") /\ UNCHANGED phase
(* the client vanishes right after its input, handlers still running: only the driver's final check *)
(* (serve loop gone once the client has closed: a "leak" line matches nothing) remains             *)
TAbrupt  == Line.e = "abrupt" /\ phase = "input" /\ phase' = "done" /\ UNCHANGED gone
TRelease == Line.e = "release" /\ phase = "input" /\ phase' = "drain" /\ UNCHANGED gone
TOut     == Line.e = "out" /\ phase = "drain" /\ UNCHANGED <<phase, gone>>
TTick    == Line.e = "tick" /\ phase = "drain" /\ UNCHANGED <<phase, gone>>
(* bounded time: after the clock has passed every timeout the connection is closed or serving *)
(* (a PING can only be put to a server whose input ended on a frame boundary, outside a header block) *)
Serving  == /\ Line.goaway < 0 /\ Line.state = "ok" /\ Line.ctl <= maxq /\ Line.cur <= adv
            /\ Line.insync => Line.acked
TFinal   == /\ Line.e = "final" /\ phase = "drain"
            /\ Line.closed \/ (~gone /\ Serving)
            /\ phase' = "done" /\ UNCHANGED gone

TNext ==
    /\ l <= Meta.ends[cur]
    /\ l' = l + 1 /\ cur' = cur /\ adv' = adv /\ maxq' = maxq
    /\ (TIn \/ TQ \/ TAbrupt \/ TRelease \/ TOut \/ TTick \/ TFinal)

TSpec == TInit /\ [][TNext]_hvars
Mark == HighWater(cur, l)
=============================================================================
