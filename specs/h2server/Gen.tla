-------------------------------- MODULE Gen --------------------------------
(* Schedule generator for C15: walks the mechanism layer of H2Server and records the      *)
(* commands of the environment (client frames, handler calls).  A command is issued only   *)
(* when the modelled server is quiescent - exactly how the Go driver steps the real        *)
(* server - so a generated schedule is a sequence of driver commands: every order of       *)
(* stream opening, END_STREAM, reset, handler write, handler return / panic over the       *)
(* configured streams.  Only the commands are exported; the verdict about what the real    *)
(* server does with them comes from Trace.tla.                                              *)
EXTENDS H2Server, Json

CONSTANT GenDepth
VARIABLE hist
gvars == <<vars, hist>>

GInit == Init /\ hist = <<[op |-> "cfg", adv |-> MCAdv]>>
Rec(r) == hist' = Append(hist, r)

Useful(s) == ~Closed(s) \/ mh[s] \in {"queued", "running"}

GEnv ==
    \/ \E s \in Streams, es \in BOOLEAN, k \in MCKinds :
          M_ClientHeaders(s, es, k) /\ Rec([op |-> "open", s |-> s, es |-> es, k |-> k])
    \/ \E s \in Streams : ~Closed(s) /\ M_ClientData(s, TRUE) /\ Rec([op |-> "data", s |-> s, es |-> TRUE])
    \/ \E s \in Streams : Useful(s) /\ M_ClientRST(s) /\ Rec([op |-> "rst", s |-> s])
    \/ M_Graceful /\ Rec([op |-> "goaway"])      \* a graceful shutdown begins; the driver picks the cause
    \/ \E s \in Streams : M_HandlerWrite(s) /\ Rec([op |-> "hwrite", s |-> s])
    \/ \E s \in Streams, p \in MCPanics :
          M_HandlerReturn(s, p) /\ Rec([op |-> IF p THEN "hpanic" ELSE "hret", s |-> s])

CanEnv ==
    \/ \E s \in Streams : NextId(s) /\ \A t \in Streams : sst[t] # "hcl"
    \/ \E s \in Streams : ~Closed(s) /\ cs[s] = "open" /\ kind[s] # "malF"
    \/ \E s \in Streams : Useful(s) /\ cs[s] # "idle" /\ kind[s] # "malF" /\ ~recvRST[s]
    \/ \E s \in Streams : mh[s] = "running"

GNext ==
    /\ ~dead /\ Len(hist) <= GenDepth
    /\ IF Quiescent THEN GEnv ELSE (Internal_ /\ UNCHANGED hist)

GSpec == GInit /\ [][GNext]_gvars

Complete == Quiescent /\ (Len(hist) > GenDepth \/ ~CanEnv)
Emit == ~Complete \/ PrintT(<<"BEH", ToJson(hist)>>)
=============================================================================
