#!/usr/bin/env python3
# One-shot transcription helper (NOT run by any check).
#
# Writes HuffmanRFC7541.tla (RFC 7541 Appendix B: 256 symbols + EOS, code and bit length) and
# HpackStatic.tla (RFC 7541 Appendix A: the 61 static table entries) from the reproduction of
# those RFC tables in golang/net at the pinned commit (http2/hpack/tables.go, static_table.go).
# The generated modules are committed and pinned: they are the RFC's tables, not a live copy,
# so a later change to tables.go / static_table.go shows up as a disagreement with the
# specification.  The generated modules carry anchors that tie them to the RFC independently
# of the Go source (RFCAnchors, checked by HuffGen.tla: complete prefix code, EOS = 30 ones,
# RFC 7541 C.4/C.6 example encodings; ASSUMEs on four static table entries).
#
# usage: gen_tables.py [/repo]   (writes next to this file)
import os
import re
import sys

repo = sys.argv[1] if len(sys.argv) > 1 else "/repo"
here = os.path.dirname(os.path.abspath(__file__))

src = open(os.path.join(repo, "http2/hpack/tables.go")).read()
codes = re.search(r"var huffmanCodes = \[256\]uint32\{(.*?)\n\}", src, re.S).group(1)
codes = [int(x, 16) for x in re.findall(r"0x[0-9a-fA-F]+", codes)]
lens = re.search(r"var huffmanCodeLen = \[256\]uint8\{(.*?)\n\}", src, re.S).group(1)
lens = [int(x) for x in re.findall(r"\d+", lens)]
assert len(codes) == 256 and len(lens) == 256
codes.append(0x3FFFFFFF)  # EOS, RFC 7541 Appendix B last row
lens.append(30)


def rows(xs, per=12):
    out = []
    for i in range(0, len(xs), per):
        out.append("    " + ", ".join(str(x) for x in xs[i:i + per]))
    return ",\n".join(out)


with open(os.path.join(here, "HuffmanRFC7541.tla"), "w") as f:
    f.write("""-------------------------- MODULE HuffmanRFC7541 --------------------------
(* RFC 7541 Appendix B, transcribed once (specs/hpackwire/gen_tables.py) and pinned.      *)
(* Entry s+1 of each tuple belongs to octet value s (0..255); entry 257 is EOS.           *)
(* This is the RFC's table, deliberately NOT read from the Go package at check time.      *)
(* Use: EXTENDS this module and bind Huffman's constants in the .cfg:                      *)
(*   CONSTANTS NSym = 256  W = 8  Code <- RFCCode  CLen <- RFCLen                         *)
(* (EXTENDS + cfg substitution instead of INSTANCE so that TLC caches the inverse tables). *)
EXTENDS Huffman

RFCCodeSeq == <<
%s
>>

RFCLenSeq == <<
%s
>>

RFCCode == [s \\in 0..256 |-> RFCCodeSeq[s + 1]]
RFCLen  == [s \\in 0..256 |-> RFCLenSeq[s + 1]]

(* Independent anchors to the RFC text (not to the Go tables); checked by MC_HuffmanRFC.   *)
RFCAnchors ==
  /\\ Len(RFCCodeSeq) = 257 /\\ Len(RFCLenSeq) = 257
  /\\ RFCCode[256] = 1073741823 /\\ RFCLen[256] = 30            \\* EOS = 30 ones
  /\\ WellFormed                                                \\* complete prefix-free code
  \\* RFC 7541 C.4.1 "www.example.com", C.4.2 "no-cache", C.4.3 "custom-key"/"custom-value",
  \\* C.6.1 "302" and "private"
  /\\ Enc(<<119,119,119,46,101,120,97,109,112,108,101,46,99,111,109>>)
       = <<241,227,194,229,242,58,107,160,171,144,244,255>>
  /\\ Enc(<<110,111,45,99,97,99,104,101>>) = <<168,235,16,100,156,191>>
  /\\ Enc(<<99,117,115,116,111,109,45,107,101,121>>) = <<37,168,73,233,91,169,125,127>>
  /\\ Enc(<<99,117,115,116,111,109,45,118,97,108,117,101>>) = <<37,168,73,233,91,184,232,180,191>>
  /\\ Enc(<<51,48,50>>) = <<100,2>>
  /\\ Enc(<<112,114,105,118,97,116,101>>) = <<174,195,119,26,75>>
=============================================================================
""" % (rows(codes), rows(lens, 16)))

st = open(os.path.join(repo, "http2/hpack/static_table.go")).read()
ents = st[st.index("ents: []HeaderField{"):]
pairs = re.findall(r'\{Name: "([^"]*)", Value: "([^"]*)", Sensitive: false\}', ents)
assert len(pairs) == 61, len(pairs)


def tup(s):
    return "<<" + ",".join(str(b) for b in s.encode()) + ">>"


with open(os.path.join(here, "HpackStatic.tla"), "w") as f:
    f.write("""---------------------------- MODULE HpackStatic ----------------------------
(* RFC 7541 Appendix A (static table, 61 entries), transcribed once by gen_tables.py and  *)
(* pinned.  Names and values are tuples of octet values.                                  *)
EXTENDS Integers, Sequences

StaticTab == <<
""")
    for i, (n, v) in enumerate(pairs):
        f.write("  [n |-> %s, v |-> %s]%s   \\* %d %s: %s\n" % (tup(n), tup(v), "," if i < 60 else " ", i + 1, n, v))
    f.write(""">>

ASSUME Len(StaticTab) = 61
(* anchors to the RFC text: 2 = :method GET, 8 = :status 200, 16 = accept-encoding gzip, deflate, 61 = www-authenticate *)
ASSUME StaticTab[2] = [n |-> <<58,109,101,116,104,111,100>>, v |-> <<71,69,84>>]
ASSUME StaticTab[8] = [n |-> <<58,115,116,97,116,117,115>>, v |-> <<50,48,48>>]
ASSUME StaticTab[16].v = <<103,122,105,112,44,32,100,101,102,108,97,116,101>>
ASSUME StaticTab[61] = [n |-> <<119,119,119,45,97,117,116,104,101,110,116,105,99,97,116,101>>, v |-> <<>>]
=============================================================================
""")
print("written")
