SPECIFICATION Spec
CONSTANTS
  NSym = 5
  W = 4
  Code <- ACode
  CLen <- ALen
  MaxStr = 4
  MaxUnits = 3
INVARIANT Bijection
CHECK_DEADLOCK FALSE
