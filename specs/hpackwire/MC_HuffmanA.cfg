SPECIFICATION Spec
CONSTANTS
  NSym = 5
  W = 4
  Code <- ACode
  CLen <- ALen
  MaxStr = 7
  MaxUnits = 4
INVARIANT Bijection
CHECK_DEADLOCK FALSE
