------------------------------ MODULE MC_Split ------------------------------
(* C03 at design level: the incremental machine of HpackWire (Write(chunk) keeps the octets  *)
(* of the incomplete representation, Close fails if any are left) observes the same thing    *)
(* as a single Write, for every partition of a block.                                        *)
(*   short blocks: every octet string up to MaxOctets over the boundary alphabet, under      *)
(*                 every partition (2^(n-1) of them) and four configurations                 *)
(*   long blocks:  the longest representation a decoder limited to ms accepts (literal with  *)
(*                 new name, both strings of length ms, both length integers padded to       *)
(*                 MaxIntOctets), alone or after another field, under every 2-chunk partition *)
(* The machine may bound what it buffers (SaveBound(ms) = 2 * (ms + Overhead), a memory      *)
(* bound for C02).  BoundTheorem: split independence holds for the long blocks exactly when  *)
(* that bound is not below the longest valid incomplete representation, i.e. iff             *)
(* Overhead >= MaxIntOctets (= 10).  MC_Split.cfg checks the machine with Overhead = 10;     *)
(* MC_Split_F3.cfg checks the same theorem with Overhead = 8, the value golang/net has       *)
(* today: the theorem then says that partitions cutting a padded literal after octet         *)
(* 2 * (ms + 8) are NOT independent (finding F3), which the same invariant confirms.         *)
EXTENDS HpackWire, TLC

CONSTANTS Alphabet, MaxOctets, LongMs, LongFirst

Cfgs == << [ms |-> 0,  im |-> 64, al |-> 64],
           [ms |-> 1,  im |-> 64, al |-> 64],
           [ms |-> 12, im |-> 0,  al |-> 0],
           [ms |-> 0,  im |-> 32, al |-> 70] >>

(* ---- partitions ---- *)
\* chunks of b for the set S of cut positions (a cut at i separates octets i and i+1)
RECURSIVE ChunksFrom(_, _, _, _)
ChunksFrom(b, S, from, i) ==
    IF i >= Len(b) THEN <<SubSeq(b, from, Len(b))>>
    ELSE IF i \in S THEN <<SubSeq(b, from, i)>> \o ChunksFrom(b, S, i + 1, i + 1)
    ELSE ChunksFrom(b, S, from, i + 1)
Chunks(b, S) == IF b = <<>> THEN <<>> ELSE ChunksFrom(b, S, 1, 1)
Chunks2(b, i) == <<SubSeq(b, 1, i), SubSeq(b, i + 1, Len(b))>>       \* one cut, no recursion (long blocks)

(* ---- crafted long blocks (spec-level wire builder, RFC 7541 5.1 / 5.2 / 6.2) ---- *)
Rep(o, k) == [i \in 1..k |-> o]

\* continuation octets for remainder r, exactly k of them (leading-zero groups pad)
RECURSIVE ContOctets(_, _)
ContOctets(r, k) == IF k = 1 THEN <<r>> ELSE <<128 + (r % 128)>> \o ContOctets(r \div 128, k - 1)

\* integer v with an N-bit prefix, padded to `octets` octets when v reaches the prefix limit
IntPadded(high, N, v, octets) ==
    IF v < Pow2(N) - 1 THEN <<high + v>>
    ELSE <<high + Pow2(N) - 1>> \o ContOctets(v - (Pow2(N) - 1), octets - 1)

StrPadded(ch, len) == IntPadded(0, 7, len, MaxIntOctets) \o Rep(ch, len)
PaddedLiteral(first, ms) == <<first>> \o StrPadded(110, ms) \o StrPadded(118, ms)

VARIABLE c
Init == c = [k |-> "short", x |-> <<>>, ms |-> 0]
Next ==
    \/ /\ c.k = "short" /\ Len(c.x) < MaxOctets
       /\ \E o \in Alphabet : c' = [c EXCEPT !.x = Append(@, o)]
    \/ /\ c.k = "short" /\ c.x = <<>>
       /\ \E ms \in LongMs, first \in LongFirst, pre \in {<<>>, <<130>>} :
             c' = [k |-> "long", x |-> pre \o PaddedLiteral(first, ms), ms |-> ms]
Spec == Init /\ [][Next]_c

Agree(chunks, b, st, cfg) == IncOutcome(chunks, st, cfg) = OneShotOutcome(b, st, cfg)

(* C03 on the machine: short blocks, every partition, every configuration *)
SplitIndependentShort ==
    c.k = "short" =>
       \A i \in 1..Len(Cfgs) :
          LET cf == [ms |-> Cfgs[i].ms, al |-> Cfgs[i].al]  st == NewState(Cfgs[i].im) IN
          \A S \in SUBSET (1..(Len(c.x) - 1)) : Agree(Chunks(c.x, S), c.x, st, cf)

(* long blocks: every 2-chunk partition; the cuts at which the machine disagrees with the    *)
(* single Write are exactly those that leave more than SaveBound(ms) octets of the padded    *)
(* literal buffered -- none iff Overhead >= MaxIntOctets                                     *)
LongCfg     == [ms |-> c.ms, al |-> 4096]
LongStart   == Len(c.x) - MaxReprLen(c.ms)          \* octets before the padded literal
BoundTheorem ==
    c.k = "long" =>
       \E one \in {OneShotOutcome(c.x, NewState(4096), LongCfg)} :           \* (evaluated once)
       \E bad \in {{i \in 1..(Len(c.x) - 1) : IncOutcome(Chunks2(c.x, i), NewState(4096), LongCfg) # one}} :
          /\ one.ok
          /\ bad = {i \in 1..(Len(c.x) - 1) : i - LongStart > SaveBound(c.ms)}
          /\ (bad = {}) <=> (Overhead >= MaxIntOctets)
=============================================================================
