------------------------------ MODULE HuffInit ------------------------------
(* C04, first use of the Huffman decoder by several goroutines.                              *)
(* HuffmanDecode is specified as a pure function of its input (Huffman.tla: Dec); in the     *)
(* code it walks a lazily built decoding tree shared by all goroutines.  This module models   *)
(* the lazy construction the way huffman.go does it -- buildRootHuffmanNode PUBLISHES the     *)
(* root pointer first and then inserts the symbols one by one -- guarded by a sync.Once:      *)
(*   Call    a goroutine asks for the root: the first one runs the builder, the others wait   *)
(*           until the Once is done (the Once is the linearisation point)                     *)
(*   Publish / Insert / Finish   the builder's steps                                          *)
(*   Walk    a goroutine decodes with the tree as it is at that moment                        *)
(* InitBeforeUse: no walk starts before all symbols are in the tree; hence every decode sees  *)
(* the complete table and equals Dec (PureResult).  With FastPath = TRUE a caller that finds  *)
(* the root pointer already published skips the Once: TLC then finds a walk over a half-built *)
(* tree in a handful of states (MC_HuffInit_fastpath.cfg, expected to FAIL -- it documents    *)
(* why the Once may not be bypassed while the root is published before it is complete).       *)
EXTENDS Integers, FiniteSets

CONSTANTS Procs, NSyms, FastPath

VARIABLES once,    \* "idle" | "running" | "done"
          root,    \* lazyRootHuffmanNode # nil
          ins,     \* symbols inserted so far
          pc,      \* pc[p] \in {"call", "wait", "build", "walk", "ret"}
          saw      \* saw[p]: symbols present when p's walk started
vars == <<once, root, ins, pc, saw>>

Init == /\ once = "idle" /\ root = FALSE /\ ins = 0
        /\ pc = [p \in Procs |-> "call"] /\ saw = [p \in Procs |-> 0]

StartWalk(p) == pc' = [pc EXCEPT ![p] = "walk"] /\ saw' = [saw EXCEPT ![p] = ins]

Call(p) ==
    /\ pc[p] = "call"
    /\ IF FastPath /\ root THEN StartWalk(p) /\ UNCHANGED <<once, root, ins>>
       ELSE CASE once = "idle"    -> once' = "running" /\ pc' = [pc EXCEPT ![p] = "build"] /\ UNCHANGED <<root, ins, saw>>
              [] once = "running" -> pc' = [pc EXCEPT ![p] = "wait"] /\ UNCHANGED <<once, root, ins, saw>>
              [] once = "done"    -> StartWalk(p) /\ UNCHANGED <<once, root, ins>>

Publish(p) == pc[p] = "build" /\ ~root /\ root' = TRUE /\ UNCHANGED <<once, ins, pc, saw>>
Insert(p)  == pc[p] = "build" /\ root /\ ins < NSyms /\ ins' = ins + 1 /\ UNCHANGED <<once, root, pc, saw>>
Finish(p)  == pc[p] = "build" /\ root /\ ins = NSyms /\ once' = "done" /\ StartWalk(p) /\ UNCHANGED <<root, ins>>
Wake(p)    == pc[p] = "wait" /\ once = "done" /\ StartWalk(p) /\ UNCHANGED <<once, root, ins>>
Walk(p)    == pc[p] = "walk" /\ pc' = [pc EXCEPT ![p] = "ret"] /\ UNCHANGED <<once, root, ins, saw>>

Next == \E p \in Procs : Call(p) \/ Publish(p) \/ Insert(p) \/ Finish(p) \/ Wake(p) \/ Walk(p)
Spec == Init /\ [][Next]_vars

TypeOK == once \in {"idle", "running", "done"} /\ root \in BOOLEAN /\ ins \in 0..NSyms
InitBeforeUse == \A p \in Procs : pc[p] \in {"walk", "ret"} => saw[p] = NSyms
\* a decode returns Dec(input) iff it walked the complete table
PureResult == \A p \in Procs : pc[p] = "ret" => saw[p] = NSyms
OnceDone   == once = "done" => root /\ ins = NSyms
=============================================================================
