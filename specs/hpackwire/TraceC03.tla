------------------------------ MODULE TraceC03 ------------------------------
(* C03, code -> spec.  A trace is one connection.  For every header block the driver logs    *)
(*   blk   the block and what an observer saw when it was fed in a single Write and closed   *)
(*         (success?, emitted fields, table, size, maximum)                                  *)
(*   part  the same observation (fields and table as digests) when the block was fed from    *)
(*         the same decoder state in the partition given by cuts                             *)
(* Every part line must show exactly the single-Write observation (same success/failure,     *)
(* same emitted fields, same table state): that is C03.  The single-Write observation is     *)
(* itself checked against the reference decoder RefDecode the way C02 judges it, and the     *)
(* reference supplies the decoder state in which the next block starts.                      *)
EXTENDS HpackWire, TraceIO

VARIABLES cur, l, cfg, st, whole, alive
tvars == <<cur, l, cfg, st, whole, alive>>

Line == Trace[l]
IsPrefixSeq(a, b) == Len(a) <= Len(b) /\ a = SubSeq(b, 1, Len(a))

TInit ==
    \E t \in 1..NT :
       LET h == Trace[Meta.starts[t]] IN
       /\ cur = t /\ l = Meta.starts[t] + 1
       /\ h.e = "hdr"
       /\ cfg = [ms |-> h.ms, al |-> h.al]
       /\ st = NewState(h.im)
       /\ whole = [ok |-> TRUE, emd |-> 0, nem |-> 0, td |-> 0, size |-> 0, max |-> h.im]
       /\ alive = TRUE

\* the single-Write observation against the reference (as C02 judges it)
JudgeWhole(r) ==
    IF r.k = "limit" THEN TRUE                      \* beyond the specified integer range: not judged
    ELSE /\ (r.k # "ok" => ~Line.ok)                 \* malformed or truncated => reported as an error
         /\ IF Line.ok THEN /\ r.k = "ok" /\ Line.em = r.em
                            /\ Line.tab = r.st.tab /\ Line.size = r.st.size /\ Line.max = r.st.max
            ELSE IsPrefixSeq(Line.em, r.em)

TBlk ==
    /\ Line.e = "blk" /\ alive
    /\ Line.nem = Len(Line.em)
    /\ \E r \in {RefDecode(Line.b, st, cfg)} :                 \* (evaluated once)
       /\ JudgeWhole(r)
       /\ st' = (IF Line.ok /\ r.k = "ok" THEN EndBlock(r.st) ELSE st)
       /\ alive' = (Line.ok /\ r.k = "ok")
    /\ whole' = [ok |-> Line.ok, emd |-> Line.emd, nem |-> Line.nem, td |-> Line.td,
                 size |-> Line.size, max |-> Line.max]

(* the C03 judgement *)
SameAsSingleWrite ==
    /\ Line.ok = whole.ok
    /\ Line.nem = whole.nem /\ Line.emd = whole.emd
    /\ Line.td = whole.td /\ Line.size = whole.size /\ Line.max = whole.max

TPart == Line.e = "part" /\ SameAsSingleWrite /\ UNCHANGED <<st, whole, alive>>

TNext ==
    /\ l <= Meta.ends[cur]
    /\ l' = l + 1 /\ cur' = cur /\ cfg' = cfg
    /\ (TBlk \/ TPart)

TSpec == TInit /\ [][TNext]_tvars
Mark == HighWater(cur, l)
=============================================================================
