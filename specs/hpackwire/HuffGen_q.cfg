SPECIFICATION Spec
CONSTANTS
  NSym = 256
  W = 8
  Code <- RFCCode
  CLen <- RFCLen
  MaxFill = 14
  Second = {0, 1, 7, 15, 31, 63, 64, 127, 128, 129, 191, 192, 223, 224, 239, 240, 247, 248, 251, 252, 253, 254, 255}
INVARIANT Emit
CHECK_DEADLOCK FALSE
