# hpackwire: scenario signatures for the known-findings filter (FRAMEWORK.md section 6).
#
# A signature names the *class* of the failing scenario, computed only from what the driver
# logged / TLC predicted, so that a different violation of the same property is still reported.


def _last(scn):
    lines = (scn or {}).get("lines") or []
    return lines[-1] if lines else {}


def _find(scn, e):
    for ln in reversed((scn or {}).get("lines") or []):
        if ln.get("e") == e:
            return ln
    return {}


def signature(prop, kind, scenario, detail):
    what = (detail or {}).get("what", "")
    if kind == "trace" and prop == "C03":
        ln = _last(scenario)
        hdr = _find(scenario, "hdr")
        blk = _find(scenario, "blk")
        if ln.get("e") == "part":
            ms = hdr.get("ms", 0)
            err = ln.get("err", "")
            buffered = ln.get("buffered", 0)
            # F3: Decoder.Write's "extra paranoia" bound 2*(maxStrLen+8) is below the longest
            # valid representation 1+2*(10+maxStrLen): a Write that ends late inside a literal
            # whose length integers are padded fails with ErrStringLength although the same
            # octets in a single Write are decoded (the single Write may still fail later in
            # the block for another reason; the partition then fails earlier and emits less).
            if (not ln.get("ok") and err == "hpack: string too long" and err != blk.get("err") and ms >= 127
                    and 1 <= ln.get("call", 0) <= len(ln.get("cuts", [])) + 1
                    and 2 * (ms + 8) < buffered <= 2 * (ms + 10)):
                return "C03;split-only-ErrStringLength;2*(maxStrLen+8)<buffered<=2*(maxStrLen+10);padded-literal"
            if blk.get("ok") and not ln.get("ok"):
                return "C03;split-fails-single-write-succeeds;err=%s;ms=%s" % (err or "?", "0" if ms == 0 else "set")
            if not blk.get("ok") and ln.get("ok"):
                return "C03;split-succeeds-single-write-fails;kind=%s" % blk.get("kind", "?")
            diff = [k for k in ("nem", "emd", "td", "size", "max") if ln.get(k) != blk.get(k)]
            return "C03;split-differs;fields=%s;kind=%s" % (",".join(diff) or "?", blk.get("kind", "?"))
        if ln.get("e") == "blk":
            return "C03;single-write-vs-reference;kind=%s;ok=%s" % (ln.get("kind", "?"), ln.get("ok"))
        return "C03;%s" % (ln.get("e", "?"))
    if kind == "trace" and prop == "C02":
        ln = _last(scenario)
        inv = ""
        if "invariant" in what:
            inv = what.split("invariant ", 1)[1].split(" ", 1)[0]
        return "C02;%s;%s;kind=%s;err=%s" % (ln.get("e", "?"), inv or "step", _find(scenario, "w").get("kind", "?"), ln.get("err"))
    if kind == "trace" and prop == "C04":
        ln = _last(scenario)
        if ln.get("e") in ("cres", "panic", "hang") and _find(scenario, "hdr").get("conc"):
            return "C04;concurrent-first-use;%s;decode-of-canonical-encoding-%s" % (
                ln.get("e"), "failed" if not ln.get("ok", False) else "wrong-output")
        return "C04;%s;%s;len=%d" % (ln.get("e", "?"), ln.get("how", "roundtrip"), len(ln.get("in", ln.get("s", []))))
    if kind == "replay" and prop == "C02":
        step = (detail or {}).get("step")
        res = (scenario or {}).get("res") or []
        r = res[step] if isinstance(step, int) and 0 <= step < len(res) else {}
        first = (scenario or {}).get("in") or []
        cls = "none" if not first else ("indexed" if first[0] >= 128 else "literal-inc" if first[0] >= 64 else
                                        "size-update" if first[0] >= 32 else "literal-never" if first[0] >= 16 else "literal-no")
        return "C02;replay;%s;predicted=%s;first=%s;ms=%s" % (what, r.get("k", "?"), cls, r.get("ms", "?"))
    if kind == "replay" and prop == "C04":
        scn = scenario or {}
        return "C04;replay;%s;%s;len=%d" % (scn.get("k", "?"), what, len(scn.get("in") or []))
    return None


def c04_record_with_first_use(ctx, stage):
    """record_validate of the sequential traces plus the concurrent first-use rounds (same driver
    run, same TLC run); adds an evidence note about the CPUs the rounds could use."""
    import os
    import stages
    stages.stage_record_validate(ctx, stage["inner"])
    try:
        cpus = len(os.sched_getaffinity(0))
    except Exception:
        cpus = os.cpu_count() or 1
    gmp = os.environ.get("GOMAXPROCS")
    if gmp and gmp.isdigit():
        cpus = min(cpus, int(gmp))
    ctx.extra["first_use_rounds_cpus"] = cpus
    if cpus < 2:
        ctx.notes.append("concurrent first-use rounds ran with GOMAXPROCS < 2: the first-use race cannot be exercised on this machine")
