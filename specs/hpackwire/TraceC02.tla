------------------------------ MODULE TraceC02 ------------------------------
(* C02, code -> spec.  A trace is one connection: a header line with the decoder            *)
(* configuration, then for every header block the Write calls (chunk, error?, fields         *)
(* emitted by that call, table size and maximum afterwards) and the Close call.  The         *)
(* reference decoder of HpackWire follows chunk by chunk and every line must be a step that  *)
(* C02 allows:                                                                               *)
(*   - no panic / hang line (no action matches one)                                          *)
(*   - Bounded:  table size <= maximum <= allowed after every call           (INVARIANT)     *)
(*   - StrLimit: no emitted name or value longer than the configured limit   (INVARIANT)     *)
(*   - a call that returns no error emitted exactly the fields the reference decodes from    *)
(*     the octets so far and left the table size/maximum (at Close: the table) the reference *)
(*     computes: success is never a fabrication                                              *)
(*   - what a failing call emitted is a prefix of the reference's fields                     *)
(*   - once the reference has seen malformed input nothing more is emitted and an error is   *)
(*     reported by Close at the latest; a block that ends inside a representation fails at   *)
(*     Close                                                                                 *)
(* Only error versus success is compared, never which error.  The decoder may report an      *)
(* error the reference does not (C02 does not promise acceptance; C01/C03 cover that).       *)
(* After a "limit" outcome (integer longer than the specified range) only the invariants     *)
(* are judged.                                                                               *)
EXTENDS HpackWire, TraceIO

VARIABLES cur, l, cfg, st, save, mode, obs
tvars == <<cur, l, cfg, st, save, mode, obs>>

Line == Trace[l]

IsPrefixSeq(a, b) == Len(a) <= Len(b) /\ a = SubSeq(b, 1, Len(a))

TInit ==
    \E t \in 1..NT :
       LET h == Trace[Meta.starts[t]] IN
       /\ cur = t /\ l = Meta.starts[t] + 1
       /\ h.e = "hdr"
       /\ cfg = [ms |-> h.ms, al |-> h.al]
       /\ st = NewState(h.im)
       /\ save = <<>>
       /\ mode = "run"
       /\ obs = [size |-> 0, max |-> h.im, em |-> <<>>]

Observe == obs' = [size |-> Line.size, max |-> Line.max, em |-> (IF Has(Line, "em") THEN Line.em ELSE <<>>)]

WriteRun ==
    /\ mode = "run"
    /\ \E buf \in {save \o Line.b} : \E r \in {Run(buf, Len(buf), 1, st, cfg, <<>>)} :      \* (evaluated once)
           LET n == Len(buf) IN
           IF Line.err
           THEN /\ IsPrefixSeq(Line.em, r.em)
                /\ mode' = "done" /\ st' = st /\ save' = <<>>
           ELSE IF r.k \in {"ok", "more"}
           THEN /\ Line.em = r.em /\ Line.size = r.st.size /\ Line.max = r.st.max
                /\ mode' = "run" /\ st' = r.st /\ save' = SubSeq(buf, r.nx, n)
           ELSE /\ IsPrefixSeq(Line.em, r.em)
                /\ mode' = (IF r.k = "bad" THEN "dead" ELSE "free") /\ st' = st /\ save' = <<>>

WriteDead == mode = "dead" /\ Line.em = <<>> /\ mode' = (IF Line.err THEN "done" ELSE "dead") /\ UNCHANGED <<st, save>>
WriteFree == mode = "free" /\ mode' = (IF Line.err THEN "done" ELSE "free") /\ UNCHANGED <<st, save>>

TWrite == Line.e = "w" /\ Observe /\ (WriteRun \/ WriteDead \/ WriteFree)

CloseRun ==
    /\ mode = "run"
    /\ IF save # <<>> THEN Line.err /\ mode' = "done" /\ UNCHANGED <<st, save>>
       ELSE IF Line.err THEN mode' = "done" /\ UNCHANGED <<st, save>>
       ELSE /\ Line.tab = st.tab /\ Line.size = st.size /\ Line.max = st.max
            /\ mode' = "run" /\ st' = EndBlock(st) /\ save' = <<>>
CloseDead == mode = "dead" /\ Line.err /\ mode' = "done" /\ UNCHANGED <<st, save>>
CloseFree == mode = "free" /\ mode' = (IF Line.err THEN "done" ELSE "free") /\ UNCHANGED <<st, save>>

TClose == Line.e = "close" /\ Observe /\ (CloseRun \/ CloseDead \/ CloseFree)

TNext ==
    /\ l <= Meta.ends[cur]
    /\ l' = l + 1 /\ cur' = cur /\ cfg' = cfg
    /\ (TWrite \/ TClose)

TSpec == TInit /\ [][TNext]_tvars

Bounded  == obs.size <= obs.max /\ obs.max <= cfg.al
StrLimit == cfg.ms = 0 \/ \A i \in 1..Len(obs.em) : Len(obs.em[i].n) <= cfg.ms /\ Len(obs.em[i].v) <= cfg.ms

Mark == HighWater(cur, l)
=============================================================================
