SPECIFICATION TSpec
CONSTANTS
  NSym = 256
  W = 8
  Code <- RFCCode
  CLen <- RFCLen
  Overhead = 10
INVARIANTS Bounded StrLimit
CONSTRAINT Mark
POSTCONDITION AllConsumed
CHECK_DEADLOCK FALSE
