SPECIFICATION Spec
CONSTANTS
  NSym = 10
  W = 8
  Code <- BCode
  CLen <- BLen
  MaxStr = 5
  MaxUnits = 2
INVARIANT Bijection
CHECK_DEADLOCK FALSE
