------------------------------ MODULE HpackWire ------------------------------
(* Byte-level reference decoder for HPACK header blocks, transcribed from RFC 7541         *)
(* sections 2.3, 4, 5 and 6 (not from the Go code), plus the two limits the Go API adds:   *)
(*   ms   maximum string length (SetMaxStringLength; 0 = unlimited): a string literal whose *)
(*        wire length or decoded length exceeds it, and a field taken from a table whose    *)
(*        name or value exceeds it, is an error and is not emitted                          *)
(*   al   the largest dynamic table size the encoded stream may select (section 6.3)        *)
(*                                                                                          *)
(* Octet strings (blocks, names, values) are tuples of 0..255.  TLC integers are 32 bit:    *)
(* integers of 2^24 and more collapse to BIG; every use of BIG is an error or "need more"   *)
(* as long as ms, al and all input lengths stay below 2^24 (drivers keep al <= 2^20).       *)
(*                                                                                          *)
(* Outcome classes of a decoding step:                                                      *)
(*   "ok"     everything consumed                                                           *)
(*   "more"   the input ends inside a representation (truncated if the block ends here)     *)
(*   "bad"    malformed (index 0 / past the tables, invalid Huffman or padding, size update *)
(*            above al, size update after a field while the table is not empty) or over a   *)
(*            limit                                                                          *)
(*   "limit"  an integer with more than MaxCont continuation octets whose value is small     *)
(*            (leading-zero padding): RFC 7541 section 5.1 lets an implementation reject      *)
(*            integers beyond its own octet-length limit; where that limit lies is not fixed  *)
(*            by the RFC or by the properties, so a judge treats everything after this point  *)
(*            as unspecified.  (An over-long integer with a huge value is simply BIG: every   *)
(*            use of it must fail, whatever the implementation's limit.)                      *)
EXTENDS HuffmanRFC7541, HpackStatic

BIG      == 1073741824        \* 2^30, stands for "2^24 or more"
BigFrom  == 16777216          \* 2^24
MaxCont  == 9                 \* continuation octets of an integer up to which behaviour is specified
MaxIntOctets == MaxCont + 1   \* longest integer (prefix octet + continuation octets) a decoder must accept

NStatic  == Len(StaticTab)

Field(n, v)    == [n |-> n, v |-> v]
EntrySize(f)   == Len(f.n) + Len(f.v) + 32               \* section 4.1

(* ---- decoder state ------------------------------------------------------------------- *)
(* tab: dynamic table, newest first; size: sum of entry sizes; max: current maximum size;  *)
(* lead: TRUE until the first field representation of the current block has been decoded.  *)
NewState(max) == [tab |-> <<>>, size |-> 0, max |-> max, lead |-> TRUE]

RECURSIVE SumSizes(_, _)
SumSizes(tab, i) == IF i > Len(tab) THEN 0 ELSE EntrySize(tab[i]) + SumSizes(tab, i + 1)

TableInv(st, al) == st.size = SumSizes(st.tab, 1) /\ st.size <= st.max /\ st.max <= al

(* section 4.3 / 4.4: evict from the end (oldest) until the size fits *)
RECURSIVE EvictTo(_, _, _)
EvictTo(tab, size, limit) ==
    IF size <= limit \/ tab = <<>> THEN [tab |-> tab, size |-> size]
    ELSE LET k == Len(tab) IN EvictTo(SubSeq(tab, 1, k - 1), size - EntrySize(tab[k]), limit)

AddEntry(st, f) ==                                         \* section 4.4
    LET sz == EntrySize(f) IN
    IF sz > st.max THEN [st EXCEPT !.tab = <<>>, !.size = 0]
    ELSE Bind(EvictTo(st.tab, st.size, st.max - sz), LAMBDA e :
           [st EXCEPT !.tab = <<f>> \o e.tab, !.size = e.size + sz])

SetMax(st, m) ==                                           \* section 4.3
    Bind(EvictTo(st.tab, st.size, m), LAMBDA e : [st EXCEPT !.tab = e.tab, !.size = e.size, !.max = m])

Lookup(st, i) ==                                           \* section 2.3.3
    IF i >= 1 /\ i <= NStatic THEN [ok |-> TRUE, f |-> StaticTab[i]]
    ELSE IF i > NStatic /\ i <= NStatic + Len(st.tab) THEN [ok |-> TRUE, f |-> st.tab[i - NStatic]]
    ELSE [ok |-> FALSE]

(* ---- section 5.1 integers --------------------------------------------------------------- *)
Cap(x) == IF x >= BigFrom THEN BIG ELSE x

\* continuation octets; q: next octet, acc: value so far, m: shift, j: continuation octets already read
RECURSIVE IntCont(_, _, _, _, _, _)
IntCont(b, n, q, acc, m, j) ==
    IF q > n THEN [k |-> "more"]
    ELSE LET lo   == b[q] % 128
             acc2 == IF acc = BIG THEN BIG
                     ELSE IF lo = 0 THEN acc
                     ELSE IF m > 21 THEN BIG
                     ELSE Cap(acc + lo * Pow2(m))
         IN  IF b[q] < 128 THEN [k |-> "ok", v |-> acc2, nx |-> q + 1, long |-> (j + 1 > MaxCont)]
             ELSE IntCont(b, n, q + 1, acc2, m + 7, j + 1)

\* integer with an N-bit prefix starting at octet p (p <= n = Len(b)).  An integer longer than
\* MaxIntOctets whose value is BIG is treated like any BIG value (every use fails); one whose
\* value is small (zero padding only) may be accepted or rejected by an implementation: "limit".
ReadInt(b, n, p, N) ==
    LET full == Pow2(N) - 1
        pre  == b[p] % Pow2(N)
    IN  IF pre < full THEN [k |-> "ok", v |-> pre, nx |-> p + 1]
        ELSE Bind(IntCont(b, n, p + 1, pre, 0, 0), LAMBDA r :
                IF r.k = "ok" /\ r.long /\ r.v # BIG THEN [k |-> "limit"] ELSE r)

(* ---- section 5.2 string literals -------------------------------------------------------- *)
\* (Bind(x, LAMBDA v : e) is "LET v == x IN e" with x evaluated once; see Huffman.tla.)
ReadStr(b, n, p, ms) ==
    IF p > n THEN [k |-> "more"]
    ELSE Bind(ReadInt(b, n, p, 7), LAMBDA r :
         IF r.k # "ok" THEN [k |-> r.k]
         ELSE IF ms # 0 /\ r.v > ms THEN [k |-> "bad"]
         ELSE IF r.nx + r.v - 1 > n THEN [k |-> "more"]
         ELSE IF b[p] < 128 THEN [k |-> "ok", s |-> SubSeq(b, r.nx, r.nx + r.v - 1), nx |-> r.nx + r.v]
         ELSE Bind(Dec(SubSeq(b, r.nx, r.nx + r.v - 1)), LAMBDA d :
                   IF ~d.ok THEN [k |-> "bad"]
                   ELSE IF ms # 0 /\ Len(d.out) > ms THEN [k |-> "bad"]
                   ELSE [k |-> "ok", s |-> d.out, nx |-> r.nx + r.v]))

TooLong(f, ms) == ms # 0 /\ (Len(f.n) > ms \/ Len(f.v) > ms)

(* ---- section 6 representations ---------------------------------------------------------- *)
\* result: [k], and for k = "ok": nx (next octet), st (new state), em (tuple of 0 or 1 emitted fields)
Indexed(b, n, p, st, cfg) ==                               \* 6.1
    Bind(ReadInt(b, n, p, 7), LAMBDA i :
    IF i.k # "ok" THEN [k |-> i.k]
    ELSE LET e == Lookup(st, i.v) IN
         IF ~e.ok \/ TooLong(e.f, cfg.ms) THEN [k |-> "bad"]
         ELSE [k |-> "ok", nx |-> i.nx, st |-> [st EXCEPT !.lead = FALSE],
               em |-> <<[n |-> e.f.n, v |-> e.f.v, s |-> FALSE]>>])

LiteralName(b, n, st, cfg, i) ==                           \* the name: a string literal or taken from a table
    IF i.v = 0 THEN ReadStr(b, n, i.nx, cfg.ms)
    ELSE LET e == Lookup(st, i.v) IN
         IF e.ok THEN [k |-> "ok", s |-> e.f.n, nx |-> i.nx] ELSE [k |-> "bad"]

Literal(b, n, p, st, cfg, N, mode) ==                      \* 6.2.1 - 6.2.3
    Bind(ReadInt(b, n, p, N), LAMBDA i :
    IF i.k # "ok" THEN [k |-> i.k]
    ELSE Bind(LiteralName(b, n, st, cfg, i), LAMBDA nm :
         IF nm.k # "ok" THEN [k |-> nm.k]
         ELSE Bind(ReadStr(b, n, nm.nx, cfg.ms), LAMBDA vl :
              IF vl.k # "ok" THEN [k |-> vl.k]
              ELSE LET f == Field(nm.s, vl.s) IN
                   IF TooLong(f, cfg.ms) THEN [k |-> "bad"]
                   ELSE [k |-> "ok", nx |-> vl.nx,
                         st |-> [(IF mode = "inc" THEN AddEntry(st, f) ELSE st) EXCEPT !.lead = FALSE],
                         em |-> <<[n |-> f.n, v |-> f.v, s |-> (mode = "never")]>>])))

(* 6.3 / 4.2.  "MUST occur at the beginning of the first header block following the change":  *)
(* an update after a field is malformed.  One documented leniency of golang/net is kept so    *)
(* that the reference stays deterministic: while the dynamic table is empty a misplaced       *)
(* update is harmless and accepted.                                                           *)
SizeUpdate(b, n, p, st, cfg) ==
    IF ~st.lead /\ st.size > 0 THEN [k |-> "bad"]
    ELSE Bind(ReadInt(b, n, p, 5), LAMBDA i :
         IF i.k # "ok" THEN [k |-> i.k]
         ELSE IF i.v > cfg.al THEN [k |-> "bad"]
         ELSE [k |-> "ok", nx |-> i.nx, st |-> SetMax(st, i.v), em |-> <<>>])

Repr(b, n, p, st, cfg) ==
    LET o == b[p] IN
    IF o >= 128 THEN Indexed(b, n, p, st, cfg)
    ELSE IF o >= 64 THEN Literal(b, n, p, st, cfg, 6, "inc")
    ELSE IF o >= 32 THEN SizeUpdate(b, n, p, st, cfg)
    ELSE IF o >= 16 THEN Literal(b, n, p, st, cfg, 4, "never")
    ELSE Literal(b, n, p, st, cfg, 4, "no")

(* ---- a run of representations ----------------------------------------------------------- *)
\* decode b from octet p on; returns k, st, em (all fields emitted) and nx = first octet not consumed
RECURSIVE Run(_, _, _, _, _, _)
Run(b, n, p, st, cfg, em) ==
    IF p > n THEN [k |-> "ok", st |-> st, em |-> em, nx |-> p]
    ELSE Bind(Repr(b, n, p, st, cfg), LAMBDA r :
         IF r.k # "ok" THEN [k |-> r.k, st |-> st, em |-> em, nx |-> p]
         ELSE Run(b, n, r.nx, r.st, cfg, em \o r.em))

(* RefDecode: one complete header block b presented to a decoder in state st.  The block is  *)
(* well-formed iff the outcome is "ok"; "more" at the end of a block is a truncated block.   *)
RefDecode(b, st, cfg) == Run(b, Len(b), 1, st, cfg, <<>>)
EndBlock(st)          == [st EXCEPT !.lead = TRUE]

Failed(k) == k \in {"more", "bad"}           \* at the end of a block

(* ---- the incremental machine (C03) ------------------------------------------------------ *)
(* Write(chunk): decode what is complete, keep the octets of the incomplete representation.  *)
(* A decoder may refuse to buffer more than SaveBound(ms) octets (memory bound; C02).  For   *)
(* split independence that bound must not be below the longest prefix of a representation    *)
(* that can still become valid: 1 + 2 * (MaxIntOctets + ms) - 1 octets when ms # 0.          *)
CONSTANT Overhead                                          \* SaveBound(ms) = 2 * (ms + Overhead)
SaveBound(ms)  == 2 * (ms + Overhead)
MaxReprLen(ms) == 1 + 2 * (MaxIntOctets + ms)              \* literal with new name, both lengths padded

NewInc(st) == [st |-> st, save |-> <<>>, em |-> <<>>, k |-> "ok"]

IncWrite(m, chunk, cfg) ==
    IF m.k \in {"bad", "limit"} \/ chunk = <<>> THEN m
    ELSE Bind(m.save \o chunk, LAMBDA buf :
         Bind(Run(buf, Len(buf), 1, m.st, cfg, <<>>), LAMBDA r :
            LET n == Len(buf) IN
            CASE r.k = "ok"   -> [st |-> r.st, save |-> <<>>, em |-> m.em \o r.em, k |-> "ok"]
              [] r.k = "more" -> IF cfg.ms # 0 /\ n - r.nx + 1 > SaveBound(cfg.ms)
                                 THEN [st |-> r.st, save |-> <<>>, em |-> m.em \o r.em, k |-> "bad"]
                                 ELSE [st |-> r.st, save |-> SubSeq(buf, r.nx, n), em |-> m.em \o r.em, k |-> "more"]
              [] OTHER        -> [st |-> r.st, save |-> <<>>, em |-> m.em \o r.em, k |-> r.k]))

RECURSIVE IncFeed(_, _, _, _)
IncFeed(m, chunks, i, cfg) == IF i > Len(chunks) THEN m ELSE IncFeed(IncWrite(m, chunks[i], cfg), chunks, i + 1, cfg)

\* what an observer sees of a block fed in chunks and closed: success?, emitted fields, table
IncOutcome(chunks, st, cfg) ==
    Bind(IncFeed(NewInc(st), chunks, 1, cfg), LAMBDA m :
      [ok |-> m.k = "ok", em |-> m.em, tab |-> m.st.tab, size |-> m.st.size, max |-> m.st.max])
OneShotOutcome(b, st, cfg) ==
    Bind(RefDecode(b, st, cfg), LAMBDA r :
      [ok |-> r.k = "ok", em |-> r.em, tab |-> r.st.tab, size |-> r.st.size, max |-> r.st.max])
=============================================================================
