------------------------------ MODULE HuffGen ------------------------------
(* C04, spec -> code, with the RFC 7541 table.  TLC enumerates                                *)
(*   enc  all 256 one-symbol strings; all pairs over one representative per code length;      *)
(*        strings  filler^a . t . filler^b  (filler = a 5-bit symbol, t a representative,      *)
(*        a <= MaxFill, b <= 2) whose bit lengths pass every alignment of the 32-, 64- and     *)
(*        96-bit marks of the encoder's bit buffer                                             *)
(*   dec  every input of up to 2 octets with the second octet drawn from Second (all 256 in   *)
(*        the thorough tier), and 3-octet inputs  <<x, 255, y>>, <<255, 255, y>> over Second   *)
(* and prints the predicted octets / length / acceptance / output as CASE items.  The state   *)
(* space is a tree (root -> first symbol / first octet -> longer strings) so that TLC workers *)
(* share it.  On every case TLC also checks the scheme's own bijection properties.            *)
EXTENDS HuffmanRFC7541, Json, TLC

CONSTANTS MaxFill, Second

ASSUME RFCAnchors

LensPresent == {n \in 1..MaxCodeLen : SymsOfLen[n] \cap Syms # {}}
RepOf(n)    == CHOOSE s \in SymsOfLen[n] \cap Syms : \A t \in SymsOfLen[n] \cap Syms : s <= t
Reps        == {RepOf(n) : n \in LensPresent}
Filler      == 48        \* "0", 5 bits

RECURSIVE Fill(_)
Fill(a) == IF a = 0 THEN <<>> ELSE Append(Fill(a - 1), Filler)

VARIABLE c
Init == c = [k |-> "root", x |-> <<>>]
Next ==
    \/ c.k = "root" /\ \/ \E s \in Syms : c' = [k |-> "enc", x |-> <<s>>]
                       \/ \E a \in 0..MaxFill : c' = [k |-> "fill", x |-> Fill(a)]
                       \/ \E o \in 0..255 : c' = [k |-> "dec", x |-> <<o>>]
    \/ c.k = "enc" /\ Len(c.x) = 1 /\ c.x[1] \in Reps /\ \E t \in Reps : c' = [k |-> "enc", x |-> <<c.x[1], t>>]
    \/ c.k = "fill" /\ \E t \in Reps, b \in 0..2 : c' = [k |-> "enc", x |-> c.x \o <<t>> \o Fill(b)]
    \/ c.k = "dec" /\ Len(c.x) = 1 /\ \E o \in Second : c' = [k |-> "dec", x |-> Append(c.x, o)]
    \/ c.k = "dec" /\ Len(c.x) = 2 /\ c.x[2] = 255 /\ c.x[1] \in Second
                   /\ \E o \in Second : c' = [k |-> "dec", x |-> Append(c.x, o)]
Spec == Init /\ [][Next]_c

Emit ==
    CASE c.k \in {"enc", "fill"} ->
            \E e \in {Enc(c.x)} :
            /\ Dec(e) = [ok |-> TRUE, out |-> c.x] /\ Len(e) = EncLen(c.x)            \* RoundTrip
            /\ PrintT(<<"CASE", ToJson([k |-> "enc", in |-> c.x, out |-> e, n |-> EncLen(c.x), ok |-> TRUE])>>)
      [] c.k = "dec" ->
            \E d \in {Dec(c.x)} :
            /\ d.ok => Enc(d.out) = c.x                                                 \* Canonical
            /\ PrintT(<<"CASE", ToJson([k |-> "dec", in |-> c.x, out |-> d.out, n |-> 0, ok |-> d.ok])>>)
      [] OTHER -> TRUE
=============================================================================
