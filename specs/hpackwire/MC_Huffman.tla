----------------------------- MODULE MC_Huffman -----------------------------
(* C04 at design level: the coding SCHEME of Huffman.tla (RFC 7541 section 5.2) is a      *)
(* canonical bijection for small complete prefix codes, checked exhaustively:             *)
(*   code A (MC_HuffmanA*.cfg): 5 symbols + EOS, lengths 1..4, 4-bit units (padding <= 3)  *)
(*   code B (MC_HuffmanB.cfg, thorough tier): 10 symbols + EOS, lengths 2..8, 8-bit units (padding <= 7) *)
(* The state space is the tree of all symbol strings up to MaxStr and all unit strings up *)
(* to MaxUnits (one state per string, grown by appending, so that TLC workers share it).  *)
EXTENDS Huffman, TLC

CONSTANTS MaxStr, MaxUnits

\*            0    100  101  110  1110  EOS=1111
ACode == [s \in 0..5 |-> <<0, 4, 5, 6, 14, 15>>[s + 1]]
ALen  == [s \in 0..5 |-> <<1, 3, 3, 3, 4, 4>>[s + 1]]
\*            00 01 100 101 110 1110 11110 111110 1111110 11111110 EOS=11111111
BCode == [s \in 0..10 |-> <<0, 1, 4, 5, 6, 14, 30, 62, 126, 254, 255>>[s + 1]]
BLen  == [s \in 0..10 |-> <<2, 2, 3, 3, 3, 4, 5, 6, 7, 8, 8>>[s + 1]]

ASSUME WellFormed

VARIABLE c
Init == c = [k |-> "str", x |-> <<>>] \/ c = [k |-> "units", x |-> <<>>]
Next == \/ c.k = "str" /\ Len(c.x) < MaxStr /\ \E s \in Syms : c' = [c EXCEPT !.x = Append(@, s)]
        \/ c.k = "units" /\ Len(c.x) < MaxUnits /\ \E u \in 0..(Pow2(W) - 1) : c' = [c EXCEPT !.x = Append(@, u)]
Spec == Init /\ [][Next]_c

(* C04: decode(encode(s)) = s with the announced length; whatever the decoder accepts is   *)
(* the canonical encoding of what it returns.                                             *)
Bijection == IF c.k = "str" THEN RoundTrip(c.x) ELSE Canonical(c.x)

(* Vacuity guards: acceptance and each reason for rejection occur. *)
ASSUME Accepts(<<>>) /\ ~Accepts(<<Pow2(W) - 1>>)            \* a whole unit of padding (= EOS prefix too long / EOS)
ASSUME \E u \in 0..(Pow2(W) - 1) : Accepts(<<u>>) /\ Dec(<<u>>).out # <<>>
ASSUME \E u \in 0..(Pow2(W) - 1) : ~Accepts(<<u>>) /\ u # Pow2(W) - 1    \* padding that is not all ones
=============================================================================
