------------------------------ MODULE GenWire ------------------------------
(* C02, spec -> code: every octet string up to MaxOctets over a boundary alphabet (both sides  *)
(* of every first-octet class, prefix-full values, continuation octets, Huffman flags) is   *)
(* decoded by the reference decoder under a few decoder configurations; the predicted       *)
(* outcome, emitted fields and final table are printed as CASE items for replay on the real *)
(* hpack.Decoder.  The state space is the tree of those strings; TLC also checks the        *)
(* reference decoder's own safety invariants on every one of them.                          *)
EXTENDS HpackWire, Json, TLC

CONSTANTS Alphabet, MaxOctets, LongFirst   \* strings longer than 3 only when they start with an octet of LongFirst

\* decoder configurations: ms = SetMaxStringLength, im = NewDecoder(max), al = SetAllowedMaxDynamicTableSize
Cfgs == << [ms |-> 0,  im |-> 64, al |-> 64],
           [ms |-> 1,  im |-> 64, al |-> 64],
           [ms |-> 12, im |-> 0,  al |-> 0],
           [ms |-> 0,  im |-> 32, al |-> 70] >>

VARIABLE c
Init == c = <<>>
Next == /\ Len(c) < MaxOctets
        /\ IF Len(c) < 3 THEN TRUE ELSE c[1] \in LongFirst
        /\ \E o \in Alphabet : c' = Append(c, o)
Spec == Init /\ [][Next]_c

(* One evaluation of the reference per configuration: the CASE record and the reference's  *)
(* own C02 invariants (table bounded, emitted strings within the limit, "ok" means all      *)
(* consumed).                                                                                *)
Eval(cf) ==
    Bind(RefDecode(c, NewState(cf.im), [ms |-> cf.ms, al |-> cf.al]), LAMBDA r :
    [safe |-> /\ TableInv(r.st, cf.al)
              /\ \A j \in 1..Len(r.em) : ~TooLong(r.em[j], cf.ms)
              /\ (r.k = "ok") = (r.nx = Len(c) + 1)
              /\ r.nx <= Len(c) + 1,
     res  |-> [ms |-> cf.ms, im |-> cf.im, al |-> cf.al, k |-> r.k, em |-> r.em,
               tab |-> r.st.tab, size |-> r.st.size, max |-> r.st.max]])

Emit == \E R \in {<<Eval(Cfgs[1]), Eval(Cfgs[2]), Eval(Cfgs[3]), Eval(Cfgs[4])>>} :
        /\ \A i \in 1..4 : R[i].safe
        /\ PrintT(<<"CASE", ToJson([in |-> c, res |-> <<R[1].res, R[2].res, R[3].res, R[4].res>>])>>)
=============================================================================
