SPECIFICATION Spec
CONSTANTS
  Procs = {1, 2, 3}
  NSyms = 3
  FastPath = TRUE
INVARIANTS TypeOK InitBeforeUse PureResult OnceDone
CHECK_DEADLOCK FALSE
