------------------------------ MODULE TraceC04 ------------------------------
(* C04, code -> spec.  Every recorded call of the real Huffman coder is recomputed with      *)
(* Huffman.tla over the RFC 7541 table:                                                      *)
(*   enc  s, out = AppendHuffmanString(s), n = HuffmanEncodeLength(s), dec/decok =           *)
(*        HuffmanDecode(out): out must be Enc(s), n its length, and decoding must give s back *)
(*   dec  in, ok, out = HuffmanDecode(in) on a (usually damaged) input: accepted iff the     *)
(*        specification accepts, with the same output                                        *)
(* First use by several goroutines (HuffInit.tla): a trace of rounds starts with              *)
(*   input id, s, in = canonical encoding, sd/n = the driver's digest and length of s          *)
(* lines, checked here against Enc/Dec, followed by one                                        *)
(*   cres  id, ok, outd, n                                                                     *)
(* line per concurrent decode of input id.  HuffmanDecode is a pure function of its input:     *)
(* every such decode must succeed and return s (same digest and length), whatever the other    *)
(* goroutines were doing.  Panic and hang lines match nothing.                                 *)
EXTENDS HuffmanRFC7541, TraceIO

VARIABLES cur, l, ins        \* ins: the inputs of a concurrent trace, id -> [sd, n]
tvars == <<cur, l, ins>>
Line == Trace[l]

TInit == \E t \in 1..NT : cur = t /\ l = Meta.starts[t] + 1 /\ Trace[Meta.starts[t]].e = "hdr" /\ ins = <<>>

TEnc == /\ Line.e = "enc"
        /\ Line.out = Enc(Line.s)
        /\ Line.n = EncLen(Line.s) /\ Line.n = Len(Line.out)
        /\ Line.decok /\ Line.dec = Line.s
        /\ Dec(Line.out) = [ok |-> TRUE, out |-> Line.s]      \* the specification's own round trip

TDec == /\ Line.e = "dec"
        /\ \E d \in {Dec(Line.in)} :
           /\ Line.ok = d.ok
           /\ d.ok => Line.out = d.out /\ Enc(d.out) = Line.in   \* accepted only if canonical

TInput == /\ Line.e = "input" /\ Line.id = Len(ins) + 1
          /\ Line.in = Enc(Line.s) /\ Dec(Line.in) = [ok |-> TRUE, out |-> Line.s]     \* canonical encoding of s
          /\ Line.n = Len(Line.s)
          /\ ins' = Append(ins, [sd |-> Line.sd, n |-> Line.n])

TCres == /\ Line.e = "cres" /\ Line.id \in 1..Len(ins)
         /\ Line.ok /\ Line.outd = ins[Line.id].sd /\ Line.n = ins[Line.id].n      \* = Dec(Enc(s)) = s
         /\ UNCHANGED ins

TNext == /\ l <= Meta.ends[cur]
         /\ l' = l + 1 /\ cur' = cur
         /\ ((TEnc /\ UNCHANGED ins) \/ (TDec /\ UNCHANGED ins) \/ TInput \/ TCres)
TSpec == TInit /\ [][TNext]_tvars
Mark == HighWater(cur, l)
=============================================================================
