------------------------------ MODULE TraceC04 ------------------------------
(* C04, code -> spec.  Every recorded call of the real Huffman coder is recomputed with      *)
(* Huffman.tla over the RFC 7541 table:                                                      *)
(*   enc  s, out = AppendHuffmanString(s), n = HuffmanEncodeLength(s), dec/decok =           *)
(*        HuffmanDecode(out): out must be Enc(s), n its length, and decoding must give s back *)
(*   dec  in, ok, out = HuffmanDecode(in) on a (usually damaged) input: accepted iff the     *)
(*        specification accepts, with the same output                                        *)
EXTENDS HuffmanRFC7541, TraceIO

VARIABLES cur, l
tvars == <<cur, l>>
Line == Trace[l]

TInit == \E t \in 1..NT : cur = t /\ l = Meta.starts[t] + 1 /\ Trace[Meta.starts[t]].e = "hdr"

TEnc == /\ Line.e = "enc"
        /\ Line.out = Enc(Line.s)
        /\ Line.n = EncLen(Line.s) /\ Line.n = Len(Line.out)
        /\ Line.decok /\ Line.dec = Line.s
        /\ Dec(Line.out) = [ok |-> TRUE, out |-> Line.s]      \* the specification's own round trip

TDec == /\ Line.e = "dec"
        /\ \E d \in {Dec(Line.in)} :
           /\ Line.ok = d.ok
           /\ d.ok => Line.out = d.out /\ Enc(d.out) = Line.in   \* accepted only if canonical

TNext == /\ l <= Meta.ends[cur]
         /\ l' = l + 1 /\ cur' = cur
         /\ (TEnc \/ TDec)
TSpec == TInit /\ [][TNext]_tvars
Mark == HighWater(cur, l)
=============================================================================
