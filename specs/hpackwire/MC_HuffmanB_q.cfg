SPECIFICATION Spec
CONSTANTS
  NSym = 10
  W = 8
  Code <- BCode
  CLen <- BLen
  MaxStr = 3
  MaxUnits = 1
INVARIANT Bijection
CHECK_DEADLOCK FALSE
