SPECIFICATION Spec
CONSTANTS
  NSym = 256
  W = 8
  Code <- RFCCode
  CLen <- RFCLen
  Overhead = 10
  Alphabet = {0, 15, 32, 63, 64, 127, 128, 130, 255}
  MaxOctets = 3
  LongMs = {127}
  LongFirst = {0, 64}
INVARIANTS SplitIndependentShort BoundTheorem
CHECK_DEADLOCK FALSE
