SPECIFICATION Spec
CONSTANTS
  NSym = 256
  W = 8
  Code <- RFCCode
  CLen <- RFCLen
  Overhead = 10
  Alphabet = {0, 15, 16, 31, 32, 33, 63, 64, 65, 127, 128, 129, 130, 190, 255}
  MaxOctets = 4
  LongFirst = {0, 15, 16, 31, 32, 33, 63, 64, 65, 127, 128, 129, 130, 190, 255}
INVARIANTS Emit
CHECK_DEADLOCK FALSE
