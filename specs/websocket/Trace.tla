------------------------------- MODULE Trace -------------------------------
(* Trace validation for the websocket driver: every recorded operation of a real Conn must   *)
(* be the step of WebSocket the specification computes from the frames in flight.  The wire  *)
(* is logged as raw bytes (or raw samples of long frames); the header layout, the masking    *)
(* and the frame boundaries are decoded here, not in the driver.                             *)
EXTENDS WebSocket, TraceIO

VARIABLES cur, l
tvars == <<vars, cur, l>>
Line == Trace[l]

AllMax == 130
\* projection of a byte string as the driver logs it (dig: FNV digest, unknown for bytes decoded here)
ProjOf(b) == LET n == Len(b) k == Min(8, n) IN
             [len |-> n, dig |-> <<>>, head |-> SubSeq(b, 1, k), tail |-> SubSeq(b, n - k + 1, n),
              all |-> IF n <= AllMax THEN b ELSE <<>>]
Same(a, b) == /\ a.len = b.len /\ a.head = b.head /\ a.tail = b.tail /\ a.all = b.all
              /\ (a.dig = <<>> \/ b.dig = <<>> \/ a.dig = b.dig)

Eff(m, def) == IF m = 0 THEN def ELSE m

TInit ==
    \E t \in 1..NT :
       LET h == Trace[Meta.starts[t]] IN
       /\ cur = t /\ l = Meta.starts[t] + 1
       /\ h.e = "hdr" /\ h.allmax = AllMax
       /\ InitWith(h.realc, h.reals, Eff(h.maxc, h.def), Eff(h.maxs, h.def))

\* A real endpoint wrote one frame carrying a payload of Line.len bytes.  The header must be the
\* one EncHeader prescribes for (FIN, opcode, length, role's masking) with whatever key the
\* endpoint chose, the chunk must be exactly header + payload, and the payload bytes on the wire
\* (all of them when short; both ends, seeded positions and the four XOR folds when long) must be
\* the caller's bytes, XORed with key[i mod 4] iff the role masks.
TPut ==
    /\ Line.e \in {"send", "ping"} /\ Line.who \in Roles /\ real[Line.who]
    /\ LET r      == Line.who
           masked == MustMask(r)
           hl     == HdrLen(Line.len, masked)
           key    == IF masked /\ Len(Line.hd) >= hl THEN SubSeq(Line.hd, hl - 3, hl) ELSE <<0, 0, 0, 0>>
       IN /\ Line.err = "" /\ Line.nw = Line.len /\ Line.m.len = Line.len
          /\ Line.n = hl + Line.len
          /\ Len(Line.hd) >= Min(hl, Line.n)
          /\ SubSeq(Line.hd, 1, hl) = EncHeader(TRUE, 0, Line.op, Line.len, masked, key)
          /\ IF Line.len <= AllMax
             THEN /\ Len(Line.m.all) = Line.len
                  /\ Line.wp = (IF masked THEN Mask(Line.m.all, key) ELSE Line.m.all)
             ELSE /\ Len(Line.pi) >= 32 /\ Len(Line.pb) = Len(Line.pi) /\ Len(Line.wb) = Len(Line.pi)
                  /\ \A k \in 1..Len(Line.pi) :
                        Line.wb[k] = (IF masked THEN Xor(Line.pb[k], key[(Line.pi[k] % 4) + 1]) ELSE Line.pb[k])
          /\ \A j \in 1..4 :
                LET cnt == (Line.len + 4 - j) \div 4 IN      \* payload positions i with i mod 4 = j - 1
                Line.wx[j] = (IF masked /\ cnt % 2 = 1 THEN Xor(Line.px[j], key[j]) ELSE Line.px[j])
          /\ IF Line.e = "send" THEN Send(r, Line.op, Line.len, Line.m)
             ELSE Line.op = OpPing /\ Ping(r, Line.len, Line.m)

TInject ==
    /\ Line.e = "inject" /\ Line.to \in Roles
    /\ LET fs == ParseFrames(Line.bytes) IN
       /\ \A k \in 1..Len(fs) : fs[k].ok /\ fs[k].rsv = 0
       /\ Inject(Line.to, [k \in 1..Len(fs) |-> Frame(fs[k].fin, fs[k].op, fs[k].masked, fs[k].len, ProjOf(fs[k].b))])

TClose ==
    /\ Line.e = "close" /\ Line.who \in Roles
    /\ LET fs == ParseFrames(Line.w) IN
       /\ Len(fs) = 1 /\ fs[1].ok /\ fs[1].fin /\ fs[1].rsv = 0 /\ fs[1].op = OpClose
       /\ fs[1].masked = MustMask(Line.who) /\ fs[1].len <= 125
       /\ Close(Line.who, fs[1].len, ProjOf(fs[1].b))

\* Receive: the frames written on the way are exactly the PONGs owed (same payload, FIN, masked
\* by role), plus at most one CLOSE frame when the peer is being disconnected; the result is the
\* one Step computes.
TRecv ==
    /\ Line.e = "recv" /\ Line.who \in Roles /\ real[Line.who] /\ alive[Line.who]
    /\ LET r  == Line.who
           o  == Outcome(r)
           fs == ParseFrames(Line.w)
           np == Len(o.w)
       IN /\ Line.wn = Len(Line.w)
          /\ Len(fs) >= np
          /\ \A k \in 1..Len(fs) : fs[k].ok /\ fs[k].fin /\ fs[k].rsv = 0 /\ fs[k].masked = MustMask(r)
          /\ \A k \in 1..np : fs[k].op = OpPong /\ Same(ProjOf(fs[k].b), o.w[k].pl)
          /\ IF o.res = "proto" THEN Len(fs) <= np + 1 /\ (Len(fs) = np + 1 => fs[np + 1].op = OpClose)
             ELSE Len(fs) = np
          /\ CASE o.res = "msg"      -> Line.res = "msg" /\ Line.op = o.lt /\ Same(Line.m, o.f.pl)
               [] o.res = "toolarge" -> Line.res = "toolarge"
               [] o.res = "block"    -> Line.res = "block"
               [] OTHER              -> Line.res \notin {"msg", "toolarge", "block"}     \* end of stream / disconnected
    /\ Receive(Line.who)

TNext ==
    /\ l <= Meta.ends[cur]
    /\ l' = l + 1 /\ cur' = cur
    /\ (TPut \/ TInject \/ TClose \/ TRecv)

TSpec == TInit /\ [][TNext]_tvars

Mark == HighWater(cur, l)
=============================================================================
