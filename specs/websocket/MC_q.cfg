SPECIFICATION MSpec
CONSTANTS
  Lens = {1, 3}
  LimC = {2}
  LimS = {1}
  MaxFrames = 2
  RawPeer = {"c", "s"}
INVARIANTS InOrder MaskRule PongRule Violator
CHECK_DEADLOCK FALSE
