---------------------------------- MODULE MC ----------------------------------
(* Exhaustive check of the WebSocket session machine on small constants (payloads are       *)
(* identifiers), and of the wire-format operators on the length-class boundaries.            *)
(*                                                                                          *)
(* Session properties (C59):                                                                *)
(*   InOrder   what an endpoint has been handed so far, followed by what it will still be     *)
(*             handed from the frames in flight, is exactly the sequence of data frames       *)
(*             written towards it that fit its limit, with the type of their message:        *)
(*             nothing lost, duplicated, reordered or retyped; a refused oversized frame      *)
(*             does not disturb the frames behind it.                                        *)
(*   MaskRule  every frame a real client wrote is masked, every frame a real server wrote    *)
(*             is not.                                                                      *)
(*   PongRule  the PONGs an endpoint wrote carry exactly the payloads of the (correctly        *)
(*             masked) PINGs it has consumed, in order.                                      *)
(*   Violator  a frame whose masking contradicts the sender's role is never delivered and    *)
(*             ends the connection.                                                         *)
EXTENDS WebSocket

CONSTANTS Lens,        \* payload lengths of data frames
          LimC, LimS,  \* limits of the client / the server to choose from
          MaxFrames,   \* bound on the number of frames written in a behaviour
          RawPeer      \* set of roles that may be played by the raw peer ({} : both real)

VARIABLES all,     \* [Roles -> Seq(frame)] every frame ever written towards r
          wrote,   \* [Roles -> Seq(frame)] every frame a real endpoint r wrote
          dlv,     \* [Roles -> Seq([type, pl])] messages handed to r
          nid      \* next payload identifier
mvars == <<vars, all, wrote, dlv, nid>>

Pl(n) == [id |-> nid, len |-> n]

MInit ==
    /\ \E raw \in {{}} \cup {{x} : x \in RawPeer}, mc \in LimC, ms \in LimS :
          InitWith("c" \notin raw, "s" \notin raw, mc, ms)
    /\ all = [r \in Roles |-> <<>>] /\ wrote = [r \in Roles |-> <<>>]
    /\ dlv = [r \in Roles |-> <<>>] /\ nid = 1

\* ghost update: cons[r] frames were consumed from wire[r] by this step
Ghost(cons) ==
    /\ all' = [x \in Roles |-> all[x] \o SubSeq(wire'[x], Len(wire[x]) - cons[x] + 1, Len(wire'[x]))]
    /\ wrote' = [x \in Roles |-> IF real[x]
                                 THEN wrote[x] \o SubSeq(wire'[Peer(x)], Len(wire[Peer(x)]) - cons[Peer(x)] + 1, Len(wire'[Peer(x)]))
                                 ELSE wrote[x]]
None == [x \in Roles |-> 0]

\* frames of the raw peer: fragments (FIN clear) of text messages, continuations, control frames,
\* each with right and wrong masking
InjFrames == {Frame(fin, op, m, n, Pl(n)) : fin \in BOOLEAN, op \in {OpText}, m \in BOOLEAN, n \in Lens}
             \cup {Frame(TRUE, op, m, n, Pl(n)) : op \in {OpCont, OpBin}, m \in BOOLEAN, n \in Lens}
             \cup {Frame(TRUE, op, m, 1, Pl(1)) : op \in {OpPing, OpPong, OpClose}, m \in BOOLEAN}

MNext ==
    /\ nid <= MaxFrames
    /\ \/ \E r \in Roles, op \in DataOps, n \in Lens : Send(r, op, n, Pl(n)) /\ Ghost(None) /\ nid' = nid + 1 /\ UNCHANGED dlv
       \/ \E r \in Roles, n \in Lens : Ping(r, n, Pl(n)) /\ Ghost(None) /\ nid' = nid + 1 /\ UNCHANGED dlv
       \/ \E r \in Roles : Close(r, 2, Pl(2)) /\ Ghost(None) /\ nid' = nid + 1 /\ UNCHANGED dlv
       \/ \E r \in Roles, f \in InjFrames :
              /\ (f.op = OpCont => ltype[r] # 0 \/ \E k \in 1..Len(all[r]) : all[r][k].op \in DataOps)
              /\ Inject(r, <<f>>) /\ Ghost(None) /\ nid' = nid + 1 /\ UNCHANGED dlv
MRecv ==
    \E r \in Roles :
       /\ wire[r] # <<>>
       /\ Receive(r)
       /\ Ghost([x \in Roles |-> IF x = r THEN Len(wire[r]) - Len(Outcome(r).rest) ELSE 0])
       /\ dlv' = [dlv EXCEPT ![r] = IF out'.res = "msg" THEN Append(@, [type |-> out'.type, pl |-> out'.f.pl]) ELSE @]
       /\ UNCHANGED nid

MSpec == MInit /\ [][MNext \/ MRecv]_mvars

\* data frames of a frame sequence with the type of their message
IsData(f) == f.op \in {OpCont, OpText, OpBin}
RECURSIVE Typed(_, _)
Typed(q, lt) == IF q = <<>> THEN <<>>
                ELSE LET f == Head(q) IN
                     IF ~IsData(f) THEN Typed(Tail(q), lt)
                     ELSE LET t == IF f.op = OpCont THEN lt ELSE f.op IN
                          <<[type |-> t, pl |-> f.pl]>> \o Typed(Tail(q), t)
\* ... of those that fit r's limit (the type is inherited from the message's first frame even when
\* that frame was refused)
Fits(r, q) == SelectSeq(q, LAMBDA m : m.pl.len <= maxp[r])

\* up to the first frame that ends the connection for r (wrong masking, CLOSE): what r can ever be handed
RECURSIVE Live(_, _)
Live(q, r) == IF q = <<>> THEN <<>>
              ELSE IF Head(q).masked # MustMask(Peer(r)) \/ Head(q).op = OpClose THEN <<>>
              ELSE <<Head(q)>> \o Live(Tail(q), r)

InOrder == \A r \in Roles : real[r] =>
    LET expect == Fits(r, Typed(Live(all[r], r), 0)) IN
    IF alive[r] THEN dlv[r] \o Fits(r, Typed(Live(wire[r], r), ltype[r])) = expect
    ELSE \* the endpoint stopped: it got a prefix
         Len(dlv[r]) <= Len(expect) /\ dlv[r] = SubSeq(expect, 1, Len(dlv[r]))

MaskRule == \A r \in Roles : \A k \in 1..Len(wrote[r]) : wrote[r][k].masked = MustMask(r) /\ wrote[r][k].fin

Consumed(r) == SubSeq(all[r], 1, Len(all[r]) - Len(wire[r]))
PlsOf(q, op) == LET s == SelectSeq(q, LAMBDA f : f.op = op) IN [k \in 1..Len(s) |-> s[k].pl]
PongRule == \A r \in Roles : real[r] => PlsOf(wrote[r], OpPong) = PlsOf(Live(Consumed(r), r), OpPing)

Violator == \A r \in Roles : real[r] =>
    \A k \in 1..Len(Consumed(r)) :
        Consumed(r)[k].masked # MustMask(Peer(r)) =>
            /\ ~alive[r] /\ k = Len(Consumed(r))
            /\ \A j \in 1..Len(dlv[r]) : dlv[r][j].pl # Consumed(r)[k].pl

(* ------------------------------------------------------------------ wire format *)
BoundaryLens == {0, 1, 125, 126, 127, 255, 256, 65535, 65536, 65537, 70000, 16777215, 16777216, 2147483647}
Keys == {<<0, 0, 0, 0>>, <<1, 2, 3, 4>>, <<255, 128, 127, 90>>}

ASSUME HeaderRoundTrip ==
    \A n \in BoundaryLens, m \in BOOLEAN, fin \in BOOLEAN, op \in {0, 1, 2, 8, 9, 10}, key \in Keys :
        LET h == EncHeader(fin, 0, op, n, m, key)
            d == DecHeader(h \o <<7, 7>>)      \* trailing payload bytes do not matter
        IN /\ Len(h) = HdrLen(n, m)
           /\ d.ok /\ d.fin = fin /\ d.rsv = 0 /\ d.op = op /\ d.masked = m /\ d.len = n /\ d.hlen = Len(h)
           /\ d.key = (IF m THEN key ELSE <<>>)
           /\ \A k \in 1..(Len(h) - 1) : ~DecHeader(SubSeq(h, 1, k)).ok \/ k >= Len(h)

ASSUME LengthClasses ==
    /\ ExtLen(125) = 0 /\ ExtLen(126) = 2 /\ ExtLen(65535) = 2 /\ ExtLen(65536) = 8
    /\ EncHeader(TRUE, 0, 1, 126, FALSE, <<>>) = <<129, 126, 0, 126>>
    /\ EncHeader(TRUE, 0, 2, 65536, TRUE, <<9, 8, 7, 6>>) = <<130, 255, 0, 0, 0, 0, 0, 1, 0, 0, 9, 8, 7, 6>>
    \* RFC 6455 section 5.7 examples
    /\ EncFrame(TRUE, 0, 1, FALSE, <<>>, <<72, 101, 108, 108, 111>>) = <<129, 5, 72, 101, 108, 108, 111>>
    /\ EncFrame(TRUE, 0, 1, TRUE, <<55, 250, 33, 61>>, <<72, 101, 108, 108, 111>>)
         = <<129, 133, 55, 250, 33, 61, 127, 159, 77, 81, 88>>

ASSUME MaskInvolution ==
    \A key \in Keys, p \in {<<>>, <<0>>, <<255, 1>>, <<1, 2, 3, 4, 5>>, <<200, 100, 50, 25, 12, 6, 3, 1, 0>>} :
        /\ Mask(Mask(p, key), key) = p
        /\ \A m \in BOOLEAN :
             LET fs == ParseFrames(EncFrame(TRUE, 0, 2, m, key, p) \o EncFrame(FALSE, 0, 9, ~m, key, p)) IN
             /\ Len(fs) = 2 /\ fs[1].ok /\ fs[2].ok /\ fs[1].b = p /\ fs[2].b = p
             /\ fs[1].masked = m /\ fs[2].masked = ~m /\ fs[1].op = 2 /\ fs[2].op = 9 /\ fs[1].fin /\ ~fs[2].fin
=============================================================================
