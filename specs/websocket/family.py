# Signatures for findings of the websocket family: they name the operation that was rejected
# (who did what with which length class / result), not the property alone.


def _lenclass(n):
    if n is None:
        return "?"
    if n <= 125:
        return "7bit"
    if n < 65536:
        return "16bit"
    return "64bit"


def signature(prop, kind, scenario, detail):
    try:
        if kind == "trace" and isinstance(scenario, dict):
            lines = scenario.get("lines") or [{}]
            hdr, last = lines[0], lines[-1]
            peers = "real" if hdr.get("realc") and hdr.get("reals") else ("rawclient" if not hdr.get("realc") else "rawserver")
            e = last.get("e")
            if e in ("send", "ping"):
                return "trace:%s;%s;who=%s;op=%s;len=%s;api=%s;err=%s" % (
                    e, peers, last.get("who"), last.get("op"), _lenclass(last.get("len")), last.get("api"), bool(last.get("err")))
            if e == "recv":
                prev = [x.get("e") for x in lines[-4:-1]]
                return "trace:recv;%s;who=%s;res=%s;op=%s;len=%s;wrote=%s;after=%s" % (
                    peers, last.get("who"), str(last.get("res"))[:24], last.get("op"),
                    _lenclass((last.get("m") or {}).get("len")), last.get("wn"), ",".join(str(p) for p in prev))
            return "trace:%s;%s;who=%s" % (e, peers, last.get("who"))
    except Exception:
        return None
    return None
