SPECIFICATION GSpec
CONSTANTS
  Mode = "shapes"
  GenDepth = 0
  DrainFrom = 0
  BigLens = {65535, 65536, 70000}
  Full = FALSE
INVARIANT Emit
CHECK_DEADLOCK FALSE
