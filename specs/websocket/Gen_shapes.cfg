SPECIFICATION GSpec
CONSTANTS
  Mode = "shapes"
  GenDepth = 0
  DrainFrom = 0
  BigLens = {65535, 65536, 70000}
  PipeLens = {4070, 4071, 4072, 4073, 4074, 4075, 4076, 4077, 4078, 4079, 4080, 4081, 4082, 4083, 4084, 4085, 4086, 4087, 4088, 4089, 4090, 4091, 4092, 4093, 4094, 4095, 4096, 4097, 4098, 4099, 4100, 8176, 8177, 8178, 8179, 8180, 8181, 8182, 8183, 8184, 8185, 8186}
  Full = FALSE
INVARIANT Emit
CHECK_DEADLOCK FALSE
