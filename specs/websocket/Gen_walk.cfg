SPECIFICATION GSpec
CONSTANTS
  Mode = "walk"
  GenDepth = 16
  DrainFrom = 11
  BigLens = {}
  PipeLens = {}
  Full = FALSE
INVARIANT Emit
CHECK_DEADLOCK FALSE
