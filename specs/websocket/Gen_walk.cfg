SPECIFICATION GSpec
CONSTANTS
  Mode = "walk"
  GenDepth = 16
  DrainFrom = 11
  BigLens = {}
  Full = FALSE
INVARIANT Emit
CHECK_DEADLOCK FALSE
