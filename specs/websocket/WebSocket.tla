------------------------------ MODULE WebSocket ------------------------------
(* RFC 6455 framing and the per-direction session machine of golang.org/x/net/websocket      *)
(* as property C59 describes it.                                                            *)
(*                                                                                          *)
(* Part 1 (wire format): frame header layout (FIN / RSV / opcode, 7 / 16 / 64-bit length      *)
(* classes, mask bit and key), masking = XOR with key[i mod 4], parsing of a byte sequence   *)
(* into frames.                                                                             *)
(* Part 2 (session): two endpoints joined by two FIFO byte pipes, seen as queues of frames.  *)
(* An endpoint is either a real Conn (role client "c" or server "s") or a scripted raw peer  *)
(* that may put arbitrary frames on the wire.  Send / Ping / Close append one frame,         *)
(* Receive consumes frames: control frames are handled on the way (PING -> PONG with the     *)
(* same payload, PONG dropped, CLOSE -> end of stream), a frame whose masking contradicts    *)
(* the role ends the connection, a data frame larger than the receiver's limit is refused    *)
(* and dropped, any other data frame is delivered with the type of its message.              *)
(* Payloads are opaque here (field pl); the trace spec instantiates them with projections    *)
(* of real byte strings, the model-checking spec with small identifiers.                    *)
EXTENDS Integers, Sequences, FiniteSets, TLC

(* ------------------------------------------------------------------ bytes *)
RECURSIVE XorR(_, _)
XorR(a, b) == IF a = 0 THEN b ELSE IF b = 0 THEN a
              ELSE ((a + b) % 2) + 2 * XorR(a \div 2, b \div 2)
XorNib == [a \in 0..15 |-> [b \in 0..15 |-> XorR(a, b)]]      \* evaluated once
Xor(a, b) == 16 * XorNib[a \div 16][b \div 16] + XorNib[a % 16][b % 16]      \* bytes

RECURSIVE BE(_, _)                     \* n as k big-endian bytes (n < 2^31)
BE(n, k) == IF k = 0 THEN <<>> ELSE Append(BE(n \div 256, k - 1), n % 256)

RECURSIVE FromBE(_)                    \* at most 4 bytes, the first below 128
FromBE(b) == IF b = <<>> THEN 0 ELSE FromBE(SubSeq(b, 1, Len(b) - 1)) * 256 + b[Len(b)]

Min(a, b) == IF a < b THEN a ELSE b

(* ------------------------------------------------------------------ frame header *)
OpCont == 0  OpText == 1  OpBin == 2  OpClose == 8  OpPing == 9  OpPong == 10
DataOps == {OpText, OpBin}

ExtLen(n) == IF n <= 125 THEN 0 ELSE IF n < 65536 THEN 2 ELSE 8
HdrLen(n, masked) == 2 + ExtLen(n) + (IF masked THEN 4 ELSE 0)

\* the header RFC 6455 section 5.2 prescribes (minimal length encoding)
EncHeader(fin, rsv, op, n, masked, key) ==
    LET mb == IF masked THEN 128 ELSE 0 IN
    <<(IF fin THEN 128 ELSE 0) + 16 * rsv + op>>
    \o (IF n <= 125 THEN <<mb + n>>
        ELSE IF n < 65536 THEN <<mb + 126>> \o BE(n, 2)
        ELSE <<mb + 127>> \o BE(n, 8))
    \o (IF masked THEN key ELSE <<>>)

BadHeader == [ok |-> FALSE, fin |-> FALSE, rsv |-> 0, op |-> 0, masked |-> FALSE, len |-> 0,
              key |-> <<>>, hlen |-> 0]

\* what a reader sees in the first bytes of b (len = -1: does not fit 31 bits)
DecHeader(b) ==
    IF Len(b) < 2 THEN BadHeader
    ELSE LET masked == b[2] >= 128
             l7     == b[2] % 128
             ext    == IF l7 <= 125 THEN 0 ELSE IF l7 = 126 THEN 2 ELSE 8
             hl     == 2 + ext + (IF masked THEN 4 ELSE 0)
         IN IF Len(b) < hl THEN BadHeader
            ELSE LET eb   == SubSeq(b, 3, 2 + ext)
                     huge == ext = 8 /\ (eb[1] % 128 # 0 \/ eb[2] # 0 \/ eb[3] # 0 \/ eb[4] # 0 \/ eb[5] >= 128)
                     n    == IF ext = 0 THEN l7
                             ELSE IF huge THEN 0 - 1
                             ELSE IF ext = 8 THEN FromBE(SubSeq(eb, 5, 8)) ELSE FromBE(eb)
                 IN [ok |-> TRUE, fin |-> b[1] >= 128, rsv |-> (b[1] % 128) \div 16, op |-> b[1] % 16,
                     masked |-> masked, len |-> n,
                     key |-> IF masked THEN SubSeq(b, hl - 3, hl) ELSE <<>>, hlen |-> hl]

Mask(p, key) == [i \in 1..Len(p) |-> Xor(p[i], key[((i - 1) % 4) + 1])]

EncFrame(fin, rsv, op, masked, key, p) ==
    EncHeader(fin, rsv, op, Len(p), masked, key) \o (IF masked THEN Mask(p, key) ELSE p)

BadFrame == [ok |-> FALSE, fin |-> FALSE, rsv |-> 0, op |-> 0, masked |-> FALSE, len |-> 0, key |-> <<>>, b |-> <<>>]

\* a byte sequence as a sequence of frames with unmasked payload bytes b; a tail that is not a
\* whole frame yields one BadFrame
RECURSIVE ParseFrames(_)
ParseFrames(b) ==
    IF b = <<>> THEN <<>>
    ELSE LET h == DecHeader(b) IN
         IF ~h.ok \/ h.len < 0 \/ Len(b) < h.hlen + h.len THEN <<BadFrame>>
         ELSE LET raw == SubSeq(b, h.hlen + 1, h.hlen + h.len) IN
              <<[ok |-> TRUE, fin |-> h.fin, rsv |-> h.rsv, op |-> h.op, masked |-> h.masked, len |-> h.len,
                 key |-> h.key, b |-> IF h.masked THEN Mask(raw, h.key) ELSE raw]>>
              \o ParseFrames(SubSeq(b, h.hlen + h.len + 1, Len(b)))

(* ------------------------------------------------------------------ session *)
Roles == {"c", "s"}
Peer(r) == IF r = "c" THEN "s" ELSE "c"
MustMask(r) == r = "c"                 \* frames written by the client are masked, by the server not

VARIABLES
    real,     \* [Roles -> BOOLEAN]  a real Conn (TRUE) or the scripted raw peer
    maxp,     \* [Roles -> Nat]      effective MaxPayloadBytes of the endpoint
    wire,     \* [Roles -> Seq(frame)]  wire[r]: frames written towards r and not yet consumed by r
    alive,    \* [Roles -> BOOLEAN]  FALSE once the endpoint saw the end of the stream, a protocol
              \*                     violation, or closed itself
    ltype,    \* [Roles -> opcode]   type of the data message r is receiving (continuation frames)
    out       \* what the last action produced: result of Receive, frames it wrote
vars == <<real, maxp, wire, alive, ltype, out>>

Frame(fin, op, masked, len, pl) == [fin |-> fin, op |-> op, masked |-> masked, len |-> len, pl |-> pl]

InitWith(rc, rs, mc, ms) ==
    /\ real = [r \in Roles |-> IF r = "c" THEN rc ELSE rs]
    /\ maxp = [r \in Roles |-> IF r = "c" THEN mc ELSE ms]
    /\ wire = [r \in Roles |-> <<>>]
    /\ alive = [r \in Roles |-> TRUE]
    /\ ltype = [r \in Roles |-> 0]
    /\ out = [k |-> "init"]

\* a real endpoint writes one data / PING frame: FIN set, masked according to its role
Put(r, op, len, pl) ==
    /\ real[r] /\ alive[r]
    /\ wire' = [wire EXCEPT ![Peer(r)] = Append(@, Frame(TRUE, op, MustMask(r), len, pl))]
    /\ out' = [k |-> "put", who |-> r]
    /\ UNCHANGED <<real, maxp, alive, ltype>>

Send(r, op, len, pl) == op \in DataOps /\ Put(r, op, len, pl)
Ping(r, len, pl)     == len <= 125 /\ Put(r, OpPing, len, pl)

\* Conn.Close: a CLOSE frame, then the endpoint is gone (pl: the status payload)
Close(r, len, pl) ==
    /\ real[r] /\ alive[r]
    /\ wire' = [wire EXCEPT ![Peer(r)] = Append(@, Frame(TRUE, OpClose, MustMask(r), len, pl))]
    /\ alive' = [alive EXCEPT ![r] = FALSE]
    /\ out' = [k |-> "close", who |-> r]
    /\ UNCHANGED <<real, maxp, ltype>>

\* the raw peer of r writes arbitrary frames towards r
Inject(r, fs) ==
    /\ ~real[Peer(r)]
    /\ wire' = [wire EXCEPT ![r] = @ \o fs]
    /\ out' = [k |-> "inject", who |-> r]
    /\ UNCHANGED <<real, maxp, alive, ltype>>

\* One Codec.Receive of endpoint r on the queue q: res is
\*   "msg"      a data frame is delivered (type = opcode of its message, payload pl)
\*   "toolarge" the data frame exceeds the limit: refused and dropped
\*   "eof"      CLOSE frame
\*   "proto"    masking contradicts the role: the peer is disconnected
\*   "block"    nothing (more) to read
\* w collects the PONG frames (payload descriptors) the endpoint has to write on the way.
RECURSIVE Step(_, _, _, _, _)
Step(q, r, lt, mx, w) ==
    IF q = <<>> THEN [res |-> "block", rest |-> q, lt |-> lt, w |-> w, f |-> Frame(TRUE, 0, FALSE, 0, 0)]
    ELSE LET f == Head(q) IN
         IF f.masked # MustMask(Peer(r)) THEN [res |-> "proto", rest |-> Tail(q), lt |-> lt, w |-> w, f |-> f]
         ELSE IF f.op = OpPing THEN Step(Tail(q), r, lt, mx, Append(w, f))
         ELSE IF f.op = OpPong THEN Step(Tail(q), r, lt, mx, w)
         ELSE IF f.op = OpClose THEN [res |-> "eof", rest |-> Tail(q), lt |-> lt, w |-> w, f |-> f]
         ELSE LET t == IF f.op = OpCont THEN lt ELSE f.op IN
              [res |-> IF f.len > mx THEN "toolarge" ELSE "msg", rest |-> Tail(q), lt |-> t, w |-> w, f |-> f]

Outcome(r) == Step(wire[r], r, ltype[r], maxp[r], <<>>)

Receive(r) ==
    /\ real[r] /\ alive[r]
    /\ LET o == Outcome(r) IN
       /\ wire' = [wire EXCEPT ![r] = o.rest,
                               \* the PONGs go out on the other pipe, masked according to r's role
                               ![Peer(r)] = @ \o [k \in 1..Len(o.w) |-> Frame(TRUE, OpPong, MustMask(r), o.w[k].len, o.w[k].pl)]]
       /\ ltype' = [ltype EXCEPT ![r] = o.lt]
       /\ alive' = [alive EXCEPT ![r] = o.res \notin {"eof", "proto"}]
       /\ out' = [k |-> "recv", who |-> r, res |-> o.res, type |-> o.lt, f |-> o.f, pongs |-> o.w]
    /\ UNCHANGED <<real, maxp>>
=============================================================================
