-------------------------------- MODULE Gen --------------------------------
(* Session generator for the websocket driver.  Only the operations are exported (lengths,  *)
(* types, who, raw frames as the exact bytes EncFrame prescribes); the driver fills payloads *)
(* with seeded bytes, executes the session on real Conns and TLC judges the recorded run      *)
(* (Trace.tla).                                                                             *)
(*   Mode "shapes": an enumerated domain of scripts (every state is one script):              *)
(*      boundary lengths x limits around the length x role x type, each followed by a PING    *)
(*      and a small message (refusal must not disturb what follows); masking violations by    *)
(*      a raw peer; fragmented messages with interleaved control frames by a raw peer.        *)
(*   Mode "walk": behaviours of the session machine over a small alphabet (simulation), with  *)
(*      a final phase in which only Receive is enabled so that what was written is consumed.  *)
EXTENDS WebSocket, Json

CONSTANTS Mode, GenDepth, DrainFrom, BigLens,
          PipeLens,   \* shapes: first-payload lengths of the pipelined scripts
          Full        \* shapes: the whole cross product (else type and variant are tied to the other parameters)
VARIABLE hist
gvars == <<vars, hist>>

DefMax == 33554432
Eff(m) == IF m = 0 THEN DefMax ELSE m

Pay(n, s) == [i \in 1..n |-> (i * 7 + s * 13 + 3) % 256]
Key(s) == IF s % 3 = 0 THEN <<0, 0, 0, 0>> ELSE IF s % 3 = 1 THEN <<18, 52, 86, 120>> ELSE <<255, 128, 1, 90>>

\* chunkc / chunks: delivery granularity of the transport towards the client / the server (at most
\* that many bytes per Read; 0 = everything buffered).  A transport parameter: the verdict ignores it.
HdrK(rc, rs, mc, ms, kc, ks) == [e |-> "hdr", realc |-> rc, reals |-> rs, maxc |-> mc, maxs |-> ms, chunkc |-> kc, chunks |-> ks]
Hdr(rc, rs, mc, ms) == HdrK(rc, rs, mc, ms, 0, 0)
Chunks == <<0, 1, 2, 3, 5, 7>>
ChunkOf(i) == Chunks[(i % 6) + 1]
OSend(r, op, n, api) == [e |-> "send", who |-> r, op |-> op, len |-> n, api |-> api]
OPing(r, n) == [e |-> "ping", who |-> r, op |-> OpPing, len |-> n]
ORecv(r) == [e |-> "recv", who |-> r]
OClose(r) == [e |-> "close", who |-> r]
\* a frame of the raw peer travelling towards r
OInj(r, fin, op, masked, n, s) ==
    [e |-> "inject", to |-> r, fin |-> fin, op |-> op, masked |-> masked, len |-> n,
     bytes |-> EncFrame(fin, 0, op, masked, Key(s), Pay(n, s))]

(* ------------------------------------------------------------------ shapes *)
Lens8 == {0, 1, 125, 126, 127} \cup BigLens
LimsFor(n) == {0, n + 1} \cup (IF n >= 1 THEN {n} ELSE {}) \cup (IF n >= 2 THEN {n - 1} ELSE {})
Other(op) == IF op = OpText THEN OpBin ELSE OpText

\* r writes a message of n bytes towards a peer with limit lim, a PING, and a small message
Boundary(r, op, n, lim) ==
    <<HdrK(TRUE, TRUE, IF r = "s" THEN lim ELSE 0, IF r = "c" THEN lim ELSE 0, ChunkOf(n + lim + op), ChunkOf(n + lim + op + 3)),
      OSend(r, op, n, IF (n + op) % 2 = 0 THEN "send" ELSE "write"),
      OPing(r, n % 126),
      OSend(r, Other(op), 3, "send"),
      ORecv(Peer(r)), ORecv(Peer(r)), ORecv(Peer(r)), ORecv(r)>>

\* a raw peer sends a good message, then a frame with the wrong masking, then a good one
Violation(r, op, n, k) ==
    LET good == MustMask(Peer(r)) IN
    <<HdrK(r = "c", r = "s", 0, 0, ChunkOf(op + n + k), ChunkOf(op + n + k)),
      OInj(r, TRUE, OpText, good, 5, k), OInj(r, TRUE, OpPing, good, 2, k + 1),
      OInj(r, TRUE, op, ~good, n, k + 2), OInj(r, TRUE, OpBin, good, 3, k)>>
    \o (IF k % 2 = 0 THEN <<ORecv(r), ORecv(r)>> ELSE <<ORecv(r), OSend(r, OpBin, 4, "send"), ORecv(r)>>)

\* fragments, control frames in between, an unsolicited PONG, a CLOSE
Fragments(r, lim, n, op) ==
    LET m == MustMask(Peer(r)) IN
    <<HdrK(r = "c", r = "s", lim, lim, ChunkOf(lim + n + op), ChunkOf(lim + n + op)),
      OInj(r, FALSE, op, m, 3, 1), OInj(r, TRUE, OpPing, m, 4, 2), OInj(r, FALSE, OpCont, m, n, 3),
      OInj(r, TRUE, OpPong, m, 3, 4), OInj(r, TRUE, OpCont, m, 0, 5), OInj(r, TRUE, Other(op), m, 2, 6),
      OInj(r, TRUE, OpPing, m, 125, 7), OInj(r, TRUE, OpClose, m, 2, 8),
      ORecv(r), ORecv(r), ORecv(r), OSend(r, OpText, 1, "write"), ORecv(r), ORecv(r)>>

\* Several frames are queued before the receiver reads, everything buffered up front: the
\* receiver's bufio refills at its own 4096-byte boundaries, which the sweep of the first
\* payload length moves across every byte of the second frame's header and masking key.
Pipelined(r, n) ==
    <<Hdr(TRUE, TRUE, 0, 0),
      OSend(r, 1 + (n % 2), n, IF n % 3 = 0 THEN "write" ELSE "send"), OSend(r, 2 - (n % 2), 5, "send"),
      OPing(r, 3), ORecv(Peer(r)), ORecv(Peer(r)), ORecv(Peer(r))>>

Scripts ==
    {Pipelined(r, n) : r \in Roles, n \in PipeLens} \cup
    {Boundary(c[1], c[2], c[3], c[4]) : c \in {x \in Roles \X DataOps \X Lens8 \X (UNION {LimsFor(y) : y \in Lens8}) :
                                                 x[4] \in LimsFor(x[3]) /\ (Full \/ x[2] = 1 + ((x[3] + x[4] + (IF x[1] = "c" THEN 0 ELSE 1)) % 2))}}
    \cup {Violation(c[1], c[2], c[3], c[4]) : c \in {x \in Roles \X {OpText, OpBin, OpPing, OpClose, OpCont} \X {0, 2, 125} \X {0, 1} :
                                                  Full \/ x[4] = (x[2] + x[3]) % 2}}
    \cup {Fragments(r, lim, n, op) : r \in Roles, lim \in {0, 125}, n \in {125, 126}, op \in DataOps}

(* ------------------------------------------------------------------ walk *)
Configs == {Hdr(TRUE, TRUE, 0, 0), Hdr(TRUE, TRUE, 125, 126), HdrK(TRUE, TRUE, 1, 200, 1, 3), HdrK(TRUE, TRUE, 0, 0, 2, 5),
            Hdr(FALSE, TRUE, 0, 126), HdrK(TRUE, FALSE, 125, 0, 7, 0), HdrK(FALSE, TRUE, 0, 126, 0, 1)}

Rec(x) == hist' = Append(hist, x)
Pl(n) == [len |-> n]

WalkSend ==
    \E r \in Roles, c \in {<<OpText, 1, "send">>, <<OpBin, 126, "write">>, <<OpBin, 125, "send">>, <<OpText, 127, "write">>,
                          <<OpText, 0, "send">>, <<OpBin, 300, "send">>} :
        Send(r, c[1], c[2], Pl(c[2])) /\ Rec(OSend(r, c[1], c[2], c[3]))
WalkPing == \E r \in Roles, n \in {0, 5, 125} : Ping(r, n, Pl(n)) /\ Rec(OPing(r, n))
WalkClose == \E r \in Roles : Len(hist) > 4 /\ Close(r, 2, Pl(2)) /\ Rec(OClose(r))
WalkInject ==
    \E r \in Roles, c \in {<<TRUE, OpText, TRUE, 2>>, <<TRUE, OpBin, TRUE, 126>>, <<FALSE, OpText, TRUE, 127>>,
                          <<TRUE, OpCont, TRUE, 1>>, <<TRUE, OpPing, TRUE, 7>>, <<TRUE, OpPong, TRUE, 0>>,
                          <<TRUE, OpBin, FALSE, 4>>, <<TRUE, OpPing, FALSE, 1>>, <<TRUE, OpClose, TRUE, 2>>} :
        LET masked == (c[3] = MustMask(Peer(r))) IN     \* c[3]: masking is right
        /\ (c[2] = OpCont => \E k \in 1..Len(hist) : hist[k].e = "inject" /\ hist[k].op \in DataOps)
        /\ Inject(r, <<Frame(c[1], c[2], masked, c[4], Pl(c[4]))>>)
        /\ Rec(OInj(r, c[1], c[2], masked, c[4], Len(hist)))
WalkRecv == \E r \in Roles : wire[r] # <<>> /\ Receive(r) /\ Rec(ORecv(r))

GInit ==
    IF Mode = "shapes"
    THEN hist \in Scripts /\ InitWith(TRUE, TRUE, DefMax, DefMax)
    ELSE \E h \in Configs : hist = <<h>> /\ InitWith(h.realc, h.reals, Eff(h.maxc), Eff(h.maxs))

GNext ==
    /\ Mode = "walk"
    /\ IF Len(hist) < DrainFrom THEN WalkSend \/ WalkPing \/ WalkClose \/ WalkInject \/ WalkRecv \/ WalkRecv
       ELSE WalkRecv

GSpec == GInit /\ [][GNext]_gvars

Done == \/ Mode = "shapes"
        \/ Len(hist) > GenDepth
        \/ Len(hist) >= DrainFrom /\ \A r \in Roles : ~(real[r] /\ alive[r] /\ wire[r] # <<>>)
Emit == ~Done \/ PrintT(<<"BEH", ToJson(hist)>>)
=============================================================================
