SPECIFICATION MSpec
CONSTANTS
  Lens = {1, 3}
  LimC = {2}
  LimS = {1, 3}
  MaxFrames = 3
  RawPeer = {"c", "s"}
INVARIANTS InOrder MaskRule PongRule Violator
CHECK_DEADLOCK FALSE
