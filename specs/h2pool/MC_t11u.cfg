SPECIFICATION Spec
CONSTANTS
  AuthIdx = {5, 6}
  NR = 2
  NC = 2
  NU = 2
  Modes = {"nodial"}
  IdleOn = FALSE
  Limits = {1}
  Repair = {"only", "timer", "rsv", "zombie"}
  FreeTime = FALSE
  Env = {"upgrade", "start", "resp", "sclose", "goaway"}
INVARIANTS TypeOK AtMostOneDial WaitersOnTheDial ReservationsExact StreamsExact NoLeakedReservation FailedDialNotCached
  NoDialInNoDialMode OnlyNeverDials IndexesConsistent TimerArmedWhenIdle NoStrandedWaiter NoDeviation QuiescentIsStable
PROPERTIES NoUnusableSelected SelectedFromIndex FailedDialToWaiters IdleTimeoutOnlyWhenIdle ShutdownWaits
CHECK_DEADLOCK FALSE
