# Family hooks for h2pool (X11, X12).
#
# signature(): a trace rejected by the invariant NoNewDeviation is named by the deviation(s) of H2Pool.tla that
# were needed to explain it (one documented-behaviour defect of golang/net = one name); every other rejection by
# the command that preceded the rejected line and the kind of line, so that different failures stay distinct.
import re


def signature(prop, kind, scenario, detail):
    what = (detail or {}).get("what", "")
    m = re.search(r'invariant NoNewDeviation violated.*?state=\{"dn": "\{(.*?)\}"', what)
    if m:
        names = sorted(x.strip().strip('\\"') for x in m.group(1).split(","))
        return "deviation:" + "+".join(names)
    return None


# spec actions of H2Pool.tla that have a logged command of their own (command name -> action)
CMD_ACTIONS = {
    "start": "Start", "ureserve": "UserReserve", "usergo": "UserGo", "cancel": "Cancel", "dialok": "DialOk",
    "dialfail": "DialFail", "dialokc": "DialOkClosed", "resp": "Resp", "refuse": "Refuse", "settings": "Settings", "goaway": "GoAway",
    "sclose": "SrvClose", "closeidle": "CloseIdle", "shutdown": "ShutStart", "shutcancel": "ShutCancel",
    "close": "CloseCmd", "dnr": "SetDNR", "markdead": "MarkDeadCmd", "upgrade": "Upgrade", "wake1": "Wake1",
    "wake2": "Wake2", "tick": "Tick", "q": "TQ",
}
INTERNAL = ["Lookup", "DialCtx", "DialFinish", "PostDial", "WriteReq", "MarkDeadReq", "WriteHdr", "Forget", "PingAck",
            "ApplySettings", "GAMarkDead", "GASet", "RLCleanup", "RLFinish", "IdleFire", "UnusedFire", "ShutBegin", "ShutG", "ShutDone", "ShutCtx",
            "UCheck", "URun", "URet"]


def record_validate_cover(ctx, st):
    """record_validate + per-action coverage: commands are counted from the validated trace lines, internal
    actions from the COVER lines that Trace.tla prints (TLC counts the internal steps it needed)."""
    import json
    import os
    import stages
    import vlib
    from vlib import Infra, log, sha

    if os.environ.get("VERIF_H2POOL_TRACE_CFG"):
        # e.g. Trace_fixed.cfg: judge a patched checkout (VERIF_REPO) against the documented behaviour only
        st = dict(st, trace_cfg=os.environ["VERIF_H2POOL_TRACE_CFG"])
    args = dict(st.get("driver_args") or {})
    infile = None
    if st.get("gen_spec"):
        items, _ = stages.generate(ctx, st)
        infile = os.path.join(ctx.scratch.dir, "items-%s.ndjson" % sha(st, 8))
        with open(infile, "w") as f:
            for i, v in enumerate(items):
                f.write(json.dumps({"b": i, "v": v}, separators=(",", ":")) + "\n")
        ctx.add_sample({"stage": "tlc_generated_scenario", "item": items[0]})
    res, outdir = vlib.run_driver(stages._fam_for(ctx, st), ctx.scratch.dir, "record", args, ctx.seed, ctx.tier,
                                  infile=infile, timeout=stages._to(ctx, st, "driver_timeout", 420),
                                  test=st.get("go_test"))
    tf = os.path.join(outdir, "trace.ndjson")
    if not os.path.isfile(tf):
        raise Infra("driver wrote no trace.ndjson")
    lines = [json.loads(x) for x in open(tf) if x.strip()]
    if not lines:
        raise Infra("driver recorded an empty trace")
    log("[record] %d traces, %d events recorded from the real code, %.1fs" %
        (res.get("traces", 0), len(lines), res["_wall"]))
    groups, order, fails, r = stages.validate_traces(ctx, st, lines)
    ctx.traces += len(order)
    ctx.evaluations += len(lines)
    ctx.states += r.distinct          # states TLC explored between the logged lines (all interleavings)
    ctx.transitions += r.generated
    for t in order:
        g = groups[t]
        if len(g) >= st.get("min_events", 4):
            ctx.distinct.add(sha([stages._strip(x) for x in g], 16))
    for t in order[:1]:
        ctx.add_sample({"stage": "record_validate", "trace": [stages._strip(x) for x in groups[t][:40]]})
    ctx.exhaustive.append(False)
    # validate_traces keeps one failure per trace (the earliest).  A named deviation (known finding) early in a
    # trace must not hide a line that no step matches later in the same trace, so both kinds are collected.
    starts, pos = [], 2
    for t in order:
        starts.append(pos)
        pos += len(groups[t])
    allf = []
    for t, (idx, why) in sorted(fails.items()):
        allf.append((t, idx, why))
    for p in r.prints:
        if p[0] == "UNMATCHED":
            ti, hw = int(p[1]), int(p[2])
            t = order[ti - 1]
            idx = hw - starts[ti - 1]
            if t in fails and fails[t][0] != idx:
                allf.append((t, idx, "no spec step matches trace line %d: %s" % (
                    idx, json.dumps(groups[t][idx]) if idx < len(groups[t]) else "<end>")))
    seen_sig = set()
    for t, idx, why in allf:
        scn = {"t": t, "lines": [stages._strip(x) for x in groups[t][:idx + 1]]}
        detail = {"what": why, "fail_index": idx}
        sig = stages.signature(ctx, "trace", scn, detail)
        if sig in seen_sig:
            continue
        seen_sig.add(sig)
        stages.record_violation(ctx, "trace", scn, detail, st)

    cover = ctx.extra.setdefault("action_coverage", {})
    for a in list(CMD_ACTIONS.values()) + INTERNAL:
        cover.setdefault(a, 0)
    for t in order:
        upto = fails[t][0] if t in fails else len(groups[t])
        for x in groups[t][:upto]:
            a = CMD_ACTIONS.get(x.get("e"))
            if a:
                cover[a] += 1
    for p in r.prints:
        if p[0] == "COVER" and len(p) >= 3 and p[1] in cover:
            cover[p[1]] += int(p[2])
    missing = sorted(a for a, n in cover.items() if n == 0)
    log("[cover] %d of %d spec actions occurred in validated steps%s" %
        (len(cover) - len(missing), len(cover), (" (missing: " + ", ".join(missing) + ")") if missing else ""))
    if missing:
        ctx.notes.append("spec actions without a validated step in this run: " + ", ".join(missing))
    if not os.environ.get("VERIF_KEEP"):
        import shutil
        shutil.rmtree(outdir, ignore_errors=True)


def model_expect_violation(ctx, st):
    """The pinned code's behaviour (Repair without one name) must violate the design invariant that the
    documented behaviour satisfies: shows that the invariant is not vacuous and that the finding is also a
    finding of the design model.  A run without the expected counterexample is a machinery failure."""
    import vlib
    from vlib import Infra, log
    wd = ctx.scratch.sub("bad-" + st["cfg"].replace(".cfg", ""))
    vlib.copy_specs(ctx.fam["family"], wd)
    r = vlib.run_tlc(wd, st["spec"], st["cfg"], workers=st.get("workers", 4), timeout=st.get("timeout", 600),
                     heap_gb=st.get("heap_gb", 4))
    ctx.cmds.append(r.cmd)
    got = [v["inv"] for v in r.violations]
    log("[model-bad] %s/%s: %d generated, %d distinct, violated: %s, %.1fs" %
        (st["spec"], st["cfg"], r.generated, r.distinct, got, r.wall))
    if r.errors or r.timed_out or st["expect"] not in got:
        raise Infra("expected a counterexample to %s from %s, got violations=%s errors=%s" %
                    (st["expect"], st["cfg"], got, r.errors[:2]))
    ctx.states += r.distinct
    ctx.transitions += r.generated
    ctx.notes.append("design model with the pinned behaviour (%s) violates %s, as expected" % (st["cfg"], st["expect"]))
