------------------------------- MODULE Trace -------------------------------
(* Trace validation for the h2pool family (X11, X12).  One trace = one real http2.Transport with *)
(* its clientConnPool inside a synctest bubble (drivers/http2/zz_verif_h2pool_test.go).  The     *)
(* driver logs every command it issues (what callers, dial functions, servers and the clock do)  *)
(* and, whenever the Transport has run to quiescence, a "q" line with the white-box projection   *)
(* of the pool (p.conns, p.keys, p.dialing, p.addConnCalls), of every connection (streams,       *)
(* reservations, closed) and the state of every RoundTrip / upgrade / Shutdown call.             *)
(* Between a command and the next "q" TLC runs the internal actions of H2Pool (the critical      *)
(* sections of the code) in every order; the "q" line must describe a quiescent state that is    *)
(* reachable this way.  Commands issued without waiting in between race with each other.         *)
EXTENDS H2Pool, TraceIO

VARIABLES cur, l, dn, acts      \* dn: deviations recorded by the step just taken; acts: internal actions taken so far in this trace (coverage only)
tvars == <<vars, cur, l, dn, acts>>

Line == Trace[l]

TInit ==
    \E t \in 1..NT :
       LET h == Trace[Meta.starts[t]] IN
       /\ cur = t /\ l = Meta.starts[t] + 1 /\ dn = {} /\ acts = {}
       /\ h.e = "hdr"
       /\ \A j \in 1..Len(h.auth) : h.auth[j] \in DOMAIN Auths
       /\ InitWith({Norm(h.auth[j]) : j \in 1..Len(h.auth)}) /\ mode = h.mode

ToSet(seq) == {seq[j] : j \in 1..Len(seq)}
Cid(x)     == <<<<x.k[1], x.k[2]>>, x.n>>
IsCid(x)   == Cid(x) \in CId
Key(k)     == <<k[1], k[2]>>

Same      == UNCHANGED vars
TStart    == Line.e = "start" /\ Line.r \in Reqs /\ Start(Line.r, Line.a, Line.only)
TReserve  == Line.e = "ureserve" /\ Line.r \in Reqs /\ IsCid(Line) /\ UserReserve(Line.r, Cid(Line), Line.ok)
TUserGo   == Line.e = "usergo" /\ Line.r \in Reqs /\ UserGo(Line.r, Line.cancelled)
(* a command issued without waiting (it races with its predecessor) may find its target gone: cancelling a   *)
(* RoundTrip that has returned and releasing a dial that has ended do nothing                                  *)
TCancel   == Line.e = "cancel" /\ Line.r \in Reqs /\ (Cancel(Line.r) \/ (req[Line.r].pc = "ret" /\ Same))
TDialOk   == Line.e = "dialok" /\ IsCid(Line) /\ (DialOk(Cid(Line)) \/ (dial[Cid(Line)].st \notin {"none", "run"} /\ Same))
TDialOkC  == Line.e = "dialokc" /\ IsCid(Line) /\ (DialOkClosed(Cid(Line)) \/ (dial[Cid(Line)].st \notin {"none", "run"} /\ Same))
TDialFail == Line.e = "dialfail" /\ IsCid(Line) /\ (DialFail(Cid(Line)) \/ (dial[Cid(Line)].st \notin {"none", "run"} /\ Same))
(* frames sent to a connection that is closed meanwhile, or for a stream that is gone, are never looked at *)
Gone(c)   == conn[c].st = "open" /\ (conn[c].scl \/ conn[c].ccl \/ conn[c].rl # "run")
TResp     == Line.e = "resp" /\ Line.r \in Reqs /\ (Resp(Line.r) \/ (~Answerable(Line.r) /\ Same))
TRefuse   == Line.e = "refuse" /\ Line.r \in Reqs /\ (Refuse(Line.r) \/ (~Answerable(Line.r) /\ Same))
TSettings == Line.e = "settings" /\ IsCid(Line) /\ (Settings(Cid(Line), Line.max) \/ (Gone(Cid(Line)) /\ Same))
TGoAway   == Line.e = "goaway" /\ IsCid(Line) /\ (GoAway(Cid(Line), Line.last) \/ (Gone(Cid(Line)) /\ Same))
TSClose   == Line.e = "sclose" /\ IsCid(Line) /\ SrvClose(Cid(Line))
TCloseIdle == Line.e = "closeidle" /\ CloseIdle
TShut     == Line.e = "shutdown" /\ IsCid(Line) /\ ShutStart(Cid(Line))
TShutCan  == Line.e = "shutcancel" /\ IsCid(Line) /\ ShutCancel(Cid(Line))
TClose    == Line.e = "close" /\ IsCid(Line) /\ CloseCmd(Cid(Line))
TDnr      == Line.e = "dnr" /\ IsCid(Line) /\ SetDNR(Cid(Line))
TMarkDead == Line.e = "markdead" /\ IsCid(Line) /\ MarkDeadCmd(Cid(Line))
TUpgrade  == Line.e = "upgrade" /\ Line.u \in Upgs /\ Upgrade(Line.u, Line.a)
TWake1    == Line.e = "wake1" /\ Wake1
TWake2    == Line.e = "wake2" /\ Wake2
TTick     == Line.e = "tick" /\ Tick

(* what the model says about a request at a quiescent point *)
ReqView(r) ==
  LET q == req[r] IN
  CASE q.pc \in {"waitdial", "backoff"} -> [st |-> "wait", c |-> NoC, kind |-> ""]
    [] q.pc = "sent"  -> [st |-> "sent", c |-> q.c, kind |-> ""]
    [] q.pc = "held"  -> [st |-> "held", c |-> q.c, kind |-> ""]
    [] q.pc = "ret"   -> [st |-> "ret", c |-> NoC, kind |-> q.kind]
    [] OTHER          -> [st |-> "?", c |-> NoC, kind |-> ""]
KindOK(r, k) == \/ k = req[r].kind
                \* a cancelled context may win the race for RoundTrip's result (but then the pool's MarkDead after
                \* errClientConnNotEstablished did not happen: that case is a branch of WriteReq)
                \/ req[r].cx /\ k = "canceled" /\ req[r].kind # "ok" /\ (req[r].kind = "notest" => req[r].dir)

UpgView(u) == CASE upg[u].pc = "ret" -> IF upg[u].used THEN "used" ELSE "unused"
                [] OTHER -> "wait"

(* an open idle connection that has been without idle timer for two tick boundaries (= IdleConnTimeout) and is
   observed still open: with the documented behaviour it would have been closed *)
IdleTimerLost == IdleOn /\ \E c \in Live : IdleOpen(c) /\ conn[c].late >= 2

(* a closed connection whose close handlers are all done, and no timer left to remove it, is still indexed *)
DeadConnPooled == \E c \in Live : pkeys[c] # {} /\ conn[c].rl = "done" /\ ~conn[c].ut /\ ~conn[c].utf

TQ ==
  /\ Line.e = "q"
  /\ Quiescent
  \* the pool's indexes
  /\ \A x \in ToSet(Line.pc) : IsCid(x)
  /\ {Cid(x) : x \in ToSet(Line.pc)} = {c \in Live : c \in Pooled(c[1])}
  /\ Len(Line.pc) = Cardinality({c \in Live : c \in Pooled(c[1])})
  /\ \A x \in ToSet(Line.pk) : IsCid(x)
  /\ {<<Cid(x), Key(x.key)>> : x \in ToSet(Line.pk)} = {y \in Live \X Keys : y[2] \in pkeys[y[1]]}
  /\ {Key(k) : k \in ToSet(Line.dl)} = {k \in Keys : dialing[k] # 0}
  /\ \A x \in ToSet(Line.dg) : IsCid(x)
  /\ {Cid(x) : x \in ToSet(Line.dg)} = {d \in Live : dial[d].st = "run"}
  /\ Line.ac = <<>>
  \* every connection
  /\ \A x \in ToSet(Line.cf) : IsCid(x)
  /\ {Cid(x) : x \in ToSet(Line.cf)} = {c \in Live : conn[c].st = "open"}
  /\ \A x \in ToSet(Line.cf) :
        LET y == conn[Cid(x)] IN
        x.act = y.act /\ x.rsv = y.rsv /\ x.cl = y.cl /\ x.ccl = y.ccl /\ x.sh = y.shut
  \* every RoundTrip
  /\ {x.r : x \in ToSet(Line.rq)} = {r \in Reqs : req[r].pc # "new"}
  /\ \A x \in ToSet(Line.rq) :
        LET v == ReqView(x.r) IN
        /\ x.st = v.st
        /\ x.st \in {"sent", "held"} => IsCid(x) /\ Cid(x) = v.c
        /\ x.st = "ret" => KindOK(x.r, x.kind)
  \* every upgrade: was its connection used, and has the unused one been closed
  /\ {x.u : x \in ToSet(Line.ug)} = {u \in Upgs : upg[u].pc # "new"}
  /\ \A x \in ToSet(Line.ug) :
        /\ x.st = UpgView(x.u)
        /\ x.st = "unused" => x.ncl
        /\ x.st = "used" => IsCid(x) /\ Cid(x) = upg[x.u].c
  /\ dev' = dev \cup (IF "timer" \notin Repair /\ IdleTimerLost THEN {"IdleTimerLost"} ELSE {})
                  \cup (IF DeadConnPooled THEN {"DeadConnStaysPooled"} ELSE {})
  /\ UNCHANGED <<pconns, pkeys, dialing, addcall, cnt, dial, conn, req, upg, mode>>

TCmd == TStart \/ TReserve \/ TUserGo \/ TCancel \/ TDialOk \/ TDialOkC \/ TDialFail \/ TResp \/ TRefuse \/ TSettings \/ TGoAway
        \/ TSClose \/ TCloseIdle \/ TShut \/ TShutCan \/ TClose \/ TDnr \/ TMarkDead \/ TUpgrade \/ TWake1 \/ TWake2 \/ TTick

IntNames == {"Lookup", "DialCtx", "DialFinish", "PostDial", "WriteReq", "MarkDeadReq", "WriteHdr", "Forget", "PingAck",
             "ApplySettings", "GAMarkDead", "GASet", "RLCleanup", "RLFinish", "IdleFire", "UnusedFire", "ShutBegin", "ShutG", "ShutDone", "ShutCtx",
             "UCheck", "URun", "URet"}
Tag(name, A) == A /\ acts' = acts \cup {name}
TInternal ==
  \/ \E r \in Reqs : \/ Tag("Lookup", Lookup(r)) \/ Tag("PostDial", PostDial(r)) \/ Tag("WriteReq", WriteReq(r))
                      \/ Tag("MarkDeadReq", MarkDeadReq(r)) \/ Tag("WriteHdr", WriteHdr(r)) \/ Tag("Forget", Forget(r))
  \/ \E d \in Live : \/ Tag("DialCtx", DialCtx(d)) \/ Tag("DialFinish", DialFinish(d)) \/ Tag("PingAck", PingAck(d)) \/ Tag("ApplySettings", ApplySettings(d))
                     \/ Tag("GAMarkDead", GAMarkDead(d)) \/ Tag("GASet", GASet(d)) \/ Tag("RLCleanup", RLCleanup(d))
                     \/ Tag("RLFinish", RLFinish(d)) \/ Tag("IdleFire", IdleFire(d)) \/ Tag("UnusedFire", UnusedFire(d))
                     \/ Tag("ShutBegin", ShutBegin(d)) \/ Tag("ShutG", ShutG(d)) \/ Tag("ShutDone", ShutDone(d))
                     \/ Tag("ShutCtx", ShutCtx(d))
  \/ \E u \in Upgs : Tag("UCheck", UCheck(u)) \/ Tag("URet", URet(u))
  \/ \E k \in Keys : Tag("URun", URun(k))

(* coverage: at the last line of a trace the internal actions of the accepted path are added to a TLC register *)
ASSUME TLCSet(NT + 2, [a \in IntNames |-> 0])
Count == IF l = Meta.ends[cur]
         THEN TLCSet(NT + 2, [a \in IntNames |-> TLCGet(NT + 2)[a] + (IF a \in acts THEN 1 ELSE 0)])
         ELSE TRUE

TNext ==
    /\ l <= Meta.ends[cur]
    /\ cur' = cur
    /\ \/ l' = l + 1 /\ (TCmd \/ (TQ /\ Count)) /\ acts' = acts
       \/ l' = l /\ TInternal
    /\ dn' = dev' \ dev

TSpec == TInit /\ [][TNext]_tvars
Mark == HighWater(cur, l)

Post == AllConsumed /\ \A a \in IntNames : PrintT(<<"COVER", a, TLCGet(NT + 2)[a]>>)

(* A deviation from the documentation is a violation; each name is reported once per run (register NT+1) *)
ASSUME TLCSet(NT + 1, {})
NoNewDeviation ==
    LET seen == TLCGet(NT + 1) IN
    IF dn \subseteq seen THEN TRUE ELSE TLCSet(NT + 1, seen \cup dn) /\ FALSE
=============================================================================
