-------------------------------- MODULE Gen --------------------------------
(* Schedule generator: random walks of the design model H2Pool.  Only the environment commands are  *)
(* exported, in the vocabulary of the Go driver, which issues them against the real Transport; what  *)
(* the real pool then does is recorded and judged by Trace.tla (not by the model's own choices).     *)
(* A command is issued when the model is quiescent, or (par) right after another command, so that    *)
(* the two race in the real code.  One "tick" of the driver = Wake1, Wake2, Tick with quiescence in  *)
(* between.                                                                                          *)
EXTENDS H2Pool, Json

CONSTANT GenDepth
VARIABLES hist, burst, tph, fin
gvars == <<vars, hist, burst, tph, fin>>

GInit == Init /\ hist = <<[mode |-> mode, auth |-> AuthIdx]>> /\ burst = 0 /\ tph = 0 /\ fin = FALSE
Rec(x, par) == hist' = Append(hist, IF par THEN x @@ [par |-> TRUE] ELSE x)
Id(c) == [k |-> c[1], n |-> c[2]]

InFlight == Cardinality({r \in Reqs : req[r].pc \notin {"new", "ret"}})
GEnv(par) ==
  \/ On("start")    /\ \E r \in Reqs, a \in AuthIdx : (mode = "nodial" => Auths[a].s = "http")
                         /\ InFlight < 4 /\ Start(r, a, FALSE) /\ Rec([e |-> "start", a |-> a], par)
  \/ On("only")     /\ \E r \in Reqs, a \in AuthIdx : mode = "dial" /\ InFlight < 4 /\ Start(r, a, TRUE) /\ Rec([e |-> "start", a |-> a, only |-> TRUE], par)
  \/ On("reserve")  /\ \E r \in Reqs, c \in CId : UserReserve(r, c, CanTake(c)) /\ Rec([e |-> "ureserve"] @@ Id(c), par)
  \/ On("reserve")  /\ \E r \in Reqs, b \in BOOLEAN : UserGo(r, b) /\ Rec([e |-> "usergo", r |-> r, cancelled |-> b], par)
  \/ On("cancel")   /\ \E r \in Reqs : Cancel(r) /\ Rec([e |-> "cancel", r |-> r], par)
  \/ On("dial")     /\ \E d \in CId : \/ DialOk(d) /\ Rec([e |-> "dialok"] @@ Id(d), par)
                                      \/ DialFail(d) /\ Rec([e |-> "dialfail"] @@ Id(d), par)
                                      \/ DialOkClosed(d) /\ Rec([e |-> "dialokc"] @@ Id(d), par)
  \/ On("resp")     /\ \E r \in Reqs : Resp(r) /\ Rec([e |-> "resp", r |-> r], par)
  \/ On("refuse")   /\ \E r \in Reqs : Refuse(r) /\ Rec([e |-> "refuse", r |-> r], par)
  \/ On("settings") /\ \E c \in CId, m \in Limits : m # conn[c].lim /\ Settings(c, m) /\ Rec([e |-> "settings", max |-> m] @@ Id(c), par)
  \/ On("goaway")   /\ \E c \in CId, last \in {"all", "none"} : GoAway(c, last) /\ Rec([e |-> "goaway", last |-> last] @@ Id(c), par)
  \/ On("sclose")   /\ \E c \in CId : SrvClose(c) /\ Rec([e |-> "sclose"] @@ Id(c), par)
  \/ On("closeidle") /\ (\E c \in CId : pkeys[c] # {}) /\ CloseIdle /\ Rec([e |-> "closeidle"], par)
  \/ On("shutdown") /\ \E c \in CId : \/ Serving(c) /\ ~conn[c].cl /\ ShutStart(c) /\ Rec([e |-> "shutdown"] @@ Id(c), par)
                                      \/ ShutCancel(c) /\ Rec([e |-> "shutcancel"] @@ Id(c), par)
  \/ On("close")    /\ \E c \in CId : ~conn[c].cl /\ CloseCmd(c) /\ Rec([e |-> "close"] @@ Id(c), par)
  \/ On("dnr")      /\ \E c \in CId : ~conn[c].dnr /\ SetDNR(c) /\ Rec([e |-> "dnr"] @@ Id(c), par)
  \/ On("markdead") /\ \E c \in CId : pkeys[c] # {} /\ MarkDeadCmd(c) /\ Rec([e |-> "markdead"] @@ Id(c), par)
  \/ On("upgrade")  /\ \E u \in Upgs, a \in AuthIdx : Auths[a].s = "http" /\ Upgrade(u, a) /\ Rec([e |-> "upgrade", a |-> a], par)

GStep ==
  \/ Internal /\ burst' = 2 /\ UNCHANGED <<hist, tph>>
  \/ Quiescent /\ tph = 0 /\ GEnv(FALSE) /\ burst' = 1 /\ UNCHANGED tph
  \/ burst = 1 /\ tph = 0 /\ GEnv(TRUE) /\ burst' = 2 /\ UNCHANGED tph
  \/ Quiescent /\ tph = 0 /\ On("tick") /\ (\E c \in CId : conn[c].st = "open") /\ hist[Len(hist)] # [e |-> "tick"]
        /\ Wake1 /\ Rec([e |-> "tick"], FALSE) /\ tph' = 1 /\ burst' = 2
  \/ Quiescent /\ tph = 1 /\ Wake2 /\ tph' = 2 /\ UNCHANGED <<hist, burst>>
  \/ Quiescent /\ tph = 2 /\ Tick /\ tph' = 0 /\ UNCHANGED <<hist, burst>>

(* the walk ends when GenDepth commands are recorded and the model has settled; one more step marks it *)
GNext == IF Len(hist) >= GenDepth /\ Quiescent /\ tph = 0
         THEN ~fin /\ fin' = TRUE /\ UNCHANGED <<vars, hist, burst, tph>>
         ELSE GStep /\ UNCHANGED fin

GSpec == GInit /\ [][GNext]_gvars
Emit == ~fin \/ PrintT(<<"BEH", ToJson(hist)>>)
=============================================================================
