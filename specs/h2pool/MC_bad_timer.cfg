SPECIFICATION Spec
CONSTANTS
  AuthIdx = {1}
  NR = 2
  NC = 1
  NU = 0
  Modes = {"dial"}
  IdleOn = TRUE
  Limits = {1}
  Repair = {"only", "rsv", "zombie"}
  FreeTime = TRUE
  Env = {"start", "dial", "resp", "reserve"}
INVARIANTS IdleConnAlwaysTimed
CHECK_DEADLOCK FALSE
