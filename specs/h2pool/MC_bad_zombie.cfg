SPECIFICATION Spec
CONSTANTS
  AuthIdx = {1}
  NR = 2
  NC = 2
  NU = 0
  Modes = {"dial"}
  IdleOn = FALSE
  Limits = {1}
  Repair = {"only", "timer", "rsv"}
  FreeTime = FALSE
  Env = {"start", "dial", "dialc", "cancel", "reserve"}
INVARIANTS IndexesConsistent
CHECK_DEADLOCK FALSE
