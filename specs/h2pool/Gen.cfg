SPECIFICATION GSpec
CONSTANTS
  AuthIdx = {1, 2, 5, 6, 12}
  NR = 6
  NC = 3
  NU = 3
  Modes = {"dial", "dial", "nodial"}
  IdleOn = TRUE
  Limits = {1, 2}
  Repair = {}
  FreeTime = FALSE
  Env = {"start", "only", "reserve", "cancel", "dial", "dialc", "resp", "refuse", "settings", "goaway", "sclose", "closeidle",
         "shutdown", "close", "dnr", "markdead", "upgrade", "tick"}
  GenDepth = 16
INVARIANT Emit
CHECK_DEADLOCK FALSE
