SPECIFICATION Spec
CONSTANTS
  AuthIdx = {1}
  NR = 2
  NC = 2
  NU = 0
  Modes = {"dial"}
  IdleOn = FALSE
  Limits = {1}
  Repair = {"only", "timer", "rsv", "zombie"}
  FreeTime = FALSE
  Env = {"start", "dial", "resp", "goaway", "sclose", "dialc"}
INVARIANTS TypeOK AtMostOneDial WaitersOnTheDial ReservationsExact StreamsExact NoLeakedReservation FailedDialNotCached
  NoDialInNoDialMode OnlyNeverDials IndexesConsistent TimerArmedWhenIdle NoStrandedWaiter NoDeviation QuiescentIsStable
PROPERTIES NoUnusableSelected SelectedFromIndex FailedDialToWaiters IdleTimeoutOnlyWhenIdle ShutdownWaits
CHECK_DEADLOCK FALSE
