SPECIFICATION TSpec
CONSTANTS
  AuthIdx = {1, 2, 3, 4, 5, 6, 7, 8, 9, 10, 11, 12}
  NR = 8
  NC = 5
  NU = 4
  Modes = {"dial", "nodial"}
  IdleOn = TRUE
  Limits = {1, 2}
  Repair = {"only", "timer", "rsv", "zombie"}
  FreeTime = FALSE
  Env = {}
INVARIANTS NoNewDeviation
CONSTRAINT Mark
POSTCONDITION Post
CHECK_DEADLOCK FALSE
