------------------------------- MODULE H2Pool -------------------------------
(* The connection pool of the x/net/http2 client (client_conn_pool.go) with the parts of       *)
(* transport.go it calls, at the granularity of the code's critical sections: one action per   *)
(* p.mu section (getClientConn's lookup, the end of a dial, addConnIfNeeded, MarkDead,          *)
(* closeIdleConnections) and per cc.mu section (ReserveNewRequest after a dial, the start of    *)
(* writeRequest, forgetStreamID, closeIfIdle, setGoAway, the read loop's cleanup, Shutdown).    *)
(* Requests, dials, upgrades (the net/http TLS-upgrade path), the idle timer of a connection    *)
(* and the per-connection read loop are processes; TLC explores every interleaving of them.     *)
(* Environment actions ("Cmd") are what callers, servers and the clock do.                      *)
(*                                                                                              *)
(* Repair: the pinned code deviates from its documentation in two places; with the name in      *)
(* Repair the action follows the documentation, without it the pinned code (and the step is     *)
(* recorded in dev):                                                                            *)
(*   "only"  - RoundTripOpt.OnlyCachedConn is never read: such a request dials on a miss;       *)
(*   "timer" - the idle timer of a connection is not re-armed when it fired while only a        *)
(*             reservation was held, or when writeRequest stopped it and then refused the        *)
(*             request: the idle connection is never closed for idleness;                       *)
(*   "rsv"   - a request that fails before it gets a stream gives its reservation back twice     *)
(*             (known as ReservationLost from the h2client family, C17);                        *)
(*   "zombie"- a closed, never used connection stays in the pool for ever when the request that *)
(*             was given it is cancelled at the same time (nobody calls MarkDead).              *)
EXTENDS Integers, Sequences, FiniteSets, TLC

CONSTANTS
  AuthIdx,    \* indices into Auths: the authority spellings requests may use
  NR,         \* requests 1..NR
  NC,         \* connections (dials / upgrades) per key: <<k, 1>> .. <<k, NC>>
  NU,         \* upgrades 1..NU (only used when Mode = "nodial")
  Modes,      \* subset of {"dial", "nodial"}: "dial" = a Transport with its own pool; "nodial" = ConfigureTransports
              \* (noDialClientConnPool, connections arrive through the TLSNextProto upgrade function)
  IdleOn,     \* IdleConnTimeout is configured (2 ticks)
  Limits,     \* SETTINGS_MAX_CONCURRENT_STREAMS values servers may send
  Repair,     \* subset of {"only", "timer", "rsv", "zombie"}
  FreeTime,   \* TRUE: time may pass at any moment (model checking); FALSE: only by the clock commands
  Env         \* names of the environment commands enabled in model checking

Reqs == 1..NR
Upgs == 1..NU
Inf  == 100                 \* initialMaxConcurrentStreams until the first SETTINGS frame

(* ------------------------------------------------------------------ authorities -> pool keys *)
(* authorityAddr(scheme, authority): default port by scheme, an empty port is the default,     *)
(* IDNA ToASCII of the host, an IPv6 literal keeps exactly one pair of brackets.               *)
(* Hosts are tokens (the driver maps them to real spellings): "bu" is the U-label spelling of  *)
(* the host whose A-label is "bx"; "v6" is "[::1]".                                            *)
Auths == << [s |-> "https", h |-> "a",  p |-> "none"],
            [s |-> "https", h |-> "a",  p |-> "443"],
            [s |-> "https", h |-> "a",  p |-> "empty"],
            [s |-> "https", h |-> "a",  p |-> "8443"],
            [s |-> "http",  h |-> "a",  p |-> "none"],
            [s |-> "http",  h |-> "a",  p |-> "80"],
            [s |-> "https", h |-> "bu", p |-> "none"],
            [s |-> "https", h |-> "bx", p |-> "443"],
            [s |-> "https", h |-> "v6", p |-> "none"],
            [s |-> "https", h |-> "v6", p |-> "443"],
            [s |-> "http",  h |-> "v6", p |-> "empty"],
            [s |-> "https", h |-> "b",  p |-> "none"] >>
Ascii(h)   == IF h = "bu" THEN "bx" ELSE h
DefPort(s) == IF s = "http" THEN "80" ELSE "443"
Norm(i)    == LET a == Auths[i] IN <<Ascii(a.h), IF a.p \in {"none", "empty"} THEN DefPort(a.s) ELSE a.p>>
NoC        == <<<<"-", "-">>, 0>>

VARIABLES
  pconns,   \* [Keys -> Seq(CId)]        clientConnPool.conns
  pkeys,    \* [CId -> SUBSET Keys]      clientConnPool.keys
  dialing,  \* [Keys -> 0..NC]           clientConnPool.dialing: number of the dial in flight, 0 none
  addcall,  \* [Keys -> 0..NU]           clientConnPool.addConnCalls: the upgrade whose conn is being made, 0 none
  cnt,      \* [Keys -> 0..NC]           dials / upgrade connections started so far per key
  dial,     \* [CId -> record]           dialCall
  conn,     \* [CId -> record]           ClientConn
  req,      \* [Reqs -> record]          RoundTrip calls
  upg,      \* [Upgs -> record]          addConnIfNeeded calls (through the TLSNextProto upgrade function)
  dev,      \* deviations from the documentation taken so far (names)
  mode      \* "dial" | "nodial" (never changes)

vars == <<pconns, pkeys, dialing, addcall, cnt, dial, conn, req, upg, dev, mode>>

(* the pool keys of a run are fixed at its start (the domain of the pool's maps in this model) *)
Keys == DOMAIN pconns
CId  == Keys \X (1..NC)

NoDial == [st |-> "none", owner |-> 0, err |-> "", sc |-> FALSE]
NoConn == [st |-> "none", act |-> 0, rsv |-> 0, lim |-> Inf, ga |-> FALSE, dnr |-> FALSE, clg |-> FALSE,
           cl |-> FALSE, coi |-> FALSE, used |-> FALSE, reu |-> FALSE, fresh |-> FALSE,
           tm |-> 0 - 1, fire |-> FALSE, ut |-> FALSE, utf |-> FALSE, rl |-> "none", ccl |-> FALSE, scl |-> FALSE,
           pset |-> 0, pga |-> "", gal |-> "", pr |-> 0, shut |-> "", sg |-> FALSE, by |-> 0, late |-> 0]
NewConn(u) == [NoConn EXCEPT !.st = "open", !.fresh = TRUE, !.tm = IF IdleOn THEN 2 ELSE 0 - 1, !.rl = "run", !.by = u]
NoReq  == [pc |-> "new", key |-> NoC[1], c |-> NoC, n |-> 0, cx |-> FALSE, ab |-> "", fin |-> FALSE,
           hdr |-> FALSE, kind |-> "", only |-> FALSE, dir |-> FALSE]
NoUpg  == [pc |-> "new", key |-> NoC[1], dup |-> 0, used |-> FALSE, c |-> NoC]

InitWith(K) ==
  /\ pconns  = [k \in K |-> <<>>]
  /\ pkeys   = [c \in K \X (1..NC) |-> {}]
  /\ dialing = [k \in K |-> 0]
  /\ addcall = [k \in K |-> 0]
  /\ cnt     = [k \in K |-> 0]
  /\ dial    = [c \in K \X (1..NC) |-> NoDial]
  /\ conn    = [c \in K \X (1..NC) |-> NoConn]
  /\ req     = [r \in Reqs |-> NoReq]
  /\ upg     = [u \in Upgs |-> NoUpg]
  /\ dev     = {}
Init == InitWith({Norm(i) : i \in AuthIdx}) /\ mode \in Modes

Range(s)   == {s[j] : j \in 1..Len(s)}
Pooled(k)  == Range(pconns[k])
Without(s, c) == SelectSeq(s, LAMBDA x : x # c)
Dec(n)     == IF n > 0 THEN n - 1 ELSE 0

(* idleStateLocked (StrictMaxConcurrentStreams off), with rsv reservations counted *)
Usable(x)      == ~x.ga /\ ~x.cl /\ ~x.clg /\ ~x.dnr
CanTakeW(x, rsv) ==
  \/ x.act + rsv + x.pr < x.lim /\ Usable(x)
  \/ ~x.used /\ rsv = 0 /\ x.cl /\ ~x.coi      \* a closed connection that never carried a request takes one (which fails)
CanTake(c)     == conn[c].st = "open" /\ CanTakeW(conn[c], conn[c].rsv)

(* clientConnPool.MarkDead under p.mu *)
MarkDeadOp(c) ==
  /\ pconns' = [k \in Keys |-> IF k \in pkeys[c] THEN Without(pconns[k], c) ELSE pconns[k]]
  /\ pkeys'  = [pkeys EXCEPT ![c] = {}]

(* cc.closeConn: the client closes its end; the read loop will notice *)
Closed(x) == [x EXCEPT !.ccl = TRUE, !.rl = IF x.rl = "run" THEN "pend" ELSE x.rl]

(* the idle timer after a step that left the connection idle although the timer is not running *)
Rearm(x) == IF "timer" \in Repair /\ IdleOn /\ x.act = 0 /\ x.rsv = 0 /\ ~x.cl /\ x.tm < 0 /\ ~x.fire
            THEN [x EXCEPT !.tm = 2] ELSE x

(* ---------------------------------------------------------------- requests: roundTripViaPool *)
(* the retry loop after a retryable failure at loop index n *)
RetryRec(q) ==
  IF q.dir THEN [q EXCEPT !.pc = "ret", !.kind = "unusable", !.c = NoC]
  ELSE IF q.n = 0 THEN [q EXCEPT !.pc = "lookup", !.n = 1, !.c = NoC, !.ab = "", !.fin = FALSE, !.hdr = FALSE]
  ELSE IF q.n <= 6 THEN [q EXCEPT !.pc = "backoff", !.c = NoC, !.ab = "", !.fin = FALSE, !.hdr = FALSE]
  ELSE [q EXCEPT !.pc = "ret", !.kind = "unusable", !.c = NoC]

Ret(q, kind) == [q EXCEPT !.pc = "ret", !.kind = kind]

(* getClientConn, the section under p.mu (ReserveNewRequest of every cached connection nests cc.mu) *)
Lookup(r) ==
  LET q == req[r] k == q.key IN
  /\ q.pc = "lookup"
  /\ \/ \E c \in Pooled(k) :                               \* a cached connection takes the request
          /\ CanTake(c)
          /\ conn' = [conn EXCEPT ![c].rsv = @ + 1, ![c].reu = TRUE]
          /\ req' = [req EXCEPT ![r].pc = "got", ![r].c = c]
          /\ UNCHANGED <<pconns, pkeys, dialing, cnt, dial, dev, mode>>
     \/ /\ \A c \in Pooled(k) : ~CanTake(c)                \* miss
        /\ IF mode = "nodial" \/ (q.only /\ "only" \in Repair)
           THEN /\ req' = [req EXCEPT ![r] = Ret(q, "nocached")]
                /\ UNCHANGED <<pconns, pkeys, dialing, cnt, dial, conn, dev, mode>>
           ELSE /\ dev' = IF q.only THEN dev \cup {"OnlyCachedConnDials"} ELSE dev
                /\ IF dialing[k] # 0
                   THEN /\ req' = [req EXCEPT ![r].pc = "waitdial", ![r].c = <<k, dialing[k]>>]
                        /\ UNCHANGED <<pconns, pkeys, dialing, cnt, dial, conn, mode>>
                   ELSE /\ cnt[k] < NC
                        /\ cnt' = [cnt EXCEPT ![k] = @ + 1]
                        /\ dialing' = [dialing EXCEPT ![k] = cnt[k] + 1]
                        \* the dial runs with the context of this request (see DialCtx)
                        /\ dial' = [dial EXCEPT ![<<k, cnt[k] + 1>>] = [st |-> "run", owner |-> r, err |-> "", sc |-> FALSE]]
                        /\ req' = [req EXCEPT ![r].pc = "waitdial", ![r].c = <<k, cnt[k] + 1>>]
                        /\ UNCHANGED <<pconns, pkeys, conn, mode>>
  /\ UNCHANGED <<addcall, upg, mode>>

(* the dial function notices that the context it was given (its initiator's) is cancelled *)
DialCtx(d) ==
  /\ dial[d].st = "run" /\ req[dial[d].owner].cx
  /\ dial' = [dial EXCEPT ![d].st = "fail", ![d].err = "ctx"]
  /\ UNCHANGED <<pconns, pkeys, dialing, addcall, cnt, conn, req, upg, dev, mode>>

(* dialCall.dial after dialClientConn returned: newClientConn, then the p.mu section *)
DialFinish(d) ==
  /\ dial[d].st \in {"ok", "fail"}
  /\ dialing' = [dialing EXCEPT ![d[1]] = 0]
  /\ IF dial[d].st = "ok"
     THEN /\ dial' = [dial EXCEPT ![d].st = "done_ok"]
          \* (sc: the server end is closed by the time the connection is handed over)
          /\ conn' = [conn EXCEPT ![d] = IF dial[d].sc THEN [NewConn(0) EXCEPT !.scl = TRUE, !.rl = "pend"] ELSE NewConn(0)]
          /\ pconns' = [pconns EXCEPT ![d[1]] = Append(@, d)]
          /\ pkeys' = [pkeys EXCEPT ![d] = {d[1]}]
     ELSE /\ dial' = [dial EXCEPT ![d].st = "done_fail"]
          /\ UNCHANGED <<conn, pconns, pkeys, mode>>
  /\ UNCHANGED <<addcall, cnt, req, upg, dev, mode>>

(* getClientConn after <-call.done: shouldRetryDial, the error, or ReserveNewRequest on the new connection *)
PostDial(r) ==
  LET q == req[r] d == q.c IN
  /\ q.pc = "waitdial"
  /\ dial[d].st \in {"done_ok", "done_fail"}
  /\ IF dial[d].st = "done_fail"
     THEN /\ req' = [req EXCEPT ![r] =
                IF dial[d].err = "ctx" /\ dial[d].owner # r /\ req[dial[d].owner].cx
                THEN [q EXCEPT !.pc = "lookup", !.c = NoC]       \* the dial died with its initiator: dial again
                ELSE Ret([q EXCEPT !.c = NoC], IF dial[d].err = "ctx" THEN "canceled" ELSE "dialerr")]
          /\ UNCHANGED conn
     ELSE IF CanTake(d)
     THEN /\ conn' = [conn EXCEPT ![d].rsv = @ + 1, ![d].reu = TRUE]
          /\ req' = [req EXCEPT ![r].pc = "got"]
     ELSE /\ req' = [req EXCEPT ![r].pc = "lookup", ![r].c = NoC]
          /\ UNCHANGED conn
  /\ UNCHANGED <<pconns, pkeys, dialing, addcall, cnt, dial, upg, dev, mode>>

(* ClientConn.RoundTrip -> writeRequest: the first cc.mu section (stop the idle timer, use up the   *)
(* reservation, awaitOpenSlotForStreamLocked, addStreamLocked).  A request whose context is already *)
(* cancelled may also leave at the select on reqHeaderMu, giving only its reservation back.         *)
WriteReq(r) ==
  LET q == req[r] c == q.c x == conn[c] rsv1 == Dec(x.rsv) IN
  /\ q.pc = "got"
  /\ \/ /\ q.cx                                            \* select picked ctx.Done: nothing but the reservation changes
        /\ conn' = [conn EXCEPT ![c] = Rearm([x EXCEPT !.rsv = rsv1])]
        /\ req' = [req EXCEPT ![r] = Ret([q EXCEPT !.c = NoC], "canceled")]
        /\ UNCHANGED dev
     \/ IF x.cl /\ ~x.used /\ rsv1 = 0
        THEN \* errClientConnNotEstablished: not retried; roundTripViaPool stops the timer and marks the conn dead.
             \* writeRequest has already stopped cc.idleTimer - which by now is the 5 s MarkDead timer - so when a
             \* cancelled context wins the race for RoundTrip's result nobody removes the connection from the pool.
             /\ conn' = [conn EXCEPT ![c] = [x EXCEPT !.rsv = rsv1, !.tm = 0 - 1, !.ut = FALSE]]
             /\ \/ req' = [req EXCEPT ![r] = IF q.dir /\ "zombie" \notin Repair THEN Ret([q EXCEPT !.c = NoC], "notest")
                                                ELSE [q EXCEPT !.pc = "markdead"]]
                \/ /\ q.cx /\ ~q.dir /\ "zombie" \notin Repair
                   /\ req' = [req EXCEPT ![r] = Ret([q EXCEPT !.c = NoC], "canceled")]
             /\ UNCHANGED dev
        ELSE IF x.cl \/ ~CanTakeW(x, rsv1)
        THEN \* errClientConnUnusable: retried on another connection.  The pinned code gives the reservation back
             \* twice (writeRequest and cleanupWriteRequest), i.e. it also takes one that belongs to somebody else.
             /\ conn' = [conn EXCEPT ![c] = Rearm([x EXCEPT !.rsv = IF "rsv" \in Repair THEN rsv1 ELSE Dec(rsv1), !.tm = 0 - 1])]
             /\ req' = [req EXCEPT ![r] = RetryRec(q)]
             /\ dev' = IF "rsv" \notin Repair /\ rsv1 > 0 THEN dev \cup {"ReservationLost"} ELSE dev
        ELSE /\ conn' = [conn EXCEPT ![c] = [x EXCEPT !.rsv = rsv1, !.tm = 0 - 1, !.act = @ + 1, !.used = TRUE, !.fresh = TRUE]]
             /\ req' = [req EXCEPT ![r] = [q EXCEPT !.pc = "sent", !.hdr = FALSE, !.fin = FALSE,
                                                    !.ab = IF q.cx THEN "canceled" ELSE ""]]
             /\ UNCHANGED dev
  /\ UNCHANGED <<pconns, pkeys, dialing, addcall, cnt, dial, upg, mode>>

(* roundTripViaPool after errClientConnNotEstablished: pool.MarkDead(cc) *)
MarkDeadReq(r) ==
  /\ req[r].pc = "markdead"
  /\ MarkDeadOp(req[r].c)
  /\ req' = [req EXCEPT ![r] = Ret([req[r] EXCEPT !.c = NoC], "notest")]
  /\ UNCHANGED <<dialing, addcall, cnt, dial, conn, upg, dev, mode>>

(* encodeAndWriteHeaders: HEADERS go out unless the stream was aborted in between *)
WriteHdr(r) ==
  /\ req[r].pc = "sent" /\ ~req[r].hdr /\ req[r].ab = ""
  /\ req' = [req EXCEPT ![r].hdr = TRUE]
  /\ UNCHANGED <<pconns, pkeys, dialing, addcall, cnt, dial, conn, upg, dev, mode>>

(* cleanupWriteRequest -> forgetStreamID (cc.mu), then RoundTrip returns or the retry loop goes on *)
Forget(r) ==
  LET q == req[r] c == q.c x == conn[c]
      act1 == x.act - 1
      coi  == (x.dnr \/ x.ga) /\ x.rsv = 0 /\ act1 = 0       \* closeOnIdle
      y0   == [x EXCEPT !.act = act1, !.fresh = TRUE, !.tm = IF act1 = 0 /\ IdleOn THEN 2 ELSE @]
      y1   == IF coi THEN Closed([y0 EXCEPT !.cl = TRUE]) ELSE y0 IN
  /\ q.pc = "sent"
  /\ q.ab # "" \/ q.fin
  /\ \E p \in (IF q.ab = "canceled" /\ q.hdr /\ ~(x.dnr \/ x.ga) THEN {0, 1} ELSE {0}) :
        conn' = [conn EXCEPT ![c] = [y1 EXCEPT !.pr = @ + p]]
  /\ req' = [req EXCEPT ![r] =
        CASE q.ab = ""         -> Ret([q EXCEPT !.c = NoC], "ok")
          [] q.ab = "canceled" -> Ret([q EXCEPT !.c = NoC], "canceled")
          [] q.ab \in {"goaway", "refused"} ->
               IF q.dir THEN Ret([q EXCEPT !.c = NoC], IF q.ab = "goaway" THEN "gotgoaway" ELSE "rst") ELSE RetryRec(q)
          [] OTHER             -> Ret([q EXCEPT !.c = NoC], "connerr")]
  /\ UNCHANGED <<pconns, pkeys, dialing, addcall, cnt, dial, upg, dev, mode>>

(* the PING that accompanies the RST_STREAM of a cancelled request is acknowledged (servers always do) *)
PingAck(c) ==
  /\ conn[c].pr > 0
  /\ conn' = [conn EXCEPT ![c].pr = 0]
  /\ UNCHANGED <<pconns, pkeys, dialing, addcall, cnt, dial, req, upg, dev, mode>>

(* ------------------------------------------------------------- connection: read loop, timers *)
(* processSettings *)
ApplySettings(c) ==
  /\ conn[c].pset # 0
  /\ conn' = [conn EXCEPT ![c].lim = conn[c].pset, ![c].pset = 0]
  /\ UNCHANGED <<pconns, pkeys, dialing, addcall, cnt, dial, req, upg, dev, mode>>

(* processGoAway: first pool.MarkDead (p.mu) ... *)
GAMarkDead(c) ==
  /\ conn[c].pga = "md" /\ conn[c].pset = 0
  /\ MarkDeadOp(c)
  /\ conn' = [conn EXCEPT ![c].pga = "set"]
  /\ UNCHANGED <<dialing, addcall, cnt, dial, req, upg, dev, mode>>

(* ... then setGoAway (cc.mu): streams above the last id are aborted with the retryable error *)
GASet(c) ==
  /\ conn[c].pga = "set"
  /\ conn' = [conn EXCEPT ![c].pga = "", ![c].ga = TRUE]
  /\ req' = [r \in Reqs |->
        IF req[r].pc = "sent" /\ req[r].c = c /\ req[r].ab = "" /\ ~req[r].fin /\ conn[c].gal = "none"
        THEN [req[r] EXCEPT !.ab = "goaway"] ELSE req[r]]
  /\ UNCHANGED <<pconns, pkeys, dialing, addcall, cnt, dial, upg, dev, mode>>

(* clientConnReadLoop.cleanup, the cc.mu part: closed; a connection that never served a request and was *)
(* active less than 5 s ago stays in the pool for a while (so that its error reaches a caller)           *)
RLCleanup(c) ==
  LET x == conn[c] IN
  /\ x.rl = "pend" /\ x.pga = "" /\ x.pset = 0
  /\ conn' = [conn EXCEPT ![c] = [x EXCEPT !.cl = TRUE, !.tm = 0 - 1,
                 !.ut = (~x.reu /\ x.fresh /\ ~x.coi),
                 !.rl = IF ~x.reu /\ x.fresh /\ ~x.coi THEN "fin" ELSE "md"]]
  /\ UNCHANGED <<pconns, pkeys, dialing, addcall, cnt, dial, req, upg, dev, mode>>

(* cleanup continued: MarkDead (unless deferred to the timer), every open stream fails, the conn is closed *)
RLFinish(c) ==
  LET x == conn[c] IN
  /\ x.rl \in {"fin", "md"}
  /\ IF x.rl = "md" THEN MarkDeadOp(c) ELSE UNCHANGED <<pconns, pkeys, mode>>
  /\ conn' = [conn EXCEPT ![c] = [x EXCEPT !.rl = "done", !.ccl = TRUE]]
  /\ req' = [r \in Reqs |->
        IF req[r].pc = "sent" /\ req[r].c = c /\ req[r].ab = "" /\ ~req[r].fin
        THEN [req[r] EXCEPT !.ab = "connerr"] ELSE req[r]]
  /\ UNCHANGED <<dialing, addcall, cnt, dial, upg, dev, mode>>

(* closeIfIdle (cc.mu) *)
CloseIfIdleRec(x) ==
  IF x.act > 0 \/ x.rsv > 0 THEN x ELSE Closed([x EXCEPT !.cl = TRUE, !.coi = TRUE])

(* the idle timer's goroutine: onIdleTimeout.  If the connection is not idle the timer is simply gone. *)
IdleFire(c) ==
  LET x == conn[c] y == CloseIfIdleRec([x EXCEPT !.fire = FALSE]) IN
  /\ x.fire
  /\ conn' = [conn EXCEPT ![c] = IF "timer" \in Repair /\ (x.act > 0 \/ x.rsv > 0) /\ ~x.cl
                                 THEN [y EXCEPT !.tm = 2] ELSE y]
  /\ UNCHANGED <<pconns, pkeys, dialing, addcall, cnt, dial, req, upg, dev, mode>>

(* the 5 s timer of a never used, closed connection: MarkDead *)
UnusedFire(c) ==
  /\ conn[c].utf
  /\ MarkDeadOp(c)
  /\ conn' = [conn EXCEPT ![c].utf = FALSE]
  /\ UNCHANGED <<dialing, addcall, cnt, dial, req, upg, dev, mode>>

(* ClientConn.Shutdown runs in the caller's goroutine: sendGoAway (closing; the GOAWAY write fails on a dead conn) *)
ShutBegin(c) ==
  LET x == conn[c] IN
  /\ x.shut = "start"
  /\ conn' = [conn EXCEPT ![c] = [x EXCEPT !.clg = TRUE, !.shut = IF x.ccl \/ x.scl THEN "err" ELSE "wait"]]
  /\ UNCHANGED <<pconns, pkeys, dialing, addcall, cnt, dial, req, upg, dev, mode>>
(* its helper goroutine: no stream left (reservations do not count) or closed => closed; done *)
ShutG(c) ==
  LET x == conn[c] IN
  /\ x.shut \in {"wait", "cx"} /\ ~x.sg /\ (x.act = 0 \/ x.cl)
  /\ conn' = [conn EXCEPT ![c] = [x EXCEPT !.cl = TRUE, !.sg = TRUE]]
  /\ UNCHANGED <<pconns, pkeys, dialing, addcall, cnt, dial, req, upg, dev, mode>>
(* the select in Shutdown: done => closeConn, nil; ctx.Done => ctx.Err() (both ready: either) *)
ShutDone(c) ==
  LET x == conn[c] IN
  /\ x.shut \in {"wait", "cx"} /\ x.sg
  /\ conn' = [conn EXCEPT ![c] = Closed([x EXCEPT !.shut = "nil"])]
  /\ UNCHANGED <<pconns, pkeys, dialing, addcall, cnt, dial, req, upg, dev, mode>>
ShutCtx(c) ==
  /\ conn[c].shut = "cx"
  /\ conn' = [conn EXCEPT ![c].shut = "ctx"]
  /\ UNCHANGED <<pconns, pkeys, dialing, addcall, cnt, dial, req, upg, dev, mode>>

(* --------------------------------------------------------------- upgrades: addConnIfNeeded *)
UCheck(u) ==
  LET k == upg[u].key IN
  /\ upg[u].pc = "check"
  /\ IF \E c \in Pooled(k) : CanTake(c)
     THEN /\ upg' = [upg EXCEPT ![u].pc = "ret", ![u].used = FALSE]
          /\ UNCHANGED addcall
     ELSE IF addcall[k] # 0
     THEN /\ upg' = [upg EXCEPT ![u].pc = "wait", ![u].dup = addcall[k]]
          /\ UNCHANGED addcall
     ELSE /\ cnt[k] < NC
          /\ addcall' = [addcall EXCEPT ![k] = u]
          /\ upg' = [upg EXCEPT ![u].pc = "wait", ![u].dup = 0]
  /\ UNCHANGED <<pconns, pkeys, dialing, cnt, dial, conn, req, dev, mode>>

(* addConnCall.run: NewClientConn on the creator's net.Conn, then the p.mu section *)
URun(k) ==
  LET u == addcall[k] c == <<k, cnt[k] + 1>> IN
  /\ u # 0
  /\ cnt' = [cnt EXCEPT ![k] = @ + 1]
  /\ conn' = [conn EXCEPT ![c] = NewConn(u)]
  /\ pconns' = [pconns EXCEPT ![k] = Append(@, c)]
  /\ pkeys' = [pkeys EXCEPT ![c] = {k}]
  /\ addcall' = [addcall EXCEPT ![k] = 0]
  /\ upg' = [upg EXCEPT ![u].c = c]
  /\ UNCHANGED <<dialing, dial, req, dev, mode>>

(* addConnIfNeeded after <-call.done: the creator's connection was used, a joined caller's was not *)
URet(u) ==
  LET w == IF upg[u].dup = 0 THEN u ELSE upg[u].dup IN
  /\ upg[u].pc = "wait"
  /\ upg[w].c # NoC                                        \* the call it waits for has run
  /\ upg' = [upg EXCEPT ![u].pc = "ret", ![u].used = (upg[u].dup = 0)]
  /\ UNCHANGED <<pconns, pkeys, dialing, addcall, cnt, dial, conn, req, dev, mode>>

(* the dial / connection ids handed out so far *)
Live == UNION {{<<k, i>> : i \in 1..cnt[k]} : k \in Keys}

Internal ==
  \/ \E r \in Reqs : Lookup(r) \/ PostDial(r) \/ WriteReq(r) \/ MarkDeadReq(r) \/ WriteHdr(r) \/ Forget(r)
  \/ \E d \in Live : DialCtx(d) \/ DialFinish(d) \/ PingAck(d) \/ ApplySettings(d) \/ GAMarkDead(d) \/ GASet(d) \/ RLCleanup(d)
                    \/ RLFinish(d) \/ IdleFire(d) \/ UnusedFire(d) \/ ShutBegin(d) \/ ShutG(d) \/ ShutDone(d) \/ ShutCtx(d)
  \/ \E u \in Upgs : UCheck(u) \/ URet(u)
  \/ \E k \in Keys : URun(k)

(* explicit form of ~ENABLED Internal (checked to be equivalent by the model checking configs) *)
Quiescent ==
  /\ \A r \in Reqs :
       /\ req[r].pc \notin {"lookup", "got", "markdead"}
       /\ req[r].pc = "waitdial" => dial[req[r].c].st \notin {"done_ok", "done_fail"}
       /\ req[r].pc = "sent" => req[r].hdr /\ req[r].ab = "" /\ ~req[r].fin
  /\ \A d \in Live :
       /\ dial[d].st \notin {"ok", "fail"}
       /\ ~(dial[d].st = "run" /\ req[dial[d].owner].cx)
       /\ conn[d].pr = 0 /\ conn[d].pset = 0 /\ conn[d].pga = "" /\ conn[d].rl \notin {"pend", "fin", "md"}
       /\ ~conn[d].fire /\ ~conn[d].utf
       /\ conn[d].shut \notin {"start", "cx"}
       /\ ~(conn[d].shut = "wait" /\ (conn[d].sg \/ conn[d].act = 0 \/ conn[d].cl))
  /\ \A u \in Upgs : upg[u].pc \notin {"check", "wait"}
  /\ \A k \in Keys : addcall[k] = 0

(* ------------------------------------------------------------------- environment commands *)
Others == <<pconns, pkeys, dialing, addcall, cnt, dev, mode>>
NextReq(r) == req[r].pc = "new" /\ (IF r = 1 THEN TRUE ELSE req[r - 1].pc # "new")
NextUpg(u) == upg[u].pc = "new" /\ (IF u = 1 THEN TRUE ELSE upg[u - 1].pc # "new")
Serving(c) == conn[c].st = "open" /\ conn[c].rl = "run" /\ ~conn[c].scl /\ ~conn[c].ccl /\ conn[c].pset = 0 /\ conn[c].pga = ""

(* Transport.RoundTripOpt(req, {OnlyCachedConn: only}) with authority spelling a *)
Start(r, a, only) ==
  /\ NextReq(r) /\ a \in DOMAIN Auths /\ Norm(a) \in Keys
  /\ req' = [req EXCEPT ![r] = [NoReq EXCEPT !.pc = "lookup", !.key = Norm(a), !.only = only]]
  /\ UNCHANGED <<dial, conn, upg, Others>>

(* a caller of the ClientConn API: cc.ReserveNewRequest() ... *)
UserReserve(r, c, ok) ==
  /\ NextReq(r) /\ conn[c].st = "open"
  /\ ok = CanTake(c)
  /\ IF ok THEN /\ conn' = [conn EXCEPT ![c].rsv = @ + 1]
                /\ req' = [req EXCEPT ![r] = [NoReq EXCEPT !.pc = "held", !.dir = TRUE, !.c = c, !.key = c[1]]]
           ELSE /\ req' = [req EXCEPT ![r] = [NoReq EXCEPT !.pc = "ret", !.dir = TRUE, !.kind = "resfail", !.key = c[1]]]
                /\ UNCHANGED conn
  /\ UNCHANGED <<dial, upg, Others>>

(* ... followed by cc.RoundTrip(req), with a live context or with one that is already cancelled *)
UserGo(r, cancelled) ==
  /\ req[r].pc = "held"
  /\ req' = [req EXCEPT ![r].pc = "got", ![r].cx = cancelled]
  /\ UNCHANGED <<dial, conn, upg, Others>>

(* the caller cancels the request's context *)
Cancel(r) ==
  LET q == req[r] IN
  /\ q.pc \notin {"new", "ret", "held"} /\ ~q.cx
  /\ req' = [req EXCEPT ![r] =
        IF q.pc = "backoff" THEN Ret([q EXCEPT !.cx = TRUE], "canceled")
        ELSE IF q.pc = "sent" /\ q.ab = "" /\ ~q.fin THEN [q EXCEPT !.cx = TRUE, !.ab = "canceled"]
        ELSE [q EXCEPT !.cx = TRUE]]
  /\ UNCHANGED <<dial, conn, upg, Others>>

(* the dial function returns *)
DialOk(d)   == dial[d].st = "run" /\ dial' = [dial EXCEPT ![d].st = "ok"] /\ UNCHANGED <<conn, req, upg, Others>>
DialOkClosed(d) == dial[d].st = "run" /\ dial' = [dial EXCEPT ![d].st = "ok", ![d].sc = TRUE] /\ UNCHANGED <<conn, req, upg, Others>>
DialFail(d) == dial[d].st = "run" /\ dial' = [dial EXCEPT ![d].st = "fail", ![d].err = "dialerr"]
               /\ UNCHANGED <<conn, req, upg, Others>>

(* the server answers a request (HEADERS with END_STREAM) / refuses it (RST_STREAM REFUSED_STREAM) *)
Answerable(r) == req[r].pc = "sent" /\ req[r].hdr /\ req[r].ab = "" /\ ~req[r].fin /\ Serving(req[r].c)
Resp(r)   == Answerable(r) /\ req' = [req EXCEPT ![r].fin = TRUE] /\ UNCHANGED <<dial, conn, upg, Others>>
Refuse(r) == Answerable(r) /\ req' = [req EXCEPT ![r].ab = "refused"] /\ UNCHANGED <<dial, conn, upg, Others>>

Settings(c, m) == Serving(c) /\ conn' = [conn EXCEPT ![c].pset = m] /\ UNCHANGED <<dial, req, upg, Others>>
GoAway(c, last) == Serving(c) /\ ~conn[c].ga /\ last \in {"all", "none"}
                   /\ conn' = [conn EXCEPT ![c].pga = "md", ![c].gal = last] /\ UNCHANGED <<dial, req, upg, Others>>
SrvClose(c) == /\ conn[c].st = "open" /\ ~conn[c].scl
               /\ conn' = [conn EXCEPT ![c].scl = TRUE, ![c].rl = IF @ = "run" THEN "pend" ELSE @]
               /\ UNCHANGED <<dial, req, upg, Others>>

(* Transport.CloseIdleConnections: closeIfIdle of every pooled connection under p.mu *)
CloseIdle ==
  /\ conn' = [c \in CId |-> IF pkeys[c] # {} THEN CloseIfIdleRec(conn[c]) ELSE conn[c]]
  /\ UNCHANGED <<dial, req, upg, Others>>

(* go cc.Shutdown(ctx) *)
ShutStart(c) ==
  /\ conn[c].st = "open" /\ conn[c].shut = ""
  /\ conn' = [conn EXCEPT ![c].shut = "start"]
  /\ UNCHANGED <<dial, req, upg, Others>>
ShutCancel(c) ==
  /\ conn[c].shut = "wait"
  /\ conn' = [conn EXCEPT ![c].shut = "cx"]
  /\ UNCHANGED <<dial, req, upg, Others>>

(* ClientConn.Close *)
CloseCmd(c) ==
  /\ conn[c].st = "open"
  /\ conn' = [conn EXCEPT ![c] = Closed([@ EXCEPT !.cl = TRUE])]
  /\ req' = [r \in Reqs |->
        IF req[r].pc = "sent" /\ req[r].c = c /\ req[r].ab = "" /\ ~req[r].fin
        THEN [req[r] EXCEPT !.ab = "forced"] ELSE req[r]]
  /\ UNCHANGED <<dial, upg, Others>>

SetDNR(c) == conn[c].st = "open" /\ conn' = [conn EXCEPT ![c].dnr = TRUE] /\ UNCHANGED <<dial, req, upg, Others>>

(* ClientConnPool.MarkDead called from outside *)
MarkDeadCmd(c) ==
  /\ conn[c].st = "open"
  /\ MarkDeadOp(c)
  /\ UNCHANGED <<dialing, addcall, cnt, dial, conn, req, upg, dev, mode>>

(* net/http hands a fresh connection for authority spelling a to the TLSNextProto upgrade function *)
Upgrade(u, a) ==
  /\ mode = "nodial" /\ NextUpg(u) /\ a \in DOMAIN Auths /\ Norm(a) \in Keys
  /\ upg' = [upg EXCEPT ![u] = [NoUpg EXCEPT !.pc = "check", !.key = Norm(a)]]
  /\ UNCHANGED <<dial, conn, req, Others>>

(* ------------------------------------------------------------------------------------ time *)
(* One tick = 100 s; IdleConnTimeout = 2 ticks.  Within a tick the driver stops at +4.9 s       *)
(* (Wake1: retry back-offs of 1, 2 and 4 s are over), at +90 s (Wake2: the 5 s timers of closed, *)
(* never used connections and the longer back-offs are over) and at the boundary (Tick).          *)
Unfresh(x) == [x EXCEPT !.fresh = FALSE]
Woken(q)   == [q EXCEPT !.pc = "lookup", !.n = @ + 1]
Wake1 ==
  /\ req' = [r \in Reqs |-> IF req[r].pc = "backoff" /\ req[r].n <= 3 THEN Woken(req[r]) ELSE req[r]]
  /\ conn' = [c \in CId |-> Unfresh(conn[c])]
  /\ UNCHANGED <<dial, upg, Others>>
Wake2 ==
  /\ req' = [r \in Reqs |-> IF req[r].pc = "backoff" THEN Woken(req[r]) ELSE req[r]]
  /\ conn' = [c \in CId |-> Unfresh([conn[c] EXCEPT !.ut = FALSE, !.utf = conn[c].ut \/ @])]
  /\ UNCHANGED <<dial, upg, Others>>
Ticked(x) == IF x.tm > 1 THEN [x EXCEPT !.tm = @ - 1]
             ELSE IF x.tm = 1 THEN [x EXCEPT !.tm = 0 - 1, !.fire = TRUE] ELSE x
(* late: for how many tick boundaries in a row an open idle connection has had no idle timer (IdleConnTimeout set) *)
Late(x)   == [x EXCEPT !.late = IF IdleOn /\ x.st = "open" /\ ~x.cl /\ x.act = 0 /\ x.rsv = 0 /\ x.tm < 0 /\ ~x.fire
                                THEN (IF @ < 2 THEN @ + 1 ELSE @) ELSE 0]
Tick ==
  /\ conn' = [c \in CId |-> Unfresh(Ticked(Late(conn[c])))]
  /\ UNCHANGED <<dial, req, upg, Others>>

(* model checking: time passes for one timer at a time, at any moment *)
Elapse(c)     == conn[c].tm > 0 /\ conn' = [conn EXCEPT ![c] = Ticked(@)] /\ UNCHANGED <<dial, req, upg, Others>>
Stale(c)      == conn[c].fresh /\ conn' = [conn EXCEPT ![c].fresh = FALSE] /\ UNCHANGED <<dial, req, upg, Others>>
UnusedDue(c)  == conn[c].ut /\ conn' = [conn EXCEPT ![c].ut = FALSE, ![c].utf = TRUE] /\ UNCHANGED <<dial, req, upg, Others>>
BackoffDue(r) == req[r].pc = "backoff" /\ req' = [req EXCEPT ![r] = Woken(@)] /\ UNCHANGED <<dial, conn, upg, Others>>

On(name) == name \in Env
Cmd ==
  \/ On("start")    /\ \E r \in Reqs, a \in AuthIdx : Start(r, a, FALSE)
  \/ On("only")     /\ \E r \in Reqs, a \in AuthIdx : Start(r, a, TRUE)
  \/ On("reserve")  /\ \E r \in Reqs, c \in CId, ok \in BOOLEAN : UserReserve(r, c, ok)
  \/ On("reserve")  /\ \E r \in Reqs, b \in BOOLEAN : UserGo(r, b)
  \/ On("cancel")   /\ \E r \in Reqs : Cancel(r)
  \/ On("dial")     /\ \E d \in CId : DialOk(d) \/ DialFail(d)
  \/ On("dialc")    /\ \E d \in CId : DialOkClosed(d)
  \/ On("resp")     /\ \E r \in Reqs : Resp(r)
  \/ On("refuse")   /\ \E r \in Reqs : Refuse(r)
  \/ On("settings") /\ \E c \in CId, m \in Limits : m # conn[c].lim /\ Settings(c, m)
  \/ On("goaway")   /\ \E c \in CId, last \in {"all", "none"} : GoAway(c, last)
  \/ On("sclose")   /\ \E c \in CId : SrvClose(c)
  \/ On("closeidle") /\ (\E c \in CId : pkeys[c] # {}) /\ CloseIdle
  \/ On("shutdown") /\ \E c \in CId : (Serving(c) /\ ~conn[c].cl /\ ShutStart(c)) \/ ShutCancel(c)
  \/ On("close")    /\ \E c \in CId : ~conn[c].cl /\ CloseCmd(c)
  \/ On("dnr")      /\ \E c \in CId : ~conn[c].dnr /\ SetDNR(c)
  \/ On("markdead") /\ \E c \in CId : pkeys[c] # {} /\ MarkDeadCmd(c)
  \/ On("upgrade")  /\ \E u \in Upgs, a \in AuthIdx : Auths[a].s = "http" /\ Upgrade(u, a)

Time ==
  \/ \E c \in CId : Elapse(c) \/ Stale(c) \/ UnusedDue(c)
  \/ \E r \in Reqs : BackoffDue(r)

Next == Internal \/ Cmd \/ (FreeTime /\ Time)
Spec == Init /\ [][Next]_vars

(* ------------------------------------------------------------------------------ properties *)
Holders(c)  == {r \in Reqs : req[r].pc \in {"got", "held"} /\ req[r].c = c}
Streams(c)  == {r \in Reqs : req[r].pc = "sent" /\ req[r].c = c}
Running(k)  == {d \in CId : d[1] = k /\ dial[d].st \in {"run", "ok", "fail"}}
IdleOpen(c) == conn[c].st = "open" /\ ~conn[c].cl /\ conn[c].act = 0 /\ conn[c].rsv = 0

TypeOK ==
  /\ \A c \in CId : conn[c].act >= 0 /\ conn[c].rsv >= 0 /\ conn[c].tm \in {0 - 1, 1, 2} /\ conn[c].pr >= 0
  /\ \A k \in Keys : dialing[k] \in 0..NC /\ cnt[k] \in 0..NC /\ addcall[k] \in 0..NU

(* X11: at most one dial in flight per key, and p.dialing names exactly that dial *)
AtMostOneDial ==
  \A k \in Keys : /\ Cardinality(Running(k)) <= 1
                  /\ (dialing[k] # 0) = (Running(k) # {})
                  /\ dialing[k] # 0 => Running(k) = {<<k, dialing[k]>>}
(* callers that arrive during a dial wait for that dial *)
WaitersOnTheDial ==
  \A r \in Reqs : req[r].pc = "waitdial" => req[r].c[1] = req[r].key /\ dial[req[r].c].st # "none"

(* X11: whoever gets a reservation gets it on a connection that can take a request at that moment *)
NoUnusableSelected == [][\A c \in CId : conn'[c].rsv > conn[c].rsv => CanTake(c)]_vars
(* X11 / X12: the pool hands out only what its index holds, a dial's waiters only that dial's connection *)
SelectedFromIndex ==
  [][\A r \in Reqs : req'[r].pc = "got" /\ req[r].pc \notin {"got", "held"} =>
        \/ req[r].pc = "lookup" /\ req'[r].c \in Pooled(req[r].key)
        \/ req[r].pc = "waitdial" /\ req'[r].c = req[r].c]_vars

(* X11: every reservation has exactly one holder (it is given back exactly once) *)
ReservationsExact == \A c \in CId : conn[c].rsv = Cardinality(Holders(c))
StreamsExact      == \A c \in CId : conn[c].act = Cardinality(Streams(c))
NoLeakedReservation ==
  Quiescent => \A c \in CId : conn[c].rsv = Cardinality({r \in Reqs : req[r].pc = "held" /\ req[r].c = c})

(* X11: a failed dial leaves nothing behind and its error goes to its waiters only *)
FailedDialNotCached ==
  \A d \in CId : dial[d].st = "done_fail" => conn[d].st = "none" /\ pkeys[d] = {} /\ d \notin Pooled(d[1])
FailedDialToWaiters ==
  [][\A r \in Reqs : req'[r].kind = "dialerr" /\ req[r].kind # "dialerr" =>
        req[r].pc = "waitdial" /\ dial[req[r].c].st = "done_fail"]_vars
NoDialInNoDialMode == mode = "nodial" => \A d \in CId : dial[d].st = "none"
OnlyNeverDials == "only" \in Repair => \A d \in CId : dial[d].st # "none" => ~req[dial[d].owner].only

(* X12: the three indexes agree; nothing closed stays indexed once its close handlers ran *)
IndexesConsistent ==
  /\ \A k \in Keys, c \in CId : (c \in Pooled(k)) = (k \in pkeys[c])
  /\ \A k \in Keys : Len(pconns[k]) = Cardinality(Pooled(k))
  /\ \A c \in CId : pkeys[c] # {} => conn[c].st = "open" /\ pkeys[c] = {c[1]}
  /\ Quiescent => \A c \in CId : conn[c].rl = "done" /\ ~conn[c].ut /\ ~conn[c].utf => pkeys[c] = {}
  /\ \A c \in CId : conn[c].ga => pkeys[c] = {}

(* X12: idleness closes only idle connections *)
IdleTimeoutOnlyWhenIdle ==
  [][\A c \in CId : conn'[c].coi /\ ~conn[c].coi => conn[c].act = 0 /\ conn[c].rsv = 0]_vars
(* X12: with IdleConnTimeout an open idle connection always has its timer running (documented; needs Repair "timer") *)
TimerArmedWhenIdle ==
  ("timer" \in Repair /\ IdleOn) => \A c \in CId : IdleOpen(c) => conn[c].tm > 0 \/ conn[c].fire
(* the same without the Repair guard: fails for the pinned code (MC_bad_timer.cfg) *)
IdleConnAlwaysTimed ==
  (IdleOn /\ Quiescent) => \A c \in CId : IdleOpen(c) => conn[c].tm > 0 \/ conn[c].fire
(* X12: Shutdown closes only when no stream is left *)
ShutdownWaits ==
  [][\A c \in CId : conn'[c].sg /\ ~conn[c].sg => conn[c].act = 0 \/ conn[c].cl]_vars

(* liveness at quiescence: nobody waits for a dial that is over, nothing is half done *)
NoStrandedWaiter ==
  Quiescent => \A r \in Reqs : /\ req[r].pc \in {"new", "waitdial", "sent", "backoff", "held", "ret"}
                               /\ req[r].pc = "waitdial" => dial[req[r].c].st = "run"
                               /\ req[r].pc = "sent" => conn[req[r].c].st = "open" /\ conn[req[r].c].rl = "run"
BoundHit == \E k \in Keys : cnt[k] = NC
QuiescentIsStable ==
  /\ Quiescent => ~ENABLED Internal
  /\ (~Quiescent /\ ~BoundHit) => ENABLED Internal
NoDeviation == dev = {}
=============================================================================
