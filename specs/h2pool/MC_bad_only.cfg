SPECIFICATION Spec
CONSTANTS
  AuthIdx = {1}
  NR = 1
  NC = 1
  NU = 0
  Modes = {"dial"}
  IdleOn = FALSE
  Limits = {1}
  Repair = {"timer", "rsv", "zombie"}
  FreeTime = FALSE
  Env = {"only", "dial"}
INVARIANTS NoDeviation
CHECK_DEADLOCK FALSE
