SPECIFICATION Spec
CONSTANTS
  AuthIdx = {1}
  NR = 2
  NC = 1
  NU = 0
  Modes = {"dial"}
  IdleOn = TRUE
  Limits = {1}
  Repair = {"only", "timer", "rsv", "zombie"}
  FreeTime = TRUE
  Env = {"start", "dial", "resp", "closeidle", "goaway"}
INVARIANTS TypeOK AtMostOneDial WaitersOnTheDial ReservationsExact StreamsExact NoLeakedReservation FailedDialNotCached
  NoDialInNoDialMode OnlyNeverDials IndexesConsistent TimerArmedWhenIdle NoStrandedWaiter NoDeviation 
PROPERTIES NoUnusableSelected SelectedFromIndex FailedDialToWaiters IdleTimeoutOnlyWhenIdle ShutdownWaits
CHECK_DEADLOCK FALSE
