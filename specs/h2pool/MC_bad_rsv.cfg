SPECIFICATION Spec
CONSTANTS
  AuthIdx = {1}
  NR = 3
  NC = 1
  NU = 0
  Modes = {"dial"}
  IdleOn = FALSE
  Limits = {1}
  Repair = {"only", "timer", "zombie"}
  FreeTime = FALSE
  Env = {"start", "dial", "reserve", "sclose"}
INVARIANTS ReservationsExact
CHECK_DEADLOCK FALSE
