SPECIFICATION Spec
CONSTANTS
  Gran = 2
  InitSRTT = 8
  InitVar = 1
  DefMAD = 2
  MinPkt = 2
  FullScan = TRUE
  Sides = {"client", "server"}
  UseSp = {0, 1}
  MaxPk = 2
  MaxTot = 2
  Steps = {4}
  Delays = {0}
  Sizes = {3}
  DgSizes = {1}
  MADs = {}
  MaxNow = 60
  MaxRanges = 1
  MaxAcks = 1
  MaxTicks = 2
  MaxDg = 1
  Kinds = {"ae", "ack"}
  Fx = {}
INVARIANT Inv
PROPERTY StepProp
CHECK_DEADLOCK FALSE
