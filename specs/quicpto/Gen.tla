-------------------------------- MODULE Gen --------------------------------
(* Scenario generator for X15 / X16: call histories for lossState that respect the *)
(* caller's contract (numbers from nextNumber, descending separated ACK ranges of   *)
(* numbers that were sent, no use of a space after its keys are gone, Handshake     *)
(* keys dropped exactly when the handshake is confirmed, Retry only at a client     *)
(* before any Initial acknowledgement).  The Loss model, with constants in          *)
(* milliseconds, supplies the state the choices depend on (what has been sent,      *)
(* where the deadline is); the driver executes the history on the real lossState    *)
(* with the time unit it chooses and records what happened; Trace.tla judges.       *)
(* "tick timer / before / after" are symbolic: the driver moves its clock to the    *)
(* real deadline (minus / plus one nanosecond).  Run with -simulate: a step first   *)
(* picks the kind of operation (uniformly over Mix), then its arguments.            *)
EXTENDS Loss, Json, TLC

CONSTANTS GenDepth, MaxPk, Steps, Delays, Ovs, MADs

VARIABLES s, ov, hist, ki
gvars == <<s, ov, hist, ki>>

Mix == << "send", "send", "send", "send", "send", "send", "ack", "ack", "ack", "ack",
          "tick", "tick", "tick", "adv", "adv", "adv", "level", "dpkts", "confirm",
          "dgram", "mad", "validate", "skip" >>

GInit == /\ ov \in Ovs
         /\ s \in {IF ov = 0 THEN S0(x) ELSE S0x(x, ov, ov \div 2) : x \in {"client", "server"}}
         /\ hist = <<>> /\ ki = 0

Rec(r) == hist' = Append(hist, r)
Live == SP \ s.gone
Fx == AllFixes

\* One successor per operation kind: the arguments are drawn with RandomElement (the run is a
\* -simulate run; enumerating every ACK frame at every step would only slow it down).
Pick(S) == RandomElement(S)

RECURSIVE Feed(_, _, _, _)
Feed(x, sp, f, i) == IF i > Len(f) THEN x ELSE Feed(AckRange(x, x.now, sp, i - 1, f[i][1], f[i][2]), sp, f, i + 1)

\* an ACK frame of one or two descending separated ranges below the next packet number
\* (every Pick is bound by a quantifier over a singleton: evaluated once)
Frames(n) ==
  UNION {UNION {
     IF lo1 >= 2 /\ Pick({0, 1, 2}) = 0
     THEN UNION {{ << <<lo1, hi1>>, <<lo2, hi2>> >> : lo2 \in {Pick(Max(0, hi2 - 2) .. (hi2 - 1))}} :
                   hi2 \in {Pick(Max(1, lo1 - 3) .. (lo1 - 1))}}
     ELSE {<< <<lo1, hi1>> >>}
     : lo1 \in {Pick(Max(0, hi1 - 3) .. (hi1 - 1))}} : hi1 \in {Pick(1 .. n)}}

NoSkipped(sp, f) == \A i \in 1 .. Len(f) : \A p \in (f[i][1] + 1) .. f[i][2] : s.pk[sp][p].st # "skipped"

Op(k) ==
  \/ /\ k = "send"
     /\ \E sp \in {Pick({x \in Live : Len(s.pk[x]) < MaxPk})}, kd \in {Pick({"ae", "ae2", "ae3", "pad", "ack"})},
           z0 \in {Pick({1200, 1201, 300})} :
          LET z  == IF kd = "ack" THEN 40 ELSE z0
              kk == IF kd \in {"pad", "ack"} THEN kd ELSE "ae"
          IN /\ s' = Send(s, s.now, sp, kk = "ae", kk # "ack", z, Fx)
             /\ Rec([e |-> "send", sp |-> sp, k |-> kk, sz |-> z])
  \/ /\ k = "skip"
     /\ s' = Skip(s, s.now, 2) /\ Rec([e |-> "skip", sp |-> 2])
  \/ /\ k = "ack"
     /\ \E sp \in {Pick({x \in Live : Len(s.pk[x]) > 0})}, d \in {Pick(Delays)} :
          \E f \in Frames(Len(s.pk[sp])) :
            IF NoSkipped(sp, f)
            THEN /\ s' = AckEnd(Feed(AckStart(s), sp, f, 1), s.now, sp, d, Fx)
                 /\ Rec([e |-> "ack", sp |-> sp, rs |-> f, dl |-> d])
            ELSE /\ s' = Advance(s, s.now, Fx) /\ Rec([e |-> "adv"])
  \/ /\ k = "tick"
     /\ \E w \in {Pick({"d", "d2", "timer", "timer2", "before", "after"})}, d \in {Pick(Steps)} :
        IF w \in {"d", "d2"} \/ s.timer = None \/ s.timer <= s.now + 1
        THEN s' = [s EXCEPT !.now = @ + d] /\ Rec([e |-> "tick", k |-> "d", d |-> d])
        ELSE LET ww == IF w = "timer2" THEN "timer" ELSE w
                 t  == s.timer + (CASE ww = "before" -> 0 - 1 [] ww = "after" -> 1 [] OTHER -> 0)
             IN s' = [s EXCEPT !.now = t] /\ Rec([e |-> "tick", k |-> ww])
  \/ /\ k = "adv"
     /\ s' = Advance(s, s.now, Fx) /\ Rec([e |-> "adv"])
  \/ /\ k = "level"       \* Initial keys are dropped
     /\ s' = DiscardKeys(s, s.now, 0, Fx) /\ Rec([e |-> "dkeys", sp |-> 0])
  \/ /\ k = "dpkts"
     /\ s' = DiscardPackets(s, 0) /\ Rec([e |-> "dpkts", sp |-> 0])
  \/ /\ k = "confirm"     \* the driver drops the Handshake keys right after confirming
     /\ s' = DiscardKeys(Confirm(s), s.now, 1, Fx) /\ Rec([e |-> "confirm"])
  \/ /\ k = "dgram"
     /\ \E z \in {Pick({1200, 400, 60})} : s' = Datagram(s, s.now, z, Fx) /\ Rec([e |-> "dgram", sz |-> z])
  \/ /\ k = "mad"
     /\ \E d \in {Pick(MADs \ {s.mad})} : s' = SetMAD(s, d) /\ Rec([e |-> "mad", d |-> d])
  \/ /\ k = "validate"
     /\ s' = Validate(s) /\ Rec([e |-> "validate"])

Can(k) ==
  CASE k = "send"     -> ~AtLimit(s) /\ \E sp \in Live : Len(s.pk[sp]) < MaxPk
    [] k = "skip"     -> 2 \in Live /\ Len(s.pk[2]) > 0 /\ Len(s.pk[2]) < MaxPk
    [] k = "ack"      -> \E sp \in Live : Len(s.pk[sp]) > 0
    [] k = "level"    -> 0 \in Live /\ Len(s.pk[0]) > 0
    [] k = "dpkts"    -> s.side = "client" /\ 0 \in Live /\ s.largest[0] = None /\ SentIdx(s, 0) # {}
    [] k = "confirm"  -> ~s.conf /\ 1 \in Live /\ (Len(s.pk[1]) > 0 \/ Len(s.pk[2]) > 0)
    [] k = "dgram"    -> s.lim # None
    [] k = "mad"      -> ~s.conf
    [] k = "validate" -> s.lim # None
    [] OTHER          -> TRUE

GNext ==
  /\ Len(hist) < GenDepth
  /\ IF ki = 0
     THEN /\ \E i \in 1 .. Len(Mix) : Can(Mix[i]) /\ ki' = i
          /\ UNCHANGED <<s, ov, hist>>
     ELSE /\ Op(Mix[ki]) /\ ki' = 0 /\ ov' = ov

GSpec == GInit /\ [][GNext]_gvars

Emit == Len(hist) < GenDepth \/ PrintT(<<"BEH", ToJson([side |-> s.side, ov |-> ov, ops |-> hist])>>)
=============================================================================
