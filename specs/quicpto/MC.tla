--------------------------------- MODULE MC ---------------------------------
(* Bounded exploration of Loss: every interleaving of the lossState entry points  *)
(* with small packet counts, a few time steps (plus "advance to the deadline") and *)
(* ACK frames of up to MaxRanges ranges.  Time passes in Tick steps between entry   *)
(* points; an ACK frame is processed at one instant.  Fx is the set of repairs      *)
(* applied (AllFixes = the contract; {} = the pinned code, see MC_dev.cfg).         *)
EXTENDS Loss, TLC

CONSTANTS Sides, UseSp, MaxPk, MaxTot, Steps, Delays, Sizes, DgSizes, MADs, MaxNow, MaxRanges,
          MaxAcks, MaxTicks, MaxDg, Kinds, Fx

VARIABLES s, a
vars == <<s, a>>

\* a: the ACK frame being fed in (space, next range index, lowest number so far) and budgets used
Idle(x) == [x EXCEPT !.sp = None, !.idx = 0, !.lo = 0]
Init == s \in {S0(x) : x \in Sides} /\ a = [sp |-> None, idx |-> 0, lo |-> 0, acks |-> 0, ticks |-> 0, dg |-> 0]

Tot(x) == Len(x.pk[0]) + Len(x.pk[1]) + Len(x.pk[2])
Live(x) == UseSp \ x.gone

Times(x) == {t \in ({x.now + d : d \in Steps} \cup (IF x.timer # None THEN {x.timer} ELSE {})) :
               t > x.now /\ t <= MaxNow}

Tick == /\ ~s.ack.on /\ s.op \notin {"tick", "confirm"} /\ a.ticks < MaxTicks
        /\ \E t \in Times(s) : s' = [Tag(s, "tick", None) EXCEPT !.now = t]
        /\ a' = [a EXCEPT !.ticks = @ + 1]

DoSend == /\ s.op # "confirm" /\ ~AtLimit(s) /\ Tot(s) < MaxTot
          /\ \E sp \in Live(s), k \in Kinds, z \in Sizes :
               /\ Len(s.pk[sp]) < MaxPk /\ CanSend(s, s.now, sp)
               /\ s' = Send(s, s.now, sp, k = "ae", k # "ack", z, Fx)
          /\ a' = a

DoSkip == /\ s.op # "confirm" /\ 2 \in Live(s) /\ Tot(s) < MaxTot /\ Len(s.pk[2]) < MaxPk
          /\ Len(s.pk[2]) > 0 /\ CanSend(s, s.now, 2)
          /\ s' = Skip(s, s.now, 2) /\ a' = a

DoAckStart == /\ ~s.ack.on /\ s.op # "confirm" /\ a.acks < MaxAcks
              /\ \E sp \in Live(s) : Len(s.pk[sp]) > 0
                   /\ a' = [a EXCEPT !.sp = sp, !.idx = 0, !.lo = Len(s.pk[sp]) + 1, !.acks = @ + 1]
              /\ s' = AckStart(s)

DoAckRange == /\ s.ack.on /\ a.idx < MaxRanges
              /\ \E hi \in 1 .. (a.lo - 1) : \E lo \in 0 .. (hi - 1) :
                   /\ CanAckRange(s, s.now, a.sp, lo, hi)
                   /\ s' = AckRange(s, s.now, a.sp, a.idx, lo, hi)
                   /\ a' = [a EXCEPT !.idx = @ + 1, !.lo = lo]

DoAckEnd == /\ s.ack.on /\ a.idx >= 1
            /\ \E d \in Delays : s' = AckEnd(s, s.now, a.sp, d, Fx)
            /\ a' = Idle(a)

\* the connection calls advance when a timer event arrives, i.e. after time has passed
DoAdvance == /\ ~s.ack.on /\ s.op = "tick"
             /\ s' = Advance(s, s.now, Fx) /\ a' = a

DoDatagram == /\ ~s.ack.on /\ s.op # "confirm" /\ s.lim # None /\ a.dg < MaxDg
              /\ \E z \in DgSizes : s' = Datagram(s, s.now, z, Fx)
              /\ a' = [a EXCEPT !.dg = @ + 1]

\* Handshake keys are dropped when (and only when) the handshake is confirmed: conn.go
DoDiscardKeys == /\ \E sp \in Live(s) \cap {0, 1} :
                      /\ CanDiscardKeys(s, s.now, sp)
                      /\ (sp = 1) = (s.op = "confirm")
                      /\ s' = DiscardKeys(s, s.now, sp, Fx)
                 /\ a' = a

\* Retry: client only, Initial space, nothing acknowledged yet
DoDiscardPackets == /\ ~s.ack.on /\ s.op # "confirm" /\ s.side = "client" /\ 0 \in Live(s)
                    /\ s.largest[0] = None /\ SentIdx(s, 0) # {}
                    /\ s' = DiscardPackets(s, 0) /\ a' = a

DoConfirm == /\ ~s.ack.on /\ ~s.conf /\ 1 \in Live(s) /\ s' = Confirm(s) /\ a' = a

DoSetMAD == /\ ~s.ack.on /\ ~s.conf /\ s.op # "confirm"
            /\ \E d \in MADs : d # s.mad /\ s' = SetMAD(s, d)
            /\ a' = a

DoValidate == /\ ~s.ack.on /\ s.op # "confirm" /\ s.lim # None /\ s' = Validate(s) /\ a' = a

Next == \/ Tick \/ DoSend \/ DoSkip \/ DoAckStart \/ DoAckRange \/ DoAckEnd \/ DoAdvance
        \/ DoDatagram \/ DoDiscardKeys \/ DoDiscardPackets \/ DoConfirm \/ DoSetMAD \/ DoValidate

Spec == Init /\ [][Next]_vars

Inv == ContractInv(s)
StepProp == [][StepContract(s, s')]_vars
=============================================================================
