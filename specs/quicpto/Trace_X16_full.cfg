SPECIFICATION TSpec
CONSTANTS
  Gran = 1000000
  InitSRTT = 333000000
  InitVar = 166500000
  DefMAD = 25000000
  MinPkt = 128
  FullScan = TRUE
  Prop = "X16"
INVARIANTS StepOK ContractOK NoDev
CONSTRAINT Mark
POSTCONDITION AllConsumed
CHECK_DEADLOCK FALSE
