SPECIFICATION GSpec
CONSTANTS
  Gran = 1
  InitSRTT = 333
  InitVar = 166
  DefMAD = 25
  MinPkt = 128
  FullScan = FALSE
  GenDepth = 40
  MaxPk = 8
  Steps = {1, 3, 10, 40}
  Delays = {0, 2, 30}
  Ovs = {0, 8, 40}
  MADs = {0, 5, 60}
INVARIANT Emit
CHECK_DEADLOCK FALSE
