SPECIFICATION Spec
CONSTANTS
  Gran = 2
  InitSRTT = 8
  InitVar = 1
  DefMAD = 2
  MinPkt = 2
  FullScan = TRUE
  Sides = {"client"}
  UseSp = {0}
  MaxPk = 4
  MaxTot = 4
  Steps = {4}
  Delays = {0, 2}
  Sizes = {3}
  DgSizes = {1}
  MADs = {}
  MaxNow = 60
  MaxRanges = 2
  MaxAcks = 2
  MaxTicks = 2
  MaxDg = 1
  Kinds = {"ae", "ack"}
  Fx = {"stale", "dkreset", "dgcnt"}
INVARIANT Inv
PROPERTY StepProp
CHECK_DEADLOCK FALSE
