-------------------------------- MODULE Loss --------------------------------
(* QUIC loss detection and probe timeout (RFC 9002 sections 5, 6.1, 6.2, 6.4,      *)
(* appendix A.5-A.11) as quic/loss.go, quic/rtt.go and quic/sent_packet_list.go    *)
(* implement it: one operator per lossState entry point, written as a function     *)
(* from the state record to the next state record (the model checker applies them  *)
(* with bounded arguments, the trace specification with the logged arguments).     *)
(*                                                                                 *)
(* The operators are the ALGORITHM (sent-packet list with a cleaned head, "stop at *)
(* the first packet that is not lost", "time of the head packet", "is the last     *)
(* ack-eliciting packet still listed").  The CONTRACT is stated separately at the  *)
(* end of the module in terms of all packets ever sent (OneFate,                   *)
(* LostOnlyIfThreshold, NoMissedLoss, TimerIsEarliest, PTOArmedIff, PTOValue,      *)
(* BackoffRule, ...) and TLC checks that the algorithm satisfies it.               *)
(*                                                                                 *)
(* Time is an integer (nanoseconds in traces, an abstract unit in model checking). *)
(* 9/8 x is computed as x + x \div 8 and the EWMA updates as s + (a - s) \div 8,   *)
(* which equal the truncating int64 expressions of the Go code for x, s, a >= 0    *)
(* and stay below 2^31; sums and products of times saturate at Big (SatAdd,        *)
(* SatMul), far above anything a trace contains.                                   *)
(*                                                                                 *)
(* Documented deviations from RFC 9002 that are part of this specification         *)
(* (comments in loss.go):                                                          *)
(*  D1 packets that are not in flight (ACK-only) are declared lost by the same     *)
(*     rule as all others (RFC 6.1 restricts loss to in-flight packets; A.10 does  *)
(*     not);                                                                       *)
(*  D2 PTO expiry and the probe are two steps: while a probe is owed (ptoExpired)  *)
(*     the PTO timer is not armed; it is re-armed when an ack-eliciting packet is  *)
(*     sent;                                                                       *)
(*  D3 before the handshake is confirmed the PTO considers the Initial and         *)
(*     Handshake spaces, afterwards only Application Data (A.8 would still look at *)
(*     the first two; their keys are gone by then);                                *)
(*  D4 the client's anti-deadlock PTO timer (6.2.2.1) is not moved forward while   *)
(*     it is pending (A.8 recomputes now + PTO on every SetLossDetectionTimer);    *)
(*  D5 the PTO backoff is reset by every ACK frame processed outside the client's  *)
(*     Initial space, also one that acknowledges nothing new (6.2.1 text; A.7      *)
(*     returns early);                                                             *)
(*  D6 rttvar is updated before smoothed_rtt, from the old smoothed_rtt (A.7       *)
(*     order; the prose of 5.3 lists them the other way round); the ack delay is   *)
(*     not ignored in the Initial space (5.3: MAY);                                *)
(*  D7 loss detection runs over all three spaces on every ACK frame and on every   *)
(*     advance (A.7 looks at the acknowledged space only);                         *)
(*  D8 persistent congestion (min_rtt := latest_rtt) is evaluated at the end of    *)
(*     the next ACK frame, for the acknowledged space, also for losses found by    *)
(*     the timer.                                                                  *)
(*                                                                                 *)
(* Three places where the pinned code departs from the contract without saying so  *)
(* are parameters (fx = set of repairs applied): with fx = AllFixes the operators  *)
(* are the contract, with fx = {} they are the pinned code:                        *)
(*  "stale"   an expired or orphaned LOSS timer deadline is kept as the client's   *)
(*            anti-deadlock PTO deadline (scheduleTimer tests c.timer != 0 only);  *)
(*  "dkreset" discardKeys does not reset the PTO backoff (A.11: pto_count = 0);    *)
(*  "dgcnt"   a PTO executed by datagramReceived does not count as a PTO expiry    *)
(*            (A.6 calls OnLossDetectionTimeout, which increments pto_count).      *)
EXTENDS Integers, Sequences, FiniteSets, TLC

CONSTANTS Gran,       \* timer granularity (kGranularity)
          InitSRTT,   \* smoothed_rtt before the first sample (kInitialRtt)
          InitVar,    \* rttvar before the first sample
          DefMAD,     \* max_ack_delay assumed before transport parameters arrive
          MinPkt,     \* below this allowance a server counts as blocked by anti-amplification
          FullScan    \* TRUE: the contract looks at every packet ever sent; FALSE (long traces): it
                      \* starts at the head of the list and ListStep keeps the head honest

KPkt == 3             \* kPacketThreshold
None == 0 - 1
SP == 0 .. 2          \* 0 Initial, 1 Handshake, 2 Application Data
AllFixes == {"stale", "dkreset", "dgcnt"}

\* TLC builds function constructors lazily and re-evaluates their body on every application;
\* E forces the value once (it is the identity)
E(v) == TLCEval(v)

Max(a, b) == IF a >= b THEN a ELSE b
Min(a, b) == IF a <= b THEN a ELSE b
Abs(a) == IF a >= 0 THEN a ELSE 0 - a
\* TLC integers are 32 bit: sums and products of times saturate at Big (the driver ends a trace before
\* the real code's values get near it; the model's own value may be larger when the code is wrong,
\* and must then differ from the log instead of overflowing)
Big == 2147000000
SatAdd(a, b) == IF a >= Big - b THEN Big ELSE a + b
SatMul(a, k) == IF a > Big \div k THEN Big ELSE a * k
SetMin(S) == CHOOSE x \in S : \A y \in S : x <= y
SetMax(S) == CHOOSE x \in S : \A y \in S : x >= y

(* ----------------------------------------------------------------- state *)
(* pk[sp]  all packets of the space, index = packet number + 1:                    *)
(*         [t send time, ae ack-eliciting, inf in flight, sz size,                 *)
(*          st "sent" | "acked" | "lost" | "skipped" | "dropped" (keys discarded)] *)
(* start   index of the head of the implementation's list (everything below has    *)
(*         left the list); lastAE number of the last ack-eliciting packet sent     *)
(* timer   deadline or None; armed = it is the PTO timer (ptoTimerArmed)           *)
(* owed    PTO expired, probe not yet sent (ptoExpired); cnt = PTO backoff count   *)
(* lim     anti-amplification allowance, None = unlimited                          *)
(* ack     ACK frame being processed; pc, lastLoss: persistent congestion hooks    *)
(* op, osp, cb, fired, stable: ghosts describing the step that led here            *)
S0x(side, isrtt, ivar) ==
  [side |-> side, conf |-> FALSE, mad |-> DefMAD, now |-> 0,
   pk |-> E([sp \in SP |-> <<>>]), start |-> E([sp \in SP |-> 1]), lastAE |-> E([sp \in SP |-> None]),
   largest |-> E([sp \in SP |-> None]), gone |-> {},
   rtt |-> [min |-> None, latest |-> 0, srtt |-> isrtt, var |-> ivar, first |-> None],
   timer |-> None, armed |-> FALSE, owed |-> FALSE, cnt |-> 0,
   lim |-> IF side = "client" THEN None ELSE 0,
   ack |-> [on |-> FALSE, rtt |-> None, ae |-> FALSE],
   pc |-> E([sp \in SP |-> [s |-> 0, e |-> 0, nx |-> None]]), lastLoss |-> FALSE,
   op |-> "init", osp |-> None, cb |-> {}, fired |-> FALSE, stable |-> FALSE]

S0(side) == S0x(side, InitSRTT, InitVar)

Tag(s, op, sp) == [s EXCEPT !.op = op, !.osp = sp, !.cb = {}, !.fired = FALSE]

Listed(s, sp) == s.start[sp] .. Len(s.pk[sp])
SentIdx(s, sp) == {i \in Listed(s, sp) : s.pk[sp][i].st = "sent"}

\* sentPacketList.clean: drop resolved packets from the head
CleanStart(q, from) == SetMin({i \in from .. (Len(q) + 1) : i = Len(q) + 1 \/ q[i].st = "sent"})

(* ------------------------------------------------------------ RTT (rtt.go) *)
LossDelay(rtt) == LET m == Max(rtt.srtt, rtt.latest) IN Max(SatAdd(m, m \div 8), Gran)

UpdateRTT(rtt, t, conf, sample, delay, mad) ==
  IF rtt.min < 0
  THEN [min |-> sample, latest |-> sample, srtt |-> sample, var |-> sample \div 2, first |-> t]
  ELSE LET mn  == Min(rtt.min, sample)
           d   == IF conf THEN Min(delay, mad) ELSE delay
           adj == IF sample - d < mn THEN sample ELSE sample - d
       IN [rtt EXCEPT !.min = mn, !.latest = sample,
                      !.var = rtt.var + ((Abs(rtt.srtt - adj) - rtt.var) \div 4),
                      !.srtt = rtt.srtt + ((adj - rtt.srtt) \div 8)]

PtoBase(s) == SatAdd(SatAdd(s.rtt.srtt, Max(SatMul(s.rtt.var, 4), Gran)), IF s.conf THEN s.mad ELSE 0)
Pto(s) == IF s.cnt >= 30 THEN Big ELSE SatMul(PtoBase(s), 2 ^ s.cnt)

AtLimit(s) == s.lim # None /\ s.lim < MinPkt

(* -------------------------------------------------- scheduleTimer (loss.go) *)
NoTimer(s) == [s EXCEPT !.timer = None, !.armed = FALSE]

Schedule(s, t, fx) ==
  LET heads  == {sp \in SP : s.start[sp] <= Len(s.pk[sp]) /\ s.start[sp] - 1 <= s.largest[sp]}
      ptoSp  == IF s.conf THEN {2} ELSE {0, 1}
      aeSp   == {sp \in ptoSp : s.lastAE[sp] # None /\ (s.lastAE[sp] + 1) \in Listed(s, sp)}
      adl    == s.side = "client" /\ s.largest[1] < 0 /\ ~s.conf
      keep   == s.timer # None /\ (("stale" \in fx) => s.armed)
  IN IF heads # {}
     THEN [s EXCEPT !.timer = SatAdd(SetMin({s.pk[sp][s.start[sp]].t : sp \in heads}), LossDelay(s.rtt)),
                    !.armed = FALSE]
     ELSE IF s.owed \/ AtLimit(s) THEN NoTimer(s)
     ELSE IF aeSp # {}
     THEN [s EXCEPT !.timer = SatAdd(SetMin({s.pk[sp][s.lastAE[sp] + 1].t : sp \in aeSp}), Pto(s)),
                    !.armed = TRUE]
     ELSE IF adl
     THEN IF keep THEN [s EXCEPT !.armed = TRUE]
          ELSE [s EXCEPT !.timer = SatAdd(t, Pto(s)), !.armed = TRUE]
     ELSE NoTimer(s)

(* ----------------------------------------------------- detectLoss (loss.go) *)
Cond(s, sp, i, t) ==
  \/ s.largest[sp] - (i - 1) >= KPkt
  \/ (i - 1) <= s.largest[sp] /\ SatAdd(s.pk[sp][i].t, LossDelay(s.rtt)) <= t

\* the list is walked from the head and the walk stops at the first packet that is not lost
LostNow(s, sp, t) ==
  LET keep == {i \in SentIdx(s, sp) : ~Cond(s, sp, i, t)}
  IN {i \in SentIdx(s, sp) : Cond(s, sp, i, t) /\ \A k \in keep : i < k}

\* ccReno.packetLost: bookkeeping for persistent congestion, one in-flight lost packet
PcStep(pc, rtt, pn, p) ==
  IF p.ae /\ rtt.first # None /\ p.t >= rtt.first
  THEN [s |-> IF pn # pc.nx THEN p.t ELSE pc.s, e |-> p.t, nx |-> pn + 1]
  ELSE IF pn = pc.nx THEN [pc EXCEPT !.nx = pn + 1] ELSE pc

RECURSIVE PcRun(_, _, _, _, _)
PcRun(pc, rtt, q, lost, i) ==
  IF i > Len(q) THEN pc
  ELSE PcRun(IF i \in lost /\ q[i].inf THEN PcStep(pc, rtt, i - 1, q[i]) ELSE pc, rtt, q, lost, i + 1)

Detect(s, t) ==
  LET lost == E([sp \in SP |-> LostNow(s, sp, t)])
      npk  == E([sp \in SP |-> IF lost[sp] = {} THEN s.pk[sp] ELSE E([i \in DOMAIN s.pk[sp] |->
                 IF i \in lost[sp] THEN [s.pk[sp][i] EXCEPT !.st = "lost"] ELSE s.pk[sp][i]])])
  IN [s EXCEPT !.pk = npk,
               !.start = E([sp \in SP |-> CleanStart(npk[sp], s.start[sp])]),
               !.pc = E([sp \in SP |-> IF lost[sp] = {} THEN s.pc[sp]
                                        ELSE PcRun(s.pc[sp], s.rtt, s.pk[sp], lost[sp], s.start[sp])]),
               !.lastLoss = s.lastLoss \/ \E sp \in SP : \E i \in lost[sp] : s.pk[sp][i].inf,
               !.cb = s.cb \cup UNION {{<<sp, i - 1, "lost">> : i \in lost[sp]} : sp \in SP}]

(* ------------------------------------------------------------ entry points *)
\* packetSent
CanSend(s, t, sp) == t >= s.now /\ sp \in SP /\ sp \notin s.gone /\ ~s.ack.on
Send(s, t, sp, ae, inf, sz, fx) ==
  LET pn == Len(s.pk[sp])
      s1 == [Tag(s, "send", sp) EXCEPT
               !.now = t,
               !.pk[sp] = Append(@, [t |-> t, ae |-> ae, inf |-> inf, sz |-> sz, st |-> "sent"]),
               !.lim = IF @ = None THEN None ELSE Max(0, @ - sz)]
      s2 == IF ae THEN [s1 EXCEPT !.lastAE[sp] = pn, !.owed = FALSE] ELSE s1
  IN IF inf THEN [Schedule(s2, t, fx) EXCEPT !.stable = TRUE]
     \* a packet that is not in flight does not touch the timer; if it uses up the allowance
     \* the armed PTO timer is looked at again at the next rescheduling entry point
     ELSE [s1 EXCEPT !.stable = IF AtLimit(s1) /\ ~AtLimit(s) THEN FALSE ELSE @]

\* skipNumber
Skip(s, t, sp) ==
  [Tag(s, "skip", sp) EXCEPT
     !.now = t, !.pk[sp] = Append(@, [t |-> t, ae |-> FALSE, inf |-> FALSE, sz |-> 0, st |-> "skipped"])]

\* receiveAckStart
AckStart(s) == [Tag(s, "ackstart", None) EXCEPT !.ack = [on |-> TRUE, rtt |-> None, ae |-> FALSE]]

\* receiveAckRange: [lo, hi) in packet numbers, idx = position of the range in the frame
CanAckRange(s, t, sp, lo, hi) ==
  /\ s.ack.on /\ t >= s.now /\ sp \in SP /\ sp \notin s.gone
  /\ 0 <= lo /\ lo < hi /\ hi <= Len(s.pk[sp])
  /\ \A i \in (lo + 1) .. hi : s.pk[sp][i].st # "skipped"
AckRange(s, t, sp, idx, lo, hi) ==
  LET q     == s.pk[sp]
      newly == {i \in Max(lo + 1, s.start[sp]) .. hi : q[i].st = "sent"}   \* clipped to the list
      rs    == IF idx = 0 /\ q[hi].st = "sent" THEN Max(0, t - q[hi].t) ELSE s.ack.rtt
  IN [Tag(s, "ackrange", sp) EXCEPT
        !.now = t,
        !.pk[sp] = IF newly = {} THEN q
                   ELSE E([i \in DOMAIN q |-> IF i \in newly THEN [q[i] EXCEPT !.st = "acked"] ELSE q[i]]),
        !.largest[sp] = IF newly = {} THEN @ ELSE Max(@, SetMax(newly) - 1),
        !.ack = [on |-> TRUE, rtt |-> rs, ae |-> s.ack.ae \/ \E i \in newly : q[i].ae],
        !.cb = {<<sp, i - 1, "acked">> : i \in newly}]

\* persistent congestion: (end - start) >= 3 * (smoothed + max(4 var, gran) + max_ack_delay)
PcHolds(s, sp) ==
  ((s.pc[sp].e - s.pc[sp].s) \div 3) >= SatAdd(SatAdd(s.rtt.srtt, Max(SatMul(s.rtt.var, 4), Gran)), s.mad)

\* receiveAckEnd
CanAckEnd(s, t, sp) == s.ack.on /\ t >= s.now /\ sp \in SP /\ sp \notin s.gone
AckEnd(s, t, sp, delay, fx) ==
  LET s0 == Tag(s, "ackend", sp)
      s1 == [s0 EXCEPT !.now = t, !.start[sp] = CleanStart(s.pk[sp], @),
                       !.rtt = IF s.ack.rtt >= 0 /\ s.ack.ae
                               THEN UpdateRTT(@, t, s.conf, s.ack.rtt, delay, s.mad) ELSE @,
                       !.cnt = IF s.side = "client" /\ sp = 0 THEN @ ELSE 0,
                       !.timer = None,
                       !.ack = [on |-> FALSE, rtt |-> None, ae |-> FALSE]]
      s2 == Schedule(Detect(s1, t), t, fx)
  IN [s2 EXCEPT !.rtt.min = IF s2.lastLoss /\ PcHolds(s2, sp) THEN s2.rtt.latest ELSE @,
                !.lastLoss = FALSE, !.stable = TRUE]

\* advance
Advance(s, t, fx) ==
  LET fire == s.armed /\ s.timer # None /\ s.timer <= t
      s0   == [Tag(s, "advance", None) EXCEPT !.now = t]
      s1   == IF fire THEN [s0 EXCEPT !.owed = TRUE, !.timer = None, !.cnt = @ + 1, !.fired = TRUE]
              ELSE s0
  IN [Schedule(Detect(s1, t), t, fx) EXCEPT !.stable = TRUE]

\* datagramReceived
Datagram(s, t, sz, fx) ==
  LET s0 == [Tag(s, "dgram", None) EXCEPT !.now = t]
  IN IF s.lim = None THEN s0
     ELSE LET s1 == Schedule([s0 EXCEPT !.lim = @ + 3 * sz], t, fx)
          IN IF s1.armed /\ s1.timer # None /\ s1.timer <= t
             THEN [s1 EXCEPT !.owed = TRUE, !.timer = None, !.fired = TRUE, !.stable = TRUE,
                             !.cnt = IF "dgcnt" \in fx THEN @ + 1 ELSE @]
             ELSE [s1 EXCEPT !.stable = TRUE]

\* discardKeys
CanDiscardKeys(s, t, sp) == t >= s.now /\ sp \in SP /\ sp \notin s.gone /\ ~s.ack.on
DiscardKeys(s, t, sp, fx) ==
  LET q  == s.pk[sp]
      s1 == [Tag(s, "dkeys", sp) EXCEPT
               !.now = t,
               !.pk[sp] = E([i \in DOMAIN q |-> IF q[i].st = "sent" THEN [q[i] EXCEPT !.st = "dropped"] ELSE q[i]]),
               !.start[sp] = Len(q) + 1, !.largest[sp] = None, !.lastAE[sp] = None,
               !.gone = @ \cup {sp},
               !.cnt = IF "dkreset" \in fx THEN 0 ELSE @]
  IN [Schedule(s1, t, fx) EXCEPT !.stable = TRUE]

\* discardPackets (Retry: the client's Initial packets will not be delivered)
DiscardPackets(s, sp) ==
  LET q    == s.pk[sp]
      lost == SentIdx(s, sp)
  IN [Tag(s, "dpkts", sp) EXCEPT
        !.pk[sp] = E([i \in DOMAIN q |-> IF i \in lost THEN [q[i] EXCEPT !.st = "lost"] ELSE q[i]]),
        !.start[sp] = Len(q) + 1,
        !.cb = {<<sp, i - 1, "lost">> : i \in lost},
        !.stable = FALSE]

\* confirmHandshake, setMaxAckDelay, validateClientAddress: no timer is touched
Confirm(s)   == [Tag(s, "confirm", None) EXCEPT !.conf = TRUE, !.stable = FALSE]
SetMAD(s, d) == [Tag(s, "mad", None) EXCEPT !.mad = d, !.stable = IF s.conf THEN FALSE ELSE @]
Validate(s)  == [Tag(s, "validate", None) EXCEPT !.lim = None, !.stable = IF AtLimit(s) THEN FALSE ELSE @]

(* ----------------------------------------------------------- observations *)
Kind(s) == IF s.timer = None THEN "none" ELSE IF s.armed THEN "pto" ELSE "loss"
AllIdx(s, sp) == 1 .. Len(s.pk[sp])
Outstanding(s, sp) == {i \in (IF FullScan THEN 1 ELSE s.start[sp]) .. Len(s.pk[sp]) : s.pk[sp][i].st = "sent"}

RECURSIVE SumSz(_, _)
SumSz(q, I) == IF I = {} THEN 0 ELSE LET i == CHOOSE x \in I : TRUE IN q[i].sz + SumSz(q, I \ {i})
BytesInFlight(s) ==
  LET B(sp) == SumSz(s.pk[sp], {i \in Outstanding(s, sp) : s.pk[sp][i].inf})
  IN B(0) + B(1) + B(2)

(* ------------------------------------------------------------- the contract *)
(* Stated over all packets ever sent, not over the implementation's list.          *)
Quiescent(s) == ~s.ack.on

\* packets that a later acknowledgement has overtaken
Cands(s, sp) == {i \in Outstanding(s, sp) : (i - 1) < s.largest[sp]}
AllCands(s) == UNION {{<<sp, i>> : i \in Cands(s, sp)} : sp \in SP}

\* the list never loses track of an unresolved packet
ListComplete(s) == FullScan => \A sp \in SP : \A i \in AllIdx(s, sp) : i < s.start[sp] => s.pk[sp][i].st # "sent"

\* X15: no loss is missed - at every quiescent point no overtaken packet is 3 or more behind
\* the largest acknowledged, and right after detection ran none has exceeded the time threshold
NoMissedLoss(s) ==
  Quiescent(s) =>
    \A sp \in SP : \A i \in Cands(s, sp) :
       /\ s.largest[sp] - (i - 1) < KPkt
       /\ s.op \in {"ackend", "advance"} => SatAdd(s.pk[sp][i].t, LossDelay(s.rtt)) > s.now

\* X15: the loss timer is armed iff some packet is overtaken, and is the earliest loss time
TimerIsEarliest(s) ==
  (Quiescent(s) /\ s.stable) =>
    /\ (AllCands(s) # {}) = (Kind(s) = "loss")
    /\ Kind(s) = "loss" =>
         s.timer = SatAdd(SetMin({s.pk[c[1]][c[2]].t : c \in AllCands(s)}), LossDelay(s.rtt))

\* X16: spaces the PTO looks at (D3), ack-eliciting packets in flight, anti-deadlock (6.2.2.1)
PtoSpaces(s) == IF s.conf THEN {2} ELSE {0, 1}
AEOut(s, sp) == {i \in Outstanding(s, sp) : s.pk[sp][i].ae}
AESpaces(s) == {sp \in PtoSpaces(s) : AEOut(s, sp) # {}}
ClientAntiDeadlock(s) == s.side = "client" /\ ~s.conf /\ s.largest[1] < 0
\* A.8: time_of_last_ack_eliciting_packet[space] = the latest ack-eliciting packet SENT
LastAESent(s, sp) == IF FullScan THEN s.pk[sp][SetMax({i \in AllIdx(s, sp) : s.pk[sp][i].ae})].t
                     ELSE s.pk[sp][SetMax(AEOut(s, sp))].t

PTOArmedIff(s) ==
  (Quiescent(s) /\ s.stable) =>
    ((Kind(s) = "pto") =
       (/\ AllCands(s) = {} /\ ~s.owed /\ ~AtLimit(s)
        /\ (AESpaces(s) # {} \/ ClientAntiDeadlock(s))))

PTOValue(s) ==
  (Quiescent(s) /\ s.stable /\ Kind(s) = "pto" /\ AESpaces(s) # {}) =>
    s.timer = SatAdd(SetMin({LastAESent(s, sp) : sp \in AESpaces(s)}), Pto(s))

\* the Application Data space never arms the PTO before the handshake is confirmed, and
\* max_ack_delay is part of the period only then
AppOnlyConfirmed(s) ==
  (Quiescent(s) /\ s.stable /\ Kind(s) = "pto" /\ ~s.conf /\ ~ClientAntiDeadlock(s)) =>
    (AEOut(s, 0) \cup AEOut(s, 1)) # {}

ContractInv(s) ==
  /\ ListComplete(s) /\ NoMissedLoss(s) /\ TimerIsEarliest(s)
  /\ PTOArmedIff(s) /\ PTOValue(s) /\ AppOnlyConfirmed(s)

(* step properties: a is the state before, b the state after an entry point *)
Changed(a, b, sp) ==
  IF SubSeq(b.pk[sp], 1, Len(a.pk[sp])) = a.pk[sp] THEN {}
  ELSE {i \in (IF FullScan THEN 1 ELSE a.start[sp]) .. Len(a.pk[sp]) : a.pk[sp][i].st # b.pk[sp][i].st}

\* the head of the list only moves over resolved packets (the step form of ListComplete)
ListStep(a, b) ==
  \A sp \in SP : \A i \in a.start[sp] .. (b.start[sp] - 1) : i <= Len(b.pk[sp]) => b.pk[sp][i].st # "sent"

\* X15: one fate per packet, reported exactly once
OneFate(a, b) ==
  LET ch == E([sp \in SP |-> Changed(a, b, sp)]) IN
  /\ \A sp \in SP : \A i \in ch[sp] :
        a.pk[sp][i].st = "sent" /\ b.pk[sp][i].st \in {"acked", "lost", "dropped"}
  /\ b.cb = UNION {{<<sp, i - 1, b.pk[sp][i].st>> : i \in {j \in ch[sp] : b.pk[sp][j].st # "dropped"}} : sp \in SP}

\* X15: lost only if overtaken and (3 behind or older than the loss delay), D1: in flight or not
LostOnlyIfThreshold(a, b) ==
  b.op # "dpkts" =>
    \A sp \in SP : \A i \in Changed(a, b, sp) :
       b.pk[sp][i].st = "lost" =>
         /\ (i - 1) < b.largest[sp]
         /\ \/ b.largest[sp] - (i - 1) >= KPkt
            \/ SatAdd(a.pk[sp][i].t, LossDelay(b.rtt)) <= b.now

\* X15: an RTT sample only when the largest acknowledged is newly acknowledged and an
\* ack-eliciting packet is newly acknowledged (5.1)
SampleRule(a, b) ==
  (b.rtt.latest # a.rtt.latest \/ b.rtt.srtt # a.rtt.srtt \/ b.rtt.var # a.rtt.var) =>
     b.op = "ackend" /\ a.ack.rtt >= 0 /\ a.ack.ae

\* X16: pto_count goes up by one exactly when the PTO fires, and is reset by an ACK frame
\* (not on the client's Initial space) and by a key discard; a PTO declares nothing lost
BackoffRule(a, b) ==
  /\ b.fired => (b.cnt = a.cnt + 1 /\ b.owed /\ b.cb = {})
  /\ ~b.fired => (b.cnt = a.cnt \/ b.cnt = 0)
  /\ (b.op = "ackend" /\ ~(b.side = "client" /\ b.osp = 0)) => b.cnt = 0
  /\ (b.op = "ackend" /\ b.side = "client" /\ b.osp = 0) => b.cnt = a.cnt
  /\ b.op = "dkeys" => b.cnt = 0
  /\ b.op \notin {"ackend", "dkeys"} => (b.fired \/ b.cnt = a.cnt)

StepContract(a, b) ==
  ListStep(a, b) /\ OneFate(a, b) /\ LostOnlyIfThreshold(a, b) /\ SampleRule(a, b) /\ BackoffRule(a, b)
=============================================================================
