# Family hooks for quicpto (X15 loss detection, X16 probe timeout).
#
# signature(): a trace rejected by the invariant NoDev is named by the repair(s) of Loss.tla that had
# to be switched off to explain the step (one departure of golang/net from the contract = one name);
# every other rejection (a line whose logged values differ from what the model computes, a contract
# invariant, a panic, a hang) by the entry point, the side and the kind of timer before and after, so
# that a different misbehaviour is still reported as new.
#
# record_validate_cover: record_validate plus per-action coverage (which entry points, with which
# outcome, occurred in traces that TLC accepted).  The numbers go into the evidence
# (coverage.action_coverage); an outcome that no accepted trace reached is logged as COVERAGE-GAP.
import re


def _prev(lines):
    for x in reversed(lines[:-1]):
        if "tk" in x:
            return x
    return {}


def signature(prop, kind, scenario, detail):
    what = (detail or {}).get("what", "")
    try:
        if kind != "trace" or not isinstance(scenario, dict):
            return None
        lines = scenario.get("lines") or []
        if not lines:
            return None
        hdr, last = lines[0], lines[-1]
        side = hdr.get("side", "?")
        if "invariant NoDev violated" in what:
            names = sorted(set(re.findall(r"(stale|dkreset|dgcnt)", what.split("state=")[-1])))
            if names:
                return "deviation:" + "+".join(names)
        e = last.get("e")
        if e in ("panic", "hang", "ackerror"):
            return "%s;%s;%s" % (side, e, last.get("msg", "")[:60])
        pv = _prev(lines)
        ctx = "tk=%s->%s" % (pv.get("tk", "-"), last.get("tk", "-"))
        inv = re.match(r"invariant (\w+)", what)
        if inv:
            return "%s;inv=%s;%s;%s" % (side, inv.group(1), e, ctx)
        return "%s;unmatched;%s;%s;sp=%s" % (side, e, ctx, last.get("sp", "-"))
    except Exception:
        return None


# --------------------------------------------------------------------------- coverage

EXPECTED = [
    "send/ack-eliciting", "send/padding-only (in flight)", "send/ack-only (not in flight)", "send/probe after PTO",
    "send/uses up the allowance", "skip",
    "ackstart", "ackrange/newly acknowledges", "ackrange/nothing new", "ackrange/second or later range",
    "ackend/first RTT sample", "ackend/RTT sample", "ackend/RTT sample, ack delay clamped or ignored",
    "ackend/no sample: nothing ack-eliciting newly acknowledged", "ackend/no sample: largest not newly acknowledged",
    "ackend/declares loss", "ackend/arms loss timer", "ackend/resets backoff", "ackend/client Initial: backoff kept",
    "ackend/persistent congestion (min_rtt reset)",
    "advance/PTO fires", "advance/loss timer fires", "advance/nothing due",
    "dgram/client (no limit)", "dgram/re-arms PTO", "dgram/executes overdue PTO", "dgram/other",
    "dkeys/initial", "dkeys/handshake", "dkeys/with backoff pending", "dpkts", "confirm", "mad", "validate",
    "timer/loss", "timer/pto from ack-eliciting packet", "timer/pto anti-deadlock (client, nothing in flight)",
    "timer/none: probe owed", "timer/none: at anti-amplification limit", "timer/none: nothing to wait for",
    "sendLimit/probe allowed beyond congestion window",
]


def _cover(groups, order, fails):
    cnt = {k: 0 for k in EXPECTED}

    def hit(k):
        cnt[k] = cnt.get(k, 0) + 1

    for t in order:
        if t in fails:
            continue
        g = groups[t]
        hdr = g[0]
        minpkt = hdr.get("minpkt", 128)
        side = hdr.get("side")
        prev = {"tk": "none", "cnt": 0, "owed": False, "lim": hdr.get("lim", -1), "rtt": [-1, 0, 0, 0],
                "out": [[], [], []], "la": [-1, -1, -1], "bif": 0}
        ae = {0: set(), 1: set(), 2: set()}   # ack-eliciting numbers per space (driver's own inputs)
        ackrtt, ackae = False, False
        conf = False
        for x in g[1:]:
            e = x.get("e")
            if "tk" not in x:
                continue
            if e == "send":
                if x["ae"]:
                    hit("send/ack-eliciting")
                    ae[x["sp"]].add(x["nx"][x["sp"]] - 1)
                    if prev["owed"]:
                        hit("send/probe after PTO")
                elif x["inf"]:
                    hit("send/padding-only (in flight)")
                else:
                    hit("send/ack-only (not in flight)")
                if 0 <= x["lim"] < minpkt <= prev["lim"]:
                    hit("send/uses up the allowance")
                if prev.get("sl") == 0 and prev["owed"] and prev["bif"] + 1200 > 12000:
                    hit("sendLimit/probe allowed beyond congestion window")
            elif e == "skip":
                hit("skip")
            elif e == "ackstart":
                hit("ackstart")
                ackrtt, ackae = False, False
            elif e == "ackrange":
                hit("ackrange/newly acknowledges" if x["cb"] else "ackrange/nothing new")
                if x["idx"] > 0:
                    hit("ackrange/second or later range")
                if x["idx"] == 0 and any(c[1] == x["hi"] - 1 for c in x["cb"]):
                    ackrtt = True
                if any(c[1] in ae[x["sp"]] for c in x["cb"]):
                    ackae = True
            elif e == "ackend":
                if x["rtt"] != prev["rtt"] and x["rtt"][1:] != prev["rtt"][1:]:
                    if prev["rtt"][0] < 0:
                        hit("ackend/first RTT sample")
                    else:
                        hit("ackend/RTT sample")
                        if x["delay"] > 0:
                            hit("ackend/RTT sample, ack delay clamped or ignored")
                elif not ackae:
                    hit("ackend/no sample: nothing ack-eliciting newly acknowledged")
                elif not ackrtt:
                    hit("ackend/no sample: largest not newly acknowledged")
                if x["cb"]:
                    hit("ackend/declares loss")
                if x["tk"] == "loss":
                    hit("ackend/arms loss timer")
                if prev["cnt"] > 0 and x["cnt"] == 0:
                    hit("ackend/resets backoff")
                if prev["cnt"] > 0 and x["cnt"] == prev["cnt"]:
                    hit("ackend/client Initial: backoff kept")
                if prev["rtt"][0] >= 0 and x["rtt"][0] > prev["rtt"][0]:
                    hit("ackend/persistent congestion (min_rtt reset)")
            elif e == "advance":
                if x["cnt"] == prev["cnt"] + 1:
                    hit("advance/PTO fires")
                elif x["cb"]:
                    hit("advance/loss timer fires")
                else:
                    hit("advance/nothing due")
            elif e == "dgram":
                if x["lim"] < 0:
                    hit("dgram/client (no limit)")
                elif x["owed"] and not prev["owed"]:
                    hit("dgram/executes overdue PTO")
                elif prev["tk"] == "none" and x["tk"] == "pto":
                    hit("dgram/re-arms PTO")
                else:
                    hit("dgram/other")
            elif e == "dkeys":
                hit("dkeys/initial" if x["sp"] == 0 else "dkeys/handshake")
                if prev["cnt"] > 0:
                    hit("dkeys/with backoff pending")
            elif e == "dpkts":
                hit("dpkts")
            elif e == "confirm":
                hit("confirm")
                conf = True
            elif e in ("mad", "validate"):
                hit(e)
            if e in ("send", "ackend", "advance", "dgram", "dkeys"):
                if x["tk"] == "loss":
                    hit("timer/loss")
                elif x["tk"] == "pto":
                    sp = [2] if conf else [0, 1]
                    if any(n in ae[k] for k in sp for n in x["out"][k]):
                        hit("timer/pto from ack-eliciting packet")
                    elif side == "client":
                        hit("timer/pto anti-deadlock (client, nothing in flight)")
                elif x["owed"]:
                    hit("timer/none: probe owed")
                elif 0 <= x["lim"] < minpkt:
                    hit("timer/none: at anti-amplification limit")
                else:
                    hit("timer/none: nothing to wait for")
            prev = x
    return cnt


def record_validate_cover(ctx, st):
    import json
    import os
    import shutil
    import stages
    import vlib
    from vlib import Infra, log, sha

    args = dict(st.get("driver_args") or {})
    infile = None
    if st.get("gen_spec"):
        items, _ = stages.generate(ctx, st)
        infile = os.path.join(ctx.scratch.dir, "items-%s.ndjson" % sha(st, 8))
        with open(infile, "w") as f:
            for i, v in enumerate(items):
                f.write(json.dumps({"b": i, "v": v}, separators=(",", ":")) + "\n")
        ctx.add_sample({"stage": "tlc_generated_scenario", "item": items[0]})
    res, outdir = vlib.run_driver(stages._fam_for(ctx, st), ctx.scratch.dir, "record", args, ctx.seed, ctx.tier,
                                  infile=infile, timeout=stages._to(ctx, st, "driver_timeout", 420),
                                  test=st.get("go_test"))
    tf = os.path.join(outdir, "trace.ndjson")
    if not os.path.isfile(tf):
        raise Infra("driver wrote no trace.ndjson")
    lines = [json.loads(x) for x in open(tf) if x.strip()]
    if not lines:
        raise Infra("driver recorded an empty trace")
    log("[record] %d traces, %d events recorded from the real code, %.1fs" %
        (res.get("traces", 0), len(lines), res["_wall"]))
    groups, order, fails, r = stages.validate_traces(ctx, st, lines)
    ctx.traces += len(order)
    ctx.evaluations += len(lines)
    ctx.trace_states = getattr(ctx, "trace_states", 0) + r.distinct
    for t in order:
        g = groups[t]
        if len(g) >= st.get("min_events", 4):
            ctx.distinct.add(sha([stages._strip(x) for x in g], 16))
    for t in order[:1]:
        ctx.add_sample({"stage": "record_validate", "trace": [stages._strip(x) for x in groups[t][:40]]})
    ctx.exhaustive.append(False)
    seen_sig = set()
    for t, (idx, why) in sorted(fails.items()):
        scn = {"t": t, "lines": [stages._strip(x) for x in groups[t][:idx + 1]]}
        detail = {"what": why, "fail_index": idx}
        sig = stages.signature(ctx, "trace", scn, detail)
        if sig in seen_sig:
            continue
        seen_sig.add(sig)
        stages.record_violation(ctx, "trace", scn, detail, st)

    # coverage over the traces TLC accepted (a NoDev report does not reject the rest of the trace:
    # the model follows the code after a named deviation, so those traces count as well)
    hard = {t: v for t, v in fails.items() if "invariant NoDev" not in v[1]}
    cnt = _cover(groups, order, hard)
    cover = ctx.extra.setdefault("action_coverage", {})
    for k, n in cnt.items():
        cover[k] = cover.get(k, 0) + n
    gaps = sorted(k for k in EXPECTED if cover.get(k, 0) == 0)
    log("[cover] %d of %d action outcomes occurred in accepted traces" % (len(EXPECTED) - len(gaps), len(EXPECTED)))
    if gaps and st.get("report_gaps", True):
        log("COVERAGE-GAP property=%s: no accepted step for %s" % (ctx.prop, ", ".join(gaps)))
        ctx.notes.append("action outcomes not reached in this stage: " + ", ".join(gaps))
    if os.environ.get("VERIF_COVER"):
        for k in EXPECTED:
            log("  %6d  %s" % (cover.get(k, 0), k))
    if not os.environ.get("VERIF_KEEP"):
        shutil.rmtree(outdir, ignore_errors=True)
