SPECIFICATION Spec
CONSTANTS
  Gran = 2
  InitSRTT = 8
  InitVar = 1
  DefMAD = 2
  MinPkt = 2
  FullScan = TRUE
  Sides = {"client", "server"}
  UseSp = {1, 2}
  MaxPk = 2
  MaxTot = 3
  Steps = {4}
  Delays = {0, 3}
  Sizes = {3}
  DgSizes = {1}
  MADs = {0}
  MaxNow = 60
  MaxRanges = 1
  MaxAcks = 1
  MaxTicks = 3
  MaxDg = 1
  Kinds = {"ae", "ack"}
  Fx = {"stale", "dkreset", "dgcnt"}
INVARIANT Inv
PROPERTY StepProp
CHECK_DEADLOCK FALSE
