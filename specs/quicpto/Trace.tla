------------------------------- MODULE Trace -------------------------------
(* Trace validation for X15 / X16.  The driver calls the real lossState with       *)
(* explicit times (nanoseconds since the start of the trace) and logs, after every *)
(* entry point, what the call reported (ackf / lossf callbacks) and the state it    *)
(* left behind: timer deadline and kind, PTO count, probe owed, allowance, largest  *)
(* acknowledged / unresolved numbers / next number per space, bytes in flight, RTT  *)
(* state, sendLimit.  Every line must be the entry point of Loss applied to the     *)
(* logged arguments, with every logged value equal to what the model computes.      *)
(* A line that only matches with one of the repairs switched off is accepted and    *)
(* named (dev; invariant NoDev reports it once per name); after it the model        *)
(* follows the code.  The contract (ContractInv, StepContract) is evaluated in      *)
(* every state / step of every trace as well.                                       *)
EXTENDS Loss, TraceIO

CONSTANT Prop      \* "X15" | "X16" | "all"

VARIABLES s, dev, sc, cur, l
tvars == <<s, dev, sc, cur, l>>

Line == Trace[l]

TInit == \E t \in 1..NT :
           /\ cur = t /\ l = Meta.starts[t]
           /\ s = S0("client") /\ dev = {} /\ sc = TRUE

RangeOf(q) == {q[i] : i \in 1..Len(q)}

\* the package's constants are the contract's constants
THdr == /\ Line.e = "hdr" /\ l = Meta.starts[cur]
        /\ Line.gran = Gran /\ Line.mad = DefMAD /\ Line.minpkt = MinPkt
        \* ov: the driver has replaced the initial RTT estimate (as the package's tests do)
        /\ Line.ov \/ (Line.isrtt = InitSRTT /\ Line.ivar = InitVar)
        /\ Line.isrtt > 0 /\ Line.ivar >= 0
        /\ Line.side \in {"client", "server"}
        /\ s' = S0x(Line.side, Line.isrtt, Line.ivar) /\ Line.lim = s'.lim
        /\ dev' = {} /\ sc' = TRUE

\* What is compared depends on the property being checked (Prop): the fates and the per-space
\* bookkeeping always; the RTT state, bytes in flight and the loss timer for X15; the PTO count,
\* probe owed, allowance, sendLimit and the PTO timer for X16.
MatchCommon(b, L) ==
  /\ \A sp \in SP :
        LET o == Outstanding(b, sp) IN
        /\ b.largest[sp] = L.la[sp + 1]
        /\ {i - 1 : i \in o} = RangeOf(L.out[sp + 1])
        /\ Len(L.out[sp + 1]) = Cardinality(o)
        /\ L.nx[sp + 1] = IF sp \in b.gone THEN 0 ELSE Len(b.pk[sp])
  /\ b.cb = {<<c[1], c[2], c[3]>> : c \in RangeOf(L.cb)} /\ Len(L.cb) = Cardinality(b.cb)

Match15(b, L) ==
  /\ BytesInFlight(b) = L.bif
  /\ b.rtt.min = L.rtt[1] /\ b.rtt.latest = L.rtt[2] /\ b.rtt.srtt = L.rtt[3] /\ b.rtt.var = L.rtt[4]
  /\ (L.tk = "loss") = (Kind(b) = "loss")
  /\ Kind(b) = "loss" => b.timer = L.tm

Match16(b, L) ==
  /\ b.cnt = L.cnt /\ b.owed = L.owed /\ b.lim = L.lim
  /\ (L.tk = "pto") = (Kind(b) = "pto")
  /\ Kind(b) = "pto" => b.timer = L.tm
  \* sendLimit: blocked iff at the anti-amplification limit; a probe owed may always be sent
  /\ (L.sl = 1) = AtLimit(b)
  /\ (b.owed /\ ~AtLimit(b)) => L.sl = 0

Match(b, L) ==
  /\ MatchCommon(b, L)
  /\ Prop \in {"X15", "all"} => Match15(b, L)
  /\ Prop \in {"X16", "all"} => Match16(b, L)

\* a panic / hang / refused-ACK line is no entry point of the model: no step matches it
Pre ==
  /\ Line.e \in {"send", "skip", "ackstart", "ackrange", "ackend", "advance", "dgram", "dkeys", "dpkts",
                 "confirm", "validate", "mad"}
  /\ Line.now >= s.now
  /\ CASE Line.e = "send"     -> CanSend(s, Line.now, Line.sp) /\ Line.sz >= 0
       [] Line.e = "skip"     -> CanSend(s, Line.now, Line.sp)
       [] Line.e = "ackstart" -> ~s.ack.on
       [] Line.e = "ackrange" -> CanAckRange(s, Line.now, Line.sp, Line.lo, Line.hi)
       [] Line.e = "ackend"   -> CanAckEnd(s, Line.now, Line.sp) /\ Line.delay >= 0
       [] Line.e = "advance"  -> ~s.ack.on
       [] Line.e = "dgram"    -> ~s.ack.on /\ Line.sz >= 0
       [] Line.e = "dkeys"    -> CanDiscardKeys(s, Line.now, Line.sp)
       [] Line.e = "dpkts"    -> ~s.ack.on /\ Line.sp \in SP /\ Line.sp \notin s.gone
       [] Line.e \in {"confirm", "validate"} -> ~s.ack.on
       [] Line.e = "mad"      -> ~s.ack.on /\ Line.d >= 0
       [] OTHER -> FALSE

StepOf(fx) ==
  CASE Line.e = "send"     -> Send(s, Line.now, Line.sp, Line.ae, Line.inf, Line.sz, fx)
    [] Line.e = "skip"     -> Skip(s, Line.now, Line.sp)
    [] Line.e = "ackstart" -> [AckStart(s) EXCEPT !.now = Line.now]
    [] Line.e = "ackrange" -> AckRange(s, Line.now, Line.sp, Line.idx, Line.lo, Line.hi)
    [] Line.e = "ackend"   -> AckEnd(s, Line.now, Line.sp, Line.delay, fx)
    [] Line.e = "advance"  -> Advance(s, Line.now, fx)
    [] Line.e = "dgram"    -> Datagram(s, Line.now, Line.sz, fx)
    [] Line.e = "dkeys"    -> DiscardKeys(s, Line.now, Line.sp, fx)
    [] Line.e = "dpkts"    -> [DiscardPackets(s, Line.sp) EXCEPT !.now = Line.now]
    [] Line.e = "confirm"  -> [Confirm(s) EXCEPT !.now = Line.now]
    [] Line.e = "validate" -> [Validate(s) EXCEPT !.now = Line.now]
    [] Line.e = "mad"      -> [SetMAD(s, Line.d) EXCEPT !.now = Line.now]

\* most contract-like first
Cand == << {"stale", "dkreset", "dgcnt"}, {"dkreset", "dgcnt"}, {"stale", "dgcnt"}, {"stale", "dkreset"},
           {"stale"}, {"dkreset"}, {"dgcnt"}, {} >>

FxSensitive == Line.e \in {"send", "ackend", "advance", "dgram", "dkeys"}

\* the contract (all repairs) is tried first; only if the line does not match it, the
\* combinations with a repair switched off are tried, most contract-like first
TStep ==
  /\ l > Meta.starts[cur] /\ Line.e # "hdr" /\ Pre
  /\ LET r == StepOf(AllFixes) IN
     IF Match(r, Line)
     THEN s' = r /\ dev' = {} /\ sc' = StepContract(s, r)
     ELSE /\ FxSensitive
          /\ \E i \in 2 .. 8 :
               LET ri == StepOf(Cand[i]) IN
               /\ Match(ri, Line)
               /\ \A j \in 2 .. (i - 1) : ~Match(StepOf(Cand[j]), Line)
               /\ s' = ri
               /\ dev' = {f \in AllFixes \ Cand[i] : StepOf(Cand[i] \cup {f}) # ri}
          /\ sc' = TRUE

TNext ==
  /\ l <= Meta.ends[cur]
  /\ l' = l + 1 /\ cur' = cur
  /\ (THdr \/ TStep)

TSpec == TInit /\ [][TNext]_tvars

Mark == HighWater(cur, l)

\* a named departure of the pinned code from the contract: reported once per name and run
ASSUME \A k \in 1..3 : TLCSet(NT + k, 0)
DevIdx(f) == NT + (CASE f = "stale" -> 1 [] f = "dkreset" -> 2 [] f = "dgcnt" -> 3)
NoDev == \/ dev = {}
         \/ \A f \in dev : TLCGet(DevIdx(f)) = 1
         \/ (\A f \in dev : TLCSet(DevIdx(f), 1)) /\ FALSE

ContractOK == l = Meta.starts[cur] \/ ContractInv(s)
StepOK == sc
=============================================================================
