SPECIFICATION Spec
CONSTANTS
  ReqBodyLens = {0, 3}
  RespBodyLens = {2}
  ReqHdrLens = {3}
  RespHdrLens = {1}
  ReqTrlLens = {0, 2}
  RespTrlLens = {0}
  ReqSWs = {1, 3}
  ReqCWs = {1, 2}
  RespSWs = {1, 3}
  RespCWs = {2}
  ReqMFs = {1, 2}
  RespMFs = {2}
  Thresh = 2
  Rule = "inflow"
INVARIANTS TypeOK DeliveredPrefix CompleteEqual HeadersFirst NoOverdraw WindowSync HeldCreditSmall
PROPERTY Completes
CHECK_DEADLOCK FALSE
