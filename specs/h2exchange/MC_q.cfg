SPECIFICATION Spec
CONSTANTS
  ReqBodyLens = {2}
  RespBodyLens = {1}
  ReqHdrLens = {3}
  RespHdrLens = {1}
  ReqTrlLens = {0, 2}
  RespTrlLens = {0}
  ReqSWs = {1, 3}
  ReqCWs = {2}
  RespSWs = {1}
  RespCWs = {1}
  ReqMFs = {1, 2}
  RespMFs = {2}
  Thresh = 2
  Rule = "inflow"
INVARIANTS TypeOK DeliveredPrefix CompleteEqual HeadersFirst NoOverdraw WindowSync HeldCreditSmall
PROPERTY Completes
CHECK_DEADLOCK FALSE
