SPECIFICATION OASpec
CONSTANTS
  P = 13
  Rots = {0, 1, 2, 3, 4, 5}
  Big = 1
  WalkMode = FALSE
INVARIANT Emit
CHECK_DEADLOCK FALSE
