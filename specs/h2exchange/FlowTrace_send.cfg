SPECIFICATION TSpec
CONSTANTS
  Streams = {1, 2, 3, 4, 5, 6, 7, 8, 9, 10, 11, 12}
  MaxInt = 2147483647
  Enforce = {"send"}
  MCw = 0
  MCmf = 0
  MCn = 0
  MCrefresh = 0
CONSTRAINT Mark
POSTCONDITION AllConsumed
CHECK_DEADLOCK FALSE
