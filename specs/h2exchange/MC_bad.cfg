SPECIFICATION Spec
CONSTANTS
  ReqBodyLens = {2}
  RespBodyLens = {0}
  ReqHdrLens = {1}
  RespHdrLens = {1}
  ReqTrlLens = {0}
  RespTrlLens = {0}
  ReqSWs = {1}
  ReqCWs = {3}
  RespSWs = {1}
  RespCWs = {1}
  ReqMFs = {1}
  RespMFs = {1}
  Thresh = 2
  Rule = "threshold"
INVARIANTS TypeOK DeliveredPrefix CompleteEqual HeadersFirst NoOverdraw WindowSync
PROPERTY Completes
CHECK_DEADLOCK FALSE
