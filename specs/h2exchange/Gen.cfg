SPECIFICATION OASpec
CONSTANTS
  P = 13
  Rots = {0}
  Big = 0
  WalkMode = FALSE
INVARIANT Emit
CHECK_DEADLOCK FALSE
