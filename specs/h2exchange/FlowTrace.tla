----------------------------- MODULE FlowTrace -----------------------------
(* Copy of specs/h2flow/Trace.tla (module renamed; H2Flow.tla is an unchanged copy), used by the     *)
(* h2exchange family to judge the frames of real end-to-end Transport <-> Server traffic with the      *)
(* sender rules of C08/C09 (Enforce = {"send"}): every DATA frame within the stream window, the          *)
(* connection window and the peer's max frame size as the peer defined them at that moment, never more    *)
(* than the application supplied, and nothing left unsent with both windows open at the end.  The events   *)
(* come from a tap on each end of the pipe (see the driver); a peer SETTINGS frame is logged when the       *)
(* endpoint acknowledges it.  Lines "live" and "a_read" are not produced here.                              *)
(*                                                                                                    *)
(* Trace validation of HTTP/2 flow control (C08-C11).  One trace = one connection of   *)
(* a real server (role "server") or Transport (role "client") driven by a scripted     *)
(* peer inside a synctest bubble; after every command the driver lets the endpoint     *)
(* run to quiescence and logs, in this order: application calls that returned, the     *)
(* set of streams the endpoint still knows (white box), every frame it wrote, and a    *)
(* "q" line.  All accounting is recomputed here from the logged frames.                *)
EXTENDS H2Flow, TraceIO

VARIABLES cur, l, role, decl, got
tvars == <<vars, cur, l, role, decl, got>>

Line == Trace[l]
Pat(s, o) == (o * 7 + s * 13) % 251
InS(s) == s \in Streams

TInit ==
    \E t \in 1..NT :
       LET h == Trace[Meta.starts[t]] IN
       /\ cur = t /\ l = Meta.starts[t] + 1
       /\ h.e = "hdr"
       /\ role = h.role
       /\ InitWith(h.W, h.pcw, h.piw, h.pmf, h.ca, h.siw, h.minRefresh)
       /\ decl = [s \in Streams |-> 0 - 1] /\ got = [s \in Streams |-> 0]

Keep == UNCHANGED <<role, decl, got>>

TOpen == /\ Line.e = "open" /\ InS(Line.s) /\ StreamOpen(Line.s, Line.body)
         /\ decl' = [decl EXCEPT ![Line.s] = Line.decl] /\ UNCHANGED <<role, got>>
TPWU  == Line.e = "p_wu" /\ (Line.s = 0 \/ InS(Line.s)) /\ PeerWU(Line.s, Line.inc) /\ Keep
TPSet == Line.e = "p_settings" /\ PeerSettings(Line.iw, Line.mf) /\ Keep
TPHdr == /\ Line.e = "p_hdr" /\ InS(Line.s)
         /\ rst' = [rst EXCEPT ![Line.s] = IF Line.es /\ @ \in {"open", "noBody"} THEN "ended" ELSE @]
         /\ decl' = [decl EXCEPT ![Line.s] = Line.decl]
         /\ UNCHANGED <<pcw, piw, pmf, sdelta, appw, sentb, sst, W, ca, siw, rdelta, unread, rdoff, cu, su, minRefresh, owe, dead, dev, role, got>>
TPRst == Line.e = "p_rst" /\ InS(Line.s) /\ SendEnd(Line.s) /\ Keep

(* the server does not buffer DATA beyond the declared Content-Length *)
Accepts(s, payload) == ~(role = "server" /\ decl[s] >= 0 /\ got[s] + payload > decl[s])
TPData ==
    /\ Line.e = "p_data" /\ InS(Line.s)
    /\ PeerData(Line.s, Line.len, Line.pad, Line.es, Accepts(Line.s, Line.len - Line.pad))
    /\ got' = [got EXCEPT ![Line.s] = @ + (Line.len - Line.pad)] /\ UNCHANGED <<role, decl>>

TAWrite == Line.e = "a_write" /\ InS(Line.s) /\ AppWrite(Line.s, Line.n) /\ Keep
(* bytes that left the body buffer: the server hands them all to the handler; the Transport    *)
(* may deliver fewer than it took (response longer than its Content-Length), the buffered      *)
(* remainder is logged (white box)                                                             *)
Taken == IF role = "client" /\ Has(Line, "left") /\ Line.left >= 0 /\ unread[Line.s] - Line.left >= Line.n
         THEN unread[Line.s] - Line.left ELSE Line.n
TARead  == /\ Line.e = "a_read" /\ InS(Line.s)
           /\ (Judged("recv") /\ rst[Line.s] # "gone" /\ Line.n > 0) =>
                 (Line.b0 = Pat(Line.s, rdoff[Line.s]) /\ Line.b1 = Pat(Line.s, rdoff[Line.s] + Line.n - 1))
           /\ IF rst[Line.s] = "gone" /\ role = "server"
              THEN DevReadAfterGone(Line.s, Line.n)
              ELSE IF Taken = 0 THEN UNCHANGED vars
              ELSE IF Judged("recv") \/ Judged("credit") \/ Taken <= unread[Line.s]
                   THEN AppRead(Line.s, Taken)
                   ELSE UNCHANGED vars
           /\ Keep
TAClose == /\ Line.e = "a_closebody" /\ InS(Line.s)
           /\ (IF role = "server" THEN AppCloseBody(Line.s) ELSE AppCloseBodyDiscard(Line.s))
           /\ Keep

(* white box: streams the endpoint still tracks; all others that were open are gone *)
Gone(live) == {s \in Streams : rst[s] \notin {"idle", "gone"} /\ s \notin live}
TLive ==
    /\ Line.e = "live"
    /\ LET g == Gone({Line.streams[i] : i \in 1..Len(Line.streams)}) IN
       /\ rst' = [s \in Streams |-> IF s \in g THEN "gone" ELSE rst[s]]
       /\ IF role = "server"        \* the server drops the request body with the stream;
          THEN /\ cu' = cu + Sum(unread, g)      \* the Transport keeps the response body readable
               /\ unread' = [s \in Streams |-> IF s \in g THEN 0 ELSE unread[s]]
          ELSE UNCHANGED <<cu, unread>>
    /\ UNCHANGED <<pcw, piw, pmf, sdelta, appw, sentb, sst, W, ca, siw, rdelta, rdoff, su, minRefresh, owe, dead, dev>>
    /\ Keep

TEData == Line.e = "e_data" /\ InS(Line.s) /\ SendData(Line.s, Line.n, Line.es) /\ Keep
TEHdr  == Line.e = "e_hdr" /\ InS(Line.s) /\ (IF Line.es THEN SendEnd(Line.s) ELSE UNCHANGED vars) /\ Keep
TEWU   == Line.e = "e_wu" /\ (Line.s = 0 \/ InS(Line.s)) /\ SendWU(Line.s, Line.inc) /\ Keep
TERst  == Line.e = "e_rst" /\ InS(Line.s) /\ SendRST(Line.s, Line.fc) /\ Keep
TEGoAway == Line.e = "e_goaway" /\ SendGoAway(Line.fc) /\ Keep
TEClosed == Line.e = "e_closed" /\ ConnClosed /\ Keep
(* white box: the credit the endpoint holds back must be exactly the credit the spec computed  *)
(* (a byte lost or invented anywhere shows at the next quiescent point)                        *)
TQ     == /\ Line.e = "q" /\ QuiesceOK
          /\ (Judged("credit") /\ ~dead /\ Line.unsent >= 0) => cu = Line.unsent
          \* white box: the windows the endpoint enforces are exactly the windows it advertised
          /\ (Judged("recv") /\ ~dead /\ Line.avail >= 0) =>
                /\ ca = Line.avail
                /\ \A k \in 1..Len(Line.savail) :
                      LET id == Line.savail[k][1] IN
                      (InS(id) /\ rst[id] \in {"open", "noBody"}) =>
                          (RW(id) <= Line.savail[k][2] /\ Line.savail[k][2] <= RW(id) + su[id])
          /\ UNCHANGED vars /\ Keep

TNext ==
    /\ l <= Meta.ends[cur]
    /\ l' = l + 1 /\ cur' = cur
    /\ (TOpen \/ TPWU \/ TPSet \/ TPHdr \/ TPRst \/ TPData \/ TAWrite \/ TARead \/ TAClose \/ TLive
        \/ TEData \/ TEHdr \/ TEWU \/ TERst \/ TEGoAway \/ TEClosed \/ TQ)

TSpec == TInit /\ [][TNext]_tvars
Mark == HighWater(cur, l)
=============================================================================
