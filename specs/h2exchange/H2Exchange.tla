----------------------------- MODULE H2Exchange -----------------------------
(* C14 design model: ONE HTTP/2 request/response exchange, both directions, over      *)
(* flow-controlled FIFO byte pipes.                                                   *)
(*                                                                                    *)
(* Direction "req" carries the request (client application -> Transport -> wire ->    *)
(* Server -> handler), direction "resp" the response.  Each direction has             *)
(*   - a header block of hl units, split into one HEADERS and then CONTINUATION        *)
(*     frames of at most mf units each (mf = the receiver's SETTINGS_MAX_FRAME_SIZE),  *)
(*   - a body of bl units which the sending application writes in arbitrary chunks and *)
(*     the sender splits into DATA frames bounded by the stream window, the connection *)
(*     window and mf,                                                                  *)
(*   - optional trailers of tl units (a second header block with END_STREAM),          *)
(*   - a receiver that buffers DATA, an application that reads the buffer in arbitrary *)
(*     chunks, and the credit-return rule of flow.go inflow.add: the receiver          *)
(*     accumulates returned bytes in `unsent` and sends WINDOW_UPDATE(unsent) as soon  *)
(*     as unsent >= Thresh or unsent >= avail.                                         *)
(* Units are distinct numbers, so order, loss, duplication and cross-talk are visible. *)
(*                                                                                    *)
(* Checked: what the receiving application got is always a prefix of what was sent     *)
(* (exactly: delivered \o buffered \o in flight = sent), windows are never overdrawn,   *)
(* credit is conserved, at completion header list, body and trailer list are equal to   *)
(* what the sending application supplied, and every exchange completes under weak       *)
(* fairness (<>AllDone): the refresh rule cannot strand a transfer, even with one-unit   *)
(* windows.  Rule = "threshold" is the broken variant (no `unsent >= avail` clause)      *)
(* that MC_bad.cfg shows to deadlock.                                                   *)
EXTENDS Integers, Sequences, FiniteSets, TLC

CONSTANTS
    ReqBodyLens, RespBodyLens,     \* sets of body lengths (units)
    ReqHdrLens, RespHdrLens,       \* sets of header block lengths (>= 1)
    ReqTrlLens, RespTrlLens,       \* sets of trailer block lengths (0 = no trailers)
    ReqSWs, RespSWs,               \* sets of stream windows for DATA of that direction
    ReqCWs, RespCWs,               \* sets of connection windows for DATA of that direction
    ReqMFs, RespMFs,               \* sets of max frame sizes the receiver of that direction advertises
    Thresh,                        \* inflowMinRefresh
    Rule                           \* "inflow" (the code's rule) | "threshold" (broken: threshold only)

Dirs == {"req", "resp"}

VARIABLES
    par,     \* [d -> [bl, hl, tl, sw0, cw0, mf]]  fixed per behaviour
    snd,     \* [d -> [ph, hs, hes, aw, sb, ts, sw, cw]]
    wire,    \* [d -> Seq(frame)]   frames of direction d in flight (FIFO)
    cred,    \* [d -> Seq([lvl, inc])]  WINDOW_UPDATEs for direction d in flight (they travel against d)
    rcv,     \* [d -> [hb, hdone, pes, buf, dl, tb, tdone, ended, sa, su, ca, cu]]
    err      \* a frame arrived that overdraws a window the receiver advertised

vars == <<par, snd, wire, cred, rcv, err>>

(* what the sending application supplies *)
Base(d)  == IF d = "req" THEN 0 ELSE 1000
Body(d)  == [i \in 1..par[d].bl |-> Base(d) + i]
Hdrs(d)  == [i \in 1..par[d].hl |-> Base(d) + 100 + i]
Trls(d)  == [i \in 1..par[d].tl |-> Base(d) + 200 + i]

Pars(bls, hls, tls, sws, cws, mfs) ==
    {[bl |-> b, hl |-> h, tl |-> t, sw0 |-> sw, cw0 |-> cw, mf |-> m] :
        b \in bls, h \in hls, t \in tls, sw \in sws, cw \in cws, m \in mfs}

Init ==
    /\ par \in {[req |-> pq, resp |-> pr] : pq \in Pars(ReqBodyLens, ReqHdrLens, ReqTrlLens, ReqSWs, ReqCWs, ReqMFs),
                                           pr \in Pars(RespBodyLens, RespHdrLens, RespTrlLens, RespSWs, RespCWs, RespMFs)}
    /\ snd = [d \in Dirs |-> [ph |-> "hdr", hs |-> 0, hes |-> FALSE, aw |-> 0, sb |-> 0, ts |-> 0,
                              sw |-> par[d].sw0, cw |-> par[d].cw0]]
    /\ wire = [d \in Dirs |-> <<>>]
    /\ cred = [d \in Dirs |-> <<>>]
    /\ rcv = [d \in Dirs |-> [hb |-> <<>>, hdone |-> FALSE, pes |-> FALSE, buf |-> <<>>, dl |-> <<>>,
                              tb |-> <<>>, tdone |-> FALSE, ended |-> FALSE,
                              sa |-> par[d].sw0, su |-> 0, ca |-> par[d].cw0, cu |-> 0]]
    /\ err = FALSE

(* the handler runs (and the response can start) once the request header block is complete *)
Started(d) == d = "req" \/ rcv["req"].hdone

-----------------------------------------------------------------------------
(* ---------------- sender ---------------- *)
Put(d, f) == wire' = [wire EXCEPT ![d] = Append(@, f)]

(* one fragment of the header block: HEADERS first, then CONTINUATION, each <= mf units.   *)
(* END_STREAM rides on the HEADERS frame and is only possible without body and trailers.   *)
SendHdrFrag(d, n, es) ==
    LET s == snd[d] IN
    /\ Started(d) /\ s.ph = "hdr"
    /\ n >= 1 /\ n <= par[d].mf /\ s.hs + n <= par[d].hl
    /\ es => (par[d].bl = 0 /\ par[d].tl = 0)
    /\ s.hs > 0 => es = s.hes
    /\ Put(d, [t |-> IF s.hs = 0 THEN "H" ELSE "C", p |-> SubSeq(Hdrs(d), s.hs + 1, s.hs + n),
               eh |-> s.hs + n = par[d].hl, es |-> IF s.hs = 0 THEN es ELSE FALSE])
    /\ snd' = [snd EXCEPT ![d].hs = s.hs + n, ![d].hes = es,
                          ![d].ph = IF s.hs + n = par[d].hl THEN (IF es THEN "done" ELSE "body") ELSE "hdr"]
    /\ UNCHANGED <<par, cred, rcv, err>>

(* the sending application hands over k more body units *)
AppWrite(d, k) ==
    /\ snd[d].ph = "body" /\ k >= 1 /\ snd[d].aw + k <= par[d].bl
    /\ snd' = [snd EXCEPT ![d].aw = @ + k]
    /\ UNCHANGED <<par, wire, cred, rcv, err>>

(* DATA: bounded by stream window, connection window, max frame size and what was written *)
SendData(d, n, es) ==
    LET s == snd[d] IN
    /\ s.ph = "body" /\ n >= 1
    /\ n <= par[d].mf /\ n <= s.sw /\ n <= s.cw /\ s.sb + n <= s.aw
    /\ es => (s.sb + n = par[d].bl /\ par[d].tl = 0)
    /\ Put(d, [t |-> "D", p |-> SubSeq(Body(d), s.sb + 1, s.sb + n), eh |-> FALSE, es |-> es])
    /\ snd' = [snd EXCEPT ![d].sb = s.sb + n, ![d].sw = s.sw - n, ![d].cw = s.cw - n,
                          ![d].ph = IF es THEN "done" ELSE "body"]
    /\ UNCHANGED <<par, cred, rcv, err>>

(* the body is complete and END_STREAM has not been sent: an empty DATA frame carries it *)
SendEnd(d) ==
    LET s == snd[d] IN
    /\ s.ph = "body" /\ s.sb = par[d].bl /\ par[d].tl = 0
    /\ Put(d, [t |-> "D", p |-> <<>>, eh |-> FALSE, es |-> TRUE])
    /\ snd' = [snd EXCEPT ![d].ph = "done"]
    /\ UNCHANGED <<par, cred, rcv, err>>

(* trailers: a second header block, HEADERS(END_STREAM) + CONTINUATION *)
SendTrlFrag(d, n) ==
    LET s == snd[d] IN
    /\ s.ph \in {"body", "trl"} /\ s.sb = par[d].bl /\ par[d].tl > 0
    /\ n >= 1 /\ n <= par[d].mf /\ s.ts + n <= par[d].tl
    /\ Put(d, [t |-> IF s.ts = 0 THEN "H" ELSE "C", p |-> SubSeq(Trls(d), s.ts + 1, s.ts + n),
               eh |-> s.ts + n = par[d].tl, es |-> s.ts = 0])
    /\ snd' = [snd EXCEPT ![d].ts = s.ts + n, ![d].ph = IF s.ts + n = par[d].tl THEN "done" ELSE "trl"]
    /\ UNCHANGED <<par, cred, rcv, err>>

(* a WINDOW_UPDATE reaches the sender *)
RecvWU(d) ==
    /\ cred[d] # <<>>
    /\ LET u == Head(cred[d]) IN
       snd' = IF u.lvl = "s" THEN [snd EXCEPT ![d].sw = @ + u.inc] ELSE [snd EXCEPT ![d].cw = @ + u.inc]
    /\ cred' = [cred EXCEPT ![d] = Tail(@)]
    /\ UNCHANGED <<par, wire, rcv, err>>

(* ---------------- receiver ---------------- *)
RecvFrame(d) ==
    /\ wire[d] # <<>>
    /\ LET f == Head(wire[d])
           r == rcv[d]
           n == Len(f.p) IN
       IF f.t = "D"
       THEN IF n > r.sa \/ n > r.ca
            THEN err' = TRUE /\ rcv' = rcv
            ELSE /\ rcv' = [rcv EXCEPT ![d].buf = r.buf \o f.p, ![d].sa = r.sa - n, ![d].ca = r.ca - n,
                                       ![d].ended = r.ended \/ f.es]
                 /\ err' = err
       ELSE LET pes == IF f.t = "H" THEN f.es ELSE r.pes IN
            /\ err' = err
            /\ IF ~r.hdone
               THEN rcv' = [rcv EXCEPT ![d].hb = r.hb \o f.p, ![d].pes = pes, ![d].hdone = f.eh,
                                       ![d].ended = r.ended \/ (f.eh /\ pes)]
               ELSE rcv' = [rcv EXCEPT ![d].tb = r.tb \o f.p, ![d].pes = pes, ![d].tdone = f.eh,
                                       ![d].ended = r.ended \/ (f.eh /\ pes)]
    /\ wire' = [wire EXCEPT ![d] = Tail(@)]
    /\ UNCHANGED <<par, snd, cred>>

(* flow.go inflow.add: hold the credit back only while it is below the threshold AND below *)
(* what the peer still has; otherwise hand all of it out.                                   *)
Hold(u, a) == IF Rule = "inflow" THEN u < Thresh /\ u < a ELSE u < Thresh

(* the receiving application reads k buffered units: they become credit on the connection  *)
(* and, while the peer can still send on the stream, on the stream                           *)
AppRead(d, k) ==
    LET r  == rcv[d]
        cu == r.cu + k
        su == IF r.ended THEN r.su ELSE r.su + k
        cwu == IF Hold(cu, r.ca) THEN <<>> ELSE <<[lvl |-> "c", inc |-> cu]>>
        swu == IF r.ended \/ Hold(su, r.sa) THEN <<>> ELSE <<[lvl |-> "s", inc |-> su]>>
    IN
    /\ r.hdone /\ k >= 1 /\ k <= Len(r.buf)
    /\ rcv' = [rcv EXCEPT ![d].dl = r.dl \o SubSeq(r.buf, 1, k),
                          ![d].buf = SubSeq(r.buf, k + 1, Len(r.buf)),
                          ![d].cu = IF cwu = <<>> THEN cu ELSE 0,
                          ![d].ca = IF cwu = <<>> THEN r.ca ELSE r.ca + cu,
                          ![d].su = IF swu = <<>> THEN su ELSE 0,
                          ![d].sa = IF swu = <<>> THEN r.sa ELSE r.sa + su]
    /\ cred' = [cred EXCEPT ![d] = @ \o cwu \o swu]
    /\ UNCHANGED <<par, snd, wire, err>>

-----------------------------------------------------------------------------
Sender(d) ==
    \/ \E n \in 1..par[d].mf, es \in BOOLEAN : SendHdrFrag(d, n, es)
    \/ \E n \in 1..par[d].mf, es \in BOOLEAN : SendData(d, n, es)
    \/ SendEnd(d)
    \/ \E n \in 1..par[d].mf : SendTrlFrag(d, n)
Writer(d) == \E k \in 1..par[d].bl : AppWrite(d, k)
Reader(d) == \E k \in 1..Len(rcv[d].buf) : AppRead(d, k)

Next == \E d \in Dirs : Sender(d) \/ Writer(d) \/ RecvWU(d) \/ RecvFrame(d) \/ Reader(d)

(* Every step consumes something (a unit to write, send, receive, read, or a WINDOW_UPDATE in flight), *)
(* so no behaviour takes infinitely many steps: weak fairness of Next as a whole (the system does not     *)
(* stop while some step is possible) is all the liveness argument needs.  NoStrand is the same fact as    *)
(* a state predicate: a state without successor is a completed exchange.                                  *)
Fair == WF_vars(Next)

Spec == Init /\ [][Next]_vars /\ Fair

-----------------------------------------------------------------------------
(* the receiving application has the whole message *)
Done(d) == /\ rcv[d].hdone /\ rcv[d].ended /\ rcv[d].buf = <<>>
           /\ par[d].tl > 0 => rcv[d].tdone
AllDone == \A d \in Dirs : Done(d)

RECURSIVE Flat(_)
Flat(fs) == IF fs = <<>> THEN <<>> ELSE (IF Head(fs).t = "D" THEN Head(fs).p ELSE <<>>) \o Flat(Tail(fs))
RECURSIVE SumInc(_, _)
SumInc(us, lvl) == IF us = <<>> THEN 0 ELSE (IF Head(us).lvl = lvl THEN Head(us).inc ELSE 0) + SumInc(Tail(us), lvl)

IsPrefix(a, b) == Len(a) <= Len(b) /\ a = SubSeq(b, 1, Len(a))

TypeOK ==
    \A d \in Dirs :
       /\ snd[d].ph \in {"hdr", "body", "trl", "done"}
       /\ snd[d].sw >= 0 /\ snd[d].cw >= 0 /\ snd[d].sb <= snd[d].aw /\ snd[d].aw <= par[d].bl
       /\ rcv[d].sa >= 0 /\ rcv[d].ca >= 0 /\ rcv[d].su >= 0 /\ rcv[d].cu >= 0

(* C14, safety: nothing lost, duplicated, reordered or invented on the way *)
DeliveredPrefix ==
    \A d \in Dirs :
       /\ IsPrefix(rcv[d].dl, Body(d))
       /\ rcv[d].dl \o rcv[d].buf \o Flat(wire[d]) = SubSeq(Body(d), 1, snd[d].sb)
       /\ IsPrefix(rcv[d].hb, Hdrs(d)) /\ IsPrefix(rcv[d].tb, Trls(d))

(* C14 at completion: the receiving application has exactly what the sending one supplied *)
CompleteEqual ==
    \A d \in Dirs : Done(d) => /\ rcv[d].dl = Body(d) /\ rcv[d].hb = Hdrs(d) /\ rcv[d].tb = Trls(d)
                               /\ snd[d].ph = "done" /\ wire[d] = <<>>

(* the handler never sees a body before the header list is complete *)
HeadersFirst == \A d \in Dirs : ~rcv[d].hdone => (rcv[d].dl = <<>> /\ rcv[d].tb = <<>>)

(* flow control: no overdraw, both ends agree on the windows, credit is conserved *)
NoOverdraw == ~err
WindowSync ==
    \A d \in Dirs :
       /\ rcv[d].sa = snd[d].sw + Len(Flat(wire[d])) + SumInc(cred[d], "s")
       /\ rcv[d].ca = snd[d].cw + Len(Flat(wire[d])) + SumInc(cred[d], "c")
       /\ par[d].cw0 = rcv[d].ca + rcv[d].cu + Len(rcv[d].buf)
       /\ rcv[d].sa + rcv[d].su + Len(rcv[d].buf) <= par[d].sw0
(* the credit rule itself: what is held back is below the threshold *)
HeldCreditSmall == \A d \in Dirs : rcv[d].cu < Thresh /\ rcv[d].su < Thresh

(* C14, liveness: every exchange completes *)
Completes == <>AllDone
NoStrand == (~ENABLED Next) => AllDone
=============================================================================
