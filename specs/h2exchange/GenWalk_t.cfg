SPECIFICATION WalkSpec
CONSTANTS
  P = 13
  Rots = {0}
  Big = 1
  WalkMode = TRUE
INVARIANT Emit
CHECK_DEADLOCK FALSE
