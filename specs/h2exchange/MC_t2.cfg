SPECIFICATION Spec
CONSTANTS
  ReqBodyLens = {1}
  RespBodyLens = {0, 2, 4}
  ReqHdrLens = {2}
  RespHdrLens = {1, 3}
  ReqTrlLens = {0}
  RespTrlLens = {0, 2}
  ReqSWs = {1}
  ReqCWs = {2}
  RespSWs = {1, 2, 3}
  RespCWs = {1, 2, 3}
  ReqMFs = {1}
  RespMFs = {1, 2}
  Thresh = 2
  Rule = "inflow"
INVARIANTS TypeOK DeliveredPrefix CompleteEqual HeadersFirst NoOverdraw WindowSync HeldCreditSmall NoStrand
PROPERTY Completes
CHECK_DEADLOCK FALSE
