# h2exchange family hooks: signatures that name the scenario class of a C14 mismatch, so that the
# known finding (cold connection + server stream window below the protocol default) does not hide
# a different violation.  The verdict itself always comes from the comparison with TLC's prediction.

import hashlib
import json


def _case(item):
    i = item.get("in", {})
    srv, req = i.get("srv", {}), i.get("req", {})
    return {
        "conn": "warm" if i.get("warm") else "cold",
        "small_sw": srv.get("sw", 0) < 65535,
        "over": req.get("len", 0) > srv.get("sw", 0),
        "small_tab": srv.get("dtab", 4096) < 4096,
        "par": i.get("par", 1),
    }


def signature(prop, kind, scenario, detail):
    try:
        if prop != "C14":
            return None
        if kind == "replay" and isinstance(scenario, dict):
            c = _case(scenario)
            what = detail.get("what", "")
            if what.startswith("exchange aborted with FLOW_CONTROL_ERROR"):
                return "%s-connection;srv-stream-window%s65535;request-body%ssrv-stream-window;symptom=FLOW_CONTROL_ERROR" % (
                    c["conn"], "<" if c["small_sw"] else ">=", ">" if c["over"] else "<=")
            if what.startswith("exchange aborted with COMPRESSION_ERROR"):
                return "%s-connection;srv-decoder-table%s4096;symptom=COMPRESSION_ERROR" % (
                    c["conn"], "<" if c["small_tab"] else ">=")
            h = hashlib.sha1(json.dumps(scenario.get("id"), separators=(",", ":")).encode()).hexdigest()[:10]
            return "%s;par=%d;%s;case=%s" % (c["conn"], c["par"], what.replace(" ", "-")[:70], h)
        if kind == "trace" and isinstance(scenario, dict):
            last = scenario["lines"][-1] if scenario.get("lines") else {}
            hdr = scenario["lines"][0] if scenario.get("lines") else {}
            return "flowtrace;role=%s;rejected=%s;item=%s" % (hdr.get("role", "?"), last.get("e", "?"), hdr.get("item", "?"))
    except Exception:
        return None
    return None
