SPECIFICATION Spec
CONSTANTS
  ReqBodyLens = {0, 1, 4}
  RespBodyLens = {0, 2}
  ReqHdrLens = {3}
  RespHdrLens = {2}
  ReqTrlLens = {0, 2}
  RespTrlLens = {0, 1}
  ReqSWs = {1, 3}
  ReqCWs = {1, 2}
  RespSWs = {1, 2}
  RespCWs = {1}
  ReqMFs = {1, 2}
  RespMFs = {2}
  Thresh = 2
  Rule = "inflow"
INVARIANTS TypeOK DeliveredPrefix CompleteEqual HeadersFirst NoOverdraw WindowSync HeldCreditSmall NoStrand
PROPERTY Completes
CHECK_DEADLOCK FALSE
