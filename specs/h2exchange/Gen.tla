-------------------------------- MODULE Gen --------------------------------
(* C14 binding: exchange descriptions with the outcome the identity oracle predicts.   *)
(*                                                                                    *)
(* A case is a tuple c of NCols column values (method/path, header sets, body lengths,  *)
(* write chunkings, declared lengths, trailers, handler order, client read pattern,     *)
(* parallel streams, cold/warm connection, SETTINGS of both sides).  Case(c) makes it   *)
(* concrete (real sizes derived from the negotiated frame size and windows), and its       *)
(* exp field is the specification's oracle: what the handler must observe and what         *)
(* the client must receive, after the documented normalisation:                          *)
(*   - field names arrive in canonical MIME form (they are lower-cased on the wire),      *)
(*   - values of one name keep their order, values are byte-exact,                        *)
(*   - Content-Length: declared n > 0 -> n; body present but length not declared -> -1;   *)
(*     no body -> 0 (request); response: declared -> n, else unknown (-1) or n,           *)
(*   - a HEAD response has neither body nor trailers,                                     *)
(*   - the peers may add fields from a fixed list (User-Agent, Date, ...).                *)
(* Byte strings are described as (period alphabet, offset, length); the oracle computes   *)
(* their fingerprint (length, first, last byte, two polynomial digests mod 46337 and       *)
(* 46327) in closed form, so bodies of megabytes cost TLC a few hundred steps.  The        *)
(* driver computes the same fingerprint over the bytes the real code delivered.            *)
(*                                                                                    *)
(* OASpec (bfs): the rows of the orthogonal array OA(P^2, P+1, P, 2) over Z_P, folded to   *)
(* the column domains: every pair of values of every two columns occurs (pairwise cover);  *)
(* Rots adds rotated copies.  WalkSpec (simulate): a random walk picks one value per        *)
(* column, i.e. a random element of the full product.                                       *)
EXTENDS Integers, Sequences, FiniteSets, TLC, Json

CONSTANTS P,        \* prime, P + 1 >= NCols, P >= every column domain used in OA mode
          Rots,     \* set of rotations (0 = the plain array)
          WalkMode, \* TRUE: WalkSpec is run (random walk), FALSE: OASpec
          Big       \* 0: quick sizes (large frame 2^18, large window 2^20); 1: thorough (2^24-1, 2^22)

VARIABLE c
NCols == 14

-----------------------------------------------------------------------------
(* ---------------- byte strings and their fingerprints ---------------- *)
M1 == 46337   B1 == 257
M2 == 46327   B2 == 263

(* The digest of a byte string is the fold h -> (h*B + byte + 1) mod M from h = 0.  One step is    *)
(* the affine map <<B, byte + 1>> (first component multiplies h).  Then(l, r) is "l, then r".        *)
Then(l, r, M) == <<(r[1] * l[1]) % M, (r[1] * l[2] + r[2]) % M>>

(* prefix table of s: element j is the map of s[1..j] (linear recursion: run TLC with -Xss16m) *)
RECURSIVE PrefAcc(_, _, _, _, _)
PrefAcc(s, i, acc, M, B) ==
    IF i > Len(s) THEN acc
    ELSE PrefAcc(s, i + 1, Append(acc, Then(acc[i - 1], <<B % M, (s[i] + 1) % M>>, M)), M, B)
PrefTab(s, M, B) == PrefAcc(s, 2, << <<B % M, (s[1] + 1) % M>> >>, M, B)

(* k-fold composition of the affine map <<a, cc>> *)
RECURSIVE AffPow(_, _, _, _)
AffPow(a, cc, k, M) ==
    IF k = 0 THEN <<1, 0>>
    ELSE LET h  == AffPow(a, cc, k \div 2, M)
             sq == <<(h[1] * h[1]) % M, (h[1] * h[2] + h[2]) % M>>
         IN IF k % 2 = 0 THEN sq ELSE <<(sq[1] * a) % M, (a * sq[2] + cc) % M>>

(* digest of the first n bytes of the periodic string whose period has the prefix table PT: the map *)
(* of one period raised to the number of whole periods, then the map of the remainder                *)
HashTab(PT, n, M) ==
    LET L   == Len(PT)
        hk  == AffPow(PT[L][1], PT[L][2], n \div L, M)[2]
        r   == n % L
    IN IF r = 0 THEN hk ELSE (PT[r][1] * hk + PT[r][2]) % M

None == 256
Mat(f) == SubSeq(f, 1, Len(f))          \* evaluate a function over 1..n into a tuple, once

(* bodies: byte i = (salt + i) mod 251; the salts in use (request / response of streams 0..2) *)
Salts == <<17, 48, 79, 113, 150, 187>>
BodyPer(salt) == Mat([i \in 1..251 |-> (salt + i - 1) % 251])
BT1 == Mat([k \in 1..6 |-> PrefTab(BodyPer(Salts[k]), M1, B1)])       \* constants: evaluated once
BT2 == Mat([k \in 1..6 |-> PrefTab(BodyPer(Salts[k]), M2, B2)])
BodyFp(k, n) == [n  |-> n,
                 b0 |-> IF n = 0 THEN None ELSE Salts[k] % 251,
                 b1 |-> IF n = 0 THEN None ELSE (Salts[k] + n - 1) % 251,
                 h1 |-> IF n = 0 THEN 0 ELSE HashTab(BT1[k], n, M1),
                 h2 |-> IF n = 0 THEN 0 ELSE HashTab(BT2[k], n, M2)]

(* header value alphabets by byte class *)
Alnum == <<97, 98, 99, 100, 101, 102, 103, 104, 105, 106, 107, 108, 109, 110, 111, 112, 113, 114, 115, 116,
           117, 118, 119, 120, 121, 122, 48, 49, 50, 51, 52, 53, 54, 55, 56, 57>>
Punct == <<33, 35, 36, 37, 38, 39, 42, 43, 45, 46, 94, 95, 96, 124, 126, 34, 40, 41, 44, 47, 58, 59, 60,
           61, 62, 63, 64, 91, 92, 93, 123, 125, 65>>
WsIn  == <<97, 32, 98, 9, 99, 100, 32, 101>>
Obs   == <<128, 255, 160, 200, 233, 129, 254>>
Alphas == <<Alnum, Punct, WsIn, Obs>>
Alpha(cls) == Alphas[cls + 1]

(* value descriptor [cls, n, off]: byte i = Alpha(cls)[(off + i) mod period] *)
Rot(A, off) == Mat([i \in 1..Len(A) |-> A[((off + i - 1) % Len(A)) + 1]])
NOff == 7                                \* offsets in use: 0..6
VT1 == Mat([cl \in 1..4 |-> Mat([o \in 1..NOff |-> PrefTab(Rot(Alphas[cl], o - 1), M1, B1)])])
VT2 == Mat([cl \in 1..4 |-> Mat([o \in 1..NOff |-> PrefTab(Rot(Alphas[cl], o - 1), M2, B2)])])
ValFp(v) == LET A == Alpha(v.cls)
                o == v.off IN
            [n  |-> v.n,
             b0 |-> IF v.n = 0 THEN None ELSE A[o + 1],
             b1 |-> IF v.n = 0 THEN None ELSE A[((o + v.n - 1) % Len(A)) + 1],
             h1 |-> IF v.n = 0 THEN 0 ELSE HashTab(VT1[v.cls + 1][o + 1], v.n, M1),
             h2 |-> IF v.n = 0 THEN 0 ELSE HashTab(VT2[v.cls + 1][o + 1], v.n, M2)]
IsWs(b) == b = 32 \/ b = 9
ValValid(v) == LET A == Alpha(v.cls) IN
               v.n = 0 \/ (~IsWs(A[(v.off % Len(A)) + 1]) /\ ~IsWs(A[((v.off + v.n - 1) % Len(A)) + 1]))

(* ---------------- field names (byte sequences) ---------------- *)
Up(b) == IF b \in 97..122 THEN b - 32 ELSE b
Lo(b) == IF b \in 65..90 THEN b + 32 ELSE b
Canon(nm) == [i \in 1..Len(nm) |-> IF i = 1 \/ nm[i - 1] = 45 THEN Up(Lo(nm[i])) ELSE Lo(nm[i])]
LowerName(kind, j) == <<120, 45, 118, 102, 45, kind, 48 + (j \div 10), 48 + (j % 10)>>     \* "x-vf-<kind><jj>"
(* the application's spelling of the name: canonical, lower case, upper case *)
Spelled(nm, style) == CASE style = 0 -> Canon(nm) [] style = 1 -> nm [] OTHER -> [i \in 1..Len(nm) |-> Up(nm[i])]
IdName == <<120, 45, 118, 102, 45, 105, 100>>            \* "x-vf-id"

-----------------------------------------------------------------------------
(* ---------------- columns ---------------- *)
Dom == <<12, 12, 10, 9, 12, 12, 12, 10, 8, 12, 16, 12, 9, 12>>
DomOA == [Dom EXCEPT ![11] = 12]        \* (3 streams, cold) is left to the random walk

Methods  == <<"GET", "POST", "PUT", "HEAD">>
RECURSIVE Rep(_, _)
Rep(s, n) == IF n = 0 THEN "" ELSE s \o Rep(s, n - 1)
Paths    == <<"/", "/a/b%20c/d?x=1&y=%2F&z=", "/l/" \o Rep("0123456789abcdef", 24) \o "?q">>
HCounts  == <<0, 1, 3, 16>>
Statuses == <<200, 201, 404>>
LargeW   == IF Big = 1 THEN 4194304 ELSE 1048576
LargeF   == IF Big = 1 THEN 16777215 ELSE 262144
SWs      == <<1, 4097, 65535, LargeW>>
CWs      == <<65535, 100000, LargeW>>
MFs      == <<16384, 16385, LargeF>>
Tabs     == <<[d |-> 4096, e |-> 4096], [d |-> 64, e |-> 65536], [d |-> 65536, e |-> 64]>>
ParWarm  == <<[par |-> 1, warm |-> FALSE], [par |-> 1, warm |-> TRUE], [par |-> 3, warm |-> TRUE],
              [par |-> 3, warm |-> FALSE]>>

Min2(a, b) == IF a < b THEN a ELSE b

(* body length by class, from the windows and frame size the RECEIVER advertises.  With a    *)
(* tiny stream window every byte costs a round trip, so the frame-size classes are scaled to   *)
(* the unit u = min(mf, 64*sw) and the total is capped at 320*sw.                               *)
BodyLen(cl, mf, sw, cw) ==
    LET u   == Min2(mf, 64 * sw)
        raw == CASE cl = 0 -> 0 [] cl = 1 -> 1 [] cl = 2 -> u - 1 [] cl = 3 -> u [] cl = 4 -> u + 1
                 [] cl = 5 -> 3 * u + 7 [] cl = 6 -> 2 * sw + 3 [] OTHER -> cw + 4099
    IN IF sw < 4096 THEN Min2(raw, 320 * sw) ELSE raw

(* header / trailer group: count entries (0, 1, 3 with a two-valued field, 16 large ones), values   *)
(* of class cls (4 = mixed: class j mod 4, one empty value); stream number sh shifts offsets and    *)
(* lengths so that every stream carries different values                                            *)
ValLen(count, j, sh) == IF count = 16 THEN 1851 + 8 * ((j + sh) % 4) ELSE <<17, 1, 33>>[j + 1] + 8 * sh
ValDesc(count, cls, j, sh) ==
    LET k == IF cls = 4 THEN j % 4 ELSE cls IN
    [cls |-> k,
     n   |-> IF cls = 4 /\ j = 1 THEN 0 ELSE ValLen(count, j, sh),
     off |-> IF k = 2 THEN 0 ELSE (j + 5 * sh) % NOff]
(* styled = FALSE: the application uses the canonical spelling (http.Header.Set), as the server's      *)
(* declared-trailer API requires                                                                      *)
Group(kind, count, cls, sh, styled) ==
    LET St(x) == IF styled THEN x % 3 ELSE 0 IN
    IF count = 0 THEN <<>>
    ELSE IF count = 1 THEN <<[name |-> Spelled(LowerName(kind, 0), St(sh)), vals |-> <<ValDesc(1, cls, 0, sh)>>]>>
    ELSE IF count = 3 THEN <<[name |-> Spelled(LowerName(kind, 0), St(sh + 1)),
                              vals |-> <<ValDesc(3, cls, 0, sh), ValDesc(3, cls, 2, sh)>>],
                             [name |-> Spelled(LowerName(kind, 1), St(sh + 2)), vals |-> <<ValDesc(3, cls, 1, sh)>>]>>
    ELSE [j \in 1..count |-> [name |-> Spelled(LowerName(kind, j - 1), St(j + sh)),
                              vals |-> <<ValDesc(count, cls, j - 1, sh)>>]]
IdField(sh) == [name |-> IdName, vals |-> <<[cls |-> 0, n |-> 1, off |-> sh]>>]          \* "x-vf-id: a|b|c"

(* ---------------- the oracle ---------------- *)
SeenFields(g) == [i \in 1..Len(g) |-> LET f == g[i] IN
                                       [name |-> Canon(f.name), vals |-> [k \in 1..Len(f.vals) |-> ValFp(f.vals[k])]]]
(* names the peers may add on their own (canonical spelling, as strings) *)
ReqExtras  == <<"User-Agent", "Accept-Encoding", "Content-Length", "Trailer">>
RespExtras == <<"Date", "Content-Type", "Content-Length", "Trailer">>

Case(cc) ==
    LET method   == Methods[(cc[1] % 4) + 1]
        path     == Paths[(cc[1] \div 4) + 1]
        qhc      == HCounts[(cc[2] % 4) + 1]
        order0   == cc[2] \div 4
        qcls     == cc[3] % 5
        qdecl    == cc[3] \div 5 = 1
        qblc     == cc[4]
        qchunk   == cc[5] % 4
        status   == Statuses[(cc[5] \div 4) + 1]
        qtc      == HCounts[(cc[6] % 4) + 1]
        cliRead  == cc[6] \div 4
        phc      == HCounts[(cc[7] % 4) + 1]
        srvTab   == Tabs[(cc[7] \div 4) + 1]
        pcls     == cc[8] % 5
        pdecl    == cc[8] \div 5 = 1
        pblc     == cc[9]
        pchunk   == cc[10] % 4
        cliTab   == Tabs[(cc[10] \div 4) + 1]
        ptc      == HCounts[(cc[11] % 4) + 1]
        pw       == ParWarm[(cc[11] \div 4) + 1]
        srv      == [sw |-> SWs[(cc[12] % 4) + 1], cw |-> CWs[(cc[12] \div 4) + 1], mf |-> MFs[(cc[13] % 3) + 1],
                     dtab |-> srvTab.d, etab |-> srvTab.e]
        cli      == [sw |-> SWs[(cc[14] % 4) + 1], cw |-> CWs[(cc[14] \div 4) + 1], mf |-> MFs[(cc[13] \div 3) + 1],
                     dtab |-> cliTab.d, etab |-> cliTab.e]
        (* handler order 1 (respond first) and 2 (interleaved) only where the peers keep the exchange    *)
        (* full duplex: the Transport stops sending the request body once it sees a status > 299, and    *)
        (* a HEAD response is complete (RST_STREAM NO_ERROR may follow) as soon as its headers are out   *)
        order    == IF method = "HEAD" \/ status > 299 THEN 0 ELSE order0
        hasBody  == qblc > 0
        qlen     == IF hasBody THEN BodyLen(qblc - 1, srv.mf, srv.sw, srv.cw) ELSE 0
        plen     == BodyLen(pblc, cli.mf, cli.sw, cli.cw)
        qtrl     == IF hasBody THEN qtc ELSE 0                  \* request trailers need a body
        isHead   == method = "HEAD"
        Stream(sh) ==
            LET rsalt == Salts[sh + 1]
                psalt == Salts[sh + 4]
                qh == <<IdField(sh)>> \o Group(113, qhc, qcls, sh, TRUE)       \* 'q'
                qt == Group(116, qtrl, qcls, sh + 1, TRUE)                       \* 't'
                ph == <<IdField(sh)>> \o Group(112, phc, pcls, sh + 2, TRUE)   \* 'p'
                pt == Group(117, ptc, pcls, sh + 3, FALSE)                        \* 'u'
            IN [in  |-> [rsalt |-> rsalt, psalt |-> psalt, qh |-> qh, qt |-> qt, ph |-> ph, pt |-> pt],
                exp |-> [handler |-> [method |-> method, uri |-> path, host |-> "vf.test", proto |-> "HTTP/2.0",
                                      cl |-> IF ~hasBody THEN 0 ELSE IF qdecl /\ qlen > 0 THEN qlen ELSE 0 - 1,
                                      hdrs |-> SeenFields(qh), extras |-> ReqExtras,
                                      body |-> BodyFp(sh + 1, qlen),
                                      trls |-> SeenFields(qt)],
                         client  |-> [status |-> status,
                                      cl |-> IF pdecl THEN <<plen>> ELSE <<0 - 1, plen>>,
                                      hdrs |-> SeenFields(ph), extras |-> RespExtras,
                                      body |-> BodyFp(sh + 4, IF isHead THEN 0 ELSE plen),
                                      trls |-> IF isHead THEN <<>> ELSE SeenFields(pt)]]]
    IN [id  |-> cc,
        in  |-> [method |-> method, path |-> path, host |-> "vf.test", warm |-> pw.warm, par |-> pw.par,
                 order |-> order, cliRead |-> cliRead, srv |-> srv, cli |-> cli,
                 req  |-> [hasBody |-> hasBody, declared |-> qdecl, len |-> qlen, chunk |-> qchunk],
                 resp |-> [status |-> status, declared |-> pdecl, len |-> plen, chunk |-> pchunk]],
        streams |-> SubSeq([s \in 1..pw.par |-> Stream(s - 1)], 1, pw.par)]     \* SubSeq: evaluate once

(* every generated field value is a legal one (no leading / trailing white space) and the two    *)
(* digests are within range                                                                       *)
FieldsOK(item) ==
    \A s \in 1..Len(item.streams) :
       \A g \in {item.streams[s].in.qh, item.streams[s].in.qt, item.streams[s].in.ph, item.streams[s].in.pt} :
          \A i \in 1..Len(g) : \A k \in 1..Len(g[i].vals) : ValValid(g[i].vals[k])

(* self-test of the closed-form digests against the plain fold on short strings *)
Lin(s, M, B) == LET f[i \in 0..Len(s)] == IF i = 0 THEN 0 ELSE (f[i - 1] * B + s[i] + 1) % M
                IN f[Len(s)]
ASSUME \A cls \in 0..3, off \in {0, 3, 6}, n \in {1, 2, 6, 7, 8, 9, 33, 36, 37, 40} :
          LET v   == [cls |-> cls, n |-> n, off |-> off]
              A   == Alpha(cls)
              lin == [i \in 1..n |-> A[((off + i - 1) % Len(A)) + 1]] IN
          /\ ValFp(v).h1 = Lin(lin, M1, B1) /\ ValFp(v).h2 = Lin(lin, M2, B2)
          /\ ValFp(v).b0 = lin[1] /\ ValFp(v).b1 = lin[n]
ASSUME \A k \in {1, 6}, n \in {1, 2, 100, 120} :
          LET lin == [i \in 1..n |-> (Salts[k] + i - 1) % 251] IN
          /\ BodyFp(k, n).h1 = Lin(lin, M1, B1) /\ BodyFp(k, n).h2 = Lin(lin, M2, B2)
          /\ BodyFp(k, n).b0 = lin[1] /\ BodyFp(k, n).b1 = lin[n]
(* ... and of the period arithmetic: n bytes, then m bytes = n + m bytes (n a multiple of the period) *)
ASSUME \A n \in {251, 502, 251 * 4000}, m \in {0, 1, 250} :
          LET x == BodyFp(2, n).h1
              y == IF m = 0 THEN x ELSE (BT1[2][m][1] * x + BT1[2][m][2]) % M1 IN
          BodyFp(2, n + m).h1 = y

-----------------------------------------------------------------------------
(* ---------------- enumeration ---------------- *)
Raw(i, k, j) == IF j = 1 THEN i ELSE IF j = 2 THEN k ELSE (i + (j - 2) * k) % P
Row(i, k, r) == [j \in 1..NCols |-> ((Raw(i, k, j) + r * j) % P) % DomOA[j]]

(* two levels, so that TLC's workers share the evaluation of the cases *)
OAInit == c \in {<<i>> : i \in 0..(P - 1)}
OANext == Len(c) = 1 /\ \E k \in 0..(P - 1), r \in Rots : c' = Row(c[1], k, r)
OASpec == OAInit /\ [][OANext]_c

(* The walk ends with one more step that marks the tuple complete (TLC's simulator evaluates the     *)
(* invariant on every successor it generates, so the printing state must be the only successor).      *)
WalkInit == c = <<>>
WalkNext == \/ Len(c) < NCols /\ \E v \in 0..(Dom[Len(c) + 1] - 1) : c' = Append(c, v)
            \/ Len(c) = NCols /\ c' = Append(c, 0)
WalkSpec == WalkInit /\ [][WalkNext]_c

Emit == LET cc == IF WalkMode THEN (IF Len(c) = NCols + 1 THEN SubSeq(c, 1, NCols) ELSE <<>>)
                  ELSE (IF Len(c) = NCols THEN c ELSE <<>>) IN
        cc # <<>> => LET item == Case(cc) IN FieldsOK(item) /\ PrintT(<<"CASE", ToJson(item)>>)

(* pairwise coverage of the plain array: every two columns show every pair of their values *)
ASSUME P + 1 >= NCols /\ \A j \in 1..NCols : DomOA[j] <= P
ASSUME LET Rows == {Row(i, k, 0) : i \in 0..(P - 1), k \in 0..(P - 1)} IN
       \A j1 \in 1..NCols, j2 \in 1..NCols : j1 < j2 =>
          Cardinality({<<r[j1], r[j2]>> : r \in Rows}) = DomOA[j1] * DomOA[j2]
=============================================================================
