\* X09 quick: RFC behaviour (no deviation), 3 peer streams, 1 control frame
SPECIFICATION Spec
CONSTANTS
  Uni = {u1, u2, u3}
  NoStream = NoStream
  MaxFrames = 1
  MaxReq = 0
  FrameSet <- FramesTiny
  Devs = {}
SYMMETRY Sym
VIEW mcView
INVARIANTS TypeOK AtMostOneCritical ClosedIsQuiet NoFalseClosure NoMissedViolation CodeMatchesCause GoawayBoundsRequests SettingsOnlyFirst
PROPERTIES FirstCauseSticks NoLateStart
CHECK_DEADLOCK FALSE
