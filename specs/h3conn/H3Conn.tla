------------------------------- MODULE H3Conn -------------------------------
(* HTTP/3 connection-level stream rules of golang.org/x/net/internal/http3      *)
(* (conn.go genericConn, transport.go clientConn, server.go serverConn,         *)
(* settings.go) against RFC 9114 sections 6.1, 6.2, 6.2.1-6.2.3, 7.2.3-7.2.8,   *)
(* 5.2 and 8 (properties X09 and X10, see PROPERTIES.md).                        *)
(*                                                                              *)
(* One endpoint (role client or server) is modelled; the *peer* is arbitrary.   *)
(* Every action is one event seen by the endpoint: the peer opens a              *)
(* unidirectional stream, sends (part of) its type varint, sends a frame or a    *)
(* cut-off frame on its control stream, ends a stream with FIN or RESET_STREAM,  *)
(* opens a bidirectional stream; or the local application starts the             *)
(* connection, issues a request, shuts the server down.  An event and the        *)
(* endpoint's reaction are one atomic step: reactions of different streams may   *)
(* interleave in any order, which is what one goroutine per stream gives.        *)
(*                                                                              *)
(* Where RFC 9114 leaves a choice (abort or drain a stream of unknown type,      *)
(* which of two applicable error codes, MAY reject duplicate settings) the       *)
(* action is nondeterministic.  Where golang/net knowingly or unknowingly does   *)
(* something else, the behaviour is a *named deviation*: an extra disjunct,      *)
(* enabled only when its name is in the constant Devs, which records the name    *)
(* in s.dev (ever taken) and s.nd (taken in this step).  With Devs = {} the      *)
(* specification is the RFC.                                                     *)
EXTENDS Integers, Sequences, FiniteSets, TLC

CONSTANTS
    Uni,         \* peer-initiated unidirectional streams (model values with symmetry, or 1..n in traces)
    NoStream,    \* "no such stream" (not in Uni)
    MaxFrames,   \* frames (whole or cut off) the peer puts on its control stream
    MaxReq,      \* request streams opened by the peer (server) / RoundTrip calls (client)
    FrameSet,    \* the frames the peer may send (a subset of Frames; keeps exhaustive runs small)
    Devs         \* named deviations enabled

VARIABLE s       \* the whole state, one record (fields below)

Roles    == {"client", "server"}
Critical == {"ctl", "enc", "dec"}
STypes   == Critical \cup {"push", "unk"}

\* HTTP/3 error codes (RFC 9114 8.1)
QUIC_NO_ERROR            == 1      \* the connection was closed at the transport level without an error (not an HTTP/3 code)
H3_NO_ERROR              == 256
H3_STREAM_CREATION_ERROR == 259
H3_CLOSED_CRITICAL_STREAM == 260
H3_FRAME_UNEXPECTED      == 261
H3_FRAME_ERROR           == 262
H3_ID_ERROR              == 264
H3_SETTINGS_ERROR        == 265
H3_MISSING_SETTINGS      == 266

\* Named deviations.  F-*: contradict a MUST of RFC 9114 that the code claims to implement or that
\* breaks a conforming peer (findings).  T*: rules the code knowingly lacks (TODO) or never claims.
F5  == "F-H3-5:uni-stream-ended-before-its-header-closes-the-connection"
F6a == "F-H3-6:control-stream-reset-ignored"
F6b == "F-H3-6:control-stream-fin-inside-frame-ignored"
F7  == "F-H3-7:server-rejects-MAX_PUSH_ID"
F8  == "F-H3-8:GOAWAY-names-a-request-that-is-being-processed"
T1  == "T1:qpack-streams-not-read"
T2  == "T2:GOAWAY-ends-control-stream-processing"
T3  == "T3:http2-reserved-frame-types-ignored"
T4  == "T4:client-sends-requests-after-GOAWAY"
Findings  == {F5, F6a, F6b, F7, F8}
Tolerated == {T1, T2, T3, T4}
AllDevs   == Findings \cup Tolerated

\* Frames on a control stream, by class.
\*   S_ok   SETTINGS with known identifiers (or empty)    S_unk  SETTINGS with unknown / reserved-for-grease identifiers
\*   S_h2   SETTINGS with an HTTP/2 identifier 0x02..0x05  S_dup  SETTINGS naming one identifier twice
\*   S_bad  SETTINGS whose last pair runs past the frame   UNK    unknown / grease frame type
\*   H2RES  HTTP/2 frame type without HTTP/3 equivalent (0x02, 0x06, 0x08, 0x09)
SettingsKinds == {"S_ok", "S_unk", "S_h2", "S_dup", "S_bad"}
RequestKinds  == {"DATA", "HEADERS", "PUSH_PROMISE"}
PlainKinds    == SettingsKinds \cup RequestKinds \cup {"CANCEL_PUSH", "UNK", "H2RES"}
Vals          == 0..2                    \* abstract ids carried by GOAWAY and MAX_PUSH_ID (only their order matters)
Frames == [k : PlainKinds \ {"S_h2"}, v : {0}, w : {FALSE}]
          \cup [k : {"S_h2"}, v : 0..3, w : {FALSE}]         \* v: which of the identifiers 0x02 + v
          \cup [k : {"MAX_PUSH_ID"}, v : Vals, w : {FALSE}]
          \cup [k : {"GOAWAY"}, v : Vals, w : BOOLEAN]     \* w: the id is not a client-initiated bidirectional stream id
Cuts == {"type", "tyonly", "len", "pay"}   \* where a cut-off frame stops (inside the type varint, after it, ...)

None == 0 - 1

-----------------------------------------------------------------------------
(* State.                                                                       *)
(*  peer side (facts about what the peer did):                                  *)
(*    ps[i]  none / open / fin / reset   send side of peer stream i             *)
(*    hd[i]  no / part / yes             how much of the type varint arrived    *)
(*    ty[i]  stream type class once hd[i] = yes                                 *)
(*    cp     the control stream holds a cut-off frame                           *)
(*    cfr    frames processed on the control stream (ghost, for the invariants) *)
(*    nf     frames sent on the control stream;  bidi, nrq  other peer streams  *)
(*  endpoint:                                                                   *)
(*    own[c] the stream accepted as the peer's control/encoder/decoder stream   *)
(*    ab     streams whose reading the endpoint aborted (STOP_SENDING)          *)
(*    cs     none / want (SETTINGS) / ready / dead (nobody reads it any more)   *)
(*    seen   peer's SETTINGS accepted;  gaR, mp  last GOAWAY / MAX_PUSH_ID      *)
(*    acc, rej  requests handed to a handler / rejected (server)                *)
(*    started, pend (blocked API calls), nreq, gaS (GOAWAY sent), shut          *)
(*    cerr   error code the connection was closed with (0: open)                *)
(*    dev, nd, tag   deviations taken ever / in this step; outcome of the step  *)
InitRec(r) ==
    [role |-> r, started |-> FALSE,
     ps |-> [i \in Uni |-> "none"], hd |-> [i \in Uni |-> "no"], ty |-> [i \in Uni |-> "-"],
     cp |-> FALSE, cfr |-> <<>>, nf |-> 0, bidi |-> FALSE, nrq |-> 0,
     own |-> [c \in Critical |-> NoStream], ab |-> {}, cs |-> "none", seen |-> FALSE,
     gaR |-> None, mp |-> None, acc |-> {}, rej |-> {},
     pend |-> 0, nreq |-> 0, gaS |-> None, shut |-> "no",
     cerr |-> 0, dev |-> {}, nd |-> {}, tag |-> "init"]

Init == \E r \in Roles : s = InitRec(r)

Alive == s.started /\ s.cerr = 0

\* closing the connection makes every blocked API call return
Close(r, code) == [r EXCEPT !.cerr = code, !.pend = 0]
\* bookkeeping applied last: outcome tag and deviations of this step
Out(r, tag, nds) == [r EXCEPT !.tag = tag, !.nd = nds, !.dev = r.dev \cup nds]
On(d) == d \in Devs

-----------------------------------------------------------------------------
(* Local start-up (RFC 9114 6.2.1): the endpoint opens its control stream and sends SETTINGS  *)
(* before anything else happens on the connection.                                            *)
Start ==
    /\ ~s.started
    /\ s' = Out([s EXCEPT !.started = TRUE], "start", {})

-----------------------------------------------------------------------------
(* Peer: unidirectional streams (6.2).                                                        *)
PeerOpen(i) ==
    /\ Alive /\ s.ps[i] = "none"
    /\ s' = Out([s EXCEPT !.ps[i] = "open"], "open", {})

\* first octets of a multi-octet type varint
PeerHdrPart(i) ==
    /\ Alive /\ s.ps[i] = "open" /\ s.hd[i] = "no"
    /\ s' = Out([s EXCEPT !.hd[i] = "part"], "hpart", {})

\* the type varint is complete: dispatch on the type
HdrOutcomes(i, t) ==
    LET r == [s EXCEPT !.hd[i] = "yes", !.ty[i] = t] IN
    IF t \in Critical THEN
        IF s.own[t] # NoStream
        THEN \* "Only one control stream per peer is permitted; receipt of a second stream claiming to be a
             \*  control stream MUST be treated as a connection error of type H3_STREAM_CREATION_ERROR" (6.2.1; RFC 9204 4.2)
             {Out(Close(r, H3_STREAM_CREATION_ERROR), "hdr/duplicate-" \o t, {})}
        ELSE LET a == [r EXCEPT !.own[t] = i, !.cs = IF t = "ctl" THEN "want" ELSE r.cs] IN
             IF t = "ctl" THEN {Out(a, "hdr/ctl", {})}
             ELSE {Out(a, "hdr/qpack", {})}
                  \* golang/net: handleEncoderStream / handleDecoderStream are TODO: reading is aborted at once
                  \cup (IF On(T1) THEN {Out([a EXCEPT !.ab = a.ab \cup {i}], "hdr/qpack-unread", {T1})} ELSE {})
    ELSE IF t = "push" THEN
        \* client: no MAX_PUSH_ID was ever sent (4.6: H3_ID_ERROR); server: 6.2.2 H3_STREAM_CREATION_ERROR
        {Out(Close(r, IF s.role = "client" THEN H3_ID_ERROR ELSE H3_STREAM_CREATION_ERROR), "hdr/push", {})}
    ELSE \* unknown type: "MUST either abort reading of the stream or discard incoming data", never a connection error
        {Out(r, "hdr/unknown-drained", {}), Out([r EXCEPT !.ab = r.ab \cup {i}], "hdr/unknown-aborted", {})}

PeerHdr(i, t) ==
    /\ Alive /\ s.ps[i] = "open" /\ s.hd[i] \in {"no", "part"}
    /\ s' \in HdrOutcomes(i, t)

\* octets on a stream of unknown type: ignored
PeerData(i) ==
    /\ Alive /\ s.ps[i] = "open" /\ s.hd[i] = "yes" /\ s.ty[i] = "unk"
    /\ s' = Out(s, "data", {})

\* FIN (how = "fin") or RESET_STREAM (how = "reset") of peer stream i
EndOutcomes(i, how) ==
    LET r == [s EXCEPT !.ps[i] = how] IN
    IF s.hd[i] # "yes" THEN
        \* "A receiver MUST tolerate unidirectional streams being closed or reset prior to the reception of the
        \*  unidirectional stream header." (6.2)
        {Out(r, "end/no-header", {})}
        \cup (IF On(F5) THEN {Out(Close(r, H3_STREAM_CREATION_ERROR), "end/no-header-closes", {F5})} ELSE {})
    ELSE IF s.ty[i] \notin Critical \/ s.own[s.ty[i]] # i THEN {Out(r, "end/other", {})}
    ELSE IF s.ty[i] # "ctl" THEN
        \* RFC 9204 4.2: closure of an encoder / decoder stream is H3_CLOSED_CRITICAL_STREAM
        {Out(Close(r, H3_CLOSED_CRITICAL_STREAM), "end/qpack", {})}
        \cup (IF On(T1) /\ i \in s.ab THEN {Out(r, "end/qpack-unread", {T1})} ELSE {})
    ELSE \* the control stream (6.2.1: "If either control stream is closed at any point, this MUST be treated as a
         \*  connection error of type H3_CLOSED_CRITICAL_STREAM"; a cut-off frame is also H3_FRAME_ERROR (7.1), a
         \*  stream without SETTINGS also H3_MISSING_SETTINGS)
        IF s.cs = "dead" THEN {Out(r, "end/ctl-dead", {})}     \* only after T2 / F6: nobody reads the stream
        ELSE LET codes == {H3_CLOSED_CRITICAL_STREAM}
                          \cup (IF s.cs = "want" THEN {H3_MISSING_SETTINGS} ELSE {})
                          \cup (IF s.cp THEN {H3_FRAME_ERROR} ELSE {})
             IN  {Out(Close(r, c), "end/ctl", {}) : c \in codes}
                 \cup (IF how = "reset" /\ On(F6a) /\ (s.cs = "ready" \/ s.cp)
                       THEN {Out([r EXCEPT !.cs = "dead"], "end/ctl-reset-ignored", {F6a})} ELSE {})
                 \cup (IF how = "fin" /\ On(F6b) /\ s.cp
                       THEN {Out([r EXCEPT !.cs = "dead"], "end/ctl-fin-in-frame-ignored", {F6b})} ELSE {})

PeerEnd(i, how) ==
    /\ Alive /\ s.ps[i] = "open"
    /\ s' \in EndOutcomes(i, how)

-----------------------------------------------------------------------------
(* Peer: frames on its control stream (6.2.1, 7.2).                                           *)
CtlOpen == s.own["ctl"] # NoStream /\ s.ps[s.own["ctl"]] = "open" /\ ~s.cp

FrameOutcomes(f) ==
    LET r == [s EXCEPT !.nf = s.nf + 1, !.cfr = Append(s.cfr, f)] IN
    IF s.cs = "dead" THEN {Out([s EXCEPT !.nf = s.nf + 1], "frame/unread", {})}
    ELSE IF s.cs = "want" THEN
        \* "A SETTINGS frame MUST be sent as the first frame of each control stream" (7.2.4);
        \* "If the first frame of the control stream is any other frame type, this MUST be treated as a
        \*  connection error of type H3_MISSING_SETTINGS" (6.2.1)
        CASE f.k \in {"S_ok", "S_unk"} -> {Out([r EXCEPT !.cs = "ready", !.seen = TRUE], "frame/settings", {})}
          [] f.k = "S_dup" -> \* "A receiver MAY treat the presence of duplicate setting identifiers as ... H3_SETTINGS_ERROR"
                 {Out([r EXCEPT !.cs = "ready", !.seen = TRUE], "frame/settings-dup-accepted", {}),
                  Out(Close(r, H3_SETTINGS_ERROR), "frame/settings-dup-rejected", {})}
          [] f.k = "S_h2"  -> {Out(Close(r, H3_SETTINGS_ERROR), "frame/settings-http2-id", {})}     \* 7.2.4.1
          [] f.k = "S_bad" -> {Out(Close(r, H3_FRAME_ERROR), "frame/settings-malformed", {})}       \* 7.1
          [] OTHER -> {Out(Close(r, H3_MISSING_SETTINGS), "frame/missing-settings", {})}
    ELSE \* ready
        CASE f.k \in SettingsKinds -> \* "If an endpoint receives a second SETTINGS frame on the control stream, the endpoint
                                      \*  MUST respond with a connection error of type H3_FRAME_UNEXPECTED" (7.2.4)
                 {Out(Close(r, H3_FRAME_UNEXPECTED), "frame/second-settings", {})}
          [] f.k \in RequestKinds -> {Out(Close(r, H3_FRAME_UNEXPECTED), "frame/request-frame", {})}   \* 7.2.1, 7.2.2, 7.2.5
          [] f.k = "CANCEL_PUSH" -> \* no push id was ever allowed / promised on this connection (7.2.3)
                 {Out(Close(r, H3_ID_ERROR), "frame/cancel-push", {})}
          [] f.k = "MAX_PUSH_ID" ->
                 IF s.role = "client"
                 THEN {Out(Close(r, H3_FRAME_UNEXPECTED), "frame/max-push-id-at-client", {})}          \* 7.2.7
                 ELSE (IF s.mp # None /\ f.v < s.mp
                       THEN {Out(Close(r, H3_ID_ERROR), "frame/max-push-id-reduced", {})}
                       ELSE {Out([r EXCEPT !.mp = f.v], "frame/max-push-id", {})})
                      \cup (IF On(F7) THEN {Out(Close(r, H3_FRAME_UNEXPECTED), "frame/max-push-id-rejected", {F7})} ELSE {})
          [] f.k = "GOAWAY" -> \* 5.2, 7.2.6: id of a client-initiated bidirectional stream (at a client), never increasing
                 (IF (s.role = "client" /\ f.w) \/ (s.gaR # None /\ f.v > s.gaR)
                  THEN {Out(Close(r, H3_ID_ERROR), "frame/goaway-bad-id", {})}
                  ELSE {Out([r EXCEPT !.gaR = f.v], "frame/goaway", {})})
                 \* golang/net: the control stream handler returns at the first GOAWAY (payload unread, reading aborted)
                 \cup (IF On(T2)
                       THEN {Out([r EXCEPT !.gaR = IF s.gaR = None THEN f.v ELSE s.gaR, !.cs = "dead",
                                           !.ab = r.ab \cup {s.own["ctl"]}], "frame/goaway-stops-reading", {T2})}
                       ELSE {})
          [] f.k = "UNK" -> {Out(r, "frame/unknown-skipped", {})}                                      \* 7.2.8, 9
          [] OTHER -> \* H2RES: "their receipt MUST be treated as a connection error of type H3_FRAME_UNEXPECTED" (7.2.8)
                 {Out(Close(r, H3_FRAME_UNEXPECTED), "frame/http2-type", {})}
                 \cup (IF On(T3) THEN {Out(r, "frame/http2-type-skipped", {T3})} ELSE {})

PeerFrame(f) ==
    /\ Alive /\ CtlOpen /\ s.nf < MaxFrames
    /\ s' \in FrameOutcomes(f)

\* a frame that stops short (the rest may never come): no reaction is due until the stream ends.  In state
\* "want" the cut-off frame is a SETTINGS frame (or stops inside its type), in state "ready" one of unknown type,
\* so that nothing in the octets that did arrive calls for an error.
PeerFramePart(w) ==
    /\ Alive /\ CtlOpen /\ s.nf < MaxFrames
    /\ s' = Out([s EXCEPT !.cp = TRUE, !.nf = s.nf + 1], "fpart", {})

-----------------------------------------------------------------------------
(* Peer: bidirectional streams.                                                               *)
\* "Clients MUST treat receipt of a server-initiated bidirectional stream as a connection error of type
\*  H3_STREAM_CREATION_ERROR" (6.1)
PeerBidi ==
    /\ Alive /\ s.role = "client" /\ ~s.bidi
    /\ s' = Out(Close([s EXCEPT !.bidi = TRUE], H3_STREAM_CREATION_ERROR), "bidi", {})

\* a request stream (server): handed to a handler, which then blocks reading the request body; or, once
\* GOAWAY(g) was sent, rejected when its id is g or greater (5.2)
PeerRequest ==
    /\ Alive /\ s.role = "server" /\ s.nrq < MaxReq
    /\ LET k == s.nrq
           r == [s EXCEPT !.nrq = k + 1] IN
       s' = IF s.gaS # None /\ k >= s.gaS
            THEN Out([r EXCEPT !.rej = r.rej \cup {k}], "req/rejected", {})
            ELSE Out([r EXCEPT !.acc = r.acc \cup {k}, !.pend = r.pend + 1], "req/handled", {})

-----------------------------------------------------------------------------
(* Local application.                                                                         *)
\* client: RoundTrip.  The request is sent and the call blocks (the peer never answers); after a GOAWAY
\* "Clients MUST NOT send new requests on the connection" (5.2): the call fails.
LocalRoundTrip ==
    /\ Alive /\ s.role = "client" /\ s.nreq < MaxReq
    /\ LET r == [s EXCEPT !.nreq = s.nreq + 1] IN
       s' \in (IF s.gaR = None THEN {Out([r EXCEPT !.pend = r.pend + 1], "rt/blocked", {})}
               ELSE {Out(r, "rt/refused", {})}
                    \cup (IF On(T4) THEN {Out([r EXCEPT !.pend = r.pend + 1], "rt/after-goaway", {T4})} ELSE {}))

\* server: graceful shutdown sends GOAWAY(g): "Requests ... with the indicated identifier or greater are rejected
\* by the sender of the GOAWAY" and may be retried by the client, so every request already handed to a handler is
\* below g.  (g counts request streams: stream id = 4 g.)
LocalGoaway(g) ==
    /\ Alive /\ s.role = "server" /\ s.shut = "no"
    /\ LET r == [s EXCEPT !.shut = "goaway", !.gaS = g] IN
       \/ /\ (\A a \in s.acc : a < g) = TRUE
          /\ s' = Out(r, "goaway", {})
       \/ /\ On(F8) /\ s.acc # {} /\ (\A a \in s.acc : a <= g) = TRUE /\ g \in s.acc
          /\ s' = Out(r, "goaway-names-accepted", {F8})

\* "Servers SHOULD send a GOAWAY frame" - one that does not still starts its shutdown
LocalShutdownSilent ==
    /\ Alive /\ s.role = "server" /\ s.shut = "no"
    /\ s' = Out([s EXCEPT !.shut = "goaway"], "shutdown-silent", {})

\* server: the shutdown deadline passes: the connection is closed, "SHOULD use the H3_NO_ERROR error code" (5.2);
\* golang/net closes the QUIC endpoint at the same moment, and now and then that transport-level close wins
LocalShutdownEnd ==
    /\ Alive /\ s.role = "server" /\ s.shut = "goaway"
    /\ LET r == [s EXCEPT !.shut = "done"] IN
       s' \in {Out(Close(r, H3_NO_ERROR), "shutdown-end", {}), Out(Close(r, QUIC_NO_ERROR), "shutdown-end-transport", {})}

-----------------------------------------------------------------------------
Next ==
    \/ Start
    \/ \E i \in Uni : PeerOpen(i) \/ PeerHdrPart(i) \/ PeerData(i)
    \/ \E i \in Uni, t \in STypes : PeerHdr(i, t)
    \/ \E i \in Uni, how \in {"fin", "reset"} : PeerEnd(i, how)
    \/ \E f \in FrameSet : PeerFrame(f)
    \/ \E w \in Cuts : PeerFramePart(w)
    \/ PeerBidi \/ PeerRequest \/ LocalRoundTrip
    \/ \E g \in 0..MaxReq : LocalGoaway(g)
    \/ LocalShutdownSilent \/ LocalShutdownEnd

Spec == Init /\ [][Next]_s

-----------------------------------------------------------------------------
(* Design-level properties.  They are stated over the facts about the peer (ps, hd, ty, cfr, cp, bidi)    *)
(* and the endpoint's verdict (cerr, own), independently of the case analysis inside the actions.         *)

TypeOK ==
    /\ FrameSet \subseteq Frames
    /\ s.role \in Roles /\ s.cs \in {"none", "want", "ready", "dead"}
    /\ s.ab \subseteq Uni /\ s.pend \in 0..MaxReq /\ s.dev \subseteq Devs /\ s.nd \subseteq s.dev
    /\ \A c \in Critical : s.own[c] \in Uni \cup {NoStream}

Typed(i, t) == s.hd[i] = "yes" /\ s.ty[i] = t

\* X09: at most one control / encoder / decoder stream is ever accepted, it is the first one of its type that
\* completed its header, and a connection on which a second one appeared is closed.  (Holds with every deviation.)
AtMostOneCritical ==
    \A c \in Critical :
       /\ (s.own[c] # NoStream) => Typed(s.own[c], c)
       /\ \A i \in Uni : (Typed(i, c) /\ s.own[c] # i) => (s.cerr # 0 /\ s.own[c] # NoStream)

\* X09 / X10: a closed connection stays closed with its first cause, nothing is blocked on it.
ClosedIsQuiet == s.cerr # 0 => s.pend = 0

\* The control-stream history is legal (RFC 9114 6.2.1, 7.2): SETTINGS first and once, no request frames,
\* no CANCEL_PUSH (nothing was ever promised), MAX_PUSH_ID only towards a server and never reduced,
\* GOAWAY ids of the right kind and never increased, no HTTP/2-only frame types.
LegalFrameAt(n) ==
    LET f == s.cfr[n] IN
    IF n = 1 THEN f.k \in {"S_ok", "S_unk", "S_dup"}
    ELSE CASE f.k = "UNK" -> TRUE
           [] f.k = "MAX_PUSH_ID" -> s.role = "server" /\ \A m \in 1..(n - 1) : s.cfr[m].k = "MAX_PUSH_ID" => s.cfr[m].v <= f.v
           [] f.k = "GOAWAY" -> ~(s.role = "client" /\ f.w) /\ \A m \in 1..(n - 1) : s.cfr[m].k = "GOAWAY" => s.cfr[m].v >= f.v
           [] OTHER -> FALSE
LegalControl == \A n \in 1..Len(s.cfr) : LegalFrameAt(n)

\* Everything the peer did is allowed by RFC 9114.
LegalPeer ==
    /\ \A c \in Critical : Cardinality({i \in Uni : Typed(i, c)}) <= 1
    /\ \A i \in Uni : ~Typed(i, "push")
    /\ \A c \in Critical, i \in Uni : Typed(i, c) => s.ps[i] = "open"
    /\ LegalControl /\ ~s.cp /\ ~s.bidi
    /\ \A f \in {s.cfr[n] : n \in 1..Len(s.cfr)} : f.k # "S_dup"      \* a peer that wants no MAY-rejection

\* X09 + X10, both directions, for an endpoint without deviations:
\* (a) no false alarm: a legal peer never gets the connection closed (other than by the local shutdown);
\* (b) no miss: while the connection is open, nothing illegal has happened, every accepted critical stream is
\*     still open and still being read.
NoFalseClosure == (s.dev = {} /\ LegalPeer /\ s.shut # "done") => s.cerr = 0
NoMissedViolation ==
    (s.dev = {} /\ s.cerr = 0) =>
        /\ \A c \in Critical : Cardinality({i \in Uni : Typed(i, c)}) <= 1
        /\ \A i \in Uni : ~Typed(i, "push")
        /\ \A c \in Critical : s.own[c] # NoStream => (s.ps[s.own[c]] = "open" /\ s.own[c] \notin s.ab)
        /\ LegalControl /\ ~s.bidi
        /\ s.cs # "dead"

\* X09: streams of unknown type and streams that end before their header never hurt the connection: implied by
\* NoFalseClosure (such a peer is legal).  The error code is the one the RFC names for the first violation:
CodeMatchesCause ==
    (s.dev = {} /\ s.cerr # 0 /\ s.shut # "done") =>
        \/ s.cerr = H3_STREAM_CREATION_ERROR
             /\ (s.bidi \/ \E c \in Critical : Cardinality({i \in Uni : Typed(i, c)}) > 1
                        \/ (s.role = "server" /\ \E i \in Uni : Typed(i, "push")))
        \/ s.cerr = H3_ID_ERROR
             /\ ((s.role = "client" /\ \E i \in Uni : Typed(i, "push"))
                 \/ (s.cfr # <<>> /\ s.cfr[Len(s.cfr)].k \in {"CANCEL_PUSH", "GOAWAY", "MAX_PUSH_ID"}))
        \/ s.cerr = H3_CLOSED_CRITICAL_STREAM /\ \E c \in Critical : s.own[c] # NoStream /\ s.ps[s.own[c]] # "open"
        \/ s.cerr = H3_MISSING_SETTINGS /\ ~s.seen /\ s.own["ctl"] # NoStream
        \/ s.cerr = H3_FRAME_ERROR /\ (s.cp \/ (s.cfr # <<>> /\ s.cfr[Len(s.cfr)].k = "S_bad"))
        \/ s.cerr = H3_SETTINGS_ERROR /\ Len(s.cfr) = 1 /\ s.cfr[1].k \in {"S_h2", "S_dup"}
        \/ s.cerr = H3_FRAME_UNEXPECTED /\ s.seen /\ Len(s.cfr) > 1 /\ ~LegalFrameAt(Len(s.cfr))

\* X10 (server shutdown): a request that a handler got is below the GOAWAY id, a rejected one is not.
GoawayBoundsRequests ==
    (s.gaS # None /\ F8 \notin s.dev) => ((\A a \in s.acc : a < s.gaS) /\ (\A x \in s.rej : x >= s.gaS))

\* X10: settings are accepted only from the first frame of the control stream
SettingsOnlyFirst == s.seen => (s.cfr # <<>> /\ s.cfr[1].k \in {"S_ok", "S_unk", "S_dup"})

\* Action properties: the first cause sticks and a closed connection processes nothing any more.
FirstCauseSticks == [][s.cerr # 0 => s' = s]_s
NoLateStart      == [][(~s.started) => (s'.started /\ s'.cerr = 0)]_s

NoDeviation == s.dev = {}

\* for the exhaustive configurations: peer streams are interchangeable; the outcome tag and the per-step
\* deviation set are bookkeeping that no invariant above reads
Sym    == Permutations(Uni)
mcView == [s EXCEPT !.tag = "", !.nd = {}]

\* frame alphabets for the exhaustive configurations (one representative per class of frames that the
\* actions treat alike)
Fr(k, v, w) == [k |-> k, v |-> v, w |-> w]
FramesSmall == {Fr("S_ok", 0, FALSE), Fr("S_h2", 0, FALSE), Fr("DATA", 0, FALSE), Fr("UNK", 0, FALSE),
                Fr("GOAWAY", 1, FALSE), Fr("MAX_PUSH_ID", 1, FALSE)}
FramesTiny  == {Fr("S_ok", 0, FALSE), Fr("DATA", 0, FALSE), Fr("UNK", 0, FALSE)}
FramesMid   == FramesSmall \cup {Fr("S_dup", 0, FALSE), Fr("S_bad", 0, FALSE), Fr("CANCEL_PUSH", 0, FALSE),
                Fr("H2RES", 0, FALSE), Fr("GOAWAY", 0, FALSE), Fr("GOAWAY", 2, FALSE), Fr("GOAWAY", 1, TRUE),
                Fr("MAX_PUSH_ID", 0, FALSE), Fr("MAX_PUSH_ID", 2, FALSE)}
=============================================================================
