-------------------------------- MODULE Gen --------------------------------
(* Script generator: random walks through H3Conn (with every named deviation enabled, so *)
(* that scripts follow both what the RFC and what golang/net would do next) exported as   *)
(* the list of events only.  The driver executes each script against a real connection   *)
(* of the role in its header, records the reaction after every event, and Trace.tla       *)
(* judges.  A walk is printed when the model's connection is closed or the script has     *)
(* GenDepth events.                                                                       *)
(*                                                                                       *)
(* focus = "any": every event of H3Conn.  Because most mistakes of the peer end the       *)
(* connection, two more families of walks start with a fixed prefix and then stay on the  *)
(* control stream: "ctl" (start, open, control type) and "ready" (the same plus a         *)
(* SETTINGS frame; "goaway": plus a GOAWAY frame), followed by frames, cut-off frames, FIN / RESET of the control stream, *)
(* further streams with their types (but no FIN / RESET on those) and local calls;       *)
(* "streams": no prefix, only stream creation, (partial) types other than push, data and   *)
(* local calls, so that walks live until two streams claim the same critical type.  TLC's simulator first picks one of the disjuncts of GNext, then one  *)
(* of its successors: the disjuncts below are the classes that are to be equally likely.  *)
EXTENDS H3Conn, Json

CONSTANT GenDepth, Foci
VARIABLES hist, focus
gvars == <<s, hist, focus>>

GInit == Init /\ focus \in Foci /\ hist = <<[e |-> "hdr", role |-> s.role, focus |-> focus]>>

Rec(r) == hist' = Append(hist, r) /\ UNCHANGED focus

Ctl == s.own["ctl"]
One == CHOOSE i \in Uni : \A j \in Uni : i <= j
N   == Len(hist)
PrefixLen == CASE focus \in {"any", "streams"} -> 1 [] focus = "ctl" -> 3 [] focus = "goaway" -> 5 [] OTHER -> 4
Free  == N < GenDepth /\ N > PrefixLen                   \* past the fixed prefix
Wide  == Free /\ focus = "any"
Ctrl  == Free /\ focus # "streams"                       \* "streams": only stream creation, types, data, local calls

Frame(f) == PeerFrame(f) /\ Rec([e |-> "frame", u |-> Ctl, k |-> f.k, v |-> f.v, w |-> f.w])
FrameOfKind(K) == Ctrl /\ \E f \in {x \in FrameSet : x.k \in K} : Frame(f)

GStart == N = 1 /\ Start /\ Rec([e |-> "start"])
GPrefix ==
    /\ N > 1 /\ N <= PrefixLen
    /\ CASE N = 2 -> PeerOpen(One) /\ Rec([e |-> "open", u |-> One])
         [] N = 3 -> PeerHdr(One, "ctl") /\ Rec([e |-> "hdr", u |-> One, ty |-> "ctl"])
         [] N = 4 -> \E f \in {x \in FrameSet : x.k \in {"S_ok", "S_unk"}} : Frame(f)
         [] OTHER -> \E f \in {x \in FrameSet : x.k = "GOAWAY"} : Frame(f)

GOpen  == Free /\ \E i \in Uni : PeerOpen(i) /\ Rec([e |-> "open", u |-> i])
GHPart == Free /\ \E i \in Uni : PeerHdrPart(i) /\ Rec([e |-> "hpart", u |-> i])
GHdr(t) == Free /\ (t # "push" \/ focus # "streams") /\ \E i \in Uni : PeerHdr(i, t) /\ Rec([e |-> "hdr", u |-> i, ty |-> t])
GData  == Free /\ \E i \in Uni : PeerData(i) /\ Rec([e |-> "data", u |-> i])
GEnd(how) == Wide /\ \E i \in Uni : PeerEnd(i, how) /\ Rec([e |-> "end", u |-> i, how |-> how])
GEndCtl(how) == Ctrl /\ Ctl # NoStream /\ PeerEnd(Ctl, how) /\ Rec([e |-> "end", u |-> Ctl, how |-> how])
GFPart == Ctrl /\ \E w \in Cuts : PeerFramePart(w) /\ Rec([e |-> "fpart", u |-> Ctl, cut |-> w])
GBidi  == Ctrl /\ PeerBidi /\ Rec([e |-> "bidi"])
GReq   == Free /\ PeerRequest /\ Rec([e |-> "req"])
GRt    == Free /\ LocalRoundTrip /\ Rec([e |-> "rt"])
GShut  == Free /\ LocalGoaway(s.nrq) /\ Rec([e |-> "shutdown"])
GShutEnd == Free /\ LocalShutdownEnd /\ Rec([e |-> "shutend"])

GNext ==
    \/ GStart \/ GPrefix
    \/ GOpen \/ GOpen \/ GHPart
    \/ GHdr("ctl") \/ GHdr("enc") \/ GHdr("dec") \/ GHdr("push") \/ GHdr("unk") \/ GHdr("unk")
    \/ GHdr("ctl") \/ GHdr("enc") \/ GHdr("dec") \/ GHdr("enc") \/ GHdr("dec")
    \/ GData \/ GEnd("fin") \/ GEnd("reset")
    \/ GEndCtl("fin") \/ GEndCtl("reset") \/ GFPart \/ GFPart \/ GEndCtl("fin")
    \/ FrameOfKind({"S_ok", "S_unk"}) \/ FrameOfKind({"S_h2"}) \/ FrameOfKind({"S_h2"}) \/ FrameOfKind({"S_h2"}) \/ FrameOfKind({"S_dup"}) \/ FrameOfKind({"S_bad"})
    \/ FrameOfKind(RequestKinds) \/ FrameOfKind({"CANCEL_PUSH"}) \/ FrameOfKind({"MAX_PUSH_ID"})
    \/ FrameOfKind({"GOAWAY"}) \/ FrameOfKind({"UNK"}) \/ FrameOfKind({"UNK"}) \/ FrameOfKind({"H2RES"})
    \/ GBidi \/ GReq \/ GRt \/ GShut \/ GShutEnd

GSpec == GInit /\ [][GNext]_gvars

Emit == (s.cerr = 0 /\ N < GenDepth) \/ PrintT(<<"BEH", ToJson(hist)>>)
=============================================================================
