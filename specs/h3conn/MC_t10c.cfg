\* X10 thorough: every named deviation enabled, 1 peer stream, 4 frames out of all 20 classes, 2 requests
SPECIFICATION Spec
CONSTANTS
  Uni = {u1}
  NoStream = NoStream
  MaxFrames = 4
  MaxReq = 2
  FrameSet <- Frames
  Devs <- AllDevs
SYMMETRY Sym
VIEW mcView
INVARIANTS TypeOK AtMostOneCritical ClosedIsQuiet NoFalseClosure NoMissedViolation CodeMatchesCause GoawayBoundsRequests SettingsOnlyFirst
PROPERTIES FirstCauseSticks NoLateStart
CHECK_DEADLOCK FALSE
