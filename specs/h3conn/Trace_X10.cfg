SPECIFICATION TSpec
CONSTANTS
  Uni <- AllStreams
  NoStream = 0
  MaxFrames = 1000
  MaxReq = 1000
  FrameSet <- Frames
  Devs <- AllDevs
  Judge <- JudgeX10
INVARIANTS NoFinding
CONSTRAINT Mark
POSTCONDITION Post
CHECK_DEADLOCK FALSE
