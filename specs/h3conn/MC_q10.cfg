\* X10 quick: RFC behaviour, 1 peer stream, 3 control frames out of 15 classes, 1 request
SPECIFICATION Spec
CONSTANTS
  Uni = {u1}
  NoStream = NoStream
  MaxFrames = 3
  MaxReq = 1
  FrameSet <- FramesMid
  Devs = {}
SYMMETRY Sym
VIEW mcView
INVARIANTS TypeOK AtMostOneCritical ClosedIsQuiet NoFalseClosure NoMissedViolation CodeMatchesCause GoawayBoundsRequests SettingsOnlyFirst
PROPERTIES FirstCauseSticks NoLateStart
CHECK_DEADLOCK FALSE
