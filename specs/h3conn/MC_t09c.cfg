\* X09 thorough: every named deviation of golang/net enabled, 3 peer streams, 2 frames
SPECIFICATION Spec
CONSTANTS
  Uni = {u1, u2, u3}
  NoStream = NoStream
  MaxFrames = 2
  MaxReq = 1
  FrameSet <- FramesSmall
  Devs <- AllDevs
SYMMETRY Sym
VIEW mcView
INVARIANTS TypeOK AtMostOneCritical ClosedIsQuiet NoFalseClosure NoMissedViolation CodeMatchesCause GoawayBoundsRequests SettingsOnlyFirst
PROPERTIES FirstCauseSticks NoLateStart
CHECK_DEADLOCK FALSE
