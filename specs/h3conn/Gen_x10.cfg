SPECIFICATION GSpec
CONSTANTS
  Uni = {1, 2, 3}
  NoStream = 0
  MaxFrames = 4
  MaxReq = 2
  FrameSet <- Frames
  Devs <- AllDevs
  GenDepth = 14
  Foci = {"any", "ctl", "ready", "ready2", "goaway", "streams"}
INVARIANT Emit
CHECK_DEADLOCK FALSE
