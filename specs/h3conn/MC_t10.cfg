\* X10 thorough: RFC behaviour, 2 peer streams, 4 control frames out of 15 classes
SPECIFICATION Spec
CONSTANTS
  Uni = {u1, u2}
  NoStream = NoStream
  MaxFrames = 4
  MaxReq = 1
  FrameSet <- FramesMid
  Devs = {}
SYMMETRY Sym
VIEW mcView
INVARIANTS TypeOK AtMostOneCritical ClosedIsQuiet NoFalseClosure NoMissedViolation CodeMatchesCause GoawayBoundsRequests SettingsOnlyFirst
PROPERTIES FirstCauseSticks NoLateStart
CHECK_DEADLOCK FALSE
