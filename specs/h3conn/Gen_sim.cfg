SPECIFICATION GSpec
CONSTANTS
  Uni = {1, 2, 3, 4}
  NoStream = 0
  MaxFrames = 4
  MaxReq = 2
  FrameSet <- Frames
  Devs <- AllDevs
  GenDepth = 14
  Foci = {"any", "ctl", "ready", "goaway", "streams"}
INVARIANT Emit
CHECK_DEADLOCK FALSE
