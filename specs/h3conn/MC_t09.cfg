\* X09 thorough: RFC behaviour, 4 peer streams
SPECIFICATION Spec
CONSTANTS
  Uni = {u1, u2, u3, u4}
  NoStream = NoStream
  MaxFrames = 1
  MaxReq = 0
  FrameSet <- FramesSmall
  Devs = {}
SYMMETRY Sym
VIEW mcView
INVARIANTS TypeOK AtMostOneCritical ClosedIsQuiet NoFalseClosure NoMissedViolation CodeMatchesCause GoawayBoundsRequests SettingsOnlyFirst
PROPERTIES FirstCauseSticks NoLateStart
CHECK_DEADLOCK FALSE
