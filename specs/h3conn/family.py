# Family hooks for h3conn (X09, X10).
#
# signature(): a trace rejected by the invariant NoFinding is named by the deviation of H3Conn.tla that was
# needed to explain the step (one defect of golang/net = one name); every other rejection (a line that no
# action of the specification matches, a panic, a hang) by the event and the reaction that was observed, so
# that a different misbehaviour is still reported as new.
import re


def signature(prop, kind, scenario, detail):
    what = (detail or {}).get("what", "")
    if "invariant NoFinding violated" in what:
        m = re.search(r'nd \|-> \{([^}]*)\}', what)
        if m:
            names = sorted(x.strip().strip('\\"') for x in m.group(1).split(",") if x.strip())
            return "deviation:" + "+".join(names)
    if kind == "trace" and isinstance(scenario, dict) and scenario.get("lines"):
        lines = scenario["lines"]
        last = lines[-1]
        role = lines[0].get("role", "?")
        if last.get("e") in ("panic", "hang"):
            return "%s;%s;%s" % (role, last.get("e"), last.get("in", ""))
        keys = ("e", "ty", "how", "k", "w", "cut", "res", "sent", "conn", "first", "lclosed")
        desc = ",".join("%s=%s" % (k, last[k]) for k in keys if k in last)
        return "%s;unmatched;%s;reg=%s" % (role, desc, "+".join(last.get("reg", [])))
    return None


# --------------------------------------------------------------------------- custom stage
# record_validate plus the per-action coverage that Trace.tla counts (COVER / DEVIATION lines printed by its
# postcondition): which outcomes of which actions of H3Conn occurred in validated steps.  The numbers go into
# the evidence (coverage.action_coverage, coverage.deviations_taken); outcomes that golang/net can show but
# that no script of this run reached are logged as COVERAGE-GAP (a weakness of the run, not a verdict).

# outcomes that cannot occur with the unchanged golang/net: the RFC behaviour is shadowed by a named deviation
# (T1: QPACK streams unread, T2: GOAWAY stops the control stream, T3, T4, F5, F7) or by a choice the code makes
# the other way (unknown types are aborted, duplicate settings accepted, GOAWAY always sent)
SHADOWED = {
    "hdr/qpack", "end/qpack", "hdr/unknown-drained", "end/no-header", "frame/settings-dup-rejected",
    "frame/max-push-id", "frame/max-push-id-reduced", "frame/goaway", "frame/goaway-bad-id",
    "frame/http2-type", "rt/refused", "shutdown-silent",
    "shutdown-end-transport",      # can occur (about 1 shutdown in 150: the endpoint's close wins a race), too rare to demand
}


# which outcomes a property's own run has to reach (the other property's run reaches the rest)
RELEVANT = {
    "X09": ("start", "open", "hpart", "hdr/", "data", "end/", "bidi", "fpart", "ignored", "final"),
    "X10": ("start", "frame/", "fpart", "req/", "rt/", "goaway", "shutdown", "ignored", "final"),
}


def record_validate_cover(ctx, st):
    import json
    import os
    import stages
    import vlib
    from vlib import Infra, log, sha

    args = dict(st.get("driver_args") or {})
    items, _ = stages.generate(ctx, st)
    infile = os.path.join(ctx.scratch.dir, "items-%s.ndjson" % sha(st, 8))
    with open(infile, "w") as f:
        for i, v in enumerate(items):
            f.write(json.dumps({"b": i, "v": v}, separators=(",", ":")) + "\n")
    ctx.add_sample({"stage": "tlc_generated_scenario", "item": items[0]})
    res, outdir = vlib.run_driver(stages._fam_for(ctx, st), ctx.scratch.dir, "record", args, ctx.seed, ctx.tier,
                                  infile=infile, timeout=st.get("driver_timeout", 420), test=st.get("go_test"))
    tf = os.path.join(outdir, "trace.ndjson")
    if not os.path.isfile(tf):
        raise Infra("driver wrote no trace.ndjson")
    lines = [json.loads(x) for x in open(tf) if x.strip()]
    if not lines:
        raise Infra("driver recorded an empty trace")
    log("[record] %d traces, %d events recorded from the real code, %.1fs" %
        (res.get("traces", 0), len(lines), res["_wall"]))
    groups, order, fails, r = stages.validate_traces(ctx, st, lines)
    ctx.traces += len(order)
    ctx.evaluations += len(lines)
    ctx.trace_states = getattr(ctx, "trace_states", 0) + r.distinct
    for t in order:
        g = groups[t]
        if len(g) >= st.get("min_events", 4):
            ctx.distinct.add(sha([stages._strip(x) for x in g], 16))
    for t in order[:1]:
        ctx.add_sample({"stage": "record_validate", "trace": [stages._strip(x) for x in groups[t][:40]]})
    ctx.exhaustive.append(False)
    seen_sig = set()
    for t, (idx, why) in sorted(fails.items()):
        scn = {"t": t, "lines": [stages._strip(x) for x in groups[t][:idx + 1]]}
        detail = {"what": why, "fail_index": idx}
        sig = stages.signature(ctx, "trace", scn, detail)
        if sig in seen_sig:
            continue
        seen_sig.add(sig)
        stages.record_violation(ctx, "trace", scn, detail, st)

    cover = ctx.extra.setdefault("action_coverage", {})
    devs = ctx.extra.setdefault("deviations_taken", {})
    for p in r.prints:
        if p[0] == "COVER" and len(p) >= 3:
            cover[p[1]] = cover.get(p[1], 0) + int(p[2])
        elif p[0] == "DEVIATION" and len(p) >= 3:
            devs[p[1]] = devs.get(p[1], 0) + int(p[2])
    if st.get("report_gaps", True) and cover:
        rel = RELEVANT.get(ctx.prop, ("",))
        gaps = sorted(k for k, n in cover.items() if n == 0 and k not in SHADOWED and k.startswith(rel))
        hit = sum(1 for n in cover.values() if n > 0)
        log("[cover] %d of %d action outcomes occurred in validated steps (%d cannot occur with golang/net as it is)"
            % (hit, len(cover), len(SHADOWED)))
        if gaps:
            log("COVERAGE-GAP property=%s: no validated step for %s" % (ctx.prop, ", ".join(gaps)))
            ctx.notes.append("action outcomes not reached in this run: " + ", ".join(gaps))
    if not os.environ.get("VERIF_KEEP"):
        import shutil
        shutil.rmtree(outdir, ignore_errors=True)
