-------------------------------- MODULE Gen --------------------------------
(* Behaviour generator: contract-respecting scheduler histories out of WriteSched. *)
(* Only the operations are exported (not the model's Pop results): the driver runs  *)
(* each history on all four real schedulers and TLC judges what they returned.      *)
EXTENDS WriteSched, Json

CONSTANT GenDepth
VARIABLE hist
gvars == <<vars, hist>>

GInit == Init /\ hist = <<[e |-> "hdr", kind |-> "all"]>>

Rec(r) == hist' = Append(hist, r)

GNext ==
    \/ \E s \in Streams, p \in PrioSet, w \in 0..MaxWin :
          Open(s, p, w) /\ Rec([e |-> "open", s |-> s, u |-> p.u, inc |-> p.i, w |-> w])
    \/ \E s \in Streams : Close(s) /\ Rec([e |-> "close", s |-> s])
    \/ \E s \in Streams, p \in PrioSet :
          Adjust(s, p) /\ Rec([e |-> "adjust", s |-> s, u |-> p.u, inc |-> p.i, dep |-> (s + p.u) % 4, wt |-> ((s * 37 + p.u * 11 + p.i) % 3) * 100])
    \/ /\ nextId <= MaxFrames
       /\ \/ /\ Push([id |-> nextId, sid |-> 0, kind |-> "c", size |-> 0, es |-> FALSE, off |-> 0, fin |-> TRUE])
             /\ Rec([e |-> "push", kind |-> "c", s |-> 1, size |-> 0, es |-> FALSE])
          \/ \E s \in open :
             /\ Push([id |-> nextId, sid |-> s, kind |-> "h", size |-> 0, es |-> FALSE, off |-> 0, fin |-> TRUE])
             /\ Rec([e |-> "push", kind |-> "h", s |-> s, size |-> 0, es |-> FALSE])
          \/ \E s \in open, n \in 0..MaxData, b \in BOOLEAN :
             /\ Push([id |-> nextId, sid |-> s, kind |-> "d", size |-> n, es |-> b, off |-> 0, fin |-> TRUE])
             /\ Rec([e |-> "push", kind |-> "d", s |-> s, size |-> n, es |-> b])
    \/ \E s \in open, w \in (0 - NegWin)..MaxWin : SetWin(s, w) /\ Rec([e |-> "win", s |-> s, w |-> w])
    \/ \E w \in 0..MaxWin : SetCWin(w) /\ Rec([e |-> "cwin", w |-> w])
    \/ \E m \in 1..MaxMF : SetMF(m) /\ Rec([e |-> "mf", m |-> m])
    \/ Pop /\ Rec([e |-> "pop"])

GSpec == GInit /\ [][GNext]_gvars

Emit == Len(hist) <= GenDepth \/ PrintT(<<"BEH", ToJson(hist)>>)
=============================================================================
