SPECIFICATION Spec
CONSTANTS
  Streams = {1, 2}
  Policies = {"rr", "random"}
  MaxFrames = 2
  MaxData = 1
  MaxWin = 1
  MaxMF = 1
  NegWin = 0
  Urg = {3}
INVARIANTS TypeOK NoStuckPop 
PROPERTIES PolicyRefinesAny ControlFirst WindowsRespected
CHECK_DEADLOCK FALSE
VIEW viewNoLast
