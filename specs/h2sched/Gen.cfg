SPECIFICATION GSpec
CONSTANTS
  Streams = {1, 2, 3}
  Policies = {"rfc9218"}
  MaxFrames = 12
  MaxData = 3
  MaxWin = 3
  MaxMF = 2
  NegWin = 1
  Urg = {0, 3, 7}
  GenDepth = 24
INVARIANT Emit
CHECK_DEADLOCK FALSE
